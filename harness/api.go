package main

import (
	"bytes"
	"fmt"
	"runtime"
	"strconv"
	"strings"
	"time"

	rs "github.com/klauspost/reedsolomon"
)

// shapes: comma list; n = nil, e = empty, c<k> = empty with capacity k, <len> = that many seeded bytes
func parseShapes(s string, seed uint64) [][]byte {
	if s == "-" || s == "" {
		return [][]byte{}
	}
	var out [][]byte
	for i, t := range strings.Split(s, ",") {
		switch {
		case t == "n":
			out = append(out, nil)
		case t == "e":
			out = append(out, []byte{})
		case strings.HasPrefix(t, "c"):
			out = append(out, make([]byte, 0, atoi(t[1:])))
		default:
			out = append(out, fill(seed, i, atoi(t)))
		}
	}
	return out
}

func outcome(err error) string {
	if err == nil {
		return "ok"
	}
	return "err " + errClass(err)
}

// watchdog: run f with a timeout; report hangs and goroutine leaks
func guarded(f func() string) string {
	before := runtime.NumGoroutine()
	ch := make(chan string, 1)
	go func() {
		defer func() {
			if r := recover(); r != nil {
				msg := fmt.Sprint(r)
				if i := strings.IndexByte(msg, '\n'); i >= 0 {
					msg = msg[:i]
				}
				ch <- "panic " + strings.ReplaceAll(msg, " ", "_")
			}
		}()
		ch <- f()
	}()
	select {
	case r := <-ch:
		for i := 0; i < 50 && runtime.NumGoroutine() > before; i++ {
			time.Sleep(2 * time.Millisecond)
		}
		if runtime.NumGoroutine() > before {
			return r + " LEAK"
		}
		return r
	case <-time.After(20 * time.Second):
		return "hang"
	}
}

func optFlags(s string) []rs.Option {
	var o []rs.Option
	if s == "-" {
		return o
	}
	for _, t := range strings.Split(s, ",") {
		switch t {
		case "leo8f":
			o = append(o, rs.WithLeopardGF(false))
		case "leo16f":
			o = append(o, rs.WithLeopardGF16(false))
		case "leo8":
			o = append(o, rs.WithLeopardGF(true))
		case "leo16":
			o = append(o, rs.WithLeopardGF16(true))
		case "cauchy":
			o = append(o, rs.WithCauchyMatrix())
		case "par1":
			o = append(o, rs.WithPAR1Matrix())
		case "jerasure":
			o = append(o, rs.WithJerasureMatrix())
		case "xor":
			o = append(o, rs.WithFastOneParityMatrix())
		case "custom2x3":
			o = append(o, rs.WithCustomMatrix([][]byte{{1, 2, 3}, {4, 5, 6}}))
		case "ic-":
			o = append(o, rs.WithInversionCache(false))
		case "ag":
			o = append(o, rs.WithAutoGoroutines(4096))
		case "bs0":
			o = append(o, rs.WithStreamBlockSize(0))
		case "cs":
			o = append(o, rs.WithConcurrentStreams(true))
		default:
			o = append(o, parseOpts(t)...)
		}
	}
	return o
}

// usable: an encoder returned without error must Encode, Verify and Reconstruct a valid set
func usable(enc rs.Encoder, d, p int) string {
	total := d + p
	if total > 1<<12 {
		return "skipped"
	}
	ext := enc.(rs.Extensions)
	sizes := []int{64}
	if ext.ShardSizeMultiple() == 1 {
		sizes = []int{10}
	}
	if total <= 64 {
		// sizes on both sides of every goroutine-split threshold
		sizes = append(sizes, 4096+64, 40000*64/64, 1<<17)
	}
	for _, size := range sizes {
		sh := mkShards(d, p, size, 3)
		if err := enc.Encode(sh); err != nil {
			return "encode:" + errClass(err)
		}
		if ok, err := enc.Verify(sh); err != nil || !ok {
			return "verify-failed"
		}
		if p > 0 {
			orig := append([]byte(nil), sh[0]...)
			sh[0] = nil
			if err := enc.Reconstruct(sh); err != nil {
				return "reconstruct:" + errClass(err)
			}
			if !bytes.Equal(sh[0], orig) {
				return "reconstruct-wrong"
			}
		}
	}
	return "usable"
}

// new <d> <p> <optflags>   (d, p: any int64)
func opNew(a []string) string {
	d, _ := strconv.ParseInt(a[0], 10, 64)
	p, _ := strconv.ParseInt(a[1], 10, 64)
	return guarded(func() string {
		enc, err := rs.New(int(d), int(p), optFlags(a[2])...)
		if err != nil {
			return "err " + errClass(err)
		}
		v := rs.VerifOptions(enc)
		return "ok " + v.Kind + " " + usable(enc, int(d), int(p))
	})
}

// newstream <d> <p> <optflags>
func opNewStream(a []string) string {
	d, _ := strconv.ParseInt(a[0], 10, 64)
	p, _ := strconv.ParseInt(a[1], 10, 64)
	return guarded(func() string {
		_, err := rs.NewStream(int(d), int(p), optFlags(a[2])...)
		if err != nil {
			return "err " + errClass(err)
		}
		return "ok"
	})
}

// api <fam> <d> <p> <method> args…
func opAPI(a []string) string {
	fam, d, p, m := a[0], atoi(a[1]), atoi(a[2]), a[3]
	enc, err := newEnc(fam, d, p, "-")
	if err != nil {
		return "err(new) " + errClass(err)
	}
	args := a[4:]
	return guarded(func() string {
		switch m {
		case "enc":
			return outcome(enc.Encode(parseShapes(args[0], 1)))
		case "ver":
			_, err := enc.Verify(parseShapes(args[0], 1))
			return outcome(err)
		case "rec": // rec <mode> <reqlen>:<bits as list> <shapes>
			sh := parseShapes(args[2], 1)
			switch args[0] {
			case "all":
				return outcome(enc.Reconstruct(sh))
			case "data":
				return outcome(enc.ReconstructData(sh))
			default:
				f := strings.SplitN(args[1], ":", 2)
				n := atoi(f[0])
				var req []bool
				if n >= 0 {
					req = make([]bool, n)
					for _, i := range parseList(f[1]) {
						if i < n {
							req[i] = true
						}
					}
				}
				return outcome(enc.ReconstructSome(sh, req))
			}
		case "idx": // idx <dataLen|n> <idx> <parity shapes>
			var data []byte
			if args[0] != "n" {
				data = fill(2, 0, atoi(args[0]))
			}
			return outcome(enc.EncodeIdx(data, atoi(args[1]), parseShapes(args[2], 1)))
		case "upd": // upd <shapes> <newshapes>
			return outcome(enc.Update(parseShapes(args[0], 1), parseShapes(args[1], 2)))
		case "split": // split <len> <cap>
			n, c := atoi(args[0]), atoi(args[1])
			buf := make([]byte, n, c)
			sh, err := enc.Split(buf)
			if err != nil {
				return outcome(err)
			}
			return fmt.Sprintf("ok %d", len(sh))
		case "join": // join <outSize> <shapes>
			var w bytes.Buffer
			return outcome(enc.Join(&w, parseShapes(args[1], 1), atoi(args[0])))
		case "alloc": // alloc <each>
			each := atoi(args[0])
			sh := enc.(rs.Extensions).AllocAligned(each)
			return fmt.Sprintf("ok %d", len(sh))
		}
		return "bad-op"
	})
}

func init() {
	extraOps["new"] = opNew
	extraOps["newstream"] = opNewStream
	extraOps["api"] = opAPI
}

// cpu: the cpuid values and defaults New starts from
func opCPU(a []string) string {
	l1d, l2, tpc, phys := rs.VerifCPU()
	enc, _ := rs.New(1, 1)
	v := rs.VerifOptions(enc)
	b := func(x bool) int {
		if x {
			return 1
		}
		return 0
	}
	return fmt.Sprintf("%d %d %d %d %d avx2=%d gfni=%d avxgfni=%d codegen=%d pshufb=%d", l1d, l2, tpc, phys, runtime.GOMAXPROCS(0),
		b(v.AVX2), b(v.GFNI), b(v.AVXGFNI), b(v.CodeGen), b(v.Pshufb))
}

// opts <l1d> <l2> <tpc> <phys> <gomaxprocs> <caps> <d> <p> <optflags> : derived perRound, minSplitSize, maxGoroutines
func opOpts(a []string) string {
	d, p := atoi(a[6]), atoi(a[7])
	enc, err := rs.New(d, p, optFlags(a[8])...)
	if err != nil {
		return "err " + errClass(err)
	}
	v := rs.VerifOptions(enc)
	return fmt.Sprintf("ok %d %d %d", v.PerRound, v.MinSplitSize, v.MaxGoroutines)
}

func init() {
	extraOps["cpu"] = opCPU
	extraOps["opts"] = opOpts
}
