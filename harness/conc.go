package main

import (
	"bytes"
	"fmt"
	"io"
	"math/rand"
	"runtime"
	"strings"
	"sync"
	"sync/atomic"
	"time"

	rs "github.com/klauspost/reedsolomon"
)

// conc <fam> <opts> <d> <p> <gomaxprocs> ; g ; sub ; sub ; g ; sub …
// every "g" starts the op list of one goroutine; all goroutines share ONE encoder and start together.
// Each sub-operation's answer is compared with the answer of a fresh encoder computed sequentially
// beforehand.  While Encode/Verify run, a reader goroutine keeps hashing the data shards of "e"/"v" subs.
func opConc(a []string) string {
	line := strings.Join(a, " ")
	parts := strings.Split(line, ";")
	h := strings.Fields(parts[0])
	fam, opts, d, p, gmp := h[0], h[1], atoi(h[2]), atoi(h[3]), atoi(h[4])
	old := runtime.GOMAXPROCS(gmp)
	defer runtime.GOMAXPROCS(old)
	shared, err := newEnc(fam, d, p, opts)
	if err != nil {
		return "err " + errClass(err)
	}
	ref, _ := newEnc(fam, d, p, opts)
	var lists [][][]string
	for _, sub := range parts[1:] {
		f := strings.Fields(sub)
		if len(f) == 0 {
			continue
		}
		if f[0] == "g" {
			lists = append(lists, nil)
			continue
		}
		lists[len(lists)-1] = append(lists[len(lists)-1], f)
	}
	// sequential oracle
	type ans struct{ e, h, v string }
	want := make([][]ans, len(lists))
	for g, l := range lists {
		for _, f := range l {
			fresh, _ := newEnc(fam, d, p, opts)
			e, s, v := applySub(fresh, ref, d, p, f)
			want[g] = append(want[g], ans{e, hashShards(s), v})
		}
	}
	got := make([][]ans, len(lists))
	var wg sync.WaitGroup
	start := make(chan struct{})
	for g := range lists {
		wg.Add(1)
		go func(g int) {
			defer wg.Done()
			<-start
			for _, f := range lists[g] {
				e, s, v := applySub(shared, ref, d, p, f)
				got[g] = append(got[g], ans{e, hashShards(s), v})
				runtime.Gosched()
			}
		}(g)
	}
	close(start)
	wg.Wait()
	var out []string
	for g := range lists {
		for k := range lists[g] {
			same := "same"
			if got[g][k].e != want[g][k].e || got[g][k].h != want[g][k].h {
				same = "DIFF"
			}
			out = append(out, fmt.Sprintf("%s %s %s", got[g][k].e, same, got[g][k].v))
		}
	}
	return strings.Join(out, " ; ")
}

// concread <fam> <opts> <d> <p> <size> <iters>: callers read the data shards while Encode and Verify run on them
func opConcRead(a []string) string {
	fam, opts, d, p, size, iters := a[0], a[1], atoi(a[2]), atoi(a[3]), atoi(a[4]), atoi(a[5])
	enc, err := newEnc(fam, d, p, opts)
	if err != nil {
		return "err " + errClass(err)
	}
	sh := mkShards(d, p, size, 99)
	want := hashShards(sh[:d])
	stop := make(chan struct{})
	var wg sync.WaitGroup
	var bad int32
	for r := 0; r < 3; r++ {
		wg.Add(1)
		go func() {
			defer wg.Done()
			for {
				select {
				case <-stop:
					return
				default:
				}
				if hashShards(sh[:d]) != want {
					atomic.StoreInt32(&bad, 1)
				}
			}
		}()
	}
	for i := 0; i < iters; i++ {
		if err := enc.Encode(sh); err != nil {
			close(stop)
			wg.Wait()
			return "err " + errClass(err)
		}
		if ok, err := enc.Verify(sh); err != nil || !ok {
			close(stop)
			wg.Wait()
			return "verify-failed"
		}
	}
	close(stop)
	wg.Wait()
	if atomic.LoadInt32(&bad) != 0 {
		return "data-changed"
	}
	return "ok"
}

// concstream <d> <p> <B> <L> <n> <gomaxprocs> <conc>: n goroutines call Encode/Verify on ONE StreamEncoder
func opConcStream(a []string) string {
	d, p, B, L, n, gmp, conc := atoi(a[0]), atoi(a[1]), atoi(a[2]), atoi(a[3]), atoi(a[4]), atoi(a[5]), a[6]
	old := runtime.GOMAXPROCS(gmp)
	defer runtime.GOMAXPROCS(old)
	enc, err := newStream(d, p, B, conc, "-")
	if err != nil {
		return "err " + errClass(err)
	}
	res := make([]string, n)
	var wg sync.WaitGroup
	start := make(chan struct{})
	for g := 0; g < n; g++ {
		wg.Add(1)
		go func(g int) {
			defer wg.Done()
			<-start
			seed := uint64(1000 + g)
			set := encodedSet(d, p, L, seed)
			rds := make([]io.Reader, d)
			for i := range rds {
				rds[i] = bytes.NewReader(set[i])
			}
			ws := make([]io.Writer, p)
			bufs := make([]*bytes.Buffer, p)
			for j := range ws {
				bufs[j] = &bytes.Buffer{}
				ws[j] = bufs[j]
			}
			if err := enc.Encode(rds, ws); err != nil {
				res[g] = "err " + errClass(err)
				return
			}
			for j := range bufs {
				if !bytes.Equal(bufs[j].Bytes(), set[d+j]) {
					res[g] = "wrong-parity"
					return
				}
			}
			all := make([]io.Reader, d+p)
			for i := range all {
				all[i] = bytes.NewReader(set[i])
			}
			ok, err := enc.Verify(all)
			if err != nil || !ok {
				res[g] = "verify-failed"
				return
			}
			res[g] = "ok"
		}(g)
	}
	close(start)
	wg.Wait()
	for _, r := range res {
		if r != "ok" {
			return r
		}
	}
	return "ok"
}

// slowReader delivers its data in small pieces with a pause before each: a straggler among the shard streams of one call
type slowReader struct {
	data []byte
	pos  int
}

func (s *slowReader) Read(p []byte) (int, error) {
	time.Sleep(150 * time.Microsecond)
	runtime.Gosched()
	if s.pos >= len(s.data) {
		return 0, io.EOF
	}
	n := copy(p, s.data[s.pos:min(len(s.data), s.pos+97)])
	s.pos += n
	return n, nil
}

// concstreamf <d> <p> <B> <L> <n> <gomaxprocs> <rounds>: ONE StreamEncoder with concurrent I/O; n healthy callers run
// Encode+Verify for several rounds while a faulty caller keeps calling Encode with stream 0 failing at once and the other
// streams slow: its error must be reported, and the healthy callers' answers must stay right (a failed call must not
// leave readers behind that still write into a pooled block another caller receives)
func opConcStreamF(a []string) string {
	d, p, B, L, n, gmp, rounds := atoi(a[0]), atoi(a[1]), atoi(a[2]), atoi(a[3]), atoi(a[4]), atoi(a[5]), atoi(a[6])
	old := runtime.GOMAXPROCS(gmp)
	defer runtime.GOMAXPROCS(old)
	enc, err := newStream(d, p, B, "c", "-")
	if err != nil {
		return "err " + errClass(err)
	}
	// history first: calls that FAIL before reading anything (valid and fill given for the same index) must leave the
	// encoder's block pool in order for the concurrent callers that follow
	for k := 0; k < 3; k++ {
		set := encodedSet(d, p, L, 5)
		valid := make([]io.Reader, d+p)
		fill := make([]io.Writer, d+p)
		for i := range valid {
			valid[i] = bytes.NewReader(set[i])
		}
		fill[k%(d+p)] = io.Discard
		if err := enc.Reconstruct(valid, fill); err == nil {
			return "mismatch-accepted"
		}
	}
	res := make([]string, n+1)
	var wg, hw sync.WaitGroup
	start := make(chan struct{})
	stop := make(chan struct{})
	// the faulty caller
	wg.Add(1)
	go func() {
		defer wg.Done()
		<-start
		set := encodedSet(d, p, L, 77)
		res[n] = "ok"
		for {
			select {
			case <-stop:
				return
			default:
			}
			rds := make([]io.Reader, d)
			rds[0] = &fragReader{data: set[0], failAt: 0, rng: rand.New(rand.NewSource(1))}
			for i := 1; i < d; i++ {
				rds[i] = &slowReader{data: set[i]}
			}
			ws := make([]io.Writer, p)
			for j := range ws {
				ws[j] = io.Discard
			}
			if err := enc.Encode(rds, ws); err == nil {
				res[n] = "fault-accepted"
				return
			}
		}
	}()
	for g := 0; g < n; g++ {
		wg.Add(1)
		hw.Add(1)
		go func(g int) {
			defer wg.Done()
			defer hw.Done()
			<-start
			res[g] = "ok"
			for r := 0; r < rounds && res[g] == "ok"; r++ {
				set := encodedSet(d, p, L, uint64(1000+g*131+r))
				rds := make([]io.Reader, d)
				for i := range rds {
					rds[i] = bytes.NewReader(set[i])
				}
				ws := make([]io.Writer, p)
				bufs := make([]*bytes.Buffer, p)
				for j := range ws {
					bufs[j] = &bytes.Buffer{}
					ws[j] = bufs[j]
				}
				if err := enc.Encode(rds, ws); err != nil {
					res[g] = "err " + errClass(err)
					return
				}
				for j := range bufs {
					if !bytes.Equal(bufs[j].Bytes(), set[d+j]) {
						res[g] = "wrong-parity"
						return
					}
				}
				all := make([]io.Reader, d+p)
				for i := range all {
					all[i] = bytes.NewReader(set[i])
				}
				if ok, err := enc.Verify(all); err != nil || !ok {
					res[g] = "verify-failed"
					return
				}
			}
		}(g)
	}
	close(start)
	hw.Wait() // the healthy callers are done: stop the faulty one
	close(stop)
	wg.Wait()
	for _, r := range res {
		if r != "ok" {
			return r
		}
	}
	return "ok"
}

// concver <fam> <opts> <d> <p> <size> <n> <ms>: n goroutines call Verify (and some Encode) on ONE encoder, each on its own
// valid shard set, for ms milliseconds; every verdict must be (true, nil)
func opConcVer(a []string) string {
	fam, opts, d, p, size, n, ms := a[0], a[1], atoi(a[2]), atoi(a[3]), atoi(a[4]), atoi(a[5]), atoi(a[6])
	enc, err := newEnc(fam, d, p, opts)
	if err != nil {
		return "err " + errClass(err)
	}
	var wrong int32
	var calls int64
	var wg sync.WaitGroup
	start := make(chan struct{})
	deadline := make(chan struct{})
	for g := 0; g < n; g++ {
		wg.Add(1)
		go func(g int) {
			defer wg.Done()
			sh := mkShards(d, p, size, uint64(500+g))
			if err := enc.Encode(sh); err != nil {
				atomic.StoreInt32(&wrong, 2)
				return
			}
			<-start
			for {
				select {
				case <-deadline:
					return
				default:
				}
				ok, err := enc.Verify(sh)
				atomic.AddInt64(&calls, 1)
				if err != nil || !ok {
					atomic.StoreInt32(&wrong, 1)
					return
				}
				if g%4 == 3 {
					if err := enc.Encode(sh); err != nil {
						atomic.StoreInt32(&wrong, 2)
						return
					}
				}
			}
		}(g)
	}
	close(start)
	timer := make(chan struct{})
	go func() {
		t0 := nowMs()
		for nowMs()-t0 < int64(ms) && atomic.LoadInt32(&wrong) == 0 {
			runtime.Gosched()
		}
		close(timer)
	}()
	<-timer
	close(deadline)
	wg.Wait()
	switch atomic.LoadInt32(&wrong) {
	case 1:
		return "verify-false-on-valid-set"
	case 2:
		return "encode-error"
	}
	return "ok"
}

// concsame <fam> <opts> <d> <p> <gomaxprocs> <n> <rounds> <seed>: in every round n goroutines are released TOGETHER on ONE
// fresh erasure pattern (they all miss the cache and insert the same key at once), each on its own shard set; then one
// sequential call with another fresh pattern follows (an insert that needs the exclusive lock).  Every restored shard is
// compared with the original.  Run under `guard`: a call that never returns is reported as "hang".
func opConcSame(a []string) string {
	fam, opts, d, p, gmp, n, rounds, seed := a[0], a[1], atoi(a[2]), atoi(a[3]), atoi(a[4]), atoi(a[5]), atoi(a[6]), atou(a[7])
	old := runtime.GOMAXPROCS(gmp)
	defer runtime.GOMAXPROCS(old)
	shared, err := newEnc(fam, d, p, opts)
	if err != nil {
		return "err " + errClass(err)
	}
	ref, _ := newEnc(fam, d, p, opts)
	size := 64
	rng := rand.New(rand.NewSource(int64(seed)))
	pattern := func() []int {
		k := 1 + rng.Intn(p)
		E := rng.Perm(d + p)[:k]
		E[0] = rng.Intn(d) // at least one data shard: the decode matrix is needed
		return E
	}
	one := func(E []int, s uint64) string {
		sh := mkShards(d, p, size, s)
		if err := ref.Encode(sh); err != nil {
			return "encode-error"
		}
		orig := make([][]byte, len(sh))
		for i := range sh {
			orig[i] = append([]byte(nil), sh[i]...)
		}
		for _, e := range E {
			sh[e] = nil
		}
		if err := shared.Reconstruct(sh); err != nil {
			return "err " + errClass(err)
		}
		for i := range sh {
			if !bytes.Equal(sh[i], orig[i]) {
				return "WRONG"
			}
		}
		return "ok"
	}
	for r := 0; r < rounds; r++ {
		E := pattern()
		res := make([]string, n)
		var wg sync.WaitGroup
		start := make(chan struct{})
		for g := 0; g < n; g++ {
			wg.Add(1)
			go func(g int) {
				defer wg.Done()
				<-start
				res[g] = one(E, seed+uint64(r*1000+g))
			}(g)
		}
		close(start)
		wg.Wait()
		for g := range res {
			if res[g] != "ok" {
				return fmt.Sprintf("round%d g%d %s", r, g, res[g])
			}
		}
		if s := one(pattern(), seed+uint64(r*1000+999)); s != "ok" {
			return fmt.Sprintf("round%d seq %s", r, s)
		}
	}
	return "ok"
}

func init() {
	extraOps["concsame"] = opConcSame
	extraOps["concver"] = opConcVer
	extraOps["conc"] = opConc
	extraOps["concread"] = opConcRead
	extraOps["concstream"] = opConcStream
	extraOps["concstreamf"] = opConcStreamF
	_ = rs.ErrShardSize
}

func nowMs() int64 { return time.Now().UnixNano() / 1e6 }
