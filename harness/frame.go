package main

import (
	"bytes"
	"fmt"
	"math/rand"
	"strings"
	"unsafe"

	rs "github.com/klauspost/reedsolomon"
)

// layout: every shard is a sub-slice of ONE arena filled with a sentinel, separated by random gaps, with
// random spare capacity; after the call every arena byte outside the allowed write set must be unchanged.
type region struct{ off, length, capacity int }

const sentinel = 0xC9

func layout(n, size int, rng *rand.Rand, caps []int) ([]byte, []region) {
	regs := make([]region, n)
	off := rng.Intn(100) + 1
	for i := range regs {
		c := size + rng.Intn(3)*rng.Intn(70)
		if caps != nil && caps[i] >= 0 {
			c = caps[i]
		}
		regs[i] = region{off, size, c}
		off += c + rng.Intn(200) + 1
	}
	arena := bytes.Repeat([]byte{sentinel}, off+64)
	return arena, regs
}

// frame <fam> <opts> <d> <p> <size> <seed> <op> <args…>
//
//	enc | ver <flip>| rec <mode> <E> <req> <capmode: big|small|exact|zero> | idx <order> | upd <changed> <nils>
//
// output: per shard u (untouched) / w (written in place inside [0,len)) / a (re-allocated: caller memory untouched),
// then guards=ok|BAD(where)
func opFrame(a []string) string {
	fam, opts, d, p, size, seed, op := a[0], a[1], atoi(a[2]), atoi(a[3]), atoi(a[4]), atou(a[5]), a[6]
	args := a[7:]
	enc, err := newEnc(fam, d, p, opts)
	if err != nil {
		return "err " + errClass(err)
	}
	rng := rand.New(rand.NewSource(int64(seed)))
	total := d + p
	ref := mkShards(d, p, size, seed)
	refEnc, _ := newEnc(fam, d, p, "-")
	if op != "enc" && op != "idx" && op != "encw" {
		if err := refEnc.Encode(ref); err != nil {
			return "err(encode) " + errClass(err)
		}
	}
	// capacities for missing shards in rec
	var caps []int
	missing := map[int]bool{}
	if op == "rec" {
		caps = make([]int, total)
		for i := range caps {
			caps[i] = -1
		}
		for _, e := range parseList(args[1]) {
			missing[e] = true
			switch args[3] {
			case "big":
				caps[e] = size + 17
			case "exact":
				caps[e] = size
			case "small":
				caps[e] = size - 1
			case "zero":
				caps[e] = 0
			}
		}
	}
	arena, regs := layout(total, size, rng, caps)
	sh := make([][]byte, total)
	for i, r := range regs {
		if missing[i] {
			if r.capacity == 0 {
				sh[i] = nil
			} else {
				sh[i] = arena[r.off : r.off : r.off+r.capacity]
			}
			continue
		}
		sh[i] = arena[r.off : r.off+r.length : r.off+r.capacity]
		copy(sh[i], ref[i])
		if (op == "enc" || op == "encw") && i >= d {
			copy(sh[i], fill(seed^0x5bd1e995, 4000+i, size)) // stale parity: Encode must overwrite
		}
	}
	// Update needs separate new-data buffers, also guarded
	var newData [][]byte
	var arena2, snap2 []byte
	if op == "upd" {
		changed := parseList(args[0])
		var regs2 []region
		arena2, regs2 = layout(d, size, rng, nil)
		newData = make([][]byte, d)
		for _, c := range changed {
			r := regs2[c]
			newData[c] = arena2[r.off : r.off+r.length : r.off+r.capacity]
			copy(newData[c], fill(seed+1, c, size))
		}
		for _, c := range parseList(args[1]) {
			sh[c] = nil
		}
		snap2 = append([]byte(nil), arena2...)
	}
	snap := append([]byte(nil), arena...)
	given := make([][]byte, total)
	copy(given, sh)
	var callErr error
	switch op {
	case "encw":
		// the encoder has served a LARGER shard size before (pooled work buffers are longer than needed now)
		big := mkShards(d, p, atoi(args[0]), seed+7)
		if err := enc.Encode(big); err != nil {
			return "err(warm) " + errClass(err)
		}
		if ok, err := enc.Verify(big); err != nil || !ok {
			return "err(warm-verify)"
		}
		callErr = enc.Encode(sh)
	case "enc":
		callErr = enc.Encode(sh)
	case "ver":
		_, callErr = enc.Verify(sh)
	case "rec":
		switch args[0] {
		case "all":
			callErr = enc.Reconstruct(sh)
		case "data":
			callErr = enc.ReconstructData(sh)
		default:
			n := d
			if args[0] == "someT" {
				n = total
			}
			req := make([]bool, n)
			for _, i := range parseList(args[2]) {
				if i < n {
					req[i] = true
				}
			}
			callErr = enc.ReconstructSome(sh, req)
		}
	case "idx":
		for _, c := range parseList(args[0]) {
			if callErr = enc.EncodeIdx(sh[c], c, sh[d:]); callErr != nil {
				break
			}
		}
	case "upd":
		callErr = enc.Update(sh, newData)
	}
	// classify
	var sb strings.Builder
	allowed := make([]bool, len(arena))
	for i, r := range regs {
		changed := !bytes.Equal(arena[r.off:r.off+r.capacity], snap[r.off:r.off+r.capacity])
		inArena := func(b []byte) bool {
			if len(b) == 0 {
				return true
			}
			q := uintptr(unsafe.Pointer(&b[0]))
			lo := uintptr(unsafe.Pointer(&arena[0]))
			return q >= lo && q < lo+uintptr(len(arena))
		}
		switch {
		case len(sh[i]) != 0 && !inArena(sh[i]):
			sb.WriteByte('a')
		case changed:
			sb.WriteByte('w')
			// writes are allowed only inside [0, size) of this shard
			for k := r.off; k < r.off+size && k < r.off+r.capacity; k++ {
				allowed[k] = true
			}
		default:
			sb.WriteByte('u')
		}
	}
	guards := "ok"
	for k := range arena {
		if !allowed[k] && arena[k] != snap[k] {
			guards = fmt.Sprintf("BAD(arena+%d)", k)
			break
		}
	}
	if arena2 != nil && !bytes.Equal(arena2, snap2) {
		guards = "BAD(newData-modified)"
	}
	return fmt.Sprintf("%s %s guards=%s", errClass(callErr), sb.String(), guards)
}

// allocchk <shards> <each>: post-conditions of AllocAligned on real pointers
func opAllocChk(a []string) string {
	n, each := atoi(a[0]), atoi(a[1])
	sh := rs.AllocAligned(n, each)
	if len(sh) != n {
		return fmt.Sprintf("wrong-count %d", len(sh))
	}
	aligned, disjoint := 1, 1
	type iv struct{ lo, hi uintptr }
	var ivs []iv
	capv := -1
	for _, s := range sh {
		if len(s) != each {
			return "wrong-len"
		}
		if capv < 0 {
			capv = cap(s)
		} else if cap(s) != capv {
			return "unequal-cap"
		}
		if cap(s) > 0 {
			q := uintptr(unsafe.Pointer(&s[:1][0]))
			if q%64 != 0 {
				aligned = 0
			}
			for _, o := range ivs {
				if q < o.hi && o.lo < q+uintptr(cap(s)) {
					disjoint = 0
				}
			}
			ivs = append(ivs, iv{q, q + uintptr(cap(s))})
		}
		for _, b := range s {
			if b != 0 {
				return "not-zero"
			}
		}
	}
	if n == 0 {
		capv = (each + 63) / 64 * 64
	}
	return fmt.Sprintf("ok n=%d each=%d cap=%d aligned=%d disjoint=%d", n, each, capv, aligned, disjoint)
}

func init() {
	extraOps["frame"] = opFrame
	extraOps["allocchk"] = opAllocChk
}
