module verif/harness

go 1.22

require github.com/klauspost/reedsolomon v0.0.0

require github.com/klauspost/cpuid/v2 v2.2.8 // indirect

replace github.com/klauspost/reedsolomon => /repo
