package main

import (
	"bytes"
	"fmt"
	"strings"

	rs "github.com/klauspost/reedsolomon"
)

// applySub performs one sub-operation on enc; returns (error class, resulting shard set, extra verdict)
//
//	r <size> <seed> <mode> <E> <req> <form>
//	e <size> <seed>
//	v <size> <seed> <flipShard> <flipOff>
func applySub(enc rs.Encoder, ref rs.Encoder, d, p int, f []string) (string, [][]byte, string) {
	switch f[0] {
	case "r":
		size, seed, mode, E, req, form := atoi(f[1]), atou(f[2]), f[3], parseList(f[4]), parseList(f[5]), f[6]
		sh := mkShards(d, p, size, seed)
		if err := ref.Encode(sh); err != nil {
			return "err(encode) " + errClass(err), nil, ""
		}
		orig := make([][]byte, len(sh))
		for i := range sh {
			orig[i] = append([]byte(nil), sh[i]...)
		}
		for _, e := range E {
			switch form {
			case "nil":
				sh[e] = nil
			case "empty":
				sh[e] = []byte{}
			default:
				b := bytes.Repeat([]byte{0xA5}, size+9)
				sh[e] = b[:0]
			}
		}
		var err error
		switch mode {
		case "all":
			err = enc.Reconstruct(sh)
		case "data":
			err = enc.ReconstructData(sh)
		default:
			n := d
			if mode == "someT" {
				n = d + p
			}
			r := make([]bool, n)
			for _, i := range req {
				if i < n {
					r[i] = true
				}
			}
			err = enc.ReconstructSome(sh, r)
		}
		verdict := "correct"
		for i := range sh {
			if len(sh[i]) != 0 && !bytes.Equal(sh[i], orig[i]) {
				verdict = fmt.Sprintf("WRONG(shard%d)", i)
				break
			}
		}
		if err == nil && verdict == "correct" {
			missing := map[int]bool{}
			for _, e := range E {
				missing[e] = true
			}
			if len(E) <= p {
				for i := 0; i < d+p; i++ {
					need := false
					switch mode {
					case "all":
						need = true
					case "data":
						need = i < d
					case "someT", "someD":
						for _, q := range req {
							if q == i && (mode == "someT" || i < d) {
								need = true
							}
						}
					}
					if need && missing[i] && len(sh[i]) == 0 {
						verdict = fmt.Sprintf("NOTFILLED(shard%d)", i)
					}
				}
			}
		}
		return errClass(err), sh, verdict
	case "e":
		size, seed := atoi(f[1]), atou(f[2])
		sh := mkShards(d, p, size, seed)
		err := enc.Encode(sh)
		verdict := "correct"
		if err == nil {
			if ok, e2 := ref.Verify(sh); e2 != nil || !ok {
				verdict = "WRONG(parity)"
			}
		}
		return errClass(err), sh, verdict
	case "v":
		size, seed, fs, fo := atoi(f[1]), atou(f[2]), atoi(f[3]), atoi(f[4])
		sh := mkShards(d, p, size, seed)
		if err := ref.Encode(sh); err != nil {
			return "err(encode) " + errClass(err), nil, ""
		}
		if fs >= 0 {
			sh[fs][fo] ^= 0x3C
		}
		ok, err := enc.Verify(sh)
		verdict := "correct"
		if err == nil && ok != (fs < 0) {
			verdict = "WRONG(verdict)"
		}
		return errClass(err), sh, verdict
	}
	return "bad-sub", nil, ""
}

// hist <fam> <opts> <d> <p> ; sub ; sub ; …
// every sub-operation runs on the long-lived encoder and on a freshly constructed one; both answers
// (error class and every byte of the resulting shard set) must agree.
func opHist(a []string) string {
	line := strings.Join(a, " ")
	parts := strings.Split(line, ";")
	h := strings.Fields(parts[0])
	fam, opts, d, p := h[0], h[1], atoi(h[2]), atoi(h[3])
	long, err := newEnc(fam, d, p, opts)
	if err != nil {
		return "err " + errClass(err)
	}
	ref, _ := newEnc(fam, d, p, opts)
	var out []string
	for _, sub := range parts[1:] {
		f := strings.Fields(sub)
		if len(f) == 0 {
			continue
		}
		fresh, _ := newEnc(fam, d, p, opts)
		e1, s1, v1 := applySub(long, ref, d, p, f)
		e2, s2, _ := applySub(fresh, ref, d, p, f)
		same := "same"
		if e1 != e2 || hashShards(s1) != hashShards(s2) {
			same = "DIFF"
		}
		out = append(out, fmt.Sprintf("%s %s %s", e1, same, v1))
	}
	return strings.Join(out, " ; ")
}

func init() { extraOps["hist"] = opHist }

// tree <d> <p> ; i <key list> <tag> ; g <key list> ; …  : the inversion tree alone, values are 1x1 matrices [[tag]]
func opTree(a []string) string {
	line := strings.Join(a, " ")
	parts := strings.Split(line, ";")
	h := strings.Fields(parts[0])
	d, p := atoi(h[0]), atoi(h[1])
	t := rs.VerifNewTree(d, p)
	var out []string
	for _, sub := range parts[1:] {
		f := strings.Fields(sub)
		if len(f) == 0 {
			continue
		}
		key := parseList(f[1])
		switch f[0] {
		case "i":
			err := t.Insert(key, [][]byte{{byte(atoi(f[2]))}}, d+p)
			if err != nil {
				out = append(out, "err")
			} else {
				out = append(out, "ok")
			}
		case "g":
			m := t.Get(key)
			if m == nil {
				out = append(out, "nil")
			} else if len(key) == 0 {
				out = append(out, "root")
			} else {
				out = append(out, fmt.Sprint(m[0][0]))
			}
		}
	}
	return strings.Join(out, " ")
}

func init() { extraOps["tree"] = opTree }

// bfneed <8|16> <positions> <mips comma list> : after set+prepare, for every listed mip level the answer of
// isNeeded(mip, bit) for every block-aligned bit (one per block of 2^mip), as a hash plus the count of true
// bfkey <positions> : the GF8 cache key (32 bytes hex) of the un-prepared bit field
func opBfNeed(a []string) string {
	gf, pos, mips := a[0], parseList(a[1]), parseList(a[2])
	var sb strings.Builder
	if gf == "8" {
		var e rs.VerifErrorBitfield8
		for _, i := range pos {
			e.Set(i)
		}
		e.Prepare()
		for _, m := range mips {
			cnt := 0
			h := fnvInit
			for bit := 0; bit < 256; bit += 1 << uint(min(m, 8)) {
				v := e.IsNeeded(m, bit)
				if v {
					cnt++
					h = fnv(h, []byte{1})
				} else {
					h = fnv(h, []byte{0})
				}
			}
			fmt.Fprintf(&sb, "%d:%d:%s ", m, cnt, hex64(h))
		}
		return strings.TrimSpace(sb.String())
	}
	var e rs.VerifErrorBitfield
	for _, i := range pos {
		e.Set(i)
	}
	e.Prepare()
	for _, m := range mips {
		cnt := 0
		h := fnvInit
		for bit := 0; bit < 65536; bit += 1 << uint(min(m, 16)) {
			v := e.IsNeeded(m, bit)
			if v {
				cnt++
				h = fnv(h, []byte{1})
			} else {
				h = fnv(h, []byte{0})
			}
		}
		fmt.Fprintf(&sb, "%d:%d:%s ", m, cnt, hex64(h))
	}
	return strings.TrimSpace(sb.String())
}

func opBfKey(a []string) string {
	var e rs.VerifErrorBitfield8
	for _, i := range parseList(a[0]) {
		e.Set(i)
	}
	k := e.CacheID()
	return fmt.Sprintf("%x", k[:])
}

func min(a, b int) int {
	if a < b {
		return a
	}
	return b
}

func init() {
	extraOps["bfneed"] = opBfNeed
	extraOps["bfkey"] = opBfKey
}
