//go:build !noasm

package main

import (
	"bytes"
	"fmt"
	"math/rand"

	rs "github.com/klauspost/reedsolomon"
)

const guard = 128

// first-principles product table (shift-and-reduce), built once; independent of the package's tables
var ptab = func() (t [256][256]byte) {
	for a := 0; a < 256; a++ {
		for b := 0; b < 256; b++ {
			t[a][b] = pmul8(byte(a), byte(b))
		}
	}
	return
}()

const gsent = 0x7E

// guarded buffers: n buffers of `size` bytes at a seeded misalignment, each between two guard zones
type gbufs struct {
	arena []byte
	offs  []int
	size  int
}

func newGbufs(n, size int, rng *rand.Rand) *gbufs {
	g := &gbufs{size: size}
	off := rng.Intn(64)
	for i := 0; i < n; i++ {
		off += guard
		g.offs = append(g.offs, off)
		off += size + guard + rng.Intn(64)
	}
	g.arena = bytes.Repeat([]byte{gsent}, off+guard)
	return g
}
func (g *gbufs) slices() [][]byte {
	out := make([][]byte, len(g.offs))
	for i, o := range g.offs {
		out[i] = g.arena[o : o+g.size : o+g.size]
	}
	return out
}
func (g *gbufs) guardsOK() bool {
	pos := 0
	for _, o := range g.offs {
		for k := pos; k < o; k++ {
			if g.arena[k] != gsent {
				return false
			}
		}
		pos = o + g.size
	}
	for k := pos; k < len(g.arena); k++ {
		if g.arena[k] != gsent {
			return false
		}
	}
	return true
}

func famAvailable(fam string) bool {
	if fam == "avx2" {
		return rs.VerifHasPshufb()
	}
	return true
}

// runKernel calls the kernel and checks: returned count, bytes in [start,start+n) of every output equal the
// first-principles result, bytes outside unchanged, inputs unchanged, guard zones intact.
func runKernel(fam string, xor bool, rows [][]byte, ing, outg *gbufs, start, stop int) (int, string) {
	in, out := ing.slices(), outg.slices()
	inSnap := append([]byte(nil), ing.arena...)
	outSnap := make([][]byte, len(out))
	for i := range out {
		outSnap[i] = append([]byte(nil), out[i]...)
	}
	n := rs.VerifGenKernel(fam, xor, rows, in, out, start, stop)
	if n < 0 || start+n > stop {
		return n, fmt.Sprintf("wrong count n=%d", n)
	}
	if !bytes.Equal(inSnap, ing.arena) {
		return n, "wrong inputs-modified"
	}
	if !outg.guardsOK() {
		return n, "wrong guard-overwritten"
	}
	for i := range out {
		for k := 0; k < len(out[i]); k++ {
			want := outSnap[i][k]
			if k >= start && k < start+n {
				var acc byte
				for j := range in {
					if c := rows[i][j]; c != 0 {
						acc ^= ptab[c][in[j][k]]
					}
				}
				if xor {
					want ^= acc
				} else {
					want = acc
				}
			}
			if out[i][k] != want {
				return n, fmt.Sprintf("wrong out[%d][%d]=%d want %d (start=%d n=%d)", i, k, out[i][k], want, start, n)
			}
		}
	}
	return n, ""
}

// kern <family> <xor> <ni> <no> <len> <start> <stop> <seed>
func opKern(a []string) string {
	fam, xor, ni, no, size, start, stop, seed := a[0], a[1] == "1", atoi(a[2]), atoi(a[3]), atoi(a[4]), atoi(a[5]), atoi(a[6]), atou(a[7])
	if !famAvailable(fam) {
		return "skip"
	}
	rng := rand.New(rand.NewSource(int64(seed)))
	rows := make([][]byte, no)
	for i := range rows {
		rows[i] = make([]byte, ni)
		rng.Read(rows[i])
	}
	ing, outg := newGbufs(ni, size, rng), newGbufs(no, size, rng)
	for _, s := range ing.slices() {
		rng.Read(s)
	}
	for _, s := range outg.slices() {
		rng.Read(s)
	}
	n, w := runKernel(fam, xor, rows, ing, outg, start, stop)
	if w != "" {
		return w
	}
	return fmt.Sprintf("ok n=%d", n)
}

// kernlane <family> <xor> <ni> <no>: for every matrix slot (i,j) and every coefficient c, input j carries a
// 16 KiB pattern in which every byte value occurs at every lane residue mod 64.
func opKernLane(a []string) string {
	fam, xor, ni, no := a[0], a[1] == "1", atoi(a[2]), atoi(a[3])
	if !famAvailable(fam) {
		return "skip"
	}
	const size = 256 * 64
	rng := rand.New(rand.NewSource(int64(ni*100 + no)))
	ing, outg := newGbufs(ni, size, rng), newGbufs(no, size, rng)
	in, out := ing.slices(), outg.slices()
	tmpl := make([]byte, size) // prior output contents
	for k := range tmpl {
		tmpl[k] = byte(k*13 + 5)
	}
	zero := make([]byte, size)
	want := make([]byte, size)
	calls := 0
	for j := 0; j < ni; j++ {
		for jj, s := range in {
			for k := range s {
				if jj == j {
					s[k] = byte(k/64 + k%64)
				} else {
					s[k] = byte(k*7 + jj)
				}
			}
		}
		inSnap := append([]byte(nil), ing.arena...)
		for i := 0; i < no; i++ {
			rows := make([][]byte, no)
			for r := range rows {
				rows[r] = make([]byte, ni)
			}
			for c := 0; c < 256; c++ {
				rows[i][j] = byte(c)
				for _, s := range out {
					copy(s, tmpl)
				}
				n := rs.VerifGenKernel(fam, xor, rows, in, out, 0, size)
				calls++
				if n != size {
					return fmt.Sprintf("wrong count n=%d for aligned size", n)
				}
				if !bytes.Equal(inSnap, ing.arena) {
					return "wrong inputs-modified"
				}
				if !outg.guardsOK() {
					return "wrong guard-overwritten"
				}
				row := &ptab[c]
				src := in[j]
				for k := range want {
					want[k] = row[src[k]]
					if xor {
						want[k] ^= tmpl[k]
					}
				}
				for r := range out {
					exp := zero
					if r == i {
						exp = want
					} else if xor {
						exp = tmpl
					}
					if !bytes.Equal(out[r], exp) {
						for k := range exp {
							if out[r][k] != exp[k] {
								return fmt.Sprintf("wrong out[%d][%d]=%d want %d slot=(%d,%d) c=%d lane=%d byte=%d", r, k, out[r][k], exp[k], i, j, c, k%64, src[k])
							}
						}
					}
				}
			}
		}
	}
	return fmt.Sprintf("ok slots=%d calls=%d", ni*no, calls)
}

// mulslice <flags> <xor> <len> <seed>: galMulSlice(Xor) for all 256 coefficients
func opMulSlice(a []string) string {
	flags, xor, size, seed := a[0], a[1] == "1", atoi(a[2]), atou(a[3])
	if flags == "-" {
		flags = ""
	}
	rng := rand.New(rand.NewSource(int64(seed)))
	g := newGbufs(2, size, rng)
	sl := g.slices()
	for c := 0; c < 256; c++ {
		rng.Read(sl[0])
		rng.Read(sl[1])
		in := append([]byte(nil), sl[0]...)
		old := append([]byte(nil), sl[1]...)
		rs.VerifGalMulSlice(byte(c), sl[0], sl[1], xor, flags)
		if !bytes.Equal(in, sl[0]) {
			return "wrong input-modified"
		}
		if !g.guardsOK() {
			return "wrong guard-overwritten"
		}
		for k := range sl[1] {
			want := ptab[c][in[k]]
			if xor {
				want ^= old[k]
			}
			if sl[1][k] != want {
				return fmt.Sprintf("wrong c=%d k=%d got %d want %d", c, k, sl[1][k], want)
			}
		}
	}
	return "ok"
}

// slicexor <flags> <len> <seed>
func opSliceXor(a []string) string {
	flags, size, seed := a[0], atoi(a[1]), atou(a[2])
	if flags == "-" {
		flags = ""
	}
	rng := rand.New(rand.NewSource(int64(seed)))
	g := newGbufs(2, size, rng)
	sl := g.slices()
	rng.Read(sl[0])
	rng.Read(sl[1])
	in := append([]byte(nil), sl[0]...)
	old := append([]byte(nil), sl[1]...)
	rs.VerifSliceXor(sl[0], sl[1], flags)
	if !bytes.Equal(in, sl[0]) || !g.guardsOK() {
		return "wrong frame"
	}
	for k := range old {
		if sl[1][k] != old[k]^in[k] {
			return fmt.Sprintf("wrong k=%d", k)
		}
	}
	return "ok"
}

// leobf <8|16> <op> <flags> <len> <seed>: Leopard butterfly / multiply kernels against the table-driven
// definition (tables are verified against the Lean model in C17); op: fft2 ifft2 mul fft4 ifft4
func opLeoBf(a []string) string {
	gf, op, flags, size, seed := a[0], a[1], a[2], atoi(a[3]), atou(a[4])
	if flags == "-" {
		flags = ""
	}
	rng := rand.New(rand.NewSource(int64(seed)))
	nbuf := 2
	if op == "fft4" || op == "ifft4" {
		nbuf = 4
	}
	g := newGbufs(nbuf, size, rng)
	w := g.slices()
	for _, s := range w {
		rng.Read(s)
	}
	orig := make([][]byte, nbuf)
	for i := range w {
		orig[i] = append([]byte(nil), w[i]...)
	}
	// table-driven multiply of a whole buffer by exp(logm)
	var mulBuf func(y []byte, logm int) []byte
	modulus := 255
	if gf == "8" {
		_, _, _, _, mul, _ := rs.VerifLeoTables8()
		mulBuf = func(y []byte, logm int) []byte {
			o := make([]byte, len(y))
			for k := range y {
				o[k] = mul[logm][y[k]]
			}
			return o
		}
	} else {
		modulus = 65535
		rs.VerifLeoMul16(0) // the package builds its GF16 tables on first use (New does it); the kernels are called directly here
		mulBuf = func(y []byte, logm int) []byte {
			lo, hi := rs.VerifLeoMul16(logm)
			o := make([]byte, len(y))
			for b := 0; b+64 <= len(y); b += 64 {
				for k := 0; k < 32; k++ {
					p := lo[y[b+k]] ^ hi[y[b+32+k]]
					o[b+k] = byte(p)
					o[b+32+k] = byte(p >> 8)
				}
			}
			return o
		}
	}
	xorInto := func(dst, src []byte) {
		for k := range dst {
			dst[k] ^= src[k]
		}
	}
	fft2 := func(x, y []byte, logm int) {
		if logm != modulus {
			xorInto(x, mulBuf(y, logm))
		}
		xorInto(y, x)
	}
	ifft2 := func(x, y []byte, logm int) {
		xorInto(y, x)
		if logm != modulus {
			xorInto(x, mulBuf(y, logm))
		}
	}
	pick := func() int {
		switch rng.Intn(4) {
		case 0:
			return modulus
		case 1:
			return 0
		}
		return rng.Intn(modulus + 1)
	}
	m01, m23, m02 := pick(), pick(), pick()
	exp := make([][]byte, nbuf)
	for i := range exp {
		exp[i] = append([]byte(nil), orig[i]...)
	}
	switch op {
	case "fft2":
		if m01 == modulus {
			m01 = 1 // the 2-point kernels are never called with log_m == modulus
		}
		fft2(exp[0], exp[1], m01)
		if gf == "8" {
			rs.VerifFFTDIT28(w[0], w[1], uint8(m01), flags)
		} else {
			rs.VerifFFTDIT2(w[0], w[1], uint16(m01), flags)
		}
	case "ifft2":
		if m01 == modulus {
			m01 = 1
		}
		ifft2(exp[0], exp[1], m01)
		if gf == "8" {
			rs.VerifIFFTDIT28(w[0], w[1], uint8(m01), flags)
		} else {
			rs.VerifIFFTDIT2(w[0], w[1], uint16(m01), flags)
		}
	case "mul":
		exp[0] = mulBuf(orig[1], m01)
		if gf == "8" {
			rs.VerifMulgf8(w[0], w[1], uint8(m01), flags)
		} else {
			rs.VerifMulgf16(w[0], w[1], uint16(m01), flags)
		}
	case "fft4":
		fft2(exp[0], exp[2], m02)
		fft2(exp[1], exp[3], m02)
		fft2(exp[0], exp[1], m01)
		fft2(exp[2], exp[3], m23)
		if gf == "8" {
			rs.VerifFFTDIT48(w, 1, uint8(m01), uint8(m23), uint8(m02), flags)
		} else {
			rs.VerifFFTDIT4(w, 1, uint16(m01), uint16(m23), uint16(m02), flags)
		}
	case "ifft4":
		ifft2(exp[0], exp[1], m01)
		ifft2(exp[2], exp[3], m23)
		ifft2(exp[0], exp[2], m02)
		ifft2(exp[1], exp[3], m02)
		if gf == "8" {
			rs.VerifIFFTDIT48(w, 1, uint8(m01), uint8(m23), uint8(m02), flags)
		} else {
			rs.VerifIFFTDIT4(w, 1, uint16(m01), uint16(m23), uint16(m02), flags)
		}
	}
	if !g.guardsOK() {
		return "wrong guard-overwritten"
	}
	for i := range w {
		if !bytes.Equal(w[i], exp[i]) {
			for k := range w[i] {
				if w[i][k] != exp[i][k] {
					return fmt.Sprintf("wrong buf=%d k=%d m01=%d m23=%d m02=%d", i, k, m01, m23, m02)
				}
			}
		}
	}
	return "ok"
}

func init() {
	extraOps["kern"] = opKern
	extraOps["kernlane"] = opKernLane
	extraOps["mulslice"] = opMulSlice
	extraOps["slicexor"] = opSliceXor
	extraOps["leobf"] = opLeoBf
}
