// harness: line-protocol front end to the real reedsolomon package (built with -tags verif).
// One op per input line, one result line per op; panics are recovered and reported.
package main

import (
	"bufio"
	"fmt"
	"os"
	"strings"

	rs "github.com/klauspost/reedsolomon"
)

func main() {
	in := bufio.NewReaderSize(os.Stdin, 1<<20)
	out := bufio.NewWriterSize(os.Stdout, 1<<16)
	defer out.Flush()
	for {
		line, err := in.ReadString('\n')
		if len(line) > 0 {
			res := runLine(strings.TrimSpace(line))
			out.WriteString(res)
			out.WriteByte('\n')
			out.Flush()
		}
		if err != nil {
			return
		}
	}
}

func runLine(line string) (res string) {
	defer func() {
		if r := recover(); r != nil {
			msg := fmt.Sprint(r)
			if i := strings.IndexByte(msg, '\n'); i >= 0 {
				msg = msg[:i]
			}
			res = "panic " + strings.ReplaceAll(msg, " ", "_")
		}
	}()
	f := strings.Fields(line)
	if len(f) == 0 {
		return ""
	}
	switch f[0] {
	case "guard": // guard <op …>: the same op under the watchdog (hang after 20 s, goroutine leak check)
		rest := strings.Join(f[1:], " ")
		return guarded(func() string { return runLine(rest) })
	case "gen":
		return opGen(f[1:])
	case "enc":
		return opEnc(f[1:])
	case "rec":
		return opRec(f[1:])
	case "ver":
		return opVer(f[1:])
	}
	if h, ok := extraOps[f[0]]; ok {
		return h(f[1:])
	}
	return "bad-op"
}

var extraOps = map[string]func([]string) string{}

func newEnc(fam string, d, p int, opts string) (rs.Encoder, error) {
	fo, err := famOpts(fam, d, p)
	if err != nil {
		return nil, err
	}
	o := append(fo, parseOpts(opts)...)
	enc, err := rs.New(d, p, o...)
	scribbleCustom()
	return enc, err
}

// symbolsPerByteLen: length of a shard that can hold d unit vectors for the family
func unitLen(fam string, d int) int {
	switch fam {
	case "leo8":
		return ((d + 63) / 64) * 64
	case "leo16":
		return ((d + 31) / 32) * 64
	}
	return d
}

// generator extracts the p×d parity matrix through the public API by encoding unit vectors.
// leo16 symbols are 16 bit: low byte at k, high byte at k+32 inside each 64-byte block.
func generator(enc rs.Encoder, fam string, d, p int) ([]byte, error) {
	n := unitLen(fam, d)
	shards := make([][]byte, d+p)
	for i := range shards {
		shards[i] = make([]byte, n)
	}
	pos := func(c int) int {
		if fam == "leo16" {
			return (c/32)*64 + c%32
		}
		return c
	}
	for c := 0; c < d; c++ {
		shards[c][pos(c)] = 1
	}
	if err := enc.Encode(shards); err != nil {
		return nil, err
	}
	var out []byte
	for r := 0; r < p; r++ {
		for c := 0; c < d; c++ {
			out = append(out, shards[d+r][pos(c)])
			if fam == "leo16" {
				out = append(out, shards[d+r][pos(c)+32])
			}
		}
	}
	return out, nil
}

// gen <fam> <d> <p> [dump]
func opGen(a []string) string {
	fam, d, p := a[0], atoi(a[1]), atoi(a[2])
	enc, err := newEnc(fam, d, p, "-")
	if err != nil {
		return "err " + errClass(err)
	}
	if p == 0 {
		return "err noparity"
	}
	m, err := generator(enc, fam, d, p)
	if err != nil {
		return "err " + errClass(err)
	}
	if len(a) > 3 && a[3] == "dump" {
		return fmt.Sprintf("ok %x", m)
	}
	return "ok " + hex64(fnv(fnvInit, m))
}

func mkShards(d, p, size int, seed uint64) [][]byte {
	shards := make([][]byte, d+p)
	for i := 0; i < d; i++ {
		shards[i] = fill(seed, i, size)
	}
	for i := d; i < d+p; i++ {
		shards[i] = make([]byte, size)
	}
	return shards
}

func hashShards(sh [][]byte) string {
	var sb strings.Builder
	for i, s := range sh {
		if i > 0 {
			sb.WriteByte(' ')
		}
		if len(s) == 0 {
			sb.WriteByte('-')
		} else {
			sb.WriteString(hex64(fnv(fnvInit, s)))
		}
	}
	return sb.String()
}

// enc <fam> <opts> <d> <p> <size> <seed>   ->  ok <hash per shard …>
func opEnc(a []string) string {
	fam, opts, d, p, size, seed := a[0], a[1], atoi(a[2]), atoi(a[3]), atoi(a[4]), atou(a[5])
	enc, err := newEnc(fam, d, p, opts)
	if err != nil {
		return "err " + errClass(err)
	}
	sh := mkShards(d, p, size, seed)
	// parity buffers hold stale bytes before the call: Encode must overwrite, never accumulate
	for i := d; i < d+p; i++ {
		copy(sh[i], fill(seed^0x5bd1e995, 4000+i, size))
	}
	if err := enc.Encode(sh); err != nil {
		return "err " + errClass(err)
	}
	return "ok " + hashShards(sh)
}

// rec <fam> <opts> <d> <p> <size> <seed> <mode> <E> <req> <missform>
// mode: all | data | someD | someT ; E: missing indices ; req: required indices (for some*)
// missform: nil | empty | cap  -> ok <hash per shard, '-' for empty>
func opRec(a []string) string {
	fam, opts, d, p, size, seed := a[0], a[1], atoi(a[2]), atoi(a[3]), atoi(a[4]), atou(a[5])
	mode, E, req, form := a[6], parseList(a[7]), parseList(a[8]), a[9]
	enc, err := newEnc(fam, d, p, opts)
	if err != nil {
		return "err " + errClass(err)
	}
	sh := mkShards(d, p, size, seed)
	if err := enc.Encode(sh); err != nil {
		return "err(encode) " + errClass(err)
	}
	for _, e := range E {
		switch form {
		case "nil":
			sh[e] = nil
		case "empty":
			sh[e] = []byte{}
		case "cap":
			b := make([]byte, size+7)
			for i := range b {
				b[i] = 0xA5
			}
			sh[e] = b[:0]
		}
	}
	switch mode {
	case "all":
		err = enc.Reconstruct(sh)
	case "data":
		err = enc.ReconstructData(sh)
	case "someD", "someT":
		n := d
		if mode == "someT" {
			n = d + p
		}
		r := make([]bool, n)
		for _, i := range req {
			if i < n {
				r[i] = true
			}
		}
		err = enc.ReconstructSome(sh, r)
	default:
		return "bad-op"
	}
	if err != nil {
		return "err " + errClass(err) + " " + hashShards(sh)
	}
	return "ok " + hashShards(sh)
}

// ver <fam> <opts> <d> <p> <size> <seed> <flipShard> <flipOff> <delta>   (flipShard -1 = none)
func opVer(a []string) string {
	fam, opts, d, p, size, seed := a[0], a[1], atoi(a[2]), atoi(a[3]), atoi(a[4]), atou(a[5])
	fs, fo, delta := atoi(a[6]), atoi(a[7]), atoi(a[8])
	enc, err := newEnc(fam, d, p, opts)
	if err != nil {
		return "err " + errClass(err)
	}
	sh := mkShards(d, p, size, seed)
	if err := enc.Encode(sh); err != nil {
		return "err(encode) " + errClass(err)
	}
	if fs >= 0 {
		sh[fs][fo] ^= byte(delta)
	}
	before := hashShards(sh)
	ok, err := enc.Verify(sh)
	if err != nil {
		return "err " + errClass(err)
	}
	if hashShards(sh) != before {
		return "modified"
	}
	return fmt.Sprintf("ok %v", ok)
}
