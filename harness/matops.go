package main

import (
	"fmt"

	rs "github.com/klauspost/reedsolomon"
)

// square test matrix of the minv op: row i = fill(seed, 500+i, n), then shaped by kind
//   rand   - as filled
//   sing   - the last row is the xor of the first two (singular for n >= 2; for n = 1 the entry is zero)
//   sparse - bytes below 160 become zero
//   swap   - zero diagonal except the last entry (forces row swaps)
func minvMatrix(n int, seed uint64, kind string) [][]byte {
	m := make([][]byte, n)
	for i := range m {
		m[i] = fill(seed, 500+i, n)
	}
	switch kind {
	case "sing":
		if n == 1 {
			m[0][0] = 0
		} else {
			for j := range m[n-1] {
				m[n-1][j] = m[0][j] ^ m[1][j]
			}
		}
	case "sparse":
		for i := range m {
			for j := range m[i] {
				if m[i][j] < 160 {
					m[i][j] = 0
				}
			}
		}
	case "swap":
		for i := 0; i+1 < n; i++ {
			m[i][i] = 0
		}
	}
	return m
}

func hashRows(m [][]byte) string {
	h := uint64(0xcbf29ce484222325)
	for _, r := range m {
		h = fnv(h, r)
	}
	return fmt.Sprintf("ok %s %d", hex64(h), len(m))
}

// minv <n> <seed> <kind>: the package's matrix.Invert (Gaussian elimination) on a seeded square matrix
func opMinv(a []string) string {
	n, seed, kind := atoi(a[0]), atou(a[1]), a[2]
	inv, err := rs.VerifInvert(minvMatrix(n, seed, kind))
	if err != nil {
		if err.Error() == "matrix is singular" {
			return "singular"
		}
		return "err " + errClass(err)
	}
	return hashRows(inv)
}

// bmat <kind> <d> <total>: the package's generator-matrix builders
func opBmat(a []string) string {
	kind, d, total := a[0], atoi(a[1]), atoi(a[2])
	m, err := rs.VerifBuildMatrix(kind, d, total)
	if err != nil {
		if err.Error() == "matrix is singular" {
			return "singular"
		}
		return "err " + errClass(err)
	}
	return hashRows(m)
}

// msub <n> <seed> <r0> <c0> <r1> <c1>: the package's matrix.SubMatrix on a window of a seeded n x n matrix
func opMsub(a []string) string {
	n, seed := atoi(a[0]), atou(a[1])
	sub, err := rs.VerifSubMatrix(minvMatrix(n, seed, "rand"), atoi(a[2]), atoi(a[3]), atoi(a[4]), atoi(a[5]))
	if err != nil {
		return "err " + errClass(err)
	}
	return hashRows(sub)
}

func init() {
	extraOps["msub"] = opMsub
	extraOps["minv"] = opMinv
	extraOps["bmat"] = opBmat
}

// fn <name> <arg>: the package's scalar field functions over a block of inputs (a panic is recorded as 256 / -1)
func opFn(a []string) string {
	name, arg := a[0], atoi(a[1])
	h := uint64(0xcbf29ce484222325)
	put := func(v int) {
		h = fnv(h, []byte{byte(v), byte(v >> 8), byte(v >> 16), byte(v >> 24)})
	}
	safe := func(f func() int) (r int) {
		defer func() {
			if recover() != nil {
				r = 256
			}
		}()
		return f()
	}
	n := 0
	switch name {
	case "galdiv": // arg = dividend, every divisor
		for b := 0; b < 256; b++ {
			put(safe(func() int { return int(rs.VerifGalDivide(byte(arg), byte(b))) }))
			n++
		}
	case "galinv":
		for x := 0; x < 256; x++ {
			put(safe(func() int { return int(rs.VerifGalOneOver(byte(x))) }))
			n++
		}
	case "galexp": // arg = base, exponents 0..600 and a few large ones
		for e := 0; e <= 600; e++ {
			put(int(rs.VerifGalExp(byte(arg), e)))
			n++
		}
		for _, e := range []int{65535, 100000} {
			put(int(rs.VerifGalExp(byte(arg), e)))
			n++
		}
	case "ceilpow2": // arg = block of 1024 arguments starting at arg*1024+1
		for x := arg*1024 + 1; x <= arg*1024+1024; x++ {
			put(rs.VerifCeilPow2(x))
			n++
		}
	default:
		return "bad-op"
	}
	return fmt.Sprintf("ok %s %d", hex64(h), n)
}

func init() { extraOps["fn"] = opFn }
