package main

import (
	"bytes"
	"fmt"
	"strings"

	rs "github.com/klauspost/reedsolomon"
)

// idx <opts> <d> <p> <size> <seed> <order comma list> : EncodeIdx in the given order on zeroed parity
func opIdx(a []string) string {
	opts, d, p, size, seed := a[0], atoi(a[1]), atoi(a[2]), atoi(a[3]), atou(a[4])
	order := parseList(a[5])
	enc, err := newEnc("default", d, p, opts)
	if err != nil {
		return "err " + errClass(err)
	}
	sh := mkShards(d, p, size, seed)
	before := hashShards(sh[:d])
	for _, c := range order {
		if err := enc.EncodeIdx(sh[c], c, sh[d:]); err != nil {
			return "err " + errClass(err)
		}
	}
	if hashShards(sh[:d]) != before {
		return "modified-data"
	}
	return "ok " + hashShards(sh[d:])
}

// idxbad <opts> <d> <p> <size> <seed> <k> <len> : parity holds the encoding of the data set; then data shard k is
// delivered with length <len> (its first bytes, or extended with non-zero bytes).  A length other than the parity size
// must be rejected with ErrShardSize and must leave the parity untouched.
func opIdxBad(a []string) string {
	opts, d, p, size, seed := a[0], atoi(a[1]), atoi(a[2]), atoi(a[3]), atou(a[4])
	k, n := atoi(a[5]), atoi(a[6])
	enc, err := newEnc("default", d, p, opts)
	if err != nil {
		return "err " + errClass(err)
	}
	sh := mkShards(d, p, size, seed)
	if err := enc.Encode(sh); err != nil {
		return "err(encode) " + errClass(err)
	}
	before := hashShards(sh[d:])
	in := make([]byte, n)
	copy(in, sh[k])
	for i := size; i < n; i++ {
		in[i] = byte(0xA5 ^ i)
	}
	err = enc.EncodeIdx(in, k, sh[d:])
	state := "unchanged"
	if hashShards(sh[d:]) != before {
		state = "changed"
	}
	if err != nil {
		return "err " + errClass(err) + " " + state
	}
	return "ok " + state
}

// upd <opts> <d> <p> <size> <seed> <changed list> <nil list> [<newlen>]
// data set from seed; parity encoded; changed shards get new contents (seed+1); shards listed in <nil list>
// (unchanged ones) are passed as nil.  Optional newlen gives the first changed shard a different length.
func opUpd(a []string) string {
	opts, d, p, size, seed := a[0], atoi(a[1]), atoi(a[2]), atoi(a[3]), atou(a[4])
	changed, nils := parseList(a[5]), parseList(a[6])
	enc, err := newEnc("default", d, p, opts)
	if err != nil {
		return "err " + errClass(err)
	}
	sh := mkShards(d, p, size, seed)
	if err := enc.Encode(sh); err != nil {
		return "err(encode) " + errClass(err)
	}
	newData := make([][]byte, d)
	// optional trailing tokens: a number = length of the first changed shard; e:<list> = entries of
	// newDatashards that are empty but non-nil (must be treated as "not changed")
	newlen := -1
	lens := map[int]int{} // l:<shard>:<len> = that changed shard gets a different length
	for _, t := range a[7:] {
		if strings.HasPrefix(t, "e:") {
			for _, c := range parseList(t[2:]) {
				newData[c] = []byte{}
			}
		} else if strings.HasPrefix(t, "l:") {
			f := strings.Split(t, ":")
			lens[atoi(f[1])] = atoi(f[2])
		} else {
			newlen = atoi(t)
		}
	}
	for k, c := range changed {
		n := size
		if k == 0 && newlen >= 0 {
			n = newlen
		}
		if l, ok := lens[c]; ok {
			n = l
		}
		newData[c] = fill(seed+1, c, n)
	}
	for _, c := range nils {
		sh[c] = nil
	}
	parityBefore := hashShards(sh[d:])
	// guard zones: every shard lives inside a larger sentinel buffer
	err = enc.Update(sh, newData)
	if err != nil {
		if hashShards(sh[d:]) != parityBefore {
			return "err " + errClass(err) + " parity-modified"
		}
		return "err " + errClass(err)
	}
	return "ok " + hashShards(sh[d:])
}

// updguard: Update with a mismatching new shard inside sentinel-guarded buffers; reports writes outside shards
func opUpdGuard(a []string) string {
	opts, d, p, size, seed, c, newlen := a[0], atoi(a[1]), atoi(a[2]), atoi(a[3]), atou(a[4]), atoi(a[5]), atoi(a[6])
	enc, err := newEnc("default", d, p, opts)
	if err != nil {
		return "err " + errClass(err)
	}
	const G = 512
	arena := bytes.Repeat([]byte{0xC3}, (d+p)*(size+2*G))
	sh := make([][]byte, d+p)
	for i := range sh {
		off := i*(size+2*G) + G
		sh[i] = arena[off : off+size : off+size]
		if i < d {
			copy(sh[i], fill(seed, i, size))
		} else {
			for k := range sh[i] {
				sh[i][k] = 0
			}
		}
	}
	if err := enc.Encode(sh); err != nil {
		return "err(encode) " + errClass(err)
	}
	newData := make([][]byte, d)
	newData[c] = fill(seed+1, c, newlen)
	res := "ok"
	func() {
		defer func() {
			if r := recover(); r != nil {
				res = "panic"
			}
		}()
		if err := enc.Update(sh, newData); err != nil {
			res = "err " + errClass(err)
		}
	}()
	for i := range sh {
		off := i * (size + 2*G)
		for k := 0; k < G; k++ {
			if arena[off+k] != 0xC3 || arena[off+G+size+k] != 0xC3 {
				return res + fmt.Sprintf(" guard-overwritten shard=%d", i)
			}
		}
	}
	return res + " guards-intact"
}

func init() {
	extraOps["idxbad"] = opIdxBad
	extraOps["idx"] = opIdx
	extraOps["upd"] = opUpd
	extraOps["updguard"] = opUpdGuard
	_ = rs.ErrShardSize
}
