package main

import (
	"bytes"
	"fmt"
	"unsafe"
)

// split <fam> <d> <p> <len> <spare> <seed> -> ok <nshards> <perShard> <hash of all shards concatenated> <aliased>
func opSplit(a []string) string {
	fam, d, p, n, spare, seed := a[0], atoi(a[1]), atoi(a[2]), atoi(a[3]), atoi(a[4]), atou(a[5])
	enc, err := newEnc(fam, d, p, "-")
	if err != nil {
		return "err " + errClass(err)
	}
	buf := make([]byte, n+spare)
	copy(buf, fill(seed, 0, n))
	for i := n; i < len(buf); i++ {
		buf[i] = 0xA5
	}
	sh, err := enc.Split(buf[:n])
	if err != nil {
		return "err " + errClass(err)
	}
	var all []byte
	aliased := 0
	lo := uintptr(0)
	if len(buf) > 0 {
		lo = uintptr(unsafe.Pointer(&buf[0]))
	}
	per := -1
	for _, s := range sh {
		all = append(all, s...)
		if per < 0 {
			per = len(s)
		} else if per != len(s) {
			return "unequal-shards"
		}
		if len(s) > 0 && len(buf) > 0 {
			q := uintptr(unsafe.Pointer(&s[0]))
			if q >= lo && q < lo+uintptr(len(buf)) {
				aliased++
			}
		}
	}
	// frame: Split may use (and zero) the caller's spare capacity up to the TotalShards*perShard bytes it needs; what lies
	// behind that keeps its contents
	outside := 0
	for i := len(sh) * per; i < len(buf); i++ {
		if i >= n && buf[i] != 0xA5 {
			outside++
		}
	}
	// the result must be directly encodable
	encRes := "enc=nil"
	if e := enc.Encode(sh); e != nil {
		encRes = "enc=" + errClass(e)
	}
	return fmt.Sprintf("ok %d %d %s %d %s out=%d", len(sh), per, hex64(fnv(fnvInit, all)), aliased, encRes, outside)
}

// join <fam> <d> <p> <len> <outSize> <nil list> <nshards given> <seed>
func opJoin(a []string) string {
	fam, d, p, n, outSize, nils, given, seed := a[0], atoi(a[1]), atoi(a[2]), atoi(a[3]), atoi(a[4]), parseList(a[5]), atoi(a[6]), atou(a[7])
	enc, err := newEnc(fam, d, p, "-")
	if err != nil {
		return "err " + errClass(err)
	}
	data := fill(seed, 0, n)
	sh, err := enc.Split(append([]byte(nil), data...))
	if err != nil {
		return "err(split) " + errClass(err)
	}
	for _, i := range nils {
		if i < len(sh) {
			sh[i] = nil
		}
	}
	if given < len(sh) {
		sh = sh[:given]
	}
	var out bytes.Buffer
	err = enc.Join(&out, sh, outSize)
	if err != nil {
		return fmt.Sprintf("err %s %d", errClass(err), out.Len())
	}
	return fmt.Sprintf("ok %s %d", hex64(fnv(fnvInit, out.Bytes())), out.Len())
}

func init() {
	extraOps["split"] = opSplit
	extraOps["join"] = opJoin
}
