package main

import (
	"bytes"
	"fmt"
	"math/rand"
	"strings"

	rs "github.com/klauspost/reedsolomon"
)

// tryLoss encodes seeded data, drops the shards in lost, reconstructs and compares.
func tryLoss(enc rs.Encoder, fam string, d, p int, lost []int) string {
	size := unitLen(fam, 1)
	if size < 8 {
		size = 8
	}
	if fam == "leo8" || fam == "leo16" {
		size = 64
	}
	sh := mkShards(d, p, size, 12345)
	if err := enc.Encode(sh); err != nil {
		return "encode-error " + errClass(err)
	}
	orig := make([][]byte, len(sh))
	for i := range sh {
		orig[i] = append([]byte(nil), sh[i]...)
	}
	for _, e := range lost {
		sh[e] = nil
	}
	err := enc.Reconstruct(sh)
	if err != nil {
		return "error " + errClass(err)
	}
	for i := range sh {
		if !bytes.Equal(sh[i], orig[i]) {
			return fmt.Sprintf("wrong-bytes shard %d", i)
		}
	}
	return ""
}

// mdssearch <fam> <d> <p> <budget>: look for a set of at most p lost shards the real encoder cannot recover.
func opMdsSearch(a []string) string {
	fam, d, p, budget := a[0], atoi(a[1]), atoi(a[2]), atoi(a[3])
	enc, err := newEnc(fam, d, p, "-")
	if err != nil {
		return "err " + errClass(err)
	}
	report := func(lost []int, why string) string {
		return fmt.Sprintf("unrecoverable lost=%s %s", strings.Trim(strings.ReplaceAll(fmt.Sprint(lost), " ", ","), "[]"), why)
	}
	// 1. zero entries and singular 2x2 minors of the parity matrix (matrix codec)
	if m := rs.VerifMatrix(enc); m != nil {
		A := m[d:]
		for r := 0; r < p; r++ {
			for c := 0; c < d; c++ {
				if A[r][c] == 0 && p >= 1 {
					// keep all data but c, and parity r only
					lost := []int{c}
					for r2 := 0; r2 < p && len(lost) < p; r2++ {
						if r2 != r {
							lost = append(lost, d+r2)
						}
					}
					if len(lost) == p || p == 1 {
						if w := tryLoss(enc, fam, d, p, lost); w != "" {
							return report(lost, w)
						}
					}
				}
			}
		}
		if p >= 2 {
			for r1 := 0; r1 < p; r1++ {
				for r2 := r1 + 1; r2 < p; r2++ {
					for c1 := 0; c1 < d; c1++ {
						for c2 := c1 + 1; c2 < d; c2++ {
							if pmul8(A[r1][c1], A[r2][c2]) == pmul8(A[r1][c2], A[r2][c1]) {
								lost := []int{c1, c2}
								for r := 0; r < p; r++ {
									if r != r1 && r != r2 {
										lost = append(lost, d+r)
									}
								}
								if w := tryLoss(enc, fam, d, p, lost); w != "" {
									return report(lost, w)
								}
							}
						}
					}
				}
			}
		}
	}
	// 2. random loss sets of size p
	rng := rand.New(rand.NewSource(int64(d*1000 + p)))
	for it := 0; it < budget; it++ {
		perm := rng.Perm(d + p)
		lost := perm[:p]
		if w := tryLoss(enc, fam, d, p, lost); w != "" {
			return report(lost, w)
		}
	}
	return "none"
}

func init() { extraOps["mdssearch"] = opMdsSearch }
