package main

import (
	"bytes"
	"errors"
	"fmt"
	"io"
	"math/rand"
	"strings"

	rs "github.com/klauspost/reedsolomon"
)

var errInjected = errors.New("injected")

// fragReader delivers its content in seeded fragments (1 byte … everything, sometimes 0 bytes with a nil
// error, sometimes the last bytes together with io.EOF) and fails with errInjected after failAt bytes.
type fragReader struct {
	data   []byte
	pos    int
	failAt int // -1 = never
	rng    *rand.Rand
	frag   bool
	ferr   error // the error delivered at failAt (default errInjected)
}

// reader failures whose error merely WRAPS io.EOF / io.ErrUnexpectedEOF are failures, not a clean end of stream
var errInjectedEOF = fmt.Errorf("injected: connection lost: %w", io.EOF)
var errInjectedUEOF = fmt.Errorf("injected: connection lost: %w", io.ErrUnexpectedEOF)

func (f *fragReader) Read(p []byte) (int, error) {
	if f.failAt >= 0 && f.pos >= f.failAt {
		if f.ferr != nil {
			return 0, f.ferr
		}
		return 0, errInjected
	}
	if f.pos >= len(f.data) {
		return 0, io.EOF
	}
	n := len(p)
	if f.frag {
		switch f.rng.Intn(6) {
		case 0:
			n = 1
		case 1:
			if f.rng.Intn(4) == 0 && len(p) > 0 {
				return 0, nil
			}
			n = 1 + f.rng.Intn(7)
		case 2:
			n = 1 + f.rng.Intn(len(p)+1)
		}
	}
	if n > len(p) {
		n = len(p)
	}
	end := len(f.data)
	if f.failAt >= 0 && f.failAt < end {
		end = f.failAt
	}
	if f.pos+n > end {
		n = end - f.pos
	}
	copy(p, f.data[f.pos:f.pos+n])
	f.pos += n
	if f.frag && f.pos == len(f.data) && (f.failAt < 0 || f.failAt > len(f.data)) && f.rng.Intn(2) == 0 {
		return n, io.EOF
	}
	return n, nil
}

// limWriter accepts limit bytes (-1 = unlimited), then fails (or short-writes).
type limWriter struct {
	buf   bytes.Buffer
	limit int
	short bool
}

func (w *limWriter) Write(p []byte) (int, error) {
	if w.limit < 0 {
		return w.buf.Write(p)
	}
	if len(p) <= w.limit {
		w.limit -= len(p)
		return w.buf.Write(p)
	}
	n := w.limit
	w.buf.Write(p[:n])
	w.limit = 0
	if w.short {
		return n, nil
	}
	return n, errInjected
}

type fault struct {
	kind    string // "", "r", "w", "nilr", "nilw"
	idx, at int
	short   bool
}

func parseFault(s string) fault {
	if s == "-" {
		return fault{}
	}
	f := strings.Split(s, ":")
	ft := fault{kind: f[0], idx: atoi(f[1])}
	if len(f) > 2 {
		ft.at = atoi(f[2])
	}
	if len(f) > 3 && f[3] == "short" {
		ft.short = true
	}
	return ft
}

func wrSummary(ws []*limWriter) string {
	var sb strings.Builder
	for i, w := range ws {
		if i > 0 {
			sb.WriteByte(' ')
		}
		if w == nil {
			sb.WriteString("nil")
		} else {
			fmt.Fprintf(&sb, "%s:%d", hex64(fnv(fnvInit, w.buf.Bytes())), w.buf.Len())
		}
	}
	return sb.String()
}

func newStream(d, p, B int, conc string, opts string) (rs.StreamEncoder, error) {
	o := parseOpts(opts)
	o = append(o, rs.WithStreamBlockSize(B))
	switch conc {
	case "c":
		o = append(o, rs.WithConcurrentStreams(true))
	case "cr":
		o = append(o, rs.WithConcurrentStreamReads(true))
	case "cw":
		o = append(o, rs.WithConcurrentStreamWrites(true))
	}
	return rs.NewStream(d, p, o...)
}

func mkReaders(n int, lens []int, seed uint64, ft fault, frag bool, content func(i int) []byte) []io.Reader {
	rds := make([]io.Reader, n)
	for i := 0; i < n; i++ {
		if ft.kind == "nilr" && ft.idx == i {
			continue
		}
		fr := &fragReader{data: content(i), failAt: -1, rng: rand.New(rand.NewSource(int64(seed) + int64(i)*7919)), frag: frag}
		if (ft.kind == "r" || ft.kind == "rw" || ft.kind == "ru") && ft.idx == i {
			fr.failAt = ft.at
			if ft.kind == "rw" {
				fr.ferr = errInjectedEOF
			} else if ft.kind == "ru" {
				fr.ferr = errInjectedUEOF
			}
		}
		rds[i] = fr
	}
	return rds
}

// sencode <d> <p> <B> <lens> <fault> <seed> <conc> <frag>
func opSEncode(a []string) string {
	d, p, B := atoi(a[0]), atoi(a[1]), atoi(a[2])
	lens, ft, seed, conc, frag := parseList(a[3]), parseFault(a[4]), atou(a[5]), a[6], a[7] == "1"
	enc, err := newStream(d, p, B, conc, "-")
	if err != nil {
		return "err(new) " + errClass(err)
	}
	rds := mkReaders(d, lens, seed, ft, frag, func(i int) []byte { return fill(seed, i, lens[i]) })
	ws := make([]*limWriter, p)
	iw := make([]io.Writer, p)
	for j := range ws {
		if ft.kind == "nilw" && ft.idx == j {
			continue
		}
		ws[j] = &limWriter{limit: -1}
		if ft.kind == "w" && ft.idx == j {
			ws[j].limit, ws[j].short = ft.at, ft.short
		}
		iw[j] = ws[j]
	}
	err = enc.Encode(rds, iw)
	return errClass(err) + " " + wrSummary(ws)
}

// encoded set for (d,p,L,seed) through the in-memory API
func encodedSet(d, p, L int, seed uint64) [][]byte {
	enc, _ := rs.New(d, p)
	sh := mkShards(d, p, L, seed)
	if L > 0 {
		if err := enc.Encode(sh); err != nil {
			panic(err)
		}
	}
	return sh
}

// sverify <d> <p> <B> <L> <trunc i:len | -> <flip i:off | -> <fault> <seed> <conc> <frag>
func opSVerify(a []string) string {
	d, p, B, L := atoi(a[0]), atoi(a[1]), atoi(a[2]), atoi(a[3])
	trunc, flip, ft, seed, conc, frag := a[4], a[5], parseFault(a[6]), atou(a[7]), a[8], a[9] == "1"
	enc, err := newStream(d, p, B, conc, "-")
	if err != nil {
		return "err(new) " + errClass(err)
	}
	sh := encodedSet(d, p, L, seed)
	if flip != "-" {
		f := strings.Split(flip, ":")
		sh[atoi(f[0])][atoi(f[1])] ^= 0x5A
	}
	if trunc != "-" {
		f := strings.Split(trunc, ":")
		i, n := atoi(f[0]), atoi(f[1])
		if n <= len(sh[i]) {
			sh[i] = sh[i][:n]
		} else {
			sh[i] = append(sh[i], fill(seed+9, i, n-len(sh[i]))...)
		}
	}
	lens := make([]int, d+p)
	rds := mkReaders(d+p, lens, seed, ft, frag, func(i int) []byte { return sh[i] })
	ok, err := enc.Verify(rds)
	return fmt.Sprintf("%s %v", errClass(err), ok)
}

// srecon <d> <p> <B> <L> <valid list> <fill list> <trunc i:len | -> <fault> <seed> <conc> <frag>
func opSRecon(a []string) string {
	d, p, B, L := atoi(a[0]), atoi(a[1]), atoi(a[2]), atoi(a[3])
	valid, fillL, trunc, ft, seed, conc, frag := parseList(a[4]), parseList(a[5]), a[6], parseFault(a[7]), atou(a[8]), a[9], a[10] == "1"
	enc, err := newStream(d, p, B, conc, "-")
	if err != nil {
		return "err(new) " + errClass(err)
	}
	sh := encodedSet(d, p, L, seed)
	if trunc != "-" {
		f := strings.Split(trunc, ":")
		i, n := atoi(f[0]), atoi(f[1])
		if n <= len(sh[i]) {
			sh[i] = sh[i][:n]
		} else {
			sh[i] = append(sh[i], fill(seed+9, i, n-len(sh[i]))...)
		}
	}
	isValid := map[int]bool{}
	for _, v := range valid {
		isValid[v] = true
	}
	all := mkReaders(d+p, nil, seed, ft, frag, func(i int) []byte { return sh[i] })
	rds := make([]io.Reader, d+p)
	for i := range rds {
		if isValid[i] {
			rds[i] = all[i]
		}
	}
	ws := make([]*limWriter, d+p)
	iw := make([]io.Writer, d+p)
	for _, j := range fillL {
		ws[j] = &limWriter{limit: -1}
		if ft.kind == "w" && ft.idx == j {
			ws[j].limit, ws[j].short = ft.at, ft.short
		}
		iw[j] = ws[j]
	}
	err = enc.Reconstruct(rds, iw)
	return errClass(err) + " " + wrSummary(ws)
}

// ssplit <d> <p> <size> <srclen> <fault> <seed>
func opSSplit(a []string) string {
	d, p, size, srclen, ft, seed := atoi(a[0]), atoi(a[1]), atoi(a[2]), atoi(a[3]), parseFault(a[4]), atou(a[5])
	enc, err := newStream(d, p, 64, "-", "-")
	if err != nil {
		return "err(new) " + errClass(err)
	}
	src := &fragReader{data: fill(seed, 0, srclen), failAt: -1, rng: rand.New(rand.NewSource(int64(seed))), frag: true}
	if ft.kind == "r" {
		src.failAt = ft.at
	}
	nw := d // optional 7th argument: the number of writers handed to Split (the contract wants exactly DataShards)
	if len(a) > 6 {
		nw = atoi(a[6])
	}
	ws := make([]*limWriter, nw)
	iw := make([]io.Writer, nw)
	for j := range ws {
		if ft.kind == "nilw" && ft.idx == j {
			continue
		}
		ws[j] = &limWriter{limit: -1}
		if ft.kind == "w" && ft.idx == j {
			ws[j].limit, ws[j].short = ft.at, ft.short
		}
		iw[j] = ws[j]
	}
	err = enc.Split(src, iw, int64(size))
	return errClass(err) + " " + wrSummary(ws)
}

// sjoin <d> <p> <L> <outSize> <nshards> <fault> <seed>
func opSJoin(a []string) string {
	d, p, L, outSize, given, ft, seed := atoi(a[0]), atoi(a[1]), atoi(a[2]), atoi(a[3]), atoi(a[4]), parseFault(a[5]), atou(a[6])
	enc, err := newStream(d, p, 64, "-", "-")
	if err != nil {
		return "err(new) " + errClass(err)
	}
	rds := mkReaders(d+p, nil, seed, ft, true, func(i int) []byte { return fill(seed, i, L) })
	if given < len(rds) {
		rds = rds[:given]
	}
	w := &limWriter{limit: -1}
	if ft.kind == "w" {
		w.limit, w.short = ft.at, ft.short
	}
	err = enc.Join(w, rds, int64(outSize))
	return errClass(err) + " " + wrSummary([]*limWriter{w})
}

func init() {
	extraOps["sencode"] = opSEncode
	extraOps["sverify"] = opSVerify
	extraOps["srecon"] = opSRecon
	extraOps["ssplit"] = opSSplit
	extraOps["sjoin"] = opSJoin
}
