package main

import (
	"fmt"
	"sync"

	rs "github.com/klauspost/reedsolomon"
)

func hashEntries(xs []uint64, w int) string {
	h := fnvInit
	seen := map[uint64]bool{}
	for _, x := range xs {
		for j := 0; j < w; j++ {
			h ^= (x >> (8 * uint(j))) & 0xff
			h *= 0x100000001b3
		}
		if len(seen) < 9 {
			seen[x] = true
		}
	}
	return fmt.Sprintf("ok %s n=%d distinct=%d ", hex64(h), len(xs), len(seen))
}

var leo16Once sync.Once
var leo16Log, leo16Exp, leo16Skew, leo16Walsh []uint16

func u8s(b []byte) []uint64 {
	o := make([]uint64, len(b))
	for i, x := range b {
		o[i] = uint64(x)
	}
	return o
}
func u16s(b []uint16) []uint64 {
	o := make([]uint64, len(b))
	for i, x := range b {
		o[i] = uint64(x)
	}
	return o
}
func slice16(a []uint16, blk int) []uint16 {
	lo, hi := 256*blk, 256*blk+256
	if lo > len(a) {
		lo = len(a)
	}
	if hi > len(a) {
		hi = len(a)
	}
	return a[lo:hi]
}

// tab <set> <name> <blk>
func opTab(a []string) string {
	set, name, blk := a[0], a[1], atoi(a[2])
	switch set {
	case "static":
		logT, expT, invT, mul, low, high, gfni := rs.VerifStaticTables()
		switch name {
		case "log":
			return hashEntries(u8s(logT[:]), 1)
		case "exp":
			return hashEntries(u8s(expT[:]), 1)
		case "inv":
			return hashEntries(u8s(invT[:]), 1)
		case "low", "high":
			t := &low
			if name == "high" {
				t = &high
			}
			var xs []uint64
			for i := range t {
				xs = append(xs, u8s(t[i][:])...)
			}
			return hashEntries(xs, 1)
		case "gfni":
			return hashEntries(gfni[:], 8)
		case "mul":
			var xs []uint64
			for r := 16 * blk; r < 16*blk+16; r++ {
				xs = append(xs, u8s(mul[r][:])...)
			}
			return hashEntries(xs, 1)
		}
	case "leo8":
		logL, expL, skew, walsh, mul, mul256 := rs.VerifLeoTables8()
		switch name {
		case "log":
			return hashEntries(u8s(logL[:]), 1)
		case "exp":
			return hashEntries(u8s(expL[:]), 1)
		case "skew":
			return hashEntries(u8s(skew[:]), 1)
		case "walsh":
			return hashEntries(u8s(walsh[:]), 1)
		case "mul":
			var xs []uint64
			for r := 16 * blk; r < 16*blk+16; r++ {
				xs = append(xs, u8s(mul[r][:])...)
			}
			return hashEntries(xs, 1)
		case "mul256":
			var xs []uint64
			for r := 16 * blk; r < 16*blk+16; r++ {
				xs = append(xs, u8s(mul256[r][:])...)
			}
			return hashEntries(xs, 1)
		}
	case "leo16":
		leo16Once.Do(func() { leo16Log, leo16Exp, leo16Skew, leo16Walsh = rs.VerifLeoTables16() })
		switch name {
		case "log":
			return hashEntries(u16s(slice16(leo16Log, blk)), 2)
		case "exp":
			return hashEntries(u16s(slice16(leo16Exp, blk)), 2)
		case "skew":
			return hashEntries(u16s(slice16(leo16Skew, blk)), 2)
		case "walsh":
			return hashEntries(u16s(slice16(leo16Walsh, blk)), 2)
		case "mul":
			lo, hi := rs.VerifLeoMul16(blk)
			return hashEntries(append(u16s(lo[:]), u16s(hi[:])...), 2)
		case "mul256":
			t := rs.VerifLeoMul256(blk)
			if t == nil {
				return "ok nil"
			}
			return hashEntries(u8s(t), 1)
		}
	}
	return "bad-op"
}

// first-principles GF(2^8) product, independent of the package's tables
func pmul8(a, b byte) byte {
	var r uint
	x := uint(a)
	for i := 0; i < 8; i++ {
		if b&(1<<uint(i)) != 0 {
			r ^= x
		}
		x <<= 1
		if x&0x100 != 0 {
			x ^= 0x11D
		}
	}
	return byte(r)
}

// tabcheck <name>: search stage for C17 — locate a wrong entry in the running package's static table
// and confirm it through a public call that reads it where possible.
func opTabCheck(a []string) string {
	logT, expT, invT, mul, low, high, gfni := rs.VerifStaticTables()
	switch a[0] {
	case "mul":
		for x := 0; x < 256; x++ {
			for y := 0; y < 256; y++ {
				if mul[x][y] != pmul8(byte(x), byte(y)) {
					// confirm through the API: 1+1 custom matrix [x], pure Go path, data byte y
					enc, err := rs.New(1, 1, rs.WithCustomMatrix([][]byte{{byte(x)}}), rs.WithAVX2(false), rs.WithSSSE3(false), rs.WithSSE2(false), rs.WithGFNI(false), rs.WithAVXGFNI(false), rs.WithAVX512(false))
					conf := "unconfirmed"
					if err == nil {
						sh := [][]byte{{byte(y)}, {0}}
						if enc.Encode(sh) == nil && sh[1][0] != pmul8(byte(x), byte(y)) {
							conf = fmt.Sprintf("Encode(1+1,custom[[%d]],data=[%d]) gives %d, field product is %d", x, y, sh[1][0], pmul8(byte(x), byte(y)))
						}
					}
					return fmt.Sprintf("wrong mulTable[%d][%d]=%d want %d; %s", x, y, mul[x][y], pmul8(byte(x), byte(y)), conf)
				}
			}
		}
	case "inv":
		for x := 1; x < 256; x++ {
			if pmul8(byte(x), invTable(invT, x)) != 1 {
				return fmt.Sprintf("wrong invTable[%d]=%d", x, invT[x])
			}
		}
	case "exp":
		v := byte(1)
		for i := 0; i < 255; i++ {
			if expT[i] != v {
				return fmt.Sprintf("wrong expTable[%d]=%d want %d", i, expT[i], v)
			}
			v = pmul8(v, 2)
		}
	case "log":
		v := byte(1)
		for i := 0; i < 255; i++ {
			if int(logT[v]) != i {
				return fmt.Sprintf("wrong logTable[%d]=%d want %d", v, logT[v], i)
			}
			v = pmul8(v, 2)
		}
	case "low", "high":
		for x := 0; x < 256; x++ {
			for n := 0; n < 16; n++ {
				if low[x][n] != pmul8(byte(x), byte(n)) {
					return fmt.Sprintf("wrong mulTableLow[%d][%d]=%d", x, n, low[x][n])
				}
				if high[x][n] != pmul8(byte(x), byte(n<<4)) {
					return fmt.Sprintf("wrong mulTableHigh[%d][%d]=%d", x, n, high[x][n])
				}
			}
		}
	case "gfni":
		for c := 0; c < 256; c++ {
			for x := 0; x < 256; x++ {
				var res byte
				for i := 0; i < 8; i++ {
					row := byte(gfni[c] >> (8 * uint(7-i)))
					v := row & byte(x)
					v ^= v >> 4
					v ^= v >> 2
					v ^= v >> 1
					res |= (v & 1) << uint(i)
				}
				if res != pmul8(byte(c), byte(x)) {
					return fmt.Sprintf("wrong gf2p811dMulMatrices[%d] at operand %d", c, x)
				}
			}
		}
	}
	return "fine"
}

func invTable(t [256]byte, x int) byte { return t[x] }

func init() {
	extraOps["tab"] = opTab
	extraOps["tabcheck"] = opTabCheck
}
