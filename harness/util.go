package main

import (
	"errors"
	"fmt"
	"strconv"
	"strings"

	rs "github.com/klauspost/reedsolomon"
)

// splitmix64-based shard contents; the Lean driver uses the same generator.
func fill(seed uint64, idx int, n int) []byte {
	s := seed*0x9E3779B97F4A7C15 + uint64(idx)*0xBF58476D1CE4E5B9 + 1
	out := make([]byte, n)
	for k := 0; k < n; k += 8 {
		s += 0x9E3779B97F4A7C15
		z := s
		z = (z ^ (z >> 30)) * 0xBF58476D1CE4E5B9
		z = (z ^ (z >> 27)) * 0x94D049BB133111EB
		z ^= z >> 31
		for j := 0; j < 8 && k+j < n; j++ {
			out[k+j] = byte(z >> (8 * uint(j)))
		}
	}
	return out
}

const fnvInit = uint64(0xcbf29ce484222325)

func fnv(h uint64, b []byte) uint64 {
	for _, x := range b {
		h ^= uint64(x)
		h *= 0x100000001b3
	}
	return h
}

func hex64(x uint64) string { return fmt.Sprintf("%016x", x) }

func parseList(s string) []int {
	if s == "-" || s == "" {
		return nil
	}
	var out []int
	for _, f := range strings.Split(s, ",") {
		v, err := strconv.Atoi(f)
		if err == nil {
			out = append(out, v)
		}
	}
	return out
}

func atoi(s string) int {
	v, err := strconv.Atoi(s)
	if err != nil {
		panic("bad int " + s)
	}
	return v
}

func atou(s string) uint64 {
	v, err := strconv.ParseUint(s, 10, 64)
	if err != nil {
		panic("bad uint " + s)
	}
	return v
}

// errClass maps an error to the closed enum shared with the Lean driver.
func errClass(err error) string {
	var sre rs.StreamReadError
	var swe rs.StreamWriteError
	switch {
	case err == nil:
		return "nil"
	case strings.HasPrefix(err.Error(), "injected:"):
		return "Injected"
	case errors.As(err, &sre):
		return fmt.Sprintf("StreamRead(%d,%s)", sre.Stream, errClass(sre.Err))
	case errors.As(err, &swe):
		return fmt.Sprintf("StreamWrite(%d,%s)", swe.Stream, errClass(swe.Err))
	case errors.Is(err, rs.ErrTooFewShards):
		return "TooFewShards"
	case errors.Is(err, rs.ErrShardNoData):
		return "ShardNoData"
	case errors.Is(err, rs.ErrShardSize):
		return "ShardSize"
	case errors.Is(err, rs.ErrInvalidShardSize):
		return "InvalidShardSize"
	case errors.Is(err, rs.ErrInvShardNum):
		return "InvShardNum"
	case errors.Is(err, rs.ErrMaxShardNum):
		return "MaxShardNum"
	case errors.Is(err, rs.ErrInvalidInput):
		return "InvalidInput"
	case errors.Is(err, rs.ErrShortData):
		return "ShortData"
	case errors.Is(err, rs.ErrReconstructRequired):
		return "ReconstructRequired"
	case errors.Is(err, rs.ErrReconstructMismatch):
		return "ReconstructMismatch"
	case errors.Is(err, rs.ErrNotSupported):
		return "NotSupported"
	case err.Error() == "matrix is singular":
		return "Singular"
	case err.Error() == "short write":
		return "ShortWrite"
	case err.Error() == "injected" || strings.HasPrefix(err.Error(), "injected:"):
		return "Injected"
	}
	return "Other(" + strings.ReplaceAll(err.Error(), " ", "_") + ")"
}

// parseOpts turns a token list like "avx2-,gfni-,g=4,ms=64,ag=1000,ic-" into options.
func parseOpts(s string) []rs.Option {
	var o []rs.Option
	if s == "-" || s == "" {
		return o
	}
	for _, t := range strings.Split(s, ",") {
		switch {
		case t == "avx2-":
			o = append(o, rs.WithAVX2(false))
		case t == "ssse3-":
			o = append(o, rs.WithSSSE3(false))
		case t == "sse2-":
			o = append(o, rs.WithSSE2(false))
		case t == "avx512-":
			o = append(o, rs.WithAVX512(false))
		case t == "gfni-":
			o = append(o, rs.WithGFNI(false))
		case t == "avxgfni-":
			o = append(o, rs.WithAVXGFNI(false))
		case t == "nosimd":
			o = append(o, rs.WithAVX2(false), rs.WithSSSE3(false), rs.WithSSE2(false), rs.WithAVX512(false), rs.WithGFNI(false), rs.WithAVXGFNI(false))
		case t == "ic-":
			o = append(o, rs.WithInversionCache(false))
		case t == "ic+":
			o = append(o, rs.WithInversionCache(true))
		case t == "cs+":
			o = append(o, rs.WithConcurrentStreams(true))
		case strings.HasPrefix(t, "g="):
			o = append(o, rs.WithMaxGoroutines(atoi(t[2:])))
		case strings.HasPrefix(t, "ms="):
			o = append(o, rs.WithMinSplitSize(atoi(t[3:])))
		case strings.HasPrefix(t, "ag="):
			o = append(o, rs.WithAutoGoroutines(atoi(t[3:])))
		case strings.HasPrefix(t, "bs="):
			o = append(o, rs.WithStreamBlockSize(atoi(t[3:])))
		default:
			panic("bad option token " + t)
		}
	}
	return o
}

// famOpts returns the options selecting a code family.
func famOpts(fam string, d, p int) ([]rs.Option, error) {
	if strings.Contains(fam, "+") { // a+b+c: the matrix options in this order (each one resets the others: the last wins)
		var all []rs.Option
		for _, part := range strings.Split(fam, "+") {
			if part == "xor" { // WithFastOneParityMatrix next to a matrix family: it only takes effect for one parity shard
				all = append(all, rs.WithFastOneParityMatrix())
				continue
			}
			o, err := famOpts(part, d, p)
			if err != nil {
				return nil, err
			}
			all = append(all, o...)
		}
		return all, nil
	}
	switch fam {
	case "default":
		return nil, nil
	case "cauchy":
		return []rs.Option{rs.WithCauchyMatrix()}, nil
	case "jerasure":
		return []rs.Option{rs.WithJerasureMatrix()}, nil
	case "par1":
		return []rs.Option{rs.WithPAR1Matrix()}, nil
	case "xor":
		if p != 1 {
			return nil, errors.New("internal")
		}
		return []rs.Option{rs.WithFastOneParityMatrix()}, nil
	case "leo8":
		return []rs.Option{rs.WithLeopardGF(true)}, nil
	case "leo16":
		return []rs.Option{rs.WithLeopardGF16(true)}, nil
	}
	if strings.HasPrefix(fam, "custom:") { // custom:<seed> — p rows of d seeded bytes
		seed := atou(fam[7:])
		m := make([][]byte, p)
		for i := range m {
			m[i] = fill(seed, 1000+i, d)
		}
		lastCustom = m
		return []rs.Option{rs.WithCustomMatrix(m)}, nil
	}
	if strings.HasPrefix(fam, "sparse:") { // sparse:<seed> — a custom matrix with about half of its coefficients zero (LRC style)
		seed := atou(fam[7:])
		m := make([][]byte, p)
		for i := range m {
			m[i] = fill(seed, 1000+i, d)
			for j := range m[i] {
				if m[i][j] < 128 {
					m[i][j] = 0
				}
			}
		}
		lastCustom = m
		return []rs.Option{rs.WithCustomMatrix(m)}, nil
	}
	if strings.HasPrefix(fam, "blocks:") { // blocks:<seed> — a custom matrix whose aligned 10x10 tiles are all-zero or all-non-zero (local parities)
		seed := atou(fam[7:])
		tiles := fill(seed, 999, 64)
		m := make([][]byte, p)
		for i := range m {
			m[i] = fill(seed, 1000+i, d)
			for j := range m[i] {
				if tiles[((i/10)*8+j/10)%64] < 128 {
					m[i][j] = 0
				} else {
					m[i][j] |= 1
				}
			}
		}
		lastCustom = m
		return []rs.Option{rs.WithCustomMatrix(m)}, nil
	}
	return nil, errors.New("badfam")
}

// lastCustom: the rows most recently handed to WithCustomMatrix.  newEnc overwrites them once New has returned: the encoder
// must work from what it was given at construction time (its own copy), whatever the caller does with the slices later.
var lastCustom [][]byte

func scribbleCustom() {
	for _, row := range lastCustom {
		for j := range row {
			row[j] = row[j]*7 + 0x5b
		}
	}
	lastCustom = nil
}
