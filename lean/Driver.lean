import RSV.Driver.Ops

def main : IO Unit := do
  let hin ← IO.getStdin
  let hout ← IO.getStdout
  Drv.loop hin hout
  hout.flush
