-- root of the RSV library: every property module (and through them every model and proof module)
import RSV.Props.C01all
import RSV.Props.C02all
import RSV.Props.C03all
import RSV.Props.C04all
import RSV.Props.C05all
import RSV.Props.C06all
import RSV.Props.C07
import RSV.Props.C08all
import RSV.Props.C09
import RSV.Props.C10all
import RSV.Props.C11all
import RSV.Props.C12
import RSV.Props.C13all
import RSV.Props.C14
import RSV.Props.C15
import RSV.Props.C16all
import RSV.Props.C17all
import RSV.Proofs.GenGauss   -- groundwork for the regenerated gaussianElimination (closed forms of its inner loops)
