import RSV.Spec.BinField
