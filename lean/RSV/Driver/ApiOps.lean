import RSV.Driver.Util
import RSV.Model.Api
import RSV.Model.Options
/-! `api`, `new`, `newstream` ops: outcome classes of the API model -/
namespace Drv
open RSV.Model RSV.Model.Api

def eName (e : E) : String :=
  match e with
  | .tooFewShards => "TooFewShards" | .shardNoData => "ShardNoData" | .shardSize => "ShardSize"
  | .invalidShardSize => "InvalidShardSize" | .invShardNum => "InvShardNum" | .maxShardNum => "MaxShardNum"
  | .invalidInput => "InvalidInput" | .shortData => "ShortData" | .reconstructRequired => "ReconstructRequired"
  | .notSupported => "NotSupported" | .reconMismatch => "ReconstructMismatch" | .other => "Other"

def outName (o : Outcome) : String :=
  match o with | .ok => "ok" | .err e => "err " ++ eName e | .panic => "panic"

def parseShapes (s : String) : List Sh :=
  if s == "-" || s == "" then [] else
  (s.splitOn ",").map fun t =>
    if t == "n" then ⟨true, 0, 0⟩
    else if t == "e" then ⟨false, 0, 0⟩
    else if t.startsWith "c" then ⟨false, 0, (t.drop 1).toString.toNat!⟩
    else ⟨false, t.toNat!, t.toNat!⟩

def kindOf (fam : String) : Kind := if fam == "leo8" then .leo8 else if fam == "leo16" then .leo16 else .rs8

def parseFlags (s : String) : Leo × Fam :=
  let ts := if s == "-" then [] else s.splitOn ","
  -- the Leopard option setters in the ORDER given: WithLeopardGF(true/false) = leo8 / leo8f, WithLeopardGF16(true/false) =
  -- leo16 / leo16f; each call overwrites the selection (false = "as needed"), the last one decides
  let leo := ts.foldl (fun acc t =>
    if t == "leo16" then Leo.gf16 else if t == "leo8" then Leo.always
    else if t == "leo16f" || t == "leo8f" then Leo.asNeeded else acc) Leo.asNeeded
  let fam := if ts.contains "custom2x3" then Fam.custom 2 3 else if ts.contains "xor" then Fam.xor
    else if ts.contains "cauchy" then Fam.cauchy else if ts.contains "par1" then Fam.par1
    else if ts.contains "jerasure" then Fam.jerasure else Fam.default
  (leo, fam)

def kindName (k : Kind) : String := match k with | .rs8 => "rs8" | .leo8 => "leo8" | .leo16 => "leo16"

def opNew (args : List String) : String :=
  match args with
  | [ds, ps, fl] =>
    match ds.toInt?, ps.toInt? with
    | some d, some p =>
      let (leo, fam) := parseFlags fl
      match Api.new d p leo fam with
      | .err e => "err " ++ eName e
      | .panic => "panic"
      | .enc k =>
        let u := if d.toNat + p.toNat > 4096 then "skipped" else if usable k d.toNat p.toNat then "usable" else "UNUSABLE"
        s!"ok {kindName k} {u}"
    | _, _ => "bad-op"
  | _ => "bad-op"

def opNewStream (args : List String) : String :=
  match args with
  | [ds, ps, fl] =>
    match ds.toInt?, ps.toInt? with
    | some d, some p =>
      let (leo, fam) := parseFlags fl
      match Api.newStream d p leo fam with
      | .err e => "err " ++ eName e
      | .panic => "panic"
      | .enc _ => "ok"
    | _, _ => "bad-op"
  | _ => "bad-op"

def opApi (args : List String) : String :=
  match args with
  | fam :: ds :: ps :: m :: rest =>
    match ds.toNat?, ps.toNat? with
    | some d, some p =>
      let k := kindOf fam
      match m, rest with
      | "enc", [sh] => outName (Api.encode k d p (parseShapes sh))
      | "ver", [sh] => outName (Api.encode k d p (parseShapes sh))
      | "rec", [mode, req, sh] =>
        let md : RMode := if mode == "all" then .all else if mode == "data" then .data else
          match req.splitOn ":" with
          | [ns, bits] =>
            (match ns.toInt? with
             | some n => if n < 0 then .some none else
                 let on := parseList bits
                 .some (some ((List.range n.toNat).map fun i => on.contains i))
             | none => .some none)
          | _ => .some none
        outName (Api.reconstruct k d p (parseShapes sh) md)
      | "idx", [dl, ix, sh] =>
        let dataLen := if dl == "n" then 0 else dl.toNat!
        (match ix.toInt? with
         | some i => outName (Api.encodeIdx k d p dataLen i (parseShapes sh))
         | none => "bad-op")
      | "upd", [sh, nw] => outName (Api.update k d p (parseShapes sh) (parseShapes nw))
      | "split", [ls, _cs] =>
        (match Api.split k d p ls.toNat! with
         | .ok => s!"ok {if d + p = 1 && (k = .rs8 || ls.toNat! % 64 = 0) then 1 else d + p}"
         | o => outName o)
      | "join", [os, sh] =>
        (match os.toInt? with
         | some o => outName (Api.join k d p (parseShapes sh) o)
         | none => "bad-op")
      | "alloc", [_e] => s!"ok {d + p}"
      | _, _ => "bad-op"
    | _, _ => "bad-op"
  | _ => "bad-op"


-- opts <l1d> <l2> <tpc> <phys> <gomaxprocs> <caps> <d> <p> <optflags>; caps = "avx2=1,gfni=1,avxgfni=1,codegen=1,pshufb=1"
def opOpts (args : List String) : String :=
  match args with
  | [l1s, l2s, tpcs, phs, gms, caps, ds, ps, fl] =>
    match l1s.toInt?, l2s.toInt?, tpcs.toInt?, phs.toInt?, gms.toInt?, ds.toInt?, ps.toInt? with
    | some l1d, some l2, some tpc, some phys, some gmp, some d, some p =>
      let cap (k : String) : Bool := (caps.splitOn ",").contains (k ++ "=1")
      let ts := if fl == "-" then [] else fl.splitOn ","
      let off (k : String) : Bool := ts.contains k || ts.contains "nosimd"
      let useAVX2 := cap "avx2" && !off "avx2-"
      let gfni := (cap "gfni" && !off "gfni-") || (cap "avxgfni" && !off "avxgfni-")
      let num (pre : String) : Option Int := (ts.find? (·.startsWith pre)).bind fun t => (t.drop pre.length).toString.toInt?
      let g0 : Int := match num "g=" with | some n => if n > 0 then n else (if gmp ≤ 1 then 1 else 384) | none => if gmp ≤ 1 then 1 else 384
      let ms0 : Int := match num "ms=" with | some n => if n > 0 then n else -1 | none => -1
      let ag : Int := (num "ag=").getD 0
      if p ≤ 0 || d ≤ 0 then "err InvShardNum" else
      let o := Options.derive ⟨l1d, l2, tpc, phys, gmp⟩
        ⟨d, p, g0, ms0, ag, cap "codegen" && cap "pshufb" && useAVX2, cap "codegen" && gfni⟩
      s!"ok {o.perRound} {o.minSplitSize} {o.maxGoroutines}"
    | _, _, _, _, _, _, _ => "bad-op"
  | _ => "bad-op"

end Drv
