import RSV.Driver.Util
import RSV.Model.Codec
/-!
Table-driven evaluation of `encodeRow` on byte arrays, for large shards.  The 64 KiB product
table is filled from `gmul` (shift-and-reduce) at start-up; nothing comes from the Go tables.
For small inputs the driver also evaluates the generic model definition and compares.
-/
namespace Drv
open RSV RSV.Model

def mulTab : ByteArray := Id.run do
  let mut t := ByteArray.emptyWithCapacity 65536
  for a in [0:256] do
    for b in [0:256] do
      t := t.push (UInt8.ofNat (gmul a b))
  return t

@[inline] def fmul (a b : UInt8) : UInt8 := mulTab.get! (a.toNat * 256 + b.toNat)

/-- `Σ_c row[c] * data[c][k]` for every `k < len` -/
def fastRow (row : Array UInt8) (data : Array ByteArray) (len : Nat) : ByteArray := Id.run do
  let mut out := ByteArray.emptyWithCapacity len
  for k in [0:len] do
    let mut acc : UInt8 := 0
    for c in [0:row.size] do
      acc := acc ^^^ fmul row[c]! (data[c]!.get! k)
    out := out.push acc
  return out

def matRows {p d : Nat} (A : Mat GF256 p d) : Array (Array UInt8) :=
  Array.ofFn fun r : Fin p => Array.ofFn fun c : Fin d => byteOfGf (A.get r c)

/-- generic model evaluation of `encodeSpec` on byte arrays (slow; small inputs only) -/
def modelEncode {p d : Nat} (A : Mat GF256 p d) (data : Array ByteArray) (len : Nat) : Array ByteArray :=
  let dv : Fin d → Shard GF256 len := fun c => shardOfBytes data[c.val]! len
  Array.ofFn fun r : Fin p => bytesOfShard (encodeSpec A dv r)

def fastEncode {p d : Nat} (A : Mat GF256 p d) (data : Array ByteArray) (len : Nat) : Array ByteArray :=
  (matRows A).map fun row => fastRow row data len

end Drv
