import RSV.Driver.Util
import RSV.Model.Codec
/-!
Table-driven evaluation of `encodeRow` on byte arrays, for large shards.  The 64 KiB product
table is filled from `gmul` (shift-and-reduce) at start-up; nothing comes from the Go tables.
For small inputs the driver also evaluates the generic model definition and compares.
-/
namespace Drv
open RSV RSV.Model

def mulTab : ByteArray := Id.run do
  let mut t := ByteArray.emptyWithCapacity 65536
  for a in [0:256] do
    for b in [0:256] do
      t := t.push (UInt8.ofNat (gmul a b))
  return t

@[inline] def fmul (a b : UInt8) : UInt8 := mulTab.get! (a.toNat * 256 + b.toNat)

/-- `Σ_c row[c] * data[c][k]` for every `k < len` -/
def fastRow (row : Array UInt8) (data : Array ByteArray) (len : Nat) : ByteArray := Id.run do
  let mut out := ByteArray.emptyWithCapacity len
  for k in [0:len] do
    let mut acc : UInt8 := 0
    for c in [0:row.size] do
      acc := acc ^^^ fmul row[c]! (data[c]!.get! k)
    out := out.push acc
  return out

def matRows {p d : Nat} (A : Mat GF256 p d) : Array (Array UInt8) :=
  Array.ofFn fun r : Fin p => Array.ofFn fun c : Fin d => byteOfGf (A.get r c)

/-- generic model evaluation of `encodeSpec` on byte arrays (slow; small inputs only) -/
def modelEncode {p d : Nat} (A : Mat GF256 p d) (data : Array ByteArray) (len : Nat) : Array ByteArray :=
  let dv : Fin d → Shard GF256 len := fun c => shardOfBytes data[c.val]! len
  Array.ofFn fun r : Fin p => bytesOfShard (encodeSpec A dv r)

def fastEncode {p d : Nat} (A : Mat GF256 p d) (data : Array ByteArray) (len : Nat) : Array ByteArray :=
  (matRows A).map fun row => fastRow row data len

/-- data shards for (d, size, seed) -/
def mkData (d size : Nat) (seed : UInt64) : Array ByteArray :=
  Array.ofFn fun c : Fin d => fillBytes seed c.val size


/-- table-driven evaluation of the reconstruct algorithm on byte arrays: same steps as
`Model.reconstructWith` (first `d` present rows, `invert`, decode, re-encode parity) with the
row products done by `fastRow`.  `blocks[i].size = 0` = missing.  Modes: all / dataOnly. -/
def reconFast {p d : Nat} (A : Mat GF256 p d) (blocks : Array ByteArray) (size : Nat) (dataOnly : Bool) :
    Except Nat (Array ByteArray) :=
  let total := d + p
  let present : Fin total → Bool := fun i => blocks[i.val]!.size ≠ 0
  let nPresent := countTrue present
  let dataPresent := countTrue fun i => present i && decide (i.val < d)
  if nPresent = total || (dataOnly && dataPresent = d) then .ok blocks
  else if nPresent < d then .error 1
  else
    let valid := firstPresent present d
    let sub : Mat GF256 d d := Mat.ofFn fun i c =>
      match valid[i.val]? with
      | some vi => genRow A vi c
      | none => 0
    match invert sub with
    | none => .error 2
    | some dec =>
      let subBlocks : Array ByteArray := (valid.map fun vi => blocks[vi.val]!).toArray
      let decRows := matRows dec
      let data : Array ByteArray := Array.ofFn fun c : Fin d =>
        if blocks[c.val]!.size ≠ 0 then blocks[c.val]! else fastRow decRows[c.val]! subBlocks size
      if dataOnly then .ok (Array.ofFn fun i : Fin total => if h : i.val < d then data[i.val]! else blocks[i.val]!)
      else
        let rows := matRows A
        .ok (Array.ofFn fun i : Fin total =>
          if i.val < d then data[i.val]!
          else if blocks[i.val]!.size ≠ 0 then blocks[i.val]! else fastRow rows[i.val - d]! data size)

/-- the generic model on the same input (slow; small inputs only) -/
def reconModel {p d : Nat} (A : Mat GF256 p d) (blocks : Array ByteArray) (size : Nat) (dataOnly : Bool) :
    Except Nat (Array ByteArray) :=
  let shA : Array (Option (Shard GF256 size)) := Array.ofFn fun i : Fin (d + p) =>
    if blocks[i.val]!.size = size then some (shardOfBytes blocks[i.val]! size) else none
  match reconstruct A (fun i => shA[i.val]!) (if dataOnly then .dataOnly else .all) with
  | .error .tooFew => .error 1
  | .error .singular => .error 2
  | .ok out => .ok (Array.ofFn fun i : Fin (d + p) => match out i with | some s => bytesOfShard s | none => ByteArray.empty)

def pt (n : Nat) : GF256 := GF256.ofNat n

/-- L0 closed form of the default generator: Lagrange basis over nodes `0..d-1` at `d+r` -/
def lagrangeParity (d p : Nat) : Mat GF256 p d :=
  -- 1 / ∏_{j≠c} (y_c - y_j), once per column
  let invDen : Array GF256 := Array.ofFn fun c : Fin d =>
    ((List.range d).foldl (fun acc j => if j = c.val then acc else acc * (pt c.val - pt j)) 1)⁻¹
  Mat.ofFn fun r c =>
    let xr := pt (d + r.val)
    let num := (List.range d).foldl (fun acc j => if j = c.val then acc else acc * (xr - pt j)) 1
    num * invDen[c.val]!


end Drv
