import RSV.Driver.Util
import RSV.Driver.Fast
import RSV.Model.Leopard
import RSV.Model.Cert
import RSV.Model.LeoCert
import RSV.Model.LeoCert16
import RSV.Proofs.LeoSched
import RSV.Proofs.LeoSchedBounded
/-! Leopard ops of the driver: the schedule model evaluated on byte shards -/
namespace Drv
open RSV RSV.Model

def leo8Ctx : Thunk Leo.Ctx := Thunk.mk fun _ => Leo.mkCtx Leo.P8
def leo16Ctx : Thunk Leo.Ctx := Thunk.mk fun _ => Leo.mkCtx Leo.P16
def leoCtx (fam : String) : Leo.Ctx := if fam == "leo16" then leo16Ctx.get else leo8Ctx.get

/-- bytes of a shard → field symbols (GF16: byte k and byte k+32 of every 64-byte block) -/
def symsOfBytes (gf16 : Bool) (b : ByteArray) : Leo.Vec :=
  if !gf16 then Array.ofFn fun i : Fin b.size => (b.get! i.val).toNat
  else Array.ofFn fun i : Fin (b.size / 2) =>
    let blk := i.val / 32; let k := i.val % 32
    (b.get! (64*blk + k)).toNat ||| ((b.get! (64*blk + 32 + k)).toNat <<< 8)

def bytesOfSyms (gf16 : Bool) (v : Leo.Vec) : ByteArray :=
  if !gf16 then v.foldl (fun acc s => acc.push (UInt8.ofNat s)) (ByteArray.emptyWithCapacity v.size)
  else Id.run do
    let n := v.size * 2
    let mut out := ByteArray.mk (Array.replicate n 0)
    for i in [0:v.size] do
      let blk := i / 32; let k := i % 32
      out := out.set! (64*blk + k) (UInt8.ofNat (v[i]! % 256))
      out := out.set! (64*blk + 32 + k) (UInt8.ofNat (v[i]! >>> 8))
    return out

def leoEncodeBytes (fam : String) (d p : Nat) (data : Array ByteArray) : Array ByteArray :=
  let gf16 := fam == "leo16"
  let C := leoCtx fam
  let vs := data.map (symsOfBytes gf16)
  let len := (vs[0]!).size
  (Leo.encode C d p len vs).map (bytesOfSyms gf16)

/-- inverse in Leopard's field through its log/exp tables -/
def leoInv (C : Leo.Ctx) (a : Nat) : Nat := if a = 0 then 0 else C.T.exp[(C.P.modulus - C.T.log[a]!) % C.P.modulus]!

/-- L0: the generator as the Lagrange matrix over nodes `m … n-1` evaluated at `0 … p-1`, restricted
to the first `d` columns (`m = ceilPow2 p`, `n = ceilPow2 (m+d)`) -/
def leoLagrange (C : Leo.Ctx) (d p : Nat) : Array (Array Nat) :=
  let m := Leo.ceilPow2 p
  let n := Leo.ceilPow2 (m + d)
  let k := n - m
  let invDen : Array Nat := Array.ofFn fun c : Fin d =>
    leoInv C ((List.range k).foldl (fun acc j => if j = c.val then acc else Leo.leoMul C acc ((m + c.val) ^^^ (m + j))) 1)
  Array.ofFn fun r : Fin p => Array.ofFn fun c : Fin d =>
    let num := (List.range k).foldl (fun acc j => if j = c.val then acc else Leo.leoMul C acc (r.val ^^^ (m + j))) 1
    Leo.leoMul C num invDen[c.val]!

/-- generator through the schedule model: encode the `d` unit vectors -/
def leoGenerator (fam : String) (d p : Nat) : Array (Array Nat) :=
  let C := leoCtx fam
  let vs : Array Leo.Vec := Array.ofFn fun c : Fin d => Array.ofFn fun k : Fin d => if k.val = c.val then 1 else 0
  let par := Leo.encode C d p d vs
  par     -- parity r, symbol c = L[r][c]

def leoAdmissible (fam : String) (d p : Nat) : Option String :=
  let order := if fam == "leo16" then 65536 else 256
  if d = 0 || p = 0 then some "InvShardNum"
  else if d > order || p > order || d + Leo.ceilPow2 p > order then some "MaxShardNum"
  else none

def leoGenOp (fam : String) (d p : Nat) (dump : Bool) : String :=
  match leoAdmissible fam d p with
  | some e => s!"err {e}"
  | none =>
    let gf16 := fam == "leo16"
    let G := leoGenerator fam d p
    let bytes : ByteArray := G.foldl (fun acc row => (row.extract 0 d).foldl (fun acc s =>
      if gf16 then (acc.push (UInt8.ofNat (s % 256))).push (UInt8.ofNat (s >>> 8)) else acc.push (UInt8.ofNat s)) acc) ByteArray.empty
    let m := Leo.ceilPow2 p
    let n := Leo.ceilPow2 (m + d)
    let l0 := if p * d * (n - m) ≤ 3000000 then
        (if (G.map (·.extract 0 d)) == leoLagrange (leoCtx fam) d p then "1" else "0") else "-"
    -- the proved MDS certificates (`C01_leo8_cert`, `C01_leo16_cert`) on the generator of the schedule model
    let cert := if gf16 then (if d * p ≤ 400000 then (if Leo.leo16Cert d p G then "1" else "0") else "-")
      else (if Leo.leo8Cert d p G then "1" else "0")
    let body := if dump then hexBytes bytes else hex64 (fnvBytes fnvInit bytes)
    -- hypotheses of the structural theorems (C04_local/linear/scratch), decided for this configuration:
    -- every step addresses rows inside the work area, no row is read before it is written, parity rows end defined
    let sched := (Leo.encodeSched (leoCtx fam) d p).toList
    let rows := 2 * m
    let wf := RSV.Proofs.LeoSched.allInRange rows d sched && RSV.Proofs.LeoSched.initOK rows sched &&
      RSV.Proofs.LeoSched.allLogsBelow (leoCtx fam).P.order sched &&
      (List.range p).all fun i => (RSV.Proofs.LeoSched.definedAfter rows sched)[i]!
    s!"ok {body} | cert={cert} l0={l0} sched={if wf then 1 else 0}"

/-- Leopard reconstruct through the schedule model on byte shards (`size = 0` = missing) -/
def leoReconBytes (fam : String) (d p : Nat) (shards : Array ByteArray) (size : Nat) (recoverAll : Bool) : Array (Option ByteArray) :=
  let gf16 := fam == "leo16"
  let C := leoCtx fam
  let nsym := if gf16 then size / 2 else size
  let vs := shards.map fun b => if b.size = 0 then Leo.zeroVec nsym else symsOfBytes gf16 b
  let missing : Nat → Bool := fun i => shards[i]!.size = 0
  (Leo.reconstruct C d p nsym vs missing recoverAll).map fun o => o.map (bytesOfSyms gf16)

end Drv
