import RSV.Driver.Util
import RSV.Model.MatrixGoAgree
import RSV.Model.Leopard
import RSV.Gen.Funcs
/-!
# Driver ops for `matrix.go`: `minv` (matrix.Invert) and `bmat` (generator-matrix builders)

The answer printed is the MODEL's (`RSV.Model.invert`, `RSV.Model.Builders`) — compared by the runner with what the
package's own code returns through the verif hook — and the flag `gen=` says whether the REGENERATED Go code
(`RSV.Gen.MatrixGo`, translated from the current `matrix.go` / `reedsolomon.go` on this run) agrees with the model on the
same input (`RSV.Model.gen*Agrees`).
-/
namespace Drv
open RSV RSV.Model

def minvMatrix (n : Nat) (seed : UInt64) (kind : String) : Array (Array Nat) := Id.run do
  let mut m : Array (Array Nat) := Array.ofFn fun i : Fin n => (fillBytes seed (500 + i.val) n).toList.toArray.map (·.toNat)
  if kind == "sing" then
    if n == 1 then m := #[#[0]]
    else m := m.set! (n - 1) (Array.ofFn fun j : Fin n => (m[0]!)[j.val]! ^^^ (m[1]!)[j.val]!)
  else if kind == "sparse" then
    m := m.map fun r => r.map fun b => if b < 160 then 0 else b
  else if kind == "swap" then
    for i in [0:n - 1] do
      m := m.set! i ((m[i]!).set! i 0)
  return m

def hashRows (m : Array (Array Nat)) : String :=
  let h := m.foldl (fun h r => r.foldl (fun h b => fnvStep h (UInt8.ofNat b)) h) fnvInit
  s!"ok {hex64 h} {m.size}"

def b01 (b : Bool) : Nat := if b then 1 else 0

def opMinv (args : List String) : String :=
  match args with
  | [ns, seeds, kind] =>
    match ns.toNat?, seeds.toNat? with
    | some n, some seed =>
      if n = 0 then "bad-op" else
      let a := minvMatrix n (UInt64.ofNat seed) kind
      let g := b01 (genInvertAgrees (a.toList.map Array.toList))
      match invert (matOfRows a n) with
      | none => s!"singular | gen={g}"
      | some B => s!"{hashRows (rowsOfMat B)} | gen={g}"
    | _, _ => "bad-op"
  | _ => "bad-op"

/-- `msub`: the model answer is the window read off the matrix directly; `gen=` says whether the regenerated
`matrix.SubMatrix` returns that window (`RSV.Props.C17submatrix.C17m_SubMatrix` proves it does, for every window) -/
def opMsub (args : List String) : String :=
  match args.map String.toNat? with
  | [some n, some seed, some r0, some c0, some r1, some c1] =>
    if n = 0 ∨ ¬ (r0 < r1 ∧ r1 ≤ n ∧ c0 < c1 ∧ c1 ≤ n) then "bad-op" else
    let a := minvMatrix n (UInt64.ofNat seed) "rand"
    let win : Array (Array Nat) :=
      Array.ofFn fun i : Fin (r1 - r0) => Array.ofFn fun j : Fin (c1 - c0) => (a[r0 + i.val]!)[c0 + j.val]!
    let g := b01 (Gen.matrix_SubMatrix a (r0 : Int) (c0 : Int) (r1 : Int) (c1 : Int) == some (win, none))
    s!"{hashRows win} | gen={g}"
  | _ => "bad-op"

def opBmat (args : List String) : String :=
  match args with
  | [kind, ds, ts] =>
    match ds.toNat?, ts.toNat? with
    | some d, some total =>
      if d = 0 ∨ total = 0 then "bad-op" else
      match kind with
      | "cauchy" => s!"{hashRows (rowsOfMat (buildMatrixCauchy xByte d total))} | gen={b01 (genCauchyAgrees d total)}"
      | "par1" => s!"{hashRows (rowsOfMat (buildMatrixPAR1 xByte d total))} | gen={b01 (genPAR1Agrees d total)}"
      | "xor" => if total = d + 1 then s!"{hashRows (rowsOfMat (buildXorMatrix (F := GF256) d (d + 1)))} | gen={b01 (genXorAgrees d)}" else "bad-op"
      | "vandermonde" => s!"{hashRows (rowsOfMat (Model.vandermonde xByte total d))} | gen={b01 (genVandermondeAgrees total d)}"
      | "default" =>
        if h : d ≤ total then
          match buildMatrix xByte d total h with
          | none => s!"singular | gen={b01 (genBuildMatrixAgrees d total)}"
          | some M => s!"{hashRows (rowsOfMat M)} | gen={b01 (genBuildMatrixAgrees d total)}"
        else "bad-op"
      | _ => "bad-op"
    | _, _ => "bad-op"
  | _ => "bad-op"

end Drv

namespace Drv
open RSV RSV.Model

def put4 (h : UInt64) (v : Nat) : UInt64 :=
  fnvStep (fnvStep (fnvStep (fnvStep h (UInt8.ofNat (v % 256))) (UInt8.ofNat (v / 256 % 256))) (UInt8.ofNat (v / 65536 % 256)))
    (UInt8.ofNat (v / 16777216 % 256))

/-- `fn <name> <arg>`: the SPECIFICATION's value of the scalar functions over a block of inputs (`gmul`, `gpow`, the inverse
chain, the model's `ceilPow2`; 256 = the Go function panics), and `gen=`: the function REGENERATED from the current Go source
(`RSV.Gen.Funcs`) gives the same value on every input of the block -/
def opFn (args : List String) : String :=
  match args with
  | [name, as] =>
    match as.toNat? with
    | none => "bad-op"
    | some arg =>
      let opt (o : Option Nat) : Nat := o.getD 256
      let (vals, gens) : List Nat × List Nat :=
        match name with
        | "galdiv" =>
          ((List.range 256).map fun b => if arg = 0 then 0 else if b = 0 then 256 else gmul arg (ginvChain b),
           (List.range 256).map fun b => opt (Gen.galDivide arg b))
        | "galinv" =>
          ((List.range 256).map fun x => if x = 0 then 256 else ginvChain x,
           (List.range 256).map fun x => opt (Gen.galOneOver x))
        | "galexp" =>
          let es := List.range 601 ++ [65535, 100000]
          (es.map fun e => gpow arg (if arg = 0 then e else if e = 0 then 0 else (e - 1) % 255 + 1),
           es.map fun e => opt (Gen.galExp arg (Int.ofNat e)))
        | "ceilpow2" =>
          let xs := (List.range 1024).map fun i => arg * 1024 + 1 + i
          (xs.map fun x => Leo.ceilPow2 x,
           xs.map fun x => match Gen.ceilPow2 (Int.ofNat x) with | some v => v.toNat | none => 256)
        | _ => ([], [1])
      if vals.isEmpty then "bad-op" else
      s!"ok {hex64 (vals.foldl put4 fnvInit)} {vals.length} | gen={b01 (vals == gens)}"
  | _ => "bad-op"

end Drv
