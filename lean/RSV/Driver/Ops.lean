import RSV.Driver.Util
import RSV.Driver.Fast
import RSV.Driver.Tables
import RSV.Driver.StreamOps
import RSV.Driver.ApiOps
import RSV.Driver.LeoOps
import RSV.Driver.MatOps
import RSV.Model.Builders
import RSV.Model.Cert
import RSV.Model.Codec
import RSV.Model.SplitJoin
import RSV.Model.Frames
import RSV.Model.Kernels
import RSV.Model.Memo
import RSV.Model.Bitfield
import RSV.Model.BitfieldImpl
import RSV.Model.AsmCheck
/-! line-protocol driver: one op per input line, one result line per op (core only) -/
namespace Drv
open RSV RSV.Model

/-- `certGC` on the natural points with the scalars read off the first row and column,
memoised in arrays (`certGC_sound'` holds for any `u, v`; distinctness of the natural points
is `GF256.ofNat_injOn`) -/
def certFast {p d : Nat} (hd : 0 < d) (hp : 0 < p) (inf : Option (Fin p)) (A : Mat GF256 p d) : Bool :=
  let x : Fin p → Option GF256 := fun r => if inf = some r then none else some (pt (d + r.val))
  let y : Fin d → GF256 := fun c => pt c.val
  let uArr : Array GF256 := Array.ofFn (readU hd A x y)
  let vArr : Array GF256 := Array.ofFn (readV hd hp A x y)
  certGC A x y (fun r => uArr[r.val]!) (fun c => vArr[c.val]!)

/-- parity matrix of a family as the driver's oracle uses it -/
def famMatrix (fam0 : String) (d p : Nat) : Except String (Mat GF256 p d) :=
  -- `a+b+c`: several matrix options in this order; every matrix option resets the others, so the LAST one decides
  -- `xor` (WithFastOneParityMatrix) is a separate flag: with exactly one parity shard it wins over every matrix family,
  -- otherwise it is ignored
  let toks := fam0.splitOn "+"
  let famL := (((toks.filter fun t => t ≠ "default" && t ≠ "xor")).getLast?).getD "default"   -- "default" sets no option
  -- a custom matrix (custom:/sparse:/blocks:) is tested first in New's switch: it wins over WithFastOneParityMatrix too
  let isCustom := famL.startsWith "custom:" || famL.startsWith "sparse:" || famL.startsWith "blocks:"
  let fam := if toks.length > 1 && toks.contains "xor" then (if p = 1 && !isCustom then "xor" else famL) else (((toks.filter (· ≠ "default")).getLast?).getD "default")
  if hd : d = 0 then .error "InvShardNum" else
  if hp : p = 0 then .error "noparity" else
  if d + p > 256 then .error "MaxShardNum" else
  have hd' : 0 < d := Nat.pos_of_ne_zero hd
  match fam with
  | "default" =>
    if d ≤ 40 then
      match buildMatrix pt d (d + p) (Nat.le_add_right d p) with
      | none => .error "Singular"
      | some G => .ok (parityPart p rfl G)
    else .ok (lagrangeParity d p)
  | "cauchy" => .ok (parityPart p rfl (buildMatrixCauchy pt d (d + p)))
  | "par1" => .ok (parityPart p rfl (buildMatrixPAR1 pt d (d + p)))
  | "xor" => if p ≠ 1 then .error "internal" else .ok (parityPart p rfl (buildXorMatrix d (d + p)))
  | "jerasure" => .ok (parityPart p rfl (buildMatrixJerasure pt d (d + p) (by omega) hd'))
  | _ =>
    if fam.startsWith "custom:" then
      match (fam.drop 7).toString.toNat? with
      | some seed =>
        let rows : Array ByteArray := Array.ofFn fun r : Fin p => fillBytes (UInt64.ofNat seed) (1000 + r.val) d
        .ok (Mat.ofFn fun r c => gfOfByte (rows[r.val]!.get! c.val))
      | none => .error "badfam"
    else if fam.startsWith "sparse:" then
      -- a custom matrix with the coefficients below 128 replaced by zero
      match (fam.drop 7).toString.toNat? with
      | some seed =>
        let rows : Array ByteArray := Array.ofFn fun r : Fin p => fillBytes (UInt64.ofNat seed) (1000 + r.val) d
        .ok (Mat.ofFn fun r c => let b := rows[r.val]!.get! c.val; if b < 128 then 0 else gfOfByte b)
      | none => .error "badfam"
    else if fam.startsWith "blocks:" then
      -- a custom matrix whose aligned 10x10 tiles are all-zero or all-non-zero
      match (fam.drop 7).toString.toNat? with
      | some seed =>
        let tiles : ByteArray := fillBytes (UInt64.ofNat seed) 999 64
        let rows : Array ByteArray := Array.ofFn fun r : Fin p => fillBytes (UInt64.ofNat seed) (1000 + r.val) d
        .ok (Mat.ofFn fun r c =>
          if tiles.get! (((r.val / 10) * 8 + c.val / 10) % 64) < 128 then 0 else gfOfByte (rows[r.val]!.get! c.val ||| 1))
      | none => .error "badfam"
    else .error "badfam"

structure GenOut where
  bytes : ByteArray
  cert : String
  l0 : String

def genMatrix (fam0 : String) (d p : Nat) : Except String GenOut :=
  -- `a+b+c`: several matrix options; the last matrix option decides (see `famMatrix`)
  let toks := fam0.splitOn "+"
  let famL := (((toks.filter fun t => t ≠ "default" && t ≠ "xor")).getLast?).getD "default"
  let isCustom := famL.startsWith "custom:" || famL.startsWith "sparse:" || famL.startsWith "blocks:"
  let fam := if toks.length > 1 then (if toks.contains "xor" then (if p = 1 && !isCustom then "xor" else famL) else famL) else fam0
  if hd : d = 0 then .error "InvShardNum" else
  if hp : p = 0 then .error "noparity" else
  if d + p > 256 then .error "MaxShardNum" else
  have hd' : 0 < d := Nat.pos_of_ne_zero hd
  have hp' : 0 < p := Nat.pos_of_ne_zero hp
  let b2s (b : Bool) : String := if b then "1" else "0"
  match fam with
  | "default" =>
    -- L0 closed form always; the L1 algorithm (Vandermonde · inverse of its top square) is run
    -- next to it for d ≤ 40 (it costs O(d³) matrix rebuilds) and must agree
    let A0 := lagrangeParity d p
    if d ≤ 40 then
      match buildMatrix pt d (d + p) (Nat.le_add_right d p) with
      | none => .error "Singular"
      | some G =>
        let A := parityPart p rfl G
        .ok ⟨matBytes A, b2s (certFast hd' hp' none A), b2s (decide (A = A0))⟩
    else
      .ok ⟨matBytes A0, b2s (certFast hd' hp' none A0), "-"⟩
  | "cauchy" =>
    let A := parityPart p rfl (buildMatrixCauchy pt d (d + p))
    let l0 : Mat GF256 p d := Mat.ofFn fun r c => (pt ((d + r.val) ^^^ c.val))⁻¹
    .ok ⟨matBytes A, b2s (certFast hd' hp' none A), b2s (decide (A = l0))⟩
  | "par1" =>
    let A := parityPart p rfl (buildMatrixPAR1 pt d (d + p))
    .ok ⟨matBytes A, b2s (certFast hd' hp' none A), "-"⟩
  | "xor" =>
    if p ≠ 1 then .error "internal" else
    let A : Mat GF256 p d := parityPart p rfl (buildXorMatrix d (d + p))
    .ok ⟨matBytes A, b2s (certFast hd' hp' (some ⟨0, hp'⟩) A), "-"⟩
  | "jerasure" =>
    let A := parityPart p rfl (buildMatrixJerasure pt d (d + p) (by omega) hd')
    let c1 := certFast hd' hp' (some ⟨p - 1, by omega⟩) A
    let c2 := certFast hd' hp' none A
    .ok ⟨matBytes A, b2s (c1 || c2), "-"⟩
  | _ =>
    match famMatrix fam d p with
    | .error e => .error e
    | .ok A => .ok ⟨matBytes A, "-", "-"⟩

def hashOpt (b : Option ByteArray) : String :=
  match b with
  | none => "-"
  | some x => if x.size = 0 then "-" else hex64 (fnvBytes fnvInit x)

def joinSp (l : List String) : String := " ".intercalate l

/-- encode with the fast path; for small inputs also through the generic model definition -/
def encodeChecked {p d : Nat} (A : Mat GF256 p d) (data : Array ByteArray) (size : Nat) : Array ByteArray × String :=
  let par := fastEncode A data size
  if size ≤ 64 && d ≤ 32 then
    let pm := modelEncode A data size
    (par, if (par.toList.map (·.toList)) == (pm.toList.map (·.toList)) then "m=1" else "m=0")
  else (par, "m=-")

-- enc <fam> <opts> <d> <p> <size> <seed>
def opEnc (args : List String) : String :=
  match args with
  | [fam, _opts, ds, ps, szs, seeds] =>
    match ds.toNat?, ps.toNat?, szs.toNat?, seeds.toNat? with
    | some d, some p, some size, some seed =>
      if fam == "leo8" || fam == "leo16" then
        (match leoAdmissible fam d p with
         | some e => s!"err {e}"
         | none =>
           if size = 0 then "err ShardNoData" else if size % 64 ≠ 0 then "err InvalidShardSize" else
           let data := mkData d size (UInt64.ofNat seed)
           let par := leoEncodeBytes fam d p data
           s!"ok {joinSp ((data ++ par).toList.map fun b => hashOpt (some b))} | m=-") else
      if size = 0 then "err ShardNoData" else
      if p = 0 then
        if d = 0 then "err InvShardNum" else
        let data := mkData d size (UInt64.ofNat seed)
        s!"ok {joinSp (data.toList.map fun b => hashOpt (some b))} | m=-"
      else
      match famMatrix fam d p with
      | .error e => s!"err {e}"
      | .ok A =>
        let data := mkData d size (UInt64.ofNat seed)
        let (par, flag) := encodeChecked A data size
        s!"ok {joinSp ((data ++ par).toList.map fun b => hashOpt (some b))} | {flag}"
    | _, _, _, _ => "bad-op"
  | _ => "bad-op"

def parseMode (mode : String) (req : List Nat) (d p : Nat) : Option ReconMode :=
  match mode with
  | "all" => some .all
  | "data" => some .dataOnly
  | "someD" => some (.some ((List.range d).map fun i => req.contains i) false)
  | "someT" => some (.some ((List.range (d + p)).map fun i => req.contains i) true)
  | _ => none

/-- error class a Reconstruct* call must return as a function of the presence pattern (L0) -/
def reconErrClass (leo : Bool) (d p size : Nat) (mode : ReconMode) (E : List Nat) : String :=
  let present : Fin (d + p) → Bool := fun i => !E.contains i.val
  if (List.finRange (d + p)).all (fun i => !present i) then "ShardNoData" else
  -- Leopard ignores the contents of the `required` mask: full-length mask = recover all, else data only
  let mode' : ReconMode := if leo then (match mode with
      | .some _ full => if full then .all else .dataOnly
      | m => m) else mode
  match reconShape d p present mode' with
  | .unchanged => "nil"
  | .tooFew => "TooFewShards"
  | .fill _ => if leo && size % 64 ≠ 0 then "InvalidShardSize" else "nil"

-- rec <fam> <opts> <d> <p> <size> <seed> <mode> <E> <req> <missform>
def opRec (args : List String) : String :=
  match args with
  | [fam, _opts, ds, ps, szs, seeds, modes, Es, reqs, _form] =>
    match ds.toNat?, ps.toNat?, szs.toNat?, seeds.toNat? with
    | some d, some p, some size, some seed =>
      if fam == "leo8" || fam == "leo16" then
        (match leoAdmissible fam d p, parseMode modes (parseList reqs) d p with
         | some e, _ => s!"err {e}"
         | _, none => "bad-op"
         | none, some mode =>
           if size % 64 ≠ 0 || size = 0 then "err(encode) InvalidShardSize" else
           let data := mkData d size (UInt64.ofNat seed)
           let all := data ++ leoEncodeBytes fam d p data
           let E := parseList Es
           let present : Fin (d + p) → Bool := fun i => !E.contains i.val
           let cls := reconErrClass true d p size mode E
           let showSh (f : Fin (d + p) → Option ByteArray) : String := joinSp ((List.finRange (d + p)).map fun i => hashOpt (f i))
           if cls != "nil" then s!"err {cls} {showSh fun i => if present i then some all[i.val]! else none} | l1=-"
           else
             let recoverAll := match mode with | .all => true | .dataOnly => false | .some _ full => full
             let mode' : ReconMode := if recoverAll then .all else .dataOnly
             let l0 := match reconShape d p present mode' with
               | .fill filled => showSh fun i => if present i || filled.getD i.val false then some all[i.val]! else none
               | _ => showSh fun i => if present i then some all[i.val]! else none
             -- L1: the schedule model, for small transforms
             let n := Leo.ceilPow2 (Leo.ceilPow2 p + d)
             let l1 := if n * size ≤ 70000 then
                 let sh : Array ByteArray := Array.ofFn fun i : Fin (d + p) => if present i then all[i.val]! else ByteArray.empty
                 let out := leoReconBytes fam d p sh size recoverAll
                 let res := match reconShape d p present mode' with
                   | .fill _ => showSh fun i => if present i then some all[i.val]! else out[i.val]!
                   | _ => showSh fun i => if present i then some all[i.val]! else none
                 (if res == l0 then "1" else "0")
               else "-"
             s!"ok {l0} | l1={l1}") else
      match famMatrix fam d p, parseMode modes (parseList reqs) d p with
      | .error e, _ => s!"err {e}"
      | _, none => "bad-op"
      | .ok A, some mode =>
        let data := mkData d size (UInt64.ofNat seed)
        let (par, _) := encodeChecked A data size
        let all := data ++ par
        let E := parseList Es
        let present : Fin (d + p) → Bool := fun i => !E.contains i.val
        -- argument check of the API layer (`checkShards`): no shard carries a length
        if (List.finRange (d + p)).all (fun i => !present i) then
          "err ShardNoData " ++ joinSp ((List.finRange (d + p)).map fun _ => "-") ++ " | l1=-"
        else
        -- L0: shape of the outcome and original bytes
        let l0 : String :=
          match reconShape d p present mode with
          | .tooFew => "err TooFewShards " ++ joinSp ((List.finRange (d + p)).map fun i => if present i then hashOpt (some all[i.val]!) else "-")
          | .unchanged => "ok " ++ joinSp ((List.finRange (d + p)).map fun i => if present i then hashOpt (some all[i.val]!) else "-")
          | .fill filled => "ok " ++ joinSp ((List.finRange (d + p)).map fun i =>
              if present i || filled.getD i.val false then hashOpt (some all[i.val]!) else "-")
        -- L1: the algorithm itself (inversion of the first d present rows), small cases only
        let l1 : String :=
          if d ≤ 24 && d + p ≤ 32 && size ≤ 128 then
            let sh : Fin (d + p) → Option (Shard GF256 size) := fun i =>
              if present i then some (shardOfBytes all[i.val]! size) else none
            match reconstruct A sh mode with
            | .error .tooFew => "err TooFewShards " ++ joinSp ((List.finRange (d + p)).map fun i => if present i then hashOpt (some all[i.val]!) else "-")
            | .error .singular => "err Singular " ++ joinSp ((List.finRange (d + p)).map fun i => if present i then hashOpt (some all[i.val]!) else "-")
            | .ok out => "ok " ++ joinSp ((List.finRange (d + p)).map fun i => hashOpt ((out i).map bytesOfShard))
          else "-"
        -- for a non-MDS generator (par1, custom) only L1 knows whether the sub-matrix is singular
        if l1 == "-" then s!"{l0} | l1=-"
        else if fam == "par1" || fam.startsWith "custom:" || fam.startsWith "sparse:" || fam.startsWith "blocks:" then s!"{l1} | l1=only"
        else s!"{l0} | l1={if l1 == l0 then "1" else "0"}"
    | _, _, _, _ => "bad-op"
  | _ => "bad-op"

-- ver <fam> <opts> <d> <p> <size> <seed> <flipShard> <flipOff> <delta>
def opVer (args : List String) : String :=
  match args with
  | [fam, _opts, ds, ps, szs, seeds, fss, fos, dls] =>
    match ds.toNat?, ps.toNat?, szs.toNat?, seeds.toNat?, fss.toInt?, fos.toNat?, dls.toNat? with
    | some d, some p, some size, some seed, some fs, some fo, some delta =>
      if fam == "leo8" || fam == "leo16" then
        (match leoAdmissible fam d p with
         | some e => s!"err {e}"
         | none =>
           if size % 64 ≠ 0 || size = 0 then "err(encode) InvalidShardSize" else
           let data := mkData d size (UInt64.ofNat seed)
           let all := data ++ leoEncodeBytes fam d p data
           let all' := if fs < 0 then all else all.modify fs.toNat fun b => b.set! fo ((b.get! fo) ^^^ UInt8.ofNat delta)
           let parNew := leoEncodeBytes fam d p (all'.extract 0 d)
           let ok := (parNew.toList.map (·.toList)) == ((all'.extract d (d + p)).toList.map (·.toList))
           s!"ok {ok} | m=-") else
      if p = 0 then "ok true | m=-" else
      match famMatrix fam d p with
      | .error e => s!"err {e}"
      | .ok A =>
        let data := mkData d size (UInt64.ofNat seed)
        let (par, flag) := encodeChecked A data size
        let all := data ++ par
        let all' := if fs < 0 then all else
          all.modify fs.toNat fun b => b.set! fo ((b.get! fo) ^^^ UInt8.ofNat delta)
        let data' := all'.extract 0 d
        let par' := all'.extract d (d + p)
        let (parNew, _) := encodeChecked A data' size
        let ok := (parNew.toList.map (·.toList)) == (par'.toList.map (·.toList))
        s!"ok {ok} | {flag}"
    | _, _, _, _, _, _, _ => "bad-op"
  | _ => "bad-op"

def opGen (args : List String) : String :=
  match args with
  | fam :: ds :: ps :: rest =>
    match ds.toNat?, ps.toNat? with
    | some d, some p =>
      if fam == "leo8" || fam == "leo16" then leoGenOp fam d p (rest == ["dump"]) else
      match genMatrix fam d p with
      | .error e => s!"err {e}"
      | .ok o =>
        let body := if rest == ["dump"] then hexBytes o.bytes else hex64 (fnvBytes fnvInit o.bytes)
        s!"ok {body} | cert={o.cert} l0={o.l0}"
    | _, _ => "bad-op"
  | _ => "bad-op"

-- idx <opts> <d> <p> <size> <seed> <order>
def opIdx (args : List String) : String :=
  match args with
  | [_opts, ds, ps, szs, seeds, orders] =>
    match ds.toNat?, ps.toNat?, szs.toNat?, seeds.toNat? with
    | some d, some p, some size, some seed =>
      let order := parseList orders
      if p = 0 then "ok " else
      if order.any (· ≥ d) then "err InvShardNum" else
      if size = 0 then "err ShardNoData" else
      match famMatrix "default" d p with
      | .error e => s!"err {e}"
      | .ok A =>
        let data := mkData d size (UInt64.ofNat seed)
        -- L0: parity after the deliveries = encodeSpec of the data with undelivered shards zeroed and
        -- multiply-delivered shards counted with multiplicity (xor)
        let eff : Array ByteArray := Array.ofFn fun c : Fin d =>
          if (order.count c.val) % 2 = 1 then data[c.val]! else ByteArray.mk (Array.replicate size 0)
        let (par, flag) := encodeChecked A eff size
        -- L1: fold encodeIdxStep (generic model) for small cases
        let l1 : String :=
          if size ≤ 64 && d ≤ 16 then
            -- the parity after every step is materialised in an array (the model's step takes and
            -- returns a function)
            let z : Array (Shard GF256 size) := Array.replicate p (Vector.replicate size 0)
            let outA := order.foldl (fun (acc : Array (Shard GF256 size)) c =>
              if h : c < d then
                let sc := shardOfBytes data[c]! size
                Array.ofFn fun r : Fin p => encodeIdxStep A (fun r' => acc[r'.val]!) ⟨c, h⟩ sc r
              else acc) z
            let out : Fin p → Shard GF256 size := fun r => outA[r.val]!
            if (List.finRange p).all (fun r => (bytesOfShard (out r)).toList == par[r.val]!.toList) then "1" else "0"
          else "-"
        s!"ok {joinSp (par.toList.map fun b => hashOpt (some b))} | {flag} l1={l1}"
    | _, _, _, _ => "bad-op"
  | _ => "bad-op"

-- idxbad <opts> <d> <p> <size> <seed> <k> <len>: EncodeIdx of data shard k presented with length <len> on encoded parity
-- (API model: argument checks in the order of the code; a wrong length is ErrShardSize and nothing is written)
def opIdxBad (args : List String) : String :=
  match args with
  | [_opts, ds, ps, szs, _seeds, ks, ns] =>
    match ds.toNat?, ps.toNat?, szs.toNat?, ks.toNat?, ns.toNat? with
    | some d, some p, some size, some k, some n =>
      if d = 0 then "err InvShardNum" else
      if size = 0 then "err(encode) ShardNoData" else
      if p = 0 then "ok unchanged" else
      if k ≥ d then "err InvShardNum unchanged" else
      if n ≠ size then "err ShardSize unchanged" else "ok changed"
    | _, _, _, _, _ => "bad-op"
  | _ => "bad-op"

-- upd <opts> <d> <p> <size> <seed> <changed> <nils> [<newlen>]
def opUpd (args : List String) : String :=
  match args with
  | _opts :: ds :: ps :: szs :: seeds :: chs :: _nils :: rest =>
    match ds.toNat?, ps.toNat?, szs.toNat?, seeds.toNat? with
    | some d, some p, some size, some seed =>
      let changed := parseList chs
      if size = 0 then "err ShardNoData" else
      if changed.isEmpty then "err ShardNoData" else      -- checkShards(newDatashards): all nil
      -- trailing tokens: a number = length of the first changed shard; e:<list> = empty non-nil entries (= unchanged)
      -- l:<shard>:<len> = that changed shard has another length: sizes differ -> ErrShardSize
      if rest.any (fun t => t.startsWith "l:" && ((t.splitOn ":").getD 2 "").toNat? ≠ some size) then "err ShardSize" else
      match rest.filter (fun t => !t.startsWith "e:" && !t.startsWith "l:") with
      | [nl] => if nl.toNat? ≠ some size then "err ShardSize" else "bad-op"
      | _ =>
      if p = 0 then "ok " else
      match famMatrix "default" d p with
      | .error e => s!"err {e}"
      | .ok A =>
        let old := mkData d size (UInt64.ofNat seed)
        let nw := mkData d size (UInt64.ofNat (seed + 1))
        let upd : Array ByteArray := Array.ofFn fun c : Fin d => if changed.contains c.val then nw[c.val]! else old[c.val]!
        let (par, flag) := encodeChecked A upd size
        let l1 : String :=
          if size ≤ 64 && d ≤ 16 then
            let (par0, _) := encodeChecked A old size
            let out := updateSpec A (fun c => some (shardOfBytes old[c.val]! size))
              (fun r => shardOfBytes par0[r.val]! size)
              (fun c => if changed.contains c.val then some (shardOfBytes nw[c.val]! size) else none)
            if (List.finRange p).all (fun r => (bytesOfShard (out r)).toList == par[r.val]!.toList) then "1" else "0"
          else "-"
        s!"ok {joinSp (par.toList.map fun b => hashOpt (some b))} | {flag} l1={l1}"
    | _, _, _, _ => "bad-op"
  | _ => "bad-op"

def sjErr (e : SJ.Err) : String :=
  match e with
  | .shortData => "ShortData" | .tooFewShards => "TooFewShards" | .reconstructRequired => "ReconstructRequired"

def famQ (fam : String) : Nat := if fam == "leo8" || fam == "leo16" then 64 else 1

-- split <fam> <d> <p> <len> <spare> <seed>
def opSplit (args : List String) : String :=
  match args with
  | [fam, ds, ps, ns, sps, seeds] =>
    match ds.toNat?, ps.toNat?, ns.toNat?, sps.toNat?, seeds.toNat? with
    | some d, some p, some n, some spare, some seed =>
      let q := famQ fam
      let data := (fillBytes (UInt64.ofNat seed) 0 n).toList.map (·.toNat)
      let l1 := SJ.split q d p data (List.replicate spare 0xA5)
      let l0 := SJ.splitSpec q d p data
      match l1, l0 with
      | .error e, .error e0 => s!"err {sjErr e} | l0={if e == e0 then 1 else 0}"
      | .ok sh, .ok sh0 =>
        let all := sh.foldl (· ++ ·) []
        let h := all.foldl (fun h b => fnvStep h (UInt8.ofNat b)) fnvInit
        let per := match sh with | s :: _ => s.length | [] => 0
        let aliased := if d + p = 1 then 1 else SJ.splitAliased q d p n (n + spare)
        s!"ok {sh.length} {per} {hex64 h} {aliased} enc=nil out=0 | l0={if sh == sh0 then 1 else 0} eq={if sh.all (·.length == per) then 1 else 0}"
      | _, _ => "ok | l0=0"
    | _, _, _, _, _ => "bad-op"
  | _ => "bad-op"

-- join <fam> <d> <p> <len> <outSize> <nils> <given> <seed>
def opJoin (args : List String) : String :=
  match args with
  | [fam, ds, ps, ns, outs, nils, gs, seeds] =>
    match ds.toNat?, ps.toNat?, ns.toNat?, outs.toInt?, gs.toNat?, seeds.toNat? with
    | some d, some p, some n, some outSize, some given, some seed =>
      let q := famQ fam
      let data := (fillBytes (UInt64.ofNat seed) 0 n).toList.map (·.toNat)
      match SJ.split q d p data [] with
      | .error e => s!"err(split) {sjErr e}"
      | .ok sh =>
        let nl := parseList nils
        let shards : List (Option (List Nat)) := (sh.zipIdx.map fun (s, i) => if nl.contains i then none else some s).take given
        if shards.length < d then "err TooFewShards 0"
        else if outSize < 0 then "err ShortData 0"        -- argument check of the API layer (fix 33b1873)
        else
        match SJ.join d shards outSize.toNat with
        | .error e => s!"err {sjErr e} 0"
        | .ok out =>
          let h := out.foldl (fun h b => fnvStep h (UInt8.ofNat b)) fnvInit
          -- L0: the first outSize bytes of data ++ zeros
          let l0 := (data ++ SJ.zeros (d * SJ.perShard q d n - n)).take outSize.toNat
          let l0ok := if nl.isEmpty then (if out == l0 then "1" else "0") else "-"
          s!"ok {hex64 h} {out.length} | l0={l0ok}"
    | _, _, _, _, _, _ => "bad-op"
  | _ => "bad-op"

-- hist <fam> <opts> <d> <p> ; sub ; sub …   (every answer: error class, same as fresh, correct bytes)
def opHist (args : List String) : String :=
  let line := " ".intercalate args
  match line.splitOn ";" with
  | hd :: subs =>
    match ((hd.splitOn " ").filter (· ≠ "")).take 4 with
    | [fam, _opts, ds, ps] =>
      match ds.toNat?, ps.toNat? with
      | some d, some p =>
        let leo := fam == "leo8" || fam == "leo16"
        let outs := subs.filterMap fun sub =>
          match (sub.splitOn " ").filter (· ≠ "") with
          | ["r", szs, _seed, modes, Es, reqs, _form] =>
            match szs.toNat?, parseMode modes (parseList reqs) d p with
            | some size, some mode => some s!"{reconErrClass leo d p size mode (parseList Es)} same correct"
            | _, _ => some "bad-sub"
          | ["e", szs, _seed] =>
            (match szs.toNat? with
             | some size => some (if size = 0 then "ShardNoData same correct" else if leo && size % 64 ≠ 0 then "InvalidShardSize same correct" else "nil same correct")
             | none => some "bad-sub")
          | ["v", _szs, _seed, _fs, _fo] => some "nil same correct"
          | ["g"] => none
          | [] => none
          | _ => some "bad-sub"
        " ; ".intercalate outs
      | _, _ => "bad-op"
    | _ => "bad-op"
  | [] => "bad-op"

-- frame <fam> <opts> <d> <p> <size> <seed> <op> <args…>
def opFrame (args : List String) : String :=
  match args with
  | fam :: _opts :: ds :: ps :: szs :: _seed :: op :: rest =>
    match ds.toNat?, ps.toNat?, szs.toNat? with
    | some d, some p, some size =>
      let leo := fam == "leo8" || fam == "leo16"
      let str (l : List Frames.W) : String := String.ofList (l.map Frames.W.toChar)
      match op, rest with
      | "enc", _ => s!"nil {str (Frames.encodeFrame d p)} guards=ok"
      | "encw", _ => s!"nil {str (Frames.encodeFrame d p)} guards=ok"
      | "ver", _ => s!"nil {str (Frames.verifyFrame d p)} guards=ok"
      | "rec", [modes, Es, reqs, capm] =>
        (match parseMode modes (parseList reqs) d p with
         | none => "bad-op"
         | some mode =>
           let E := parseList Es
           let present : Fin (d + p) → Bool := fun i => !E.contains i.val
           let mode' : ReconMode := if leo then (match mode with
             | .some _ full => if full then .all else .dataOnly
             | m => m) else mode
           let capOk : Fin (d + p) → Bool := fun _ => capm == "big" || capm == "exact"
           let e := reconErrClass leo d p size mode E
           if e != "nil" then s!"{e} {str (Frames.verifyFrame d p)} guards=ok"
           else s!"nil {str (Frames.reconFrame d p present mode' capOk)} guards=ok")
      | "idx", [orders] => s!"nil {str (Frames.idxFrame d p (parseList orders).length)} guards=ok"
      | "upd", [chs, _nils] =>
        let ch := parseList chs
        s!"nil {str (Frames.updateFrame d p fun c => ch.contains c.val)} guards=ok"
      | _, _ => "bad-op"
    | _, _, _ => "bad-op"
  | _ => "bad-op"

-- allocchk <shards> <each>
def opAllocChk (args : List String) : String :=
  match args with
  | [ns, es] =>
    match ns.toNat?, es.toNat? with
    | some n, some each =>
      -- every base alignment gives non-overlapping, in-bounds, 64-aligned slices (checked here for all 64 residues)
      let okAll := (List.range 64).all fun r =>
        let a := Frames.allocAligned n each r true
        a.offs.all (fun o => (r + o) % 64 = 0 && o + a.cap ≤ a.total) &&
        (a.offs.zip (a.offs.drop 1)).all (fun (x, y) => x + a.cap ≤ y)
      let a := Frames.allocAligned n each 0 true
      s!"ok n={n} each={a.len} cap={a.cap} aligned={if okAll then 1 else 0} disjoint={if okAll then 1 else 0}"
    | _, _ => "bad-op"
  | _ => "bad-op"

def famOf (s : String) : Option Kernels.Family :=
  match s with
  | "avx2" => some .avx2 | "gfni" => some .gfni | "avxgfni" => some .avxgfni | _ => none

-- kern <family> <xor> <ni> <no> <len> <start> <stop> <seed>  ->  the count the kernel must return
def opKern (args : List String) : String :=
  match args with
  | [fam, _xor, _ni, nos, _len, starts, stops, _seed] =>
    match famOf fam, nos.toNat?, starts.toNat?, stops.toNat? with
    | some f, some no, some start, some stop => s!"ok n={Kernels.count f no (stop - start)}"
    | _, _, _, _ => "bad-op"
  | _ => "bad-op"

def opKernLane (args : List String) : String :=
  match args with
  | [_fam, _xor, nis, nos] =>
    match nis.toNat?, nos.toNat? with
    | some ni, some no => s!"ok slots={ni * no} calls={ni * no * 256}"
    | _, _ => "bad-op"
  | _ => "bad-op"

-- tree <d> <p> ; i <key> <tag> ; g <key> ; …   (the trie model; values are tags)
def opTree (args : List String) : String :=
  let line := " ".intercalate args
  match line.splitOn ";" with
  | _hd :: subs =>
    let init : Option (Memo.Tree Nat) := some ⟨Memo.Node.mk (some 0) (fun _ => Memo.Node.empty)⟩
    let (_, outs) := subs.foldl (fun (acc : Option (Memo.Tree Nat) × List String) sub =>
      match (sub.splitOn " ").filter (· ≠ "") with
      | ["i", ks, tag] =>
        let key := parseList ks
        if key.isEmpty then (acc.1, acc.2 ++ ["err"])      -- errAlreadySet
        else (Memo.Tree.insert acc.1 key tag.toNat!, acc.2 ++ ["ok"])
      | ["g", ks] =>
        let key := parseList ks
        (acc.1, acc.2 ++ [match Memo.Tree.get acc.1 key with
          | none => "nil"
          | some v => if key.isEmpty then "root" else toString v])
      | _ => acc) (init, [])
    " ".intercalate outs
  | [] => "bad-op"

-- bfneed <8|16> <positions> <mips>
-- result from the L0 predicate; `l1=` compares the L1 word-level model (`BitfieldImpl`: set / prepare / isNeeded)
def opBfNeed (args : List String) : String :=
  match args with
  | [gf, poss, mipss] =>
    let bits := if gf == "8" then 8 else 16
    let pos := parseList poss
    let bf8 := (BitfieldImpl.BF8.ofList pos).prepare
    let bf16 := if bits == 16 then (BitfieldImpl.BF16.ofList pos).prepare else BitfieldImpl.BF16.empty
    let res := (parseList mipss).map fun m =>
      let step := 1 <<< (min m bits)
      let n := (1 <<< bits) / step
      let (cnt, h, ok) := (List.range n).foldl (fun (acc : Nat × UInt64 × Bool) k =>
        let v := Bitfield.needed bits pos m (k * step)
        let v1 := if bits == 8 then bf8.isNeeded m (k * step) else bf16.isNeeded m (k * step)
        (if v then acc.1 + 1 else acc.1, fnvStep acc.2.1 (if v then 1 else 0), acc.2.2 && (v == v1))) (0, fnvInit, true)
      (s!"{m}:{cnt}:{hex64 h}", ok)
    let ok := res.all (·.2)
    " ".intercalate (res.map (·.1)) ++ s!" | l1={if ok then 1 else 0}"
  | _ => "bad-op"

def opBfKey (args : List String) : String :=
  match args with
  | [poss] =>
    let pos := parseList poss
    let k0 := Bitfield.cacheKey pos
    let k1 := (BitfieldImpl.BF8.ofList pos).cacheID
    k0.foldl (fun s b => s ++ hexByte b) "" ++ s!" | l1={if k0 == k1 then 1 else 0}"
  | _ => "bad-op"

def hexVal (c : Char) : Nat :=
  if c.isDigit then c.toNat - 48 else if 'a' ≤ c && c ≤ 'f' then c.toNat - 87 else 0

def parseHex (s : String) : ByteArray := Id.run do
  let cs := s.toList.toArray
  let mut out := ByteArray.emptyWithCapacity (cs.size / 2)
  for i in [0:cs.size / 2] do
    out := out.push (UInt8.ofNat (hexVal cs[2*i]! * 16 + hexVal cs[2*i+1]!))
  return out

-- certm <d> <p> <hex of the p×d matrix, row-major>: run the proved certificate on a given matrix
def opCertM (args : List String) : String :=
  match args with
  | [ds, ps, hx] =>
    match ds.toNat?, ps.toNat? with
    | some d, some p =>
      if hd : d = 0 then "bad-op" else if hp : p = 0 then "bad-op" else
      let bs := parseHex hx
      if bs.size ≠ d * p then "bad-op" else
      let A : Mat GF256 p d := Mat.ofFn fun r c => gfOfByte (bs.get! (r.val * d + c.val))
      let hd' := Nat.pos_of_ne_zero hd
      let hp' := Nat.pos_of_ne_zero hp
      let c := certFast hd' hp' none A || certFast hd' hp' (some ⟨p - 1, by omega⟩) A || certFast hd' hp' (some ⟨0, hp'⟩) A
      s!"ok cert={if c then 1 else 0}"
    | _, _ => "bad-op"
  | _ => "bad-op"

def stepToks : List String → String
  | "guard" :: rest => stepToks rest      -- `guard <op>`: the harness runs <op> under its watchdog; same expected answer
  | toks => stepOp toks
where stepOp (toks : List String) : String :=
  match toks with
  | "gen" :: args => opGen args
  | "enc" :: args => opEnc args
  | "rec" :: args => opRec args
  | "ver" :: args => opVer args
  | "tab" :: args => opTab args
  | "idx" :: args => opIdx args
  | "idxbad" :: args => opIdxBad args
  | "hist" :: args => opHist args
  | "bfneed" :: args => opBfNeed args
  | "bfkey" :: args => opBfKey args
  | "tree" :: args => opTree args
  | "kern" :: args => opKern args
  | "kernlane" :: args => opKernLane args
  | "mulslice" :: _ => "ok"
  | "slicexor" :: _ => "ok"
  | "leobf" :: _ => "ok"
  | "frame" :: args => opFrame args
  | "allocchk" :: args => opAllocChk args
  | "api" :: args => opApi args
  | "new" :: args => opNew args
  | "opts" :: args => opOpts args
  | "newstream" :: args => opNewStream args
  | "conc" :: args => opHist args
  | "concread" :: _ => "ok"
  | "concver" :: _ => "ok"
  | "concstream" :: _ => "ok"
  | "concstreamf" :: _ => "ok"
  | "concsame" :: _ => "ok"
  | "minv" :: args => opMinv args
  | "msub" :: args => opMsub args
  | "bmat" :: args => opBmat args
  | "fn" :: args => opFn args
  | "sencode" :: args => opSEncode args
  | "sverify" :: args => opSVerify args
  | "srecon" :: args => opSRecon args
  | "ssplit" :: args => opSSplit args
  | "sjoin" :: args => opSJoin args
  | "split" :: args => opSplit args
  | "join" :: args => opJoin args
  | "upd" :: args => opUpd args
  | "certm" :: args => opCertM args
  | [] => ""
  | _ => "bad-op"

/-- `asmcheck <kernel line>`: the proved reflective checker (`RSV.Props.C08asm.C08_asm_sound`) on the canonical text of one
generated amd64 kernel; the rest of the line is passed verbatim -/
def step (line : String) : String :=
  let t := line.trimAscii.toString
  if t.startsWith "asmcheck " then RSV.Asm.checkLine (t.drop 9).toString.trimAscii.toString
  else stepToks ((t.splitOn " ").filter (· ≠ ""))

partial def loop (hin : IO.FS.Stream) (hout : IO.FS.Stream) : IO Unit := do
  let line ← hin.getLine
  if line.isEmpty then return ()
  hout.putStrLn (step line)
  loop hin hout

end Drv

