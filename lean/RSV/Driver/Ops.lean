import RSV.Driver.Util
import RSV.Driver.Fast
import RSV.Driver.Tables
import RSV.Model.Builders
import RSV.Model.Cert
import RSV.Model.Codec
/-! line-protocol driver: one op per input line, one result line per op (core only) -/
namespace Drv
open RSV RSV.Model

def pt (n : Nat) : GF256 := GF256.ofNat n

/-- L0 closed form of the default generator: Lagrange basis over nodes `0..d-1` at `d+r` -/
def lagrangeParity (d p : Nat) : Mat GF256 p d :=
  -- 1 / ∏_{j≠c} (y_c - y_j), once per column
  let invDen : Array GF256 := Array.ofFn fun c : Fin d =>
    ((List.range d).foldl (fun acc j => if j = c.val then acc else acc * (pt c.val - pt j)) 1)⁻¹
  Mat.ofFn fun r c =>
    let xr := pt (d + r.val)
    let num := (List.range d).foldl (fun acc j => if j = c.val then acc else acc * (xr - pt j)) 1
    num * invDen[c.val]!

/-- `certGC` on the natural points with the scalars read off the first row and column,
memoised in arrays (`certGC_sound'` holds for any `u, v`; distinctness of the natural points
is `GF256.ofNat_injOn`) -/
def certFast {p d : Nat} (hd : 0 < d) (hp : 0 < p) (inf : Option (Fin p)) (A : Mat GF256 p d) : Bool :=
  let x : Fin p → Option GF256 := fun r => if inf = some r then none else some (pt (d + r.val))
  let y : Fin d → GF256 := fun c => pt c.val
  let uArr : Array GF256 := Array.ofFn (readU hd A x y)
  let vArr : Array GF256 := Array.ofFn (readV hd hp A x y)
  certGC A x y (fun r => uArr[r.val]!) (fun c => vArr[c.val]!)

/-- parity matrix of a family as the driver's oracle uses it -/
def famMatrix (fam : String) (d p : Nat) : Except String (Mat GF256 p d) :=
  if hd : d = 0 then .error "InvShardNum" else
  if hp : p = 0 then .error "noparity" else
  if d + p > 256 then .error "MaxShardNum" else
  have hd' : 0 < d := Nat.pos_of_ne_zero hd
  match fam with
  | "default" =>
    if d ≤ 40 then
      match buildMatrix pt d (d + p) (Nat.le_add_right d p) with
      | none => .error "Singular"
      | some G => .ok (parityPart p rfl G)
    else .ok (lagrangeParity d p)
  | "cauchy" => .ok (parityPart p rfl (buildMatrixCauchy pt d (d + p)))
  | "par1" => .ok (parityPart p rfl (buildMatrixPAR1 pt d (d + p)))
  | "xor" => if p ≠ 1 then .error "internal" else .ok (parityPart p rfl (buildXorMatrix d (d + p)))
  | "jerasure" => .ok (parityPart p rfl (buildMatrixJerasure pt d (d + p) (by omega) hd'))
  | _ =>
    if fam.startsWith "custom:" then
      match (fam.drop 7).toString.toNat? with
      | some seed =>
        let rows : Array ByteArray := Array.ofFn fun r : Fin p => fillBytes (UInt64.ofNat seed) (1000 + r.val) d
        .ok (Mat.ofFn fun r c => gfOfByte (rows[r.val]!.get! c.val))
      | none => .error "badfam"
    else .error "badfam"

structure GenOut where
  bytes : ByteArray
  cert : String
  l0 : String

def genMatrix (fam : String) (d p : Nat) : Except String GenOut :=
  if hd : d = 0 then .error "InvShardNum" else
  if hp : p = 0 then .error "noparity" else
  if d + p > 256 then .error "MaxShardNum" else
  have hd' : 0 < d := Nat.pos_of_ne_zero hd
  have hp' : 0 < p := Nat.pos_of_ne_zero hp
  let b2s (b : Bool) : String := if b then "1" else "0"
  match fam with
  | "default" =>
    -- L0 closed form always; the L1 algorithm (Vandermonde · inverse of its top square) is run
    -- next to it for d ≤ 40 (it costs O(d³) matrix rebuilds) and must agree
    let A0 := lagrangeParity d p
    if d ≤ 40 then
      match buildMatrix pt d (d + p) (Nat.le_add_right d p) with
      | none => .error "Singular"
      | some G =>
        let A := parityPart p rfl G
        .ok ⟨matBytes A, b2s (certFast hd' hp' none A), b2s (decide (A = A0))⟩
    else
      .ok ⟨matBytes A0, b2s (certFast hd' hp' none A0), "-"⟩
  | "cauchy" =>
    let A := parityPart p rfl (buildMatrixCauchy pt d (d + p))
    let l0 : Mat GF256 p d := Mat.ofFn fun r c => (pt ((d + r.val) ^^^ c.val))⁻¹
    .ok ⟨matBytes A, b2s (certFast hd' hp' none A), b2s (decide (A = l0))⟩
  | "par1" =>
    let A := parityPart p rfl (buildMatrixPAR1 pt d (d + p))
    .ok ⟨matBytes A, b2s (certFast hd' hp' none A), "-"⟩
  | "xor" =>
    if p ≠ 1 then .error "internal" else
    let A : Mat GF256 p d := parityPart p rfl (buildXorMatrix d (d + p))
    .ok ⟨matBytes A, b2s (certFast hd' hp' (some ⟨0, hp'⟩) A), "-"⟩
  | "jerasure" =>
    let A := parityPart p rfl (buildMatrixJerasure pt d (d + p) (by omega) hd')
    let c1 := certFast hd' hp' (some ⟨p - 1, by omega⟩) A
    let c2 := certFast hd' hp' none A
    .ok ⟨matBytes A, b2s (c1 || c2), "-"⟩
  | _ =>
    match famMatrix fam d p with
    | .error e => .error e
    | .ok A => .ok ⟨matBytes A, "-", "-"⟩

def hashOpt (b : Option ByteArray) : String :=
  match b with
  | none => "-"
  | some x => if x.size = 0 then "-" else hex64 (fnvBytes fnvInit x)

def joinSp (l : List String) : String := " ".intercalate l

/-- data shards for (d, size, seed) -/
def mkData (d size : Nat) (seed : UInt64) : Array ByteArray :=
  Array.ofFn fun c : Fin d => fillBytes seed c.val size

/-- encode with the fast path; for small inputs also through the generic model definition -/
def encodeChecked {p d : Nat} (A : Mat GF256 p d) (data : Array ByteArray) (size : Nat) : Array ByteArray × String :=
  let par := fastEncode A data size
  if size ≤ 64 && d ≤ 32 then
    let pm := modelEncode A data size
    (par, if (par.toList.map (·.toList)) == (pm.toList.map (·.toList)) then "m=1" else "m=0")
  else (par, "m=-")

-- enc <fam> <opts> <d> <p> <size> <seed>
def opEnc (args : List String) : String :=
  match args with
  | [fam, _opts, ds, ps, szs, seeds] =>
    match ds.toNat?, ps.toNat?, szs.toNat?, seeds.toNat? with
    | some d, some p, some size, some seed =>
      if size = 0 then "err ShardNoData" else
      if p = 0 then
        if d = 0 then "err InvShardNum" else
        let data := mkData d size (UInt64.ofNat seed)
        s!"ok {joinSp (data.toList.map fun b => hashOpt (some b))} | m=-"
      else
      match famMatrix fam d p with
      | .error e => s!"err {e}"
      | .ok A =>
        let data := mkData d size (UInt64.ofNat seed)
        let (par, flag) := encodeChecked A data size
        s!"ok {joinSp ((data ++ par).toList.map fun b => hashOpt (some b))} | {flag}"
    | _, _, _, _ => "bad-op"
  | _ => "bad-op"

def parseMode (mode : String) (req : List Nat) (d p : Nat) : Option ReconMode :=
  match mode with
  | "all" => some .all
  | "data" => some .dataOnly
  | "someD" => some (.some ((List.range d).map fun i => req.contains i) false)
  | "someT" => some (.some ((List.range (d + p)).map fun i => req.contains i) true)
  | _ => none

-- rec <fam> <opts> <d> <p> <size> <seed> <mode> <E> <req> <missform>
def opRec (args : List String) : String :=
  match args with
  | [fam, _opts, ds, ps, szs, seeds, modes, Es, reqs, _form] =>
    match ds.toNat?, ps.toNat?, szs.toNat?, seeds.toNat? with
    | some d, some p, some size, some seed =>
      match famMatrix fam d p, parseMode modes (parseList reqs) d p with
      | .error e, _ => s!"err {e}"
      | _, none => "bad-op"
      | .ok A, some mode =>
        let data := mkData d size (UInt64.ofNat seed)
        let (par, _) := encodeChecked A data size
        let all := data ++ par
        let E := parseList Es
        let present : Fin (d + p) → Bool := fun i => !E.contains i.val
        -- argument check of the API layer (`checkShards`): no shard carries a length
        if (List.finRange (d + p)).all (fun i => !present i) then
          "err ShardNoData " ++ joinSp ((List.finRange (d + p)).map fun _ => "-") ++ " | l1=-"
        else
        -- L0: shape of the outcome and original bytes
        let l0 : String :=
          match reconShape d p present mode with
          | .tooFew => "err TooFewShards " ++ joinSp ((List.finRange (d + p)).map fun i => if present i then hashOpt (some all[i.val]!) else "-")
          | .unchanged => "ok " ++ joinSp ((List.finRange (d + p)).map fun i => if present i then hashOpt (some all[i.val]!) else "-")
          | .fill filled => "ok " ++ joinSp ((List.finRange (d + p)).map fun i =>
              if present i || filled.getD i.val false then hashOpt (some all[i.val]!) else "-")
        -- L1: the algorithm itself (inversion of the first d present rows), small cases only
        let l1 : String :=
          if d ≤ 24 && size ≤ 128 then
            let sh : Fin (d + p) → Option (Shard GF256 size) := fun i =>
              if present i then some (shardOfBytes all[i.val]! size) else none
            match reconstruct A sh mode with
            | .error .tooFew => "err TooFewShards " ++ joinSp ((List.finRange (d + p)).map fun i => if present i then hashOpt (some all[i.val]!) else "-")
            | .error .singular => "err Singular " ++ joinSp ((List.finRange (d + p)).map fun i => if present i then hashOpt (some all[i.val]!) else "-")
            | .ok out => "ok " ++ joinSp ((List.finRange (d + p)).map fun i => hashOpt ((out i).map bytesOfShard))
          else "-"
        -- for a non-MDS generator (par1, custom) only L1 knows whether the sub-matrix is singular
        if l1 == "-" then s!"{l0} | l1=-"
        else if fam == "par1" || fam.startsWith "custom:" then s!"{l1} | l1=only"
        else s!"{l0} | l1={if l1 == l0 then "1" else "0"}"
    | _, _, _, _ => "bad-op"
  | _ => "bad-op"

-- ver <fam> <opts> <d> <p> <size> <seed> <flipShard> <flipOff> <delta>
def opVer (args : List String) : String :=
  match args with
  | [fam, _opts, ds, ps, szs, seeds, fss, fos, dls] =>
    match ds.toNat?, ps.toNat?, szs.toNat?, seeds.toNat?, fss.toInt?, fos.toNat?, dls.toNat? with
    | some d, some p, some size, some seed, some fs, some fo, some delta =>
      if p = 0 then "ok true | m=-" else
      match famMatrix fam d p with
      | .error e => s!"err {e}"
      | .ok A =>
        let data := mkData d size (UInt64.ofNat seed)
        let (par, flag) := encodeChecked A data size
        let all := data ++ par
        let all' := if fs < 0 then all else
          all.modify fs.toNat fun b => b.set! fo ((b.get! fo) ^^^ UInt8.ofNat delta)
        let data' := all'.extract 0 d
        let par' := all'.extract d (d + p)
        let (parNew, _) := encodeChecked A data' size
        let ok := (parNew.toList.map (·.toList)) == (par'.toList.map (·.toList))
        s!"ok {ok} | {flag}"
    | _, _, _, _, _, _, _ => "bad-op"
  | _ => "bad-op"

def opGen (args : List String) : String :=
  match args with
  | fam :: ds :: ps :: rest =>
    match ds.toNat?, ps.toNat? with
    | some d, some p =>
      match genMatrix fam d p with
      | .error e => s!"err {e}"
      | .ok o =>
        let body := if rest == ["dump"] then hexBytes o.bytes else hex64 (fnvBytes fnvInit o.bytes)
        s!"ok {body} | cert={o.cert} l0={o.l0}"
    | _, _ => "bad-op"
  | _ => "bad-op"

def hexVal (c : Char) : Nat :=
  if c.isDigit then c.toNat - 48 else if 'a' ≤ c && c ≤ 'f' then c.toNat - 87 else 0

def parseHex (s : String) : ByteArray := Id.run do
  let cs := s.toList.toArray
  let mut out := ByteArray.emptyWithCapacity (cs.size / 2)
  for i in [0:cs.size / 2] do
    out := out.push (UInt8.ofNat (hexVal cs[2*i]! * 16 + hexVal cs[2*i+1]!))
  return out

-- certm <d> <p> <hex of the p×d matrix, row-major>: run the proved certificate on a given matrix
def opCertM (args : List String) : String :=
  match args with
  | [ds, ps, hx] =>
    match ds.toNat?, ps.toNat? with
    | some d, some p =>
      if hd : d = 0 then "bad-op" else if hp : p = 0 then "bad-op" else
      let bs := parseHex hx
      if bs.size ≠ d * p then "bad-op" else
      let A : Mat GF256 p d := Mat.ofFn fun r c => gfOfByte (bs.get! (r.val * d + c.val))
      let hd' := Nat.pos_of_ne_zero hd
      let hp' := Nat.pos_of_ne_zero hp
      let c := certFast hd' hp' none A || certFast hd' hp' (some ⟨p - 1, by omega⟩) A || certFast hd' hp' (some ⟨0, hp'⟩) A
      s!"ok cert={if c then 1 else 0}"
    | _, _ => "bad-op"
  | _ => "bad-op"

def step (line : String) : String :=
  match (line.trimAscii.toString.splitOn " ").filter (· ≠ "") with
  | "gen" :: args => opGen args
  | "enc" :: args => opEnc args
  | "rec" :: args => opRec args
  | "ver" :: args => opVer args
  | "tab" :: args => opTab args
  | "certm" :: args => opCertM args
  | [] => ""
  | _ => "bad-op"

partial def loop (hin : IO.FS.Stream) (hout : IO.FS.Stream) : IO Unit := do
  let line ← hin.getLine
  if line.isEmpty then return ()
  hout.putStrLn (step line)
  loop hin hout

end Drv

