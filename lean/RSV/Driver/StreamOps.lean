import RSV.Driver.Fast
import RSV.Model.Streams
import RSV.Model.Builders
import RSV.Model.Cert
/-! stream ops of the driver: the stream model instantiated with the GF(2^8) block codec -/
namespace Drv
open RSV RSV.Model

def listOfBytes (b : ByteArray) : List Nat := b.toList.map (·.toNat)
def bytesOfList (l : List Nat) : ByteArray := l.foldl (fun acc x => acc.push (UInt8.ofNat x)) ByteArray.empty

def defaultParity (d p : Nat) : Option (Mat GF256 p d) :=
  if d = 0 || p = 0 || d + p > 256 then none else
  -- L1 builder for small d; the proved-equal Lagrange closed form (C01_default / C03_default_entry) above that
  if d ≤ 40 then
    match buildMatrix GF256.ofNat d (d + p) (Nat.le_add_right d p) with
    | some G => some (parityPart p rfl G)
    | none => none
  else some (lagrangeParity d p)

/-- the in-memory codec on one block -/
def blockCodec (d p : Nat) : St.BlockCodec :=
  match defaultParity d p with
  | none => ⟨d, p, fun _ => List.replicate p [], fun _ => true, fun b _ => .ok b⟩
  | some A =>
    { d := d, p := p,
      encode := fun blocks =>
        let len := (blocks.headD []).length
        (fastEncode A (blocks.map bytesOfList).toArray len).toList.map listOfBytes,
      verify := fun blocks =>
        let len := (blocks.headD []).length
        let par := (fastEncode A ((blocks.take d).map bytesOfList).toArray len).toList.map listOfBytes
        par == blocks.drop d,
      reconstruct := fun blocks dataOnly =>
        let size := St.shardSize blocks
        let arr := (blocks.map bytesOfList).toArray
        let r := reconFast A arr size dataOnly
        -- small blocks: the generic model definition must agree with the table-driven evaluation
        let r := if size ≤ 16 && d ≤ 8 then
            (match r, reconModel A arr size dataOnly with
             | .ok a, .ok b => if a.toList.map (·.toList) == b.toList.map (·.toList) then r else .error 777
             | .error x, .error y => if x = y then r else .error 777
             | _, _ => .error 777)
          else r
        match r with
        | .error t => .error t
        | .ok out => .ok (out.toList.map listOfBytes) }

def sErr (e : St.Err) : String :=
  match e with
  | .tooFewShards => "TooFewShards" | .shardNoData => "ShardNoData" | .shardSize => "ShardSize"
  | .reconMismatch => "ReconstructMismatch" | .shortData => "ShortData" | .invShardNum => "InvShardNum"
  | .codec 1 => "TooFewShards" | .codec 2 => "Singular" | .codec t => s!"Codec{t}"
  | .read i => s!"StreamRead({i},Injected)"
  | .write i true => s!"StreamWrite({i},ShortWrite)"
  | .write i false => s!"StreamWrite({i},Injected)"
  | .readNoData i => s!"StreamRead({i},ShardNoData)"
  | .writeNoData i => s!"StreamWrite({i},ShardNoData)"
  | .rawRead => "Injected"
  | .rawWrite true => "ShortWrite"
  | .rawWrite false => "Injected"

def optErr (e : Option St.Err) : String := match e with | none => "nil" | some e => sErr e

def wrSummary (ws : List (Option St.Wr)) : String :=
  " ".intercalate (ws.map fun w => match w with
    | none => "nil"
    | some w => s!"{hex64 (w.got.foldl (fun h b => fnvStep h (UInt8.ofNat b)) fnvInit)}:{w.got.length}")

structure Fault where
  kind : String := ""
  idx : Nat := 0
  at_ : Nat := 0
  short : Bool := false

def parseFault (s : String) : Fault :=
  if s == "-" then {} else
  match s.splitOn ":" with
  | [k, i] => { kind := k, idx := i.toNat!, at_ := 0 }
  | [k, i, a] => { kind := k, idx := i.toNat!, at_ := a.toNat! }
  | [k, i, a, sh] => { kind := k, idx := i.toNat!, at_ := a.toNat!, short := sh == "short" }
  | _ => {}

def mkReaders (n : Nat) (ft : Fault) (content : Nat → List Nat) : List (Option St.Rd) :=
  (List.range n).map fun i =>
    if ft.kind == "nilr" && ft.idx == i then none
    else some ⟨content i, if (ft.kind == "r" || ft.kind == "rw" || ft.kind == "ru") && ft.idx == i then some ft.at_ else none⟩

def mkWriters (n : Nat) (ft : Fault) (wanted : Nat → Bool) : List (Option St.Wr) :=
  (List.range n).map fun j =>
    if !wanted j || (ft.kind == "nilw" && ft.idx == j) then none
    else some ⟨[], if ft.kind == "w" && ft.idx == j then some ft.at_ else none, ft.short⟩

-- sencode <d> <p> <B> <lens> <fault> <seed> <conc> <frag>
def opSEncode (args : List String) : String :=
  match args with
  | [ds, ps, bs, lens, fts, seeds, conc, _frag] =>
    let d := ds.toNat!; let p := ps.toNat!; let B := bs.toNat!; let seed := UInt64.ofNat seeds.toNat!
    let ls := parseList lens
    let ft := parseFault fts
    let rds := mkReaders d ft fun i => listOfBytes (fillBytes seed i (ls.getD i 0))
    let ws := mkWriters p ft fun _ => true
    let r := St.encode (blockCodec d p) (conc == "c" || conc == "cw") B rds ws
    s!"{optErr r.err} {wrSummary r.writers}"
  | _ => "bad-op"

def encodedSet (d p L : Nat) (seed : UInt64) : List (List Nat) :=
  let data := mkData d L seed
  match defaultParity d p with
  | some A => ((data ++ fastEncode A data L).toList.map listOfBytes)
  | none => data.toList.map listOfBytes

def applyTrunc (sh : List (List Nat)) (trunc : String) (seed : UInt64) : List (List Nat) :=
  if trunc == "-" then sh else
  match trunc.splitOn ":" with
  | [is, ns] =>
    let i := is.toNat!; let n := ns.toNat!
    sh.zipIdx.map fun (s, k) =>
      if k = i then (if n ≤ s.length then s.take n else s ++ listOfBytes (fillBytes (seed + 9) i (n - s.length))) else s
  | _ => sh

-- sverify <d> <p> <B> <L> <trunc> <flip> <fault> <seed> <conc> <frag>
def opSVerify (args : List String) : String :=
  match args with
  | [ds, ps, bs, Ls, trunc, flip, fts, seeds, _conc, _frag] =>
    let d := ds.toNat!; let p := ps.toNat!; let B := bs.toNat!; let L := Ls.toNat!; let seed := UInt64.ofNat seeds.toNat!
    let ft := parseFault fts
    let sh0 := encodedSet d p L seed
    let sh1 := if flip == "-" then sh0 else
      match flip.splitOn ":" with
      | [is, os] => sh0.zipIdx.map fun (s, k) => if k = is.toNat! then s.zipIdx.map (fun (b, j) => if j = os.toNat! then b ^^^ 0x5A else b) else s
      | _ => sh0
    let sh := applyTrunc sh1 trunc seed
    let rds := mkReaders (d + p) ft fun i => sh.getD i []
    let (ok, e) := St.verify (blockCodec d p) B rds
    s!"{optErr e} {ok}"
  | _ => "bad-op"

-- srecon <d> <p> <B> <L> <valid> <fill> <trunc> <fault> <seed> <conc> <frag>
def opSRecon (args : List String) : String :=
  match args with
  | [ds, ps, bs, Ls, valids, fills, trunc, fts, seeds, conc, _frag] =>
    let d := ds.toNat!; let p := ps.toNat!; let B := bs.toNat!; let L := Ls.toNat!; let seed := UInt64.ofNat seeds.toNat!
    let ft := parseFault fts
    let valid := parseList valids
    let fillL := parseList fills
    let sh := applyTrunc (encodedSet d p L seed) trunc seed
    let rds := (mkReaders (d + p) ft fun i => sh.getD i []).zipIdx.map fun (r, i) => if valid.contains i then r else none
    let ws := mkWriters (d + p) ft fun j => fillL.contains j
    let r := St.reconstruct (blockCodec d p) (conc == "c" || conc == "cw") B rds ws
    s!"{optErr r.err} {wrSummary r.writers}"
  | _ => "bad-op"

-- ssplit <d> <p> <size> <srclen> <fault> <seed>
def opSSplit (args : List String) : String :=
  match args with
  | [ds, ps, szs, sls, fts, seeds] =>
    let d := ds.toNat!; let p := ps.toNat!; let size := szs.toNat!; let srclen := sls.toNat!; let seed := UInt64.ofNat seeds.toNat!
    let ft := parseFault fts
    let src : St.Rd := ⟨listOfBytes (fillBytes seed 0 srclen), if ft.kind == "r" then some ft.at_ else none⟩
    let ws := mkWriters d ft fun _ => true
    let r := St.split d p src ws size
    s!"{optErr r.err} {wrSummary r.writers}"
  | [ds, ps, szs, sls, fts, seeds, nws] =>      -- with an explicit number of writers
    let d := ds.toNat!; let p := ps.toNat!; let size := szs.toNat!; let srclen := sls.toNat!; let seed := UInt64.ofNat seeds.toNat!
    let ft := parseFault fts
    let src : St.Rd := ⟨listOfBytes (fillBytes seed 0 srclen), if ft.kind == "r" then some ft.at_ else none⟩
    let ws := mkWriters nws.toNat! ft fun _ => true
    let r := St.split d p src ws size
    s!"{optErr r.err} {wrSummary r.writers}"
  | _ => "bad-op"

-- sjoin <d> <p> <L> <outSize> <nshards> <fault> <seed>
def opSJoin (args : List String) : String :=
  match args with
  | [ds, ps, Ls, outs, gs, fts, seeds] =>
    let d := ds.toNat!; let p := ps.toNat!; let L := Ls.toNat!; let given := gs.toNat!; let seed := UInt64.ofNat seeds.toNat!
    let ft := parseFault fts
    let rds := (mkReaders (d + p) ft fun i => listOfBytes (fillBytes seed i L)).take given
    let w : St.Wr := ⟨[], if ft.kind == "w" then some ft.at_ else none, ft.short⟩
    match outs.toInt? with
    | none => "bad-op"
    | some o =>
      if o < 0 then
        -- io.CopyN with a negative count copies nothing and the size check then fails
        (if rds.length < d then s!"TooFewShards {wrSummary [some w]}" else s!"ShortData {wrSummary [some w]}")
      else
      let (e, w') := St.join d w rds o.toNat
      s!"{optErr e} {wrSummary [some w']}"
  | _ => "bad-op"

end Drv
