import RSV.Driver.Util
import RSV.Model.LeoTables
import RSV.Gen.Tables
/-! `tab` ops: every table as the model / the translator sees it -/
namespace Drv
open RSV RSV.Model

structure LeoAll where
  P : Leo.Params
  T : Leo.LUTs
  S : Leo.Skew

def leo8All : Thunk LeoAll := Thunk.mk fun _ =>
  let T := Leo.initLUTs Leo.P8
  ⟨Leo.P8, T, Leo.initFFTSkew Leo.P8 T⟩
def leo16All : Thunk LeoAll := Thunk.mk fun _ =>
  let T := Leo.initLUTs Leo.P16
  ⟨Leo.P16, T, Leo.initFFTSkew Leo.P16 T⟩

def distinctCount (xs : Array Nat) : Nat := (xs.toList.eraseDups).length

/-- hash of a slice of entries, `w` bytes each, little-endian -/
def hashEntries (xs : Array Nat) (w : Nat) : String := Id.run do
  let mut h := fnvInit
  for x in xs do
    for j in [0:w] do
      h := fnvStep h (UInt8.ofNat ((x >>> (8*j)) % 256))
  return s!"ok {hex64 h} n={xs.size} distinct={min (distinctCount xs) 9} "

def sliceOf (a : Array Nat) (blk : Nat) : Array Nat := a.extract (256*blk) (256*blk + 256)

def opTab (args : List String) : String :=
  match args with
  | [set, name, blks] =>
    match blks.toNat? with
    | none => "bad-op"
    | some blk =>
      match set, name with
      | "static", "log" => hashEntries (Array.ofFn fun i : Fin 256 => byteAt Gen.logTable i.val) 1
      | "static", "exp" => hashEntries (Array.ofFn fun i : Fin 256 => byteAt Gen.expTable i.val) 1
      | "static", "inv" => hashEntries (Array.ofFn fun i : Fin 256 => byteAt Gen.invTable i.val) 1
      | "static", "low" => hashEntries (Array.ofFn fun i : Fin 4096 => byteAt Gen.mulTableLowRows[i.val / 16]! (i.val % 16)) 1
      | "static", "high" => hashEntries (Array.ofFn fun i : Fin 4096 => byteAt Gen.mulTableHighRows[i.val / 16]! (i.val % 16)) 1
      | "static", "gfni" => hashEntries (Array.ofFn fun i : Fin 256 => wordAt Gen.gf2p811dMulMatrices i.val) 8
      | "static", "mul" => hashEntries (Array.ofFn fun i : Fin 4096 => byteAt Gen.mulTableRows[16*blk + i.val / 256]! (i.val % 256)) 1
      | "leo8", "log" => hashEntries leo8All.get.T.log 1
      | "leo8", "exp" => hashEntries leo8All.get.T.exp 1
      | "leo8", "skew" => hashEntries leo8All.get.S.skew 1
      | "leo8", "walsh" => hashEntries leo8All.get.S.walsh 1
      | "leo8", "mul" =>
        let L := leo8All.get
        hashEntries ((List.range 16).foldl (fun acc k => acc ++ Leo.mul8LUT L.P L.T (16*blk + k)) #[]) 1
      | "leo8", "mul256" =>
        let L := leo8All.get
        hashEntries ((List.range 16).foldl (fun acc k => acc ++ Leo.mul256LUT8 L.P L.T (16*blk + k)) #[]) 1
      | "leo16", "log" => hashEntries (sliceOf leo16All.get.T.log blk) 2
      | "leo16", "exp" => hashEntries (sliceOf leo16All.get.T.exp blk) 2
      | "leo16", "skew" => hashEntries (sliceOf leo16All.get.S.skew blk) 2
      | "leo16", "walsh" => hashEntries (sliceOf leo16All.get.S.walsh blk) 2
      | "leo16", "mul" =>
        let L := leo16All.get
        let (lo, hi) := Leo.mul16LUT L.P L.T blk
        hashEntries (lo ++ hi) 2
      | "leo16", "mul256" =>
        let L := leo16All.get
        hashEntries (Leo.mul256LUT16 L.P L.T blk) 1
      | _, _ => "bad-op"
  | _ => "bad-op"

end Drv
