import RSV.Model.GF256
import RSV.Model.Matrix
/-! driver utilities: PRNG, hash, hex, parsing (core only) -/
namespace Drv
open RSV RSV.Model

/-- splitmix64 step -/
@[inline] def smix (s : UInt64) : UInt64 × UInt64 :=
  let s := s + 0x9E3779B97F4A7C15
  let z := s
  let z := (z ^^^ (z >>> 30)) * 0xBF58476D1CE4E5B9
  let z := (z ^^^ (z >>> 27)) * 0x94D049BB133111EB
  (s, z ^^^ (z >>> 31))

/-- contents of shard `idx` for a seed: the harness uses the same generator -/
def fillBytes (seed : UInt64) (idx : Nat) (n : Nat) : ByteArray := Id.run do
  let mut s : UInt64 := seed * 0x9E3779B97F4A7C15 + (UInt64.ofNat idx) * 0xBF58476D1CE4E5B9 + 1
  let mut out := ByteArray.emptyWithCapacity n
  let mut k := 0
  while k < n do
    let (s', z) := smix s
    s := s'
    for j in [0:8] do
      if k + j < n then
        out := out.push (z >>> (UInt64.ofNat (8*j))).toUInt8
    k := k + 8
  return out

def fnvInit : UInt64 := 0xcbf29ce484222325
@[inline] def fnvStep (h : UInt64) (b : UInt8) : UInt64 := (h ^^^ b.toUInt64) * 0x100000001b3
def fnvBytes (h : UInt64) (bs : ByteArray) : UInt64 := bs.foldl fnvStep h

def hexDigit (n : Nat) : Char := if n < 10 then Char.ofNat (48 + n) else Char.ofNat (87 + n)
def hex64 (x : UInt64) : String := Id.run do
  let mut s := ""
  for i in [0:16] do
    s := s.push (hexDigit ((x >>> (UInt64.ofNat (4*(15-i)))).toNat % 16))
  return s
def hexByte (b : Nat) : String := ("".push (hexDigit (b / 16 % 16))).push (hexDigit (b % 16))
def hexBytes (bs : ByteArray) : String := bs.foldl (fun s b => s ++ hexByte b.toNat) ""

def parseList (s : String) : List Nat :=
  if s == "-" then [] else (s.splitOn ",").filterMap String.toNat?

def gfOfByte (b : UInt8) : GF256 := GF256.ofNat b.toNat
def byteOfGf (a : GF256) : UInt8 := UInt8.ofNat a.val

def shardOfBytes (bs : ByteArray) (len : Nat) : Vector GF256 len :=
  Vector.ofFn fun k : Fin len => gfOfByte (bs.get! k.val)
def bytesOfShard {len : Nat} (s : Vector GF256 len) : ByteArray :=
  s.foldl (fun acc a => acc.push (byteOfGf a)) (ByteArray.emptyWithCapacity len)

def matBytes {n m : Nat} (A : Mat GF256 n m) : ByteArray :=
  A.foldl (fun acc row => row.foldl (fun acc a => acc.push (byteOfGf a)) acc) ByteArray.empty

end Drv
