/-!
# L1: argument checking of the public API (core Lean only)

Shards are described by their *shape* only: nil / length / capacity.  Every slice or array index
the Go code computes from caller-controlled values — in the argument checks AND in the kernels the
checked arguments are handed to — is performed here with an explicit bounds check whose failure is
the outcome `panic`, so "never panics" is a theorem with content: the checks are sufficient.
Mirrors the code after the `fix:` commits (7b8525f, 0ba1869, 674193f, d4cd075, 33b1873, eef0134,
40188d9, a37e7db, 6e0b732, bd2a6b4).
-/
namespace RSV.Model.Api

inductive E where
  | tooFewShards | shardNoData | shardSize | invalidShardSize | invShardNum | maxShardNum | invalidInput
  | shortData | reconstructRequired | notSupported | reconMismatch | other
deriving Repr, DecidableEq

inductive Outcome where
  | ok | err (e : E) | panic
deriving Repr, DecidableEq

inductive Kind where
  | rs8 | leo8 | leo16
deriving Repr, DecidableEq

/-- shape of one shard argument -/
structure Sh where
  isNil : Bool
  len : Nat
  cap : Nat
deriving Repr, DecidableEq

/-- `shardSize`: first non-zero length -/
def shardSize (s : List Sh) : Nat :=
  match s.find? (fun x => x.len ≠ 0) with
  | some x => x.len
  | none => 0

/-- `checkShards(shards, nilok)` -/
def checkShards (s : List Sh) (nilok : Bool) : Option E :=
  let size := shardSize s
  if size = 0 then some .shardNoData
  else if s.any (fun x => x.len ≠ size && (x.len ≠ 0 || !nilok)) then some .shardSize
  else none

def leoK (k : Kind) : Bool := k ≠ .rs8

/-- explicit slice index: `none` = index out of range = panic -/
def idx? {α : Type} (l : List α) (i : Nat) : Option α := l[i]?

/-! ### the slice expressions of the kernels, on shapes

The operations below first check their arguments and then hand the shards to kernels that slice them
(`[start:stop]` windows, `[0:shardSize]` reslices).  Those slice expressions are evaluated here on the
shapes; one of them out of range is the outcome `panic`.  A slice expression that reaches beyond
`len` counts as out of range where Go reads or writes the bytes (Go's run-time check compares with
`cap ≥ len`; the assembler kernels do not check at all); a reslice that Go itself guards with
`cap(x) >= n` is evaluated against `cap`.  Indices into tables that depend only on the encoder
(`r.parity[i][c]`, the Leopard skew tables, the work buffers) are not the subject here: see `usable`. -/

/-- `codeSomeShards(matrixRows, inputs, outputs, byteCount)` and its variants (`codeSomeShardsP`, the
generated kernels `galMulGen(m, inputs, outputs, start, stop)`), on the lengths of the inputs and
outputs: `true` = some slice expression is out of range.
* `if len(outputs) == 0 { return }`;
* serial: `end ≤ len(inputs[0])` and `inputs[c][start:end]`, `outputs[iRow][start:end]` for every `c`, `iRow`;
* goroutines / generated kernels: windows `[start:stop]` with `stop ≤ byteCount` on every input and output.
Which variant runs depends on the options and the CPU, so either failing counts. -/
def codeOob (inputs outputs : List Nat) (byteCount : Nat) : Bool :=
  if outputs.isEmpty then false
  else match inputs with
    | [] => true                                                   -- `len(inputs[0])`
    | in0 :: _ =>
      inputs.any (fun l => l < in0 || l < byteCount) || outputs.any (fun l => l < in0 || l < byteCount)

/-- `if cap(sh) >= size { sh = sh[0:size] } else { sh = <new buffer of size bytes> }`:
the reslice is out of range iff it is executed with `size > cap(sh)` -/
def resliceOob (x : Sh) (size : Nat) : Bool := if x.cap ≥ size then decide (x.cap < size) else false

/-- Leopard `encode` (GF(2^8): chunks `shards[i][off:end]` of every shard and `res[i][off:end]` of
every parity shard, `end ≤ shardSize`; GF(2^16): whole data shards against work buffers of `shardSize`
bytes): a shard shorter than `shardSize` is out of range. -/
def leoEncodeOob (s : List Sh) : Bool := s.any fun x => x.len < shardSize s

/-- `Encode`.  Matrix codec: `codeSomeShards(r.parity, shards[0:d], shards[d:][:p], len(shards[0]))`. -/
def encode (k : Kind) (d p : Nat) (s : List Sh) : Outcome :=
  if s.length ≠ d + p then .err .tooFewShards
  else match checkShards s false with
    | some e => .err e
    | none =>
      if leoK k then
        if shardSize s % 64 ≠ 0 then .err .invalidShardSize
        else if leoEncodeOob s then .panic else .ok
      -- `shards[d:]`, `output[:p]`, `shards[0:d]`
      else if s.length < d || s.length - d < p then .panic
      else match idx? s 0 with                                     -- `len(shards[0])`
        | none => .panic
        | some s0 =>
          if codeOob ((s.take d).map (·.len)) (((s.drop d).take p).map (·.len)) s0.len then .panic
          else .ok

/-- `Verify`: the same checks; the parity is recomputed into NEW buffers of `len(shards[0])` bytes
(matrix codec: `checkSomeShards` → `AllocAligned(p, byteCount)`; Leopard: `outputs[i] = make([]byte,
shardSize)` for the parity positions, then `r.Encode(outputs)`) and compared with `bytes.Equal`.
`C16_verify_eq_encode`: the same outcome as `encode` for every encoder `New` returns. -/
def verify (k : Kind) (d p : Nat) (s : List Sh) : Outcome :=
  if s.length ≠ d + p then .err .tooFewShards
  else match checkShards s false with
    | some e => .err e
    | none =>
      match idx? s 0 with                                          -- `len(shards[0])`
      | none => .panic
      | some s0 =>
        if leoK k then
          -- `copy(outputs, shards[:d])`
          if s.length < d then .panic
          else encode k d p (s.take d ++ List.replicate p ⟨false, s0.len, s0.len⟩)
        -- `shards[d:]`, `toCheck[:p]`, `shards[:d]`
        else if s.length < d || s.length - d < p then .panic
        else if codeOob ((s.take d).map (·.len)) (List.replicate p s0.len) s0.len then .panic
        else .ok

inductive RMode where
  | all | data | some (required : Option (List Bool))   -- `none` = a nil mask
deriving Repr, DecidableEq

/-- `shards[i]` (a position outside the list reads as nil; the callers index below `len(shards)`) -/
def shAt (s : List Sh) (i : Nat) : Sh := s.getD i ⟨true, 0, 0⟩

/-- `len(shards[i]) != 0` -/
def presentAt (s : List Sh) (i : Nat) : Bool := (shAt s i).len ≠ 0

/-- `required == nil || required[i]` (the index itself is checked by `decodeIdxOk` / `parityIdxOk`) -/
def reqAt (required : Option (List Bool)) (i : Nat) : Bool :=
  match required with
  | none => true
  | some l => l.getD i false

/-- `parityRequired` of the matrix codec's `reconstruct`: the counting loop saw a missing parity
shard that the mask asks for (fix 7b8525f) -/
def rsParityRequired (d p : Nat) (s : List Sh) (required : Option (List Bool)) : Bool :=
  match required with
  | none => false
  | some l => (List.range (d + p)).any fun i => !presentAt s i && i < l.length && l.getD i false && d ≤ i

/-- first pass: data shard `i` is an output iff
`len(shards[i]) == 0 && (required == nil || required[i] || parityRequired && !dataOnly)` -/
def rsRegen (d p : Nat) (s : List Sh) (dataOnly : Bool) (required : Option (List Bool)) (i : Nat) : Bool :=
  !presentAt s i && (reqAt required i || (rsParityRequired d p s required && !dataOnly))

/-- First coding pass of the matrix codec's `reconstruct` (after the argument checks, the counting loop
and `numberPresent ≥ d`): `true` = some index or slice expression is out of range.  `regen i` = data
shard `i` is an output of this pass.  Every output is
resliced (`cap(shards[i]) >= shardSize` → `shards[i][0:shardSize]`) or allocated, and stored at
`outputs[outputCount]` (`outputs := make([][]byte, p)`); then
`codeSomeShards(matrixRows, subShards, outputs[:outputCount], shardSize)` with `subShards` = the
first `d` shards that have data (`make([][]byte, d)`: entries never assigned are nil). -/
def rsPass1Oob (d p : Nat) (s : List Sh) (regen : Nat → Bool) : Bool :=
  let size := shardSize s
  let out1 := (List.range d).filter regen
  let sub := ((List.range (d + p)).filter (presentAt s)).take d
  let subLens := sub.map (fun i => (shAt s i).len) ++ List.replicate (d - sub.length) 0
  p < out1.length
    || out1.any (fun i => resliceOob (shAt s i) size)
    || codeOob subLens (List.replicate out1.length size) size

/-- Second coding pass (not `dataOnly`; `regen` = the outputs of the first pass): the parity shards `d+j` with
`len == 0 && (required == nil || required[d+j])` are resliced or allocated and are the outputs of
`codeSomeShards(matrixRows, shards[:d], outputs[:outputCount], shardSize)`, which reads ALL data
shards: those that had data, those the first pass regenerated (`shardSize` bytes now) — and those it
did not, which are still empty.  Before fix 7b8525f the first pass did not know `parityRequired`. -/
def rsPass2Oob (d p : Nat) (s : List Sh) (required : Option (List Bool)) (regen : Nat → Bool) : Bool :=
  let size := shardSize s
  let out2 := (List.range p).filter fun j => !presentAt s (d + j) && reqAt required (d + j)
  let dataLens := (List.range d).map fun i =>
    if presentAt s i then (shAt s i).len else if regen i then size else 0
  p < out2.length
    || out2.any (fun j => resliceOob (shAt s (d + j)) size)
    || codeOob dataLens (List.replicate out2.length size) size

/-- the two coding passes of the matrix codec's `reconstruct`, `regen` = the outputs of the first -/
def rsReconOob (d p : Nat) (s : List Sh) (dataOnly : Bool) (required : Option (List Bool)) : Bool :=
  let regen := rsRegen d p s dataOnly required
  rsPass1Oob d p s regen || (!dataOnly && rsPass2Oob d p s required regen)

/-- Leopard `reconstruct` after the checks (`recoverAll` = also the parity shards).  A missing shard
`i` with `recoverAll || i < d` is resliced (`cap(sh) >= shardSize` → `sh[:shardSize]`) or allocated;
GF(2^8) then works on chunks `shards[i][off:endSlice]`, `endSlice ≤ shardSize`, of every shard that
had data, and writes the chunks `shards[i][off:endSlice]` of the missing shards `i < end`
(`end = d`, or `d + p` when `recoverAll`); GF(2^16) does the same on whole shards against work
buffers of `shardSize` bytes. -/
def leoReconOob (d p : Nat) (s : List Sh) (recoverAll : Bool) : Bool :=
  let size := shardSize s
  let fin := if recoverAll then d + p else d
  let regen (i : Nat) : Bool := !presentAt s i && (recoverAll || i < d)
  let newLen (i : Nat) : Nat := if presentAt s i then (shAt s i).len else if regen i then size else 0
  (List.range (d + p)).any (fun i => regen i && resliceOob (shAt s i) size)
    || (List.range (d + p)).any (fun i => presentAt s i && (shAt s i).len < size)
    || (List.range fin).any (fun i => !presentAt s i && newLen i < size)

/-- `Reconstruct*`.  For the matrix codec the `required` mask is indexed at every missing shard
position `i < d+p` in the counting loop (guarded by `i < len(required)` since 7b8525f) and at
every data position in the decode loop. -/
def reconstruct (k : Kind) (d p : Nat) (s : List Sh) (m : RMode) : Outcome :=
  match k with
  | .rs8 =>
    let (dataOnly, required) : Bool × Option (List Bool) := match m with
      | .all => (false, none)
      | .data => (true, none)
      | .some r => ((match r with | some l => l.length ≠ d + p | none => true), r)
    if s.length ≠ d + p || (match required with | some l => l.length < d | none => false) then .err .tooFewShards
    else match checkShards s true with
      | some e => .err e
      | none =>
        let present (i : Nat) : Bool := (s.getD i ⟨true, 0, 0⟩).len ≠ 0
        let numberPresent := ((List.range (d + p)).filter present).length
        let dataPresent := ((List.range d).filter present).length
        -- counting loop: `shards[i]` for i < d+p; required[i] is read only when i < len(required)
        let shardIdxOk := (List.range (d + p)).all fun i => (idx? s i).isSome
        let missingRequired := match required with
          | none => 0
          | some l => ((List.range (d + p)).filter fun i => !present i && i < l.length && l.getD i false).length
        if !shardIdxOk then .panic
        else if numberPresent = d + p || (dataOnly && dataPresent = d) || (required.isSome && missingRequired = 0) then .ok
        else if numberPresent < d then .err .tooFewShards
        else
          -- decode loop: `required[iShard]` for iShard < d — in range because len(required) ≥ d
          let decodeIdxOk := match required with
            | none => true
            | some l => (List.range d).all fun i => (idx? l i).isSome
          -- parity loop (not dataOnly): `required[iShard]` for d ≤ iShard < d+p — len(required) = d+p there
          let parityIdxOk := dataOnly || (match required with
            | none => true
            | some l => (List.range p).all fun j => (idx? l (d + j)).isSome)
          if decodeIdxOk && parityIdxOk then
            -- the two coding passes
            if rsReconOob d p s dataOnly required then .panic else .ok
          else .panic
  | _ =>
    -- Leopard: the mask only selects recoverAll
    if s.length ≠ d + p then .err .tooFewShards
    else match checkShards s true with
      | some e => .err e
      | none =>
        let recoverAll := match m with
          | .all => true | .data => false
          | .some r => (match r with | some l => l.length = d + p | none => false)
        let present (i : Nat) : Bool := (s.getD i ⟨true, 0, 0⟩).len ≠ 0
        let numberPresent := ((List.range (d + p)).filter present).length
        let dataPresent := ((List.range d).filter present).length
        -- counting loop: `shards[i]` for i < d+p
        let shardIdxOk := (List.range (d + p)).all fun i => (idx? s i).isSome
        if !shardIdxOk then .panic
        else if numberPresent = d + p || (!recoverAll && dataPresent = d) then .ok
        else if numberPresent < d then .err .tooFewShards
        else if shardSize s % 64 ≠ 0 then .err .invalidShardSize
        else if leoReconOob d p s recoverAll then .panic
        else .ok

/-- `EncodeIdx(dataShard, idx, parity)`; `idx` is any integer -/
def encodeIdx (k : Kind) (d p : Nat) (dataLen : Nat) (idx : Int) (parity : List Sh) : Outcome :=
  if leoK k then .err .notSupported
  else if parity.length ≠ p then .err .tooFewShards
  else if parity.length = 0 then .ok
  else if idx < 0 || idx ≥ d then .err .invShardNum
  else match checkShards parity false with
    | some e => .err e
    | none =>
      match idx? parity 0 with
      | none => .panic
      | some p0 =>
        if p0.len ≠ dataLen then .err .shardSize
        -- `r.parity[iRow][idx]` (`[idx : idx+1]` for the generated kernels): a row has `d` coefficients
        else if idx < 0 || (d : Int) < idx + 1 then .panic
        -- `dataShard[start:end]` with `end ≤ len(dataShard)` and `parity[iRow][start:end]` for every row
        -- (generated kernels: `codeSomeShardsAVXP(m, [dataShard], parity, len(dataShard), …)`)
        else if parity.any (fun x => x.len < dataLen) then .panic
        else .ok

/-- The one fact about Go slices that the record `Sh` does not enforce and that `Update` needs: a nil
slice has length 0.  (`Update` tests `newDatashards[i] != nil` in its argument check but
`len(in) == 0` in its kernels; the two tests are related only through this fact.)  Every shape the
driver builds from an `api` request satisfies it. -/
def Sh.wf (x : Sh) : Bool := !x.isNil || x.len == 0

/-- The slice expressions of the update kernels (`updateParityShards`, and its goroutine variant
`updateParityShardsP`, which works on windows `[start:stop]` with `stop ≤ byteCount`), evaluated on
shapes: `true` = some slice expression is out of range.  `byteCount = shardSize(shards)`.
For every data position `c < d` whose new shard is not skipped (`len(in) != 0`, fix 6e0b732):
* `sliceXor(in, oldin)`;  `P`: `sliceXor(in[start:stop], oldin[start:stop])`;
* for every parity row `galMulSliceXor(coef, oldin, outputs[r])`;
  `P`: `galMulSliceXor(coef, oldin[start:stop], outputs[r][start:stop])`.
`sliceXor(in, out)` and `galMulSliceXor(c, in, out)` slice `out[:len(in)]`; the pure-Go `sliceXor`
loop also runs while `len(out) >= 32` and slices `in[:32]` there.  Both are in range when the two
lengths are equal, which is what is required here (a shorter `out` always fails, a longer one may).
Which variant runs depends on the options, so either failing counts.  A slice expression that reaches
beyond `len` counts as out of range (Go's run-time check compares with `cap ≥ len`; beyond `len` the
assembler kernels would write into memory the caller did not hand over). -/
def updateOob (d : Nat) (s nw : List Sh) : Bool :=
  let n := shardSize s
  let outputs := s.drop d
  (List.range d).any fun c =>
    match idx? nw c, idx? s c with
    | some inp, some oldin =>
      inp.len ≠ 0 &&
        (oldin.len ≠ inp.len || inp.len < n || oldin.len < n ||
          outputs.any fun out => out.len ≠ oldin.len || out.len < n)
    | _, _ => false

/-- the first check loop of `Update`: `newDatashards[i] != nil && len(shards[i]) == 0` for some
`i < d` (fix bd2a6b4; before: `shards[i] == nil`) -/
def updateMissingOld (d : Nat) (s nw : List Sh) : Bool :=
  (List.range d).any fun i =>
    match idx? nw i, idx? s i with
    | some a, some b => !a.isNil && b.len == 0
    | _, _ => false

/-- `Update(shards, newDatashards)`.  After the argument checks the kernels slice the old data shards
and the parity shards to the length of the new shards; that is modelled by `updateOob`, whose failure
is the outcome `panic` — so "never panics" says that the argument checks are sufficient for the
slicing (before fix bd2a6b4 they were not: a zero-length non-nil old shard passed them). -/
def update (k : Kind) (d p : Nat) (s nw : List Sh) : Outcome :=
  if leoK k then .err .notSupported
  else if s.length ≠ d + p then .err .tooFewShards
  else if nw.length ≠ d then .err .tooFewShards
  else match checkShards s true with
    | some e => .err e
    | none => match checkShards nw true with
      | some e => .err e
      | none =>
        if shardSize nw ≠ shardSize s then .err .shardSize          -- fix 0ba1869
        else
          -- `newDatashards[i] != nil && len(shards[i]) == 0` for i < len(newDatashards) = d ≤ len(shards)
          let bad1 := updateMissingOld d s nw
          let idxOk := (List.range d).all fun i => (idx? nw i).isSome && (idx? s i).isSome
          if !idxOk then .panic
          else if bad1 then .err .invalidInput
          -- `len(p) == 0` for p in shards[d:] (fix bd2a6b4; before: `p == nil`)
          else if (s.drop d).any (·.len == 0) then .err .invalidInput
          -- updateParityShards(r.parity, shards[0:d], newDatashards[0:d], shards[d:], p, shardSize(shards))
          else if updateOob d s nw then .panic
          else .ok

/-- `Split(data)` — outcome and number of shards -/
def split (k : Kind) (d p : Nat) (len : Nat) : Outcome :=
  if len = 0 then .err .shortData else .ok

/-- `Join(dst, shards, outSize)` with any integer `outSize` -/
def join (k : Kind) (d p : Nat) (s : List Sh) (outSize : Int) : Outcome :=
  if s.length < d then .err .tooFewShards
  else if outSize < 0 then .err .shortData                        -- fix 33b1873
  else
    let sh := s.take d
    let rec scan : List Sh → Nat → Except E Nat
      | [], size => .ok size
      | x :: rest, size =>
        if x.isNil then .error .reconstructRequired
        else
          let size' := size + x.len
          if (size' : Int) ≥ outSize then .ok size' else scan rest size'
    match scan sh 0 with
    | .error e => .err e
    | .ok size => if (size : Int) < outSize then .err .shortData else .ok

/-! ### `New` over 64-bit integers (wrap-around is part of the property) -/

/-- two's-complement wrap of an integer to 64 bits -/
def wrap64 (x : Int) : Int :=
  let m : Int := 2 ^ 64
  let r := x % m
  if r ≥ 2 ^ 63 then r - m else r

/-- `ceilPow2` for 1 ≤ n ≤ 2^16 -/
def ceilPow2 (n : Nat) : Nat := (List.range 18).foldl (fun acc k => if acc < n then 2 ^ (k + 1) else acc) 1

inductive Leo where
  | asNeeded | gf16 | always
deriving Repr, DecidableEq

inductive Fam where
  | default | cauchy | par1 | jerasure | xor | custom (rows cols : Nat)
deriving Repr, DecidableEq

inductive NewOut where
  | enc (k : Kind) | err (e : E) | panic
deriving Repr, DecidableEq

def newFF (order : Nat) (k : Kind) (d p : Int) : NewOut :=
  if d ≤ 0 || p ≤ 0 then .err .invShardNum
  else if d > order || p > order || d + (ceilPow2 p.toNat : Int) > order then .err .maxShardNum   -- fix 674193f
  else .enc k

/-- `New(dataShards, parityShards, opts...)` -/
def new (d p : Int) (leo : Leo) (fam : Fam) : NewOut :=
  let tot := wrap64 (d + p)
  if (leo = .gf16 && p > 0) || tot > 256 then newFF 65536 .leo16 d p
  else if leo = .always && p > 0 then newFF 256 .leo8 d p
  else if d ≤ 0 || p < 0 then .err .invShardNum
  else if p = 0 then .enc .rs8
  else match fam with
    | .custom rows cols =>
      if (rows : Int) < p then .err .other
      -- fix a37e7db: an overflowing shard count is rejected before make([][]byte, totalShards)
      else if tot ≤ 0 then .err .other
      -- rows beyond parityShards are ignored (fix 40188d9); each used row needs ≥ d columns
      else if (cols : Int) < d then .err .other else .enc .rs8
    | _ =>
      -- newMatrix(rows ≤ 0) is errInvalidRowSize
      if tot ≤ 0 then .err .other else .enc .rs8

/-- `NewStream` -/
def newStream (d p : Int) (leo : Leo) (fam : Fam) : NewOut :=
  if wrap64 (d + p) > 256 then .err .maxShardNum
  else match new d p leo fam with
    | .enc .rs8 => .enc .rs8
    | .enc _ => .err .notSupported                 -- fix d4cd075
    | o => o

/-- an encoder `New` returns is usable: Leopard's FFT indices stay inside the field -/
def usable (k : Kind) (d p : Nat) : Bool :=
  match k with
  | .rs8 => 0 < d && d + p ≤ 256
  | .leo8 => 0 < d && 0 < p && d + ceilPow2 p ≤ 256
  | .leo16 => 0 < d && 0 < p && d + ceilPow2 p ≤ 65536

end RSV.Model.Api
