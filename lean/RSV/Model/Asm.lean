import RSV.Spec.Lanes
/-!
# L1: the generated amd64 SIMD kernels as data — instruction AST and a concrete machine semantics
(core Lean only)

The 600 matrix kernels of `galois_gen_amd64.s` use 21 mnemonics; the Leopard butterflies, the xor
slices and the hand-written `galMul*` kernels of `galois_amd64.s` add legacy-SSE moves and
logic, `VBROADCASTI128`, `VINSERTI128`, `VPTERNLOGD`, `SUBQ`/`XORQ`/`ANDQ`/`ORQ`/`CMPQ`, `JA`/`JMP`.
This file gives

* the instruction AST (`Instr`) in Go-assembler operand order (sources first, destination last);
* a concrete machine: 16 general registers holding 64-bit numbers or pointers `(region, offset)`,
  32 vector registers of 64 bytes (the X/Y/Z names are views of the same register), the zero and
  carry flags (`none` = left undefined by the model; a conditional jump on an undefined flag is a
  fault), and a byte memory split into regions (expanded matrix, tables, the two slice-header
  arrays, input slices, output slices);
* the byte-level semantics of every instruction (`stepInstr`), control flow (`step`) and a
  fuel-bounded interpreter (`exec`).  Every access outside a region, every ill-typed operation
  (shifting a pointer, adding two pointers, …) is a fault.
-/
namespace RSV.Asm

/-- general register number: AX CX DX BX SP BP SI DI R8 … R15 -/
abbrev Reg := Nat

/-- width class of a vector operand -/
inductive VW where
  | x | y | z
deriving DecidableEq, Repr

/-- bytes of a vector operand -/
def VW.bytes : VW → Nat
  | .x => 16 | .y => 32 | .z => 64

/-- vector operand `X7`, `Y7`, `Z7` -/
structure VReg where
  w : VW
  idx : Nat
deriving DecidableEq, Repr

/-- memory operand: `disp(BASE)` or `(BASE)(IDX*1)` -/
inductive Mem where
  | bd (disp : Nat) (base : Reg)
  | bi (base idx : Reg)
deriving DecidableEq, Repr

/-- the five Go frame arguments `n+80(FP)`, `matrix_base+0(FP)`, `in_base+24(FP)`,
`out_base+48(FP)`, `start+72(FP)` -/
inductive FrameArg where
  | n | matrixBase | inBase | outBase | start
deriving DecidableEq, Repr

/-- instructions; labels are numbered by the parser in order of first appearance -/
inductive Instr where
  | movqFrame (a : FrameArg) (dst : Reg)
  | movqLoad (m : Mem) (dst : Reg)
  | movqImm (imm : Nat) (dst : Reg)
  | movqToX (src : Reg) (dst : Nat)
  | addqImm (imm : Nat) (dst : Reg)
  | addqReg (src dst : Reg)
  | shrqImm (imm : Nat) (dst : Reg)
  | testq (a b : Reg)
  | decq (r : Reg)
  | jz (l : Nat)
  | jnz (l : Nat)
  | label (l : Nat)
  | ret
  | vzeroupper
  | vload (m : Mem) (dst : VReg)
  | vstore (src : VReg) (m : Mem)
  | vpshufb (idx tab dst : VReg)
  | vxor (a b dst : VReg)
  | vpand (a b dst : VReg)
  | vpsrlq (imm : Nat) (src dst : VReg)
  | vpbroadcastb (src dst : VReg)
  | vbcast8 (m : Mem) (dst : VReg)
  | affine (imm : Nat) (mat src dst : VReg)
  | affineBcst (imm : Nat) (m : Mem) (src dst : VReg)
  -- the remaining kernels (Leopard butterflies, xor slices, hand-written galMul*)
  | movqFP (off : Nat) (dst : Reg)              -- MOVQ name+off(FP), R
  | movqRR (src dst : Reg)
  | xorqRR (src dst : Reg)
  | orqRR (src dst : Reg)
  | andqImm (imm : Nat) (dst : Reg)
  | subqImm (imm : Nat) (dst : Reg)
  | cmpqImm (r : Reg) (imm : Nat)               -- CMPQ R, $imm
  | ja (l : Nat)
  | jmp (l : Nat)
  | vbcast16 (m : Mem) (dst : VReg)             -- VBROADCASTI128
  | vbcast8FP (off : Nat) (dst : VReg)          -- VBROADCASTF32X2 name+off(FP), Z
  | vmovRR (src dst : VReg)                     -- VMOVAPS Z, Z
  | vternlog (imm : Nat) (a b dst : VReg)       -- VPTERNLOGD
  | vinserti128 (imm : Nat) (x y dst : VReg)
  | sseLoad (aligned : Bool) (m : Mem) (x : Nat)    -- MOVOU/MOVUPS/MOVOA mem, X
  | sseStore (aligned : Bool) (x : Nat) (m : Mem)
  | sseMov (src dst : Nat)                      -- MOVOU/MOVUPS/MOVOA/MOVAPS X, X
  | ssePxor (src dst : Nat)                     -- PXOR / XORPS
  | ssePand (src dst : Nat)
  | ssePshufb (idx dst : Nat)
  | ssePsrlq (imm : Nat) (dst : Nat)
deriving DecidableEq, Repr

abbrev Program := List Instr

/-! ## machine state -/

/-- memory regions of the environment contract; distinct regions never overlap -/
inductive Region where
  | matrix | inHdr | outHdr
  | inp (j : Nat)
  | out (i : Nat)
  | tab (k : Nat)
deriving DecidableEq, Repr

/-- contents of a general register -/
inductive Val where
  | num (x : Nat)
  | ptr (r : Region) (off : Nat)
deriving DecidableEq, Repr

def M64 : Nat := 18446744073709551616

/-- the static part of a call: arguments and region sizes -/
structure Env where
  n : Nat
  start : Nat
  inputs : Nat
  outputs : Nat
  size : Region → Nat
  /-- the 8-byte argument slots of the Go frame by offset (kernels other than the matrix kernels) -/
  frame : Nat → Option Val
  /-- address of a region modulo 2^64 (only its alignment is ever observed) -/
  base : Region → Nat

structure State where
  pc : Nat
  gp : Reg → Val
  vec : Nat → Nat → Nat
  /-- zero flag; `none` = undefined -/
  zf : Option Bool
  /-- carry flag; `none` = undefined -/
  cf : Option Bool
  mem : Region → Nat → Nat

/-- regions addressable by vector loads/stores -/
def Env.isData (env : Env) : Region → Bool
  | .matrix => true
  | .inp j => j < env.inputs
  | .out i => i < env.outputs
  | .tab _ => true
  | _ => false

def setFlags (s : State) (z c : Option Bool) : State := { s with zf := z, cf := c }

def setGp (s : State) (r : Reg) (v : Val) : State :=
  { s with gp := fun k => if k = r then v else s.gp k }

/-- VEX/EVEX write of a vector register: the bytes beyond the operand width are zeroed -/
def setVec (s : State) (d : VReg) (f : Nat → Nat) : State :=
  { s with vec := fun r k => if r = d.idx then (if k < d.w.bytes then f k else 0) else s.vec r k }

/-- legacy SSE write of an XMM register: 16 bytes, the upper part is kept -/
def setXmm (s : State) (x : Nat) (f : Nat → Nat) : State :=
  { s with vec := fun r k => if r = x then (if k < 16 then f k else s.vec r k) else s.vec r k }

/-- legacy SSE `MOVQ reg, Xn`: low 8 bytes from the register, bytes 8..15 zero, upper part kept -/
def movqX (s : State) (x v : Nat) : State :=
  { s with vec := fun r k =>
      if r = x then (if k < 8 then (v >>> (8 * k)) &&& 255 else (if k < 16 then 0 else s.vec r k))
      else s.vec r k }

/-- VZEROUPPER: bits 128.. of registers 0..15 are cleared -/
def zeroUpper (s : State) : State :=
  { s with vec := fun r k => if r < 16 ∧ 16 ≤ k then 0 else s.vec r k }

/-- store the low `w` bytes of vector register `v` at `(r, off)` -/
def storeVec (s : State) (r : Region) (off w v : Nat) : State :=
  { s with mem := fun r' p =>
      if r' = r ∧ off ≤ p ∧ p < off + w then s.vec v (p - off) else s.mem r' p }

/-- effective address of a memory operand (64-bit wrap-around inside the region) -/
def addr (s : State) : Mem → Option (Region × Nat)
  | .bd disp base =>
    match s.gp base with
    | .ptr r off => some (r, (off + disp) % M64)
    | _ => none
  | .bi base idx =>
    match s.gp base, s.gp idx with
    | .ptr r off, .num k => some (r, (off + k) % M64)
    | _, _ => none

/-- address of a `w`-byte data access, checked against the region -/
def dataAddr (env : Env) (s : State) (m : Mem) (w : Nat) : Option (Region × Nat) :=
  match addr s m with
  | some (r, off) => if env.isData r && decide (off + w ≤ env.size r) then some (r, off) else none
  | none => none

/-- the 64-bit little-endian number of 8 bytes -/
def pack8 (f : Nat → Nat) : Nat :=
  f 0 + 256 * (f 1 + 256 * (f 2 + 256 * (f 3 + 256 * (f 4 + 256 * (f 5 + 256 * (f 6 + 256 * f 7))))))

/-- GF2P8AFFINEQB on one byte, the 8×8 bit matrix given by its 8 bytes: bit `i` of the result is
the parity of `A.byte[7-i] AND x` -/
def affineB (mb : Nat → Nat) (x : Nat) : Nat :=
  parity8 (mb 7 &&& x) ||| (parity8 (mb 6 &&& x) <<< 1) ||| (parity8 (mb 5 &&& x) <<< 2) |||
  (parity8 (mb 4 &&& x) <<< 3) ||| (parity8 (mb 3 &&& x) <<< 4) ||| (parity8 (mb 2 &&& x) <<< 5) |||
  (parity8 (mb 1 &&& x) <<< 6) ||| (parity8 (mb 0 &&& x) <<< 7)

/-- PSHUFB on one byte position `k`: inside the 16-byte lane of `k`, entry `idx & 15` of the
table, zero if bit 7 of the index is set -/
def shufByte (tab idx : Nat → Nat) (k : Nat) : Nat :=
  if idx k &&& 128 ≠ 0 then 0 else tab (16 * (k / 16) + (idx k &&& 15))

/-- VPSRLQ on byte position `k`: the 64-bit lane of `k` shifted right as one number -/
def srlqByte (imm : Nat) (src : Nat → Nat) (k : Nat) : Nat :=
  ((pack8 (fun t => src (8 * (k / 8) + t)) >>> imm) >>> (8 * (k % 8))) &&& 255

/-- all instructions except `RET` and the jumps; the program counter is handled by `step` -/
def stepInstr (env : Env) (i : Instr) (s : State) : Option State :=
  match i with
  | .movqFrame a d =>
    some (setGp s d (match a with
      | .n => .num env.n
      | .start => .num env.start
      | .matrixBase => .ptr .matrix 0
      | .inBase => .ptr .inHdr 0
      | .outBase => .ptr .outHdr 0))
  | .movqLoad m d =>
    -- only the data pointers of the slice headers can be loaded
    match addr s m with
    | some (.inHdr, off) =>
      if off % 24 = 0 ∧ off / 24 < env.inputs then some (setGp s d (.ptr (.inp (off / 24)) 0)) else none
    | some (.outHdr, off) =>
      if off % 24 = 0 ∧ off / 24 < env.outputs then some (setGp s d (.ptr (.out (off / 24)) 0))
      else if off % 24 = 8 ∧ off / 24 < env.outputs then some (setGp s d (.num (env.size (.out (off / 24)))))
      else none
    | _ => none
  | .movqImm imm d => some (setGp s d (.num (imm % M64)))
  | .movqToX src x =>
    -- legacy SSE MOVQ: low 8 bytes from the register, bytes 8..15 zero, upper part preserved
    match s.gp src with
    | .num v => some (movqX s x v)
    | _ => none
  | .addqImm imm d =>
    match s.gp d with
    | .num v => some (setFlags (setGp s d (.num ((v + imm) % M64))) (some ((v + imm) % M64 == 0)) (some (decide (M64 ≤ v + imm))))
    | .ptr r off => some (setFlags (setGp s d (.ptr r ((off + imm) % M64))) none none)
  | .addqReg src d =>
    match s.gp src, s.gp d with
    | .num a, .num b => some (setFlags (setGp s d (.num ((b + a) % M64))) (some ((b + a) % M64 == 0)) (some (decide (M64 ≤ b + a))))
    | .num a, .ptr r off => some (setFlags (setGp s d (.ptr r ((off + a) % M64))) none none)
    | .ptr r off, .num b => some (setFlags (setGp s d (.ptr r ((off + b) % M64))) none none)
    | _, _ => none
  | .shrqImm imm d =>
    match s.gp d with
    | .num v =>
      if 0 < imm ∧ imm < 64 then
        some (setFlags (setGp s d (.num (v >>> imm))) (some (v >>> imm == 0)) (some (v.testBit (imm - 1))))
      else none
    | _ => none
  | .testq a b =>
    match s.gp a, s.gp b with
    | .num x, .num y => some (setFlags s (some ((x &&& y) == 0)) (some false))
    | _, _ => none
  | .decq r =>
    match s.gp r with
    | .num v => some (setFlags (setGp s r (.num ((v + M64 - 1) % M64))) (some (((v + M64 - 1) % M64) == 0)) s.cf)
    | _ => none
  | .label _ => some s
  | .vzeroupper =>
    some (zeroUpper s)
  | .vload m d =>
    match dataAddr env s m d.w.bytes with
    | some (r, off) => some (setVec s d (fun k => s.mem r (off + k)))
    | none => none
  | .vstore src m =>
    match dataAddr env s m src.w.bytes with
    | some (r, off) => some (storeVec s r off src.w.bytes src.idx)
    | none => none
  | .vpshufb idx tab d => some (setVec s d (shufByte (s.vec tab.idx) (s.vec idx.idx)))
  | .vxor a b d => some (setVec s d (fun k => s.vec b.idx k ^^^ s.vec a.idx k))
  | .vpand a b d => some (setVec s d (fun k => s.vec b.idx k &&& s.vec a.idx k))
  | .vpsrlq imm src d => some (setVec s d (srlqByte imm (s.vec src.idx)))
  | .vpbroadcastb src d => some (setVec s d (fun _ => s.vec src.idx 0))
  | .vbcast8 m d =>
    match dataAddr env s m 8 with
    | some (r, off) => some (setVec s d (fun k => s.mem r (off + k % 8)))
    | none => none
  | .affine imm mat src d =>
    some (setVec s d (fun k => affineB (fun t => s.vec mat.idx (8 * (k / 8) + t)) (s.vec src.idx k) ^^^ imm))
  | .affineBcst imm m src d =>
    match dataAddr env s m 8 with
    | some (r, off) => some (setVec s d (fun k => affineB (fun t => s.mem r (off + t)) (s.vec src.idx k) ^^^ imm))
    | none => none
  | .movqFP off d =>
    match env.frame off with
    | some v => some (setGp s d v)
    | none => none
  | .movqRR src d => some (setGp s d (s.gp src))
  | .xorqRR src d =>
    if src = d then some (setFlags (setGp s d (.num 0)) (some true) (some false))
    else match s.gp src, s.gp d with
      | .num a, .num b => some (setFlags (setGp s d (.num (b ^^^ a))) (some ((b ^^^ a) == 0)) (some false))
      | _, _ => none
  | .orqRR src d =>
    match s.gp src, s.gp d with
    | .num a, .num b => some (setFlags (setGp s d (.num (b ||| a))) (some ((b ||| a) == 0)) (some false))
    | _, _ => none
  | .andqImm imm d =>
    -- on a pointer only the address bits are observed
    match s.gp d with
    | .num v => some (setFlags (setGp s d (.num (v &&& imm))) (some ((v &&& imm) == 0)) (some false))
    | .ptr r off =>
      some (setFlags (setGp s d (.num (((env.base r + off) % M64) &&& imm)))
        (some ((((env.base r + off) % M64) &&& imm) == 0)) (some false))
  | .subqImm imm d =>
    match s.gp d with
    | .num v =>
      if imm < M64 then
        some (setFlags (setGp s d (.num ((v + M64 - imm) % M64))) (some (((v + M64 - imm) % M64) == 0)) (some (decide (v < imm))))
      else none
    | _ => none
  | .cmpqImm r imm =>
    match s.gp r with
    | .num v => if imm < M64 then some (setFlags s (some (v == imm)) (some (decide (v < imm)))) else none
    | _ => none
  | .vbcast16 m d =>
    match dataAddr env s m 16 with
    | some (r, off) => some (setVec s d (fun k => s.mem r (off + k % 16)))
    | none => none
  | .vbcast8FP off d =>
    match env.frame off with
    | some (.num q) => some (setVec s d (fun k => byteAt q (k % 8)))
    | _ => none
  | .vmovRR src d => some (setVec s d (s.vec src.idx))
  | .vternlog imm a b d =>
    -- only the three-way xor truth table is modelled
    if imm = 0x96 then some (setVec s d (fun k => s.vec d.idx k ^^^ s.vec b.idx k ^^^ s.vec a.idx k)) else none
  | .vinserti128 imm x y d =>
    if imm = 1 ∧ d.w = .y then
      some (setVec s d (fun k => if k < 16 then s.vec y.idx k else s.vec x.idx (k - 16)))
    else none
  | .sseLoad al m x =>
    match dataAddr env s m 16 with
    | some (r, off) =>
      if al = true ∧ (env.base r + off) % 16 ≠ 0 then none
      else some (setXmm s x (fun k => s.mem r (off + k)))
    | none => none
  | .sseStore al x m =>
    match dataAddr env s m 16 with
    | some (r, off) =>
      if al = true ∧ (env.base r + off) % 16 ≠ 0 then none
      else some (storeVec s r off 16 x)
    | none => none
  | .sseMov src d => some (setXmm s d (s.vec src))
  | .ssePxor src d => some (setXmm s d (fun k => s.vec d k ^^^ s.vec src k))
  | .ssePand src d => some (setXmm s d (fun k => s.vec d k &&& s.vec src k))
  | .ssePshufb idx d => some (setXmm s d (shufByte (s.vec d) (s.vec idx)))
  | .ssePsrlq imm d => some (setXmm s d (srlqByte imm (s.vec d)))
  | .ret => none
  | .jz _ => none
  | .jnz _ => none
  | .ja _ => none
  | .jmp _ => none

/-- position of `label l` -/
def findLabel : Program → Nat → Option Nat
  | [], _ => none
  | i :: rest, l => if i = .label l then some 0 else (findLabel rest l).map (· + 1)

inductive Outcome where
  | cont (s : State)
  | halt (s : State)
  | fault

def jump (prog : Program) (s : State) (l : Nat) : Outcome :=
  match findLabel prog l with
  | some p => .cont { s with pc := p }
  | none => .fault

/-- one machine step -/
def step (env : Env) (prog : Program) (s : State) : Outcome :=
  match prog[s.pc]? with
  | none => .fault
  | some .ret => .halt s
  | some (.jz l) =>
    match s.zf with
    | some true => jump prog s l
    | some false => .cont { s with pc := s.pc + 1 }
    | none => .fault
  | some (.jnz l) =>
    match s.zf with
    | some true => .cont { s with pc := s.pc + 1 }
    | some false => jump prog s l
    | none => .fault
  | some (.ja l) =>
    match s.zf, s.cf with
    | some z, some c => if !z && !c then jump prog s l else .cont { s with pc := s.pc + 1 }
    | _, _ => .fault
  | some (.jmp l) => jump prog s l
  | some i =>
    match stepInstr env i s with
    | some s' => .cont { s' with pc := s.pc + 1 }
    | none => .fault

/-- run until `RET`; `none` on a fault or when the fuel runs out -/
def exec (env : Env) (prog : Program) : Nat → State → Option State
  | 0, _ => none
  | fuel + 1, s =>
    match step env prog s with
    | .cont s' => exec env prog fuel s'
    | .halt s' => some s'
    | .fault => none

/-! ## parser for the canonical one-line text -/

namespace Parse

def splitOn (c : Char) : List Char → List (List Char)
  | [] => [[]]
  | x :: xs =>
    match splitOn c xs with
    | [] => [[]]
    | h :: t => if x = c then [] :: h :: t else (x :: h) :: t

def dropSpaces : List Char → List Char
  | ' ' :: xs => dropSpaces xs
  | xs => xs

def trim (l : List Char) : List Char := (dropSpaces (dropSpaces l).reverse).reverse

def digit? (c : Char) : Option Nat :=
  if '0' ≤ c ∧ c ≤ '9' then some (c.toNat - '0'.toNat) else none

def hexDigit? (c : Char) : Option Nat :=
  if '0' ≤ c ∧ c ≤ '9' then some (c.toNat - '0'.toNat)
  else if 'a' ≤ c ∧ c ≤ 'f' then some (c.toNat - 'a'.toNat + 10)
  else none

def numAux (base : Nat) (dig : Char → Option Nat) : List Char → Nat → Option Nat
  | [], acc => some acc
  | c :: cs, acc => match dig c with
    | some d => numAux base dig cs (acc * base + d)
    | none => none

def dec? (l : List Char) : Option Nat := if l.isEmpty then none else numAux 10 digit? l 0
def hex? (l : List Char) : Option Nat := if l.isEmpty then none else numAux 16 hexDigit? l 0

inductive Mn where
  | movq | addq | shrq | testq | decq | jz | jnz | ret | vzeroupper | vmovdqu | vmovdqu64 | vpshufb
  | vpxor | vxorpd | vpand | vpsrlq | vpbroadcastb | vbroadcastsd | vbroadcastf32x2
  | vgf2p8affineqb | vgf2p8affineqbBcst
  | subq | xorq | orq | andq | cmpq | ja | jmp | vbroadcasti128 | vmovaps | vpternlogd | vinserti128
  | movou | movoa | movaps | pxor | pand | pshufb | psrlq
deriving DecidableEq

def mnTable : List (List Char × Mn) := [
  (['M','O','V','Q'], .movq),
  (['A','D','D','Q'], .addq),
  (['S','H','R','Q'], .shrq),
  (['T','E','S','T','Q'], .testq),
  (['D','E','C','Q'], .decq),
  (['J','Z'], .jz),
  (['J','N','Z'], .jnz),
  (['R','E','T'], .ret),
  (['V','Z','E','R','O','U','P','P','E','R'], .vzeroupper),
  (['V','M','O','V','D','Q','U'], .vmovdqu),
  (['V','M','O','V','D','Q','U','6','4'], .vmovdqu64),
  (['V','P','S','H','U','F','B'], .vpshufb),
  (['V','P','X','O','R'], .vpxor),
  (['V','X','O','R','P','D'], .vxorpd),
  (['V','P','A','N','D'], .vpand),
  (['V','P','S','R','L','Q'], .vpsrlq),
  (['V','P','B','R','O','A','D','C','A','S','T','B'], .vpbroadcastb),
  (['V','B','R','O','A','D','C','A','S','T','S','D'], .vbroadcastsd),
  (['V','B','R','O','A','D','C','A','S','T','F','3','2','X','2'], .vbroadcastf32x2),
  (['V','G','F','2','P','8','A','F','F','I','N','E','Q','B'], .vgf2p8affineqb),
  (['V','G','F','2','P','8','A','F','F','I','N','E','Q','B','.','B','C','S','T'], .vgf2p8affineqbBcst),
  (['S','U','B','Q'], .subq),
  (['X','O','R','Q'], .xorq),
  (['O','R','Q'], .orq),
  (['A','N','D','Q'], .andq),
  (['C','M','P','Q'], .cmpq),
  (['J','A'], .ja),
  (['J','M','P'], .jmp),
  (['J','E','Q'], .jz),
  (['V','B','R','O','A','D','C','A','S','T','I','1','2','8'], .vbroadcasti128),
  (['V','M','O','V','A','P','S'], .vmovaps),
  (['V','P','T','E','R','N','L','O','G','D'], .vpternlogd),
  (['V','I','N','S','E','R','T','I','1','2','8'], .vinserti128),
  (['M','O','V','O','U'], .movou),
  (['M','O','V','U','P','S'], .movou),
  (['M','O','V','O','A'], .movoa),
  (['M','O','V','A','P','S'], .movaps),
  (['P','X','O','R'], .pxor),
  (['X','O','R','P','S'], .pxor),
  (['P','A','N','D'], .pand),
  (['P','S','H','U','F','B'], .pshufb),
  (['P','S','R','L','Q'], .psrlq)]

def gpNames : List (List Char) := [
  ['A','X'], ['C','X'], ['D','X'], ['B','X'], ['S','P'], ['B','P'], ['S','I'], ['D','I'],
  ['R','8'], ['R','9'], ['R','1','0'], ['R','1','1'], ['R','1','2'], ['R','1','3'], ['R','1','4'], ['R','1','5']]

def frameTable : List (List Char × FrameArg) := [
  (['n','+','8','0','(','F','P',')'], .n),
  (['m','a','t','r','i','x','_','b','a','s','e','+','0','(','F','P',')'], .matrixBase),
  (['i','n','_','b','a','s','e','+','2','4','(','F','P',')'], .inBase),
  (['o','u','t','_','b','a','s','e','+','4','8','(','F','P',')'], .outBase),
  (['s','t','a','r','t','+','7','2','(','F','P',')'], .start)]

def lookup {α : Type} (x : List Char) : List (List Char × α) → Option α
  | [] => none
  | (y, a) :: ys => if x = y then some a else lookup x ys

def idxOf (x : List Char) : List (List Char) → Nat → Option Nat
  | [], _ => none
  | y :: ys, k => if x = y then some k else idxOf x ys (k + 1)

def gp? (t : List Char) : Option Reg := idxOf t gpNames 0

def vreg? : List Char → Option VReg
  | 'X' :: ds => (dec? ds).bind fun k => if k < 32 then some ⟨.x, k⟩ else none
  | 'Y' :: ds => (dec? ds).bind fun k => if k < 32 then some ⟨.y, k⟩ else none
  | 'Z' :: ds => (dec? ds).bind fun k => if k < 32 then some ⟨.z, k⟩ else none
  | _ => none

def imm? : List Char → Option Nat
  | '$' :: '0' :: 'x' :: ds => hex? ds
  | '$' :: ds => dec? ds
  | _ => none

def isIdentChar (c : Char) : Bool := c.isAlphanum || c = '_'

/-- generic Go frame argument `name+off(FP)`: its offset -/
def frameOff? (t : List Char) : Option Nat :=
  match splitOn '+' t with
  | [name, rest] =>
    if name.isEmpty || !name.all isIdentChar then none
    else match splitOn '(' rest with
      | [d, ['F', 'P', ')']] => dec? d
      | _ => none
  | _ => none

def xreg? (t : List Char) : Option Nat :=
  match vreg? t with
  | some ⟨.x, k⟩ => some k
  | _ => none

def frame? (t : List Char) : Option FrameArg := lookup t frameTable

/-- `disp(BASE)`, `(BASE)`, `(BASE)(IDX*1)` -/
def mem? (t : List Char) : Option Mem :=
  match splitOn '(' t with
  | [d, b] =>
    match splitOn ')' b with
    | [bn, []] =>
      match gp? bn, (if d.isEmpty then some 0 else dec? d) with
      | some br, some disp => some (.bd disp br)
      | _, _ => none
    | _ => none
  | [[], b, i] =>
    match splitOn ')' b, splitOn '*' i with
    | [bn, []], [iname, ['1', ')']] =>
      match gp? bn, gp? iname with
      | some br, some ir => some (.bi br ir)
      | _, _ => none
    | _, _ => none
  | _ => none

/-- label number: position in the list of names seen so far (appended when new) -/
def labelId (names : List (List Char)) (t : List Char) : List (List Char) × Nat :=
  match idxOf t names 0 with
  | some k => (names, k)
  | none => (names ++ [t], names.length)

def splitMnemonic : List Char → List Char × List Char
  | [] => ([], [])
  | ' ' :: xs => ([], xs)
  | x :: xs => let (a, b) := splitMnemonic xs; (x :: a, b)

def sameW (a b : VReg) : Bool := a.w = b.w

/-- an instruction from its mnemonic and operand texts (labels handled by the caller) -/
def mkInstr (mn : Mn) (ops : List (List Char)) : Option Instr :=
  match mn, ops with
  | .ret, [] => some .ret
  | .vzeroupper, [] => some .vzeroupper
  | .movq, [a, b] =>
    match gp? b with
    | some d =>
      match frame? a, imm? a, mem? a with
      | some f, _, _ => some (.movqFrame f d)
      | _, some v, _ => some (.movqImm v d)
      | _, _, some m => some (.movqLoad m d)
      | _, _, _ =>
        match frameOff? a, gp? a with
        | some off, _ => some (.movqFP off d)
        | _, some s => some (.movqRR s d)
        | _, _ => none
    | none =>
      match gp? a, vreg? b with
      | some s, some ⟨.x, k⟩ => some (.movqToX s k)
      | _, _ => none
  | .addq, [a, b] =>
    match gp? b, imm? a, gp? a with
    | some d, some v, _ => some (.addqImm v d)
    | some d, _, some s => some (.addqReg s d)
    | _, _, _ => none
  | .shrq, [a, b] =>
    match imm? a, gp? b with
    | some v, some d => some (.shrqImm v d)
    | _, _ => none
  | .testq, [a, b] =>
    match gp? a, gp? b with
    | some x, some y => some (.testq x y)
    | _, _ => none
  | .decq, [a] => (gp? a).map .decq
  | .vmovdqu, [a, b] | .vmovdqu64, [a, b] =>
    let want : VW := if mn = .vmovdqu then .y else .z
    match mem? a, vreg? b, vreg? a, mem? b with
    | some m, some d, _, _ => if d.w = want then some (.vload m d) else none
    | _, _, some s, some m => if s.w = want then some (.vstore s m) else none
    | _, _, _, _ => none
  | .vpshufb, [a, b, c] | .vpxor, [a, b, c] | .vxorpd, [a, b, c] | .vpand, [a, b, c] =>
    match vreg? a, vreg? b, vreg? c with
    | some x, some y, some d =>
      if sameW x d && sameW y d then
        if mn = .vpshufb then some (.vpshufb x y d)
        else if mn = .vpand then some (.vpand x y d)
        else some (.vxor x y d)
      else none
    | _, _, _ => none
  | .vpsrlq, [a, b, c] =>
    match imm? a, vreg? b, vreg? c with
    | some v, some x, some d => if sameW x d then some (.vpsrlq v x d) else none
    | _, _, _ => none
  | .vpbroadcastb, [a, b] =>
    match vreg? a, vreg? b with
    | some x, some d => if x.w = .x then some (.vpbroadcastb x d) else none
    | _, _ => none
  | .vbroadcastsd, [a, b] | .vbroadcastf32x2, [a, b] =>
    let want : VW := if mn = .vbroadcastsd then .y else .z
    match mem? a, vreg? b with
    | some m, some d => if d.w = want then some (.vbcast8 m d) else none
    | none, some d =>
      match frameOff? a with
      | some off => if d.w = want then some (.vbcast8FP off d) else none
      | none => none
    | _, _ => none
  | .subq, [a, b] =>
    match imm? a, gp? b with
    | some v, some d => some (.subqImm v d)
    | _, _ => none
  | .andq, [a, b] =>
    match imm? a, gp? b with
    | some v, some d => some (.andqImm v d)
    | _, _ => none
  | .cmpq, [a, b] =>
    match gp? a, imm? b with
    | some r, some v => some (.cmpqImm r v)
    | _, _ => none
  | .xorq, [a, b] =>
    match gp? a, gp? b with
    | some x, some y => some (.xorqRR x y)
    | _, _ => none
  | .orq, [a, b] =>
    match gp? a, gp? b with
    | some x, some y => some (.orqRR x y)
    | _, _ => none
  | .vbroadcasti128, [a, b] =>
    match mem? a, vreg? b with
    | some m, some d => if d.w = .y then some (.vbcast16 m d) else none
    | _, _ => none
  | .vmovaps, [a, b] =>
    match vreg? a, vreg? b with
    | some x, some d => if sameW x d then some (.vmovRR x d) else none
    | _, _ => none
  | .vpternlogd, [a, b, c, e] =>
    match imm? a, vreg? b, vreg? c, vreg? e with
    | some v, some x, some y, some d => if sameW x d && sameW y d then some (.vternlog v x y d) else none
    | _, _, _, _ => none
  | .vinserti128, [a, b, c, e] =>
    match imm? a, vreg? b, vreg? c, vreg? e with
    | some v, some x, some y, some d => if x.w = .x && sameW y d then some (.vinserti128 v x y d) else none
    | _, _, _, _ => none
  | .movou, [a, b] | .movoa, [a, b] | .movaps, [a, b] =>
    match xreg? a, xreg? b, mem? a, mem? b with
    | some x, some d, _, _ => some (.sseMov x d)
    | none, some d, some m, _ => if mn = .movaps then none else some (.sseLoad (mn = .movoa) m d)
    | some x, none, _, some m => if mn = .movaps then none else some (.sseStore (mn = .movoa) x m)
    | _, _, _, _ => none
  | .pxor, [a, b] =>
    match xreg? a, xreg? b with
    | some x, some d => some (.ssePxor x d)
    | _, _ => none
  | .pand, [a, b] =>
    match xreg? a, xreg? b with
    | some x, some d => some (.ssePand x d)
    | _, _ => none
  | .pshufb, [a, b] =>
    match xreg? a, xreg? b with
    | some x, some d => some (.ssePshufb x d)
    | _, _ => none
  | .psrlq, [a, b] =>
    match imm? a, xreg? b with
    | some v, some d => some (.ssePsrlq v d)
    | _, _ => none
  | .vgf2p8affineqb, [a, b, c, e] =>
    match imm? a, vreg? b, vreg? c, vreg? e with
    | some v, some mt, some x, some d => if sameW mt d && sameW x d then some (.affine v mt x d) else none
    | _, _, _, _ => none
  | .vgf2p8affineqbBcst, [a, b, c, e] =>
    match imm? a, mem? b, vreg? c, vreg? e with
    | some v, some m, some x, some d => if sameW x d then some (.affineBcst v m x d) else none
    | _, _, _, _ => none
  | _, _ => none

/-- one instruction; `names` = label names seen so far -/
def instr? (names : List (List Char)) (t : List Char) : Option (List (List Char) × Instr) :=
  let t := trim t
  match t.reverse with
  | ':' :: rn =>
    let (names, k) := labelId names rn.reverse
    some (names, .label k)
  | _ =>
    let (mt, rest) := splitMnemonic t
    let ops := if rest.isEmpty then [] else (splitOn ',' rest).map trim
    match lookup mt mnTable with
    | some .jz =>
      match ops with
      | [l] => let (names, k) := labelId names l; some (names, .jz k)
      | _ => none
    | some .jnz =>
      match ops with
      | [l] => let (names, k) := labelId names l; some (names, .jnz k)
      | _ => none
    | some .ja =>
      match ops with
      | [l] => let (names, k) := labelId names l; some (names, .ja k)
      | _ => none
    | some .jmp =>
      match ops with
      | [l] => let (names, k) := labelId names l; some (names, .jmp k)
      | _ => none
    | some mn => (mkInstr mn ops).map fun i => (names, i)
    | none => none

def instrs? : List (List Char) → List (List Char) → Option Program
  | [], _ => some []
  | t :: ts, names =>
    match instr? names t with
    | some (names', i) => (instrs? ts names').map (i :: ·)
    | none => none

/-- body text `instr ; instr ; …` -/
def body? (l : List Char) : Option Program := instrs? (splitOn ';' l) []

end Parse

/-- parse the instruction part of a canonical kernel line -/
def parseKernel (s : String) : Option Program := Parse.body? s.toList

end RSV.Asm
