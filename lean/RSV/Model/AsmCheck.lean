import RSV.Model.Asm
import RSV.Model.Kernels
import RSV.Model.AsmLeoKinds
/-!
# L1: a reflective checker for the generated amd64 kernels (core Lean only, executable)

`checkKernel prog family xor I O` executes `prog` *symbolically*:

* general registers hold `GSym`: the argument `n`, the iteration count `n / B`, the running counter,
  or an affine value `base + s·start + t·(B·it) + c` (`base` a region or nothing, `it` the number of
  completed loop iterations);
* vector registers hold `VSym`: a lane-uniform description of their low `w` bytes — the nibble
  mask, a 32-byte table load, an 8-byte broadcast matrix, the low/high nibbles of an input block,
  an intermediate `VPSRLQ`, or an xor of `Atom`s (input block, old output block, table look-up,
  affine transform);
* a store is accepted only if the stored xor list is, up to permutation, *exactly*
  `[old output if xor] ++ for every input j the recipe with slot (i,j)` (no `x ⊕ x = 0` reasoning);
* the program must have the shape `prologue ; TESTQ c,c ; JZ end ; prologue ; loop: ; body ;
  DECQ c' ; JNZ loop ; VZEROUPPER ; end: ; RET` with straight-line pieces, the tested register
  must hold `n >> log2 B`, the loop counter too, every register that is live around the loop must
  be advanced by exactly `t·B`, and every output block must be stored exactly once per iteration.

Soundness with respect to the concrete semantics of `RSV.Model.Asm` is proved in `RSV.Proofs.Asm*`.
-/
namespace RSV.Asm
open RSV.Model.Kernels (Family gran avx2Slot gfniSlot)

/-- symbolic general-register value -/
inductive GSym where
  | unk
  | nRaw                      -- the argument `n`
  | cnt                       -- `n / B`
  | ctr (d : Nat)             -- `n / B - it - d`
  | lin (base : Option Region) (s t c : Nat)   -- `base + (s·start + t·(B·it) + c) mod 2^64`
deriving DecidableEq, Repr

/-- one xor operand of a vector value, as a function of the byte position inside the block -/
inductive Atom where
  | inp (j o : Nat)                        -- input `j`, block offset `o`
  | old (i o : Nat)                        -- output `i` before the call
  | shuf (off : Nat) (hi : Bool) (j o : Nat)   -- PSHUFB of the table at matrix offset `off` by a nibble of input `j`
  | aff (off j o : Nat)                    -- GF2P8AFFINEQB of input `j` with the matrix word at offset `off`
deriving DecidableEq, Repr

/-- symbolic vector-register value (`w` = number of described bytes) -/
inductive VSym where
  | unk
  | byte0 (c : Nat)
  | mask (w : Nat)
  | tab (off : Nat)
  | mat (w off : Nat)
  | xs (w : Nat) (l : List Atom)
  | srl (w j o : Nat)
  | lo (w j o : Nat)
  | hi (w j o : Nat)
deriving DecidableEq, Repr

structure Cfg where
  fam : Family
  xor : Bool
  I : Nat
  O : Nat

/-- bytes per loop iteration -/
def Cfg.B (cfg : Cfg) : Nat := gran cfg.fam cfg.O

/-- bytes per vector store -/
def Cfg.w (cfg : Cfg) : Nat :=
  match cfg.fam with
  | .gfni => 64
  | _ => 32

/-- bytes of the expanded coefficient matrix -/
def Cfg.matSize (cfg : Cfg) : Nat :=
  match cfg.fam with
  | .avx2 => cfg.I * cfg.O * 64
  | _ => cfg.I * cfg.O * 8

structure SymState where
  gp : Reg → GSym
  vec : Nat → VSym
  stores : List (Nat × Nat)

def SymState.setGp (σ : SymState) (r : Reg) (g : GSym) : SymState :=
  { σ with gp := fun k => if k = r then g else σ.gp k }

def SymState.setVec (σ : SymState) (v : Nat) (x : VSym) : SymState :=
  { σ with vec := fun k => if k = v then x else σ.vec k }

/-- symbolic effective address: region and the coefficients of `start`, `B·it`, `1` -/
def symAddr (σ : SymState) : Mem → Option (Region × Nat × Nat × Nat)
  | .bd disp base =>
    match σ.gp base with
    | .lin (some r) s t c => some (r, s, t, c + disp)
    | _ => none
  | .bi base idx =>
    match σ.gp base, σ.gp idx with
    | .lin (some r) s t c, .lin none s' t' c' => some (r, s + s', t + t', c + c')
    | _, _ => none

/-- a `w`-byte data access the contract allows: the matrix at a constant offset, or (inside the
loop only) the current block of an input/output slice at block offset `c` -/
def symData (cfg : Cfg) (loop : Bool) (σ : SymState) (m : Mem) (w : Nat) : Option (Region × Nat) :=
  match symAddr σ m with
  | none => none
  | some (r, s, t, c) =>
    match r with
    | .matrix => if s = 0 ∧ t = 0 ∧ c + w ≤ cfg.matSize ∧ cfg.matSize < M64 then some (r, c) else none
    | .inp j => if loop = true ∧ s = 1 ∧ t = 1 ∧ j < cfg.I ∧ c + w ≤ cfg.B then some (r, c) else none
    | .out i => if loop = true ∧ s = 1 ∧ t = 1 ∧ i < cfg.O ∧ c + w ≤ cfg.B then some (r, c) else none
    | _ => none

/-- the recipe for coefficient `(i, j)` applied to input block `j` -/
def recipe (cfg : Cfg) (i o j : Nat) : List Atom :=
  match cfg.fam with
  | .avx2 => [.shuf (avx2Slot cfg.O i j) false j o, .shuf (avx2Slot cfg.O i j + 32) true j o]
  | _ => [.aff (gfniSlot cfg.O i j * 8) j o]

/-- what has to be stored to output `i` at block offset `o` -/
def expected (cfg : Cfg) (i o : Nat) : List Atom :=
  (if cfg.xor then [Atom.old i o] else []) ++ (List.range cfg.I).flatMap (recipe cfg i o)

/-- symbolic execution of one straight-line instruction; `none` = rejected -/
def symStep (cfg : Cfg) (loop : Bool) (i : Instr) (σ : SymState) : Option SymState :=
  match i with
  | .movqFrame a d =>
    some (σ.setGp d (match a with
      | .n => .nRaw
      | .start => .lin none 1 0 0
      | .matrixBase => .lin (some .matrix) 0 0 0
      | .inBase => .lin (some .inHdr) 0 0 0
      | .outBase => .lin (some .outHdr) 0 0 0))
  | .movqLoad m d =>
    match symAddr σ m with
    | some (.inHdr, s, t, c) =>
      if s = 0 ∧ t = 0 ∧ c < M64 ∧ c % 24 = 0 ∧ c / 24 < cfg.I then
        some (σ.setGp d (.lin (some (.inp (c / 24))) 0 0 0)) else none
    | some (.outHdr, s, t, c) =>
      if s = 0 ∧ t = 0 ∧ c < M64 ∧ c % 24 = 0 ∧ c / 24 < cfg.O then
        some (σ.setGp d (.lin (some (.out (c / 24))) 0 0 0)) else none
    | _ => none
  | .movqImm imm d => some (σ.setGp d (.lin none 0 0 imm))
  | .movqToX src x =>
    match σ.gp src with
    | .lin none s t c => if s = 0 ∧ t = 0 ∧ c < 256 then some (σ.setVec x (.byte0 c)) else none
    | _ => none
  | .addqImm imm d =>
    match σ.gp d with
    | .lin b s t c => some (σ.setGp d (.lin b s t (c + imm)))
    | _ => none
  | .addqReg src d =>
    match σ.gp src, σ.gp d with
    | .lin none s t c, .lin b s' t' c' => some (σ.setGp d (.lin b (s' + s) (t' + t) (c' + c)))
    | .lin (some r) s t c, .lin none s' t' c' => some (σ.setGp d (.lin (some r) (s' + s) (t' + t) (c' + c)))
    | _, _ => none
  | .shrqImm imm d =>
    match σ.gp d with
    | .nRaw => if imm < 64 ∧ 2 ^ imm = cfg.B then some (σ.setGp d .cnt) else none
    | _ => none
  | .vload m d =>
    match symData cfg loop σ m d.w.bytes with
    | some (.matrix, c) => if d.w = .y then some (σ.setVec d.idx (.tab c)) else none
    | some (.inp j, c) => some (σ.setVec d.idx (.xs d.w.bytes [.inp j c]))
    | some (.out i, c) => if σ.stores = [] then some (σ.setVec d.idx (.xs d.w.bytes [.old i c])) else none
    | _ => none
  | .vstore src m =>
    match symData cfg loop σ m src.w.bytes, σ.vec src.idx with
    | some (.out i, c), .xs w l =>
      if src.w.bytes = cfg.w ∧ w = cfg.w ∧ l.isPerm (expected cfg i c) = true ∧ (i, c) ∉ σ.stores then
        some { σ with stores := (i, c) :: σ.stores } else none
    | _, _ => none
  | .vpshufb idx tab d =>
    match σ.vec tab.idx, σ.vec idx.idx with
    | .tab off, .lo w j o => if d.w = .y ∧ w = 32 then some (σ.setVec d.idx (.xs 32 [.shuf off false j o])) else none
    | .tab off, .hi w j o => if d.w = .y ∧ w = 32 then some (σ.setVec d.idx (.xs 32 [.shuf off true j o])) else none
    | _, _ => none
  | .vxor a b d =>
    match σ.vec a.idx, σ.vec b.idx with
    | .xs w l, .xs w' l' => if w = d.w.bytes ∧ w' = d.w.bytes then some (σ.setVec d.idx (.xs w (l' ++ l))) else none
    | _, _ => none
  | .vpand a b d =>
    match σ.vec a.idx, σ.vec b.idx with
    | .mask w, .xs w' [.inp j o] => if w = d.w.bytes ∧ w' = d.w.bytes then some (σ.setVec d.idx (.lo w j o)) else none
    | .mask w, .srl w' j o => if w = d.w.bytes ∧ w' = d.w.bytes then some (σ.setVec d.idx (.hi w j o)) else none
    | _, _ => none
  | .vpsrlq imm src d =>
    match σ.vec src.idx with
    | .xs w [.inp j o] => if imm = 4 ∧ w = d.w.bytes then some (σ.setVec d.idx (.srl w j o)) else none
    | _ => none
  | .vpbroadcastb src d =>
    match σ.vec src.idx with
    | .byte0 c => if c = 15 then some (σ.setVec d.idx (.mask d.w.bytes)) else none
    | _ => none
  | .vbcast8 m d =>
    match symData cfg loop σ m 8 with
    | some (.matrix, c) => some (σ.setVec d.idx (.mat d.w.bytes c))
    | _ => none
  | .affine imm mat src d =>
    match σ.vec mat.idx, σ.vec src.idx with
    | .mat w c, .xs w' [.inp j o] =>
      if imm = 0 ∧ w = d.w.bytes ∧ w' = d.w.bytes then some (σ.setVec d.idx (.xs w [.aff c j o])) else none
    | _, _ => none
  | .affineBcst imm m src d =>
    match symData cfg loop σ m 8, σ.vec src.idx with
    | some (.matrix, c), .xs w [.inp j o] =>
      if imm = 0 ∧ w = d.w.bytes then some (σ.setVec d.idx (.xs w [.aff c j o])) else none
    | _, _ => none
  | _ => none

def symRun (cfg : Cfg) (loop : Bool) : List Instr → SymState → Option SymState
  | [], σ => some σ
  | i :: is, σ =>
    match symStep cfg loop i σ with
    | some σ' => symRun cfg loop is σ'
    | none => none

/-! ## program shape -/

structure Shape where
  pre1 : List Instr
  rt : Reg
  lEnd : Nat
  pre2 : List Instr
  lLoop : Nat
  body : List Instr
  rc : Reg

def Shape.assemble (sh : Shape) : Program :=
  sh.pre1 ++ (.testq sh.rt sh.rt :: .jz sh.lEnd :: (sh.pre2 ++ (.label sh.lLoop :: (sh.body ++
    [.decq sh.rc, .jnz sh.lLoop, .vzeroupper, .label sh.lEnd, .ret]))))

def isTestq : Instr → Bool
  | .testq _ _ => true
  | _ => false
def isLabel : Instr → Bool
  | .label _ => true
  | _ => false
def isDecq : Instr → Bool
  | .decq _ => true
  | _ => false

/-- candidate decomposition (verified afterwards by `assemble sh = prog`) -/
def splitKernel (prog : Program) : Option Shape :=
  let pre1 := prog.takeWhile (fun i => !isTestq i)
  match prog.dropWhile (fun i => !isTestq i) with
  | .testq rt _ :: .jz lEnd :: rest =>
    let pre2 := rest.takeWhile (fun i => !isLabel i)
    match rest.dropWhile (fun i => !isLabel i) with
    | .label lLoop :: rest2 =>
      let body := rest2.takeWhile (fun i => !isDecq i)
      match rest2.dropWhile (fun i => !isDecq i) with
      | .decq rc :: _ => some ⟨pre1, rt, lEnd, pre2, lLoop, body, rc⟩
      | _ => none
    | _ => none
  | _ => none

/-! ## loop head -/

/-- value of a register one iteration later -/
def gShift (B : Nat) : GSym → GSym
  | .ctr d => .ctr (d + 1)
  | .lin b s t c => .lin b s t (c + t * B)
  | g => g

/-- vector values that do not depend on the iteration -/
def vInv : VSym → Bool
  | .unk | .byte0 _ | .mask _ | .tab _ | .mat _ _ => true
  | _ => false

def gpWrite : Instr → Option Reg
  | .movqFrame _ d | .movqLoad _ d | .movqImm _ d | .addqImm _ d | .addqReg _ d | .shrqImm _ d | .decq d => some d
  | _ => none

def vecWrite : Instr → Option Nat
  | .movqToX _ x => some x
  | .vload _ d | .vpshufb _ _ d | .vxor _ _ d | .vpand _ _ d | .vpsrlq _ _ d | .vpbroadcastb _ d
  | .vbcast8 _ d | .affine _ _ _ d | .affineBcst _ _ _ d => some d.idx
  | _ => none

/-- heuristic loop-head state (everything it claims is checked by `initOK` and `stepOK`) -/
def guessHead (cfg : Cfg) (σ0 : SymState) (body : List Instr) (rc : Reg) : SymState where
  gp := fun r =>
    if 16 ≤ r then .unk
    else if r = rc then (if σ0.gp r = .cnt then .ctr 0 else .unk)
    else
      let untouched := body.all fun i => decide (gpWrite i ≠ some r)
      let advanced := body.all fun i => decide (gpWrite i = some r → i = .addqImm cfg.B r)
      match σ0.gp r with
      | .lin b s _ c => if untouched then .lin b s 0 c else if advanced then .lin b s 1 c else .unk
      | g => if untouched then g else .unk
  vec := fun v =>
    if 32 ≤ v then .unk
    else if vInv (σ0.vec v) && body.all (fun i => decide (vecWrite i ≠ some v)) then σ0.vec v else .unk
  stores := []

/-- the prologue result is an instance (`it = 0`) of the loop-head state -/
def gInit (g h : GSym) : Bool :=
  match h, g with
  | .unk, _ => true
  | .ctr 0, .cnt => true
  | .lin b s _ c, .lin b' s' _ c' => b = b' ∧ s = s' ∧ c = c'
  | .nRaw, .nRaw => true
  | .cnt, .cnt => true
  | _, _ => false

def initOK (σ0 H : SymState) : Bool :=
  (List.range 16).all (fun r => gInit (σ0.gp r) (H.gp r)) &&
  (List.range 32).all (fun v => H.vec v = .unk || (vInv (H.vec v) && σ0.vec v = H.vec v))

/-- the state after the body is the loop-head state of the next iteration -/
def stepOK (cfg : Cfg) (H σe : SymState) : Bool :=
  (List.range 16).all (fun r => H.gp r = .unk || σe.gp r = gShift cfg.B (H.gp r)) &&
  (List.range 32).all (fun v => H.vec v = .unk || (vInv (H.vec v) && σe.vec v = H.vec v))

/-- every block of every output was stored (exactly once, by the count) -/
def covers (cfg : Cfg) (stores : List (Nat × Nat)) : Bool :=
  cfg.w * (cfg.B / cfg.w) = cfg.B && 0 < cfg.w &&
  stores.length = cfg.O * (cfg.B / cfg.w) &&
  (List.range cfg.O).all fun i => (List.range (cfg.B / cfg.w)).all fun b => stores.contains (i, b * cfg.w)

def initSym : SymState := ⟨fun _ => .unk, fun _ => .unk, []⟩

/-- restrict a state to the 16 + 32 architectural registers -/
def clamp (σ : SymState) : SymState where
  gp := fun r => if r < 16 then σ.gp r else .unk
  vec := fun v => if v < 32 then σ.vec v else .unk
  stores := σ.stores

/-- the loop part of the check, for a given loop-head state -/
def checkLoop (cfg : Cfg) (sh : Shape) (σ0 H : SymState) : Bool :=
  H.stores = [] && σ0.stores = [] && initOK σ0 H &&
  match symRun cfg true sh.body H with
  | none => false
  | some σb =>
    σb.gp sh.rc = .ctr 0 && stepOK cfg H (σb.setGp sh.rc (.ctr 1)) && covers cfg σb.stores

/-- the checker -/
def checkKernel (prog : Program) (fam : Family) (xor : Bool) (I O : Nat) : Bool :=
  let cfg : Cfg := ⟨fam, xor, I, O⟩
  match splitKernel prog with
  | none => false
  | some sh =>
    sh.assemble = prog && sh.lLoop ≠ sh.lEnd &&
    match symRun cfg false sh.pre1 initSym with
    | none => false
    | some σ1 =>
      σ1.gp sh.rt = .cnt && σ1.stores = [] &&
      match symRun cfg false sh.pre2 σ1 with
      | none => false
      | some σ0 => checkLoop cfg sh σ0 (clamp (guessHead cfg σ0 sh.body sh.rc))

/-! ## diagnostics and the line protocol (not part of the soundness statement) -/

def symRunDiag (cfg : Cfg) (loop : Bool) : List Instr → SymState → Nat → Except Nat SymState
  | [], σ, _ => .ok σ
  | i :: is, σ, k =>
    match symStep cfg loop i σ with
    | some σ' => symRunDiag cfg loop is σ' (k + 1)
    | none => .error k

def diagnose (prog : Program) (fam : Family) (xor : Bool) (I O : Nat) : String :=
  let cfg : Cfg := ⟨fam, xor, I, O⟩
  match splitKernel prog with
  | none => "shape: no TESTQ/JZ … label … DECQ skeleton"
  | some sh =>
    if sh.assemble ≠ prog then "shape: program is not prologue/TESTQ/JZ/prologue/loop/body/DECQ/JNZ/VZEROUPPER/end/RET"
    else if sh.lLoop = sh.lEnd then "shape: loop and end label coincide"
    else match symRunDiag cfg false sh.pre1 initSym 0 with
    | .error k => s!"prologue instruction {k} rejected"
    | .ok σ1 =>
      if σ1.gp sh.rt ≠ .cnt then "TESTQ does not test n >> log2(block)"
      else match symRunDiag cfg false sh.pre2 σ1 (sh.pre1.length + 2) with
      | .error k => s!"prologue instruction {k} rejected"
      | .ok σ0 =>
        let H := clamp (guessHead cfg σ0 sh.body sh.rc)
        if !initOK σ0 H then "loop head does not generalise the prologue state"
        else match symRunDiag cfg true sh.body H (sh.pre1.length + sh.pre2.length + 3) with
        | .error k => s!"loop instruction {k} rejected"
        | .ok σb =>
          if σb.gp sh.rc ≠ .ctr 0 then "DECQ register is not the loop counter"
          else if !stepOK cfg H (σb.setGp sh.rc (.ctr 1)) then "a live register is not advanced by one block per iteration"
          else if !covers cfg σb.stores then "not every output block is stored exactly once"
          else "unknown"

namespace Parse

def famTable : List (List Char × Family) := [
  (['a','v','x','2'], .avx2), (['g','f','n','i'], .gfni), (['a','v','x','g','f','n','i'], .avxgfni)]

def natChars (n : Nat) : List Char := Nat.toDigits 10 n

/-- the Go symbol a kernel of this family/shape must have (ties the `_64` suffix to the block size) -/
def kernelName (fam : Family) (xor : Bool) (I O : Nat) : List Char :=
  (match fam with
    | .avx2 => ['m','u','l','A','v','x','T','w','o','_']
    | .gfni => ['m','u','l','G','F','N','I','_']
    | .avxgfni => ['m','u','l','A','v','x','G','F','N','I','_']) ++
  natChars I ++ ['x'] ++ natChars O ++
  (match fam with
    | .avxgfni => []
    | _ => if gran fam O = 64 then ['_','6','4'] else []) ++
  (if xor then ['X','o','r'] else [])

/-- header `name family xor I O` -/
def header? (h : List Char) : Option (List Char × Family × Bool × Nat × Nat) :=
  match (splitOn ' ' (trim h)) with
  | [name, f, x, i, o] =>
    match lookup f famTable, dec? x, dec? i, dec? o with
    | some fam, some xv, some iv, some ov => if xv ≤ 1 then some (name, fam, xv == 1, iv, ov) else none
    | _, _, _, _ => none
  | _ => none

end Parse

/-- check one canonical line given as characters -/
def checkChars (l : List Char) : Bool :=
  match Parse.splitOn '|' l with
  | [h, b] =>
    match Parse.header? h, Parse.body? b with
    | some (name, fam, xor, I, O), some prog =>
      name = Parse.kernelName fam xor I O && checkKernel prog fam xor I O
    | _, _ => false
  | _ => false

def checkLineB (s : String) : Bool := checkChars s.toList

/-- why a line is rejected (diagnostics only) -/
def failReason (s : String) : String :=
  match Parse.splitOn '|' s.toList with
  | [h, b] =>
    match Parse.header? h, Parse.body? b with
    | some (name, fam, xor, I, O), some prog =>
      if name ≠ Parse.kernelName fam xor I O then "kernel name does not match family/shape"
      else diagnose prog fam xor I O
    | none, _ => "header"
    | _, none => "parse"
  | _ => "line format"

/-- line protocol: `ok` or `fail <reason>`.  Lines of the 600 matrix kernels (`<name> avx2|gfni|avxgfni …`) go to
`checkChars`, lines of the remaining kernels (`<name> xor|galmul|dit28|dit48|dit2|dit4|mulgf16 …`) to
`Leo.checkChars` -/
def checkLine (s : String) : String :=
  if checkLineB s then "ok"
  else if Leo.checkChars s.toList then "ok"
  else "fail " ++
    (match Parse.splitOn '|' s.toList with
      | [h, _] => if (Parse.header? h).isSome then failReason s else Leo.failReason s.toList
      | _ => "line format")

end RSV.Asm
