import RSV.Model.Asm
/-!
# L1: reflective checker for the remaining amd64 kernels (core Lean only, executable)

Leopard butterflies (`fftDIT48_*`, `ifftDIT48_*`, `fftDIT4_*`, `ifftDIT4_*`, `fftDIT2_*`,
`ifftDIT2_*`, `fftDIT28_avx2`, `ifftDIT28_avx2`), `mulgf16_*`, the xor slices and the hand-written
`galMulAVX2*` kernels.  Same method as `RSV.Model.AsmCheck`, with a richer symbolic domain:

* data slices are *rows* (`row k` = the concrete region `out (k·dist)`), read and written in place;
  tables are separate read-only regions; `dist` (times 24) is the stride in the slice-header array;
* vector values are nested expressions `E` over the row bytes *before the call*: xor, nibble table
  look-up `tab[off + (x & 15)]` / `tab[off + (x >> 4)]`, `GF2P8AFFINEQB` with an immediate matrix;
* a kernel descriptor `KD` (block size, store width, frame layout, table sizes, and the expected
  expression `spec row chunk` for every stored 16/32/64-byte chunk) is computed from the header
  `<name> <kind> <isa> <flag> <num>`; a store is accepted only if the stored expression and the
  expected one have the same canonical form (xor flattened and sorted, recursively);
* the loop may count blocks (`DECQ`/`SUBQ $1` … `JNZ`) or bytes (`SUBQ $B` … `JA`/`JNZ`); the
  early exit is `TESTQ c,c ; JZ` or `SHRQ $k, c ; JZ` or absent (then the contract requires a
  positive length that is a multiple of the block size).

Soundness with respect to the machine semantics of `RSV.Model.Asm`: `RSV.Proofs.AsmLeo*`.
-/
namespace RSV.Asm.Leo
open RSV.Asm

/-- symbolic base of a pointer -/
inductive SBase where
  | hdr
  | tab (k : Nat)
  | row (k : Nat)
deriving DecidableEq, Repr

/-- symbolic general-register value; `it` = completed iterations, `cnt = N / B` -/
inductive GSym where
  | unk
  | nRaw                      -- the byte length `N`
  | cnt                       -- `N / B`
  | ctr (sc d : Nat)          -- `sc · (cnt - it - d)`
  | lin (base : Option SBase) (s t c : Nat)   -- `base + (s·24·dist + t·(B·it) + c) mod 2^64`
  | algn (k : Nat)            -- low 4 address bits of row `k`
deriving DecidableEq, Repr

/-- byte expressions over the rows before the call, as a function of the byte position in a chunk -/
inductive E where
  | zero
  | old (row o : Nat)                         -- row `row`, block offset `o`
  | xor (a b : E)
  | look (tab off : Nat) (hi : Bool) (x : E)  -- table `tab`, entry `off + nibble of x`
  | aff (m : Nat) (x : E)                     -- GF2P8AFFINEQB with the matrix in frame slot `m`
deriving DecidableEq, Repr

namespace E

def rank : E → Nat
  | zero => 0 | old _ _ => 1 | xor _ _ => 2 | look _ _ _ _ => 3 | aff _ _ => 4

/-- some total preorder used to sort xor operands (its properties do not matter for soundness) -/
def le : E → E → Bool
  | old r o, old r' o' => r < r' || (r = r' && o ≤ o')
  | xor a b, xor a' b' => if a = a' then le b b' else le a a'
  | look t o h x, look t' o' h' x' =>
    if t ≠ t' then t < t' else if o ≠ o' then o < o' else if h ≠ h' then !h else le x x'
  | aff m x, aff m' x' => if m ≠ m' then m < m' else le x x'
  | a, b => a.rank ≤ b.rank

def insert (x : E) : List E → List E
  | [] => [x]
  | y :: ys => if le x y then x :: y :: ys else y :: insert x ys

def sort : List E → List E
  | [] => []
  | x :: xs => insert x (sort xs)

def build : List E → E
  | [] => zero
  | [x] => x
  | x :: xs => xor x (build xs)

/-- xor operands in canonical inner form -/
def flat : E → List E
  | zero => []
  | old r o => [old r o]
  | xor a b => flat a ++ flat b
  | look t o h x => [look t o h (build (sort (flat x)))]
  | aff m x => [aff m (build (sort (flat x)))]

/-- canonical form: equal canonical forms ⇒ equal values -/
def canon (e : E) : List E := sort (flat e)

end E

/-- symbolic vector-register value (`w` = number of described bytes) -/
inductive VSym where
  | unk
  | byte0 (c : Nat)
  | mask (w : Nat)
  | tab (w t off : Nat)       -- byte k = table `t` at `off + k % 16`
  | mat (w m : Nat)           -- byte k = byte `k % 8` of the 64-bit frame argument at offset `m`
  | e (w : Nat) (x : E)
  | srl (w : Nat) (x : E)
  | lo (w : Nat) (x : E)
  | hi (w : Nat) (x : E)
deriving DecidableEq, Repr

/-- meaning of a frame slot -/
inductive FArg where
  | ptr (b : SBase)
  | len
  | dist
  | imm
deriving DecidableEq, Repr

/-- kernel descriptor -/
structure KD where
  B : Nat
  w : Nat
  frame : Nat → Option FArg
  tabSize : Nat → Nat
  rows : Nat
  spec : Nat → Nat → E
  written : Nat → Bool
  /-- the length is a positive multiple of `B` (kernels without early exit / byte counters) -/
  exact : Bool
  /-- the length is read from the slice header of row 0 -/
  hdrLen : Bool
  /-- the rows are known to be 16-byte aligned (only inside the aligned loop of `galMulSSSE3*`) -/
  aligned : Bool := false

structure SymState where
  gp : Reg → GSym
  vec : Nat → VSym
  stores : List (Nat × Nat)

def SymState.setGp (σ : SymState) (r : Reg) (g : GSym) : SymState :=
  { σ with gp := fun k => if k = r then g else σ.gp k }

def SymState.setVec (σ : SymState) (v : Nat) (x : VSym) : SymState :=
  { σ with vec := fun k => if k = v then x else σ.vec k }

def symAddr (σ : SymState) : Mem → Option (SBase × Nat × Nat × Nat)
  | .bd disp base =>
    match σ.gp base with
    | .lin (some r) s t c => some (r, s, t, c + disp)
    | _ => none
  | .bi base idx =>
    match σ.gp base, σ.gp idx with
    | .lin (some r) s t c, .lin none s' t' c' => some (r, s + s', t + t', c + c')
    | _, _ => none

/-- a `w`-byte data access: a table at a constant offset, or (inside the loop only) a chunk of the
current block of a row -/
def symData (kd : KD) (loop : Bool) (σ : SymState) (m : Mem) (w : Nat) : Option (SBase × Nat) :=
  match symAddr σ m with
  | none => none
  | some (b, s, t, c) =>
    match b with
    | .tab k => if s = 0 ∧ t = 0 ∧ c + w ≤ kd.tabSize k ∧ kd.tabSize k < M64 then some (b, c) else none
    | .row k =>
      if loop = true ∧ s = 0 ∧ t = 1 ∧ k < kd.rows ∧ c + w ≤ kd.B ∧ w = kd.w ∧ c % kd.w = 0 then some (b, c) else none
    | .hdr => none

/-- restriction of a described value to its first 16 bytes (legacy SSE moves) -/
def low16 : VSym → Option VSym
  | .byte0 c => some (.byte0 c)
  | .mask w => if w = 16 then some (.mask 16) else none
  | .tab w t off => if w = 16 then some (.tab 16 t off) else none
  | .e w x => if w = 16 then some (.e 16 x) else none
  | .srl w x => if w = 16 then some (.srl 16 x) else none
  | .lo w x => if w = 16 then some (.lo 16 x) else none
  | .hi w x => if w = 16 then some (.hi 16 x) else none
  | _ => none

def VSym.width : VSym → Nat
  | .unk => 0 | .byte0 _ => 1 | .mask w => w | .tab w _ _ => w | .mat w _ => w
  | .e w _ => w | .srl w _ => w | .lo w _ => w | .hi w _ => w

/-- `AND` of two described values -/
def symAnd (a b : VSym) : Option VSym :=
  match a, b with
  | .mask w, .e w' x => if w = w' then some (.lo w x) else none
  | .e w' x, .mask w => if w = w' then some (.lo w x) else none
  | .mask w, .srl w' x => if w = w' then some (.hi w x) else none
  | .srl w' x, .mask w => if w = w' then some (.hi w x) else none
  | _, _ => none

/-- `PSHUFB` of a table by an index -/
def symShuf (tab idx : VSym) : Option VSym :=
  match tab, idx with
  | .tab w t off, .lo w' x => if w = w' then some (.e w (.look t off false x)) else none
  | .tab w t off, .hi w' x => if w = w' then some (.e w (.look t off true x)) else none
  | .byte0 c, .e w .zero => if c = 15 ∧ w = 16 then some (.mask 16) else none
  | _, _ => none

/-- symbolic execution of one straight-line instruction; `none` = rejected -/
def symStep (kd : KD) (loop : Bool) (i : Instr) (σ : SymState) : Option SymState :=
  match i with
  | .movqFP off d =>
    match kd.frame off with
    | some (.ptr b) => some (σ.setGp d (.lin (some b) 0 0 0))
    | some .len => some (σ.setGp d .nRaw)
    | some .dist => some (σ.setGp d (.lin none 1 0 0))
    | _ => none
  | .movqLoad m d =>
    match symAddr σ m with
    | some (.hdr, s, t, c) =>
      if t = 0 ∧ c = 0 ∧ s < kd.rows then some (σ.setGp d (.lin (some (.row s)) 0 0 0))
      else if t = 0 ∧ c = 8 ∧ s = 0 ∧ kd.hdrLen = true ∧ 0 < kd.rows then some (σ.setGp d .nRaw)
      else none
    | _ => none
  | .movqImm imm d => some (σ.setGp d (.lin none 0 0 imm))
  | .movqToX src x =>
    match σ.gp src with
    | .lin none s t c => if s = 0 ∧ t = 0 ∧ c < 256 then some (σ.setVec x (.byte0 c)) else none
    | _ => none
  | .addqImm imm d =>
    match σ.gp d with
    | .lin b s t c => some (σ.setGp d (.lin b s t (c + imm)))
    | _ => none
  | .addqReg src d =>
    match σ.gp src, σ.gp d with
    | .lin none s t c, .lin b s' t' c' => some (σ.setGp d (.lin b (s' + s) (t' + t) (c' + c)))
    | .lin (some r) s t c, .lin none s' t' c' => some (σ.setGp d (.lin (some r) (s' + s) (t' + t) (c' + c)))
    | _, _ => none
  | .xorqRR src d => if src = d then some (σ.setGp d (.lin none 0 0 0)) else none
  | .movqRR src d => some (σ.setGp d (σ.gp src))
  | .andqImm imm d =>
    match σ.gp d with
    | .lin (some (.row k)) s t c => if imm = 15 ∧ s = 0 ∧ t = 0 ∧ c = 0 then some (σ.setGp d (.algn k)) else none
    | _ => none
  | .shrqImm imm d =>
    match σ.gp d with
    | .nRaw => if 0 < imm ∧ imm < 64 ∧ 2 ^ imm = kd.B then some (σ.setGp d .cnt) else none
    | _ => none
  | .vload m d =>
    match symData kd loop σ m d.w.bytes with
    | some (.row k, c) => if (k, c) ∉ σ.stores then some (σ.setVec d.idx (.e d.w.bytes (.old k c))) else none
    | _ => none
  | .sseLoad al m x =>
    match symData kd loop σ m 16 with
    | some (.row k, c) =>
      if (al = false ∨ (kd.aligned = true ∧ kd.B % 16 = 0)) ∧ (k, c) ∉ σ.stores then
        some (σ.setVec x (.e 16 (.old k c))) else none
    | some (.tab t, c) => if al = false then some (σ.setVec x (.tab 16 t c)) else none
    | _ => none
  | .vstore src m =>
    match symData kd loop σ m src.w.bytes, σ.vec src.idx with
    | some (.row k, c), .e w x =>
      if w = src.w.bytes ∧ kd.written k = true ∧ x.canon = (kd.spec k c).canon ∧ (k, c) ∉ σ.stores then
        some { σ with stores := (k, c) :: σ.stores } else none
    | _, _ => none
  | .sseStore al x m =>
    match symData kd loop σ m 16, σ.vec x with
    | some (.row k, c), .e w y =>
      if (al = false ∨ (kd.aligned = true ∧ kd.B % 16 = 0)) ∧ w = 16 ∧ kd.written k = true ∧
          y.canon = (kd.spec k c).canon ∧ (k, c) ∉ σ.stores then
        some { σ with stores := (k, c) :: σ.stores } else none
    | _, _ => none
  | .vbcast16 m d =>
    match symData kd loop σ m 16 with
    | some (.tab t, c) => some (σ.setVec d.idx (.tab d.w.bytes t c))
    | _ => none
  | .vbcast8FP off d =>
    match kd.frame off with
    | some .imm => some (σ.setVec d.idx (.mat d.w.bytes off))
    | _ => none
  | .vmovRR src d =>
    if (σ.vec src.idx).width ≤ d.w.bytes then some (σ.setVec d.idx (σ.vec src.idx)) else none
  | .sseMov src d =>
    match low16 (σ.vec src) with
    | some v => some (σ.setVec d v)
    | none => none
  | .vpshufb idx tab d =>
    match symShuf (σ.vec tab.idx) (σ.vec idx.idx) with
    | some v => if v.width = d.w.bytes then some (σ.setVec d.idx v) else none
    | none => none
  | .ssePshufb idx d =>
    match symShuf (σ.vec d) (σ.vec idx) with
    | some v => if v.width = 16 then some (σ.setVec d v) else none
    | none => none
  | .vxor a b d =>
    match σ.vec a.idx, σ.vec b.idx with
    | .e w x, .e w' y => if w = d.w.bytes ∧ w' = d.w.bytes then some (σ.setVec d.idx (.e w (.xor y x))) else none
    | _, _ => none
  | .ssePxor src d =>
    if src = d then some (σ.setVec d (.e 16 .zero)) else
    match σ.vec src, σ.vec d with
    | .e w x, .e w' y => if w = 16 ∧ w' = 16 then some (σ.setVec d (.e 16 (.xor y x))) else none
    | _, _ => none
  | .vternlog imm a b d =>
    match σ.vec a.idx, σ.vec b.idx, σ.vec d.idx with
    | .e w x, .e w' y, .e w'' z =>
      if imm = 0x96 ∧ w = d.w.bytes ∧ w' = d.w.bytes ∧ w'' = d.w.bytes then
        some (σ.setVec d.idx (.e w (.xor (.xor z y) x))) else none
    | _, _, _ => none
  | .vpand a b d =>
    match symAnd (σ.vec a.idx) (σ.vec b.idx) with
    | some v => if v.width = d.w.bytes then some (σ.setVec d.idx v) else none
    | none => none
  | .ssePand src d =>
    match symAnd (σ.vec src) (σ.vec d) with
    | some v => if v.width = 16 then some (σ.setVec d v) else none
    | none => none
  | .vpsrlq imm src d =>
    match σ.vec src.idx with
    | .e w x => if imm = 4 ∧ w = d.w.bytes then some (σ.setVec d.idx (.srl w x)) else none
    | _ => none
  | .ssePsrlq imm d =>
    match σ.vec d with
    | .e w x => if imm = 4 ∧ w = 16 then some (σ.setVec d (.srl 16 x)) else none
    | _ => none
  | .vpbroadcastb src d =>
    match σ.vec src.idx with
    | .byte0 c => if c = 15 then some (σ.setVec d.idx (.mask d.w.bytes)) else none
    | _ => none
  | .vinserti128 imm x y d =>
    match σ.vec x.idx, σ.vec y.idx with
    | .tab w t off, .tab w' t' off' =>
      if imm = 1 ∧ d.w = .y ∧ w = 16 ∧ w' = 16 ∧ t = t' ∧ off = off' then some (σ.setVec d.idx (.tab 32 t off)) else none
    | _, _ => none
  | .affine imm mat src d =>
    match σ.vec mat.idx, σ.vec src.idx with
    | .mat w m, .e w' x =>
      if imm = 0 ∧ w = d.w.bytes ∧ w' = d.w.bytes then some (σ.setVec d.idx (.e w (.aff m x))) else none
    | _, _ => none
  | _ => none

def symRun (kd : KD) (loop : Bool) : List Instr → SymState → Option SymState
  | [], σ => some σ
  | i :: is, σ =>
    match symStep kd loop i σ with
    | some σ' => symRun kd loop is σ'
    | none => none

/-! ## program shape -/

/-- early exit in front of the loop -/
inductive Guard where
  | none
  | testq (r : Reg) (lEnd : Nat)            -- TESTQ r, r ; JZ end
  | shrq (imm : Nat) (r : Reg) (lEnd : Nat) -- SHRQ $imm, r ; JZ end
deriving DecidableEq, Repr

def Guard.instrs : Guard → List Instr
  | .none => []
  | .testq r l => [.testq r r, .jz l]
  | .shrq imm r l => [.shrqImm imm r, .jz l]

def Guard.lEnd : Guard → Option Nat
  | .none => Option.none
  | .testq _ l => some l
  | .shrq _ _ l => some l

structure Shape where
  pre1 : List Instr
  guard : Guard
  pre2 : List Instr
  lLoop : Nat
  body : List Instr
  /-- `DECQ rc` (`dec = 0`) or `SUBQ $dec, rc` -/
  dec : Nat
  rc : Reg
  /-- `JA` instead of `JNZ` -/
  ja : Bool
  /-- `VZEROUPPER`s before the end label -/
  epiA : List Instr
  lEnd : Option Nat
  epiB : List Instr

def Shape.decInstr (sh : Shape) : Instr := if sh.dec = 0 then .decq sh.rc else .subqImm sh.dec sh.rc
def Shape.jccInstr (sh : Shape) : Instr := if sh.ja then .ja sh.lLoop else .jnz sh.lLoop
def Shape.endInstrs (sh : Shape) : List Instr :=
  match sh.lEnd with
  | some l => [.label l]
  | none => []

def Shape.assemble (sh : Shape) : Program :=
  sh.pre1 ++ (sh.guard.instrs ++ (sh.pre2 ++ (.label sh.lLoop :: (sh.body ++
    (sh.decInstr :: sh.jccInstr :: (sh.epiA ++ (sh.endInstrs ++ (sh.epiB ++ [.ret]))))))))

def isLabel : Instr → Bool
  | .label _ => true
  | _ => false
def isCtl : Instr → Bool
  | .testq _ _ | .jz _ | .label _ => true
  | _ => false
def isDec : Instr → Bool
  | .decq _ | .subqImm _ _ => true
  | _ => false
def isVz : Instr → Bool
  | .vzeroupper => true
  | _ => false

/-- candidate decomposition (verified afterwards by `assemble sh = prog`) -/
def splitKernel (prog : Program) : Option Shape :=
  let pre := prog.takeWhile (fun i => !isCtl i)
  let rest := prog.dropWhile (fun i => !isCtl i)
  -- guard
  let (pre1, guard, rest) : List Instr × Guard × List Instr :=
    match rest with
    | .testq r _ :: .jz l :: rest' => (pre, .testq r l, rest')
    | .jz l :: rest' =>
      match pre.reverse with
      | .shrqImm imm r :: pr => (pr.reverse, .shrq imm r l, rest')
      | _ => (pre, .none, rest)
    | _ => (pre, .none, rest)
  let pre2 := rest.takeWhile (fun i => !isLabel i)
  match rest.dropWhile (fun i => !isLabel i) with
  | .label lLoop :: rest2 =>
    let body := rest2.takeWhile (fun i => !isDec i)
    match rest2.dropWhile (fun i => !isDec i) with
    | dec :: jcc :: rest3 =>
      let (d, rc) : Nat × Reg := match dec with
        | .subqImm k r => (k, r)
        | .decq r => (0, r)
        | _ => (0, 0)
      let ja : Bool := match jcc with
        | .ja _ => true
        | _ => false
      let epiA := rest3.takeWhile isVz
      match rest3.dropWhile isVz with
      | .label l :: rest4 => some ⟨pre1, guard, pre2, lLoop, body, d, rc, ja, epiA, some l, rest4.takeWhile isVz⟩
      | _ => some ⟨pre1, guard, pre2, lLoop, body, d, rc, ja, epiA, none, []⟩
    | _ => none
  | _ => none

/-! ## loop head -/

def gShift (B : Nat) : GSym → GSym
  | .ctr sc d => .ctr sc (d + 1)
  | .lin b s t c => .lin b s t (c + t * B)
  | g => g

def vInv : VSym → Bool
  | .unk | .byte0 _ | .mask _ | .tab _ _ _ | .mat _ _ => true
  | _ => false

def gpWrite : Instr → Option Reg
  | .movqFrame _ d | .movqLoad _ d | .movqImm _ d | .addqImm _ d | .addqReg _ d | .shrqImm _ d | .decq d
  | .movqFP _ d | .movqRR _ d | .xorqRR _ d | .orqRR _ d | .andqImm _ d | .subqImm _ d => some d
  | _ => none

def vecWrite : Instr → Option Nat
  | .movqToX _ x | .sseLoad _ _ x | .sseMov _ x | .ssePxor _ x | .ssePand _ x | .ssePshufb _ x | .ssePsrlq _ x => some x
  | .vload _ d | .vpshufb _ _ d | .vxor _ _ d | .vpand _ _ d | .vpsrlq _ _ d | .vpbroadcastb _ d
  | .vbcast8 _ d | .affine _ _ _ d | .affineBcst _ _ _ d | .vbcast16 _ d | .vbcast8FP _ d | .vmovRR _ d
  | .vternlog _ _ _ d | .vinserti128 _ _ _ d => some d.idx
  | _ => none

/-- scale of the loop counter: 1 = blocks, `B` = bytes -/
def Shape.scale (sh : Shape) : Nat := if sh.dec = 0 then 1 else sh.dec

/-- heuristic loop-head state (everything it claims is checked by `initOK` and `stepOK`) -/
def guessHead (kd : KD) (sh : Shape) (σ0 : SymState) : SymState where
  gp := fun r =>
    if 16 ≤ r then .unk
    else if r = sh.rc then .ctr sh.scale 0
    else
      let untouched := sh.body.all fun i => decide (gpWrite i ≠ some r)
      let advanced := sh.body.all fun i => decide (gpWrite i = some r → i = .addqImm kd.B r)
      match σ0.gp r with
      | .lin b s _ c => if untouched then .lin b s 0 c else if advanced then .lin b s 1 c else .unk
      | g => if untouched then g else .unk
  vec := fun v =>
    if 32 ≤ v then .unk
    else if vInv (σ0.vec v) && sh.body.all (fun i => decide (vecWrite i ≠ some v)) then σ0.vec v else .unk
  stores := []

/-- the prologue result is an instance (`it = 0`) of the loop-head state -/
def gInit (kd : KD) (g h : GSym) : Bool :=
  match h, g with
  | .unk, _ => true
  | .ctr sc 0, .cnt => sc = 1
  | .ctr sc 0, .nRaw => sc = kd.B ∧ kd.exact = true
  | .lin b s _ c, .lin b' s' _ c' => b = b' ∧ s = s' ∧ c = c'
  | .nRaw, .nRaw => true
  | .cnt, .cnt => true
  | .algn k, .algn k' => k = k'
  | _, _ => false

def initOK (kd : KD) (σ0 H : SymState) : Bool :=
  (List.range 16).all (fun r => gInit kd (σ0.gp r) (H.gp r)) &&
  (List.range 32).all (fun v => H.vec v = .unk || (vInv (H.vec v) && σ0.vec v = H.vec v))

def stepOK (kd : KD) (H σe : SymState) : Bool :=
  (List.range 16).all (fun r => H.gp r = .unk || σe.gp r = gShift kd.B (H.gp r)) &&
  (List.range 32).all (fun v => H.vec v = .unk || (vInv (H.vec v) && σe.vec v = H.vec v))

/-- every chunk of every written row was stored (exactly once, by the count) -/
def covers (kd : KD) (stores : List (Nat × Nat)) : Bool :=
  kd.w * (kd.B / kd.w) = kd.B && 0 < kd.w &&
  stores.length = ((List.range kd.rows).filter kd.written).length * (kd.B / kd.w) &&
  (List.range kd.rows).all fun k => !kd.written k ||
    (List.range (kd.B / kd.w)).all fun b => stores.contains (k, b * kd.w)

def initSym : SymState := ⟨fun _ => .unk, fun _ => .unk, []⟩

def clamp (σ : SymState) : SymState where
  gp := fun r => if r < 16 then σ.gp r else .unk
  vec := fun v => if v < 32 then σ.vec v else .unk
  stores := σ.stores

def allVz (l : List Instr) : Bool := l.all fun i => i = .vzeroupper

/-- shape conditions that do not involve symbolic execution -/
def shapeOK (kd : KD) (sh : Shape) : Bool :=
  allVz sh.epiA && allVz sh.epiB &&
  -- the early exit jumps to the end label, which differs from the loop label
  (match sh.guard.lEnd with
    | some l => sh.lEnd = some l && l ≠ sh.lLoop
    | none => kd.exact) &&
  (match sh.lEnd with
    | some l => l ≠ sh.lLoop
    | none => true) &&
  -- counter: DECQ/SUBQ $1 count blocks, SUBQ $B counts bytes (exact kernels only); JA needs SUBQ
  (sh.scale = 1 || (sh.scale = kd.B && kd.exact)) &&
  (!sh.ja || sh.dec ≠ 0) && sh.dec < M64 && 0 < kd.B

def checkLoop (kd : KD) (sh : Shape) (σ0 H : SymState) : Bool :=
  H.stores = [] && σ0.stores = [] && initOK kd σ0 H &&
  match symRun kd true sh.body H with
  | none => false
  | some σb =>
    σb.gp sh.rc = .ctr sh.scale 0 && stepOK kd H (σb.setGp sh.rc (.ctr sh.scale 1)) && covers kd σb.stores

/-- symbolic effect of the guard on the tested register -/
def guardOK (kd : KD) (g : Guard) (σ : SymState) : Option SymState :=
  match g with
  | .none => some σ
  | .testq r _ => if σ.gp r = .cnt then some σ else none
  | .shrq imm r _ =>
    if σ.gp r = .nRaw ∧ 0 < imm ∧ imm < 64 ∧ 2 ^ imm = kd.B then some (σ.setGp r .cnt) else none

/-- the checker -/
def checkKernel (prog : Program) (kd : KD) : Bool :=
  match splitKernel prog with
  | none => false
  | some sh =>
    sh.assemble = prog && shapeOK kd sh &&
    match symRun kd false sh.pre1 initSym with
    | none => false
    | some σ1 =>
      σ1.stores = [] &&
      match guardOK kd sh.guard σ1 with
      | none => false
      | some σ1' =>
        match symRun kd false sh.pre2 σ1' with
        | none => false
        | some σ0 => checkLoop kd sh σ0 (clamp (guessHead kd sh σ0))

end RSV.Asm.Leo
