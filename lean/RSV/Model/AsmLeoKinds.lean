import RSV.Model.AsmLeoCheck
import RSV.Model.AsmLeoTwo
/-!
# L1: kernel descriptors of the remaining amd64 kernels and the line protocol (core Lean only)

The butterflies are written once over an abstract algebra `Alg α` (`xor`, `mul i` for the three
multipliers `m01`, `m23`, `m02`), following `fftDIT4Ref8`/`ifftDIT4Ref8`, `fftDIT4Ref`/`ifftDIT4Ref`,
`fftDIT2`/`ifftDIT2` of `leopard8.go`/`leopard.go`; instantiating `α` with expressions gives the
expected stored expression of every chunk (`KD.spec`), instantiating it with bytes (GF(2^8)) or
byte pairs (GF(2^16)) gives the meaning used in the soundness theorems.
-/
namespace RSV.Asm.Leo
open RSV.Asm

structure Alg (α : Type) where
  xor : α → α → α
  mul : Nat → α → α

/-- forward butterfly `x' = x ⊕ m·y ; y' = y ⊕ x'`; with the skip sentinel only `y' = y ⊕ x` -/
def fft2 {α : Type} (A : Alg α) (skip : Bool) (m : Nat) (x y : α) : α × α :=
  if skip then (x, A.xor y x) else (A.xor x (A.mul m y), A.xor y (A.xor x (A.mul m y)))

/-- inverse butterfly `y' = y ⊕ x ; x' = x ⊕ m·y'`; with the skip sentinel only `y' = y ⊕ x` -/
def ifft2 {α : Type} (A : Alg α) (skip : Bool) (m : Nat) (x y : α) : α × α :=
  if skip then (x, A.xor y x) else (A.xor x (A.mul m (A.xor y x)), A.xor y x)

/-- the `_N` suffix of the *inverse* kernels as dispatched by `ifftDIT48`/`ifftDIT4` in `galois_amd64.go`:
bit 0 = `log_m01` is the skip sentinel, bit 1 = `log_m23`, bit 2 = `log_m02` -/
def skip01 (mask : Nat) : Bool := mask % 2 = 1
def skip23 (mask : Nat) : Bool := mask / 2 % 2 = 1
def skip02 (mask : Nat) : Bool := mask / 4 % 2 = 1

/-- the `_N` suffix of the *forward* kernels as dispatched by `fftDIT48`/`fftDIT4`:
bit 0 = `log_m02` is the skip sentinel, bit 1 = `log_m01`, bit 2 = `log_m23` -/
def fskip02 (mask : Nat) : Bool := mask % 2 = 1
def fskip01 (mask : Nat) : Bool := mask / 2 % 2 = 1
def fskip23 (mask : Nat) : Bool := mask / 4 % 2 = 1

/-- `fftDIT4Ref`: layer (0,2),(1,3) with `m02`, then (0,1) with `m01` and (2,3) with `m23` -/
def fft4 {α : Type} (A : Alg α) (mask : Nat) (w0 w1 w2 w3 : α) : α × α × α × α :=
  let a02 := fft2 A (fskip02 mask) 2 w0 w2
  let a13 := fft2 A (fskip02 mask) 2 w1 w3
  let b01 := fft2 A (fskip01 mask) 0 a02.1 a13.1
  let b23 := fft2 A (fskip23 mask) 1 a02.2 a13.2
  (b01.1, b01.2, b23.1, b23.2)

/-- `ifftDIT4Ref`: (0,1) with `m01` and (2,3) with `m23`, then (0,2),(1,3) with `m02` -/
def ifft4 {α : Type} (A : Alg α) (mask : Nat) (w0 w1 w2 w3 : α) : α × α × α × α :=
  let a01 := ifft2 A (skip01 mask) 0 w0 w1
  let a23 := ifft2 A (skip23 mask) 1 w2 w3
  let b02 := ifft2 A (skip02 mask) 2 a01.1 a23.1
  let b13 := ifft2 A (skip02 mask) 2 a01.2 a23.2
  (b02.1, b13.1, b02.2, b13.2)

def sel4 {α : Type} (k : Nat) (t : α × α × α × α) : α :=
  match k with
  | 0 => t.1
  | 1 => t.2.1
  | 2 => t.2.2.1
  | _ => t.2.2.2

def sel2 {α : Type} (k : Nat) (t : α × α) : α :=
  match k with
  | 0 => t.1
  | _ => t.2

/-! ## expression algebras -/

/-- GF(2^8), nibble tables: table `i`, low-nibble table at 0, high-nibble table at 16 -/
def algE8 : Alg E where
  xor := E.xor
  mul := fun i x => .xor (.look i 0 false x) (.look i 16 true x)

/-- GF(2^8), GFNI: the matrix is the 64-bit argument in frame slot `32 + 8·i` -/
def algE8gfni : Alg E where
  xor := E.xor
  mul := fun i x => .aff (32 + 8 * i) x

/-- one result byte of a GF(2^16) product: four nibble look-ups starting at table offset `base` -/
def look16 (t base : Nat) (lo hi : E) : E :=
  .xor (.xor (.xor (.look t base false lo) (.look t (base + 16) true lo)) (.look t (base + 32) false hi))
    (.look t (base + 48) true hi)

/-- GF(2^16): a symbol is (low byte, high byte); table `i` has 4×16 bytes for the low result byte
followed by 4×16 bytes for the high result byte -/
def algE16 : Alg (E × E) where
  xor := fun a b => (.xor a.1 b.1, .xor a.2 b.2)
  mul := fun i x => (look16 i 0 x.1 x.2, look16 i 64 x.1 x.2)

/-! ## descriptors -/

inductive Kind where
  | xor | galmul | dit28 | dit48 | dit2 | dit4 | mulgf16
deriving DecidableEq, Repr

inductive Isa where
  | sse2 | ssse3 | avx2 | avx512 | gfni
deriving DecidableEq, Repr

def Isa.w : Isa → Nat
  | .sse2 | .ssse3 => 16
  | .avx2 | .avx512 => 32
  | .gfni => 64

def frame2 : Nat → Option FArg          -- (x []byte, y []byte, table *[…]uint8)
  | 0 => some (.ptr (.row 0))
  | 8 => some .len
  | 24 => some (.ptr (.row 1))
  | 48 => some (.ptr (.tab 0))
  | _ => none

def frame4 (gfni : Bool) : Nat → Option FArg   -- (work [][]byte, dist int, t01, t23, t02)
  | 0 => some (.ptr .hdr)
  | 24 => some .dist
  | 32 => some (if gfni then .imm else .ptr (.tab 0))
  | 40 => some (if gfni then .imm else .ptr (.tab 1))
  | 48 => some (if gfni then .imm else .ptr (.tab 2))
  | _ => none

def frameXor : Nat → Option FArg        -- (in []byte, out []byte)
  | 0 => some (.ptr (.row 1))
  | 8 => some .len
  | 24 => some (.ptr (.row 0))
  | _ => none

def frameGalMul : Nat → Option FArg     -- (low, high, in, out []byte)
  | 0 => some (.ptr (.tab 0))
  | 24 => some (.ptr (.tab 1))
  | 48 => some (.ptr (.row 1))
  | 56 => some .len
  | 72 => some (.ptr (.row 0))
  | _ => none

/-- GF(2^16) chunk: low bytes at `o % 32`, high bytes 32 further; the chunk is a low-byte chunk iff `o < 32` -/
def pair16 (k o : Nat) : E × E := (.old k (o % 32), .old k (o % 32 + 32))
def half16 (o : Nat) (p : E × E) : E := if o < 32 then p.1 else p.2

def kdXor (isa : Isa) (num : Nat) : KD :=
  { B := num, w := isa.w, frame := frameXor, tabSize := fun _ => 0, rows := 2,
    spec := fun _ o => .xor (.old 0 o) (.old 1 o), written := fun k => k = 0,
    exact := false, hdrLen := false }

def kdGalMul (isa : Isa) (flag : Bool) (num : Nat) : KD :=
  { B := num, w := isa.w, frame := frameGalMul, tabSize := fun _ => 16, rows := 2,
    spec := fun _ o =>
      if flag then .xor (.old 0 o) (.xor (.look 0 0 false (.old 1 o)) (.look 1 0 true (.old 1 o)))
      else .xor (.look 0 0 false (.old 1 o)) (.look 1 0 true (.old 1 o)),
    written := fun k => k = 0, exact := false, hdrLen := false }

def kdDit28 (flag : Bool) : KD :=
  { B := 64, w := 32, frame := frame2, tabSize := fun _ => 32, rows := 2,
    spec := fun k o => sel2 k ((if flag then ifft2 else fft2) algE8 false 0 (.old 0 o) (.old 1 o)),
    written := fun _ => true, exact := true, hdrLen := false }

def kdDit48 (isa : Isa) (flag : Bool) (num : Nat) : KD :=
  { B := 64, w := isa.w, frame := frame4 (isa = .gfni), tabSize := fun _ => 32, rows := 4,
    spec := fun k o => sel4 k ((if flag then ifft4 else fft4) (if isa = .gfni then algE8gfni else algE8) num
      (.old 0 o) (.old 1 o) (.old 2 o) (.old 3 o)),
    written := fun _ => true, exact := true, hdrLen := true }

def kdDit2 (isa : Isa) (flag : Bool) : KD :=
  { B := 64, w := isa.w, frame := frame2, tabSize := fun _ => 128, rows := 2,
    spec := fun k o => half16 o (sel2 k ((if flag then ifft2 else fft2) algE16 false 0 (pair16 0 o) (pair16 1 o))),
    written := fun _ => true, exact := true, hdrLen := false }

def kdDit4 (flag : Bool) (num : Nat) : KD :=
  { B := 64, w := 32, frame := frame4 false, tabSize := fun _ => 128, rows := 4,
    spec := fun k o => half16 o (sel4 k ((if flag then ifft4 else fft4) algE16 num
      (pair16 0 o) (pair16 1 o) (pair16 2 o) (pair16 3 o))),
    written := fun _ => true, exact := true, hdrLen := true }

def kdMul16 (isa : Isa) : KD :=
  { B := 64, w := isa.w, frame := frame2, tabSize := fun _ => 128, rows := 2,
    spec := fun _ o => half16 o (algE16.mul 0 (pair16 1 o)),
    written := fun k => k = 0, exact := true, hdrLen := false }

def mkKD (kind : Kind) (isa : Isa) (flag : Bool) (num : Nat) : Option KD :=
  match kind with
  | .xor => if (isa = .sse2 ∧ (num = 16 ∨ num = 64)) ∨ (isa = .avx2 ∧ num = 64) then some (kdXor isa num) else none
  | .galmul =>
    if (isa = .avx2 ∧ (num = 32 ∨ num = 64)) ∨ (isa = .ssse3 ∧ num = 16) then some (kdGalMul isa flag num) else none
  | .dit28 => if isa = .avx2 then some (kdDit28 flag) else none
  | .dit48 => if (isa = .avx2 ∨ isa = .gfni) ∧ num < 8 then some (kdDit48 isa flag num) else none
  | .dit2 => if isa = .avx2 ∨ isa = .ssse3 then some (kdDit2 isa flag) else none
  | .dit4 => if (isa = .avx2 ∨ isa = .avx512) ∧ num < 8 then some (kdDit4 flag num) else none
  | .mulgf16 => if isa = .avx2 ∨ isa = .ssse3 then some (kdMul16 isa) else none

/-! ## line protocol -/

namespace Parse
open RSV.Asm.Parse

def kindTable : List (List Char × Kind) := [
  (['x','o','r'], .xor), (['g','a','l','m','u','l'], .galmul), (['d','i','t','2','8'], .dit28),
  (['d','i','t','4','8'], .dit48), (['d','i','t','2'], .dit2), (['d','i','t','4'], .dit4),
  (['m','u','l','g','f','1','6'], .mulgf16)]

def isaTable : List (List Char × Isa) := [
  (['s','s','e','2'], .sse2), (['s','s','s','e','3'], .ssse3), (['a','v','x','2'], .avx2),
  (['a','v','x','5','1','2'], .avx512), (['g','f','n','i'], .gfni)]

def isaName : Isa → List Char
  | .sse2 => ['s','s','e','2'] | .ssse3 => ['s','s','s','e','3'] | .avx2 => ['a','v','x','2']
  | .avx512 => ['a','v','x','5','1','2'] | .gfni => ['g','f','n','i']

def natChars (n : Nat) : List Char := Nat.toDigits 10 n

/-- the Go symbol a kernel with these parameters must have -/
def kernelName (kind : Kind) (isa : Isa) (flag : Bool) (num : Nat) : List Char :=
  let i : List Char := if flag then ['i'] else []
  match kind with
  | .xor =>
    (if isa = .sse2 then ['s','S','E','2'] else ['a','v','x','2']) ++ ['X','o','r','S','l','i','c','e'] ++
      (if num = 64 then ['_','6','4'] else [])
  | .galmul =>
    ['g','a','l','M','u','l'] ++ (if isa = .avx2 then ['A','V','X','2'] else ['S','S','S','E','3']) ++
      (if flag then ['X','o','r'] else []) ++ (if num = 64 then ['_','6','4'] else [])
  | .dit28 => i ++ ['f','f','t','D','I','T','2','8','_'] ++ isaName isa
  | .dit48 => i ++ ['f','f','t','D','I','T','4','8','_'] ++ isaName isa ++ ['_'] ++ natChars num
  | .dit2 => i ++ ['f','f','t','D','I','T','2','_'] ++ isaName isa
  | .dit4 => i ++ ['f','f','t','D','I','T','4','_'] ++ isaName isa ++ ['_'] ++ natChars num
  | .mulgf16 => ['m','u','l','g','f','1','6','_'] ++ isaName isa

/-- header `name kind isa flag num` -/
def header? (h : List Char) : Option (List Char × Kind × Isa × Bool × Nat) :=
  match splitOn ' ' (trim h) with
  | [name, k, i, f, n] =>
    match lookup k kindTable, lookup i isaTable, dec? f, dec? n with
    | some kind, some isa, some fv, some nv => if fv ≤ 1 then some (name, kind, isa, fv == 1, nv) else none
    | _, _, _, _ => none
  | _ => none

end Parse

/-- check one canonical line (as characters) of the remaining kernels -/
def checkChars (l : List Char) : Bool :=
  match RSV.Asm.Parse.splitOn '|' l with
  | [h, b] =>
    match Parse.header? h, RSV.Asm.Parse.body? b with
    | some (name, kind, isa, flag, num), some prog =>
      match mkKD kind isa flag num with
      | some kd => name = Parse.kernelName kind isa flag num && (checkKernel prog kd || checkKernel2 prog kd)
      | none => false
    | _, _ => false
  | _ => false

/-! ## diagnostics (not part of the soundness statement) -/

def symRunDiag (kd : KD) (loop : Bool) : List Instr → SymState → Nat → Except Nat SymState
  | [], σ, _ => .ok σ
  | i :: is, σ, k =>
    match symStep kd loop i σ with
    | some σ' => symRunDiag kd loop is σ' (k + 1)
    | none => .error k

def diagnose (prog : Program) (kd : KD) : String :=
  match splitKernel prog with
  | none => "shape: no loop label / counter decrement"
  | some sh =>
    if sh.assemble ≠ prog then "shape: program is not prologue/[guard]/prologue/loop/body/dec/jcc/epilogue/RET"
    else if !shapeOK kd sh then "shape: guard, end label, counter scale or epilogue not admissible for this kernel kind"
    else match symRunDiag kd false sh.pre1 initSym 0 with
    | .error k => s!"prologue instruction {k} rejected"
    | .ok σ1 =>
      match guardOK kd sh.guard σ1 with
      | none => "early exit does not test N >> log2(block)"
      | some σ1' =>
        match symRunDiag kd false sh.pre2 σ1' (sh.pre1.length + sh.guard.instrs.length) with
        | .error k => s!"prologue instruction {k} rejected"
        | .ok σ0 =>
          let H := clamp (guessHead kd sh σ0)
          if !initOK kd σ0 H then "loop head does not generalise the prologue state"
          else match symRunDiag kd true sh.body H (sh.pre1.length + sh.guard.instrs.length + sh.pre2.length + 1) with
          | .error k => s!"loop instruction {k} rejected"
          | .ok σb =>
            if σb.gp sh.rc ≠ .ctr sh.scale 0 then "decremented register is not the loop counter"
            else if !stepOK kd H (σb.setGp sh.rc (.ctr sh.scale 1)) then "a live register is not advanced by one block per iteration"
            else if !covers kd σb.stores then "not every chunk of every written row is stored exactly once"
            else "unknown"

def diagLoop (kd : KD) (body : List Instr) (rc : Reg) (σ : SymState) (which : String) : Option String :=
  let sh := loopShape body rc
  let H := clamp (guessHead kd sh σ)
  if !initOK kd σ H then some (which ++ ": loop head does not generalise the prologue state")
  else match symRunDiag kd true body H 0 with
  | .error k => some s!"{which}: loop instruction {k} rejected"
  | .ok σb =>
    if σb.gp rc ≠ .ctr 1 0 then some (which ++ ": decremented register is not the loop counter")
    else if !stepOK kd H (σb.setGp rc (.ctr 1 1)) then some (which ++ ": a live register is not advanced by one block per iteration")
    else if !covers kd σb.stores then some (which ++ ": not every chunk of every written row is stored exactly once")
    else none

/-- diagnosis for the two-loop shape -/
def diagnose2 (prog : Program) (kd : KD) (sh : Shape2) : String :=
  if sh.assemble ≠ prog then "shape: program is not the two-loop skeleton of galMulSSSE3"
  else match symRunDiag kd false sh.pre1 initSym 0 with
  | .error k => s!"prologue instruction {k} rejected"
  | .ok σ1 =>
    if σ1.gp sh.rc ≠ .cnt then "CMPQ does not test N >> log2(block)"
    else match σ1.gp sh.ra, σ1.gp sh.rb with
    | .algn a, .algn b =>
      if !((a = 0 ∧ b = 1) ∨ (a = 1 ∧ b = 0)) then "the alignment test does not cover both rows"
      else
        let σ2 := σ1.setGp sh.rb .unk
        match diagLoop { kd with aligned := true } sh.body1 sh.rc σ2 "aligned loop" with
        | some r => r
        | none =>
          match diagLoop kd sh.body2 sh.rc σ2 "unaligned loop" with
          | some r => r
          | none => "labels"
    | _, _ => "the alignment test does not test the low four address bits of the rows"

def failReason (l : List Char) : String :=
  match RSV.Asm.Parse.splitOn '|' l with
  | [h, b] =>
    match Parse.header? h, RSV.Asm.Parse.body? b with
    | some (name, kind, isa, flag, num), some prog =>
      match mkKD kind isa flag num with
      | some kd =>
        if name ≠ Parse.kernelName kind isa flag num then "kernel name does not match kind/isa/parameters"
        else match splitKernel2 prog with
          | some sh2 => diagnose2 prog kd sh2
          | none => diagnose prog kd
      | none => "no kernel of this kind/isa/parameters"
    | none, _ => "header"
    | _, none => "parse"
  | _ => "line format"

end RSV.Asm.Leo
