import RSV.Model.AsmLeoCheck
/-!
# L1: the two-loop shape of the hand-written `galMulSSSE3` / `galMulSSSE3Xor` (core Lean only)

```
prologue ; CMPQ c, $0 ; JEQ end ; ORQ a, b ; CMPQ b, $0 ; JNZ unaligned
aligned:   body₁ (MOVOA) ; SUBQ $1, c ; JNZ aligned ; JMP end
unaligned: body₂ (MOVOU) ; SUBQ $1, c ; JNZ unaligned
end:       RET
```
where `a`, `b` hold the low four address bits of the two rows.  Both bodies are checked like the
single loop of `checkKernel`; the first one with the rows known to be 16-byte aligned.
-/
namespace RSV.Asm.Leo
open RSV.Asm

structure Shape2 where
  pre1 : List Instr
  rc : Reg
  lEnd : Nat
  ra : Reg
  rb : Reg
  l2 : Nat
  l1 : Nat
  body1 : List Instr
  body2 : List Instr

def Shape2.mid (sh : Shape2) : List Instr :=
  [.cmpqImm sh.rc 0, .jz sh.lEnd, .orqRR sh.ra sh.rb, .cmpqImm sh.rb 0, .jnz sh.l2]

def Shape2.assemble (sh : Shape2) : Program :=
  sh.pre1 ++ (sh.mid ++ (.label sh.l1 :: (sh.body1 ++ (.subqImm 1 sh.rc :: .jnz sh.l1 :: .jmp sh.lEnd ::
    .label sh.l2 :: (sh.body2 ++ [.subqImm 1 sh.rc, .jnz sh.l2, .label sh.lEnd, .ret])))))

def isCmpq : Instr → Bool
  | .cmpqImm _ _ => true
  | _ => false

/-- candidate decomposition (verified afterwards by `assemble sh = prog`) -/
def splitKernel2 (prog : Program) : Option Shape2 :=
  let pre1 := prog.takeWhile (fun i => !isCmpq i)
  match prog.dropWhile (fun i => !isCmpq i) with
  | .cmpqImm rc _ :: .jz lEnd :: .orqRR ra rb :: .cmpqImm _ _ :: .jnz l2 :: .label l1 :: rest =>
    let body1 := rest.takeWhile (fun i => !isDec i)
    match rest.dropWhile (fun i => !isDec i) with
    | _ :: _ :: _ :: _ :: rest2 =>
      some ⟨pre1, rc, lEnd, ra, rb, l2, l1, body1, rest2.takeWhile (fun i => !isDec i)⟩
    | _ => none
  | _ => none

/-- pseudo single-loop shape of one of the two loops (only `body`, `rc`, `dec` are looked at) -/
def loopShape (body : List Instr) (rc : Reg) : Shape :=
  ⟨[], .none, [], 0, body, 1, rc, false, [], none, []⟩

/-- the checker for the two-loop shape -/
def checkKernel2 (prog : Program) (kd : KD) : Bool :=
  match splitKernel2 prog with
  | none => false
  | some sh =>
    sh.assemble = prog && sh.l1 ≠ sh.l2 && sh.l1 ≠ sh.lEnd && sh.l2 ≠ sh.lEnd && 0 < kd.B && kd.rows = 2 &&
    match symRun kd false sh.pre1 initSym with
    | none => false
    | some σ1 =>
      σ1.stores = [] && σ1.gp sh.rc = .cnt &&
      (match σ1.gp sh.ra, σ1.gp sh.rb with
        | .algn a, .algn b => (a = 0 ∧ b = 1) ∨ (a = 1 ∧ b = 0)
        | _, _ => false) &&
      let σ2 := σ1.setGp sh.rb .unk
      checkLoop { kd with aligned := true } (loopShape sh.body1 sh.rc) σ2
        (clamp (guessHead { kd with aligned := true } (loopShape sh.body1 sh.rc) σ2)) &&
      checkLoop kd (loopShape sh.body2 sh.rc) σ2 (clamp (guessHead kd (loopShape sh.body2 sh.rc) σ2))

end RSV.Asm.Leo
