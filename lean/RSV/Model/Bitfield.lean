/-!
# L0: the error bit field of the Leopard decoders (core Lean only)

After `prepare()`, `isNeeded(mip, bit)` must say whether the aligned block of `2^mip` positions that
contains `bit` holds at least one erasure — that is what lets `errorBitfield.fftDIT` skip butterflies
whose whole block is erasure-free.  `bits` = 8 or 16 (levels ≥ `bits`, and for GF(2^8) level ≤ 0,
answer `true`).  The GF(2^8) cache key is the un-prepared field: bit `i` of a 256-bit little-endian
string is set iff position `i` is erased.
-/
namespace RSV.Model.Bitfield

/-- L0 of `isNeeded` after `prepare` -/
def needed (bits : Nat) (erased : List Nat) (mip bit : Nat) : Bool :=
  if mip ≥ bits then true
  else if mip = 0 then (if bits = 8 then true else erased.contains bit)
  else erased.any fun e => e >>> mip == bit >>> mip

/-- L0 of `cacheID`: byte `k` has bit `j` set iff position `8k+j` is erased -/
def cacheKey (erased : List Nat) : List Nat :=
  (List.range 32).map fun k => (List.range 8).foldl (fun acc j => if erased.contains (8*k + j) then acc ||| (1 <<< j) else acc) 0

/-- the key determines the erasure set (positions below 256) -/
def keyBit (key : List Nat) (i : Nat) : Bool := (key.getD (i / 8) 0).testBit (i % 8)

end RSV.Model.Bitfield
