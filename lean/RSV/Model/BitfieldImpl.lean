/-!
# L1: the error bit fields of the Leopard decoders, as the Go code computes them (core Lean only)

Go sources: `leopard8.go` (`errorBitfield8`: `Words [7][4]uint64`) and `leopard.go` (`errorBitfield`:
`Words [5][1024]uint64`, `BigWords [6][16]uint64`, `BiggestWords [4]uint64`).  A `uint64` is a natural
number below `2^64`; every left shift is followed by `&&& M64` (`shl64`), which is exactly where Go's
`uint64` truncates (right shifts, AND and OR never leave the range).

Mirroring conventions
* `step j w` is one iteration of the Go mip loop with mask `kHiMasks[j]`; the Go loop variable
  `bits` (started at `1`/`2` and doubled every iteration) always equals `1 << j` there.
* the Go loops run column by column (`for i := 0; i < kWords; i++`) and carry `w_i` from one level to
  the next; `w_i` is at every point the word just stored in `Words[j][i]`, so the model builds row
  `j+1` from row `j` (`tab n fun i => step (j+1) (rd row_j i)`).
* `gather` is the Go loop `for _, w := range src { w_i |= (w | (w >> 32) | (w << 32)) & bit; bit <<= 1 }`.
* `prepare` reads only `Words[0]` and overwrites every other word, as in Go.
* `isNeededFn` (the closure form of `isNeeded` used by `fftDIT`) performs the same test (`bit & 63` for
  `bit % 64`), so `BF16.isNeeded` models both.
* out-of-range reads give `0` and out-of-range writes are dropped (Go would panic); `BF16.isNeeded` at
  level `0` (Go: `Words[-1]`, a panic; never called) answers `false`.

The L0 specification is `RSV.Model.Bitfield.needed` / `cacheKey`; the refinement theorems are in
`RSV/Props/C05bitfield.lean`.
-/
namespace RSV.Model.BitfieldImpl

/-- `^uint64(0)` -/
def M64 : Nat := 0xFFFFFFFFFFFFFFFF

/-- `w << s` on `uint64` -/
def shl64 (w s : Nat) : Nat := (w <<< s) &&& M64

/-- `kHiMasks` (index ≥ 5 is out of range in Go) -/
def kHiMasks (j : Nat) : Nat :=
  match j with
  | 0 => 0xAAAAAAAAAAAAAAAA
  | 1 => 0xCCCCCCCCCCCCCCCC
  | 2 => 0xF0F0F0F0F0F0F0F0
  | 3 => 0xFF00FF00FF00FF00
  | 4 => 0xFFFF0000FFFF0000
  | _ => 0

/-- one mip iteration with mask `kHiMasks[j]` and `bits = 1 << j`:
`hi2lo := w | ((w & m) >> bits); lo2hi := (w & (m >> bits)) << bits; w = hi2lo | lo2hi` -/
def step (j w : Nat) : Nat :=
  let bits := 1 <<< j
  let hi2lo := w ||| ((w &&& kHiMasks j) >>> bits)
  let lo2hi := shl64 (w &&& (kHiMasks j >>> bits)) bits
  hi2lo ||| lo2hi

/-- `w | (w >> 32) | (w << 32)` -/
def fold32 (w : Nat) : Nat := (w ||| (w >>> 32)) ||| shl64 w 32

/-- `w |= w >> 32; w |= w << 32` (two statements: the second sees the first) -/
def fold32seq (w : Nat) : Nat :=
  let w := w ||| (w >>> 32)
  w ||| shl64 w 32

/-- `w_i := 0; bit := 1; for _, w := range src { w_i |= (w | (w >> 32) | (w << 32)) & bit; bit <<= 1 }`;
the state is `(w_i, bit)` -/
def gatherLoop (src : List Nat) (st : Nat × Nat) : Nat × Nat :=
  src.foldl (fun st w => (st.1 ||| (fold32 w &&& st.2), shl64 st.2 1)) st

def gather (src : List Nat) : Nat := (gatherLoop src (0, 1)).1

/-- a row of `n` words -/
def tab (n : Nat) (f : Nat → Nat) : Array Nat := ((List.range n).map f).toArray

/-- read a word of a row (`0` when out of range) -/
def rd (a : Array Nat) (i : Nat) : Nat := a.getD i 0

/-- read `a[l][i]` -/
def rd2 (a : Array (Array Nat)) (l i : Nat) : Nat := rd (a.getD l #[]) i

/-- `a[l][i] |= v` -/
def or2 (a : Array (Array Nat)) (l i v : Nat) : Array (Array Nat) :=
  a.modify l fun r => r.modify i fun w => w ||| v

/-- little-endian bytes of a `uint64` (`binary.LittleEndian.PutUint64`) -/
def le64 (w : Nat) : List Nat := (List.range 8).map fun k => (w >>> (8 * k)) &&& 0xFF

/-! ## GF(2^8): `errorBitfield8` -/

/-- `Words [7][4]uint64` -/
structure BF8 where
  words : Array (Array Nat)

namespace BF8

def empty : BF8 := ⟨Array.replicate 7 (Array.replicate 4 0)⟩

/-- `e.Words[0][(i/64)&3] |= uint64(1) << (i & 63)` -/
def set (e : BF8) (i : Nat) : BF8 := ⟨or2 e.words 0 ((i / 64) &&& 3) (shl64 1 (i &&& 63))⟩

def ofList (erased : List Nat) : BF8 := erased.foldl set empty

/-- the 32 bytes `PutUint64(res[0:8], Words[0][0]) … PutUint64(res[24:32], Words[0][3])` -/
def cacheID (e : BF8) : List Nat :=
  le64 (rd2 e.words 0 0) ++ le64 (rd2 e.words 0 1) ++ le64 (rd2 e.words 0 2) ++ le64 (rd2 e.words 0 3)

def isNeeded (e : BF8) (mipLevel bit : Nat) : Bool :=
  if mipLevel ≥ 8 || mipLevel ≤ 0 then true
  else (rd2 e.words (mipLevel - 1) (bit / 64) &&& shl64 1 (bit &&& 63)) != 0

def prepare (e : BF8) : BF8 :=
  -- first loop: per word, mip levels 0..4
  let r0 := tab 4 fun i => step 0 (rd2 e.words 0 i)
  let r1 := tab 4 fun i => step 1 (rd r0 i)
  let r2 := tab 4 fun i => step 2 (rd r1 i)
  let r3 := tab 4 fun i => step 3 (rd r2 i)
  let r4 := tab 4 fun i => step 4 (rd r3 i)
  -- second loop: `w := Words[4][i]; w |= w >> 32; w |= w << 32`
  let r5 := tab 4 fun i => fold32seq (rd r4 i)
  -- third loop (`i += 2`): `t := Words[5][i] | Words[5][i+1]; Words[6][i] = t; Words[6][i+1] = t`
  let r6 := tab 4 fun i =>
    let i0 := i - i % 2
    rd r5 i0 ||| rd r5 (i0 + 1)
  ⟨#[r0, r1, r2, r3, r4, r5, r6]⟩

end BF8

/-! ## GF(2^16): `errorBitfield` -/

/-- `Words [5][1024]uint64`, `BigWords [6][16]uint64`, `BiggestWords [4]uint64` -/
structure BF16 where
  words : Array (Array Nat)
  bigWords : Array (Array Nat)
  biggestWords : Array Nat

namespace BF16

def empty : BF16 :=
  ⟨Array.replicate 5 (Array.replicate 1024 0), Array.replicate 6 (Array.replicate 16 0), Array.replicate 4 0⟩

/-- `e.Words[0][i/64] |= uint64(1) << (i & 63)` -/
def set (e : BF16) (i : Nat) : BF16 := { e with words := or2 e.words 0 (i / 64) (shl64 1 (i &&& 63)) }

def ofList (erased : List Nat) : BF16 := erased.foldl set empty

def isNeeded (e : BF16) (mipLevel bit : Nat) : Bool :=
  if mipLevel ≥ 16 then true
  else if mipLevel ≥ 12 then
    let bit := bit / 4096
    (rd e.biggestWords (mipLevel - 12) &&& shl64 1 bit) != 0
  else if mipLevel ≥ 6 then
    let bit := bit / 64
    (rd2 e.bigWords (mipLevel - 6) (bit / 64) &&& shl64 1 (bit % 64)) != 0
  else if mipLevel = 0 then false   -- Go: `Words[-1]` panics; level 0 is never queried
  else (rd2 e.words (mipLevel - 1) (bit / 64) &&& shl64 1 (bit % 64)) != 0

def prepare (e : BF16) : BF16 :=
  -- per word, mip levels 0..4
  let r0 := tab 1024 fun i => step 0 (rd2 e.words 0 i)
  let r1 := tab 1024 fun i => step 1 (rd r0 i)
  let r2 := tab 1024 fun i => step 2 (rd r1 i)
  let r3 := tab 1024 fun i => step 3 (rd r2 i)
  let r4 := tab 1024 fun i => step 4 (rd r3 i)
  -- BigWords: one bit per word of `Words[4][i*64 : i*64+64]`, then 5 mip levels
  let b0 := tab 16 fun i => gather ((List.range 64).map fun k => rd r4 (i * 64 + k))
  let b1 := tab 16 fun i => step 0 (rd b0 i)
  let b2 := tab 16 fun i => step 1 (rd b1 i)
  let b3 := tab 16 fun i => step 2 (rd b2 i)
  let b4 := tab 16 fun i => step 3 (rd b3 i)
  let b5 := tab 16 fun i => step 4 (rd b4 i)
  -- BiggestWords: one bit per word of `BigWords[5][:16]`, then 3 mip levels
  let g0 := gather ((List.range 16).map fun i => rd b5 i)
  let g1 := step 0 g0
  let g2 := step 1 g1
  let g3 := step 2 g2
  { words := #[r0, r1, r2, r3, r4], bigWords := #[b0, b1, b2, b3, b4, b5], biggestWords := #[g0, g1, g2, g3] }

end BF16

end RSV.Model.BitfieldImpl
