import RSV.Model.Matrix
/-!
# L1: the generator-matrix builders of `reedsolomon.go` (core Lean only)

Generic over the carrier `F`; `x : Nat → F` is the embedding of shard indices into the
field (`byte(r)` in the Go code).  A generator is a `total × d` matrix whose top `d × d`
block is the identity.
-/
namespace RSV.Model
section
variable {F : Type} [Zero F] [One F] [Add F] [Sub F] [Mul F] [Inv F] [DecidableEq F]

/-- `a^n` by repeated multiplication (`galExp`) -/
def npow (a : F) : Nat → F
  | 0 => 1
  | n+1 => npow a n * a

/-- `vandermonde(rows, cols)`: entry `(r,c) = byte(r)^c` -/
def vandermonde (x : Nat → F) (rows cols : Nat) : Mat F rows cols :=
  Mat.ofFn fun r c => npow (x r.val) c.val

/-- top `d` rows of a `total × d` matrix (`SubMatrix(0,0,d,d)`) -/
def topSquare {total d : Nat} (h : d ≤ total) (A : Mat F total d) : Mat F d d :=
  Mat.ofFn fun i j => A.get ⟨i.val, Nat.lt_of_lt_of_le i.isLt h⟩ j

/-- `buildMatrix`: Vandermonde times the inverse of its top square; `none` = singular -/
def buildMatrix (x : Nat → F) (d total : Nat) (h : d ≤ total) : Option (Mat F total d) :=
  let vm := vandermonde x total d
  (invert (topSquare h vm)).map fun inv => mulMat vm inv

/-- `buildMatrixCauchy`: identity on top, `1/(x_r - x_c)` below (`invTable[r ^ c]`) -/
def buildMatrixCauchy (x : Nat → F) (d total : Nat) : Mat F total d :=
  Mat.ofFn fun r c =>
    if r.val < d then (if r.val = c.val then 1 else 0) else (x r.val - x c.val)⁻¹

/-- `buildMatrixPAR1`: identity on top, `(c+1)^(r-d)` below -/
def buildMatrixPAR1 (x : Nat → F) (d total : Nat) : Mat F total d :=
  Mat.ofFn fun r c =>
    if r.val < d then (if r.val = c.val then 1 else 0) else npow (x (c.val + 1)) (r.val - d)

/-- `buildXorMatrix`: identity on top, all ones below -/
def buildXorMatrix (d total : Nat) : Mat F total d :=
  Mat.ofFn fun r c => if r.val < d then (if r.val = c.val then 1 else 0) else 1

/-! ### `buildMatrixJerasure` — column operations on the Vandermonde matrix -/

/-- multiply column `c` by `s` -/
def colScale {n m : Nat} (A : Mat F n m) (c : Fin m) (s : F) : Mat F n m :=
  Mat.ofFn fun i j => if j = c then A.get i j * s else A.get i j

/-- multiply column `c` by `s` in rows `≥ lo` only -/
def colScaleFrom {n m : Nat} (A : Mat F n m) (lo : Nat) (c : Fin m) (s : F) : Mat F n m :=
  Mat.ofFn fun i j => if j = c ∧ lo ≤ i.val then A.get i j * s else A.get i j

/-- add `coef j` times column `i` to every column `j ≠ i` (`coef` is read from row `i`
before the update, as the Go loop does: `tmp := vm[i][j]`) -/
def colElim {n m : Nat} (A : Mat F n m) (i : Fin m) (coef : Fin m → F) : Mat F n m :=
  Mat.ofFn fun r j => if j = i then A.get r j else A.get r j + coef j * A.get r i

def rowScaleRow {n m : Nat} (A : Mat F n m) (i : Fin n) (s : F) : Mat F n m :=
  Mat.ofFn fun r j => if r = i then A.get r j * s else A.get r j

/-- one iteration `i` of the main loop of `buildMatrixJerasure` -/
def jerasureStep {total d : Nat} (h : d ≤ total) (i : Fin d) (vm : Mat F total d) : Mat F total d :=
  let iRow : Fin total := ⟨i.val, Nat.lt_of_lt_of_le i.isLt h⟩
  -- find the first row r ≥ i with vm[r][i] ≠ 0 and swap it with row i
  let vm1 := match findFirst (fun r : Fin total => decide (i.val ≤ r.val) && decide (vm.get r i ≠ 0)) with
    | some r => rowSwap vm iRow r
    | none => vm       -- the Go loop would index out of range; excluded by `jerasureOk`
  let piv := vm1.get iRow i
  let vm2 := if piv ≠ 1 then colScale vm1 i piv⁻¹ else vm1
  let coef : Fin d → F := fun j => vm2.get iRow j
  colElim vm2 i coef

def jerasureLoop {total d : Nat} (h : d ≤ total) (vm : Mat F total d) : (k : Nat) → k ≤ d → Mat F total d
  | 0, _ => vm
  | k+1, hk => jerasureStep h ⟨k, hk⟩ (jerasureLoop h vm k (Nat.le_of_succ_le hk))

/-- `buildMatrixJerasure` for `1 ≤ d < total` -/
def buildMatrixJerasure (x : Nat → F) (d total : Nat) (h : d < total) (hd : 0 < d) : Mat F total d :=
  let vm0 := vandermonde x total d
  -- first row 1 0 … 0, last row 0 … 0 1
  let vm1 : Mat F total d := Mat.ofFn fun r c =>
    if r.val = 0 then (if c.val = 0 then 1 else 0)
    else if r.val = total - 1 then (if c.val = d - 1 then 1 else 0)
    else vm0.get r c
  let vm2 := jerasureLoop (Nat.le_of_lt h) vm1 d (Nat.le_refl d)
  -- make row d all ones: divide column j (rows ≥ d) by vm[d][j]
  let rowD : Fin total := ⟨d, h⟩
  let vm3 : Mat F total d := Mat.ofFn fun i j =>
    if d ≤ i.val then vm2.get i j * (vm2.get rowD j)⁻¹ else vm2.get i j
  -- make column 0 of rows > d all ones: divide each such row by its first entry
  let c0 : Fin d := ⟨0, hd⟩
  Mat.ofFn fun i j => if d < i.val then vm3.get i j * (vm3.get i c0)⁻¹ else vm3.get i j

end
end RSV.Model
