import RSV.Model.Matrix
/-!
# L1: the executable generalised-Cauchy certificate (core Lean only)

A `p × d` parity matrix `A` is *generalised Cauchy* over points `x_r` (one of which may be
the point at infinity, `none`), `y_c` if there are non-zero scalars `u_r`, `v_c` with
`A r c * (x_r - y_c) = u_r * v_c` (`A r c = u_r * v_c` for the row at infinity).
`RSV.Proofs.CodeTheory` proves `certGC … = true → points distinct → MDS A`.
The driver runs `certGC` on the matrix the Go implementation produced.
-/
namespace RSV.Model
section
variable {F : Type} [Zero F] [One F] [Add F] [Sub F] [Mul F] [Inv F] [DecidableEq F]

/-- `∀ i, p i` as a Boolean -/
def allFin : {n : Nat} → (Fin n → Bool) → Bool
  | 0, _ => true
  | _+1, p => allFin (fun i => p i.castSucc) && p (Fin.last _)

theorem allFin_iff : ∀ {n : Nat} (p : Fin n → Bool), allFin p = true ↔ ∀ i, p i = true
  | 0, p => by simp [allFin]
  | n+1, p => by
    simp only [allFin, Bool.and_eq_true, allFin_iff]
    constructor
    · intro ⟨h1, h2⟩ i
      by_cases hi : i = Fin.last n
      · subst hi; exact h2
      · have hlt : i.val < n := by
          have := i.isLt
          have h3 : i.val ≠ n := fun h => hi (Fin.ext h)
          omega
        have : i = (⟨i.val, hlt⟩ : Fin n).castSucc := Fin.ext rfl
        rw [this]; exact h1 _
    · intro h; exact ⟨fun i => h _, h _⟩

/-- the certificate: scalars non-zero and the defining identity at every entry -/
def certGC {p d : Nat} (A : Mat F p d) (x : Fin p → Option F) (y : Fin d → F)
    (u : Fin p → F) (v : Fin d → F) : Bool :=
  allFin (fun r => decide (u r ≠ 0)) &&
  allFin (fun c => decide (v c ≠ 0)) &&
  allFin (fun r => allFin fun c =>
    match x r with
    | some xr => decide (A.get r c * (xr - y c) = u r * v c)
    | none => decide (A.get r c = u r * v c))

/-- all points pairwise distinct: the finite `x`'s among themselves, the `y`'s among
themselves, every finite `x` from every `y`, and at most one `x` at infinity -/
def pointsDistinct {p d : Nat} (x : Fin p → Option F) (y : Fin d → F) : Bool :=
  allFin (fun r => allFin fun r' => decide (r = r') || decide (x r ≠ x r')) &&
  allFin (fun c => allFin fun c' => decide (c = c') || decide (y c ≠ y c')) &&
  allFin (fun r => allFin fun c => decide (x r ≠ some (y c)))

/-- scalars read off the first row and first column of `A` (normalised `v 0 = 1`);
used by the driver to run `certGC` without being told `u, v` -/
def readU {p d : Nat} (hd : 0 < d) (A : Mat F p d) (x : Fin p → Option F) (y : Fin d → F) : Fin p → F :=
  fun r => match x r with
    | some xr => A.get r ⟨0, hd⟩ * (xr - y ⟨0, hd⟩)
    | none => A.get r ⟨0, hd⟩

def readV {p d : Nat} (hd : 0 < d) (hp : 0 < p) (A : Mat F p d) (x : Fin p → Option F) (y : Fin d → F) : Fin d → F :=
  fun c => match x ⟨0, hp⟩ with
    | some x0 => A.get ⟨0, hp⟩ c * (x0 - y c) * (readU hd A x y ⟨0, hp⟩)⁻¹
    | none => A.get ⟨0, hp⟩ c * (readU hd A x y ⟨0, hp⟩)⁻¹

/-- parity part (rows `d …`) of a generator -/
def parityPart {total d : Nat} (p : Nat) (h : d + p = total) (G : Mat F total d) : Mat F p d :=
  Mat.ofFn fun r c => G.get ⟨d + r.val, by omega⟩ c

/-- certificate with the natural points `y_c = x c`, `x_r = x (d+r)`; `inf = some r` puts
parity row `r` at infinity -/
def certNat {p d : Nat} (hd : 0 < d) (hp : 0 < p) (pt : Nat → F) (inf : Option (Fin p)) (A : Mat F p d) : Bool :=
  let x : Fin p → Option F := fun r => if inf = some r then none else some (pt (d + r.val))
  let y : Fin d → F := fun c => pt c.val
  certGC A x y (readU hd A x y) (readV hd hp A x y)

end
end RSV.Model
