import RSV.Model.Matrix
/-!
# L0/L1: the matrix codec — Encode, Verify, Reconstruct, EncodeIdx, Update (core Lean only)

Generic over the carrier `F`.  A shard is a `Vector F len`; a shard set is a vector of
`Option` shards (`none` = missing: `nil` or zero length in Go).  Unequal lengths and
malformed arguments are the business of `RSV.Model.Api`; here every present shard has the
common length by construction.
-/
namespace RSV.Model
section
variable {F : Type} [Zero F] [One F] [Add F] [Sub F] [Mul F] [Inv F] [DecidableEq F]

/-- one shard -/
abbrev Shard (F : Type) (len : Nat) := Vector F len

/-- L0: `Σ_c row[c] * data c` column by column — byte `k` of the output depends on byte `k`
of the inputs only -/
def encodeRow {d len : Nat} (row : Fin d → F) (data : Fin d → Shard F len) : Shard F len :=
  Vector.ofFn fun k => finSum fun c => row c * (data c)[k]

/-- L0 of `Encode`: parity `r` = row `d+r` of the generator applied to the data shards -/
def encodeSpec {d p len : Nat} (A : Mat F p d) (data : Fin d → Shard F len) : Fin p → Shard F len :=
  fun r => encodeRow (fun c => A.get r c) data

/-- the whole codeword: data followed by parity -/
def encodeAll {d p len : Nat} (A : Mat F p d) (data : Fin d → Shard F len) : Fin (d + p) → Shard F len :=
  fun i => if h : i.val < d then data ⟨i.val, h⟩ else encodeSpec A data ⟨i.val - d, by omega⟩

/-- L0 of `Verify` -/
def verifySpec {d p len : Nat} (A : Mat F p d) (data : Fin d → Shard F len) (par : Fin p → Shard F len) : Bool :=
  decide (∀ r, par r = encodeSpec A data r)

/-! ### Reconstruct -/

inductive ReconMode where
  | all            -- Reconstruct
  | dataOnly       -- ReconstructData
  | some (required : List Bool) (full : Bool)   -- ReconstructSome; `full` = mask has `total` entries
deriving Repr

inductive ReconErr where
  | tooFew | singular
deriving Repr, DecidableEq

/-- indices of the first `k` entries satisfying `present`, scanning upwards:
the `validIndices` loop of `reconstruct` -/
def firstPresent {n : Nat} (present : Fin n → Bool) : (k : Nat) → List (Fin n)
  | k => ((List.finRange n).filter present).take k

/-- list of invalid indices passed before `d` valid ones were found (the cache key) -/
def invalidBefore {n : Nat} (present : Fin n → Bool) (d : Nat) : List (Fin n) :=
  match (firstPresent present d).getLast? with
  | none => []
  | some last => (List.finRange n).filter fun i => decide (i.val < last.val) && !present i

def countTrue {n : Nat} (p : Fin n → Bool) : Nat := ((List.finRange n).filter p).length

/-- generator as a `total × d` matrix: identity on top, `A` below -/
def genRow {d p : Nat} (A : Mat F p d) (i : Fin (d + p)) (c : Fin d) : F :=
  if h : i.val < d then (if i.val = c.val then 1 else 0) else A.get ⟨i.val - d, by omega⟩ c

def requiredAt (m : ReconMode) (i : Nat) : Bool :=
  match m with
  | .all => true
  | .dataOnly => true
  | .some req _ => req.getD i false

def isDataOnly (m : ReconMode) : Bool :=
  match m with
  | .all => false
  | .dataOnly => true
  | .some _ full => !full

/-- `reedSolomon.reconstruct` (after the `fix:` commit for ReconstructSome).
`inv` is the inversion procedure (`invert`, possibly through the cache — `RSV.Model.Memo`
shows the cache returns exactly `invert` of the same sub-matrix).  Result: the new shard
set, or an error with the shard set unchanged. -/
def reconstructWith {d p len : Nat} (inv : Mat F d d → Option (Mat F d d))
    (A : Mat F p d) (sh : Fin (d + p) → Option (Shard F len)) (mode : ReconMode) :
    Except ReconErr (Fin (d + p) → Option (Shard F len)) :=
  let present : Fin (d + p) → Bool := fun i => (sh i).isSome
  let numberPresent := countTrue present
  let dataPresent := countTrue fun i => present i && decide (i.val < d)
  let dataOnly := isDataOnly mode
  let missingRequired := countTrue fun i => !present i && requiredAt mode i.val
  let isSome := match mode with | .some _ _ => true | _ => false
  if numberPresent = d + p || (dataOnly && dataPresent = d) || (isSome && missingRequired = 0) then
    .ok sh
  else if numberPresent < d then .error .tooFew
  else
    let valid := firstPresent present d
    -- sub-matrix of the generator at the valid rows
    let sub : Mat F d d := Mat.ofFn fun i c =>
      match valid[i.val]? with
      | some vi => genRow A vi c
      | none => 0
    match inv sub with
    | none => .error .singular
    | some dec =>
      let subShard : Fin d → Shard F len := fun j =>
        match valid[j.val]? with
        | some vi => (sh vi).getD (Vector.replicate len 0)
        | none => Vector.replicate len 0
      let parityRequired := !dataOnly && (match mode with
        | .some _ _ => decide (0 < countTrue fun i : Fin (d + p) => !present i && requiredAt mode i.val && decide (d ≤ i.val))
        | _ => false)
      -- data shards after the decode step
      let dataOut : Fin d → Option (Shard F len) := fun c =>
        let i : Fin (d + p) := ⟨c.val, by omega⟩
        match sh i with
        | some s => some s
        | none =>
          if (match mode with | .some _ _ => requiredAt mode c.val || parityRequired | _ => true) then
            some (encodeRow (fun j => dec.get c j) subShard)
          else none
      if dataOnly then
        .ok fun i => if h : i.val < d then dataOut ⟨i.val, h⟩ else sh i
      else
        -- all data shards needed by a requested parity shard are present now
        let dataFull : Fin d → Shard F len := fun c => (dataOut c).getD (Vector.replicate len 0)
        .ok fun i =>
          if h : i.val < d then dataOut ⟨i.val, h⟩
          else match sh i with
            | some s => some s
            | none =>
              if requiredAt mode i.val then
                some (encodeRow (fun c => A.get ⟨i.val - d, by omega⟩ c) dataFull)
              else none

def reconstruct {d p len : Nat} (A : Mat F p d) (sh : Fin (d + p) → Option (Shard F len)) (mode : ReconMode) :=
  reconstructWith invert A sh mode

/-! ### L0 of Reconstruct: which shards are filled, and with what -/

/-- outcome class of a reconstruct call as a function of the presence pattern only -/
inductive ReconShape where
  | unchanged | tooFew | fill (filled : List Bool)
deriving Repr

/-- L0: the set of indices a successful call fills (documented contract: all missing shards,
all missing data shards, or at least the requested ones) -/
def reconShape (d p : Nat) (present : Fin (d + p) → Bool) (mode : ReconMode) : ReconShape :=
  let numberPresent := countTrue present
  let dataPresent := countTrue fun i => present i && decide (i.val < d)
  let dataOnly := isDataOnly mode
  let isSome := match mode with | .some _ _ => true | _ => false
  let missingRequired := countTrue fun i => !present i && requiredAt mode i.val
  if numberPresent = d + p || (dataOnly && dataPresent = d) || (isSome && missingRequired = 0) then .unchanged
  else if numberPresent < d then .tooFew
  else
    let parityRequired := !dataOnly && isSome &&
      decide (0 < countTrue fun i : Fin (d + p) => !present i && requiredAt mode i.val && decide (d ≤ i.val))
    .fill ((List.finRange (d + p)).map fun i =>
      !present i &&
        (if i.val < d then (if isSome then requiredAt mode i.val || parityRequired else true)
         else !dataOnly && requiredAt mode i.val))

/-- L0 of Reconstruct on a codeword with erasures, for an MDS generator: every filled shard is
the original one -/
def reconSpec {d p len : Nat} (orig : Fin (d + p) → Shard F len) (present : Fin (d + p) → Bool)
    (mode : ReconMode) : Except ReconErr (Fin (d + p) → Option (Shard F len)) :=
  match reconShape d p present mode with
  | .unchanged => .ok fun i => if present i then some (orig i) else none
  | .tooFew => .error .tooFew
  | .fill filled => .ok fun i => if present i || filled.getD i.val false then some (orig i) else none

/-! ### EncodeIdx and Update -/

/-- one `EncodeIdx` call: add `A[r][idx] * shard` into every parity shard -/
def encodeIdxStep {d p len : Nat} (A : Mat F p d) (par : Fin p → Shard F len) (idx : Fin d) (s : Shard F len) :
    Fin p → Shard F len :=
  fun r => Vector.ofFn fun k => (par r)[k] + A.get r idx * s[k]

/-- `Update`: `newData c = some s` replaces data shard `c`; parity moves by `A·(old − new)` -/
def updateSpec {d p len : Nat} (A : Mat F p d) (old : Fin d → Option (Shard F len)) (par : Fin p → Shard F len)
    (newData : Fin d → Option (Shard F len)) : Fin p → Shard F len :=
  fun r => Vector.ofFn fun k =>
    (par r)[k] + finSum fun c =>
      match newData c, old c with
      | some nw, some od => A.get r c * (nw[k] - od[k])
      | _, _ => 0

end
end RSV.Model
