/-!
# L1: range splitting of `codeSomeShards*` / `updateParityShardsP` (core Lean only)

Which byte offsets each internal worker, each SIMD kernel call and each scalar round covers, as a
function of the derived options (`maxGoroutines`, `minSplitSize`, `perRound`) and of the kernel's
granularity `g` (the kernel processes `n &^ (g-1)` bytes and returns that count).
-/
namespace RSV.Model.Dispatch

/-- half-open byte range `[start, stop)` -/
abbrev Piece := Nat × Nat

/-- `for start < byteCount { if start+do > byteCount { do = byteCount - start }; go exec(start, start+do); start += do }` -/
def splitLoop (byteCount : Nat) : Nat → Nat → Nat → List Piece
  | 0, _, _ => []
  | fuel + 1, d, start =>
    if start < byteCount then
      let d' := if start + d > byteCount then byteCount - start else d
      (start, start + d') :: splitLoop byteCount fuel d' (start + d')
    else []

/-- the ranges handed to the worker goroutines by `codeSomeShardsP / AVXP / GFNI` -/
def workerRanges (byteCount gor minSplit : Nat) : List Piece :=
  let do0 := if byteCount / gor < minSplit then minSplit else byteCount / gor
  if gor ≤ 1 then [(0, byteCount)]
  else
    let d := (do0 + 63) / 64 * 64          -- (do + 63) & ^63
    splitLoop byteCount (byteCount + 1) d 0

/-- `updateParityShardsP`: same loop without the rounding to 64 -/
def updateRanges (byteCount gor minSplit : Nat) : List Piece :=
  let do0 := if byteCount / gor < minSplit then minSplit else byteCount / gor
  splitLoop byteCount (byteCount + 1) do0 0

/-- the scalar loop: `lstart, lstop := start, start+perRound` clamped to `stop`, advancing by `perRound` -/
def scalarRounds (stop perRound : Nat) : Nat → Nat → List Piece
  | 0, _ => []
  | fuel + 1, lstart =>
    if lstart < stop then
      let lstop := if lstart + perRound > stop then stop else lstart + perRound
      (lstart, lstop) :: scalarRounds stop perRound fuel lstop
    else []

/-- one worker `exec(start, stop)` of `codeSomeShardsP`: an optional SIMD kernel call on the
`g`-aligned prefix (only if the range has at least 64 bytes), then scalar rounds on the rest.
The Boolean marks the kernel piece. -/
def execPieces (start stop perRound : Nat) (g : Option Nat) : List (Piece × Bool) :=
  let n := match g with
    | some g => if stop - start ≥ 64 then (stop - start) / g * g else 0
    | none => 0
  (if n = 0 then [] else [((start, start + n), true)]) ++
    (scalarRounds stop perRound (stop - start + 1) (start + n)).map fun p => (p, false)

/-- all pieces of one call -/
def allPieces (byteCount gor minSplit perRound : Nat) (g : Option Nat) : List (Piece × Bool) :=
  (workerRanges byteCount gor minSplit).flatMap fun (s, e) => execPieces s e perRound g

/-- consecutive pieces leading from `a` to `b` -/
def Chain : List Piece → Nat → Nat → Prop
  | [], a, b => a = b
  | (s, e) :: rest, a, b => s = a ∧ s ≤ e ∧ Chain rest e b

/-- evaluating a per-offset function piece by piece and concatenating -/
def evalPieces {β : Type} (f : Nat → β) (ps : List Piece) : List β :=
  ps.flatMap fun (s, e) => (List.range' s (e - s)).map f

end RSV.Model.Dispatch
