import RSV.Model.Codec
/-!
# L1: write sets (frame conditions) and `AllocAligned` (core Lean only)

`W` is what happens to the caller's memory of one shard: untouched, written in place inside
`[0,len)`, or replaced by a fresh allocation (caller memory untouched).
-/
namespace RSV.Model.Frames

inductive W where
  | u | w | a
deriving Repr, DecidableEq

def W.toChar : W → Char
  | .u => 'u' | .w => 'w' | .a => 'a'

/-- Encode: only parity is written -/
def encodeFrame (d p : Nat) : List W := List.replicate d .u ++ List.replicate p .w

/-- Verify writes nothing -/
def verifyFrame (d p : Nat) : List W := List.replicate (d + p) .u

/-- Reconstruct*: only shards that were missing and are filled are written; in place iff the
zero-length shard has capacity ≥ shardSize -/
def reconFrame (d p : Nat) (present : Fin (d + p) → Bool) (mode : ReconMode) (capOk : Fin (d + p) → Bool) : List W :=
  match reconShape d p present mode with
  | .fill filled => (List.finRange (d + p)).map fun i =>
      if !present i && filled.getD i.val false then (if capOk i then .w else .a) else .u
  | _ => List.replicate (d + p) .u

/-- EncodeIdx: parity only (when at least one shard is delivered) -/
def idxFrame (d p : Nat) (delivered : Nat) : List W :=
  List.replicate d .u ++ List.replicate p (if delivered = 0 then .u else .w)

/-- Update: parity, and the old copies of the changed data shards (they are xor-ed with the new data) -/
def updateFrame (d p : Nat) (changed : Fin d → Bool) : List W :=
  ((List.finRange d).map fun c => if changed c then W.w else W.u) ++ List.replicate p .w

/-! ### `AllocAligned(shards, each)`: `eachAligned = ceil64(each)`, one backing array of
`eachAligned*shards + 63` bytes, first slice at the first 64-aligned address -/

structure Alloc where
  total : Nat            -- length of the backing array
  skip : Nat             -- bytes skipped to reach alignment (0 in the nounsafe build)
  offs : List Nat        -- offset of each slice in the backing array
  len : Nat
  cap : Nat
deriving Repr

def allocAligned (shards each : Nat) (baseAddrMod64 : Nat) (unsafeAlign : Bool) : Alloc :=
  let eachAligned := (each + 63) / 64 * 64
  let total := eachAligned * shards + 63
  let align := baseAddrMod64 % 64
  let skip := if unsafeAlign && align > 0 then 64 - align else 0
  ⟨total, skip, (List.range shards).map fun i => skip + i * eachAligned, each, eachAligned⟩

end RSV.Model.Frames
