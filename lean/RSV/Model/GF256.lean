import RSV.Spec.GF256
/-!
# The carrier `GF256` used by the executable models (core Lean only)

Elements are naturals below 256; `+` and `-` are xor, `*` is `gmul` (shift-and-reduce
modulo 0x11D), `⁻¹` is `a^254` computed by the 13-multiplication chain `ginvChain`
(so `0⁻¹ = 0`, the field convention; the Go code panics on
`galOneOver 0` and the models never call it there).
-/
namespace RSV

namespace BF
theorem xtime_lt {k poly a : Nat} (hk : 0 < k) (hp : 2^k ≤ poly) (hp2 : poly < 2^(k+1))
    (ha : a < 2^k) : xtime k poly a < 2^k := by
  unfold xtime
  split
  next h =>
    -- bit k of (a<<<1) is set, bit k of poly is set, all higher bits clear
    apply Nat.lt_pow_two_of_testBit
    intro i hi
    rw [Nat.testBit_xor]
    by_cases hik : i = k
    · subst hik
      have h1 : (a <<< 1).testBit i = true := by
        rw [Nat.testBit_shiftLeft]; simp [show 1 ≤ i by omega, h]
      have h2 : poly.testBit i = true := by
        rw [Nat.testBit_eq_decide_div_mod_eq]
        have : poly / 2^i = 1 := by
          apply Nat.div_eq_of_lt_le <;> simp [Nat.pow_succ] at * <;> omega
        simp [this]
      simp [h1, h2]
    · have hik2 : k < i := by omega
      have h1 : (a <<< 1).testBit i = false := by
        apply Nat.testBit_lt_two_pow
        rw [Nat.shiftLeft_eq]
        calc a * 2^1 < 2^k * 2^1 := by apply Nat.mul_lt_mul_of_pos_right ha; decide
          _ = 2^(k+1) := by simp [Nat.pow_succ]
          _ ≤ 2^i := Nat.pow_le_pow_right (by decide) hik2
      have h2 : poly.testBit i = false := by
        apply Nat.testBit_lt_two_pow
        exact Nat.lt_of_lt_of_le hp2 (Nat.pow_le_pow_right (by decide) hik2)
      simp [h1, h2]
  next h =>
    apply Nat.lt_pow_two_of_testBit
    intro i hi
    rw [Nat.testBit_shiftLeft]
    by_cases hik : i = k
    · subst hik
      simp at h
      simp [show 1 ≤ i by omega, h]
    · have : a.testBit (i-1) = false := by
        apply Nat.testBit_lt_two_pow
        exact Nat.lt_of_lt_of_le ha (Nat.pow_le_pow_right (by decide) (by omega))
      simp [this]

theorem pmulAux_lt {k poly : Nat} (hk : 0 < k) (hp : 2^k ≤ poly) (hp2 : poly < 2^(k+1)) :
    ∀ n a b, a < 2^k → pmulAux k poly n a b < 2^k := by
  intro n
  induction n with
  | zero => intro a b _; simp [pmulAux]; exact Nat.two_pow_pos k
  | succ n ih =>
    intro a b ha
    simp only [pmulAux]
    apply Nat.xor_lt_two_pow
    · split
      · exact ha
      · exact Nat.two_pow_pos k
    · exact ih _ _ (xtime_lt hk hp hp2 ha)

theorem pmul_lt {k poly a : Nat} (b : Nat) (hk : 0 < k) (hp : 2^k ≤ poly) (hp2 : poly < 2^(k+1))
    (ha : a < 2^k) : pmul k poly a b < 2^k := pmulAux_lt hk hp hp2 k a b ha
end BF

theorem gmul_lt {a : Nat} (b : Nat) (ha : a < 256) : gmul a b < 256 :=
  BF.pmul_lt (k := 8) b (by decide) (by decide) (by decide) ha

theorem gpow_lt (a : Nat) (n : Nat) : gpow a n < 256 := by
  induction n with
  | zero => simp [gpow, BF.ppow]
  | succ n ih => exact gmul_lt _ ih

theorem ginvChain_lt {a : Nat} (ha : a < 256) : ginvChain a < 256 := by
  unfold ginvChain
  exact gmul_lt _ (gmul_lt _ ha)

/-- carrier of the executable models -/
structure GF256 where
  val : Nat
  isLt : val < 256
deriving DecidableEq

namespace GF256
def ofNat (n : Nat) : GF256 := ⟨n % 256, Nat.mod_lt _ (by decide)⟩
instance : Zero GF256 := ⟨⟨0, by decide⟩⟩
instance : One GF256 := ⟨⟨1, by decide⟩⟩
instance : Add GF256 := ⟨fun a b => ⟨a.val ^^^ b.val, Nat.xor_lt_two_pow (n := 8) a.isLt b.isLt⟩⟩
instance : Sub GF256 := ⟨fun a b => ⟨a.val ^^^ b.val, Nat.xor_lt_two_pow (n := 8) a.isLt b.isLt⟩⟩
instance : Neg GF256 := ⟨fun a => a⟩
instance : Mul GF256 := ⟨fun a b => ⟨gmul a.val b.val, gmul_lt _ a.isLt⟩⟩
instance : Inv GF256 := ⟨fun a => ⟨ginvChain a.val, ginvChain_lt a.isLt⟩⟩
instance : Div GF256 := ⟨fun a b => a * b⁻¹⟩
instance : Inhabited GF256 := ⟨0⟩
instance : Repr GF256 := ⟨fun a _ => repr a.val⟩

@[simp] theorem zero_val : (0 : GF256).val = 0 := rfl
@[simp] theorem one_val : (1 : GF256).val = 1 := rfl
@[simp] theorem add_val (a b : GF256) : (a + b).val = a.val ^^^ b.val := rfl
@[simp] theorem sub_val (a b : GF256) : (a - b).val = a.val ^^^ b.val := rfl
@[simp] theorem neg_val (a : GF256) : (-a).val = a.val := rfl
@[simp] theorem mul_val (a b : GF256) : (a * b).val = gmul a.val b.val := rfl
@[simp] theorem inv_val (a : GF256) : (a⁻¹).val = ginvChain a.val := rfl
theorem ext {a b : GF256} (h : a.val = b.val) : a = b := by
  cases a; cases b; simp at h; subst h; rfl

/-- `a^n` -/
def pow (a : GF256) : Nat → GF256
  | 0 => 1
  | n+1 => pow a n * a
end GF256
end RSV
