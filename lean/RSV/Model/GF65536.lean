import RSV.Model.GF256
/-!
# The carrier `GF65536` of Leopard's 16-bit field (core Lean only)

Elements are naturals below 65536; `+` and `-` are xor, `*` is `gmul16 = BF.pmul 16 0x1002D`
(shift-and-reduce modulo `x^16 + x^5 + x^3 + x^2 + 1`), `⁻¹` is `ginv16 a = a^65534` computed by
square-and-multiply (`gpowSq16 a 16 65534`: 16 squarings and 15 further products; `0⁻¹ = 0`, the field
convention).  The instances are the ones `RSV/Model/GF256.lean` provides for `GF256`, so that the
generic `Mat` / `certGC` code runs on this carrier.  `RSV/Proofs/Leo16/Field.lean` proves that these
operations make `GF65536` a field.
-/
namespace RSV

/-- product in GF(2^16) = GF(2)[x]/(0x1002D) on naturals below 65536 -/
def gmul16 (a b : Nat) : Nat := BF.pmul 16 0x1002D a b

/-- `a^n` for `n < 2^fuel` by square-and-multiply (`fuel` squarings) -/
def gpowSq16 (a : Nat) : Nat → Nat → Nat
  | 0, _ => 1
  | f+1, n =>
    let h := gpowSq16 a f (n / 2)
    let s := gmul16 h h
    if n % 2 = 1 then gmul16 s a else s

/-- `a^65534` (the inverse of a non-zero `a`; `0` for `a = 0`) -/
def ginv16 (a : Nat) : Nat := gpowSq16 a 16 65534

theorem gmul16_lt {a : Nat} (b : Nat) (ha : a < 65536) : gmul16 a b < 65536 :=
  BF.pmul_lt (k := 16) b (by decide) (by decide) (by decide) ha

theorem gpowSq16_lt (a f n : Nat) : gpowSq16 a f n < 65536 := by
  induction f generalizing n with
  | zero => show 1 < 65536; decide
  | succ f ih =>
    simp only [gpowSq16]
    split
    · exact gmul16_lt _ (gmul16_lt _ (ih _))
    · exact gmul16_lt _ (ih _)

theorem ginv16_lt (a : Nat) : ginv16 a < 65536 := gpowSq16_lt a 16 65534

/-- carrier of Leopard's GF(2^16) -/
structure GF65536 where
  val : Nat
  isLt : val < 65536
deriving DecidableEq

namespace GF65536
def ofNat (n : Nat) : GF65536 := ⟨n % 65536, Nat.mod_lt _ (by decide)⟩
instance : Zero GF65536 := ⟨⟨0, by decide⟩⟩
instance : One GF65536 := ⟨⟨1, by decide⟩⟩
instance : Add GF65536 := ⟨fun a b => ⟨a.val ^^^ b.val, Nat.xor_lt_two_pow (n := 16) a.isLt b.isLt⟩⟩
instance : Sub GF65536 := ⟨fun a b => ⟨a.val ^^^ b.val, Nat.xor_lt_two_pow (n := 16) a.isLt b.isLt⟩⟩
instance : Neg GF65536 := ⟨fun a => a⟩
instance : Mul GF65536 := ⟨fun a b => ⟨gmul16 a.val b.val, gmul16_lt _ a.isLt⟩⟩
instance : Inv GF65536 := ⟨fun a => ⟨ginv16 a.val, ginv16_lt a.val⟩⟩
instance : Div GF65536 := ⟨fun a b => a * b⁻¹⟩
instance : Inhabited GF65536 := ⟨0⟩
instance : Repr GF65536 := ⟨fun a _ => repr a.val⟩

@[simp] theorem zero_val : (0 : GF65536).val = 0 := rfl
@[simp] theorem one_val : (1 : GF65536).val = 1 := rfl
@[simp] theorem add_val (a b : GF65536) : (a + b).val = a.val ^^^ b.val := rfl
@[simp] theorem sub_val (a b : GF65536) : (a - b).val = a.val ^^^ b.val := rfl
@[simp] theorem neg_val (a : GF65536) : (-a).val = a.val := rfl
@[simp] theorem mul_val (a b : GF65536) : (a * b).val = gmul16 a.val b.val := rfl
@[simp] theorem inv_val (a : GF65536) : (a⁻¹).val = ginv16 a.val := rfl
theorem ext {a b : GF65536} (h : a.val = b.val) : a = b := by
  cases a; cases b; simp at h; subst h; rfl

/-- `a^n` by repeated multiplication -/
def pow (a : GF65536) : Nat → GF65536
  | 0 => 1
  | n+1 => pow a n * a
end GF65536
end RSV
