/-!
# L1: the contract of the generated SIMD kernels (core Lean only)

A kernel called on `[start, stop)` processes the `g`-aligned prefix of that range and returns its
length; `g` depends on the kernel family and (AVX2) on the number of outputs.
-/
namespace RSV.Model.Kernels

inductive Family where
  | avx2 | gfni | avxgfni
deriving Repr, DecidableEq

/-- bytes per loop iteration: the `return n & (maxInt - (g-1))` of the switch functions -/
def gran (f : Family) (outputs : Nat) : Nat :=
  match f with
  | .avx2 => if outputs ≤ 3 then 64 else 32
  | .gfni => 64
  | .avxgfni => 32

/-- the count a kernel returns for a range of `len` bytes -/
def count (f : Family) (outputs len : Nat) : Nat := len / gran f outputs * gran f outputs

/-- slot of coefficient `(i, j)` (output `i`, input `j`) in the expanded AVX2 matrix: 64 bytes per slot
(low table at `[0,32)` twice 16, high table at `[32,64)`), slots ordered input-major -/
def avx2Slot (outputs i j : Nat) : Nat := (j * outputs + i) * 64

/-- slot of coefficient `(i, j)` in the GFNI matrix (one 64-bit word per slot) -/
def gfniSlot (outputs i j : Nat) : Nat := j * outputs + i

end RSV.Model.Kernels
