import RSV.Model.GF256
import RSV.Model.Cert
import RSV.Model.Leopard
/-!
# L1: the Leopard GF(2^8) field as GF256 through the Cantor map, and the MDS certificate

Leopard represents a field element by the index `i` whose bits select elements of the Cantor basis;
`cantorMap i` is that element in the standard (polynomial) basis, i.e. an element of `GF256`.
`i ↦ cantorMap i` is a field isomorphism from Leopard's representation onto `GF256`
(`RSV.Proofs.LeoField`), so a Leopard generator matrix is MDS iff its image is.
-/
namespace RSV.Model.Leo

/-- the Cantor map: bit `b` of the index selects basis element `b`; the result is xor-ed together -/
def cantorMap (P : Params) (i : Nat) : Nat :=
  (List.range P.bits).foldl (fun acc b => if i.testBit b then acc ^^^ P.cantor[b]! else acc) 0

/-- field product of two Leopard elements through the log/exp tables -/
def leoMul (C : Ctx) (a b : Nat) : Nat :=
  if a = 0 || b = 0 then 0 else C.T.exp[addMod C.P C.T.log[a]! C.T.log[b]!]!

/-- the image of a Leopard GF(2^8) generator (`p × d`, entries `G[r][c]`) in `GF256` -/
def mapMatrix {p d : Nat} (G : Array (Array Nat)) : Mat GF256 p d :=
  Mat.ofFn fun r c => GF256.ofNat (cantorMap P8 (G[r.val]![c.val]!))

/-- evaluation points of the Leopard code: parity `r` at index `r`, data `c` at index `m + c` -/
def leoX (p : Nat) : Fin p → Option GF256 := fun r => some (GF256.ofNat (cantorMap P8 r.val))
def leoY (d m : Nat) : Fin d → GF256 := fun c => GF256.ofNat (cantorMap P8 (m + c.val))

/-- generalised-Cauchy certificate for a Leopard GF(2^8) generator, scalars read off the first row and
column (memoised in arrays) -/
def leo8Cert (d p : Nat) (G : Array (Array Nat)) : Bool :=
  if hd : d = 0 then false else if hp : p = 0 then false else
  let m := ceilPow2 p
  let A : Mat GF256 p d := mapMatrix G
  let hd' := Nat.pos_of_ne_zero hd
  let hp' := Nat.pos_of_ne_zero hp
  let uArr : Array GF256 := Array.ofFn (readU hd' A (leoX p) (leoY d m))
  let vArr : Array GF256 := Array.ofFn (readV hd' hp' A (leoX p) (leoY d m))
  certGC A (leoX p) (leoY d m) (fun r => uArr[r.val]!) (fun c => vArr[c.val]!)

end RSV.Model.Leo
