import RSV.Model.GF65536
import RSV.Model.LeoCert
/-!
# L1: the Leopard GF(2^16) field as GF65536 through the Cantor map, and the MDS certificate
(core Lean only)

The 16-bit counterpart of `RSV/Model/LeoCert.lean`: a Leopard GF(2^16) symbol is the index `i` whose
bits select elements of the 16-element Cantor basis `P16.cantor`; `cantorMap P16 i` is that element in
the polynomial basis, an element of `GF65536`.  `RSV.Proofs.Leo16` proves that this map is a field
isomorphism, so a Leopard generator matrix is MDS iff its image is.
-/
namespace RSV.Model.Leo

/-- the image of a Leopard GF(2^16) generator (`p × d`, entries `G[r][c]`) in `GF65536` -/
def mapMatrix16 {p d : Nat} (G : Array (Array Nat)) : Mat GF65536 p d :=
  Mat.ofFn fun r c => GF65536.ofNat (cantorMap P16 (G[r.val]![c.val]!))

/-- evaluation points of the Leopard code: parity `r` at index `r`, data `c` at index `m + c` -/
def leoX16 (p : Nat) : Fin p → Option GF65536 :=
  fun r => some (GF65536.ofNat (cantorMap P16 r.val))
def leoY16 (d m : Nat) : Fin d → GF65536 := fun c => GF65536.ofNat (cantorMap P16 (m + c.val))

/-- generalised-Cauchy certificate for a Leopard GF(2^16) generator, scalars read off the first row
and column (memoised in arrays) -/
def leo16Cert (d p : Nat) (G : Array (Array Nat)) : Bool :=
  if hd : d = 0 then false else if hp : p = 0 then false else
  let m := ceilPow2 p
  let A : Mat GF65536 p d := mapMatrix16 G
  let hd' := Nat.pos_of_ne_zero hd
  let hp' := Nat.pos_of_ne_zero hp
  let uArr : Array GF65536 := Array.ofFn (readU hd' A (leoX16 p) (leoY16 d m))
  let vArr : Array GF65536 := Array.ofFn (readV hd' hp' A (leoX16 p) (leoY16 d m))
  certGC A (leoX16 p) (leoY16 d m) (fun r => uArr[r.val]!) (fun c => vArr[c.val]!)

end RSV.Model.Leo
