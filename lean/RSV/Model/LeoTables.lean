/-!
# L1: Leopard's run-time tables (`initLUTs*`, `initFFTSkew*`, `initMul*LUT`, `fwht*`)

Core Lean only; parametrised by `(bits, polynomial, cantorBasis)` so that one model serves
GF(2^8) (`leopard8.go`) and GF(2^16) (`leopard.go`).  Field elements and logarithms are
naturals below `2^bits`.  The loops mirror the Go loops.
-/
namespace RSV.Model.Leo

structure Params where
  bits : Nat
  poly : Nat
  cantor : Array Nat

/-- the published Leopard constants (fixed here; `RSV.Props.C17leo` proves the literals
regenerated from the Go source are these) -/
def P8 : Params := ⟨8, 0x11D, #[1, 214, 152, 146, 86, 200, 88, 230]⟩
def P16 : Params := ⟨16, 0x1002D, #[0x0001, 0xACCA, 0x3C0E, 0x163E, 0xC582, 0xED2E, 0x914C, 0x4012,
  0x6C98, 0x10D8, 0x6A72, 0xB900, 0xFDB8, 0xFB34, 0xFF38, 0x991E]⟩

namespace Params
variable (P : Params)
@[inline] def order : Nat := 1 <<< P.bits
@[inline] def modulus : Nat := P.order - 1
end Params

variable (P : Params)

/-- `addMod`: `sum + sum>>bits` truncated to `bits` bits -/
@[inline] def addMod (a b : Nat) : Nat :=
  let s := a + b
  (s + (s >>> P.bits)) % P.order

/-- `subMod`: unsigned wrap-around difference folded the same way -/
@[inline] def subMod (a b : Nat) : Nat :=
  if b ≤ a then a - b else a + P.modulus - b

structure LUTs where
  log : Array Nat
  exp : Array Nat

/-- `initLUTs` -/
def initLUTs : LUTs := Id.run do
  let order := P.order
  let modulus := P.modulus
  let mut exp := Array.replicate order 0
  let mut log := Array.replicate order 0
  -- LFSR table generation
  let mut state := 1
  for i in [0:modulus] do
    exp := exp.set! state i
    state := state <<< 1
    if state ≥ order then state := state ^^^ P.poly
  exp := exp.set! 0 modulus
  -- conversion to Cantor basis
  for i in [0:P.bits] do
    let basis := P.cantor[i]!
    let width := 1 <<< i
    for j in [0:width] do
      log := log.set! (j + width) (log[j]! ^^^ basis)
  for i in [0:order] do
    log := log.set! i exp[log[i]!]!
  for i in [0:order] do
    exp := exp.set! log[i]! i
  exp := exp.set! modulus exp[0]!
  return ⟨log, exp⟩

/-- `mulLog a log_b` -/
@[inline] def mulLog (T : LUTs) (a logb : Nat) : Nat :=
  if a = 0 then 0 else T.exp[addMod P T.log[a]! logb]!

/-- `fwht` on a table of `order` entries, first `mtrunc` non-zero -/
def fwht (data : Array Nat) (mtrunc : Nat) : Array Nat := Id.run do
  let order := P.order
  let mut data := data
  let mut dist := 1
  let mut dist4 := 4
  -- bits/2 rounds
  for _ in [0:P.bits / 2] do
    if dist4 ≤ order then
      -- Go: `for r := 0; r < mtrunc; r += dist4` — `⌈mtrunc / dist4⌉` iterations
      for q in [0:(mtrunc + dist4 - 1) / dist4] do
        let r := q * dist4
        for i in [0:dist] do
          let off := r + i
          let t0 := data[off]!
          let t1 := data[off + dist]!
          let t2 := data[off + dist*2]!
          let t3 := data[off + dist*3]!
          let (t0, t1) := (addMod P t0 t1, subMod P t0 t1)
          let (t2, t3) := (addMod P t2 t3, subMod P t2 t3)
          let (t0, t2) := (addMod P t0 t2, subMod P t0 t2)
          let (t1, t3) := (addMod P t1 t3, subMod P t1 t3)
          data := data.set! off t0
          data := data.set! (off + dist) t1
          data := data.set! (off + dist*2) t2
          data := data.set! (off + dist*3) t3
      dist := dist4
      dist4 := dist4 <<< 2
  return data

structure Skew where
  skew : Array Nat      -- fftSkew, `modulus` entries
  walsh : Array Nat     -- logWalsh, `order` entries

/-- `initFFTSkew` -/
def initFFTSkew (T : LUTs) : Skew := Id.run do
  let bits := P.bits
  let order := P.order
  let modulus := P.modulus
  let mut temp := Array.replicate (bits - 1) 0
  for i in [1:bits] do
    temp := temp.set! (i - 1) (1 <<< i)
  let mut skew := Array.replicate modulus 0
  for m in [0:bits - 1] do
    let step := 1 <<< (m + 1)
    skew := skew.set! ((1 <<< m) - 1) 0
    for i in [m:bits - 1] do
      let s := 1 <<< (i + 1)
      -- Go: `for j := 1<<m - 1; j < s; j += step` — exactly `s / step = 2^(i-m)` iterations (`m ≤ i`)
      for q in [0:s / step] do
        let j := (1 <<< m) - 1 + q * step
        skew := skew.set! (j + s) (skew[j]! ^^^ temp[i]!)
    let tm := temp[m]!
    temp := temp.set! m (modulus - T.log[mulLog P T tm T.log[tm ^^^ 1]!]!)
    for i in [m + 1:bits - 1] do
      let ti := temp[i]!
      let sum := addMod P T.log[ti ^^^ 1]! temp[m]!
      temp := temp.set! i (mulLog P T ti sum)
  for i in [0:modulus] do
    skew := skew.set! i T.log[skew[i]!]!
  let mut walsh := Array.replicate order 0
  for i in [0:order] do
    walsh := walsh.set! i T.log[i]!
  walsh := walsh.set! 0 0
  return ⟨skew, fwht P walsh order⟩

/-- 4 (GF8: only the first 2 are used) × 16 nibble products `mulLog (x << 4i) log_m` -/
def nibbleProducts (T : LUTs) (logm : Nat) : Array Nat := Id.run do
  let mut tmp := Array.replicate 64 0
  for nib in [0:4] do
    for x in [0:16] do
      tmp := tmp.set! (nib * 16 + x) (mulLog P T ((x <<< (4 * nib)) % P.order) logm)
  return tmp

/-- GF8 `mul8LUTs[log_m].Value` -/
def mul8LUT (T : LUTs) (logm : Nat) : Array Nat :=
  let tmp := nibbleProducts P T logm
  Array.ofFn fun i : Fin 256 => tmp[i.val &&& 15]! ^^^ tmp[(i.val >>> 4) + 16]!

/-- GF16 `mul16LUTs[log_m].Lo / .Hi` -/
def mul16LUT (T : LUTs) (logm : Nat) : Array Nat × Array Nat :=
  let tmp := nibbleProducts P T logm
  (Array.ofFn fun i : Fin 256 => tmp[i.val &&& 15]! ^^^ tmp[(i.val >>> 4) + 16]!,
   Array.ofFn fun i : Fin 256 => tmp[(i.val &&& 15) + 32]! ^^^ tmp[(i.val >>> 4) + 48]!)

/-- GF8 `multiply256LUT8[log_m]`: 2 × 16 bytes -/
def mul256LUT8 (T : LUTs) (logm : Nat) : Array Nat :=
  let tmp := nibbleProducts P T logm
  Array.ofFn fun i : Fin 32 => tmp[i.val]!

/-- GF16 `multiply256LUT[log_m]`: 4 × 16 low bytes then 4 × 16 high bytes -/
def mul256LUT16 (T : LUTs) (logm : Nat) : Array Nat :=
  let tmp := nibbleProducts P T logm
  Array.ofFn fun i : Fin 128 => if i.val < 64 then tmp[i.val]! &&& 0xFF else tmp[i.val - 64]! >>> 8

end RSV.Model.Leo
