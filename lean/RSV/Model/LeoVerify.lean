import RSV.Model.Leopard
/-!
# L1: Leopard `Verify` (core Lean only)

`leopardFF8.Verify` / `leopardFF16.Verify` re-encode the `d` data shards into a scratch parity set and compare it,
shard by shard, with the `p` stored parity shards.  `leoVerify` is that function on the schedule model:
`shards` holds the data shards at indices `0 … d` and the parity shards at `d … d + p`.

`setSym shards i s v` overwrites symbol `s` of shard `i` with `v` (used to state "ONE symbol of ONE shard changed").
-/
namespace RSV.Model.Leo

/-- `Verify`: re-encode the data shards and compare with the stored parity shards -/
def leoVerify (C : Ctx) (d p len : Nat) (shards : Array Vec) : Bool :=
  encode C d p len (shards.extract 0 d) == shards.extract d (d + p)

/-- overwrite symbol `s` of shard `i` with `v` -/
def setSym (shards : Array Vec) (i s v : Nat) : Array Vec :=
  shards.set! i (shards[i]!.set! s v)

end RSV.Model.Leo
