import RSV.Model.LeoTables
/-!
# L1: Leopard Encode / Reconstruct as butterfly *schedules* (core Lean only)

The Go code (`leopard.go`, `leopard8.go`) is a fixed sequence of row operations on a work area
whose shape depends only on `(d, p)` (and, for Reconstruct, on the erasure set): copy a data shard
into a work row, clear a row, `x ^= y·exp(log_m)`, `x ^= y`.  The model separates

* the **schedule generators** (`encodeSched`, `reconSched`): plain executable code mirroring the
  loops of `ifftDITEncoder`, `ifftDITDecoder`, `fftDIT`, the formal-derivative loop and the
  error-locator computation; and
* the **interpreter** `run`, a fold over the step list acting on vectors of field symbols.

Every theorem about linearity, symbol-locality (hence independence of the 32 KiB chunking) and
independence of the initial work contents is a statement about `run` on *arbitrary* step lists.
A symbol is a byte for GF(2^8); for GF(2^16) it is the pair (byte k, byte k+32) of a 64-byte block.
-/
namespace RSV.Model.Leo

/-- one shard / work row: a vector of field symbols -/
abbrev Vec := Array Nat

inductive Step where
  | load (dst : Nat) (shard : Nat)                   -- work[dst] = shards[shard]
  | loadMul (dst : Nat) (shard : Nat) (logm : Nat)   -- work[dst] = shards[shard] · exp(logm)
  | clear (dst : Nat)                                -- work[dst] = 0
  | mulAdd (dst src : Nat) (logm : Nat)              -- work[dst] ^= work[src] · exp(logm)
  | xor (dst src : Nat)                              -- work[dst] ^= work[src]
deriving Repr, DecidableEq

structure Ctx where
  P : Params
  T : LUTs
  S : Skew

def mkCtx (P : Params) : Ctx :=
  let T := initLUTs P
  ⟨P, T, initFFTSkew P T⟩

variable (C : Ctx)

def mulSym (a logm : Nat) : Nat := mulLog C.P C.T a logm

def zeroVec (len : Nat) : Vec := Array.replicate len 0
def xorVec (x y : Vec) : Vec := Array.ofFn fun i : Fin x.size => x[i] ^^^ y[i.val]!
def mulVec (y : Vec) (logm : Nat) : Vec := y.map fun a => mulSym C a logm

/-- one step of the interpreter -/
def step (shards : Array Vec) (len : Nat) (w : Array Vec) (s : Step) : Array Vec :=
  match s with
  | .load dst sh => w.set! dst (shards[sh]!)
  | .loadMul dst sh logm => w.set! dst (mulVec C shards[sh]! logm)
  | .clear dst => w.set! dst (zeroVec len)
  | .mulAdd dst src logm => w.set! dst (xorVec w[dst]! (mulVec C w[src]! logm))
  | .xor dst src => w.set! dst (xorVec w[dst]! w[src]!)

/-- run a schedule on a work area -/
def run (shards : Array Vec) (len : Nat) (w : Array Vec) (steps : List Step) : Array Vec :=
  steps.foldl (step C shards len) w

/-! ### butterflies (reference semantics; `log_m = modulus` means "multiply by zero": xor only) -/

def fft2 (x y logm : Nat) : List Step :=
  (if logm = C.P.modulus then [] else [Step.mulAdd x y logm]) ++ [Step.xor y x]

def ifft2 (x y logm : Nat) : List Step :=
  [Step.xor y x] ++ (if logm = C.P.modulus then [] else [Step.mulAdd x y logm])

def fft4 (b dist m01 m23 m02 : Nat) : List Step :=
  fft2 C b (b + 2*dist) m02 ++ fft2 C (b + dist) (b + 3*dist) m02 ++
  fft2 C b (b + dist) m01 ++ fft2 C (b + 2*dist) (b + 3*dist) m23

def ifft4 (b dist m01 m23 m02 : Nat) : List Step :=
  ifft2 C b (b + dist) m01 ++ ifft2 C (b + 2*dist) (b + 3*dist) m23 ++
  ifft2 C b (b + 2*dist) m02 ++ ifft2 C (b + dist) (b + 3*dist) m02

def skewAt (i : Nat) : Nat := C.S.skew[i]!

/-- the layer loops of `ifftDITEncoder` / `ifftDITDecoder` on work rows `base … base+m`, reading
`skewLUT[k] = fftSkew[skewOff + k]`; `idxAdj = 0` for the encoder (`skewLUT[iend]`), `1` for the
decoder (`skewLUT[iend-1]`) -/
def ifftLayers (base mtrunc m skewOff idxAdj : Nat) : Array Step := Id.run do
  let mut out : Array Step := #[]
  let mut dist := 1
  let mut dist4 := 4
  for _ in [0:C.P.bits] do
    if dist4 ≤ m then
      let mut r := 0
      for _ in [0:m] do
        if r < mtrunc then
          let iend := r + dist
          let m01 := skewAt C (skewOff + iend - idxAdj)
          let m02 := skewAt C (skewOff + iend + dist - idxAdj)
          let m23 := skewAt C (skewOff + iend + dist*2 - idxAdj)
          for i in [r:iend] do
            out := out ++ (ifft4 C (base + i) dist m01 m23 m02).toArray
          r := r + dist4
      dist := dist4
      dist4 := dist4 <<< 2
  if dist < m then
    let logm := skewAt C (skewOff + dist - idxAdj)
    for i in [0:dist] do
      out := out ++ (ifft2 C (base + i) (base + i + dist) logm).toArray
  return out

/-- `fftDIT(work, mtrunc, m, fftSkew[:])` on rows `0 … m` -/
def fftLayers (mtrunc m : Nat) : Array Step := Id.run do
  let mut out : Array Step := #[]
  let mut dist4 := m
  let mut dist := m >>> 2
  for _ in [0:C.P.bits] do
    if dist ≠ 0 then
      let mut r := 0
      for _ in [0:m] do
        if r < mtrunc then
          let iend := r + dist
          let m01 := skewAt C (iend - 1)
          let m02 := skewAt C (iend + dist - 1)
          let m23 := skewAt C (iend + dist*2 - 1)
          for i in [r:iend] do
            out := out ++ (fft4 C i dist m01 m23 m02).toArray
          r := r + dist4
      dist4 := dist
      dist := dist >>> 2
  if dist4 = 2 then
    let mut r := 0
    for _ in [0:m] do
      if r < mtrunc then
        out := out ++ (fft2 C r (r + 1) (skewAt C r)).toArray
        r := r + 2
  return out

def ceilPow2 (n : Nat) : Nat := Id.run do
  let mut k := 1
  for _ in [0:64] do
    if k < n then k := k * 2
  return k

/-- schedule of `encode` for `d` data and `p` parity shards; parity `r` is work row `r` at the end -/
def encodeSched (d p : Nat) : Array Step := Id.run do
  let m := ceilPow2 p
  let mtrunc := if d < m then d else m
  let mut out : Array Step := #[]
  -- first group: rows 0 … m
  for i in [0:mtrunc] do out := out.push (Step.load i i)
  for i in [mtrunc:m] do out := out.push (Step.clear i)
  out := out ++ ifftLayers C 0 mtrunc m (m - 1) 0
  -- further groups of m data shards, accumulated into rows 0 … m
  if m < d then
    let groups := (d - m + m - 1) / m
    for g in [0:groups] do
      let i := m + g * m
      let cnt := if i + m ≤ d then m else d - i
      for k in [0:cnt] do out := out.push (Step.load (m + k) (i + k))
      for k in [cnt:m] do out := out.push (Step.clear (m + k))
      out := out ++ ifftLayers C m cnt m (m - 1 + i) 0
      for k in [0:m] do out := out.push (Step.xor k (m + k))
  out := out ++ fftLayers C p m
  return out

/-- `encode`: the parity shards -/
def encode (d p len : Nat) (data : Array Vec) : Array Vec :=
  let m := ceilPow2 p
  let w := run C data len (Array.replicate (2 * m) (zeroVec len)) (encodeSched C d p).toList
  w.extract 0 p

/-! ### Reconstruct -/

/-- the error locator table: `fwht`, multiply by `logWalsh`, `fwht` -/
def errLocs (d p : Nat) (missing : Nat → Bool) : Array Nat :=
  let m := ceilPow2 p
  let order := C.P.order
  let e0 : Array Nat := Array.ofFn fun i : Fin order =>
    if i.val < p then (if missing (d + i.val) then 1 else 0)
    else if i.val < m then 1
    else if i.val < m + d then (if missing (i.val - m) then 1 else 0)
    else 0
  let e1 := fwht C.P e0 (m + d)
  let e2 := Array.ofFn fun i : Fin order => (e1[i.val]! * C.S.walsh[i.val]!) % C.P.modulus
  fwht C.P e2 order

/-- schedule of `reconstruct` (full FFT; the bit-field-pruned FFT of the Go code must agree with it
on every output that is read).  Shard index `i < d` is data, `d + i` parity. -/
def reconSched (d p : Nat) (missing : Nat → Bool) (el : Array Nat) : Array Step := Id.run do
  let m := ceilPow2 p
  let n := ceilPow2 (m + d)
  let mut out : Array Step := #[]
  for i in [0:p] do
    out := out.push (if missing (d + i) then Step.clear i else Step.loadMul i (d + i) el[i]!)
  for i in [p:m] do out := out.push (Step.clear i)
  for i in [0:d] do
    out := out.push (if missing i then Step.clear (m + i) else Step.loadMul (m + i) i el[m + i]!)
  for i in [m + d:n] do out := out.push (Step.clear i)
  out := out ++ ifftLayers C 0 (m + d) n 0 1
  -- formal derivative
  for i in [1:n] do
    let width := ((i ^^^ (i - 1)) + 1) >>> 1
    for k in [0:width] do
      out := out.push (Step.xor (i - width + k) (i + k))
  out := out ++ fftLayers C (m + d) n
  return out

/-- `reconstruct`: the recovered shards (`none` where nothing is produced) -/
def reconstruct (d p len : Nat) (shards : Array Vec) (missing : Nat → Bool) (recoverAll : Bool) : Array (Option Vec) :=
  let m := ceilPow2 p
  let n := ceilPow2 (m + d)
  let el := errLocs C d p missing
  let w := run C shards len (Array.replicate n (zeroVec len)) (reconSched C d p missing el).toList
  Array.ofFn fun i : Fin (d + p) =>
    if !missing i.val then none
    else if i.val < d then some (mulVec C w[m + i.val]! (C.P.modulus - el[m + i.val]!))
    else if recoverAll then some (mulVec C w[i.val - d]! (C.P.modulus - el[i.val - d]!))
    else none

end RSV.Model.Leo
