import RSV.Model.Leopard
/-!
# L1: the bit-field-pruned final FFT of the Leopard decoders (core Lean only)

Go sources: `errorBitfield8.fftDIT8` (`leopard8.go`) and `errorBitfield.fftDIT` (`leopard.go`).  They are
`fftDIT8` / `fftDIT` with one extra test per block, `if !e.isNeeded(mipLevel, r) { continue }`:

```go
mipLevel := bits.Len32(uint32(m)) - 1
dist4 := m
dist := m >> 2
for dist != 0 {
    for r := 0; r < mtrunc; r += dist4 {
        if !e.isNeeded(mipLevel, r) { continue }
        … the radix-4 butterflies of the block [r, r + dist4) …
    }
    dist4 = dist
    dist >>= 2
    mipLevel -= 2
}
if dist4 == 2 {
    for r := 0; r < mtrunc; r += 2 {
        if !e.isNeeded(mipLevel, r) { continue }
        … the radix-2 butterfly on rows r, r+1 …
    }
}
```

`fftLayersPruned C need mtrunc m` is `fftLayers C mtrunc m` (`RSV/Model/Leopard.lean`) with that test; the bit field is
abstracted to `need : mipLevel → r → Bool` (instantiated with the word-level models `BF8` / `BF16` of
`RSV/Model/BitfieldImpl.lean` in `RSV/Props/C05prune.lean`).

Mirroring conventions (same as `fftLayers`)
* `for dist != 0 { … }` is the bounded `for _ in [0:C.P.bits] do if dist ≠ 0 then …` (at most `bits/2` passes run);
* `for r := 0; r < mtrunc; r += dist4` is the bounded `for _ in [0:m] do if r < mtrunc then … r := r + dist4`;
  `continue` skips the block body but not `r += dist4`;
* `mipLevel` is a natural number: `bits.Len32(uint32(m)) - 1 = Nat.log2 m` for `m ≥ 1` (for `m = 0` Go gives `-1`,
  the model `0`; no loop runs then), and `mipLevel -= 2` is only executed when `dist ≠ 0`, i.e. `dist4 ≥ 4`,
  `mipLevel ≥ 2`, so the truncated subtraction never truncates for `m` a power of two;
* GF(2^16) fetches the closure `needed := e.isNeededFn(mipLevel)` once per pass and calls `needed(r)`; that is the
  same test as `isNeeded(mipLevel, r)` (see `BitfieldImpl.lean`).

`errorBitPositions` lists the positions the Go `reconstruct` passes to `errorBits.set`, in program order.
-/
namespace RSV.Model.Leo

variable (C : Ctx)

/-- `errorBitfield8.fftDIT8(work, mtrunc, m, fftSkew8[:])` / `errorBitfield.fftDIT(…)` on rows `0 … m`;
`need mipLevel r` is `e.isNeeded(mipLevel, r)` -/
def fftLayersPruned (need : Nat → Nat → Bool) (mtrunc m : Nat) : Array Step := Id.run do
  let mut out : Array Step := #[]
  let mut mipLevel := Nat.log2 m
  let mut dist4 := m
  let mut dist := m >>> 2
  for _ in [0:C.P.bits] do
    if dist ≠ 0 then
      let mut r := 0
      for _ in [0:m] do
        if r < mtrunc then
          if need mipLevel r then
            let iend := r + dist
            let m01 := skewAt C (iend - 1)
            let m02 := skewAt C (iend + dist - 1)
            let m23 := skewAt C (iend + dist*2 - 1)
            for i in [r:iend] do
              out := out ++ (fft4 C i dist m01 m23 m02).toArray
          r := r + dist4
      dist4 := dist
      dist := dist >>> 2
      mipLevel := mipLevel - 2
  if dist4 = 2 then
    let mut r := 0
    for _ in [0:m] do
      if r < mtrunc then
        if need mipLevel r then
          out := out ++ (fft2 C r (r + 1) (skewAt C r)).toArray
        r := r + 2
  return out

/-- `reconSched` with the final transform run through the bit field (`useBits` branch of the Go `reconstruct`) -/
def reconSchedPruned (need : Nat → Nat → Bool) (d p : Nat) (missing : Nat → Bool) (el : Array Nat) :
    Array Step := Id.run do
  let m := ceilPow2 p
  let n := ceilPow2 (m + d)
  let mut out : Array Step := #[]
  for i in [0:p] do
    out := out.push (if missing (d + i) then Step.clear i else Step.loadMul i (d + i) el[i]!)
  for i in [p:m] do out := out.push (Step.clear i)
  for i in [0:d] do
    out := out.push (if missing i then Step.clear (m + i) else Step.loadMul (m + i) i el[m + i]!)
  for i in [m + d:n] do out := out.push (Step.clear i)
  out := out ++ ifftLayers C 0 (m + d) n 0 1
  -- formal derivative
  for i in [1:n] do
    let width := ((i ^^^ (i - 1)) + 1) >>> 1
    for k in [0:width] do
      out := out.push (Step.xor (i - width + k) (i + k))
  out := out ++ fftLayersPruned C need (m + d) n
  return out

/-- `reconstruct` with the pruned final transform -/
def reconstructPruned (need : Nat → Nat → Bool) (d p len : Nat) (shards : Array Vec) (missing : Nat → Bool)
    (recoverAll : Bool) : Array (Option Vec) :=
  let m := ceilPow2 p
  let n := ceilPow2 (m + d)
  let el := errLocs C d p missing
  let w := run C shards len (Array.replicate n (zeroVec len)) (reconSchedPruned C need d p missing el).toList
  Array.ofFn fun i : Fin (d + p) =>
    if !missing i.val then none
    else if i.val < d then some (mulVec C w[m + i.val]! (C.P.modulus - el[m + i.val]!))
    else if recoverAll then some (mulVec C w[i.val - d]! (C.P.modulus - el[i.val - d]!))
    else none

/-- the positions the Go `reconstruct` `set`s in `errorBits`, in program order: missing parity `i` and the padding
`p … m` only when `recoverAll`; missing data `m + i` always -/
def errorBitPositions (d p : Nat) (missing : Nat → Bool) (recoverAll : Bool) : List Nat :=
  let m := ceilPow2 p
  ((List.range p).filter fun i => recoverAll && missing (d + i)) ++
    ((List.range' p (m - p)).filter fun _ => recoverAll) ++
    ((List.range d).filter fun i => missing i).map fun i => i + m

end RSV.Model.Leo
