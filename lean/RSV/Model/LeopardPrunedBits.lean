import RSV.Model.LeopardPruned
import RSV.Model.BitfieldImpl
/-!
# L1: the Leopard decoders with their word-level error bit fields (core Lean only)

`need8 d p missing recoverAll lvl r` is `errorBits.isNeeded(lvl, r)` of `leopard8.go` after the `errorBits.set(…)` calls of
`reconstruct` (`errorBitPositions`) and `errorBits.prepare()`; `need16` is the same for `leopard.go`
(`errorBitfield.isNeeded` / `isNeededFn`).  The prepared bit field is computed once (the `let` outside the `fun`).

`reconstructBits8` / `reconstructBits16`: `reconstruct` on the `useBits` path.  (The Go code takes that path only when few
shards are missing and the shards are large; the models take it unconditionally — `RSV/Props/C05prune.lean` proves it
returns what the full transform returns for EVERY erasure set.)
-/
namespace RSV.Model.Leo
open RSV.Model.BitfieldImpl

def need8 (d p : Nat) (missing : Nat → Bool) (recoverAll : Bool) : Nat → Nat → Bool :=
  let e := (BF8.ofList (errorBitPositions d p missing recoverAll)).prepare
  fun lvl r => e.isNeeded lvl r

def need16 (d p : Nat) (missing : Nat → Bool) (recoverAll : Bool) : Nat → Nat → Bool :=
  let e := (BF16.ofList (errorBitPositions d p missing recoverAll)).prepare
  fun lvl r => e.isNeeded lvl r

/-- GF(2^8) `reconstruct`, `useBits` path (`C` = `mkCtx P8`) -/
def reconstructBits8 (C : Ctx) (d p len : Nat) (shards : Array Vec) (missing : Nat → Bool)
    (recoverAll : Bool) : Array (Option Vec) :=
  reconstructPruned C (need8 d p missing recoverAll) d p len shards missing recoverAll

/-- GF(2^16) `reconstruct`, `useBits` path (`C` = `mkCtx P16`) -/
def reconstructBits16 (C : Ctx) (d p len : Nat) (shards : Array Vec) (missing : Nat → Bool)
    (recoverAll : Bool) : Array (Option Vec) :=
  reconstructPruned C (need16 d p missing recoverAll) d p len shards missing recoverAll

end RSV.Model.Leo
