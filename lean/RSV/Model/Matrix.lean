/-!
# L1: matrices over a field-like type and the repository's Gaussian elimination

Core Lean only (the driver is compiled from this file).  Generic over a carrier `F` with
the core operation classes; `RSV.Model.GF256` instantiates it, the Mathlib-side proofs
instantiate it with any `Field`.

`matrix.go` keeps one augmented `n × 2n` matrix `[M | I]` and transforms it in place.
Here the left half `L` and the right half `R` are two `n × n` matrices transformed by the
same row operations; every operation is written as "build the new matrix from the old
one" (`Mat.ofFn`) so that it is at the same time executable in `O(n²)` per step and
transparent to proofs (`(Mat.ofFn f).get i j = f i j`).
Mirrors `matrix.go: gaussianElimination` — pivot = first row at or below the diagonal with
a non-zero entry in the column, swap, scale by the inverse, eliminate below; second sweep
eliminates above the diagonal.  The `!= 1` / `!= 0` guards of the Go code only skip
operations that would not change anything and are not modelled.
-/
namespace RSV.Model

/-- `n × m` matrix stored row-major -/
abbrev Mat (F : Type) (n m : Nat) := Vector (Vector F m) n

namespace Mat
variable {F : Type} {n m : Nat}

@[inline] def ofFn (f : Fin n → Fin m → F) : Mat F n m := Vector.ofFn fun i => Vector.ofFn (f i)
@[inline] def get (A : Mat F n m) (i : Fin n) (j : Fin m) : F := (A[i])[j]

@[simp] theorem get_ofFn (f : Fin n → Fin m → F) (i : Fin n) (j : Fin m) : (ofFn f).get i j = f i j := by
  simp [ofFn, get]

theorem ext_get {A B : Mat F n m} (h : ∀ i j, A.get i j = B.get i j) : A = B := by
  apply Vector.ext; intro i hi
  apply Vector.ext; intro j hj
  exact h ⟨i, hi⟩ ⟨j, hj⟩

end Mat

/-- sum of `f 0 … f (n-1)`; matches `Fin.sum_univ_castSucc` -/
def finSum {F : Type} [Zero F] [Add F] : {n : Nat} → (Fin n → F) → F
  | 0, _ => 0
  | _+1, f => finSum (fun i => f i.castSucc) + f (Fin.last _)

section
variable {F : Type} [Zero F] [One F] [Add F] [Sub F] [Mul F] [Inv F] [DecidableEq F]
variable {n m k : Nat}

def identity (n : Nat) : Mat F n n := Mat.ofFn fun i j => if i = j then 1 else 0

/-- `matrix.Multiply` -/
def mulMat (A : Mat F n k) (B : Mat F k m) : Mat F n m :=
  Mat.ofFn fun i j => finSum fun t => A.get i t * B.get t j

/-- index swap used by `SwapRows` -/
def swapIdx (a b r : Fin n) : Fin n := if r = a then b else if r = b then a else r

def rowSwap (A : Mat F n m) (a b : Fin n) : Mat F n m := Mat.ofFn fun r j => A.get (swapIdx a b r) j
def rowScale (A : Mat F n m) (i : Fin n) (c : F) : Mat F n m :=
  Mat.ofFn fun r j => if r = i then c * A.get i j else A.get r j
/-- subtract `coef i` times row `r` from every row `i` -/
def rowElim (A : Mat F n m) (r : Fin n) (coef : Fin n → F) : Mat F n m :=
  Mat.ofFn fun i j => A.get i j - coef i * A.get r j

/-- first index satisfying `p`, scanning upwards (the Go loop looks at `r`, then `r+1 …`) -/
def findFirst : {n : Nat} → (Fin n → Bool) → Option (Fin n)
  | 0, _ => none
  | _+1, p => match findFirst (fun i => p i.castSucc) with
    | some i => some i.castSucc
    | none => if p (Fin.last _) then some (Fin.last _) else none

/-- state of the elimination: left and right halves of the augmented matrix -/
structure GState (F : Type) (n : Nat) where
  L : Mat F n n
  R : Mat F n n

/-- first sweep, column `r`; `none` = `errSingular` -/
def step1 (r : Fin n) (s : GState F n) : Option (GState F n) :=
  match findFirst (fun i => decide (r ≤ i) && decide (s.L.get i r ≠ 0)) with
  | none => none
  | some p =>
    let L1 := rowSwap s.L r p
    let R1 := rowSwap s.R r p
    let c := (L1.get r r)⁻¹
    let L2 := rowScale L1 r c
    let R2 := rowScale R1 r c
    let coef : Fin n → F := fun i => if r < i then L2.get i r else 0
    some ⟨rowElim L2 r coef, rowElim R2 r coef⟩

/-- second sweep, column `d` -/
def step2 (d : Fin n) (s : GState F n) : GState F n :=
  let coef : Fin n → F := fun i => if i < d then s.L.get i d else 0
  ⟨rowElim s.L d coef, rowElim s.R d coef⟩

def phase1 (s : GState F n) : (k : Nat) → k ≤ n → Option (GState F n)
  | 0, _ => some s
  | k+1, h => (phase1 s k (Nat.le_of_succ_le h)).bind (step1 ⟨k, h⟩)

def phase2 (s : GState F n) : (k : Nat) → k ≤ n → GState F n
  | 0, _ => s
  | k+1, h => step2 ⟨k, h⟩ (phase2 s k (Nat.le_of_succ_le h))

/-- `matrix.Invert`: `none` = `errSingular` -/
def invert (M : Mat F n n) : Option (Mat F n n) :=
  (phase1 ⟨M, identity n⟩ n (Nat.le_refl n)).map fun s => (phase2 s n (Nat.le_refl n)).R

end
end RSV.Model
