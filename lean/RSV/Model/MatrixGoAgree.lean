import RSV.Gen.MatrixGo
import RSV.Model.Matrix
import RSV.Model.Builders
import RSV.Model.GF256
/-!
# The regenerated `matrix.go` code against the model's Gaussian elimination (core Lean only)

`RSV.Gen.matrix_Invert` is the statement-by-statement translation of `matrix.go: (matrix) Invert`
(with `identityMatrix`, `Augment`, `gaussianElimination`, `SwapRows`, `SubMatrix`, `IsSquare`,
`newMatrix`, `galOneOver`, `galMultiply`), regenerated from the current Go source on every run.
`genInvertAgrees` runs it next to the model's `RSV.Model.invert` (the function the inversion theorems
are about) on one square byte matrix and compares verdict and inverse.  It is executable (the driver
can call it on the matrices it meets) and small instances are checked by the kernel below.
-/
namespace RSV.Model
open RSV

/-- a non-empty square matrix of bytes -/
def squareBytes (rows : List (List Nat)) : Bool :=
  rows.length != 0 && rows.all fun r => r.length == rows.length && r.all (· < 256)

def matOfRows (rows : Array (Array Nat)) (n : Nat) : Mat GF256 n n :=
  Mat.ofFn fun i j => GF256.ofNat (rows[i.val]![j.val]!)

def rowsOfMat {n m : Nat} (A : Mat GF256 n m) : Array (Array Nat) :=
  Array.ofFn fun (i : Fin n) => Array.ofFn fun (j : Fin m) => (A.get i j).val

/-- the regenerated `matrix.Invert` and the model's `invert` agree on this square byte matrix:
both return the same inverse, or Go returns `errSingular` and the model `none`; `false` also when the
Go code panics, returns another error, or the input is not a non-empty square matrix of bytes -/
def genInvertAgrees (rows : List (List Nat)) : Bool :=
  let a : Array (Array Nat) := (rows.map List.toArray).toArray
  squareBytes rows &&
  match Gen.matrix_Invert a, invert (matOfRows a rows.length) with
  | some (inv, none), some B => inv == rowsOfMat B
  | some (_, some e), none => e == "errSingular"
  | _, _ => false

/-- the regenerated `vandermonde(rows, cols)` is the matrix of powers `r^c` (`gpow`) -/
def genVandermondeAgrees (rows cols : Nat) : Bool :=
  match Gen.vandermonde (Int.ofNat rows) (Int.ofNat cols) with
  | some (m, none) =>
    m == Array.ofFn fun (r : Fin rows) => Array.ofFn fun (c : Fin cols) => gpow (r.val % 256) c.val
  | _ => false

/-! kernel-checked instances: identity, a matrix needing a row swap, a singular matrix, a Vandermonde
sub-matrix, a dense 4×4 -/
example : genInvertAgrees [[1, 0], [0, 1]] = true := by decide +kernel
example : genInvertAgrees [[0, 1], [1, 0]] = true := by decide +kernel
example : genInvertAgrees [[0, 2, 3], [0, 0, 7], [5, 1, 1]] = true := by decide +kernel
example : genInvertAgrees [[1, 2], [2, 4]] = true := by decide +kernel          -- singular
example : genInvertAgrees [[1, 1, 1], [1, 2, 4], [1, 3, 5]] = true := by decide +kernel
example : genInvertAgrees [[56, 23, 98, 1], [3, 100, 200, 45], [45, 201, 123, 7], [0, 0, 9, 255]] = true := by
  decide +kernel
example : Gen.matrix_Invert #[#[1, 2], [3, 4].toArray] = some (#[#[2, 1], #[143, 142]], none) := by decide +kernel
example : Gen.matrix_Invert #[#[1, 2], #[2, 4]] = some (#[], some "errSingular") := by decide +kernel
example : Gen.matrix_Invert #[#[1, 2, 3], #[2, 4, 5]] = some (#[], some "errNotSquare") := by decide +kernel
example : genInvertAgrees [[1, 2, 3], [2, 4, 5]] = false := by decide +kernel   -- not square: not compared

/-! `vandermonde` calls `galExp`, whose reduction loop is a `partial_fixpoint` definition: the kernel does
not evaluate it, so this instance is an executable test (compiled evaluation at build time), not a theorem;
`RSV.Props.C17funcs.C17f_galExp` is the theorem about `galExp` -/
#guard genVandermondeAgrees 6 4
#guard genVandermondeAgrees 255 17

/-! ## the generator-matrix builders of `reedsolomon.go` against `RSV.Model.Builders` -/

/-- `byte(i)` as a field element -/
def xByte (i : Nat) : GF256 := GF256.ofNat i

def sameMatrix {n m : Nat} (go : Option (Array (Array Nat) × Option String)) (model : Mat GF256 n m) : Bool :=
  match go with
  | some (a, none) => a == rowsOfMat model
  | _ => false

/-- regenerated `buildMatrixCauchy(d, total)` = the model's Cauchy generator -/
def genCauchyAgrees (d total : Nat) : Bool :=
  sameMatrix (Gen.buildMatrixCauchy (Int.ofNat d) (Int.ofNat total)) (buildMatrixCauchy xByte d total)

/-- regenerated `buildXorMatrix(d, d+1)` = the model's -/
def genXorAgrees (d : Nat) : Bool :=
  sameMatrix (Gen.buildXorMatrix (Int.ofNat d) (Int.ofNat (d + 1))) (buildXorMatrix (F := GF256) d (d + 1))

/-- regenerated `buildMatrixPAR1(d, total)` = the model's -/
def genPAR1Agrees (d total : Nat) : Bool :=
  sameMatrix (Gen.buildMatrixPAR1 (Int.ofNat d) (Int.ofNat total)) (buildMatrixPAR1 xByte d total)

/-- regenerated `buildMatrix(d, total)` (Vandermonde · inverse of its top square, through the regenerated
`vandermonde`, `SubMatrix`, `Invert`, `Multiply`) = the model's; both singular counts as agreement -/
def genBuildMatrixAgrees (d total : Nat) : Bool :=
  if h : d ≤ total then
    match Gen.buildMatrix (Int.ofNat d) (Int.ofNat total), buildMatrix xByte d total h with
    | some (a, none), some M => a == rowsOfMat M
    | some (_, some e), none => e == "errSingular"
    | _, _ => false
  else false

example : genCauchyAgrees 4 7 = true := by decide +kernel
example : genCauchyAgrees 10 14 = true := by decide +kernel
example : genXorAgrees 5 = true := by decide +kernel
/-! executable tests (the Vandermonde-based builders go through `galExp`, see above) -/
#guard genPAR1Agrees 5 8
#guard genBuildMatrixAgrees 4 7
#guard genBuildMatrixAgrees 10 14
#guard genBuildMatrixAgrees 17 20
#guard genCauchyAgrees 100 156

end RSV.Model
