import RSV.Model.Codec
/-!
# L1: the inversion tree (`inversion_tree.go`) and the cached reconstruct step (core Lean only)

The tree is a trie keyed by the strictly increasing list of invalid (missing) shard indices seen
before `d` valid ones were found.  A child is addressed by `firstIndex - parent` exactly as in the
Go code; `empty` is the nil pointer.  Slice bounds of `children` are not modelled (keys are
`< totalShards` in every call the package makes).
-/
namespace RSV.Model.Memo

inductive Node (V : Type) where
  | empty : Node V
  | mk (val : Option V) (children : Nat → Node V) : Node V

namespace Node
variable {V : Type}

def val : Node V → Option V
  | empty => none
  | mk v _ => v

def child : Node V → Nat → Node V
  | empty, _ => empty
  | mk _ ch, k => ch k

/-- `inversionNode.getInvertedMatrix(invalidIndices, parent)` -/
def get : List Nat → Node V → Nat → Option V
  | [], _, _ => none
  | i :: rest, n, parent =>
    let c := n.child (i - parent)
    match rest with
    | [] => c.val
    | _ :: _ => get rest c (i + 1)

/-- `inversionNode.insertInvertedMatrix(invalidIndices, matrix, shards, parent)` -/
def insert : List Nat → Node V → Nat → V → Node V
  | [], n, _, _ => n
  | i :: rest, n, parent, v =>
    let c := n.child (i - parent)
    let c' : Node V :=
      match rest with
      | [] => mk (some v) (fun k => c.child k)
      | _ :: _ => insert rest (mk c.val (fun k => c.child k)) (i + 1) v
    mk n.val (fun k => if k = i - parent then c' else n.child k)

end Node

/-- the tree: `none` = cache disabled (`r.tree == nil`); the root holds the identity -/
structure Tree (V : Type) where
  root : Node V

/-- `GetInvertedMatrix` -/
def Tree.get {V : Type} (t : Option (Tree V)) (key : List Nat) : Option V :=
  match t with
  | none => none
  | some t => match key with
    | [] => t.root.val
    | _ => Node.get key t.root 0

/-- `InsertInvertedMatrix` (the empty key is rejected with `errAlreadySet`: modelled as no change) -/
def Tree.insert {V : Type} (t : Option (Tree V)) (key : List Nat) (v : V) : Option (Tree V) :=
  match t with
  | none => none
  | some t => match key with
    | [] => some t
    | _ => some ⟨Node.insert key t.root 0 v⟩

section
variable {F : Type} [Zero F] [One F] [Add F] [Sub F] [Mul F] [Inv F] [DecidableEq F]

/-- `newInversionTree`: the root carries the identity matrix -/
def newTree (d : Nat) : Tree (Mat F d d) := ⟨Node.mk (some (identity d)) (fun _ => Node.empty)⟩

/-- the cache key of a call: invalid indices met before `d` valid ones -/
def cacheKey {n : Nat} (present : Fin n → Bool) (d : Nat) : List Nat :=
  (invalidBefore present d).map (·.val)

/-- one `Reconstruct*` call on an encoder holding tree `t`: look the inverse up by key, otherwise
invert and insert.  Returns the result and the new tree. -/
def reconStep {d p len : Nat} (A : Mat F p d) (t : Option (Tree (Mat F d d)))
    (sh : Fin (d + p) → Option (Shard F len)) (mode : ReconMode) :
    Except ReconErr (Fin (d + p) → Option (Shard F len)) × Option (Tree (Mat F d d)) :=
  let present : Fin (d + p) → Bool := fun i => (sh i).isSome
  let key := cacheKey present d
  match Tree.get t key with
  | some dec => (reconstructWith (fun _ => some dec) A sh mode, t)
  | none =>
    let res := reconstructWith invert A sh mode
    -- the insert happens only when the inversion was reached and succeeded
    let t' := match reconShape d p present mode with
      | .fill _ =>
        let valid := firstPresent present d
        let sub : Mat F d d := Mat.ofFn fun i c =>
          match valid[i.val]? with
          | some vi => genRow A vi c
          | none => 0
        (match invert sub with
         | some dec => Tree.insert t key dec
         | none => t)
      | _ => t
    (res, t')

/-- a history of calls on one encoder -/
def runHistory {d p len : Nat} (A : Mat F p d) (t : Option (Tree (Mat F d d))) :
    List ((Fin (d + p) → Option (Shard F len)) × ReconMode) →
    List (Except ReconErr (Fin (d + p) → Option (Shard F len))) × Option (Tree (Mat F d d))
  | [] => ([], t)
  | (sh, mode) :: rest =>
    let (r, t1) := reconStep A t sh mode
    let (rs, t2) := runHistory A t1 rest
    (r :: rs, t2)

end

/-! ### lock-atomic interleaving semantics of concurrent callers (C11)

Each caller performs `lookup` (under the read lock), on a miss computes the pure function
outside any lock, then `insert` (under the write lock).  A schedule is any sequence of
thread ids; every step of a thread is atomic. -/

structure Iface (C K V : Type) where
  get : C → K → Option V
  insert : C → K → V → C

inductive Phase (V : Type) where
  | start
  | computed (v : Option V)
  | done (r : Option V)

def setPhase {V : Type} (ph : Nat → Phase V) (tid : Nat) (x : Phase V) : Nat → Phase V :=
  fun t => if t = tid then x else ph t

def conStep {C K V : Type} (I : Iface C K V) (f : K → Option V) (keys : Nat → K)
    (s : C × (Nat → Phase V)) (tid : Nat) : C × (Nat → Phase V) :=
  match s.2 tid with
  | .start =>
    match I.get s.1 (keys tid) with
    | some v => (s.1, setPhase s.2 tid (.done (some v)))
    | none => (s.1, setPhase s.2 tid (.computed (f (keys tid))))
  | .computed (some v) => (I.insert s.1 (keys tid) v, setPhase s.2 tid (.done (some v)))
  | .computed none => (s.1, setPhase s.2 tid (.done none))
  | .done _ => s

def runSchedule {C K V : Type} (I : Iface C K V) (f : K → Option V) (keys : Nat → K)
    (s : C × (Nat → Phase V)) (sched : List Nat) : C × (Nat → Phase V) :=
  sched.foldl (conStep I f keys) s

end RSV.Model.Memo
