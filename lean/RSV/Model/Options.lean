/-!
# L1: the derived processing parameters of `New` (core Lean only)

`New` derives `perRound`, `minSplitSize` and `maxGoroutines` from cpuid cache sizes, the thread
topology, `GOMAXPROCS` and the caller's options.  The range-splitting theorems (C07) need
`0 < minSplitSize`, `0 < perRound`; the worker loops divide by `maxGoroutines`.  Integers are `Int`
because cpuid reports `-1`/`0` for unknown cache sizes.
-/
namespace RSV.Model.Options

structure Cpu where
  l1d : Int
  l2 : Int
  threadsPerCore : Int
  physicalCores : Int
  gomaxprocs : Int          -- ≥ 1

structure In where
  d : Int
  p : Int                   -- ≥ 1 (the derivation is skipped for p = 0)
  maxGoroutines : Int       -- ≥ 1: default 384 (1 if GOMAXPROCS ≤ 1) or WithMaxGoroutines(n > 0)
  minSplitSize : Int        -- -1 or WithMinSplitSize(n > 0)
  shardSize : Int           -- WithAutoGoroutines; ≤ 0 = not given
  useCodeGen : Bool         -- codeGen && pshufb && useAVX2
  useGFNI : Bool            -- codeGen && (useAvx512GFNI || useAvxGNFI)

structure Out where
  perRound : Int
  minSplitSize : Int
  maxGoroutines : Int
deriving Repr, DecidableEq

def derive (c : Cpu) (i : In) : Out :=
  let perRound0 := if c.l2 < 128 * 1024 then 128 * 1024 else c.l2
  let (perRound1, divide) : Int × Int :=
    if i.useCodeGen && (decide (i.d > 10) || decide (i.p > 10)) then
      let pr := if c.l1d < 32 * 1024 then 32 * 1024 else c.l1d
      (pr, (if i.d > 10 then 10 else i.d) + (if i.p > 10 then 10 else i.p))
    else (perRound0, i.p + 1)
  let perRound2 := if c.threadsPerCore > 1 && i.maxGoroutines > c.physicalCores then perRound1 / c.threadsPerCore else perRound1
  let perRound3 := perRound2 / divide
  let perRound4 := ((perRound3 + 63) / 64) * 64
  let perRound5 := if perRound4 < 1024 then 1024 else perRound4
  let minSplit :=
    if i.minSplitSize ≤ 0 then
      let cacheSize := if c.l1d ≤ 0 then 32 * 1024 else c.l1d
      let ms := cacheSize / (i.p + 1)
      if ms < 1024 then 1024 else ms
    else i.minSplitSize
  let (perRound6, maxGor1) : Int × Int :=
    if i.shardSize > 0 then
      let P := c.gomaxprocs
      if P = 1 || i.shardSize ≤ minSplit * 2 then (perRound5, 1)
      else
        let g0 := i.shardSize / perRound5
        let (g1, pr) := if g0 < P * 2 && perRound5 > minSplit * 2 then (P * 2, perRound5 / 2) else (g0, perRound5)
        let g2 := g1 + (P - 1)
        (pr, g2 - g2 % P)
    else (perRound5, i.maxGoroutines)
  let maxGor2 := if i.useCodeGen && maxGor1 > 8 then 8 else maxGor1
  let maxGor3 := if i.useGFNI && maxGor2 > 4 then 4 else maxGor2
  ⟨perRound6, minSplit, maxGor3⟩

end RSV.Model.Options
