/-!
# L0/L1: `Split` and `Join` (core Lean only)

Bytes are naturals; a buffer is a `List Nat`.  `q` is the shard-size multiple (`1` for the
GF(2^8) matrix codec, `64` for Leopard), `d` data shards, `p` parity shards.
`split` mirrors `reedSolomon.Split` / `leopardFF8.Split` / `leopardFF16.Split`: the input slice
is `data` with `spare` = the (stale) bytes of its capacity beyond its length.
-/
namespace RSV.Model.SJ

inductive Err where
  | shortData | tooFewShards | reconstructRequired
deriving Repr, DecidableEq

def zeros (n : Nat) : List Nat := List.replicate n 0

/-- bytes per shard: `ceil(len/d)` rounded up to a multiple of `q` -/
def perShard (q d len : Nat) : Nat := ((len + d - 1) / d + q - 1) / q * q

/-- cut a buffer into `n` consecutive pieces of `k` bytes -/
def chunks (k : Nat) : Nat → List Nat → List (List Nat)
  | 0, _ => []
  | n+1, l => l.take k :: chunks k n (l.drop k)

/-- L0: the shards are the input followed by zeros, cut into `d+p` pieces of `perShard` bytes -/
def splitSpec (q d p : Nat) (data : List Nat) : Except Err (List (List Nat)) :=
  if data.length = 0 then .error .shortData
  else if d + p = 1 ∧ (q = 1 ∨ data.length % 64 = 0) then .ok [data]
  else
    let ps := perShard q d data.length
    .ok (chunks ps (d + p) (data ++ zeros ((d + p) * ps - data.length)))

/-- distribute `src` over freshly allocated zero shards of `k` bytes (the `copy` loop) -/
def fillPadding (k : Nat) : Nat → List Nat → List (List Nat)
  | 0, _ => []
  | n+1, src => (src.take k ++ zeros (k - (src.take k).length)) :: fillPadding k n (src.drop k)

/-- L1: the algorithm of `Split`, with the spare capacity of the input slice -/
def split (q d p : Nat) (data spare : List Nat) : Except Err (List (List Nat)) :=
  if data.length = 0 then .error .shortData
  else if d + p = 1 ∧ (q = 1 ∨ data.length % 64 = 0) then .ok [data]
  else
    let total := d + p
    let dataLen := data.length
    let ps := perShard q d dataLen
    let needTotal := total * ps
    let cap := dataLen + spare.length
    -- extend into the capacity and clear it
    let data1 : List Nat :=
      if cap > dataLen then
        (if cap > needTotal then data ++ zeros (needTotal - dataLen) else data ++ zeros (cap - dataLen))
      else data
    -- NB: when cap > needTotal ≥ … the Go code re-slices to needTotal; if needTotal < dataLen this
    -- cannot happen since needTotal ≥ d*ps ≥ dataLen
    let fullShards := data1.length / ps
    let padding : List (List Nat) :=
      if data1.length < needTotal then
        (if dataLen > ps * fullShards then fillPadding ps (total - fullShards) ((data1.take dataLen).drop (ps * fullShards))
         else List.replicate (total - fullShards) (zeros ps))
      else []
    -- shards taken from the input while a full shard remains, the rest from the padding
    let nFromData := min total (data1.length / ps)
    .ok (chunks ps nFromData data1 ++ padding.take (total - nFromData))

/-- number of leading output shards that alias the caller's array -/
def splitAliased (q d p : Nat) (dataLen cap : Nat) : Nat :=
  let ps := perShard q d dataLen
  let len1 := if cap > dataLen then min cap ((d + p) * ps) else dataLen
  min (d + p) (len1 / ps)

/-- `Join`: shards (`none` = nil) and the requested size; returns the bytes written -/
def join (d : Nat) (shards : List (Option (List Nat))) (outSize : Nat) : Except Err (List Nat) :=
  if shards.length < d then .error .tooFewShards
  else
    let sh := shards.take d
    -- size check with early exit
    let rec scan : List (Option (List Nat)) → Nat → Except Err Nat
      | [], size => .ok size
      | none :: _, _ => .error .reconstructRequired
      | some s :: rest, size =>
        let size' := size + s.length
        if size' ≥ outSize then .ok size' else scan rest size'
    match scan sh 0 with
    | .error e => .error e
    | .ok size =>
      if size < outSize then .error .shortData
      else
        -- copy loop: whole shards until fewer than a shard's worth remains
        let rec copy : List (Option (List Nat)) → Nat → List Nat → List Nat
          | [], _, acc => acc
          | none :: rest, w, acc => copy rest w acc          -- writes nothing (len 0), `write -= 0`
          | some s :: rest, w, acc =>
            if w < s.length then acc ++ s.take w else copy rest (w - s.length) (acc ++ s)
        .ok (copy sh outSize [])

end RSV.Model.SJ
