/-!
# L1: the streaming API (`streaming.go`, after the `fix:` commits) — core Lean only

Bytes are naturals, streams are lists.  A reader has a content and an optional fault position;
`readFull` re-models `io.ReadFull` (`io.ReadAtLeast`'s loop) at the level of "how many bytes are
available before the end or the fault" — by construction independent of how the underlying
reader fragments its data.  A writer records what it accepted and may fail or short-write.
The block codec (in-memory Encode / Verify / Reconstruct on one block) is an abstract parameter.
-/
namespace RSV.Model.St

inductive Err where
  | tooFewShards | shardNoData | shardSize | reconMismatch | shortData | invShardNum | codec (tag : Nat)
  | read (stream : Nat)                    -- StreamReadError{Stream}
  | write (stream : Nat) (short : Bool)    -- StreamWriteError{Stream}, short = io.ErrShortWrite
  | readNoData (stream : Nat)              -- StreamReadError{ErrShardNoData, Stream}: nil reader
  | writeNoData (stream : Nat)             -- StreamWriteError{ErrShardNoData, Stream}: nil writer
  | rawRead                                -- the reader's own error, unwrapped (Split / Join)
  | rawWrite (short : Bool)                -- the writer's own error / io.ErrShortWrite, unwrapped (Split / Join)
deriving Repr, DecidableEq

/-- reader: remaining content; `failIn = some k` = the underlying reader returns an error after
delivering `k` more bytes -/
structure Rd where
  data : List Nat
  failIn : Option Nat
deriving Repr, DecidableEq

inductive ReadOutcome where
  | full | eof | unexpectedEOF | error
deriving Repr, DecidableEq

/-- `io.ReadFull(r, buf)` with `len(buf) = want` -/
def readFull (r : Rd) (want : Nat) : List Nat × ReadOutcome × Rd :=
  let avail := match r.failIn with
    | some k => min k r.data.length
    | none => r.data.length
  if want ≤ avail then
    (r.data.take want, .full, ⟨r.data.drop want, r.failIn.map (· - want)⟩)
  else
    let got := r.data.take avail
    let r' : Rd := ⟨r.data.drop avail, r.failIn.map (· - avail)⟩
    match r.failIn with
    | some k => if k ≤ r.data.length then (got, .error, r') else (got, if avail = 0 then .eof else .unexpectedEOF, r')
    | none => (got, if avail = 0 then .eof else .unexpectedEOF, r')

/-- writer: accepted bytes; `limit = some k`: it accepts at most `k` more bytes, then fails
(`short = true`: returns n < len without error) -/
structure Wr where
  got : List Nat
  limit : Option Nat
  short : Bool
deriving Repr, DecidableEq

/-- one `Write` call; `none` = success -/
def writeTo (w : Wr) (bs : List Nat) : Wr × Option Bool :=
  match w.limit with
  | none => (⟨w.got ++ bs, none, w.short⟩, none)
  | some k =>
    if bs.length ≤ k then (⟨w.got ++ bs, some (k - bs.length), w.short⟩, none)
    else (⟨w.got ++ bs.take k, some 0, w.short⟩, some w.short)

/-- result of `readShards` -/
inductive ReadShards where
  | ok (blocks : List (List Nat)) (rds : List (Option Rd))
  | eof (rds : List (Option Rd))
  | err (e : Err)

/-- `readShards(dst, in)`: `lens[i]` is the current length of `dst[i]`.  Sequential version; the
concurrent version computes the same function except that, when several streams fail, the
reported stream index is that of *a* failing stream. -/
def readShardsAux : List Nat → List (Option Rd) → Nat → (Option Nat) → Bool → List (List Nat) → List (Option Rd) → ReadShards
  | l :: ls, some r :: rs, i, size, full, accB, accR =>
    let (got, oc, r') := readFull r l
    match oc with
    | .full => readShardsAux ls rs (i + 1) size true (accB ++ [got]) (accR ++ [some r'])
    | .error => .err (.read i)
    | _ =>   -- eof / unexpectedEOF
      match size with
      | none => readShardsAux ls rs (i + 1) (some got.length) full (accB ++ [got]) (accR ++ [some r'])
      | some sz => if got.length ≠ sz then .err .shardSize
                   else readShardsAux ls rs (i + 1) size full (accB ++ [got]) (accR ++ [some r'])
  | _ :: ls, none :: rs, i, size, full, accB, accR =>
    readShardsAux ls rs (i + 1) size full (accB ++ [[]]) (accR ++ [none])
  | _, _, _, size, full, accB, accR =>
    if full && size.isSome then .err .shardSize
    else if size = some 0 then .eof accR
    else .ok accB accR

def readShards (lens : List Nat) (rds : List (Option Rd)) : ReadShards :=
  readShardsAux lens rds 0 none false [] []

/-- `shardSize`: first non-zero length -/
def shardSize (blocks : List (List Nat)) : Nat :=
  match blocks.find? (fun b => b.length ≠ 0) with
  | some b => b.length
  | none => 0

/-- `writeShards(out, in)`: sequential; stops at the first failing writer -/
def writeShardsSeq : List (Option Wr) → List (List Nat) → Nat → List (Option Wr) → List (Option Wr) × Option Err
  | some w :: ws, b :: bs, i, acc =>
    match writeTo w b with
    | (w', none) => writeShardsSeq ws bs (i + 1) (acc ++ [some w'])
    | (w', some short) => (acc ++ [some w'] ++ ws, some (.write i short))
  | none :: ws, _ :: bs, i, acc => writeShardsSeq ws bs (i + 1) (acc ++ [none])
  | ws, _, _, acc => (acc ++ ws, none)

/-- `cWriteShards`: every writer receives its block; *a* failing writer is reported (the lowest
index here; with a single fault the choice is unique) -/
def writeShardsConc : List (Option Wr) → List (List Nat) → Nat → List (Option Wr) → Option Err → List (Option Wr) × Option Err
  | some w :: ws, b :: bs, i, acc, e =>
    match writeTo w b with
    | (w', none) => writeShardsConc ws bs (i + 1) (acc ++ [some w']) e
    | (w', some short) => writeShardsConc ws bs (i + 1) (acc ++ [some w']) (e.orElse fun _ => some (.write i short))
  | none :: ws, _ :: bs, i, acc, e => writeShardsConc ws bs (i + 1) (acc ++ [none]) e
  | ws, _, _, acc, e => (acc ++ ws, e)

def writeShards (conc : Bool) (ws : List (Option Wr)) (bs : List (List Nat)) (i : Nat) (acc : List (Option Wr)) :
    List (Option Wr) × Option Err :=
  if conc then writeShardsConc ws bs i acc none else writeShardsSeq ws bs i acc

/-- the in-memory codec on one block, as an abstract parameter -/
structure BlockCodec where
  d : Nat
  p : Nat
  /-- parity shards of `d` data blocks of equal length -/
  encode : List (List Nat) → List (List Nat)
  /-- in-memory Verify verdict on `d+p` blocks of equal length -/
  verify : List (List Nat) → Bool
  /-- in-memory Reconstruct / ReconstructData on `d+p` blocks (`[]` = missing): the completed set or an error tag -/
  reconstruct : List (List Nat) → Bool → Except Nat (List (List Nat))

/-- result of a stream call: the error (or none) and the final state of the writers -/
structure Result where
  err : Option Err
  writers : List (Option Wr)
deriving Repr, DecidableEq

/-- the block loop of `rsStream.Encode`; `fuel` bounds the number of blocks -/
def encodeLoop (C : BlockCodec) (conc : Bool) : Nat → List Nat → List (Option Rd) → List (Option Wr) → Nat → Result
  | 0, _, _, ws, _ => ⟨some (.codec 999), ws⟩      -- out of fuel: never reached with fuel ≥ length/B + 2
  | fuel + 1, lens, rds, ws, read =>
    match readShards lens rds with
    | .err e => ⟨some e, ws⟩
    | .eof _ => ⟨if read = 0 then some .shardNoData else none, ws⟩
    | .ok blocks rds' =>
      let size := shardSize blocks
      -- r.r.Encode(all): checkShards — every data block must have the common non-zero size
      if size = 0 then ⟨some .shardNoData, ws⟩
      else if blocks.any (fun b => b.length ≠ size) then ⟨some .shardSize, ws⟩
      else
        let par := C.encode blocks
        match writeShards conc ws par 0 [] with
        | (ws', some e) => ⟨some e, ws'⟩
        | (ws', none) => encodeLoop C conc fuel (blocks.map (·.length)) rds' ws' (read + size)

/-- `rsStream.Encode(data, parity)` with block size `B` -/
def encode (C : BlockCodec) (conc : Bool) (B : Nat) (data : List (Option Rd)) (parity : List (Option Wr)) : Result :=
  if data.length ≠ C.d then ⟨some .tooFewShards, parity⟩
  else if parity.length ≠ C.p then ⟨some .tooFewShards, parity⟩
  else
    let total := (data.filterMap id).foldl (fun m r => max m r.data.length) 0
    encodeLoop C conc (total / B + 3) (List.replicate C.d B) data parity 0

/-- the block loop of `rsStream.Verify` -/
def verifyLoop (C : BlockCodec) : Nat → List Nat → List (Option Rd) → Nat → Bool × Option Err
  | 0, _, _, _ => (false, some (.codec 999))
  | fuel + 1, lens, rds, read =>
    match readShards lens rds with
    | .err e => (false, some e)
    | .eof _ => if read = 0 then (false, some .shardNoData) else (true, none)
    | .ok blocks rds' =>
      let size := shardSize blocks
      if size = 0 then (false, some .shardNoData)
      else if blocks.any (fun b => b.length ≠ size) then (false, some .shardSize)
      else if C.verify blocks then verifyLoop C fuel (blocks.map (·.length)) rds' (read + size)
      else (false, none)

def verify (C : BlockCodec) (B : Nat) (shards : List (Option Rd)) : Bool × Option Err :=
  if shards.length ≠ C.d + C.p then (false, some .tooFewShards)
  else
    let total := (shards.filterMap id).foldl (fun m r => max m r.data.length) 0
    verifyLoop C (total / B + 3) (List.replicate (C.d + C.p) B) shards 0

/-- the block loop of `rsStream.Reconstruct` -/
def reconLoop (C : BlockCodec) (conc : Bool) (dataOnly : Bool) (B : Nat) : Nat → List Nat → List (Option Rd) → List (Option Wr) → Nat → Result
  | 0, _, _, ws, _ => ⟨some (.codec 999), ws⟩
  | fuel + 1, lens, rds, ws, read =>
    match readShards lens rds with
    | .err e => ⟨some e, ws⟩
    | .eof _ => ⟨if read = 0 then some .shardNoData else none, ws⟩
    | .ok blocks rds' =>
      let size := shardSize blocks
      if size = 0 then ⟨some .shardNoData, ws⟩
      -- trimShards(all, size) then Reconstruct*(all): present blocks must all have `size` bytes
      else if blocks.any (fun b => b.length ≠ 0 && b.length ≠ size) then ⟨some .shardSize, ws⟩
      else
        match C.reconstruct blocks dataOnly with
        | .error tag => ⟨some (.codec tag), ws⟩
        | .ok full =>
          match writeShards conc ws full 0 [] with
          | (ws', some e) => ⟨some e, ws'⟩
          | (ws', none) =>
            -- buffers of read streams keep their (possibly shortened) length; the others are reset by readShards
            reconLoop C conc dataOnly B fuel ((blocks.zip (List.replicate blocks.length B)).map fun (b, bb) => if b.length = 0 then bb else b.length) rds' ws' (read + size)

def reconstruct (C : BlockCodec) (conc : Bool) (B : Nat) (valid : List (Option Rd)) (fill : List (Option Wr)) : Result :=
  if valid.length ≠ C.d + C.p then ⟨some .tooFewShards, fill⟩
  else if fill.length ≠ C.d + C.p then ⟨some .tooFewShards, fill⟩
  else if (valid.zip fill).any (fun (v, f) => v.isSome && f.isSome) then ⟨some .reconMismatch, fill⟩
  else
    let dataOnly := !((fill.drop C.d).any Option.isSome)
    let total := (valid.filterMap id).foldl (fun m r => max m r.data.length) 0
    reconLoop C conc dataOnly B (total / B + 3) (List.replicate (C.d + C.p) B) valid fill 0

/-- stream `Split(data, dst, size)` (after fix 06bbac9): exactly `size` source bytes then zero
padding, copied shard by shard with `io.CopyN`; reader / writer errors come back unwrapped -/
def split (d p : Nat) (src : Rd) (dst : List (Option Wr)) (size : Nat) : Result :=
  if size = 0 then ⟨some .shortData, dst⟩
  else if dst.length ≠ d then ⟨some .invShardNum, dst⟩
  else match dst.findIdx? Option.isNone with
    | some i => ⟨some (.writeNoData i), dst⟩
    | none =>
      let perShard := (size + d - 1) / d
      let (got, oc, _) := readFull src size
      let padding := (d + p) * perShard - size
      -- the combined stream: the limited source; zero padding follows only if the source ended cleanly
      let avail : List Nat := if oc = .error then got else got ++ List.replicate padding 0
      let rec go : List (Option Wr) → List Nat → Nat → List (Option Wr) → Result
        | some w :: ws, av, i, acc =>
          let chunk := av.take perShard
          match writeTo w chunk with
          | (w', some short) => ⟨some (.rawWrite short), acc ++ [some w'] ++ ws⟩
          | (w', none) =>
            if chunk.length ≠ perShard then
              ⟨some (if oc = .error then .rawRead else .shortData), acc ++ [some w'] ++ ws⟩
            else go ws (av.drop perShard) (i + 1) (acc ++ [some w'])
        | none :: ws, _, _, acc => ⟨some .shortData, acc ++ (none :: ws)⟩
        | [], _, _, acc =>
          -- src.N != 0: the source ended before `size` bytes
          ⟨if got.length ≠ size then some (if oc = .error then .rawRead else .shortData) else none, acc⟩
      go dst avail 0 []

/-- stream `Join(dst, shards, outSize)`: `io.CopyN` over the concatenation of the first `d` streams;
reader / writer errors come back unwrapped -/
def join (d : Nat) (dst : Wr) (shards : List (Option Rd)) (outSize : Nat) : Option Err × Wr :=
  if shards.length < d then (some .tooFewShards, dst)
  else match (shards.take d).findIdx? Option.isNone with
    | some i => (some (.readNoData i), dst)
    | none =>
      let rec gather : List (Option Rd) → List Nat → Nat → List Nat × Bool
        | some r :: rs, acc, need =>
          if need = 0 then (acc, false) else
          let (got, oc, _) := readFull r need
          if oc = .error then (acc ++ got, true)
          else gather rs (acc ++ got) (need - got.length)
        | _, acc, _ => (acc, false)
      let (bytes, faulted) := gather (shards.take d) [] outSize
      match writeTo dst bytes with
      | (w', some short) => (some (.rawWrite short), w')
      | (w', none) =>
        if faulted then (some .rawRead, w')
        else if bytes.length < outSize then (some .shortData, w')
        else (none, w')

end RSV.Model.St
