import RSV.Proofs.AsmSound
/-!
# The environment contract is satisfiable: for every shape, coefficient rows, `start`, `n` and
slice contents there is an environment (matrix memory expanded as `genCodeGenMatrix` /
`genGFNIMatrix` do) that satisfies `Contract` — so the soundness theorem is not vacuous.
-/
namespace RSV.Asm
open RSV RSV.Model.Kernels RSV.Gen

/-- byte `p` of the expanded coefficient matrix -/
def mkMatrix (cfg : Cfg) (A : Nat → Nat → Nat) (p : Nat) : Nat :=
  match cfg.fam with
  | .avx2 =>
    if p % 64 < 32 then gmul (A (p / 64 % cfg.O) (p / 64 / cfg.O)) (p % 64 % 16)
    else gmul (A (p / 64 % cfg.O) (p / 64 / cfg.O)) (p % 64 % 16 * 16)
  | _ => byteAt (wordAt gf2p811dMulMatrices (A (p / 8 % cfg.O) (p / 8 / cfg.O))) (p % 8)

/-- the environment of a call with the given arguments -/
def mkCtx (cfg : Cfg) (A : Nat → Nat → Nat) (start n : Nat) (inp old : Nat → Nat → Nat) : Ctx where
  cfg := cfg
  env := { n := n, start := start, inputs := cfg.I, outputs := cfg.O,
           size := fun r => match r with
             | .matrix => cfg.matSize
             | .inp _ => start + n
             | .out _ => start + n
             | _ => 0,
           frame := fun _ => none, base := fun _ => 0 }
  m0 := fun r p => match r with
    | .matrix => mkMatrix cfg (fun i j => A i j % 256) p
    | .inp j => inp j p % 256
    | .out i => old i p % 256
    | _ => 0
  A := fun i j => A i j % 256

theorem mkCtx_m0_matrix (cfg : Cfg) (A : Nat → Nat → Nat) (start n : Nat) (inp old : Nat → Nat → Nat) (p : Nat) :
    (mkCtx cfg A start n inp old).m0 .matrix p = mkMatrix cfg (fun i j => A i j % 256) p := rfl
theorem mkCtx_cfg (cfg : Cfg) (A : Nat → Nat → Nat) (start n : Nat) (inp old : Nat → Nat → Nat) :
    (mkCtx cfg A start n inp old).cfg = cfg := rfl
theorem mkCtx_A (cfg : Cfg) (A : Nat → Nat → Nat) (start n : Nat) (inp old : Nat → Nat → Nat) (i j : Nat) :
    (mkCtx cfg A start n inp old).A i j = A i j % 256 := rfl

theorem slot_decomp {O i j : Nat} (hi : i < O) : (j * O + i) % O = i ∧ (j * O + i) / O = j := by
  constructor
  · rw [Nat.add_comm, Nat.add_mul_mod_self_right, Nat.mod_eq_of_lt hi]
  · rw [Nat.add_comm, Nat.add_mul_div_right _ _ (by omega), Nat.div_eq_of_lt hi, Nat.zero_add]

theorem byteAt_lt (t i : Nat) : byteAt t i < 256 := by
  unfold byteAt
  exact Nat.lt_of_le_of_lt Nat.and_le_right (by decide)

theorem mkCtx_contract (cfg : Cfg) (A : Nat → Nat → Nat) (start n : Nat) (inp old : Nat → Nat → Nat)
    (h : start + n < M64) : Contract (mkCtx cfg A start n inp old) where
  inputs_eq := rfl
  outputs_eq := rfl
  no_wrap := h
  in_size := fun _ _ => Nat.le_refl _
  out_size := fun _ _ => Nat.le_refl _
  mat_size := Nat.le_refl _
  bytes := by
    intro r p
    have hA : ∀ i j, A i j % 256 < 256 := fun i j => Nat.mod_lt _ (by decide)
    cases r with
    | matrix =>
      rw [mkCtx_m0_matrix]
      unfold mkMatrix
      split
      · split <;> exact gmul_lt _ (hA _ _)
      · exact byteAt_lt _ _
    | tab k => show 0 < 256; decide
    | inHdr => show 0 < 256; decide
    | outHdr => show 0 < 256; decide
    | inp j => exact Nat.mod_lt _ (by decide)
    | out i => exact Nat.mod_lt _ (by decide)
  coeff := fun i j => Nat.mod_lt _ (by decide)
  mat_avx2 := by
    intro hfam i j hi hj x hx
    have hfam' : cfg.fam = .avx2 := hfam
    obtain ⟨h1, h2⟩ := slot_decomp (O := cfg.O) (i := i) (j := j) hi
    simp only [mkCtx_m0_matrix, mkCtx_cfg, mkCtx_A]
    unfold mkMatrix avx2Slot
    simp only [hfam']
    generalize hs : j * cfg.O + i = sl at h1 h2
    have d0 : (sl * 64 + x) / 64 = sl ∧ (sl * 64 + x) % 64 = x := by omega
    have d1 : (sl * 64 + 16 + x) / 64 = sl ∧ (sl * 64 + 16 + x) % 64 = 16 + x := by omega
    have d2 : (sl * 64 + 32 + x) / 64 = sl ∧ (sl * 64 + 32 + x) % 64 = 32 + x := by omega
    have d3 : (sl * 64 + 48 + x) / 64 = sl ∧ (sl * 64 + 48 + x) % 64 = 48 + x := by omega
    rw [d0.1, d0.2, d1.1, d1.2, d2.1, d2.2, d3.1, d3.2, h1, h2]
    have e0 : x % 16 = x := by omega
    have e1 : (16 + x) % 16 = x := by omega
    have e2 : (32 + x) % 16 = x := by omega
    have e3 : (48 + x) % 16 = x := by omega
    rw [e0, e1, e2, e3, if_pos (by omega), if_pos (by omega), if_neg (by omega), if_neg (by omega)]
    exact ⟨rfl, rfl, rfl, rfl⟩
  mat_gfni := by
    intro hfam i j hi hj t ht
    have hfam' : cfg.fam ≠ .avx2 := hfam
    obtain ⟨h1, h2⟩ := slot_decomp (O := cfg.O) (i := i) (j := j) hi
    simp only [mkCtx_m0_matrix, mkCtx_cfg, mkCtx_A]
    unfold mkMatrix gfniSlot
    generalize hs : j * cfg.O + i = sl at h1 h2
    have d0 : (sl * 8 + t) / 8 = sl ∧ (sl * 8 + t) % 8 = t := by omega
    cases hf : cfg.fam with
    | avx2 => exact absurd hf hfam'
    | gfni => simp only [d0.1, d0.2, h1, h2]
    | avxgfni => simp only [d0.1, d0.2, h1, h2]

end RSV.Asm
