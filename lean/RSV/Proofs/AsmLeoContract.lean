import RSV.Proofs.AsmLeoKindsSem
/-!
# The contract of the remaining kernels is satisfiable
-/
namespace RSV.Asm.Leo
open RSV RSV.Asm

/-- frame slots of a call -/
def mkFrame (kd : KD) (N dist : Nat) (imms : Nat → Nat) (off : Nat) : Option Val :=
  match kd.frame off with
  | some (FArg.ptr .hdr) => some (Val.ptr .outHdr 0)
  | some (FArg.ptr (.tab t)) => some (Val.ptr (.tab t) 0)
  | some (FArg.ptr (.row k)) => some (Val.ptr (.out (k * dist)) 0)
  | some FArg.len => some (Val.num N)
  | some FArg.dist => some (Val.num (24 * dist))
  | some FArg.imm => some (Val.num (imms off))
  | none => none

/-- the environment of a call: rows of `N` bytes at stride `dist`, tables, immediates -/
def mkCtx (kd : KD) (N dist : Nat) (rows : Nat → Nat → Nat) (tabs : Nat → Nat → Nat) (imms : Nat → Nat) : Ctx where
  kd := kd
  env := { n := 0, start := 0, inputs := 0, outputs := kd.rows * dist + 1,
           size := fun r => match r with
             | .out _ => N
             | .tab t => kd.tabSize t
             | _ => 0,
           frame := mkFrame kd N dist imms,
           base := fun _ => 0 }
  m0 := fun r p => match r with
    | .out i => rows i p % 256
    | .tab t => tabs t p % 256
    | _ => 0
  N := N
  dist := dist

theorem mkCtx_contract (kd : KD) (N dist : Nat) (rows tabs : Nat → Nat → Nat) (imms : Nat → Nat)
    (hd : 0 < dist) (hdl : 24 * dist < M64) (hN : N < M64) (hout : 24 * (kd.rows * dist + 1) < M64)
    (hex : kd.exact = true → 0 < N ∧ N % kd.B = 0) : Contract (mkCtx kd N dist rows tabs imms) where
  dist_pos := hd
  dist_lt := hdl
  n_lt := hN
  hdr_lt := hout
  row_lt := by
    intro k hk
    change k < kd.rows at hk
    change k * dist < kd.rows * dist + 1
    have := Nat.mul_le_mul_right dist (Nat.le_of_lt hk)
    omega
  row_size := fun _ _ => Nat.le_refl _
  tab_size := fun _ => Nat.le_refl _
  bytes := by
    intro r p
    cases r <;> first | exact Nat.mod_lt _ (by decide) | (show 0 < 256; decide)
  frame_ok := by
    intro off a ha
    change kd.frame off = some a at ha
    change mkFrame kd N dist imms off = _
    cases a with
    | ptr b => cases b <;> simp only [mkFrame, ha] <;> rfl
    | len => simp only [mkFrame, ha]; rfl
    | dist => simp only [mkFrame, ha]; rfl
    | imm =>
      have : (mkCtx kd N dist rows tabs imms).immq off = imms off := by
        unfold Ctx.immq
        change (match mkFrame kd N dist imms off with | some (.num q) => q | _ => 0) = _
        simp only [mkFrame, ha]
      simp only [mkFrame, ha, Ctx.argVal, this]
  hdr_len := fun _ => rfl
  exact := hex
  aligned := fun _ _ _ => rfl

end RSV.Asm.Leo
