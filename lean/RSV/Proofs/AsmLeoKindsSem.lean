import RSV.Proofs.AsmLeoSound
/-!
# Soundness of the checker for the remaining amd64 kernels, part 7: the byte-level meaning of the
kernel descriptors.  The butterflies are the same functions `fft2`/`ifft2`/`fft4`/`ifft4` as in the
descriptors, instantiated with bytes (GF(2^8)) or byte pairs (GF(2^16)) and the look-ups in the
*passed* tables; `specVal` (what the generic theorem guarantees) is rewritten to them.
-/
namespace RSV.Asm.Leo
open RSV RSV.Asm

/-! ## homomorphisms of butterfly algebras -/

structure Hom {α β : Type} (A : Alg α) (B : Alg β) (h : α → β) : Prop where
  xor : ∀ a b, h (A.xor a b) = B.xor (h a) (h b)
  mul : ∀ i a, h (A.mul i a) = B.mul i (h a)

variable {α β : Type} {A : Alg α} {B : Alg β} {h : α → β}

theorem hom_fft2 (hh : Hom A B h) (sk : Bool) (m : Nat) (x y : α) :
    (h (fft2 A sk m x y).1, h (fft2 A sk m x y).2) = fft2 B sk m (h x) (h y) := by
  unfold fft2; cases sk <;> simp [hh.xor, hh.mul]

theorem hom_ifft2 (hh : Hom A B h) (sk : Bool) (m : Nat) (x y : α) :
    (h (ifft2 A sk m x y).1, h (ifft2 A sk m x y).2) = ifft2 B sk m (h x) (h y) := by
  unfold ifft2; cases sk <;> simp [hh.xor, hh.mul]

theorem hom_sel2 (h : α → β) (k : Nat) (t : α × α) : h (sel2 k t) = sel2 k (h t.1, h t.2) := by
  unfold sel2; split <;> rfl

theorem hom_sel4 (h : α → β) (k : Nat) (t : α × α × α × α) : h (sel4 k t) = sel4 k (h t.1, h t.2.1, h t.2.2.1, h t.2.2.2) := by
  unfold sel4; split <;> rfl

theorem hom_fft2_1 (hh : Hom A B h) (sk : Bool) (m : Nat) (x y : α) :
    h (fft2 A sk m x y).1 = (fft2 B sk m (h x) (h y)).1 := congrArg Prod.fst (hom_fft2 hh sk m x y)
theorem hom_fft2_2 (hh : Hom A B h) (sk : Bool) (m : Nat) (x y : α) :
    h (fft2 A sk m x y).2 = (fft2 B sk m (h x) (h y)).2 := congrArg Prod.snd (hom_fft2 hh sk m x y)
theorem hom_ifft2_1 (hh : Hom A B h) (sk : Bool) (m : Nat) (x y : α) :
    h (ifft2 A sk m x y).1 = (ifft2 B sk m (h x) (h y)).1 := congrArg Prod.fst (hom_ifft2 hh sk m x y)
theorem hom_ifft2_2 (hh : Hom A B h) (sk : Bool) (m : Nat) (x y : α) :
    h (ifft2 A sk m x y).2 = (ifft2 B sk m (h x) (h y)).2 := congrArg Prod.snd (hom_ifft2 hh sk m x y)

theorem hom_fft4 (hh : Hom A B h) (mask : Nat) (w0 w1 w2 w3 : α) (k : Nat) :
    h (sel4 k (fft4 A mask w0 w1 w2 w3)) = sel4 k (fft4 B mask (h w0) (h w1) (h w2) (h w3)) := by
  rw [hom_sel4 h]
  simp only [fft4, hom_fft2_1 hh, hom_fft2_2 hh]

theorem hom_ifft4 (hh : Hom A B h) (mask : Nat) (w0 w1 w2 w3 : α) (k : Nat) :
    h (sel4 k (ifft4 A mask w0 w1 w2 w3)) = sel4 k (ifft4 B mask (h w0) (h w1) (h w2) (h w3)) := by
  rw [hom_sel4 h]
  simp only [ifft4, hom_ifft2_1 hh, hom_ifft2_2 hh]

/-! ## byte-level algebras: multiplication = look-ups in the passed tables -/

/-- GF(2^8) product by the constant whose 32-byte table (`multiply256LUT8[log_m]`: low-nibble
products, then high-nibble products) is table `t` -/
def lut8 (m0 : Region → Nat → Nat) (t b : Nat) : Nat :=
  m0 (.tab t) (b &&& 15) ^^^ m0 (.tab t) (16 + (b >>> 4))

def algB8 (m0 : Region → Nat → Nat) : Alg Nat := ⟨(· ^^^ ·), lut8 m0⟩

/-- GF(2^8) product as `GF2P8AFFINEQB` with the matrix words passed in the frame (`t01`, `t23`, `t02`) -/
def algB8gfni (mat : Nat → Nat) : Alg Nat := ⟨(· ^^^ ·), fun i b => affineByte (mat i) b⟩

/-- one byte of a GF(2^16) product by the constant whose 128-byte table (`multiply256LUT[log_m]`) is
table `t`: the four nibbles of the symbol index four 16-byte tables starting at `base` -/
def lut16 (m0 : Region → Nat → Nat) (t base lo hi : Nat) : Nat :=
  m0 (.tab t) (base + (lo &&& 15)) ^^^ m0 (.tab t) (base + 16 + (lo >>> 4)) ^^^
  m0 (.tab t) (base + 32 + (hi &&& 15)) ^^^ m0 (.tab t) (base + 48 + (hi >>> 4))

/-- GF(2^16) symbols as (low byte, high byte) -/
def algB16 (m0 : Region → Nat → Nat) : Alg (Nat × Nat) :=
  ⟨fun a b => (a.1 ^^^ b.1, a.2 ^^^ b.2), fun i x => (lut16 m0 i 0 x.1 x.2, lut16 m0 i 64 x.1 x.2)⟩

theorem hom8 (c : Ctx) (base q : Nat) : Hom algE8 (algB8 c.m0) (evalE c base q) where
  xor := fun _ _ => rfl
  mul := fun i a => by simp [algE8, algB8, lut8, evalE, nib]

theorem hom8gfni (c : Ctx) (base q : Nat) :
    Hom algE8gfni (algB8gfni fun i => c.immq (32 + 8 * i)) (evalE c base q) where
  xor := fun _ _ => rfl
  mul := fun i a => by simp [algE8gfni, algB8gfni, evalE, affineB_byteAt]

theorem hom16 (c : Ctx) (base q : Nat) :
    Hom algE16 (algB16 c.m0) (fun p : E × E => (evalE c base q p.1, evalE c base q p.2)) where
  xor := fun _ _ => rfl
  mul := fun i a => by
    simp only [algE16, algB16, look16, lut16, evalE, nib, Bool.false_eq_true, if_false, if_true,
      Nat.zero_add]

/-! ## position arithmetic -/

theorem pos64_32 (p : Nat) : p / 64 * 64 + p % 64 / 32 * 32 + p % 32 = p := by omega
theorem pos64_64 (p : Nat) : p / 64 * 64 + p % 64 / 64 * 64 + p % 64 = p := by omega
theorem pos64_16 (p : Nat) : p / 64 * 64 + p % 64 / 16 * 16 + p % 16 = p := by omega

end RSV.Asm.Leo
