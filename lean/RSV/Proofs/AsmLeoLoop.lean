import RSV.Proofs.AsmLeoStore
import RSV.Proofs.AsmLoop
/-!
# Soundness of the checker for the remaining amd64 kernels, part 5: loop invariant
(prologue → loop head, end of body → next loop head, coverage) and program layout.
-/
namespace RSV.Asm.Leo
open RSV RSV.Asm

variable {c : Ctx}

theorem cnt_exact (hc : Contract c) (he : c.kd.exact = true) :
    c.kd.B * c.cnt = c.N ∧ 0 < c.cnt := by
  obtain ⟨hpos, hmod⟩ := hc.exact he
  have h := Nat.div_add_mod c.N c.kd.B
  rw [hmod, Nat.add_zero] at h
  refine ⟨h, ?_⟩
  unfold Ctx.cnt
  rcases Nat.eq_zero_or_pos (c.N / c.kd.B) with h0 | h0
  · rw [h0, Nat.mul_zero] at h; omega
  · exact h0

theorem gInit_sound (hc : Contract c) {g h : GSym} {v : Val} (hi : gInit c.kd g h = true)
    (hg : GRefines c 0 g v) : GRefines c 0 h v := by
  unfold gInit at hi
  split at hi
  · trivial
  · rename_i sc
    simp only [decide_eq_true_eq] at hi
    subst hi
    simpa [GRefines] using hg
  · rename_i sc
    simp only [decide_eq_true_eq] at hi
    obtain ⟨rfl, he⟩ := hi
    simp only [GRefines, Nat.sub_zero] at hg ⊢
    rw [hg, (cnt_exact hc he).1]
  · rename_i b a t k b' a' t' k'
    simp only [decide_eq_true_eq] at hi
    obtain ⟨rfl, rfl, rfl⟩ := hi
    cases b <;> simpa [GRefines, linVal] using hg
  · exact hg
  · exact hg
  · rename_i k k'
    simp only [decide_eq_true_eq] at hi
    subst hi
    exact hg
  · exact absurd hi (by simp)

theorem vInv_indep {x : VSym} (hx : vInv x = true) (it it' : Nat) (reg : Nat → Nat) :
    VRefines c it x reg ↔ VRefines c it' x reg := by
  cases x <;> first | exact Iff.rfl | simp [vInv] at hx

theorem initOK_sound (hc : Contract c) {σ0 H : SymState} {s : State}
    (hi : initOK c.kd σ0 H = true)
    (hG : ∀ r, 16 ≤ r → H.gp r = .unk) (hV : ∀ v, 32 ≤ v → H.vec v = .unk)
    (hH : H.stores = []) (h0 : σ0.stores = []) (h : Sim c 0 σ0 s) : Sim c 0 H s := by
  unfold initOK at hi
  rw [Bool.and_eq_true] at hi
  refine ⟨fun r => ?_, fun v => ?_, ?_, ?_⟩
  · by_cases hr : r < 16
    · exact gInit_sound hc (all_range hi.1 r hr) (h.gp r)
    · rw [hG r (Nat.le_of_not_lt hr)]; trivial
  · by_cases hv : v < 32
    · have := all_range hi.2 v hv
      simp only [Bool.or_eq_true, Bool.and_eq_true, decide_eq_true_eq] at this
      rcases this with hu | ⟨_, he⟩
      · rw [hu]; trivial
      · rw [← he]; exact h.vec v
    · rw [hV v (Nat.le_of_not_lt hv)]; trivial
  · rw [hH, ← h0]; exact h.mem
  · rw [hH]; intro i o ho; simp at ho

theorem gShift_sound {h : GSym} {v : Val} {it : Nat} (hg : GRefines c it (gShift c.kd.B h) v) :
    GRefines c (it + 1) h v := by
  cases h with
  | unk => trivial
  | nRaw => exact hg
  | cnt => exact hg
  | algn k => exact hg
  | ctr sc d =>
    simp only [gShift, GRefines] at hg ⊢
    rw [hg]; congr 2; omega
  | lin b a t k =>
    have e : linVal c it a t (k + t * c.kd.B) = linVal c (it + 1) a t k := by
      unfold linVal; congr 1; ring
    cases b <;> simp only [gShift, GRefines] at hg ⊢ <;> rw [hg, e]

/-- all chunks of iteration `it` stored: the iteration is finished -/
theorem covers_mem {it : Nat} {stores : List (Nat × Nat)} {mem : Region → Nat → Nat}
    (hcov : covers c.kd stores = true)
    (hok : ∀ k o, (k, o) ∈ stores → k < c.kd.rows ∧ c.kd.written k = true ∧ o + c.kd.w ≤ c.kd.B ∧ o % c.kd.w = 0)
    (h : MemInv c it stores mem) : MemInv c (it + 1) [] mem := by
  unfold covers at hcov
  simp only [Bool.and_eq_true, decide_eq_true_eq] at hcov
  obtain ⟨⟨⟨hwB, hw⟩, _⟩, hall⟩ := hcov
  have hcur : c.cur (it + 1) = c.cur it + c.kd.B := by unfold Ctx.cur; ring
  have key : ∀ k p, k < c.kd.rows → (DoneK c (it + 1) [] k p ↔ DoneK c it stores k p) := by
    intro k p hk
    constructor
    · rintro (⟨hwr, h2⟩ | ⟨o, ho, _⟩)
      · by_cases hp : p < c.cur it
        · exact Or.inl ⟨hwr, hp⟩
        · right
          rw [hcur] at h2
          have hq : (p - c.cur it) / c.kd.w < c.kd.B / c.kd.w := by
            rw [Nat.div_lt_iff_lt_mul hw, Nat.mul_comm, hwB]; omega
          have hrow := all_range hall k hk
          rw [hwr] at hrow
          simp only [Bool.not_true, Bool.false_or] at hrow
          have hm := all_range hrow _ hq
          rw [List.contains_iff_mem] at hm
          refine ⟨_, hm, ?_, ?_⟩
          · have := Nat.div_mul_le_self (p - c.cur it) c.kd.w
            omega
          · have := Nat.lt_div_mul_add (a := p - c.cur it) hw
            omega
      · simp at ho
    · rintro (⟨hwr, h2⟩ | ⟨o, ho, h1, h2⟩)
      · exact Or.inl ⟨hwr, by rw [hcur]; omega⟩
      · obtain ⟨_, hwr, hle, _⟩ := hok k o ho
        exact Or.inl ⟨hwr, by rw [hcur]; omega⟩
  exact ⟨h.1, fun k p hk hd => h.2.1 k p hk ((key k p hk).mp hd),
    fun k p hk hd => h.2.2 k p hk (fun hd' => hd ((key k p hk).mpr hd'))⟩

theorem covers_wf {stores : List (Nat × Nat)} (hcov : covers c.kd stores = true) (hB : 0 < c.kd.B) : c.kd.wf := by
  unfold covers at hcov
  simp only [Bool.and_eq_true, decide_eq_true_eq] at hcov
  exact ⟨hcov.1.1.1, hcov.1.1.2, hB⟩

theorem stepOK_sound {H σe : SymState} {s : State} {it : Nat} (hs : stepOK c.kd H σe = true)
    (hG : ∀ r, 16 ≤ r → H.gp r = .unk) (hV : ∀ v, 32 ≤ v → H.vec v = .unk)
    (hH : H.stores = []) (hcov : covers c.kd σe.stores = true) (h : Sim c it σe s) :
    Sim c (it + 1) H s := by
  unfold stepOK at hs
  rw [Bool.and_eq_true] at hs
  refine ⟨fun r => ?_, fun v => ?_, ?_, ?_⟩
  · by_cases hr : r < 16
    · have := all_range hs.1 r hr
      simp only [Bool.or_eq_true, decide_eq_true_eq] at this
      rcases this with hu | he
      · rw [hu]; trivial
      · apply gShift_sound; rw [← he]; exact h.gp r
    · rw [hG r (Nat.le_of_not_lt hr)]; trivial
  · by_cases hv : v < 32
    · have := all_range hs.2 v hv
      simp only [Bool.or_eq_true, Bool.and_eq_true, decide_eq_true_eq] at this
      rcases this with hu | ⟨hinv, he⟩
      · rw [hu]; trivial
      · rw [← vInv_indep hinv it (it + 1), ← he]; exact h.vec v
    · rw [hV v (Nat.le_of_not_lt hv)]; trivial
  · rw [hH]; exact covers_mem hcov h.stores_ok h.mem
  · rw [hH]; intro i o ho; simp at ho

/-! ## layout of an assembled program -/

namespace Shape
variable (sh : Shape)

def tailE : List Instr := sh.epiA ++ (sh.endInstrs ++ (sh.epiB ++ [.ret]))
def P1 : List Instr := sh.pre1 ++ sh.guard.instrs
def P2 : List Instr := sh.P1 ++ sh.pre2
def P3 : List Instr := sh.P2 ++ [.label sh.lLoop]
def P4 : List Instr := sh.P3 ++ sh.body
def P5 : List Instr := sh.P4 ++ [sh.decInstr]
def P6 : List Instr := sh.P5 ++ [sh.jccInstr]
def P7 : List Instr := sh.P6 ++ sh.epiA
def P8 : List Instr := sh.P7 ++ sh.endInstrs
def P9 : List Instr := sh.P8 ++ sh.epiB

theorem asm0 : sh.assemble = [] ++ sh.pre1 ++ (sh.guard.instrs ++ (sh.pre2 ++ (.label sh.lLoop :: (sh.body ++
    (sh.decInstr :: sh.jccInstr :: sh.tailE))))) := by simp [assemble, tailE]
theorem asm1 : sh.assemble = sh.pre1 ++ (sh.guard.instrs ++ (sh.pre2 ++ (.label sh.lLoop :: (sh.body ++
    (sh.decInstr :: sh.jccInstr :: sh.tailE))))) := by simp [assemble, tailE]
theorem asm2 : sh.assemble = sh.P1 ++ sh.pre2 ++ (.label sh.lLoop :: (sh.body ++
    (sh.decInstr :: sh.jccInstr :: sh.tailE))) := by simp [assemble, tailE, P1]
theorem asm3 : sh.assemble = sh.P2 ++ .label sh.lLoop :: (sh.body ++ (sh.decInstr :: sh.jccInstr :: sh.tailE)) := by
  simp [assemble, tailE, P1, P2]
theorem asm4 : sh.assemble = sh.P3 ++ sh.body ++ (sh.decInstr :: sh.jccInstr :: sh.tailE) := by
  simp [assemble, tailE, P1, P2, P3]
theorem asm5 : sh.assemble = sh.P4 ++ sh.decInstr :: (sh.jccInstr :: sh.tailE) := by
  simp [assemble, tailE, P1, P2, P3, P4]
theorem asm6 : sh.assemble = sh.P5 ++ sh.jccInstr :: sh.tailE := by
  simp [assemble, tailE, P1, P2, P3, P4, P5]
theorem asm7 : sh.assemble = sh.P6 ++ sh.epiA ++ (sh.endInstrs ++ (sh.epiB ++ [.ret])) := by
  simp [assemble, P1, P2, P3, P4, P5, P6]
theorem asm8 : sh.assemble = sh.P7 ++ sh.endInstrs ++ (sh.epiB ++ [.ret]) := by
  simp [assemble, P1, P2, P3, P4, P5, P6, P7]
theorem asm9 : sh.assemble = sh.P8 ++ sh.epiB ++ [.ret] := by
  simp [assemble, P1, P2, P3, P4, P5, P6, P7, P8]
theorem asm10 : sh.assemble = sh.P9 ++ .ret :: [] := by
  simp [assemble, P1, P2, P3, P4, P5, P6, P7, P8, P9]

theorem len1 : sh.P1.length = sh.pre1.length + sh.guard.instrs.length := by simp [P1]
theorem len2 : sh.P2.length = sh.P1.length + sh.pre2.length := by simp [P2]
theorem len3 : sh.P3.length = sh.P2.length + 1 := by simp [P3]
theorem len4 : sh.P4.length = sh.P3.length + sh.body.length := by simp [P4]
theorem len5 : sh.P5.length = sh.P4.length + 1 := by simp [P5]
theorem len6 : sh.P6.length = sh.P5.length + 1 := by simp [P6]
theorem len7 : sh.P7.length = sh.P6.length + sh.epiA.length := by simp [P7]
theorem len8 : sh.P8.length = sh.P7.length + sh.endInstrs.length := by simp [P8]
theorem len9 : sh.P9.length = sh.P8.length + sh.epiB.length := by simp [P9]
theorem lenP : sh.assemble.length = sh.P9.length + 1 := by rw [sh.asm10]; simp

end Shape

/-- a run of `VZEROUPPER`s does not touch memory -/
theorem run_vz {env : Env} {prog : Program} (L : List Instr) :
    ∀ (A C : List Instr) (s : State), (∀ i, i ∈ L → i = .vzeroupper) → prog = A ++ L ++ C → s.pc = A.length →
      ∃ s', run env prog L.length s = some s' ∧ s'.pc = A.length + L.length ∧ s'.mem = s.mem := by
  induction L with
  | nil => intro A C s _ _ hpc; exact ⟨s, rfl, by simpa using hpc, rfl⟩
  | cons i L ih =>
    intro A C s hall hp hpc
    have hi : i = .vzeroupper := hall i (by simp)
    subst hi
    have hp' : prog = A ++ Instr.vzeroupper :: (L ++ C) := by rw [hp]; simp
    have hstep := step_at_plain (env := env) (s := s) (s' := zeroUpper s) hp' hpc rfl rfl
    have hp'' : prog = (A ++ [Instr.vzeroupper]) ++ L ++ C := by rw [hp]; simp
    obtain ⟨s2, hrun, hpc2, hmem2⟩ := ih (A ++ [Instr.vzeroupper]) C ((zeroUpper s).setPc (A.length + 1))
      (fun j hj => hall j (by simp [hj])) hp'' (by simp [State.setPc])
    refine ⟨s2, ?_, ?_, ?_⟩
    · simp only [List.length_cons, run, hstep]; exact hrun
    · rw [hpc2]; simp; omega
    · rw [hmem2]; rfl

end RSV.Asm.Leo
