import RSV.Model.AsmLeoKinds
import RSV.Proofs.AsmRun
/-!
# Soundness of the checker for the remaining amd64 kernels, part 1: environment contract, meaning
of the symbolic values, canonical forms.
-/
namespace RSV.Asm.Leo
open RSV RSV.Asm

/-- a call: descriptor, machine environment, memory before the call, byte length `N`, row stride -/
structure Ctx where
  kd : KD
  env : Env
  m0 : Region → Nat → Nat
  N : Nat
  dist : Nat

namespace Ctx
variable (c : Ctx)

def cnt : Nat := c.N / c.kd.B
def cur (it : Nat) : Nat := c.kd.B * it

/-- row `k` is the slice `work[k·dist]` (for the two-slice kernels `dist = 1`: `x`/`out` = row 0, `y`/`in` = row 1) -/
def rowReg (k : Nat) : Region := .out (k * c.dist)

def sbReg : SBase → Region
  | .hdr => .outHdr
  | .tab k => .tab k
  | .row k => c.rowReg k

/-- the 64-bit immediate argument in frame slot `off` -/
def immq (off : Nat) : Nat :=
  match c.env.frame off with
  | some (.num q) => q
  | _ => 0

/-- low four address bits of row `k` -/
def alignBits (k : Nat) : Nat := ((c.env.base (c.rowReg k) + 0) % M64) &&& 15

def argVal (off : Nat) : FArg → Val
  | .ptr b => .ptr (c.sbReg b) 0
  | .len => .num c.N
  | .dist => .num (24 * c.dist)
  | .imm => .num (c.immq off)

end Ctx

def nib (hi : Bool) (x : Nat) : Nat := if hi then x >>> 4 else x &&& 15

/-- value of an expression at byte `q` of a chunk of the block starting at `base` -/
def evalE (c : Ctx) (base q : Nat) : E → Nat
  | .zero => 0
  | .old r o => c.m0 (c.rowReg r) (base + o + q)
  | .xor a b => evalE c base q a ^^^ evalE c base q b
  | .look t off hi x => c.m0 (.tab t) (off + nib hi (evalE c base q x))
  | .aff m x => affineB (fun t => byteAt (c.immq m) t) (evalE c base q x)

/-- the byte the kernel has to leave at position `p` of a written row `k` -/
def specVal (c : Ctx) (k p : Nat) : Nat :=
  evalE c (p / c.kd.B * c.kd.B) (p % c.kd.w) (c.kd.spec k (p % c.kd.B / c.kd.w * c.kd.w))

/-- the environment contract -/
structure Contract (c : Ctx) : Prop where
  dist_pos : 0 < c.dist
  dist_lt : 24 * c.dist < M64
  n_lt : c.N < M64
  hdr_lt : 24 * c.env.outputs < M64
  row_lt : ∀ k, k < c.kd.rows → k * c.dist < c.env.outputs
  row_size : ∀ k, k < c.kd.rows → c.N ≤ c.env.size (c.rowReg k)
  tab_size : ∀ t, c.kd.tabSize t ≤ c.env.size (.tab t)
  bytes : ∀ r p, c.m0 r p < 256
  frame_ok : ∀ off a, c.kd.frame off = some a → c.env.frame off = some (c.argVal off a)
  hdr_len : c.kd.hdrLen = true → c.env.size (c.rowReg 0) = c.N
  exact : c.kd.exact = true → 0 < c.N ∧ c.N % c.kd.B = 0
  aligned : c.kd.aligned = true → ∀ k, k < c.kd.rows → c.env.base (c.rowReg k) % 16 = 0

/-- well-formed block geometry (established by the checker's coverage test) -/
def KD.wf (kd : KD) : Prop := kd.w * (kd.B / kd.w) = kd.B ∧ 0 < kd.w ∧ 0 < kd.B

def linVal (c : Ctx) (it s t k : Nat) : Nat := (s * (24 * c.dist) + t * (c.kd.B * it) + k) % M64

def GRefines (c : Ctx) (it : Nat) : GSym → Val → Prop
  | .unk, _ => True
  | .nRaw, v => v = .num c.N
  | .cnt, v => v = .num c.cnt
  | .ctr sc d, v => v = .num (sc * (c.cnt - it - d))
  | .lin none s t k, v => v = .num (linVal c it s t k)
  | .lin (some b) s t k, v => v = .ptr (c.sbReg b) (linVal c it s t k)
  | .algn k, v => v = .num (c.alignBits k)

def VRefines (c : Ctx) (it : Nat) : VSym → (Nat → Nat) → Prop
  | .unk, _ => True
  | .byte0 b, reg => reg 0 = b
  | .mask w, reg => ∀ k, k < w → reg k = 15
  | .tab w t off, reg => ∀ k, k < w → reg k = c.m0 (.tab t) (off + k % 16)
  | .mat w m, reg => ∀ k, k < w → reg k = byteAt (c.immq m) (k % 8)
  | .e w x, reg => ∀ k, k < w → reg k = evalE c (c.cur it) k x
  | .srl w x, reg => ∀ k, k < w → reg k % 16 = evalE c (c.cur it) k x / 16
  | .lo w x, reg => ∀ k, k < w → reg k = evalE c (c.cur it) k x &&& 15
  | .hi w x, reg => ∀ k, k < w → reg k = evalE c (c.cur it) k x >>> 4

/-- position `p` of row `k` already holds its final value -/
def DoneK (c : Ctx) (it : Nat) (stores : List (Nat × Nat)) (k p : Nat) : Prop :=
  (c.kd.written k = true ∧ p < c.cur it) ∨
  ∃ o, (k, o) ∈ stores ∧ c.cur it + o ≤ p ∧ p < c.cur it + o + c.kd.w

def MemInv (c : Ctx) (it : Nat) (stores : List (Nat × Nat)) (mem : Region → Nat → Nat) : Prop :=
  (∀ r p, (∀ k, k < c.kd.rows → r ≠ c.rowReg k) → mem r p = c.m0 r p) ∧
  (∀ k p, k < c.kd.rows → DoneK c it stores k p → mem (c.rowReg k) p = specVal c k p) ∧
  (∀ k p, k < c.kd.rows → ¬ DoneK c it stores k p → mem (c.rowReg k) p = c.m0 (c.rowReg k) p)

structure Sim (c : Ctx) (it : Nat) (σ : SymState) (s : State) : Prop where
  gp : ∀ r, GRefines c it (σ.gp r) (s.gp r)
  vec : ∀ v, VRefines c it (σ.vec v) (s.vec v)
  mem : MemInv c it σ.stores s.mem
  stores_ok : ∀ k o, (k, o) ∈ σ.stores →
    k < c.kd.rows ∧ c.kd.written k = true ∧ o + c.kd.w ≤ c.kd.B ∧ o % c.kd.w = 0

/-! ## canonical forms -/

theorem insert_perm (x : E) (l : List E) : (E.insert x l).Perm (x :: l) := by
  induction l with
  | nil => exact List.Perm.refl _
  | cons y ys ih =>
    simp only [E.insert]
    split
    · exact List.Perm.refl _
    · exact (List.Perm.cons y ih).trans (List.Perm.swap x y ys)

theorem sort_perm (l : List E) : (E.sort l).Perm l := by
  induction l with
  | nil => exact List.Perm.refl _
  | cons x xs ih => exact (insert_perm x _).trans (List.Perm.cons x ih)

theorem eval_build (ev : E → Nat) (h0 : ev .zero = 0) (hx : ∀ a b, ev (.xor a b) = ev a ^^^ ev b) (l : List E) :
    ev (E.build l) = xorl (l.map ev) := by
  induction l with
  | nil => simp [E.build, xorl, h0]
  | cons x xs ih =>
    cases xs with
    | nil => simp [E.build, xorl]
    | cons y ys => simp only [E.build, hx, List.map_cons, xorl] at ih ⊢; rw [ih]

theorem eval_sorted (c : Ctx) (base q : Nat) (l : List E) :
    evalE c base q (E.build (E.sort l)) = xorl (l.map (evalE c base q)) := by
  rw [eval_build (evalE c base q) rfl (fun _ _ => rfl), xorl_perm ((sort_perm l).map _)]

theorem eval_flat (c : Ctx) (base q : Nat) (e : E) :
    xorl ((E.flat e).map (evalE c base q)) = evalE c base q e := by
  induction e with
  | zero => rfl
  | old r o => simp [E.flat, xorl]
  | xor a b iha ihb => simp only [E.flat, List.map_append, xorl_append, iha, ihb, evalE]
  | look t o h x ih => simp only [E.flat, List.map_cons, List.map_nil, xorl, Nat.xor_zero, evalE, eval_sorted, ih]
  | aff m x ih => simp only [E.flat, List.map_cons, List.map_nil, xorl, Nat.xor_zero, evalE, eval_sorted, ih]

/-- equal canonical forms have equal values -/
theorem canon_sound (c : Ctx) (base q : Nat) {e1 e2 : E} (h : e1.canon = e2.canon) :
    evalE c base q e1 = evalE c base q e2 := by
  rw [← eval_flat c base q e1, ← eval_flat c base q e2,
    ← xorl_perm ((sort_perm (E.flat e1)).map _), ← xorl_perm ((sort_perm (E.flat e2)).map _)]
  unfold E.canon at h
  rw [h]

/-! ## values are bytes -/

theorem parity8_le (v : Nat) : parity8 v ≤ 1 := by
  unfold parity8
  exact Nat.and_le_right

theorem affineB_lt (mb : Nat → Nat) (x : Nat) : affineB mb x < 256 := by
  unfold affineB
  have h := fun v => parity8_le v
  have e : (256 : Nat) = 2 ^ 8 := rfl
  rw [e]
  have hb : ∀ (v k : Nat), k < 8 → parity8 v <<< k < 2 ^ 8 := by
    intro v k hk
    have := h v
    rw [Nat.shiftLeft_eq]
    have h2 : 2 ^ k ≤ 2 ^ 7 := Nat.pow_le_pow_right (by decide) (by omega)
    calc parity8 v * 2 ^ k ≤ 1 * 2 ^ 7 := Nat.mul_le_mul this h2
      _ < 2 ^ 8 := by decide
  have h0 : parity8 (mb 7 &&& x) < 2 ^ 8 := by have := h (mb 7 &&& x); omega
  exact Nat.or_lt_two_pow (Nat.or_lt_two_pow (Nat.or_lt_two_pow (Nat.or_lt_two_pow (Nat.or_lt_two_pow
    (Nat.or_lt_two_pow (Nat.or_lt_two_pow h0 (hb _ 1 (by decide))) (hb _ 2 (by decide))) (hb _ 3 (by decide)))
    (hb _ 4 (by decide))) (hb _ 5 (by decide))) (hb _ 6 (by decide))) (hb _ 7 (by decide))

theorem evalE_lt {c : Ctx} (hc : Contract c) (base q : Nat) (e : E) : evalE c base q e < 256 := by
  induction e with
  | zero => show 0 < 256; decide
  | old r o => exact hc.bytes _ _
  | xor a b iha ihb => exact Nat.xor_lt_two_pow (n := 8) iha ihb
  | look t o h x _ => exact hc.bytes _ _
  | aff m x _ => exact affineB_lt _ _

end RSV.Asm.Leo
