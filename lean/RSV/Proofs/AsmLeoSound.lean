import RSV.Proofs.AsmLeoLoop
/-!
# Soundness of the checker for the remaining amd64 kernels, part 6: the whole function.
-/
namespace RSV.Asm.Leo
open RSV RSV.Asm

structure Checked (c : Ctx) (sh : Shape) (σ1 σ1' σ0 H σb : SymState) : Prop where
  vzA : ∀ i, i ∈ sh.epiA → i = .vzeroupper
  vzB : ∀ i, i ∈ sh.epiB → i = .vzeroupper
  gEnd : ∀ l, sh.guard.lEnd = some l → sh.lEnd = some l
  gNone : sh.guard.lEnd = none → c.kd.exact = true
  endNe : ∀ l, sh.lEnd = some l → l ≠ sh.lLoop
  scale : sh.scale = 1 ∨ (sh.scale = c.kd.B ∧ c.kd.exact = true)
  jaSub : sh.ja = true → sh.dec ≠ 0
  decLt : sh.dec < M64
  Bpos : 0 < c.kd.B
  run1 : symRun c.kd false sh.pre1 initSym = some σ1
  s1st : σ1.stores = []
  guard : guardOK c.kd sh.guard σ1 = some σ1'
  run2 : symRun c.kd false sh.pre2 σ1' = some σ0
  hst : H.stores = []
  s0st : σ0.stores = []
  init : initOK c.kd σ0 H = true
  runb : symRun c.kd true sh.body H = some σb
  rc : σb.gp sh.rc = .ctr sh.scale 0
  stepok : stepOK c.kd H (σb.setGp sh.rc (.ctr sh.scale 1)) = true
  cov : covers c.kd σb.stores = true
  clampG : ∀ r, 16 ≤ r → H.gp r = .unk
  clampV : ∀ v, 32 ≤ v → H.vec v = .unk

theorem allVz_mem {l : List Instr} (h : allVz l = true) : ∀ i, i ∈ l → i = .vzeroupper := by
  intro i hi
  have := List.all_eq_true.mp h i hi
  simpa using this

theorem checkKernel_unpack {c : Ctx} {prog : Program} (h : checkKernel prog c.kd = true) :
    ∃ sh σ1 σ1' σ0 H σb, prog = sh.assemble ∧ Checked c sh σ1 σ1' σ0 H σb := by
  unfold checkKernel at h
  split at h
  · exact absurd h (by simp)
  · rename_i sh _
    simp only [Bool.and_eq_true, decide_eq_true_eq] at h
    obtain ⟨⟨hasm, hshape⟩, h⟩ := h
    split at h
    · exact absurd h (by simp)
    · rename_i σ1 hrun1
      simp only [Bool.and_eq_true, decide_eq_true_eq] at h
      obtain ⟨h1st, h⟩ := h
      split at h
      · exact absurd h (by simp)
      · rename_i σ1' hguard
        split at h
        · exact absurd h (by simp)
        · rename_i σ0 hrun2
          unfold checkLoop at h
          simp only [Bool.and_eq_true, decide_eq_true_eq] at h
          obtain ⟨⟨⟨hH, h0⟩, hinit⟩, h⟩ := h
          split at h
          · exact absurd h (by simp)
          · rename_i σb hrunb
            simp only [Bool.and_eq_true, decide_eq_true_eq] at h
            obtain ⟨⟨hrc, hstep⟩, hcov⟩ := h
            unfold shapeOK at hshape
            simp only [Bool.and_eq_true, decide_eq_true_eq, Bool.or_eq_true, Bool.not_eq_true'] at hshape
            obtain ⟨⟨⟨⟨⟨⟨⟨hA, hB⟩, hg⟩, hl⟩, hsc⟩, hja⟩, hdec⟩, hBpos⟩ := hshape
            refine ⟨sh, σ1, σ1', σ0, _, σb, hasm.symm,
              { vzA := allVz_mem hA, vzB := allVz_mem hB, gEnd := ?_, gNone := ?_, endNe := ?_, scale := ?_,
                jaSub := ?_, decLt := hdec, Bpos := hBpos, run1 := hrun1, s1st := h1st, guard := hguard,
                run2 := hrun2, hst := hH, s0st := h0, init := hinit, runb := hrunb, rc := hrc,
                stepok := hstep, cov := hcov, clampG := ?_, clampV := ?_ }⟩
            · intro l hl'
              rw [hl'] at hg
              simp only [Bool.and_eq_true, decide_eq_true_eq] at hg
              exact hg.1
            · intro hn
              rw [hn] at hg
              exact hg
            · intro l hl'
              rw [hl'] at hl
              simpa using hl
            · rcases hsc with h1 | h2
              · exact Or.inl h1
              · exact Or.inr h2
            · intro hj
              rcases hja with h1 | h2
              · rw [hj] at h1; exact absurd h1 (by simp)
              · exact h2
            · intro r hr; simp only [clamp]; rw [if_neg (Nat.not_lt.mpr hr)]
            · intro v hv; simp only [clamp]; rw [if_neg (Nat.not_lt.mpr hv)]

section
variable {c : Ctx} {sh : Shape} {σ1 σ1' σ0 H σb : SymState}

theorem guard_noLabel (g : Guard) : ∀ i, i ∈ g.instrs → ∀ l, i ≠ .label l := by
  intro i hi l
  cases g <;> simp [Guard.instrs] at hi <;> rcases hi with rfl | rfl <;> simp

theorem dec_noLabel (sh : Shape) (l : Nat) : sh.decInstr ≠ .label l := by
  unfold Shape.decInstr; split <;> simp

theorem jcc_noLabel (sh : Shape) (l : Nat) : sh.jccInstr ≠ .label l := by
  unfold Shape.jccInstr; split <;> simp

theorem findLoop (hk : Checked c sh σ1 σ1' σ0 H σb) : findLabel sh.assemble sh.lLoop = some sh.P2.length := by
  apply findLabel_at sh.asm3
  intro i hi
  simp only [Shape.P2, Shape.P1, List.mem_append] at hi
  rcases hi with (hi | hi) | hi
  · exact symRun_noLabel hk.run1 i hi _
  · exact guard_noLabel _ i hi _
  · exact symRun_noLabel hk.run2 i hi _

theorem findEnd (hk : Checked c sh σ1 σ1' σ0 H σb) {l : Nat} (hl : sh.lEnd = some l) :
    findLabel sh.assemble l = some sh.P7.length := by
  have hasm : sh.assemble = sh.P7 ++ .label l :: (sh.epiB ++ [.ret]) := by
    rw [sh.asm8]; simp [Shape.endInstrs, hl]
  apply findLabel_at hasm
  intro i hi
  simp only [Shape.P7, Shape.P6, Shape.P5, Shape.P4, Shape.P3, Shape.P2, Shape.P1, List.mem_append,
    List.mem_singleton] at hi
  rcases hi with ((((((((hi | hi) | hi) | rfl) | hi) | rfl) | rfl) | hi))
  · exact symRun_noLabel hk.run1 i hi _
  · exact guard_noLabel _ i hi _
  · exact symRun_noLabel hk.run2 i hi _
  · simp only [ne_eq, Instr.label.injEq]; exact fun h => hk.endNe l hl h.symm
  · exact symRun_noLabel hk.runb i hi _
  · exact dec_noLabel sh l
  · exact jcc_noLabel sh l
  · rw [hk.vzA i hi]; simp

theorem scale_pos (hk : Checked c sh σ1 σ1' σ0 H σb) : 0 < sh.scale := by
  rcases hk.scale with h | ⟨h, _⟩
  · omega
  · rw [h]; exact hk.Bpos

/-- the counter never exceeds the length -/
theorem ctr_le (hk : Checked c sh σ1 σ1' σ0 H σb) (it : Nat) :
    sh.scale * (c.cnt - it) ≤ c.N := by
  have h1 : c.cnt ≤ c.N := Nat.div_le_self _ _
  have h2 : c.kd.B * c.cnt ≤ c.N := Nat.mul_div_le _ _
  rcases hk.scale with h | ⟨h, _⟩
  · rw [h]; omega
  · rw [h]
    exact Nat.le_trans (Nat.mul_le_mul_left _ (Nat.sub_le _ _)) h2

/-- the decrement of the loop counter -/
theorem dec_step (hc : Contract c) (hk : Checked c sh σ1 σ1' σ0 H σb) {it : Nat} (hit : it < c.cnt)
    {s2 : State} (hsim2 : Sim c it σb s2) :
    ∃ s3, stepInstr c.env sh.decInstr s2 = some s3 ∧ isPlain sh.decInstr = true ∧
      Sim c it (σb.setGp sh.rc (.ctr sh.scale 1)) s3 ∧
      s3.zf = some (sh.scale * (c.cnt - it - 1) == 0) ∧ (sh.dec ≠ 0 → s3.cf = some false) := by
  have hg := hsim2.gp sh.rc
  rw [hk.rc] at hg
  simp only [GRefines, Nat.sub_zero] at hg
  have hle := ctr_le hk it
  have hnl := hc.n_lt
  have hpos := scale_pos hk
  have hsub : sh.scale * (c.cnt - it) = sh.scale * (c.cnt - it - 1) + sh.scale := by
    have : c.cnt - it = (c.cnt - it - 1) + 1 := by omega
    rw [this, Nat.mul_add, Nat.mul_one]; simp
  by_cases hd : sh.dec = 0
  · have hsc : sh.scale = 1 := by simp [Shape.scale, hd]
    have hdi : sh.decInstr = .decq sh.rc := by simp [Shape.decInstr, hd]
    rw [hdi]
    have hdec : (sh.scale * (c.cnt - it) + M64 - 1) % M64 = sh.scale * (c.cnt - it - 1) := by
      rw [hsub, hsc]
      have : 1 * (c.cnt - it - 1) + 1 + M64 - 1 = 1 * (c.cnt - it - 1) + M64 := by omega
      rw [this, Nat.add_mod_right, Nat.mod_eq_of_lt]
      rw [hsc] at hle; omega
    refine ⟨_, by simp only [stepInstr, hg, hdec]; rfl, rfl,
      (hsim2.setGp sh.rc (g := .ctr sh.scale 1) (v := .num (sh.scale * (c.cnt - it - 1))) rfl).setFlags _ _,
      rfl, fun h => absurd hd h⟩
  · have hsc : sh.scale = sh.dec := by simp [Shape.scale, hd]
    have hdi : sh.decInstr = .subqImm sh.dec sh.rc := by simp [Shape.decInstr, hd]
    rw [hdi]
    have hdec : (sh.scale * (c.cnt - it) + M64 - sh.dec) % M64 = sh.scale * (c.cnt - it - 1) := by
      rw [hsub, ← hsc]
      have : sh.scale * (c.cnt - it - 1) + sh.scale + M64 - sh.scale = sh.scale * (c.cnt - it - 1) + M64 := by omega
      rw [this, Nat.add_mod_right, Nat.mod_eq_of_lt]
      omega
    have hcf : decide (sh.scale * (c.cnt - it) < sh.dec) = false := by
      rw [decide_eq_false_iff_not, hsub, ← hsc]; omega
    refine ⟨_, by simp only [stepInstr, hg, if_pos hk.decLt, hdec, hcf], rfl,
      (hsim2.setGp sh.rc (g := .ctr sh.scale 1) (v := .num (sh.scale * (c.cnt - it - 1))) rfl).setFlags _ _,
      rfl, fun _ => rfl⟩

/-- the conditional jump at the end of the body -/
theorem jcc_step (hk : Checked c sh σ1 σ1' σ0 H σb) {s : State} {b : Bool} (hpc : s.pc = sh.P5.length)
    (hz : s.zf = some b) (hcf : sh.dec ≠ 0 → s.cf = some false) :
    step c.env sh.assemble s = if b then .cont (s.setPc (sh.P5.length + 1)) else .cont (s.setPc sh.P2.length) := by
  by_cases hj : sh.ja = true
  · have hji : sh.jccInstr = .ja sh.lLoop := by simp [Shape.jccInstr, hj]
    have hasm := sh.asm6
    rw [hji] at hasm
    rw [step_at_ja hasm hpc hz (hcf (hk.jaSub hj)), jump_eq (findLoop hk)]
    cases b <;> simp
  · have hji : sh.jccInstr = .jnz sh.lLoop := by simp [Shape.jccInstr, hj]
    have hasm := sh.asm6
    rw [hji] at hasm
    rw [step_at_jnz hasm hpc hz, jump_eq (findLoop hk)]

/-- one trip: from the loop label to the instruction after the conditional jump -/
theorem loop_iter (hc : Contract c) (hk : Checked c sh σ1 σ1' σ0 H σb) {it : Nat} (hit : it < c.cnt)
    {s : State} (hpc : s.pc = sh.P2.length) (h : Sim c it H s) :
    ∃ s', run c.env sh.assemble (sh.body.length + 3) s = some s' ∧ Sim c (it + 1) H s' ∧
      s'.pc = if it + 1 < c.cnt then sh.P2.length else sh.P6.length := by
  have hwf := covers_wf hk.cov hk.Bpos
  have hs1 : step c.env sh.assemble s = .cont (s.setPc (sh.P2.length + 1)) :=
    step_at_plain sh.asm3 hpc rfl rfl
  obtain ⟨s2, hrun2, hpc2, hsim2⟩ := symRun_sound hc hwf (loop := true) (fun _ => hit) sh.body sh.P3 _ H σb
    (s.setPc (sh.P2.length + 1)) sh.asm4 (by simp [Shape.len3, State.setPc]) (h.withPc _) hk.runb
  rw [← sh.len4] at hpc2
  obtain ⟨s3, hst3, hpl3, hsim3, hz3, hcf3⟩ := dec_step hc hk hit hsim2
  have hs3 := step_at_plain sh.asm5 hpc2 hpl3 hst3
  have hsim4 := stepOK_sound hk.stepok hk.clampG hk.clampV hk.hst hk.cov hsim3
  have hs4 := jcc_step hk (s := s3.setPc (sh.P4.length + 1)) (by simp [State.setPc, Shape.len5]) hz3 hcf3
  have hcount : sh.body.length + 3 = 1 + sh.body.length + 1 + 1 := by omega
  have hpos := scale_pos hk
  rw [hcount]
  by_cases hlast : it + 1 < c.cnt
  · have hz : (sh.scale * (c.cnt - it - 1) == 0) = false := by
      rw [beq_eq_false_iff_ne]
      exact Nat.mul_ne_zero (by omega) (by omega)
    rw [hz, if_neg (by simp)] at hs4
    exact ⟨_, run_trans (run_trans (run_trans (run_one hs1) hrun2) (run_one hs3)) (run_one hs4),
      (hsim4.withPc _).withPc _, by simp [hlast, State.setPc]⟩
  · have hz : (sh.scale * (c.cnt - it - 1) == 0) = true := by
      have : c.cnt - it - 1 = 0 := by omega
      rw [this]; simp
    rw [hz, if_pos rfl] at hs4
    exact ⟨_, run_trans (run_trans (run_trans (run_one hs1) hrun2) (run_one hs3)) (run_one hs4),
      (hsim4.withPc _).withPc _, by simp [hlast, State.setPc, Shape.len6]⟩

theorem loop_all (hc : Contract c) (hk : Checked c sh σ1 σ1' σ0 H σb) :
    ∀ (m it : Nat) (s : State), c.cnt - it = m → it < c.cnt → s.pc = sh.P2.length → Sim c it H s →
      ∃ s', run c.env sh.assemble (m * (sh.body.length + 3)) s = some s' ∧ Sim c c.cnt H s' ∧
        s'.pc = sh.P6.length := by
  intro m
  induction m with
  | zero => intro it s hm hit; omega
  | succ m ih =>
    intro it s hm hit hpc h
    obtain ⟨s1, hrun1, hsim1, hpc1⟩ := loop_iter hc hk hit hpc h
    by_cases hlast : it + 1 < c.cnt
    · rw [if_pos hlast] at hpc1
      obtain ⟨s2, hrun2, hsim2, hpc2⟩ := ih (it + 1) s1 (by omega) hlast hpc1 hsim1
      refine ⟨s2, ?_, hsim2, hpc2⟩
      rw [Nat.succ_mul, Nat.add_comm]
      exact run_trans hrun1 hrun2
    · rw [if_neg hlast] at hpc1
      have hm0 : m = 0 := by omega
      have hcnt : it + 1 = c.cnt := by omega
      subst hm0
      rw [hcnt] at hsim1
      exact ⟨s1, by simpa using hrun1, hsim1, hpc1⟩

/-- the epilogue from the end label (or, without one, from after the first `VZEROUPPER`s) to `RET` -/
theorem epilogue (hk : Checked c sh σ1 σ1' σ0 H σb) {s : State} (hpc : s.pc = sh.P7.length) :
    ∃ s' sf, run c.env sh.assemble (sh.endInstrs.length + sh.epiB.length) s = some s' ∧
      step c.env sh.assemble s' = .halt sf ∧ sf.mem = s.mem := by
  have hend : ∃ s1, run c.env sh.assemble sh.endInstrs.length s = some s1 ∧ s1.pc = sh.P8.length ∧ s1.mem = s.mem := by
    cases hl : sh.lEnd with
    | none =>
      refine ⟨s, by simp [Shape.endInstrs, hl, run], ?_, rfl⟩
      rw [hpc, sh.len8]; simp [Shape.endInstrs, hl]
    | some l =>
      have hasm : sh.assemble = sh.P7 ++ .label l :: (sh.epiB ++ [.ret]) := by
        rw [sh.asm8]; simp [Shape.endInstrs, hl]
      have hs := step_at_plain (env := c.env) (s := s) (s' := s) hasm hpc rfl rfl
      refine ⟨s.setPc (sh.P7.length + 1), by simp [Shape.endInstrs, hl, run, hs], ?_, rfl⟩
      rw [sh.len8]; simp [Shape.endInstrs, hl, State.setPc]
  obtain ⟨s1, hrun1, hpc1, hmem1⟩ := hend
  obtain ⟨s2, hrun2, hpc2, hmem2⟩ := run_vz (env := c.env) sh.epiB sh.P8 [.ret] s1 hk.vzB sh.asm9 hpc1
  rw [← sh.len9] at hpc2
  exact ⟨s2, s2, run_trans hrun1 hrun2, step_at_ret sh.asm10 hpc2, by rw [hmem2, hmem1]⟩

end

/-! ## the whole function -/

/-- number of machine steps of an accepted kernel (including the final `RET`) -/
def stepsOf (sh : Shape) (cnt : Nat) : Nat :=
  if cnt = 0 then sh.pre1.length + 2 + (sh.endInstrs.length + sh.epiB.length) + 1
  else sh.pre1.length + sh.guard.instrs.length + sh.pre2.length + cnt * (sh.body.length + 3) + sh.epiA.length +
    (sh.endInstrs.length + sh.epiB.length) + 1

/-- the early exit: either the loop is entered with a positive count, or the function returns at once -/
theorem guard_sound {c : Ctx} {sh : Shape} {σ1 σ1' σ0 H σb : SymState} (hc : Contract c)
    (hk : Checked c sh σ1 σ1' σ0 H σb) {s1 : State} (hpc : s1.pc = sh.pre1.length) (hsim : Sim c 0 σ1 s1) :
    (c.cnt = 0 ∧ ∃ s', run c.env sh.assemble 2 s1 = some s' ∧ s'.pc = sh.P7.length ∧ s'.mem = s1.mem) ∨
    (0 < c.cnt ∧ ∃ s', run c.env sh.assemble sh.guard.instrs.length s1 = some s' ∧ s'.pc = sh.P1.length ∧
      Sim c 0 σ1' s') := by
  have hg := hk.guard
  cases hgd : sh.guard with
  | none =>
    rw [hgd] at hg
    simp only [guardOK, Option.some.injEq] at hg
    subst hg
    right
    have he := hk.gNone (by rw [hgd]; rfl)
    refine ⟨(cnt_exact hc he).2, s1, by simp [Guard.instrs, run], ?_, hsim⟩
    rw [hpc, sh.len1, hgd]; simp [Guard.instrs]
  | testq r l =>
    rw [hgd] at hg
    simp only [guardOK] at hg
    split at hg
    · rename_i hr
      simp only [Option.some.injEq] at hg
      subst hg
      have hv := hsim.gp r
      rw [hr] at hv
      simp only [GRefines] at hv
      have hasm1 : sh.assemble = sh.pre1 ++ .testq r r :: (.jz l :: (sh.pre2 ++ (.label sh.lLoop :: (sh.body ++
          (sh.decInstr :: sh.jccInstr :: sh.tailE))))) := by rw [sh.asm1, hgd]; simp [Guard.instrs]
      have hasm2 : sh.assemble = (sh.pre1 ++ [.testq r r]) ++ .jz l :: (sh.pre2 ++ (.label sh.lLoop :: (sh.body ++
          (sh.decInstr :: sh.jccInstr :: sh.tailE)))) := by rw [hasm1]; simp
      have hst : stepInstr c.env (.testq r r) s1 = some (setFlags s1 (some (c.cnt == 0)) (some false)) := by
        simp only [stepInstr, hv, Nat.and_self]
      have hs2 := step_at_plain hasm1 hpc rfl hst
      have hs3 := step_at_jz (env := c.env) (s := (setFlags s1 (some (c.cnt == 0)) (some false)).setPc (sh.pre1.length + 1))
        (b := c.cnt == 0) hasm2 (by simp [State.setPc]) rfl
      have hlen : sh.P1.length = sh.pre1.length + 1 + 1 := by rw [sh.len1, hgd]; simp [Guard.instrs]
      by_cases hz : c.cnt = 0
      · left
        have hzf : (c.cnt == 0) = true := by simp [hz]
        have hle := hk.gEnd l (by rw [hgd]; rfl)
        rw [if_pos hzf, jump_eq (findEnd hk hle)] at hs3
        exact ⟨hz, _, run_trans (run_one hs2) (run_one hs3), rfl, rfl⟩
      · right
        have hzf : (c.cnt == 0) = false := by simp [hz]
        rw [if_neg (by rw [hzf]; simp)] at hs3
        refine ⟨by omega, _, by simpa [Guard.instrs] using run_trans (run_one hs2) (run_one hs3), ?_,
          ((hsim.setFlags _ _).withPc _).withPc _⟩
        simp [State.setPc, hlen]
    · exact absurd hg (by simp)
  | shrq imm r l =>
    rw [hgd] at hg
    simp only [guardOK] at hg
    split at hg
    · rename_i hcond
      obtain ⟨hr, hpos, hlt, hpow⟩ := hcond
      simp only [Option.some.injEq] at hg
      subst hg
      have hv := hsim.gp r
      rw [hr] at hv
      simp only [GRefines] at hv
      have hcnt : c.N >>> imm = c.cnt := by
        simp only [Ctx.cnt, ← hpow, Nat.shiftRight_eq_div_pow]
      have hasm1 : sh.assemble = sh.pre1 ++ .shrqImm imm r :: (.jz l :: (sh.pre2 ++ (.label sh.lLoop :: (sh.body ++
          (sh.decInstr :: sh.jccInstr :: sh.tailE))))) := by rw [sh.asm1, hgd]; simp [Guard.instrs]
      have hasm2 : sh.assemble = (sh.pre1 ++ [.shrqImm imm r]) ++ .jz l :: (sh.pre2 ++ (.label sh.lLoop :: (sh.body ++
          (sh.decInstr :: sh.jccInstr :: sh.tailE)))) := by rw [hasm1]; simp
      have hst : stepInstr c.env (.shrqImm imm r) s1 =
          some (setFlags (setGp s1 r (.num c.cnt)) (some (c.cnt == 0)) (some (c.N.testBit (imm - 1)))) := by
        simp only [stepInstr, hv, if_pos (And.intro hpos hlt), hcnt]
      have hs2 := step_at_plain hasm1 hpc rfl hst
      have hs3 := step_at_jz (env := c.env)
        (s := (setFlags (setGp s1 r (.num c.cnt)) (some (c.cnt == 0)) (some (c.N.testBit (imm - 1)))).setPc (sh.pre1.length + 1))
        (b := c.cnt == 0) hasm2 (by simp [State.setPc]) rfl
      have hlen : sh.P1.length = sh.pre1.length + 1 + 1 := by rw [sh.len1, hgd]; simp [Guard.instrs]
      by_cases hz : c.cnt = 0
      · left
        have hzf : (c.cnt == 0) = true := by simp [hz]
        have hle := hk.gEnd l (by rw [hgd]; rfl)
        rw [if_pos hzf, jump_eq (findEnd hk hle)] at hs3
        exact ⟨hz, _, run_trans (run_one hs2) (run_one hs3), rfl, rfl⟩
      · right
        have hzf : (c.cnt == 0) = false := by simp [hz]
        rw [if_neg (by rw [hzf]; simp)] at hs3
        refine ⟨by omega, _, by simpa [Guard.instrs] using run_trans (run_one hs2) (run_one hs3), ?_,
          (((hsim.setGp r (g := .cnt) rfl).setFlags _ _).withPc _).withPc _⟩
        simp [State.setPc, hlen]
    · exact absurd hg (by simp)

theorem checked_sound {c : Ctx} {sh : Shape} {σ1 σ1' σ0 H σb : SymState} (hc : Contract c)
    (hk : Checked c sh σ1 σ1' σ0 H σb) (s0 : State) (hpc0 : s0.pc = 0) (hmem0 : s0.mem = c.m0) :
    ∃ sf, exec c.env sh.assemble (stepsOf sh c.cnt) s0 = some sf ∧ MemInv c c.cnt [] sf.mem := by
  have hwf := covers_wf hk.cov hk.Bpos
  have hsim0 : Sim c 0 initSym s0 := by
    refine ⟨fun _ => trivial, fun _ => trivial, ?_, by intro i o ho; simp [initSym] at ho⟩
    have hnd : ∀ k p, ¬ DoneK c 0 [] k p := by
      intro k p hd
      rcases hd with ⟨_, h2⟩ | ⟨o, ho, _⟩
      · unfold Ctx.cur at h2; omega
      · simp at ho
    exact ⟨fun r p _ => by rw [hmem0], fun k p _ hd => absurd hd (hnd k p), fun k p _ _ => by rw [hmem0]⟩
  obtain ⟨s1, hrun1, hpc1, hsim1⟩ := symRun_sound hc hwf (it := 0) (loop := false) (by simp) sh.pre1 [] _ initSym σ1 s0
    sh.asm0 (by simpa using hpc0) hsim0 hk.run1
  simp only [List.length_nil, Nat.zero_add] at hpc1
  rcases guard_sound hc hk hpc1 hsim1 with ⟨hz, s2, hrun2, hpc2, hmem2⟩ | ⟨hpos, s2, hrun2, hpc2, hsim2⟩
  · -- early exit
    obtain ⟨s3, sf, hrun3, hhalt, hmemf⟩ := epilogue hk hpc2
    have hex := exec_halt (run_trans (run_trans hrun1 hrun2) hrun3) hhalt
    have hsteps : stepsOf sh c.cnt = sh.pre1.length + 2 + (sh.endInstrs.length + sh.epiB.length) + 1 := by
      simp [stepsOf, hz]
    rw [← hsteps] at hex
    refine ⟨sf, hex, ?_⟩
    rw [hz, hmemf, hmem2]
    have := hsim1.mem
    rw [hk.s1st] at this
    exact this
  · -- the loop
    obtain ⟨s4, hrun4, hpc4, hsim4⟩ := symRun_sound hc hwf (it := 0) (loop := false) (by simp) sh.pre2 sh.P1 _ σ1' σ0
      s2 sh.asm2 hpc2 hsim2 hk.run2
    rw [← sh.len2] at hpc4
    have hsimH := initOK_sound hc hk.init hk.clampG hk.clampV hk.hst hk.s0st hsim4
    obtain ⟨s5, hrun5, hsim5, hpc5⟩ := loop_all hc hk c.cnt 0 s4 rfl hpos hpc4 hsimH
    obtain ⟨s6, hrun6, hpc6, hmem6⟩ := run_vz (env := c.env) sh.epiA sh.P6 _ s5 hk.vzA sh.asm7 hpc5
    rw [← sh.len7] at hpc6
    obtain ⟨s7, sf, hrun7, hhalt, hmemf⟩ := epilogue hk hpc6
    have hex := exec_halt (run_trans (run_trans (run_trans (run_trans (run_trans hrun1 hrun2) hrun4) hrun5) hrun6) hrun7) hhalt
    have hsteps : stepsOf sh c.cnt = sh.pre1.length + sh.guard.instrs.length + sh.pre2.length +
        c.cnt * (sh.body.length + 3) + sh.epiA.length + (sh.endInstrs.length + sh.epiB.length) + 1 := by
      have : c.cnt ≠ 0 := by omega
      simp [stepsOf, this]
    rw [← hsteps] at hex
    refine ⟨sf, hex, ?_⟩
    rw [hmemf, hmem6]
    have := hsim5.mem
    rw [hk.hst] at this
    exact this

end RSV.Asm.Leo
