import RSV.Proofs.AsmLeoContract
/-!
# Soundness of the checker for the remaining amd64 kernels, part 8: `specVal` of every kernel
descriptor in byte-level terms (what the memory holds after the call, position by position).
-/
namespace RSV.Asm.Leo
open RSV RSV.Asm

theorem pos_decomp {B w : Nat} (hB : w * (B / w) = B) (p : Nat) :
    p / B * B + p % B / w * w + p % w = p := by
  have hdvd : w ∣ B := ⟨B / w, hB.symm⟩
  have h1 := Nat.div_add_mod p B
  have h2 := Nat.div_add_mod (p % B) w
  rw [Nat.mod_mod_of_dvd p hdvd] at h2
  rw [Nat.mul_comm (p / B), Nat.mul_comm (p % B / w)]
  omega

/-- a GF(2^16) symbol of a row: the low byte in the first half of the 64-byte block, the high byte
32 bytes further -/
def sym16 (m0 : Region → Nat → Nat) (r : Region) (p : Nat) : Nat × Nat :=
  (m0 r (p / 64 * 64 + p % 32), m0 r (p / 64 * 64 + 32 + p % 32))

/-- the byte of a symbol that lives at position `p` -/
def half (p : Nat) (x : Nat × Nat) : Nat := if p % 64 < 32 then x.1 else x.2

variable {c : Ctx}

theorem evalE_old_at (hwf : c.kd.wf) (j p : Nat) :
    evalE c (p / c.kd.B * c.kd.B) (p % c.kd.w) (.old j (p % c.kd.B / c.kd.w * c.kd.w)) = c.m0 (c.rowReg j) p := by
  simp only [evalE]
  rw [pos_decomp hwf.1]

theorem specVal_xor (hwf : c.kd.wf) {isa : Isa} {num : Nat} (hkd : c.kd = kdXor isa num) (k p : Nat) :
    specVal c k p = c.m0 (c.rowReg 0) p ^^^ c.m0 (c.rowReg 1) p := by
  have e0 := evalE_old_at hwf 0 p
  have e1 := evalE_old_at hwf 1 p
  unfold specVal
  rw [hkd] at e0 e1 ⊢
  simp only [kdXor, evalE] at e0 e1 ⊢
  rw [e0, e1]

theorem specVal_galmul (hwf : c.kd.wf) {isa : Isa} {flag : Bool} {num : Nat} (hkd : c.kd = kdGalMul isa flag num)
    (k p : Nat) :
    specVal c k p = (if flag then c.m0 (c.rowReg 0) p else 0) ^^^
      (c.m0 (.tab 0) (c.m0 (c.rowReg 1) p &&& 15) ^^^ c.m0 (.tab 1) (c.m0 (c.rowReg 1) p >>> 4)) := by
  have e0 := evalE_old_at hwf 0 p
  have e1 := evalE_old_at hwf 1 p
  unfold specVal
  rw [hkd] at e0 e1 ⊢
  simp only [kdGalMul, evalE] at e0 e1 ⊢
  cases flag <;> simp [evalE, nib, e0, e1]

theorem specVal_dit28 (hwf : c.kd.wf) {flag : Bool} (hkd : c.kd = kdDit28 flag) (k p : Nat) :
    specVal c k p = sel2 k ((if flag then ifft2 else fft2) (algB8 c.m0) false 0
      (c.m0 (c.rowReg 0) p) (c.m0 (c.rowReg 1) p)) := by
  have e0 := evalE_old_at hwf 0 p
  have e1 := evalE_old_at hwf 1 p
  unfold specVal
  rw [hkd] at e0 e1 ⊢
  simp only [kdDit28] at e0 e1 ⊢
  rw [hom_sel2 (evalE c _ _)]
  cases flag
  · simp only [Bool.false_eq_true, if_false]
    rw [hom_fft2 (hom8 c _ _), e0, e1]
  · simp only [if_true]
    rw [hom_ifft2 (hom8 c _ _), e0, e1]

theorem specVal_dit48_avx2 (hwf : c.kd.wf) {flag : Bool} {num : Nat} (hkd : c.kd = kdDit48 .avx2 flag num) (k p : Nat) :
    specVal c k p = sel4 k ((if flag then ifft4 else fft4) (algB8 c.m0) num
      (c.m0 (c.rowReg 0) p) (c.m0 (c.rowReg 1) p) (c.m0 (c.rowReg 2) p) (c.m0 (c.rowReg 3) p)) := by
  have e0 := evalE_old_at hwf 0 p
  have e1 := evalE_old_at hwf 1 p
  have e2 := evalE_old_at hwf 2 p
  have e3 := evalE_old_at hwf 3 p
  unfold specVal
  rw [hkd] at e0 e1 e2 e3 ⊢
  simp only [kdDit48] at e0 e1 e2 e3 ⊢
  have hne : (Isa.avx2 = Isa.gfni) = False := by simp
  simp only [hne, if_false]
  cases flag
  · simp only [Bool.false_eq_true, if_false]
    rw [hom_fft4 (hom8 c _ _), e0, e1, e2, e3]
  · simp only [if_true]
    rw [hom_ifft4 (hom8 c _ _), e0, e1, e2, e3]

theorem specVal_dit48_gfni (hwf : c.kd.wf) {flag : Bool} {num : Nat} (hkd : c.kd = kdDit48 .gfni flag num) (k p : Nat) :
    specVal c k p = sel4 k ((if flag then ifft4 else fft4) (algB8gfni fun i => c.immq (32 + 8 * i)) num
      (c.m0 (c.rowReg 0) p) (c.m0 (c.rowReg 1) p) (c.m0 (c.rowReg 2) p) (c.m0 (c.rowReg 3) p)) := by
  have e0 := evalE_old_at hwf 0 p
  have e1 := evalE_old_at hwf 1 p
  have e2 := evalE_old_at hwf 2 p
  have e3 := evalE_old_at hwf 3 p
  unfold specVal
  rw [hkd] at e0 e1 e2 e3 ⊢
  simp only [kdDit48] at e0 e1 e2 e3 ⊢
  simp only [if_true]
  cases flag
  · simp only [Bool.false_eq_true, if_false]
    rw [hom_fft4 (hom8gfni c _ _), e0, e1, e2, e3]
  · simp only [if_true]
    rw [hom_ifft4 (hom8gfni c _ _), e0, e1, e2, e3]

/-! ### GF(2^16) -/

/-- evaluation of a symbol (pair of chunk expressions) -/
def ev2 (c : Ctx) (base q : Nat) (x : E × E) : Nat × Nat := (evalE c base q x.1, evalE c base q x.2)

theorem evalE_half16 (base q o : Nat) (x : E × E) :
    evalE c base q (half16 o x) = if o < 32 then (ev2 c base q x).1 else (ev2 c base q x).2 := by
  unfold half16 ev2; split <;> rfl

theorem ev2_pair16 (j p w : Nat) (hw : w = 16 ∨ w = 32) :
    ev2 c (p / 64 * 64) (p % w) (pair16 j (p % 64 / w * w)) = sym16 c.m0 (c.rowReg j) p := by
  simp only [ev2, pair16, sym16, evalE]
  rcases hw with rfl | rfl
  · have h1 : p / 64 * 64 + p % 64 / 16 * 16 % 32 + p % 16 = p / 64 * 64 + p % 32 := by omega
    have h2 : p / 64 * 64 + (p % 64 / 16 * 16 % 32 + 32) + p % 16 = p / 64 * 64 + 32 + p % 32 := by omega
    rw [h1, h2]
  · have h1 : p / 64 * 64 + p % 64 / 32 * 32 % 32 + p % 32 = p / 64 * 64 + p % 32 := by omega
    have h2 : p / 64 * 64 + (p % 64 / 32 * 32 % 32 + 32) + p % 32 = p / 64 * 64 + 32 + p % 32 := by omega
    rw [h1, h2]

theorem half_cond (p w : Nat) (hw : w = 16 ∨ w = 32) : (p % 64 / w * w < 32) = (p % 64 < 32) := by
  rcases hw with rfl | rfl <;> (apply propext; omega)

theorem isa_w16 {isa : Isa} (h : isa = .avx2 ∨ isa = .ssse3) : isa.w = 16 ∨ isa.w = 32 := by
  rcases h with rfl | rfl
  · exact Or.inr rfl
  · exact Or.inl rfl

theorem specVal_dit2 {isa : Isa} (hisa : isa = .avx2 ∨ isa = .ssse3) {flag : Bool} (hkd : c.kd = kdDit2 isa flag)
    (k p : Nat) :
    specVal c k p = half p (sel2 k ((if flag then ifft2 else fft2) (algB16 c.m0) false 0
      (sym16 c.m0 (c.rowReg 0) p) (sym16 c.m0 (c.rowReg 1) p))) := by
  have hw := isa_w16 hisa
  unfold specVal
  rw [hkd]
  simp only [kdDit2]
  rw [evalE_half16, hom_sel2 (ev2 c _ _)]
  simp only [half_cond p _ hw]
  unfold half
  cases flag
  · simp only [Bool.false_eq_true, if_false]
    rw [hom_fft2 (h := ev2 c _ _) (hom16 c _ _), ev2_pair16 0 p _ hw, ev2_pair16 1 p _ hw]
  · simp only [if_true]
    rw [hom_ifft2 (h := ev2 c _ _) (hom16 c _ _), ev2_pair16 0 p _ hw, ev2_pair16 1 p _ hw]

theorem specVal_dit4 {flag : Bool} {num : Nat} (hkd : c.kd = kdDit4 flag num) (k p : Nat) :
    specVal c k p = half p (sel4 k ((if flag then ifft4 else fft4) (algB16 c.m0) num
      (sym16 c.m0 (c.rowReg 0) p) (sym16 c.m0 (c.rowReg 1) p) (sym16 c.m0 (c.rowReg 2) p)
      (sym16 c.m0 (c.rowReg 3) p))) := by
  have hw : (32 : Nat) = 16 ∨ (32 : Nat) = 32 := Or.inr rfl
  unfold specVal
  rw [hkd]
  simp only [kdDit4]
  rw [evalE_half16]
  simp only [half_cond p _ hw]
  unfold half
  cases flag
  · simp only [Bool.false_eq_true, if_false]
    rw [hom_fft4 (h := ev2 c _ _) (hom16 c _ _), ev2_pair16 0 p _ hw, ev2_pair16 1 p _ hw, ev2_pair16 2 p _ hw,
      ev2_pair16 3 p _ hw]
  · simp only [if_true]
    rw [hom_ifft4 (h := ev2 c _ _) (hom16 c _ _), ev2_pair16 0 p _ hw, ev2_pair16 1 p _ hw, ev2_pair16 2 p _ hw,
      ev2_pair16 3 p _ hw]

theorem specVal_mul16 {isa : Isa} (hisa : isa = .avx2 ∨ isa = .ssse3) (hkd : c.kd = kdMul16 isa) (k p : Nat) :
    specVal c k p = half p ((algB16 c.m0).mul 0 (sym16 c.m0 (c.rowReg 1) p)) := by
  have hw := isa_w16 hisa
  unfold specVal
  rw [hkd]
  simp only [kdMul16]
  rw [evalE_half16]
  simp only [half_cond p _ hw]
  unfold half
  have hm : ∀ b q a, ev2 c b q (algE16.mul 0 a) = (algB16 c.m0).mul 0 (ev2 c b q a) :=
    fun b q a => (hom16 c b q).mul 0 a
  rw [hm, ev2_pair16 1 p _ hw]

end RSV.Asm.Leo
