import RSV.Proofs.AsmLeoSem
import Mathlib.Tactic.Ring
/-!
# Soundness of the checker for the remaining amd64 kernels, part 2: address computation and the
general-register instructions.
-/
namespace RSV.Asm.Leo
open RSV RSV.Asm

variable {c : Ctx} {it : Nat} {σ σ' : SymState} {s : State}

/-- conclusion of every per-instruction simulation lemma -/
def StepOK (c : Ctx) (it : Nat) (i : Instr) (σ' : SymState) (s : State) : Prop :=
  ∃ s', stepInstr c.env i s = some s' ∧ Sim c it σ' s' ∧ s'.pc = s.pc

theorem Sim.setGp (h : Sim c it σ s) (d : Reg) {g : GSym} {v : Val} (hg : GRefines c it g v) :
    Sim c it (σ.setGp d g) (setGp s d v) := by
  refine ⟨fun r => ?_, h.vec, h.mem, h.stores_ok⟩
  show GRefines c it (if r = d then g else σ.gp r) (if r = d then v else s.gp r)
  by_cases hr : r = d
  · simp [hr, hg]
  · simp [hr, h.gp r]

theorem Sim.setVec (h : Sim c it σ s) (d : VReg) (f : Nat → Nat) {x : VSym}
    (hx : VRefines c it x (fun k => if k < d.w.bytes then f k else 0)) :
    Sim c it (σ.setVec d.idx x) (setVec s d f) := by
  refine ⟨h.gp, fun v => ?_, h.mem, h.stores_ok⟩
  show VRefines c it (if v = d.idx then x else σ.vec v)
    (fun k => if v = d.idx then (if k < d.w.bytes then f k else 0) else s.vec v k)
  by_cases hv : v = d.idx
  · simp only [hv, if_true]; exact hx
  · simp only [hv, if_false]; exact h.vec v

/-- legacy-SSE write: 16 described bytes, the rest of the register is forgotten -/
theorem Sim.setXmm (h : Sim c it σ s) (x : Nat) (f : Nat → Nat) {y : VSym}
    (hy : VRefines c it y (fun k => if k < 16 then f k else s.vec x k)) :
    Sim c it (σ.setVec x y) (setXmm s x f) := by
  refine ⟨h.gp, fun v => ?_, h.mem, h.stores_ok⟩
  show VRefines c it (if v = x then y else σ.vec v)
    (fun k => if v = x then (if k < 16 then f k else s.vec v k) else s.vec v k)
  by_cases hv : v = x
  · simp only [hv, if_true]; exact hy
  · simp only [hv, if_false]; exact h.vec v

theorem Sim.setFlags (h : Sim c it σ s) (z cf : Option Bool) : Sim c it σ (setFlags s z cf) :=
  ⟨h.gp, h.vec, h.mem, h.stores_ok⟩

theorem Sim.withPc (h : Sim c it σ s) (p : Nat) : Sim c it σ (s.setPc p) :=
  ⟨h.gp, h.vec, h.mem, h.stores_ok⟩

theorem linVal_add (c : Ctx) (it a t k d : Nat) : (linVal c it a t k + d) % M64 = linVal c it a t (k + d) := by
  unfold linVal
  rw [Nat.mod_add_mod]
  congr 1
  omega

theorem linVal_add_lin (c : Ctx) (it a t k a' t' k' : Nat) :
    (linVal c it a t k + linVal c it a' t' k') % M64 = linVal c it (a + a') (t + t') (k + k') := by
  unfold linVal
  rw [← Nat.add_mod]
  congr 1
  ring

theorem linVal_small (c : Ctx) (it a t k : Nat) (h : a * (24 * c.dist) + t * (c.kd.B * it) + k < M64) :
    linVal c it a t k = a * (24 * c.dist) + t * (c.kd.B * it) + k := Nat.mod_eq_of_lt h

theorem linVal_const (c : Ctx) (it k : Nat) (h : k < M64) : linVal c it 0 0 k = k := by
  rw [linVal_small] <;> omega

theorem symAddr_sound (h : Sim c it σ s) {m : Mem} {b : SBase} {a t k : Nat}
    (ha : symAddr σ m = some (b, a, t, k)) : addr s m = some (c.sbReg b, linVal c it a t k) := by
  cases m with
  | bd disp base =>
    simp only [symAddr] at ha
    split at ha
    · rename_i r' a' t' k' heq
      have hg := h.gp base
      rw [heq] at hg
      simp only [GRefines] at hg
      simp only [Option.some.injEq, Prod.mk.injEq] at ha
      obtain ⟨rfl, rfl, rfl, rfl⟩ := ha
      simp only [addr, hg, linVal_add]
    · exact absurd ha (by simp)
  | bi base idx =>
    simp only [symAddr] at ha
    split at ha
    · rename_i r' a' t' k' a'' t'' k'' heq heq2
      have hg := h.gp base
      have hg2 := h.gp idx
      rw [heq] at hg
      rw [heq2] at hg2
      simp only [GRefines] at hg hg2
      simp only [Option.some.injEq, Prod.mk.injEq] at ha
      obtain ⟨rfl, rfl, rfl, rfl⟩ := ha
      simp only [addr, hg, hg2, linVal_add_lin]
    · exact absurd ha (by simp)

/-- the block of iteration `it < cnt` lies inside `[0, N)` -/
theorem blk_bound (c : Ctx) {it : Nat} (h : it < c.cnt) : c.cur it + c.kd.B ≤ c.N := by
  unfold Ctx.cur
  have h1 : c.kd.B * (it + 1) ≤ c.kd.B * c.cnt := Nat.mul_le_mul_left _ h
  have h2 : c.kd.B * c.cnt ≤ c.N := Nat.mul_div_le _ _
  rw [Nat.mul_add, Nat.mul_one] at h1
  omega

theorem symData_tab (hc : Contract c) (h : Sim c it σ s) {loop : Bool} {m : Mem} {w k t : Nat}
    (hd : symData c.kd loop σ m w = some (.tab t, k)) :
    dataAddr c.env s m w = some (.tab t, k) ∧ k + w ≤ c.kd.tabSize t := by
  unfold symData at hd
  split at hd
  · exact absurd hd (by simp)
  · rename_i b a t' k' heq
    have ha := symAddr_sound h heq
    split at hd
    · split at hd
      · rename_i t'' hcond
        obtain ⟨rfl, rfl, hle, hlt⟩ := hcond
        simp only [Option.some.injEq, Prod.mk.injEq, SBase.tab.injEq] at hd
        obtain ⟨rfl, rfl⟩ := hd
        rw [linVal_const _ _ _ (by omega)] at ha
        have := hc.tab_size t''
        refine ⟨?_, hle⟩
        simp only [dataAddr, ha, Ctx.sbReg, Env.isData, Bool.true_and]
        rw [if_pos (by simp; omega)]
      · exact absurd hd (by simp)
    · split at hd <;> simp at hd
    · exact absurd hd (by simp)

theorem symData_row (hc : Contract c) (h : Sim c it σ s) {loop : Bool} (hl : loop = true → it < c.cnt)
    {m : Mem} {w k r : Nat} (hd : symData c.kd loop σ m w = some (.row r, k)) :
    dataAddr c.env s m w = some (c.rowReg r, c.cur it + k) ∧ k + w ≤ c.kd.B ∧ r < c.kd.rows ∧ it < c.cnt ∧
      w = c.kd.w ∧ k % c.kd.w = 0 := by
  unfold symData at hd
  split at hd
  · exact absurd hd (by simp)
  · rename_i b a t' k' heq
    have ha := symAddr_sound h heq
    split at hd
    · split at hd <;> simp at hd
    · split at hd
      · rename_i r' hcond
        obtain ⟨hloop, rfl, rfl, hr, hle, hw, hmod⟩ := hcond
        simp only [Option.some.injEq, Prod.mk.injEq, SBase.row.injEq] at hd
        obtain ⟨rfl, rfl⟩ := hd
        have hit := hl hloop
        have hb := blk_bound c hit
        have hsz := hc.row_size r' hr
        have hnl := hc.n_lt
        have hk : linVal c it 0 1 k' = c.cur it + k' := by
          rw [linVal_small] <;> unfold Ctx.cur at * <;> omega
        rw [hk] at ha
        refine ⟨?_, hle, hr, hit, hw, hmod⟩
        have hro := hc.row_lt r' hr
        have hid : c.env.isData (c.rowReg r') = true := by simp [Ctx.rowReg, Env.isData, hro]
        simp only [dataAddr, ha, Ctx.sbReg, hid, Bool.true_and]
        rw [if_pos (by simp; omega)]
      · exact absurd hd (by simp)
    · exact absurd hd (by simp)

/-! ## general-register instructions -/

theorem step_movqFP (hc : Contract c) (h : Sim c it σ s) {loop : Bool} {off : Nat} {d : Reg}
    (hs : symStep c.kd loop (.movqFP off d) σ = some σ') : StepOK c it (.movqFP off d) σ' s := by
  simp only [symStep] at hs
  split at hs
  · rename_i b heq
    simp only [Option.some.injEq] at hs
    subst hs
    refine ⟨_, by simp only [stepInstr, hc.frame_ok _ _ heq]; rfl, h.setGp d ?_, rfl⟩
    simp only [GRefines, Ctx.argVal]
    rw [linVal_const]; decide
  · rename_i heq
    simp only [Option.some.injEq] at hs
    subst hs
    exact ⟨_, by simp only [stepInstr, hc.frame_ok _ _ heq]; rfl, h.setGp d rfl, rfl⟩
  · rename_i heq
    simp only [Option.some.injEq] at hs
    subst hs
    refine ⟨_, by simp only [stepInstr, hc.frame_ok _ _ heq]; rfl, h.setGp d ?_, rfl⟩
    simp only [GRefines, Ctx.argVal]
    have := hc.dist_lt
    rw [linVal_small]
    · simp
    · simp; omega
  · exact absurd hs (by simp)

theorem step_movqImm (h : Sim c it σ s) {loop : Bool} {imm : Nat} {d : Reg}
    (hs : symStep c.kd loop (.movqImm imm d) σ = some σ') : StepOK c it (.movqImm imm d) σ' s := by
  simp only [symStep, Option.some.injEq] at hs
  subst hs
  refine ⟨_, rfl, h.setGp d ?_, rfl⟩
  simp [GRefines, linVal]

theorem step_xorqRR (h : Sim c it σ s) {loop : Bool} {a d : Reg}
    (hs : symStep c.kd loop (.xorqRR a d) σ = some σ') : StepOK c it (.xorqRR a d) σ' s := by
  simp only [symStep] at hs
  split at hs
  · rename_i hEq
    simp only [Option.some.injEq] at hs
    subst hs
    refine ⟨_, by simp only [stepInstr, if_pos hEq]; rfl, (h.setGp d ?_).setFlags _ _, rfl⟩
    simp [GRefines, linVal]
  · exact absurd hs (by simp)

theorem row0 (c : Ctx) : c.rowReg 0 = .out 0 := by simp [Ctx.rowReg]

theorem step_movqLoad (hc : Contract c) (h : Sim c it σ s) {loop : Bool} {m : Mem} {d : Reg}
    (hs : symStep c.kd loop (.movqLoad m d) σ = some σ') : StepOK c it (.movqLoad m d) σ' s := by
  simp only [symStep] at hs
  split at hs
  · rename_i a t k heq
    have ha := symAddr_sound h heq
    have hlt := hc.hdr_lt
    split at hs
    · rename_i hcond
      obtain ⟨rfl, rfl, hr⟩ := hcond
      simp only [Option.some.injEq] at hs
      subst hs
      have hro := hc.row_lt a hr
      have hv : linVal c it a 0 0 = 24 * (a * c.dist) := by
        rw [linVal_small]
        · ring
        · have : a * (24 * c.dist) = 24 * (a * c.dist) := by ring
          omega
      rw [hv] at ha
      refine ⟨setGp s d (.ptr (c.rowReg a) 0), ?_, h.setGp d ?_, rfl⟩
      · simp only [stepInstr, ha, Ctx.sbReg]
        have h1 : 24 * (a * c.dist) % 24 = 0 := Nat.mul_mod_right _ _
        have h2 : 24 * (a * c.dist) / 24 = a * c.dist := Nat.mul_div_cancel_left _ (by decide)
        rw [h2, if_pos ⟨h1, hro⟩]
        rfl
      · simp only [GRefines, Ctx.sbReg]; rw [linVal_const]; decide
    · split at hs
      · rename_i hcond
        obtain ⟨rfl, rfl, rfl, hlen, hrows⟩ := hcond
        simp only [Option.some.injEq] at hs
        subst hs
        have hro := hc.row_lt 0 hrows
        rw [linVal_const _ _ _ (by decide)] at ha
        refine ⟨setGp s d (.num c.N), ?_, h.setGp d rfl, rfl⟩
        simp only [stepInstr, ha, Ctx.sbReg]
        have h9 : True ∧ 8 / 24 < c.env.outputs := ⟨trivial, by omega⟩
        rw [if_pos h9]
        have := hc.hdr_len hlen
        rw [row0] at this
        rw [show (8 : Nat) / 24 = 0 from rfl, this]
        rw [if_neg (by omega)]
      · exact absurd hs (by simp)
  · exact absurd hs (by simp)

theorem step_addqImm (h : Sim c it σ s) {loop : Bool} {imm : Nat} {d : Reg}
    (hs : symStep c.kd loop (.addqImm imm d) σ = some σ') : StepOK c it (.addqImm imm d) σ' s := by
  simp only [symStep] at hs
  split at hs
  · rename_i b a t k heq
    simp only [Option.some.injEq] at hs
    subst hs
    have hg := h.gp d
    rw [heq] at hg
    cases b with
    | none =>
      simp only [GRefines] at hg
      refine ⟨_, by simp only [stepInstr, hg]; rfl, (h.setGp d ?_).setFlags _ _, rfl⟩
      simp only [GRefines, linVal_add]
    | some r =>
      simp only [GRefines] at hg
      refine ⟨_, by simp only [stepInstr, hg]; rfl, (h.setGp d ?_).setFlags _ _, rfl⟩
      simp only [GRefines, linVal_add]
  · exact absurd hs (by simp)

theorem step_addqReg (h : Sim c it σ s) {loop : Bool} {src d : Reg}
    (hs : symStep c.kd loop (.addqReg src d) σ = some σ') : StepOK c it (.addqReg src d) σ' s := by
  simp only [symStep] at hs
  split at hs
  · rename_i a t k b a' t' k' heq heq2
    simp only [Option.some.injEq] at hs
    subst hs
    have hg := h.gp src
    have hg2 := h.gp d
    rw [heq] at hg
    rw [heq2] at hg2
    simp only [GRefines] at hg
    cases b with
    | none =>
      simp only [GRefines] at hg2
      refine ⟨_, by simp only [stepInstr, hg, hg2]; rfl, (h.setGp d ?_).setFlags _ _, rfl⟩
      simp only [GRefines, linVal_add_lin]
    | some r =>
      simp only [GRefines] at hg2
      refine ⟨_, by simp only [stepInstr, hg, hg2]; rfl, (h.setGp d ?_).setFlags _ _, rfl⟩
      simp only [GRefines, linVal_add_lin]
  · rename_i r a t k a' t' k' heq heq2
    simp only [Option.some.injEq] at hs
    subst hs
    have hg := h.gp src
    have hg2 := h.gp d
    rw [heq] at hg
    rw [heq2] at hg2
    simp only [GRefines] at hg hg2
    refine ⟨_, by simp only [stepInstr, hg, hg2]; rfl, (h.setGp d ?_).setFlags _ _, rfl⟩
    simp only [GRefines, linVal_add_lin, Nat.add_comm]
  · exact absurd hs (by simp)

theorem step_shrqImm (h : Sim c it σ s) {loop : Bool} {imm : Nat} {d : Reg}
    (hs : symStep c.kd loop (.shrqImm imm d) σ = some σ') : StepOK c it (.shrqImm imm d) σ' s := by
  simp only [symStep] at hs
  split at hs
  · rename_i heq
    split at hs
    · rename_i hcond
      simp only [Option.some.injEq] at hs
      subst hs
      have hg := h.gp d
      rw [heq] at hg
      simp only [GRefines] at hg
      refine ⟨_, by simp only [stepInstr, hg, if_pos (And.intro hcond.1 hcond.2.1)]; rfl,
        (h.setGp d ?_).setFlags _ _, rfl⟩
      simp only [GRefines, Ctx.cnt, ← hcond.2.2, Nat.shiftRight_eq_div_pow]
    · exact absurd hs (by simp)
  · exact absurd hs (by simp)

theorem step_movqToX (h : Sim c it σ s) {loop : Bool} {src : Reg} {x : Nat}
    (hs : symStep c.kd loop (.movqToX src x) σ = some σ') : StepOK c it (.movqToX src x) σ' s := by
  simp only [symStep] at hs
  split at hs
  · rename_i a t k heq
    split at hs
    · rename_i hcond
      obtain ⟨rfl, rfl, hk⟩ := hcond
      simp only [Option.some.injEq] at hs
      subst hs
      have hg := h.gp src
      rw [heq] at hg
      simp only [GRefines] at hg
      rw [linVal_const _ _ _ (by unfold M64; omega)] at hg
      refine ⟨movqX s x k, by simp only [stepInstr, hg], ⟨h.gp, fun v => ?_, h.mem, h.stores_ok⟩, rfl⟩
      show VRefines c it (if v = x then .byte0 k else σ.vec v) (fun k' =>
        if v = x then (if k' < 8 then (k >>> (8 * k')) &&& 255 else (if k' < 16 then 0 else s.vec v k')) else s.vec v k')
      by_cases hv : v = x
      · simp only [hv, if_true, VRefines]
        show (k >>> (8 * 0)) &&& 255 = k
        rw [and255_eq_mod]; simp; omega
      · simp only [hv, if_false]; exact h.vec v
    · exact absurd hs (by simp)
  · exact absurd hs (by simp)

theorem step_movqRR (h : Sim c it σ s) {loop : Bool} {src d : Reg}
    (hs : symStep c.kd loop (.movqRR src d) σ = some σ') : StepOK c it (.movqRR src d) σ' s := by
  simp only [symStep, Option.some.injEq] at hs
  subst hs
  exact ⟨_, rfl, h.setGp d (h.gp src), rfl⟩

theorem step_andqImm (h : Sim c it σ s) {loop : Bool} {imm : Nat} {d : Reg}
    (hs : symStep c.kd loop (.andqImm imm d) σ = some σ') : StepOK c it (.andqImm imm d) σ' s := by
  simp only [symStep] at hs
  split at hs
  · rename_i k a t k' heq
    split at hs
    · rename_i hcond
      obtain ⟨rfl, rfl, rfl, rfl⟩ := hcond
      simp only [Option.some.injEq] at hs
      subst hs
      have hg := h.gp d
      rw [heq] at hg
      simp only [GRefines, Ctx.sbReg] at hg
      rw [linVal_const _ _ _ (by decide)] at hg
      exact ⟨_, by simp only [stepInstr, hg]; rfl, (h.setGp d (g := .algn k) rfl).setFlags _ _, rfl⟩
    · exact absurd hs (by simp)
  · exact absurd hs (by simp)

end RSV.Asm.Leo
