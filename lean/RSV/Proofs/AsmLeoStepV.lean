import RSV.Proofs.AsmLeoStep
/-!
# Soundness of the checker for the remaining amd64 kernels, part 3: vector instructions (VEX/EVEX
and legacy SSE), loads and broadcasts.
-/
namespace RSV.Asm.Leo
open RSV RSV.Asm

variable {c : Ctx} {it : Nat} {σ σ' : SymState} {s : State}

theorem VRefines_congr {x : VSym} {r r' : Nat → Nat} (h : ∀ k, k < x.width → r' k = r k)
    (hx : VRefines c it x r) : VRefines c it x r' := by
  cases x with
  | unk => trivial
  | byte0 b => simp only [VRefines] at hx ⊢; rw [h 0 (by simp [VSym.width])]; exact hx
  | mask w => intro k hk; rw [h k hk]; exact hx k hk
  | tab w t off => intro k hk; rw [h k hk]; exact hx k hk
  | mat w m => intro k hk; rw [h k hk]; exact hx k hk
  | e w x => intro k hk; rw [h k hk]; exact hx k hk
  | srl w x => intro k hk; rw [h k hk]; exact hx k hk
  | lo w x => intro k hk; rw [h k hk]; exact hx k hk
  | hi w x => intro k hk; rw [h k hk]; exact hx k hk

/-- a VEX write of `f` refines `x` if `f` does on the described bytes and these fit the operand -/
theorem vex_ok {x : VSym} {f : Nat → Nat} {n : Nat} (hw : x.width ≤ n) (hx : VRefines c it x f) :
    VRefines c it x (fun k => if k < n then f k else 0) :=
  VRefines_congr (fun k hk => by simp only [if_pos (Nat.lt_of_lt_of_le hk hw)]) hx

/-- a legacy-SSE write of `f` refines a 16-byte description of `f` -/
theorem sse_ok {x : VSym} {f g : Nat → Nat} (hw : x.width ≤ 16) (hx : VRefines c it x f) :
    VRefines c it x (fun k => if k < 16 then f k else g k) :=
  VRefines_congr (fun k hk => by simp only [if_pos (Nat.lt_of_lt_of_le hk hw)]) hx

theorem low16_sound {a v : VSym} {r : Nat → Nat} (h : low16 a = some v) (ha : VRefines c it a r) :
    VRefines c it v r ∧ v.width ≤ 16 := by
  cases a <;> simp only [low16] at h
  case unk => exact absurd h (by simp)
  case mat => exact absurd h (by simp)
  case byte0 b => cases h; exact ⟨ha, by simp [VSym.width]⟩
  all_goals
    split at h
    · rename_i hw; subst hw; cases h; exact ⟨ha, by simp [VSym.width]⟩
    · exact absurd h (by simp)

theorem symAnd_sound {a b v : VSym} {ra rb f : Nat → Nat} (h : symAnd a b = some v)
    (ha : VRefines c it a ra) (hb : VRefines c it b rb) (hf : ∀ k, k < v.width → f k = ra k &&& rb k) :
    VRefines c it v f := by
  unfold symAnd at h
  split at h
  · rename_i w w' x
    split at h
    · rename_i hw; subst hw; cases h
      intro k hk; rw [hf k hk, ha k hk, hb k hk, Nat.and_comm]
    · exact absurd h (by simp)
  · rename_i w' x w
    split at h
    · rename_i hw; subst hw; cases h
      intro k hk; rw [hf k hk, ha k hk, hb k hk]
    · exact absurd h (by simp)
  · rename_i w w' x
    split at h
    · rename_i hw; subst hw; cases h
      intro k hk
      rw [hf k hk, ha k hk, Nat.and_comm, and15_eq_mod, hb k hk, Nat.shiftRight_eq_div_pow]
    · exact absurd h (by simp)
  · rename_i w' x w
    split at h
    · rename_i hw; subst hw; cases h
      intro k hk
      rw [hf k hk, hb k hk, and15_eq_mod, ha k hk, Nat.shiftRight_eq_div_pow]
    · exact absurd h (by simp)
  · exact absurd h (by simp)

theorem symShuf_sound (hc : Contract c) {tab idx v : VSym} {rt ri f : Nat → Nat} (h : symShuf tab idx = some v)
    (ht : VRefines c it tab rt) (hi : VRefines c it idx ri) (hw : v.width % 16 = 0)
    (hf : ∀ k, k < v.width → f k = shufByte rt ri k) : VRefines c it v f := by
  unfold symShuf at h
  split at h
  · rename_i w t off w' x
    split at h
    · rename_i hww; subst hww; cases h
      intro k hk
      simp only [VSym.width] at hw
      rw [hf k hk]
      simp only [shufByte, hi k hk, evalE, nib]
      obtain ⟨h1, h2⟩ := nib_facts _ (and15_lt (evalE c (c.cur it) k x))
      have hlt := and15_lt (evalE c (c.cur it) k x)
      rw [h1, h2, if_neg (by simp), ht _ (by omega)]
      congr 2
      simp
      omega
    · exact absurd h (by simp)
  · rename_i w t off w' x
    split at h
    · rename_i hww; subst hww; cases h
      intro k hk
      simp only [VSym.width] at hw
      rw [hf k hk]
      simp only [shufByte, hi k hk, evalE, nib]
      have hlt := shr4_lt (evalE_lt hc (c.cur it) k x)
      obtain ⟨h1, h2⟩ := nib_facts _ hlt
      rw [h1, h2, if_neg (by simp), ht _ (by omega)]
      congr 2
      simp
      omega
    · exact absurd h (by simp)
  · rename_i b w
    split at h
    · rename_i hcond
      obtain ⟨rfl, rfl⟩ := hcond
      cases h
      intro k hk
      rw [hf k hk]
      simp only [shufByte, hi k hk, evalE]
      have : k / 16 = 0 := by omega
      rw [this]
      simp only [VRefines] at ht
      simpa using ht
    · exact absurd h (by simp)
  · exact absurd h (by simp)

theorem bytes_mod16 (w : VW) : w.bytes % 16 = 0 := by cases w <;> rfl

/-! ### loads and broadcasts -/

theorem not_done_of_fresh (h : Sim c it σ s) {k o q : Nat} (hfresh : (k, o) ∉ σ.stores)
    (hmod : o % c.kd.w = 0) (hq : q < c.kd.w) : ¬ DoneK c it σ.stores k (c.cur it + o + q) := by
  rintro (⟨_, hlt⟩ | ⟨o', ho', h1, h2⟩)
  · omega
  · obtain ⟨_, _, _, hmod'⟩ := h.stores_ok k o' ho'
    have : o' = o := by
      have e1 := Nat.div_add_mod o c.kd.w
      have e2 := Nat.div_add_mod o' c.kd.w
      rw [hmod] at e1
      rw [hmod'] at e2
      rcases Nat.lt_trichotomy (o' / c.kd.w) (o / c.kd.w) with hlt | heq | hgt
      · have := Nat.mul_le_mul_left c.kd.w (Nat.succ_le_of_lt hlt)
        rw [Nat.mul_succ] at this
        omega
      · rw [heq] at e2; omega
      · have := Nat.mul_le_mul_left c.kd.w (Nat.succ_le_of_lt hgt)
        rw [Nat.mul_succ] at this
        omega
    subst this
    exact hfresh ho'

theorem step_vload (hc : Contract c) (h : Sim c it σ s) {loop : Bool} (hl : loop = true → it < c.cnt)
    {m : Mem} {d : VReg} (hs : symStep c.kd loop (.vload m d) σ = some σ') : StepOK c it (.vload m d) σ' s := by
  simp only [symStep] at hs
  split at hs
  · rename_i k o heq
    obtain ⟨ha, _, hk, _, hw, hmod⟩ := symData_row hc h hl heq
    split at hs
    · rename_i hfresh
      simp only [Option.some.injEq] at hs
      subst hs
      refine ⟨_, by simp only [stepInstr, ha]; rfl, h.setVec d _ ?_, rfl⟩
      intro q hq
      simp only [if_pos hq, evalE]
      exact h.mem.2.2 k _ hk (not_done_of_fresh h hfresh hmod (by omega))
    · exact absurd hs (by simp)
  · exact absurd hs (by simp)

theorem aligned_off {base B it o : Nat} (hb : base % 16 = 0) (hB : B % 16 = 0) (ho : o % 16 = 0) :
    (base + (B * it + o)) % 16 = 0 := by
  have h1 : B = 16 * (B / 16) := by have := Nat.div_add_mod B 16; omega
  have h2 : B * it = 16 * (B / 16 * it) := by rw [← Nat.mul_assoc, ← h1]
  omega

/-- an aligned access the checker accepts is aligned -/
theorem align_ok (hc : Contract c) {al : Bool} {k o : Nat} (hk : k < c.kd.rows) (hw : 16 = c.kd.w) (hmod : o % c.kd.w = 0)
    (hal : al = false ∨ (c.kd.aligned = true ∧ c.kd.B % 16 = 0)) :
    ¬ (al = true ∧ (c.env.base (c.rowReg k) + (c.cur it + o)) % 16 ≠ 0) := by
  rintro ⟨ht, hne⟩
  rcases hal with hf | ⟨ha, hB⟩
  · rw [hf] at ht; exact absurd ht (by simp)
  · apply hne
    rw [← hw] at hmod
    exact aligned_off (hc.aligned ha k hk) hB hmod

theorem step_sseLoad (hc : Contract c) (h : Sim c it σ s) {loop : Bool} (hl : loop = true → it < c.cnt)
    {al : Bool} {m : Mem} {x : Nat} (hs : symStep c.kd loop (.sseLoad al m x) σ = some σ') :
    StepOK c it (.sseLoad al m x) σ' s := by
  simp only [symStep] at hs
  split at hs
  · rename_i k o heq
    obtain ⟨ha, _, hk, _, hw, hmod⟩ := symData_row hc h hl heq
    split at hs
    · rename_i hcond
      obtain ⟨hal, hfresh⟩ := hcond
      simp only [Option.some.injEq] at hs
      subst hs
      refine ⟨_, by simp only [stepInstr, ha, if_neg (align_ok hc hk hw hmod hal)]; rfl, h.setXmm x _ ?_, rfl⟩
      intro q hq
      simp only [if_pos hq, evalE]
      exact h.mem.2.2 k _ hk (not_done_of_fresh h hfresh hmod (by omega))
    · exact absurd hs (by simp)
  · rename_i t o heq
    obtain ⟨ha, _⟩ := symData_tab hc h heq
    split at hs
    · rename_i hal
      subst hal
      simp only [Option.some.injEq] at hs
      subst hs
      refine ⟨_, by simp only [stepInstr, ha]; rfl, h.setXmm x _ ?_, rfl⟩
      intro q hq
      simp only [if_pos hq]
      rw [Nat.mod_eq_of_lt hq]
      exact h.mem.1 (.tab t) _ (fun k _ => by simp [Ctx.rowReg])
    · exact absurd hs (by simp)
  · exact absurd hs (by simp)

theorem step_vbcast16 (hc : Contract c) (h : Sim c it σ s) {loop : Bool}
    {m : Mem} {d : VReg} (hs : symStep c.kd loop (.vbcast16 m d) σ = some σ') : StepOK c it (.vbcast16 m d) σ' s := by
  simp only [symStep] at hs
  split at hs
  · rename_i t o heq
    obtain ⟨ha, _⟩ := symData_tab hc h heq
    simp only [Option.some.injEq] at hs
    subst hs
    refine ⟨_, by simp only [stepInstr, ha]; rfl, h.setVec d _ ?_, rfl⟩
    intro q hq
    simp only [if_pos hq]
    exact h.mem.1 (.tab t) _ (fun k _ => by simp [Ctx.rowReg])
  · exact absurd hs (by simp)

theorem step_vbcast8FP (hc : Contract c) (h : Sim c it σ s) {loop : Bool}
    {off : Nat} {d : VReg} (hs : symStep c.kd loop (.vbcast8FP off d) σ = some σ') :
    StepOK c it (.vbcast8FP off d) σ' s := by
  simp only [symStep] at hs
  split at hs
  · rename_i heq
    simp only [Option.some.injEq] at hs
    subst hs
    have hf := hc.frame_ok _ _ heq
    refine ⟨_, by simp only [stepInstr, hf, Ctx.argVal]; rfl, h.setVec d _ ?_, rfl⟩
    intro q hq
    simp only [if_pos hq]
  · exact absurd hs (by simp)

/-! ### register-to-register -/

theorem step_vmovRR (h : Sim c it σ s) {loop : Bool} {src d : VReg}
    (hs : symStep c.kd loop (.vmovRR src d) σ = some σ') : StepOK c it (.vmovRR src d) σ' s := by
  simp only [symStep] at hs
  split at hs
  · rename_i hw
    simp only [Option.some.injEq] at hs
    subst hs
    exact ⟨_, rfl, h.setVec d _ (vex_ok hw (h.vec src.idx)), rfl⟩
  · exact absurd hs (by simp)

theorem step_sseMov (h : Sim c it σ s) {loop : Bool} {src d : Nat}
    (hs : symStep c.kd loop (.sseMov src d) σ = some σ') : StepOK c it (.sseMov src d) σ' s := by
  simp only [symStep] at hs
  split at hs
  · rename_i v heq
    simp only [Option.some.injEq] at hs
    subst hs
    obtain ⟨hv, hw⟩ := low16_sound heq (h.vec src)
    exact ⟨_, rfl, h.setXmm d _ (sse_ok hw hv), rfl⟩
  · exact absurd hs (by simp)

theorem step_vxor (h : Sim c it σ s) {loop : Bool} {a b d : VReg}
    (hs : symStep c.kd loop (.vxor a b d) σ = some σ') : StepOK c it (.vxor a b d) σ' s := by
  simp only [symStep] at hs
  split at hs
  · rename_i w x w' y heq heq2
    split at hs
    · rename_i hcond
      obtain ⟨rfl, rfl⟩ := hcond
      simp only [Option.some.injEq] at hs
      subst hs
      have ha := h.vec a.idx
      have hb := h.vec b.idx
      rw [heq] at ha
      rw [heq2] at hb
      refine ⟨_, rfl, h.setVec d _ ?_, rfl⟩
      intro k hk
      simp only [if_pos hk, evalE]
      rw [ha k hk, hb k hk]
    · exact absurd hs (by simp)
  · exact absurd hs (by simp)

theorem step_ssePxor (h : Sim c it σ s) {loop : Bool} {src d : Nat}
    (hs : symStep c.kd loop (.ssePxor src d) σ = some σ') : StepOK c it (.ssePxor src d) σ' s := by
  simp only [symStep] at hs
  split at hs
  · rename_i hEq
    subst hEq
    simp only [Option.some.injEq] at hs
    subst hs
    refine ⟨_, rfl, h.setXmm src _ ?_, rfl⟩
    intro k hk
    simp only [if_pos hk, evalE, Nat.xor_self]
  · split at hs
    · rename_i w x w' y heq heq2
      split at hs
      · rename_i hcond
        obtain ⟨rfl, rfl⟩ := hcond
        simp only [Option.some.injEq] at hs
        subst hs
        have ha := h.vec src
        have hb := h.vec d
        rw [heq] at ha
        rw [heq2] at hb
        refine ⟨_, rfl, h.setXmm d _ ?_, rfl⟩
        intro k hk
        simp only [if_pos hk, evalE]
        rw [ha k hk, hb k hk]
      · exact absurd hs (by simp)
    · exact absurd hs (by simp)

theorem step_vternlog (h : Sim c it σ s) {loop : Bool} {imm : Nat} {a b d : VReg}
    (hs : symStep c.kd loop (.vternlog imm a b d) σ = some σ') : StepOK c it (.vternlog imm a b d) σ' s := by
  simp only [symStep] at hs
  split at hs
  · rename_i w x w' y w'' z heq heq2 heq3
    split at hs
    · rename_i hcond
      obtain ⟨rfl, rfl, rfl, hw3⟩ := hcond
      simp only [Option.some.injEq] at hs
      subst hs
      have ha := h.vec a.idx
      have hb := h.vec b.idx
      have hd := h.vec d.idx
      rw [heq] at ha
      rw [heq2] at hb
      rw [heq3] at hd
      refine ⟨_, by simp only [stepInstr, if_true]; rfl, h.setVec d _ ?_, rfl⟩
      intro k hk
      simp only [if_pos hk, evalE]
      rw [ha k hk, hb k hk, hd k (by omega)]
    · exact absurd hs (by simp)
  · exact absurd hs (by simp)

theorem step_vpand (h : Sim c it σ s) {loop : Bool} {a b d : VReg}
    (hs : symStep c.kd loop (.vpand a b d) σ = some σ') : StepOK c it (.vpand a b d) σ' s := by
  simp only [symStep] at hs
  split at hs
  · rename_i v heq
    split at hs
    · rename_i hw
      simp only [Option.some.injEq] at hs
      subst hs
      refine ⟨_, rfl, h.setVec d _ ?_, rfl⟩
      refine symAnd_sound heq (h.vec a.idx) (h.vec b.idx) ?_
      intro k hk
      rw [hw] at hk
      simp only [if_pos hk, Nat.and_comm]
    · exact absurd hs (by simp)
  · exact absurd hs (by simp)

theorem step_ssePand (h : Sim c it σ s) {loop : Bool} {src d : Nat}
    (hs : symStep c.kd loop (.ssePand src d) σ = some σ') : StepOK c it (.ssePand src d) σ' s := by
  simp only [symStep] at hs
  split at hs
  · rename_i v heq
    split at hs
    · rename_i hw
      simp only [Option.some.injEq] at hs
      subst hs
      refine ⟨_, rfl, h.setXmm d _ ?_, rfl⟩
      refine symAnd_sound heq (h.vec src) (h.vec d) ?_
      intro k hk
      rw [hw] at hk
      simp only [if_pos hk, Nat.and_comm]
    · exact absurd hs (by simp)
  · exact absurd hs (by simp)

theorem step_vpshufb (hc : Contract c) (h : Sim c it σ s) {loop : Bool} {idx tab d : VReg}
    (hs : symStep c.kd loop (.vpshufb idx tab d) σ = some σ') : StepOK c it (.vpshufb idx tab d) σ' s := by
  simp only [symStep] at hs
  split at hs
  · rename_i v heq
    split at hs
    · rename_i hw
      simp only [Option.some.injEq] at hs
      subst hs
      refine ⟨_, rfl, h.setVec d _ ?_, rfl⟩
      refine symShuf_sound hc heq (h.vec tab.idx) (h.vec idx.idx) (by rw [hw]; exact bytes_mod16 _) ?_
      intro k hk
      rw [hw] at hk
      simp only [if_pos hk]
    · exact absurd hs (by simp)
  · exact absurd hs (by simp)

theorem step_ssePshufb (hc : Contract c) (h : Sim c it σ s) {loop : Bool} {idx d : Nat}
    (hs : symStep c.kd loop (.ssePshufb idx d) σ = some σ') : StepOK c it (.ssePshufb idx d) σ' s := by
  simp only [symStep] at hs
  split at hs
  · rename_i v heq
    split at hs
    · rename_i hw
      simp only [Option.some.injEq] at hs
      subst hs
      refine ⟨_, rfl, h.setXmm d _ ?_, rfl⟩
      refine symShuf_sound hc heq (h.vec d) (h.vec idx) (by rw [hw]) ?_
      intro k hk
      rw [hw] at hk
      simp only [if_pos hk]
    · exact absurd hs (by simp)
  · exact absurd hs (by simp)

theorem srl_lane (hc : Contract c) {w : Nat} (hw : w % 8 = 0) {x : E} {r : Nat → Nat}
    (hr : ∀ k, k < w → r k = evalE c (c.cur it) k x) (k : Nat) (hk : k < w) :
    srlqByte 4 r k % 16 = evalE c (c.cur it) k x / 16 := by
  simp only [srlqByte]
  rw [srlq4_byte _ _ (k % 8) (Nat.mod_lt _ (by decide))]
  · have : 8 * (k / 8) + k % 8 = k := by omega
    rw [this, hr k hk]
  · intro t ht
    rw [hr _ (by omega)]
    exact evalE_lt hc _ _ _

theorem step_vpsrlq (hc : Contract c) (h : Sim c it σ s) {loop : Bool} {imm : Nat} {src d : VReg}
    (hs : symStep c.kd loop (.vpsrlq imm src d) σ = some σ') : StepOK c it (.vpsrlq imm src d) σ' s := by
  simp only [symStep] at hs
  split at hs
  · rename_i w x heq
    split at hs
    · rename_i hcond
      obtain ⟨rfl, rfl⟩ := hcond
      simp only [Option.some.injEq] at hs
      subst hs
      have ha := h.vec src.idx
      rw [heq] at ha
      refine ⟨_, rfl, h.setVec d _ ?_, rfl⟩
      intro k hk
      simp only [if_pos hk]
      exact srl_lane hc (by cases d.w <;> rfl) ha k hk
    · exact absurd hs (by simp)
  · exact absurd hs (by simp)

theorem step_ssePsrlq (hc : Contract c) (h : Sim c it σ s) {loop : Bool} {imm : Nat} {d : Nat}
    (hs : symStep c.kd loop (.ssePsrlq imm d) σ = some σ') : StepOK c it (.ssePsrlq imm d) σ' s := by
  simp only [symStep] at hs
  split at hs
  · rename_i w x heq
    split at hs
    · rename_i hcond
      obtain ⟨rfl, rfl⟩ := hcond
      simp only [Option.some.injEq] at hs
      subst hs
      have ha := h.vec d
      rw [heq] at ha
      refine ⟨_, rfl, h.setXmm d _ ?_, rfl⟩
      intro k hk
      simp only [if_pos hk]
      exact srl_lane hc (by decide) ha k hk
    · exact absurd hs (by simp)
  · exact absurd hs (by simp)

theorem step_vpbroadcastb (h : Sim c it σ s) {loop : Bool} {src d : VReg}
    (hs : symStep c.kd loop (.vpbroadcastb src d) σ = some σ') : StepOK c it (.vpbroadcastb src d) σ' s := by
  simp only [symStep] at hs
  split at hs
  · rename_i b heq
    split at hs
    · rename_i hb
      subst hb
      simp only [Option.some.injEq] at hs
      subst hs
      have ha := h.vec src.idx
      rw [heq] at ha
      refine ⟨_, rfl, h.setVec d _ ?_, rfl⟩
      intro k hk
      simp only [if_pos hk]
      exact ha
    · exact absurd hs (by simp)
  · exact absurd hs (by simp)

theorem step_vinserti128 (h : Sim c it σ s) {loop : Bool} {imm : Nat} {x y d : VReg}
    (hs : symStep c.kd loop (.vinserti128 imm x y d) σ = some σ') : StepOK c it (.vinserti128 imm x y d) σ' s := by
  simp only [symStep] at hs
  split at hs
  · rename_i w t off w' t' off' heq heq2
    split at hs
    · rename_i hcond
      obtain ⟨rfl, hdw, rfl, rfl, rfl, rfl⟩ := hcond
      simp only [Option.some.injEq] at hs
      subst hs
      have hx := h.vec x.idx
      have hy := h.vec y.idx
      rw [heq] at hx
      rw [heq2] at hy
      have hb : d.w.bytes = 32 := by rw [hdw]; rfl
      refine ⟨_, by simp only [stepInstr, hdw, and_self, if_true]; rfl, h.setVec d _ ?_, rfl⟩
      intro k hk
      simp only [hb, if_pos hk]
      by_cases hk16 : k < 16
      · rw [if_pos hk16, hy k hk16]
      · rw [if_neg hk16, hx (k - 16) (by omega)]
        congr 2
        omega
    · exact absurd hs (by simp)
  · exact absurd hs (by simp)

theorem step_affine (h : Sim c it σ s) {loop : Bool} {imm : Nat} {mt src d : VReg}
    (hs : symStep c.kd loop (.affine imm mt src d) σ = some σ') : StepOK c it (.affine imm mt src d) σ' s := by
  simp only [symStep] at hs
  split at hs
  · rename_i w m w' x heq heq2
    split at hs
    · rename_i hcond
      obtain ⟨rfl, rfl, rfl⟩ := hcond
      simp only [Option.some.injEq] at hs
      subst hs
      have hm := h.vec mt.idx
      have hx := h.vec src.idx
      rw [heq] at hm
      rw [heq2] at hx
      refine ⟨_, rfl, h.setVec d _ ?_, rfl⟩
      intro k hk
      simp only [if_pos hk, evalE, Nat.xor_zero]
      rw [hx k hk]
      apply affineB_congr
      intro t ht
      have hw8 : d.w.bytes % 8 = 0 := by cases d.w <;> rfl
      rw [hm _ (by omega)]
      congr 1
      omega
    · exact absurd hs (by simp)
  · exact absurd hs (by simp)

end RSV.Asm.Leo
