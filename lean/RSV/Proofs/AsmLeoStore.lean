import RSV.Proofs.AsmLeoStepV
/-!
# Soundness of the checker for the remaining amd64 kernels, part 4: stores (canonical-form
comparison against the descriptor's expected expression), the combined per-instruction lemma
`symStep_sound`, and straight-line segments `symRun_sound`.
-/
namespace RSV.Asm.Leo
open RSV RSV.Asm

variable {c : Ctx} {it : Nat} {σ σ' : SymState} {s : State}

/-- position arithmetic of byte `q` of the chunk at block offset `o` of iteration `it` -/
theorem chunk_arith {B w it o q : Nat} (hwf : w * (B / w) = B ∧ 0 < w ∧ 0 < B) (hmod : o % w = 0)
    (hle : o + w ≤ B) (hq : q < w) :
    (B * it + o + q) / B * B = B * it ∧ (B * it + o + q) % w = q ∧ (B * it + o + q) % B / w * w = o := by
  obtain ⟨hB, hw, hBpos⟩ := hwf
  have hoq : o + q < B := by omega
  have e1 : (B * it + o + q) / B = it := by
    rw [Nat.add_assoc, Nat.mul_add_div hBpos, Nat.div_eq_of_lt hoq, Nat.add_zero]
  have e2 : (B * it + o + q) % B = o + q := by
    rw [Nat.add_assoc, Nat.mul_add_mod, Nat.mod_eq_of_lt hoq]
  have ho : o = w * (o / w) := by have := Nat.div_add_mod o w; omega
  refine ⟨by rw [e1, Nat.mul_comm], ?_, ?_⟩
  · have : B * it + o + q = w * (B / w * it + o / w) + q := by
      rw [Nat.mul_add, ← Nat.mul_assoc, hB, ← ho]
    rw [this, Nat.mul_add_mod, Nat.mod_eq_of_lt hq]
  · rw [e2]
    have : (o + q) / w = o / w := by
      rw [ho, Nat.mul_add_div hw, Nat.div_eq_of_lt hq, Nat.add_zero, Nat.mul_div_cancel_left _ hw]
    rw [this, Nat.mul_comm]
    exact ho.symm

/-- the memory part of a store of the expected bytes -/
theorem store_mem (hwf : c.kd.wf) (h : Sim c it σ s) {k o v : Nat} (hk : k < c.kd.rows)
    (hwr : c.kd.written k = true) (hle : o + c.kd.w ≤ c.kd.B) (hmod : o % c.kd.w = 0)
    (hdist : 0 < c.dist)
    (hval : ∀ q, q < c.kd.w → s.vec v q = evalE c (c.cur it) q (c.kd.spec k o)) :
    Sim c it { σ with stores := (k, o) :: σ.stores } (storeVec s (c.rowReg k) (c.cur it + o) c.kd.w v) := by
  have hinj : ∀ k', c.rowReg k' = c.rowReg k → k' = k := by
    intro k' he
    simp only [Ctx.rowReg, Region.out.injEq] at he
    exact Nat.eq_of_mul_eq_mul_right hdist he
  have hspec : ∀ p, c.cur it + o ≤ p → p < c.cur it + o + c.kd.w →
      s.vec v (p - (c.cur it + o)) = specVal c k p := by
    intro p h1 h2
    have hq : p - (c.cur it + o) < c.kd.w := by omega
    rw [hval _ hq]
    obtain ⟨a1, a2, a3⟩ := chunk_arith (it := it) hwf hmod hle hq
    have hp : c.kd.B * it + o + (p - (c.cur it + o)) = p := by unfold Ctx.cur at *; omega
    rw [hp] at a1 a2 a3
    unfold specVal
    rw [a1, a2, a3]
    rfl
  refine ⟨h.gp, h.vec, ⟨?_, ?_, ?_⟩, ?_⟩
  · intro r p hr
    show (if r = c.rowReg k ∧ _ then _ else s.mem r p) = _
    rw [if_neg (fun hh => hr k hk hh.1)]
    exact h.mem.1 r p hr
  · intro k' p hk' hd
    show (if c.rowReg k' = c.rowReg k ∧ c.cur it + o ≤ p ∧ p < c.cur it + o + c.kd.w then _ else _) = _
    by_cases hin : c.rowReg k' = c.rowReg k ∧ c.cur it + o ≤ p ∧ p < c.cur it + o + c.kd.w
    · rw [if_pos hin]
      obtain ⟨hri, hlo, hhi⟩ := hin
      have := hinj k' hri
      subst this
      exact hspec p hlo hhi
    · rw [if_neg hin]
      apply h.mem.2.1 k' p hk'
      rcases hd with hd | ⟨o', ho', h1, h2⟩
      · exact Or.inl hd
      · rcases List.mem_cons.mp ho' with heq3 | ho''
        · exfalso
          simp only [Prod.mk.injEq] at heq3
          obtain ⟨rfl, rfl⟩ := heq3
          exact hin ⟨rfl, h1, h2⟩
        · exact Or.inr ⟨o', ho'', h1, h2⟩
  · intro k' p hk' hd
    have hin : ¬ (c.rowReg k' = c.rowReg k ∧ c.cur it + o ≤ p ∧ p < c.cur it + o + c.kd.w) := by
      intro ⟨hri, hlo, hhi⟩
      have := hinj k' hri
      subst this
      exact hd (Or.inr ⟨o, by simp, hlo, hhi⟩)
    show (if c.rowReg k' = c.rowReg k ∧ c.cur it + o ≤ p ∧ p < c.cur it + o + c.kd.w then _ else _) = _
    rw [if_neg hin]
    apply h.mem.2.2 k' p hk'
    intro hd'
    apply hd
    rcases hd' with hd' | ⟨o', ho', h1, h2⟩
    · exact Or.inl hd'
    · exact Or.inr ⟨o', by simp [ho'], h1, h2⟩
  · intro k' o' ho'
    rcases List.mem_cons.mp ho' with heq3 | ho''
    · simp only [Prod.mk.injEq] at heq3
      obtain ⟨rfl, rfl⟩ := heq3
      exact ⟨hk, hwr, hle, hmod⟩
    · exact h.stores_ok k' o' ho''

theorem step_vstore (hc : Contract c) (hwf : c.kd.wf) (h : Sim c it σ s) {loop : Bool} (hl : loop = true → it < c.cnt)
    {src : VReg} {m : Mem} (hs : symStep c.kd loop (.vstore src m) σ = some σ') :
    StepOK c it (.vstore src m) σ' s := by
  simp only [symStep] at hs
  split at hs
  · rename_i k o w x heq heq2
    obtain ⟨ha, hle, hk, _, hw, hmod⟩ := symData_row hc h hl heq
    split at hs
    · rename_i hcond
      obtain ⟨rfl, hwr, hcanon, hnew⟩ := hcond
      simp only [Option.some.injEq] at hs
      subst hs
      have hv := h.vec src.idx
      rw [heq2] at hv
      refine ⟨storeVec s (c.rowReg k) (c.cur it + o) src.w.bytes src.idx, by simp only [stepInstr, ha], ?_, rfl⟩
      rw [hw]
      refine store_mem hwf h hk hwr (by omega) hmod hc.dist_pos ?_
      intro q hq
      rw [hv q (by omega), canon_sound c _ _ hcanon]
    · exact absurd hs (by simp)
  · exact absurd hs (by simp)

theorem step_sseStore (hc : Contract c) (hwf : c.kd.wf) (h : Sim c it σ s) {loop : Bool} (hl : loop = true → it < c.cnt)
    {al : Bool} {x : Nat} {m : Mem} (hs : symStep c.kd loop (.sseStore al x m) σ = some σ') :
    StepOK c it (.sseStore al x m) σ' s := by
  simp only [symStep] at hs
  split at hs
  · rename_i k o w y heq heq2
    obtain ⟨ha, hle, hk, _, hw, hmod⟩ := symData_row hc h hl heq
    split at hs
    · rename_i hcond
      obtain ⟨hal, rfl, hwr, hcanon, hnew⟩ := hcond
      simp only [Option.some.injEq] at hs
      subst hs
      have hv := h.vec x
      rw [heq2] at hv
      refine ⟨storeVec s (c.rowReg k) (c.cur it + o) 16 x,
        by simp only [stepInstr, ha, if_neg (align_ok hc hk hw hmod hal)], ?_, rfl⟩
      rw [hw]
      refine store_mem hwf h hk hwr (by omega) hmod hc.dist_pos ?_
      intro q hq
      rw [hv q (by omega), canon_sound c _ _ hcanon]
    · exact absurd hs (by simp)
  · exact absurd hs (by simp)

theorem symStep_plain {kd : KD} {loop : Bool} {i : Instr} (hs : symStep kd loop i σ = some σ') :
    isPlain i = true := by
  cases i <;> first | rfl | simp [symStep] at hs

/-- **simulation lemma** for the remaining kernels -/
theorem symStep_sound (hc : Contract c) (hwf : c.kd.wf) {loop : Bool} (hl : loop = true → it < c.cnt)
    (h : Sim c it σ s) {i : Instr} (hs : symStep c.kd loop i σ = some σ') : StepOK c it i σ' s := by
  cases i with
  | movqFP off d => exact step_movqFP hc h hs
  | movqLoad m d => exact step_movqLoad hc h hs
  | movqImm imm d => exact step_movqImm h hs
  | movqToX src x => exact step_movqToX h hs
  | addqImm imm d => exact step_addqImm h hs
  | addqReg src d => exact step_addqReg h hs
  | xorqRR a d => exact step_xorqRR h hs
  | movqRR src d => exact step_movqRR h hs
  | andqImm imm d => exact step_andqImm h hs
  | shrqImm imm d => exact step_shrqImm h hs
  | vload m d => exact step_vload hc h hl hs
  | sseLoad al m x => exact step_sseLoad hc h hl hs
  | vstore src m => exact step_vstore hc hwf h hl hs
  | sseStore al x m => exact step_sseStore hc hwf h hl hs
  | vbcast16 m d => exact step_vbcast16 hc h hs
  | vbcast8FP off d => exact step_vbcast8FP hc h hs
  | vmovRR src d => exact step_vmovRR h hs
  | sseMov src d => exact step_sseMov h hs
  | vpshufb idx tab d => exact step_vpshufb hc h hs
  | ssePshufb idx d => exact step_ssePshufb hc h hs
  | vxor a b d => exact step_vxor h hs
  | ssePxor src d => exact step_ssePxor h hs
  | vternlog imm a b d => exact step_vternlog h hs
  | vpand a b d => exact step_vpand h hs
  | ssePand src d => exact step_ssePand h hs
  | vpsrlq imm src d => exact step_vpsrlq hc h hs
  | ssePsrlq imm d => exact step_ssePsrlq hc h hs
  | vpbroadcastb src d => exact step_vpbroadcastb h hs
  | vinserti128 imm x y d => exact step_vinserti128 h hs
  | affine imm mt src d => exact step_affine h hs
  | _ => simp [symStep] at hs

theorem symRun_noLabel {kd : KD} {loop : Bool} {seg : List Instr} {σ σ' : SymState}
    (h : symRun kd loop seg σ = some σ') : ∀ i, i ∈ seg → ∀ l, i ≠ .label l := by
  induction seg generalizing σ with
  | nil => intro i hi; simp at hi
  | cons a seg ih =>
    simp only [symRun] at h
    split at h
    · rename_i σ1 heq
      intro i hi l
      rcases List.mem_cons.mp hi with rfl | hi'
      · intro hl; subst hl; simp [symStep] at heq
      · exact ih h i hi' l
    · exact absurd h (by simp)

/-- **segment lemma** -/
theorem symRun_sound (hc : Contract c) (hwf : c.kd.wf) {loop : Bool} (hl : loop = true → it < c.cnt)
    {prog : Program} (seg : List Instr) :
    ∀ (A C : List Instr) (σ σ' : SymState) (s : State), prog = A ++ seg ++ C → s.pc = A.length →
      Sim c it σ s → symRun c.kd loop seg σ = some σ' →
      ∃ s', run c.env prog seg.length s = some s' ∧ s'.pc = A.length + seg.length ∧ Sim c it σ' s' := by
  induction seg with
  | nil =>
    intro A C σ σ' s _ hpc h hs
    simp only [symRun, Option.some.injEq] at hs
    subst hs
    exact ⟨s, rfl, by simpa using hpc, h⟩
  | cons i seg ih =>
    intro A C σ σ' s hp hpc h hs
    simp only [symRun] at hs
    split at hs
    · rename_i σ1 heq
      obtain ⟨s1, hst, hsim1, _⟩ := symStep_sound hc hwf hl h heq
      have hp' : prog = A ++ i :: (seg ++ C) := by rw [hp]; simp
      have hstep := step_at_plain hp' hpc (symStep_plain heq) hst
      have hp'' : prog = (A ++ [i]) ++ seg ++ C := by rw [hp]; simp
      obtain ⟨s2, hrun, hpc2, hsim2⟩ := ih (A ++ [i]) C σ1 σ' (s1.setPc (A.length + 1)) hp''
        (by simp [State.setPc]) (hsim1.withPc _) hs
      refine ⟨s2, ?_, ?_, hsim2⟩
      · simp only [List.length_cons, run, hstep]; exact hrun
      · rw [hpc2]; simp; omega
    · exact absurd hs (by simp)

end RSV.Asm.Leo
