import RSV.Proofs.AsmLeoSound
/-!
# Soundness of the checker for the remaining amd64 kernels, part 9a: a loop at an arbitrary
position of a program (`SUBQ $1, c ; JNZ loop`), and the context in which the rows are known to
be 16-byte aligned.
-/
namespace RSV.Asm.Leo
open RSV RSV.Asm

/-- a checked block-counting loop inside `prog` -/
structure LoopAt (c : Ctx) (prog : Program) (A : List Instr) (l : Nat) (body : List Instr) (rc : Reg)
    (C : List Instr) (H σb : SymState) : Prop where
  asm : prog = A ++ .label l :: (body ++ (.subqImm 1 rc :: .jnz l :: C))
  find : findLabel prog l = some A.length
  Bpos : 0 < c.kd.B
  hst : H.stores = []
  runb : symRun c.kd true body H = some σb
  hrc : σb.gp rc = .ctr 1 0
  stepok : stepOK c.kd H (σb.setGp rc (.ctr 1 1)) = true
  cov : covers c.kd σb.stores = true
  clampG : ∀ r, 16 ≤ r → H.gp r = .unk
  clampV : ∀ v, 32 ≤ v → H.vec v = .unk

section
variable {c : Ctx} {prog : Program} {A C body : List Instr} {l : Nat} {rc : Reg} {H σb : SymState}

theorem loop_iter2 (hc : Contract c) (hl : LoopAt c prog A l body rc C H σb) {it : Nat} (hit : it < c.cnt)
    {s : State} (hpc : s.pc = A.length) (h : Sim c it H s) :
    ∃ s', run c.env prog (body.length + 3) s = some s' ∧ Sim c (it + 1) H s' ∧
      s'.pc = if it + 1 < c.cnt then A.length else A.length + 1 + body.length + 2 := by
  have hwf := covers_wf hl.cov hl.Bpos
  have hs1 : step c.env prog s = .cont (s.setPc (A.length + 1)) := step_at_plain hl.asm hpc rfl rfl
  have hasm2 : prog = (A ++ [.label l]) ++ body ++ (.subqImm 1 rc :: .jnz l :: C) := by rw [hl.asm]; simp
  obtain ⟨s2, hrun2, hpc2, hsim2⟩ := symRun_sound hc hwf (loop := true) (fun _ => hit) body (A ++ [.label l]) _ H σb
    (s.setPc (A.length + 1)) hasm2 (by simp [State.setPc]) (h.withPc _) hl.runb
  obtain ⟨P, hP⟩ : ∃ P, P = A ++ [Instr.label l] ++ body := ⟨_, rfl⟩
  have hPlen : P.length = A.length + 1 + body.length := by rw [hP]; simp; omega
  have hasm3 : prog = P ++ .subqImm 1 rc :: (.jnz l :: C) := by rw [hP, hl.asm]; simp
  have hasm4 : prog = (P ++ [.subqImm 1 rc]) ++ .jnz l :: C := by rw [hP, hl.asm]; simp
  have hpc2' : s2.pc = P.length := by rw [hpc2, hPlen]; simp
  -- SUBQ $1
  have hg := hsim2.gp rc
  rw [hl.hrc] at hg
  simp only [GRefines, Nat.sub_zero, Nat.one_mul] at hg
  have hnl := hc.n_lt
  have hcntle : c.cnt ≤ c.N := Nat.div_le_self _ _
  have hdec : (c.cnt - it + M64 - 1) % M64 = c.cnt - it - 1 := by
    have : c.cnt - it + M64 - 1 = (c.cnt - it - 1) + M64 := by omega
    rw [this, Nat.add_mod_right, Nat.mod_eq_of_lt]; omega
  have hcf : decide (c.cnt - it < 1) = false := by rw [decide_eq_false_iff_not]; omega
  obtain ⟨b, hb⟩ : ∃ b : Bool, b = (c.cnt - it - 1 == 0) := ⟨_, rfl⟩
  have hst3 : stepInstr c.env (.subqImm 1 rc) s2 =
      some (setFlags (setGp s2 rc (.num (c.cnt - it - 1))) (some b) (some false)) := by
    simp only [stepInstr, hg, if_pos (by decide : 1 < M64), hdec, hcf, hb]
  have hs3 := step_at_plain hasm3 hpc2' rfl hst3
  have hsim3 : Sim c it (σb.setGp rc (.ctr 1 1))
      (setFlags (setGp s2 rc (.num (c.cnt - it - 1))) (some b) (some false)) :=
    (hsim2.setGp rc (g := .ctr 1 1) (v := .num (c.cnt - it - 1)) (by simp [GRefines])).setFlags _ _
  have hsim4 := stepOK_sound hl.stepok hl.clampG hl.clampV hl.hst hl.cov hsim3
  have hs4 := step_at_jnz (env := c.env)
    (s := (setFlags (setGp s2 rc (.num (c.cnt - it - 1))) (some b) (some false)).setPc (P.length + 1))
    (b := b) hasm4 (by simp [State.setPc]) rfl
  have hcount : body.length + 3 = 1 + body.length + 1 + 1 := by omega
  rw [hcount]
  by_cases hlast : it + 1 < c.cnt
  · have hz : b = false := by rw [hb]; simp; omega
    subst hz
    rw [if_neg (by simp), jump_eq hl.find] at hs4
    exact ⟨_, run_trans (run_trans (run_trans (run_one hs1) hrun2) (run_one hs3)) (run_one hs4),
      (hsim4.withPc _).withPc _, by simp [hlast, State.setPc]⟩
  · have hz : b = true := by rw [hb]; simp; omega
    subst hz
    rw [if_pos rfl] at hs4
    exact ⟨_, run_trans (run_trans (run_trans (run_one hs1) hrun2) (run_one hs3)) (run_one hs4),
      (hsim4.withPc _).withPc _, by simp [hlast, State.setPc, hPlen]⟩

theorem loop_all2 (hc : Contract c) (hl : LoopAt c prog A l body rc C H σb) :
    ∀ (m it : Nat) (s : State), c.cnt - it = m → it < c.cnt → s.pc = A.length → Sim c it H s →
      ∃ s', run c.env prog (m * (body.length + 3)) s = some s' ∧ Sim c c.cnt H s' ∧
        s'.pc = A.length + 1 + body.length + 2 := by
  intro m
  induction m with
  | zero => intro it s hm hit; omega
  | succ m ih =>
    intro it s hm hit hpc h
    obtain ⟨s1, hrun1, hsim1, hpc1⟩ := loop_iter2 hc hl hit hpc h
    by_cases hlast : it + 1 < c.cnt
    · rw [if_pos hlast] at hpc1
      obtain ⟨s2, hrun2, hsim2, hpc2⟩ := ih (it + 1) s1 (by omega) hlast hpc1 hsim1
      refine ⟨s2, ?_, hsim2, hpc2⟩
      rw [Nat.succ_mul, Nat.add_comm]
      exact run_trans hrun1 hrun2
    · rw [if_neg hlast] at hpc1
      have hm0 : m = 0 := by omega
      have hcnt : it + 1 = c.cnt := by omega
      subst hm0
      rw [hcnt] at hsim1
      exact ⟨s1, by simpa using hrun1, hsim1, hpc1⟩

end

/-! ## the aligned context -/

/-- the same call, with the rows known to be 16-byte aligned -/
def Ctx.al (c : Ctx) : Ctx := { c with kd := { c.kd with aligned := true } }

theorem evalE_al (c : Ctx) (base q : Nat) (e : E) : evalE c.al base q e = evalE c base q e := by
  induction e with
  | zero => rfl
  | old r o => rfl
  | xor a b iha ihb => simp only [evalE, iha, ihb]
  | look t o h x ih => simp only [evalE, ih]; rfl
  | aff m x ih => simp only [evalE, ih]; rfl

theorem GRefines_al (c : Ctx) (it : Nat) (g : GSym) (v : Val) : GRefines c.al it g v ↔ GRefines c it g v := by
  cases g with
  | lin b s t k => cases b <;> exact Iff.rfl
  | _ => exact Iff.rfl

theorem VRefines_al (c : Ctx) (it : Nat) (x : VSym) (r : Nat → Nat) : VRefines c.al it x r ↔ VRefines c it x r := by
  cases x with
  | e w y => simp only [VRefines, evalE_al]; rfl
  | srl w y => simp only [VRefines, evalE_al]; rfl
  | lo w y => simp only [VRefines, evalE_al]; rfl
  | hi w y => simp only [VRefines, evalE_al]; rfl
  | _ => exact Iff.rfl

theorem specVal_al (c : Ctx) (k p : Nat) : specVal c.al k p = specVal c k p := by
  unfold specVal
  rw [evalE_al]
  rfl

theorem MemInv_al (c : Ctx) (it : Nat) (st : List (Nat × Nat)) (mem : Region → Nat → Nat) :
    MemInv c.al it st mem ↔ MemInv c it st mem := by
  unfold MemInv
  simp only [specVal_al]
  exact Iff.rfl

theorem Sim_al {c : Ctx} {it : Nat} {σ : SymState} {s : State} : Sim c.al it σ s ↔ Sim c it σ s := by
  constructor
  · intro h
    exact ⟨fun r => (GRefines_al c it _ _).mp (h.gp r), fun v => (VRefines_al c it _ _).mp (h.vec v),
      (MemInv_al c it _ _).mp h.mem, h.stores_ok⟩
  · intro h
    exact ⟨fun r => (GRefines_al c it _ _).mpr (h.gp r), fun v => (VRefines_al c it _ _).mpr (h.vec v),
      (MemInv_al c it _ _).mpr h.mem, h.stores_ok⟩

theorem Contract_al {c : Ctx} (hc : Contract c) (ha : ∀ k, k < c.kd.rows → c.env.base (c.rowReg k) % 16 = 0) :
    Contract c.al where
  dist_pos := hc.dist_pos
  dist_lt := hc.dist_lt
  n_lt := hc.n_lt
  hdr_lt := hc.hdr_lt
  row_lt := hc.row_lt
  row_size := hc.row_size
  tab_size := hc.tab_size
  bytes := hc.bytes
  frame_ok := hc.frame_ok
  hdr_len := hc.hdr_len
  exact := hc.exact
  aligned := fun _ => ha

end RSV.Asm.Leo
