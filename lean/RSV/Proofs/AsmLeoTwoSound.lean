import RSV.Proofs.AsmLeoTwoLoop
/-!
# Soundness of the checker for the remaining amd64 kernels, part 9b: the two-loop shape of
`galMulSSSE3` / `galMulSSSE3Xor` (aligned and unaligned loop selected by the pointers' low bits).
-/
namespace RSV.Asm.Leo
open RSV RSV.Asm

theorem checkLoop_unpack {kd : KD} {sh : Shape} {σ0 H : SymState} (h : checkLoop kd sh σ0 H = true) :
    H.stores = [] ∧ σ0.stores = [] ∧ initOK kd σ0 H = true ∧ ∃ σb, symRun kd true sh.body H = some σb ∧
      σb.gp sh.rc = .ctr sh.scale 0 ∧ stepOK kd H (σb.setGp sh.rc (.ctr sh.scale 1)) = true ∧
      covers kd σb.stores = true := by
  unfold checkLoop at h
  simp only [Bool.and_eq_true, decide_eq_true_eq] at h
  obtain ⟨⟨⟨hH, h0⟩, hinit⟩, h⟩ := h
  split at h
  · exact absurd h (by simp)
  · rename_i σb hrunb
    simp only [Bool.and_eq_true, decide_eq_true_eq] at h
    exact ⟨hH, h0, hinit, σb, hrunb, h.1.1, h.1.2, h.2⟩

/-- what `checkKernel2` establishes -/
structure Checked2 (c : Ctx) (sh : Shape2) (σ1 H1 σb1 H2 σb2 : SymState) (a b : Nat) : Prop where
  l12 : sh.l1 ≠ sh.l2
  l1e : sh.l1 ≠ sh.lEnd
  l2e : sh.l2 ≠ sh.lEnd
  Bpos : 0 < c.kd.B
  rows : c.kd.rows = 2
  run1 : symRun c.kd false sh.pre1 initSym = some σ1
  s1st : σ1.stores = []
  hrc : σ1.gp sh.rc = .cnt
  hra : σ1.gp sh.ra = .algn a
  hrb : σ1.gp sh.rb = .algn b
  hab : (a = 0 ∧ b = 1) ∨ (a = 1 ∧ b = 0)
  hst1 : H1.stores = []
  init1 : initOK c.al.kd (σ1.setGp sh.rb .unk) H1 = true
  runb1 : symRun c.al.kd true sh.body1 H1 = some σb1
  rc1 : σb1.gp sh.rc = .ctr 1 0
  stepok1 : stepOK c.al.kd H1 (σb1.setGp sh.rc (.ctr 1 1)) = true
  cov1 : covers c.al.kd σb1.stores = true
  clampG1 : ∀ r, 16 ≤ r → H1.gp r = .unk
  clampV1 : ∀ v, 32 ≤ v → H1.vec v = .unk
  hst2 : H2.stores = []
  init2 : initOK c.kd (σ1.setGp sh.rb .unk) H2 = true
  runb2 : symRun c.kd true sh.body2 H2 = some σb2
  rc2 : σb2.gp sh.rc = .ctr 1 0
  stepok2 : stepOK c.kd H2 (σb2.setGp sh.rc (.ctr 1 1)) = true
  cov2 : covers c.kd σb2.stores = true
  clampG2 : ∀ r, 16 ≤ r → H2.gp r = .unk
  clampV2 : ∀ v, 32 ≤ v → H2.vec v = .unk

theorem checkKernel2_unpack {c : Ctx} {prog : Program} (h : checkKernel2 prog c.kd = true) :
    ∃ sh σ1 H1 σb1 H2 σb2 a b, prog = sh.assemble ∧ Checked2 c sh σ1 H1 σb1 H2 σb2 a b := by
  unfold checkKernel2 at h
  split at h
  · exact absurd h (by simp)
  · rename_i sh _
    simp only [Bool.and_eq_true, decide_eq_true_eq] at h
    obtain ⟨⟨⟨⟨⟨⟨hasm, h12⟩, h1e⟩, h2e⟩, hB⟩, hrows⟩, h⟩ := h
    split at h
    · exact absurd h (by simp)
    · rename_i σ1 hrun1
      simp only [Bool.and_eq_true, decide_eq_true_eq] at h
      obtain ⟨⟨⟨hs1, hrc⟩, hal⟩, hl1, hl2⟩ := h
      split at hal
      · rename_i a b hra hrb
        simp only [decide_eq_true_eq] at hal
        obtain ⟨hH1, h01, hinit1, σb1, hrunb1, hrc1, hstep1, hcov1⟩ := checkLoop_unpack hl1
        obtain ⟨hH2, h02, hinit2, σb2, hrunb2, hrc2, hstep2, hcov2⟩ := checkLoop_unpack hl2
        refine ⟨sh, σ1, _, σb1, _, σb2, a, b, hasm.symm,
          { l12 := h12, l1e := h1e, l2e := h2e, Bpos := hB, rows := hrows, run1 := hrun1, s1st := hs1, hrc := hrc,
            hra := hra, hrb := hrb, hab := hal, hst1 := hH1, init1 := hinit1, runb1 := hrunb1, rc1 := hrc1,
            stepok1 := hstep1, cov1 := hcov1, clampG1 := ?_, clampV1 := ?_, hst2 := hH2, init2 := hinit2,
            runb2 := hrunb2, rc2 := hrc2, stepok2 := hstep2, cov2 := hcov2, clampG2 := ?_, clampV2 := ?_ }⟩
        · intro r hr; simp only [clamp]; rw [if_neg (Nat.not_lt.mpr hr)]
        · intro v hv; simp only [clamp]; rw [if_neg (Nat.not_lt.mpr hv)]
        · intro r hr; simp only [clamp]; rw [if_neg (Nat.not_lt.mpr hr)]
        · intro v hv; simp only [clamp]; rw [if_neg (Nat.not_lt.mpr hv)]
      · exact absurd hal (by simp)

/-- low four address bits zero: the row is 16-byte aligned -/
theorem aligned_of_bits {c : Ctx} {k : Nat} (h : c.alignBits k = 0) : c.env.base (c.rowReg k) % 16 = 0 := by
  unfold Ctx.alignBits at h
  rw [and15_eq_mod, Nat.add_zero, Nat.mod_mod_of_dvd _ (by decide : 16 ∣ M64)] at h
  exact h

section
variable {c : Ctx} {sh : Shape2} {σ1 H1 σb1 H2 σb2 : SymState} {a b : Nat}

theorem mid_noLabel (sh : Shape2) : ∀ i, i ∈ sh.mid → ∀ l, i ≠ .label l := by
  intro i hi l
  simp only [Shape2.mid, List.mem_cons, List.mem_nil_iff, or_false] at hi
  rcases hi with rfl | rfl | rfl | rfl | rfl <;> simp

theorem find1 (hk : Checked2 c sh σ1 H1 σb1 H2 σb2 a b) :
    findLabel sh.assemble sh.l1 = some (sh.pre1 ++ sh.mid).length := by
  apply findLabel_at (C := sh.body1 ++ (.subqImm 1 sh.rc :: .jnz sh.l1 :: .jmp sh.lEnd ::
    .label sh.l2 :: (sh.body2 ++ [.subqImm 1 sh.rc, .jnz sh.l2, .label sh.lEnd, .ret])))
  · simp [Shape2.assemble]
  · intro i hi
    rcases List.mem_append.mp hi with hi | hi
    · exact symRun_noLabel hk.run1 i hi _
    · exact mid_noLabel sh i hi _

/-- everything before the unaligned loop -/
def Shape2.Q7 (sh : Shape2) : List Instr :=
  sh.pre1 ++ sh.mid ++ [.label sh.l1] ++ sh.body1 ++ [.subqImm 1 sh.rc, .jnz sh.l1, .jmp sh.lEnd]

/-- everything before the end label -/
def Shape2.Q8 (sh : Shape2) : List Instr :=
  sh.Q7 ++ [.label sh.l2] ++ sh.body2 ++ [.subqImm 1 sh.rc, .jnz sh.l2]

theorem asmQ7 (sh : Shape2) : sh.assemble = sh.Q7 ++ .label sh.l2 :: (sh.body2 ++
    (.subqImm 1 sh.rc :: .jnz sh.l2 :: [.label sh.lEnd, .ret])) := by
  simp [Shape2.assemble, Shape2.Q7]

theorem asmQ8 (sh : Shape2) : sh.assemble = sh.Q8 ++ .label sh.lEnd :: [.ret] := by
  simp [Shape2.assemble, Shape2.Q7, Shape2.Q8]

theorem asmQ9 (sh : Shape2) : sh.assemble = (sh.Q8 ++ [.label sh.lEnd]) ++ .ret :: [] := by
  simp [Shape2.assemble, Shape2.Q7, Shape2.Q8]

theorem memQ7 (hk : Checked2 c sh σ1 H1 σb1 H2 σb2 a b) {l : Nat} (hl1 : sh.l1 ≠ l) :
    ∀ i, i ∈ sh.Q7 → i ≠ .label l := by
  intro i hi
  simp only [Shape2.Q7, List.mem_append, List.mem_cons, List.mem_nil_iff, or_false] at hi
  rcases hi with (((hi | hi) | rfl) | hi) | (rfl | rfl | rfl)
  · exact symRun_noLabel hk.run1 i hi _
  · exact mid_noLabel sh i hi _
  · simpa using hl1
  · have := hk.runb1
    exact symRun_noLabel this i hi _
  · simp
  · simp
  · simp

theorem find2 (hk : Checked2 c sh σ1 H1 σb1 H2 σb2 a b) : findLabel sh.assemble sh.l2 = some sh.Q7.length :=
  findLabel_at (asmQ7 sh) (memQ7 hk hk.l12)

theorem findE (hk : Checked2 c sh σ1 H1 σb1 H2 σb2 a b) : findLabel sh.assemble sh.lEnd = some sh.Q8.length := by
  apply findLabel_at (asmQ8 sh)
  intro i hi
  simp only [Shape2.Q8, List.mem_append, List.mem_cons, List.mem_nil_iff, or_false] at hi
  rcases hi with ((hi | rfl) | hi) | (rfl | rfl)
  · exact memQ7 hk hk.l1e i hi
  · simpa using hk.l2e
  · exact symRun_noLabel hk.runb2 i hi _
  · simp
  · simp

/-- from the end label to `RET` -/
theorem finish2 (sh : Shape2) (env : Env) {s : State} (hpc : s.pc = sh.Q8.length) :
    ∃ sf, exec env sh.assemble 2 s = some sf ∧ sf.mem = s.mem := by
  have hs := step_at_plain (env := env) (s := s) (s' := s) (asmQ8 sh) hpc rfl rfl
  have hr := step_at_ret (env := env) (s := s.setPc (sh.Q8.length + 1)) (asmQ9 sh) (by simp [State.setPc])
  exact ⟨_, exec_halt (run_one hs) hr, rfl⟩

end

theorem checked2_sound {c : Ctx} {sh : Shape2} {σ1 H1 σb1 H2 σb2 : SymState} {a b : Nat} (hc : Contract c)
    (hk : Checked2 c sh σ1 H1 σb1 H2 σb2 a b) (s0 : State) (hpc0 : s0.pc = 0) (hmem0 : s0.mem = c.m0) :
    ∃ n sf, n ≤ sh.assemble.length * (c.cnt + 1) ∧ exec c.env sh.assemble n s0 = some sf ∧
      MemInv c c.cnt [] sf.mem := by
  have hwf := covers_wf hk.cov2 hk.Bpos
  have hsim0 : Sim c 0 initSym s0 := by
    refine ⟨fun _ => trivial, fun _ => trivial, ?_, by intro i o ho; simp [initSym] at ho⟩
    have hnd : ∀ k p, ¬ DoneK c 0 [] k p := by
      intro k p hd
      rcases hd with ⟨_, h2⟩ | ⟨o, ho, _⟩
      · unfold Ctx.cur at h2; omega
      · simp at ho
    exact ⟨fun r p _ => by rw [hmem0], fun k p _ hd => absurd hd (hnd k p), fun k p _ _ => by rw [hmem0]⟩
  have hasm0 : sh.assemble = [] ++ sh.pre1 ++ (sh.mid ++ (.label sh.l1 :: (sh.body1 ++ (.subqImm 1 sh.rc :: .jnz sh.l1 ::
      .jmp sh.lEnd :: .label sh.l2 :: (sh.body2 ++ [.subqImm 1 sh.rc, .jnz sh.l2, .label sh.lEnd, .ret]))))) := by
    simp [Shape2.assemble]
  obtain ⟨s1, hrun1, hpc1, hsim1⟩ := symRun_sound hc hwf (it := 0) (loop := false) (by simp) sh.pre1 [] _ initSym σ1 s0
    hasm0 (by simpa using hpc0) hsim0 hk.run1
  simp only [List.length_nil, Nat.zero_add] at hpc1
  -- total length
  have hlen : sh.assemble.length = sh.pre1.length + 5 + 1 + sh.body1.length + 3 + 1 + sh.body2.length + 4 := by
    simp [Shape2.assemble, Shape2.mid]; omega
  have hQ7len : sh.Q7.length = sh.pre1.length + 5 + 1 + sh.body1.length + 3 := by simp [Shape2.Q7, Shape2.mid]; omega
  have hQ8len : sh.Q8.length = sh.Q7.length + 1 + sh.body2.length + 2 := by simp [Shape2.Q8]; omega
  -- CMPQ c, $0 ; JEQ end
  have hgc := hsim1.gp sh.rc
  rw [hk.hrc] at hgc
  simp only [GRefines] at hgc
  have hasmA : sh.assemble = sh.pre1 ++ .cmpqImm sh.rc 0 :: (.jz sh.lEnd :: .orqRR sh.ra sh.rb :: .cmpqImm sh.rb 0 ::
      .jnz sh.l2 :: .label sh.l1 :: (sh.body1 ++ (.subqImm 1 sh.rc :: .jnz sh.l1 :: .jmp sh.lEnd :: .label sh.l2 ::
      (sh.body2 ++ [.subqImm 1 sh.rc, .jnz sh.l2, .label sh.lEnd, .ret])))) := by simp [Shape2.assemble, Shape2.mid]
  have hstA : stepInstr c.env (.cmpqImm sh.rc 0) s1 = some (setFlags s1 (some (c.cnt == 0)) (some (decide (c.cnt < 0)))) := by
    simp only [stepInstr, hgc, if_pos (by decide : 0 < M64)]
  have hsA := step_at_plain hasmA hpc1 rfl hstA
  obtain ⟨sA, hsAdef⟩ : ∃ sA, sA = (setFlags s1 (some (c.cnt == 0)) (some (decide (c.cnt < 0)))).setPc (sh.pre1.length + 1) := ⟨_, rfl⟩
  rw [← hsAdef] at hsA
  have hsimA : Sim c 0 σ1 sA := by rw [hsAdef]; exact (hsim1.setFlags _ _).withPc _
  have hasmB : sh.assemble = (sh.pre1 ++ [.cmpqImm sh.rc 0]) ++ .jz sh.lEnd :: (.orqRR sh.ra sh.rb :: .cmpqImm sh.rb 0 ::
      .jnz sh.l2 :: .label sh.l1 :: (sh.body1 ++ (.subqImm 1 sh.rc :: .jnz sh.l1 :: .jmp sh.lEnd :: .label sh.l2 ::
      (sh.body2 ++ [.subqImm 1 sh.rc, .jnz sh.l2, .label sh.lEnd, .ret])))) := by simp [Shape2.assemble, Shape2.mid]
  have hsB := step_at_jz (env := c.env) (s := sA) (b := c.cnt == 0) hasmB (by rw [hsAdef]; simp [State.setPc])
    (by rw [hsAdef]; rfl)
  by_cases hz : c.cnt = 0
  · -- early exit
    have hzf : (c.cnt == 0) = true := by simp [hz]
    rw [if_pos hzf, jump_eq (findE hk)] at hsB
    obtain ⟨sf, hfin, hmf⟩ := finish2 sh c.env (s := sA.setPc sh.Q8.length) rfl
    have hrun := run_trans (run_trans hrun1 (run_one hsA)) (run_one hsB)
    refine ⟨sh.pre1.length + 1 + 1 + 2, sf, by rw [hlen]; rw [hz]; omega, ?_, ?_⟩
    · rw [exec_of_run hrun]; exact hfin
    · rw [hz, hmf]
      show MemInv c 0 [] sA.mem
      rw [hsAdef]
      have := hsim1.mem
      rw [hk.s1st] at this
      exact this
  · have hzf : (c.cnt == 0) = false := by simp [hz]
    have hpos : 0 < c.cnt := by omega
    rw [if_neg (by rw [hzf]; simp)] at hsB
    -- ORQ a, b ; CMPQ b, $0 ; JNZ unaligned
    have hga := hsimA.gp sh.ra
    have hgb := hsimA.gp sh.rb
    rw [hk.hra] at hga
    rw [hk.hrb] at hgb
    simp only [GRefines] at hga hgb
    obtain ⟨v, hv⟩ : ∃ v, v = c.alignBits b ||| c.alignBits a := ⟨_, rfl⟩
    have hasmC : sh.assemble = (sh.pre1 ++ [.cmpqImm sh.rc 0, .jz sh.lEnd]) ++ .orqRR sh.ra sh.rb :: (.cmpqImm sh.rb 0 ::
        .jnz sh.l2 :: .label sh.l1 :: (sh.body1 ++ (.subqImm 1 sh.rc :: .jnz sh.l1 :: .jmp sh.lEnd :: .label sh.l2 ::
        (sh.body2 ++ [.subqImm 1 sh.rc, .jnz sh.l2, .label sh.lEnd, .ret])))) := by simp [Shape2.assemble, Shape2.mid]
    obtain ⟨sB, hsBdef⟩ : ∃ sB, sB = sA.setPc ((sh.pre1 ++ [Instr.cmpqImm sh.rc 0]).length + 1) := ⟨_, rfl⟩
    rw [← hsBdef] at hsB
    have hsimB : Sim c 0 σ1 sB := by rw [hsBdef]; exact hsimA.withPc _
    have hgaB : sB.gp sh.ra = .num (c.alignBits a) := by rw [hsBdef]; exact hga
    have hgbB : sB.gp sh.rb = .num (c.alignBits b) := by rw [hsBdef]; exact hgb
    have hstC : stepInstr c.env (.orqRR sh.ra sh.rb) sB =
        some (setFlags (setGp sB sh.rb (.num v)) (some (v == 0)) (some false)) := by
      simp only [stepInstr, hgaB, hgbB, hv]
    have hsC := step_at_plain hasmC (by rw [hsBdef]; simp [State.setPc]) rfl hstC
    obtain ⟨sC, hsCdef⟩ : ∃ sC, sC = (setFlags (setGp sB sh.rb (.num v)) (some (v == 0)) (some false)).setPc
        ((sh.pre1 ++ [Instr.cmpqImm sh.rc 0, Instr.jz sh.lEnd]).length + 1) := ⟨_, rfl⟩
    rw [← hsCdef] at hsC
    have hsimC : Sim c 0 (σ1.setGp sh.rb .unk) sC := by
      rw [hsCdef]; exact ((hsimB.setGp sh.rb (g := .unk) trivial).setFlags _ _).withPc _
    have hgC : sC.gp sh.rb = .num v := by rw [hsCdef]; simp [State.setPc, setFlags, setGp]
    have hasmD : sh.assemble = (sh.pre1 ++ [.cmpqImm sh.rc 0, .jz sh.lEnd, .orqRR sh.ra sh.rb]) ++ .cmpqImm sh.rb 0 ::
        (.jnz sh.l2 :: .label sh.l1 :: (sh.body1 ++ (.subqImm 1 sh.rc :: .jnz sh.l1 :: .jmp sh.lEnd :: .label sh.l2 ::
        (sh.body2 ++ [.subqImm 1 sh.rc, .jnz sh.l2, .label sh.lEnd, .ret])))) := by simp [Shape2.assemble, Shape2.mid]
    have hstD : stepInstr c.env (.cmpqImm sh.rb 0) sC = some (setFlags sC (some (v == 0)) (some (decide (v < 0)))) := by
      simp only [stepInstr, hgC, if_pos (by decide : 0 < M64)]
    have hsD := step_at_plain hasmD (by rw [hsCdef]; simp [State.setPc]) rfl hstD
    obtain ⟨sD, hsDdef⟩ : ∃ sD, sD = (setFlags sC (some (v == 0)) (some (decide (v < 0)))).setPc
        ((sh.pre1 ++ [Instr.cmpqImm sh.rc 0, Instr.jz sh.lEnd, Instr.orqRR sh.ra sh.rb]).length + 1) := ⟨_, rfl⟩
    rw [← hsDdef] at hsD
    have hsimD : Sim c 0 (σ1.setGp sh.rb .unk) sD := by rw [hsDdef]; exact (hsimC.setFlags _ _).withPc _
    have hasmE : sh.assemble = (sh.pre1 ++ [.cmpqImm sh.rc 0, .jz sh.lEnd, .orqRR sh.ra sh.rb, .cmpqImm sh.rb 0]) ++
        .jnz sh.l2 :: (.label sh.l1 :: (sh.body1 ++ (.subqImm 1 sh.rc :: .jnz sh.l1 :: .jmp sh.lEnd :: .label sh.l2 ::
        (sh.body2 ++ [.subqImm 1 sh.rc, .jnz sh.l2, .label sh.lEnd, .ret])))) := by simp [Shape2.assemble, Shape2.mid]
    have hsE := step_at_jnz (env := c.env) (s := sD) (b := v == 0) hasmE (by rw [hsDdef]; simp [State.setPc])
      (by rw [hsDdef]; rfl)
    have hrun5 := run_trans (run_trans (run_trans (run_trans hrun1 (run_one hsA)) (run_one hsB)) (run_one hsC)) (run_one hsD)
    have hmid : (sh.pre1 ++ sh.mid).length = sh.pre1.length + 5 := by simp [Shape2.mid]
    by_cases hv0 : v = 0
    · -- aligned loop
      have hvt : (v == 0) = true := by simp [hv0]
      rw [if_pos hvt] at hsE
      have hbits : c.alignBits b = 0 ∧ c.alignBits a = 0 := by
        rw [hv0] at hv; exact Nat.or_eq_zero_iff.mp hv.symm
      have hal : ∀ k, k < c.kd.rows → c.env.base (c.rowReg k) % 16 = 0 := by
        intro k hkr
        rw [hk.rows] at hkr
        have hk01 : k = 0 ∨ k = 1 := by omega
        rcases hk.hab with ⟨ha, hb⟩ | ⟨ha, hb⟩ <;> rcases hk01 with rfl | rfl
        · exact aligned_of_bits (ha ▸ hbits.2)
        · exact aligned_of_bits (hb ▸ hbits.1)
        · exact aligned_of_bits (hb ▸ hbits.1)
        · exact aligned_of_bits (ha ▸ hbits.2)
      have hcA := Contract_al hc hal
      have hsimE : Sim c.al 0 (σ1.setGp sh.rb .unk) (sD.setPc ((sh.pre1 ++ [Instr.cmpqImm sh.rc 0, Instr.jz sh.lEnd,
          Instr.orqRR sh.ra sh.rb, Instr.cmpqImm sh.rb 0]).length + 1)) := Sim_al.mpr (hsimD.withPc _)
      have h0st : (σ1.setGp sh.rb GSym.unk).stores = [] := hk.s1st
      have hsimH := initOK_sound hcA hk.init1 hk.clampG1 hk.clampV1 hk.hst1 h0st hsimE
      have hloop : LoopAt c.al sh.assemble (sh.pre1 ++ sh.mid) sh.l1 sh.body1 sh.rc
          (.jmp sh.lEnd :: .label sh.l2 :: (sh.body2 ++ [.subqImm 1 sh.rc, .jnz sh.l2, .label sh.lEnd, .ret])) H1 σb1 :=
        { asm := by simp [Shape2.assemble], find := find1 hk, Bpos := hk.Bpos, hst := hk.hst1, runb := hk.runb1,
          hrc := hk.rc1, stepok := hk.stepok1, cov := hk.cov1, clampG := hk.clampG1, clampV := hk.clampV1 }
      obtain ⟨s6, hrun6, hsim6, hpc6⟩ := loop_all2 hcA hloop c.cnt 0 _ rfl hpos
        (by simp [State.setPc, Shape2.mid]) hsimH
      -- JMP end
      have hasmF : sh.assemble = (sh.pre1 ++ sh.mid ++ [.label sh.l1] ++ sh.body1 ++ [.subqImm 1 sh.rc, .jnz sh.l1]) ++
          .jmp sh.lEnd :: (.label sh.l2 :: (sh.body2 ++ [.subqImm 1 sh.rc, .jnz sh.l2, .label sh.lEnd, .ret])) := by
        simp [Shape2.assemble]
      have hsF := step_at_jmp (env := c.env) (s := s6) hasmF (by rw [hpc6]; simp; omega)
      rw [jump_eq (findE hk)] at hsF
      obtain ⟨sf, hfin, hmf⟩ := finish2 sh c.env (s := s6.setPc sh.Q8.length) rfl
      have hrun := run_trans (run_trans (run_trans hrun5 (run_one hsE)) hrun6) (run_one hsF)
      refine ⟨sh.pre1.length + 1 + 1 + 1 + 1 + 1 + c.cnt * (sh.body1.length + 3) + 1 + 2, sf, ?_, ?_, ?_⟩
      · rw [hlen]
        have h1 : c.cnt * (sh.body1.length + 3) ≤ c.cnt * (sh.pre1.length + 5 + 1 + sh.body1.length + 3 + 1 + sh.body2.length + 4) :=
          Nat.mul_le_mul_left _ (by omega)
        have h2 : (sh.pre1.length + 5 + 1 + sh.body1.length + 3 + 1 + sh.body2.length + 4) * (c.cnt + 1) =
            c.cnt * (sh.pre1.length + 5 + 1 + sh.body1.length + 3 + 1 + sh.body2.length + 4) +
            (sh.pre1.length + 5 + 1 + sh.body1.length + 3 + 1 + sh.body2.length + 4) := by ring
        rw [h2]
        omega
      · rw [exec_of_run hrun]; exact hfin
      · rw [hmf]
        have := (Sim_al.mp hsim6).mem
        rw [hk.hst1] at this
        exact this
    · -- unaligned loop
      have hvf : (v == 0) = false := by simp [hv0]
      rw [if_neg (by rw [hvf]; simp), jump_eq (find2 hk)] at hsE
      have h0st : (σ1.setGp sh.rb GSym.unk).stores = [] := hk.s1st
      have hsimH := initOK_sound hc hk.init2 hk.clampG2 hk.clampV2 hk.hst2 h0st (hsimD.withPc sh.Q7.length)
      have hloop : LoopAt c sh.assemble sh.Q7 sh.l2 sh.body2 sh.rc [.label sh.lEnd, .ret] H2 σb2 :=
        { asm := asmQ7 sh, find := find2 hk, Bpos := hk.Bpos, hst := hk.hst2, runb := hk.runb2,
          hrc := hk.rc2, stepok := hk.stepok2, cov := hk.cov2, clampG := hk.clampG2, clampV := hk.clampV2 }
      obtain ⟨s6, hrun6, hsim6, hpc6⟩ := loop_all2 hc hloop c.cnt 0 _ rfl hpos rfl hsimH
      obtain ⟨sf, hfin, hmf⟩ := finish2 sh c.env (s := s6) (by rw [hpc6, hQ8len])
      have hrun := run_trans (run_trans hrun5 (run_one hsE)) hrun6
      refine ⟨sh.pre1.length + 1 + 1 + 1 + 1 + 1 + c.cnt * (sh.body2.length + 3) + 2, sf, ?_, ?_, ?_⟩
      · rw [hlen]
        have h1 : c.cnt * (sh.body2.length + 3) ≤ c.cnt * (sh.pre1.length + 5 + 1 + sh.body1.length + 3 + 1 + sh.body2.length + 4) :=
          Nat.mul_le_mul_left _ (by omega)
        have h2 : (sh.pre1.length + 5 + 1 + sh.body1.length + 3 + 1 + sh.body2.length + 4) * (c.cnt + 1) =
            c.cnt * (sh.pre1.length + 5 + 1 + sh.body1.length + 3 + 1 + sh.body2.length + 4) +
            (sh.pre1.length + 5 + 1 + sh.body1.length + 3 + 1 + sh.body2.length + 4) := by ring
        rw [h2]
        omega
      · rw [exec_of_run hrun]; exact hfin
      · rw [hmf]
        have := hsim6.mem
        rw [hk.hst2] at this
        exact this

end RSV.Asm.Leo
