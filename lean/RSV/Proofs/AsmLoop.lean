import RSV.Proofs.AsmRun
/-!
# Soundness of the assembly checker, part 6: the loop invariant — the loop-head state generalises
the prologue result, one trip through the body re-establishes it for the next iteration, and the
coverage check turns "blocks stored in this iteration" into "finished iteration".
-/
namespace RSV.Asm
open RSV RSV.Model.Kernels

variable {c : Ctx}

/-! ## prologue → loop head -/

theorem gInit_sound {g h : GSym} {v : Val} (hi : gInit g h = true) (hg : GRefines c 0 g v) :
    GRefines c 0 h v := by
  unfold gInit at hi
  split at hi
  · trivial
  · simpa [GRefines] using hg
  · rename_i b a t k b' a' t' k'
    simp only [decide_eq_true_eq] at hi
    obtain ⟨rfl, rfl, rfl⟩ := hi
    cases b <;> simpa [GRefines, linVal] using hg
  · exact hg
  · exact hg
  · exact absurd hi (by simp)

theorem vInv_indep {x : VSym} (hx : vInv x = true) (it it' : Nat) (reg : Nat → Nat) :
    VRefines c it x reg ↔ VRefines c it' x reg := by
  cases x <;> first | exact Iff.rfl | simp [vInv] at hx

theorem all_range {n : Nat} {f : Nat → Bool} (h : (List.range n).all f = true) (k : Nat) (hk : k < n) :
    f k = true := List.all_eq_true.mp h k (List.mem_range.mpr hk)

theorem initOK_sound {σ0 H : SymState} {s : State} (hi : initOK σ0 H = true)
    (hG : ∀ r, 16 ≤ r → H.gp r = .unk) (hV : ∀ v, 32 ≤ v → H.vec v = .unk)
    (hH : H.stores = []) (h0 : σ0.stores = []) (h : Sim c 0 σ0 s) : Sim c 0 H s := by
  unfold initOK at hi
  rw [Bool.and_eq_true] at hi
  refine ⟨fun r => ?_, fun v => ?_, ?_, ?_⟩
  · by_cases hr : r < 16
    · exact gInit_sound (all_range hi.1 r hr) (h.gp r)
    · rw [hG r (Nat.le_of_not_lt hr)]; trivial
  · by_cases hv : v < 32
    · have := all_range hi.2 v hv
      simp only [Bool.or_eq_true, Bool.and_eq_true, decide_eq_true_eq] at this
      rcases this with hu | ⟨_, he⟩
      · rw [hu]; trivial
      · rw [← he]; exact h.vec v
    · rw [hV v (Nat.le_of_not_lt hv)]; trivial
  · rw [hH, ← h0]; exact h.mem
  · rw [hH]; intro i o ho; simp at ho

/-! ## end of the body → next loop head -/

theorem gShift_sound {h : GSym} {v : Val} {it : Nat} (hg : GRefines c it (gShift c.cfg.B h) v) :
    GRefines c (it + 1) h v := by
  cases h with
  | unk => trivial
  | nRaw => exact hg
  | cnt => exact hg
  | ctr d =>
    simp only [gShift, GRefines] at hg ⊢
    rw [hg]; congr 1; omega
  | lin b a t k =>
    have e : linVal c it a t (k + t * c.cfg.B) = linVal c (it + 1) a t k := by
      unfold linVal; congr 1; ring
    cases b <;> simp only [gShift, GRefines] at hg ⊢ <;> rw [hg, e]

/-- all blocks of iteration `it` stored: the iteration is finished -/
theorem covers_mem {it : Nat} {stores : List (Nat × Nat)} {mem : Region → Nat → Nat}
    (hcov : covers c.cfg stores = true)
    (hok : ∀ i o, (i, o) ∈ stores → i < c.cfg.O ∧ o + c.cfg.w ≤ c.cfg.B)
    (h : MemInv c it stores mem) : MemInv c (it + 1) [] mem := by
  unfold covers at hcov
  simp only [Bool.and_eq_true, decide_eq_true_eq] at hcov
  obtain ⟨⟨⟨hwB, hw⟩, _⟩, hall⟩ := hcov
  have hcur : c.cur (it + 1) = c.cur it + c.cfg.B := by unfold Ctx.cur; ring
  have key : ∀ i p, Done c (it + 1) [] i p ↔ Done c it stores i p := by
    intro i p
    constructor
    · rintro (⟨hi, h1, h2⟩ | ⟨o, ho, _⟩)
      · by_cases hp : p < c.cur it
        · exact Or.inl ⟨hi, h1, hp⟩
        · right
          rw [hcur] at h2
          have hq : (p - c.cur it) / c.cfg.w < c.cfg.B / c.cfg.w := by
            rw [Nat.div_lt_iff_lt_mul hw, Nat.mul_comm, hwB]; omega
          have hm := all_range (all_range hall i hi) _ hq
          rw [List.contains_iff_mem] at hm
          refine ⟨_, hm, ?_, ?_⟩
          · have := Nat.div_mul_le_self (p - c.cur it) c.cfg.w
            omega
          · have := Nat.lt_div_mul_add (a := p - c.cur it) hw
            omega
      · simp at ho
    · rintro (⟨hi, h1, h2⟩ | ⟨o, ho, h1, h2⟩)
      · exact Or.inl ⟨hi, h1, by rw [hcur]; omega⟩
      · obtain ⟨hi, hle⟩ := hok i o ho
        refine Or.inl ⟨hi, ?_, by rw [hcur]; omega⟩
        unfold Ctx.cur at h1; omega
  refine ⟨h.1, fun i p hd => h.2.1 i p ((key i p).mp hd), fun i p hd => h.2.2 i p (fun hd' => hd ((key i p).mpr hd'))⟩

theorem stepOK_sound {H σe : SymState} {s : State} {it : Nat} (hs : stepOK c.cfg H σe = true)
    (hG : ∀ r, 16 ≤ r → H.gp r = .unk) (hV : ∀ v, 32 ≤ v → H.vec v = .unk)
    (hH : H.stores = []) (hcov : covers c.cfg σe.stores = true) (h : Sim c it σe s) :
    Sim c (it + 1) H s := by
  unfold stepOK at hs
  rw [Bool.and_eq_true] at hs
  refine ⟨fun r => ?_, fun v => ?_, ?_, ?_⟩
  · by_cases hr : r < 16
    · have := all_range hs.1 r hr
      simp only [Bool.or_eq_true, decide_eq_true_eq] at this
      rcases this with hu | he
      · rw [hu]; trivial
      · apply gShift_sound; rw [← he]; exact h.gp r
    · rw [hG r (Nat.le_of_not_lt hr)]; trivial
  · by_cases hv : v < 32
    · have := all_range hs.2 v hv
      simp only [Bool.or_eq_true, Bool.and_eq_true, decide_eq_true_eq] at this
      rcases this with hu | ⟨hinv, he⟩
      · rw [hu]; trivial
      · rw [← vInv_indep hinv it (it + 1), ← he]; exact h.vec v
    · rw [hV v (Nat.le_of_not_lt hv)]; trivial
  · rw [hH]; exact covers_mem hcov h.stores_ok h.mem
  · rw [hH]; intro i o ho; simp at ho

end RSV.Asm
