import RSV.Proofs.AsmStore
/-!
# Soundness of the assembly checker, part 5: from single instructions to program segments —
`run` (a fixed number of non-halting steps), its relation to the fuel interpreter `exec`, fetching
from an assembled program, label resolution, and `symRun_sound` for straight-line segments.
-/
namespace RSV.Asm
open RSV RSV.Model.Kernels

/-- `k` steps, none of which halts or faults -/
def run (env : Env) (prog : Program) : Nat → State → Option State
  | 0, s => some s
  | k + 1, s =>
    match step env prog s with
    | .cont s' => run env prog k s'
    | _ => none

theorem run_add (env : Env) (prog : Program) (a b : Nat) (s : State) :
    run env prog (a + b) s = (run env prog a s).bind (run env prog b) := by
  induction a generalizing s with
  | zero => simp [run]
  | succ a ih =>
    rw [Nat.add_right_comm]
    simp only [run]
    cases step env prog s with
    | cont s' => exact ih s'
    | halt s' => rfl
    | fault => rfl

theorem run_trans {env : Env} {prog : Program} {a b : Nat} {s s1 s2 : State}
    (h1 : run env prog a s = some s1) (h2 : run env prog b s1 = some s2) :
    run env prog (a + b) s = some s2 := by
  rw [run_add, h1]; exact h2

theorem exec_of_run {env : Env} {prog : Program} {k : Nat} {s s' : State}
    (h : run env prog k s = some s') (f : Nat) : exec env prog (k + f) s = exec env prog f s' := by
  induction k generalizing s with
  | zero => simp only [run, Option.some.injEq] at h; subst h; simp
  | succ k ih =>
    rw [Nat.add_right_comm]
    simp only [run] at h
    simp only [exec]
    cases hst : step env prog s with
    | cont s1 => rw [hst] at h; exact ih h
    | halt s1 => rw [hst] at h; exact absurd h (by simp)
    | fault => rw [hst] at h; exact absurd h (by simp)

/-- more fuel does not change a result -/
theorem exec_mono {env : Env} {prog : Program} {f : Nat} {s r : State}
    (h : exec env prog f s = some r) (f' : Nat) (hf : f ≤ f') : exec env prog f' s = some r := by
  induction f generalizing s f' with
  | zero => exact absurd h (by simp [exec])
  | succ f ih =>
    obtain ⟨f'', rfl⟩ : ∃ f'', f' = f'' + 1 := ⟨f' - 1, by omega⟩
    simp only [exec] at h ⊢
    cases hst : step env prog s with
    | cont s1 => rw [hst] at h; exact ih h f'' (by omega)
    | halt s1 => rw [hst] at h; exact h
    | fault => rw [hst] at h; exact absurd h (by simp)

theorem run_one {env : Env} {prog : Program} {s s' : State} (h : step env prog s = .cont s') :
    run env prog 1 s = some s' := by simp [run, h]

theorem exec_halt {env : Env} {prog : Program} {k : Nat} {s s' sf : State}
    (h : run env prog k s = some s') (hh : step env prog s' = .halt sf) :
    exec env prog (k + 1) s = some sf := by
  rw [exec_of_run h]; simp [exec, hh]

def State.setPc (s : State) (p : Nat) : State := { s with pc := p }

/-! ## fetching -/

theorem fetch_at {prog A C : List Instr} {i : Instr} (hp : prog = A ++ i :: C) : prog[A.length]? = some i := by
  subst hp; simp

theorem step_at_plain {env : Env} {prog A C : List Instr} {i : Instr} {s s' : State}
    (hp : prog = A ++ i :: C) (hpc : s.pc = A.length) (hpl : isPlain i = true)
    (hst : stepInstr env i s = some s') : step env prog s = .cont (s'.setPc (A.length + 1)) := by
  unfold step
  rw [hpc, fetch_at hp]
  cases i <;> simp only [isPlain, Bool.false_eq_true] at hpl <;> simp only [hst] <;> rfl

theorem step_at_ret {env : Env} {prog A C : List Instr} {s : State}
    (hp : prog = A ++ .ret :: C) (hpc : s.pc = A.length) : step env prog s = .halt s := by
  unfold step
  rw [hpc, fetch_at hp]

theorem step_at_jz {env : Env} {prog A C : List Instr} {l : Nat} {s : State} {b : Bool}
    (hp : prog = A ++ .jz l :: C) (hpc : s.pc = A.length) (hz : s.zf = some b) :
    step env prog s = if b then jump prog s l else .cont (s.setPc (A.length + 1)) := by
  unfold step
  rw [hpc, fetch_at hp]
  simp only [State.setPc, hz]
  cases b <;> rfl

theorem step_at_jnz {env : Env} {prog A C : List Instr} {l : Nat} {s : State} {b : Bool}
    (hp : prog = A ++ .jnz l :: C) (hpc : s.pc = A.length) (hz : s.zf = some b) :
    step env prog s = if b then .cont (s.setPc (A.length + 1)) else jump prog s l := by
  unfold step
  rw [hpc, fetch_at hp]
  simp only [State.setPc, hz]
  cases b <;> rfl

theorem step_at_ja {env : Env} {prog A C : List Instr} {l : Nat} {s : State} {z cf : Bool}
    (hp : prog = A ++ .ja l :: C) (hpc : s.pc = A.length) (hz : s.zf = some z) (hc : s.cf = some cf) :
    step env prog s = if !z && !cf then jump prog s l else .cont (s.setPc (A.length + 1)) := by
  unfold step
  rw [hpc, fetch_at hp]
  simp only [State.setPc, hz, hc]

theorem step_at_jmp {env : Env} {prog A C : List Instr} {l : Nat} {s : State}
    (hp : prog = A ++ .jmp l :: C) (hpc : s.pc = A.length) : step env prog s = jump prog s l := by
  unfold step
  rw [hpc, fetch_at hp]

theorem findLabel_at {prog A C : List Instr} {l : Nat} (hp : prog = A ++ .label l :: C)
    (hA : ∀ i, i ∈ A → i ≠ .label l) : findLabel prog l = some A.length := by
  subst hp
  induction A with
  | nil => simp [findLabel]
  | cons a A ih =>
    have ha : a ≠ .label l := hA a (by simp)
    simp only [List.cons_append, findLabel, if_neg ha]
    rw [ih (fun i hi => hA i (by simp [hi]))]
    simp

theorem Sim.withPc {c : Ctx} {it : Nat} {σ : SymState} {s : State} (h : Sim c it σ s) (p : Nat) :
    Sim c it σ (s.setPc p) := ⟨h.gp, h.vec, h.mem, h.stores_ok⟩

theorem jump_eq {prog : Program} {s : State} {l p : Nat} (h : findLabel prog l = some p) :
    jump prog s l = .cont (s.setPc p) := by simp [jump, h, State.setPc]

/-! ## straight-line segments -/

theorem symRun_noLabel {cfg : Cfg} {loop : Bool} {seg : List Instr} {σ σ' : SymState}
    (h : symRun cfg loop seg σ = some σ') : ∀ i, i ∈ seg → ∀ l, i ≠ .label l := by
  induction seg generalizing σ with
  | nil => intro i hi; simp at hi
  | cons a seg ih =>
    simp only [symRun] at h
    split at h
    · rename_i σ1 heq
      intro i hi l
      rcases List.mem_cons.mp hi with rfl | hi'
      · intro hl; subst hl; simp [symStep] at heq
      · exact ih h i hi' l
    · exact absurd h (by simp)

/-- **segment lemma**: a straight-line segment accepted by the symbolic execution runs without a
fault from every instance of the symbolic pre-state and ends in an instance of the post-state -/
theorem symRun_sound {c : Ctx} (hc : Contract c) {it : Nat} {loop : Bool} (hl : loop = true → it < c.cnt)
    {prog : Program} (seg : List Instr) :
    ∀ (A C : List Instr) (σ σ' : SymState) (s : State), prog = A ++ seg ++ C → s.pc = A.length →
      Sim c it σ s → symRun c.cfg loop seg σ = some σ' →
      ∃ s', run c.env prog seg.length s = some s' ∧ s'.pc = A.length + seg.length ∧ Sim c it σ' s' := by
  induction seg with
  | nil =>
    intro A C σ σ' s _ hpc h hs
    simp only [symRun, Option.some.injEq] at hs
    subst hs
    exact ⟨s, rfl, by simpa using hpc, h⟩
  | cons i seg ih =>
    intro A C σ σ' s hp hpc h hs
    simp only [symRun] at hs
    split at hs
    · rename_i σ1 heq
      obtain ⟨s1, hst, hsim1, _⟩ := symStep_sound hc hl h heq
      have hp' : prog = A ++ i :: (seg ++ C) := by rw [hp]; simp
      have hstep := step_at_plain hp' hpc (symStep_plain heq) hst
      have hp'' : prog = (A ++ [i]) ++ seg ++ C := by rw [hp]; simp
      obtain ⟨s2, hrun, hpc2, hsim2⟩ := ih (A ++ [i]) C σ1 σ' (s1.setPc (A.length + 1)) hp''
        (by simp [State.setPc]) (hsim1.withPc _) hs
      refine ⟨s2, ?_, ?_, hsim2⟩
      · simp only [List.length_cons, run, hstep]; exact hrun
      · rw [hpc2]; simp; omega
    · exact absurd hs (by simp)

end RSV.Asm
