import RSV.Model.AsmCheck
import RSV.Props.C08
/-!
# Soundness of the assembly checker, part 1: the environment contract, the meaning of the symbolic
values, and the byte-level facts (nibble split, `VPSRLQ` on bytes, `VPSHUFB` with a nibble index,
`GF2P8AFFINEQB` with a broadcast matrix, xor lists up to permutation).
-/
namespace RSV.Asm
open RSV RSV.Model.Kernels RSV.Gen

/-- xor of a list -/
def xorl : List Nat → Nat
  | [] => 0
  | x :: xs => x ^^^ xorl xs

/-- everything a call is about: the checked configuration, the arguments, the memory before the
call and the coefficient rows -/
structure Ctx where
  cfg : Cfg
  env : Env
  m0 : Region → Nat → Nat
  A : Nat → Nat → Nat

namespace Ctx
variable (c : Ctx)

/-- number of loop iterations -/
def cnt : Nat := c.env.n / c.cfg.B

/-- first byte position of iteration `it` -/
def cur (it : Nat) : Nat := c.env.start + c.cfg.B * it

/-- the byte the kernel has to leave at position `p` of output `i` -/
def spec (i p : Nat) : Nat :=
  xorl ((if c.cfg.xor then [c.m0 (.out i) p] else []) ++
    (List.range c.cfg.I).map fun j => gmul (c.A i j) (c.m0 (.inp j) p))

end Ctx

/-- the environment contract (calling convention of the generated kernels) -/
structure Contract (c : Ctx) : Prop where
  inputs_eq : c.env.inputs = c.cfg.I
  outputs_eq : c.env.outputs = c.cfg.O
  /-- `start + n` is a valid slice index, in particular below 2^64 -/
  no_wrap : c.env.start + c.env.n < M64
  in_size : ∀ j, j < c.cfg.I → c.env.start + c.env.n ≤ c.env.size (.inp j)
  out_size : ∀ i, i < c.cfg.O → c.env.start + c.env.n ≤ c.env.size (.out i)
  mat_size : c.cfg.matSize ≤ c.env.size .matrix
  /-- memory holds bytes -/
  bytes : ∀ r p, c.m0 r p < 256
  coeff : ∀ i j, c.A i j < 256
  /-- `genCodeGenMatrix` with vector length 32: per slot the low-nibble table twice, then the
  high-nibble table twice -/
  mat_avx2 : c.cfg.fam = .avx2 → ∀ i j, i < c.cfg.O → j < c.cfg.I → ∀ x, x < 16 →
    c.m0 .matrix (avx2Slot c.cfg.O i j + x) = gmul (c.A i j) x ∧
    c.m0 .matrix (avx2Slot c.cfg.O i j + 16 + x) = gmul (c.A i j) x ∧
    c.m0 .matrix (avx2Slot c.cfg.O i j + 32 + x) = gmul (c.A i j) (x * 16) ∧
    c.m0 .matrix (avx2Slot c.cfg.O i j + 48 + x) = gmul (c.A i j) (x * 16)
  /-- `genGFNIMatrix`: per slot the 8 bytes (little endian) of `gf2p811dMulMatrices[coefficient]` -/
  mat_gfni : c.cfg.fam ≠ .avx2 → ∀ i j, i < c.cfg.O → j < c.cfg.I → ∀ t, t < 8 →
    c.m0 .matrix (gfniSlot c.cfg.O i j * 8 + t) = byteAt (wordAt gf2p811dMulMatrices (c.A i j)) t

/-! ## meaning of symbolic values -/

/-- value of an atom at byte `k` of the block of iteration `it` -/
def evalAtom (c : Ctx) (it k : Nat) : Atom → Nat
  | .inp j o => c.m0 (.inp j) (c.cur it + o + k)
  | .old i o => c.m0 (.out i) (c.cur it + o + k)
  | .shuf off hi j o =>
    c.m0 .matrix (off + (16 * (k / 16) +
      (if hi then c.m0 (.inp j) (c.cur it + o + k) >>> 4 else c.m0 (.inp j) (c.cur it + o + k) &&& 15)))
  | .aff off j o => affineB (fun t => c.m0 .matrix (off + t)) (c.m0 (.inp j) (c.cur it + o + k))

/-- the number a `lin` value stands for -/
def linVal (c : Ctx) (it s t k : Nat) : Nat := (s * c.env.start + t * (c.cfg.B * it) + k) % M64

def GRefines (c : Ctx) (it : Nat) : GSym → Val → Prop
  | .unk, _ => True
  | .nRaw, v => v = .num c.env.n
  | .cnt, v => v = .num c.cnt
  | .ctr d, v => v = .num (c.cnt - it - d)
  | .lin none s t k, v => v = .num (linVal c it s t k)
  | .lin (some r) s t k, v => v = .ptr r (linVal c it s t k)

def VRefines (c : Ctx) (it : Nat) : VSym → (Nat → Nat) → Prop
  | .unk, _ => True
  | .byte0 b, reg => reg 0 = b
  | .mask w, reg => ∀ k, k < w → reg k = 15
  | .tab off, reg => ∀ m, m < 32 → reg m = c.m0 .matrix (off + m)
  | .mat w off, reg => ∀ k, k < w → reg k = c.m0 .matrix (off + k % 8)
  | .xs w l, reg => ∀ k, k < w → reg k = xorl (l.map (evalAtom c it k))
  | .srl w j o, reg => ∀ k, k < w → reg k % 16 = c.m0 (.inp j) (c.cur it + o + k) / 16
  | .lo w j o, reg => ∀ k, k < w → reg k = c.m0 (.inp j) (c.cur it + o + k) &&& 15
  | .hi w j o, reg => ∀ k, k < w → reg k = c.m0 (.inp j) (c.cur it + o + k) >>> 4

/-- position `p` of output `i < O` already holds its final value: it lies in a finished iteration, or
in a block stored in the current iteration -/
def Done (c : Ctx) (it : Nat) (stores : List (Nat × Nat)) (i p : Nat) : Prop :=
  (i < c.cfg.O ∧ c.env.start ≤ p ∧ p < c.cur it) ∨
  ∃ o, (i, o) ∈ stores ∧ c.cur it + o ≤ p ∧ p < c.cur it + o + c.cfg.w

/-- memory during iteration `it`: only outputs differ from the initial memory, exactly at the
`Done` positions, where they hold the specified byte -/
def MemInv (c : Ctx) (it : Nat) (stores : List (Nat × Nat)) (mem : Region → Nat → Nat) : Prop :=
  (∀ r p, (∀ i, r ≠ .out i) → mem r p = c.m0 r p) ∧
  (∀ i p, Done c it stores i p → mem (.out i) p = c.spec i p) ∧
  (∀ i p, ¬ Done c it stores i p → mem (.out i) p = c.m0 (.out i) p)

/-- the concrete state is an instance of the symbolic state at iteration `it` -/
structure Sim (c : Ctx) (it : Nat) (σ : SymState) (s : State) : Prop where
  gp : ∀ r, GRefines c it (σ.gp r) (s.gp r)
  vec : ∀ v, VRefines c it (σ.vec v) (s.vec v)
  mem : MemInv c it σ.stores s.mem
  stores_ok : ∀ i o, (i, o) ∈ σ.stores → i < c.cfg.O ∧ o + c.cfg.w ≤ c.cfg.B

/-! ## xor lists -/

theorem xorl_append (a b : List Nat) : xorl (a ++ b) = xorl a ^^^ xorl b := by
  induction a with
  | nil => simp [xorl]
  | cons x xs ih => simp [xorl, ih, Nat.xor_assoc]

theorem xorl_perm {a b : List Nat} (h : a.Perm b) : xorl a = xorl b := by
  induction h with
  | nil => rfl
  | cons x _ ih => simp [xorl, ih]
  | swap x y l => simp only [xorl]; rw [← Nat.xor_assoc, ← Nat.xor_assoc, Nat.xor_comm y x]
  | trans _ _ ih1 ih2 => exact ih1.trans ih2

/-! ## byte facts -/

theorem nib_facts : ∀ n, n < 16 → n &&& 128 = 0 ∧ n &&& 15 = n := by decide

theorem and15_lt (x : Nat) : x &&& 15 < 16 := Nat.lt_of_le_of_lt Nat.and_le_right (by decide)

theorem shr4_lt {x : Nat} (h : x < 256) : x >>> 4 < 16 := by
  rw [Nat.shiftRight_eq_div_pow]; omega

theorem and15_eq_mod (x : Nat) : x &&& 15 = x % 16 := Nat.and_two_pow_sub_one_eq_mod x 4

theorem and255_eq_mod (x : Nat) : x &&& 255 = x % 256 := Nat.and_two_pow_sub_one_eq_mod x 8

/-- the low nibble of byte `j` of a 64-bit lane shifted right by 4 is the high nibble of byte `j`
of the source -/
theorem srlq4_byte (f : Nat → Nat) (hf : ∀ t, t < 8 → f t < 256) (j : Nat) (hj : j < 8) :
    (((pack8 f >>> 4) >>> (8 * j)) &&& 255) % 16 = f j / 16 := by
  have h0 := hf 0 (by decide); have h1 := hf 1 (by decide); have h2 := hf 2 (by decide)
  have h3 := hf 3 (by decide); have h4 := hf 4 (by decide); have h5 := hf 5 (by decide)
  have h6 := hf 6 (by decide); have h7 := hf 7 (by decide)
  rw [and255_eq_mod, Nat.shiftRight_eq_div_pow, Nat.shiftRight_eq_div_pow]
  unfold pack8
  have : j = 0 ∨ j = 1 ∨ j = 2 ∨ j = 3 ∨ j = 4 ∨ j = 5 ∨ j = 6 ∨ j = 7 := by omega
  rcases this with h | h | h | h | h | h | h | h <;> subst h <;> omega

/-- `affineB` only looks at matrix bytes 0..7 -/
theorem affineB_congr (m m' : Nat → Nat) (x : Nat) (h : ∀ t, t < 8 → m t = m' t) :
    affineB m x = affineB m' x := by
  unfold affineB
  rw [h 0 (by decide), h 1 (by decide), h 2 (by decide), h 3 (by decide), h 4 (by decide),
    h 5 (by decide), h 6 (by decide), h 7 (by decide)]

/-- the byte-wise formulation of GF2P8AFFINEQB used by the machine model is `affineByte` of
`RSV.Spec.Lanes` on the packed matrix word -/
theorem affineB_byteAt (W x : Nat) : affineB (fun t => byteAt W t) x = affineByte W x := rfl

/-- PSHUFB recipe on the contract's tables -/
theorem nibble_gmul (a x : Nat) (hx : x < 256) :
    gmul a (x &&& 15) ^^^ gmul a ((x >>> 4) * 16) = gmul a x := by
  rw [← RSV.gmul_xor_right, ← RSV.Props.C08.byte_split x hx]

end RSV.Asm
