import RSV.Proofs.AsmLoop
/-!
# Soundness of the assembly checker, part 7: the whole function.

`checkKernel prog … = true` ⟹ on every environment satisfying the contract, `exec` runs `prog`
to its `RET` without a fault and the final memory is the initial memory except that every
output `i < O` holds the specified bytes on `[start, start + (n / B)·B)`.
-/
namespace RSV.Asm
open RSV RSV.Model.Kernels

/-! ## layout of an assembled program -/

namespace Shape
variable (sh : Shape)

def tail5 : List Instr := [.decq sh.rc, .jnz sh.lLoop, .vzeroupper, .label sh.lEnd, .ret]
def A1 : List Instr := sh.pre1 ++ [.testq sh.rt sh.rt]
def A2 : List Instr := sh.A1 ++ [.jz sh.lEnd]
def A3 : List Instr := sh.A2 ++ sh.pre2
def A4 : List Instr := sh.A3 ++ [.label sh.lLoop]
def A5 : List Instr := sh.A4 ++ sh.body
def A6 : List Instr := sh.A5 ++ [.decq sh.rc]
def A7 : List Instr := sh.A6 ++ [.jnz sh.lLoop]
def A8 : List Instr := sh.A7 ++ [.vzeroupper]
def A9 : List Instr := sh.A8 ++ [.label sh.lEnd]

theorem asm0 : sh.assemble = sh.pre1 ++ .testq sh.rt sh.rt ::
    (.jz sh.lEnd :: (sh.pre2 ++ (.label sh.lLoop :: (sh.body ++ sh.tail5)))) := by
  simp [assemble, tail5]
theorem asm0' : sh.assemble = [] ++ sh.pre1 ++ (.testq sh.rt sh.rt ::
    (.jz sh.lEnd :: (sh.pre2 ++ (.label sh.lLoop :: (sh.body ++ sh.tail5))))) := by
  simp [assemble, tail5]
theorem asm1 : sh.assemble = sh.A1 ++ .jz sh.lEnd :: (sh.pre2 ++ (.label sh.lLoop :: (sh.body ++ sh.tail5))) := by
  simp [assemble, tail5, A1]
theorem asm2 : sh.assemble = sh.A2 ++ sh.pre2 ++ (.label sh.lLoop :: (sh.body ++ sh.tail5)) := by
  simp [assemble, tail5, A1, A2]
theorem asm3 : sh.assemble = sh.A3 ++ .label sh.lLoop :: (sh.body ++ sh.tail5) := by
  simp [assemble, tail5, A1, A2, A3]
theorem asm4 : sh.assemble = sh.A4 ++ sh.body ++ sh.tail5 := by
  simp [assemble, tail5, A1, A2, A3, A4]
theorem asm5 : sh.assemble = sh.A5 ++ .decq sh.rc :: [.jnz sh.lLoop, .vzeroupper, .label sh.lEnd, .ret] := by
  simp [assemble, A1, A2, A3, A4, A5]
theorem asm6 : sh.assemble = sh.A6 ++ .jnz sh.lLoop :: [.vzeroupper, .label sh.lEnd, .ret] := by
  simp [assemble, A1, A2, A3, A4, A5, A6]
theorem asm7 : sh.assemble = sh.A7 ++ .vzeroupper :: [.label sh.lEnd, .ret] := by
  simp [assemble, A1, A2, A3, A4, A5, A6, A7]
theorem asm8 : sh.assemble = sh.A8 ++ .label sh.lEnd :: [.ret] := by
  simp [assemble, A1, A2, A3, A4, A5, A6, A7, A8]
theorem asm9 : sh.assemble = sh.A9 ++ .ret :: [] := by
  simp [assemble, A1, A2, A3, A4, A5, A6, A7, A8, A9]

theorem len1 : sh.A1.length = sh.pre1.length + 1 := by simp [A1]
theorem len2 : sh.A2.length = sh.A1.length + 1 := by simp [A2]
theorem len3 : sh.A3.length = sh.A2.length + sh.pre2.length := by simp [A3]
theorem len4 : sh.A4.length = sh.A3.length + 1 := by simp [A4]
theorem len5 : sh.A5.length = sh.A4.length + sh.body.length := by simp [A5]
theorem len6 : sh.A6.length = sh.A5.length + 1 := by simp [A6]
theorem len7 : sh.A7.length = sh.A6.length + 1 := by simp [A7]
theorem len8 : sh.A8.length = sh.A7.length + 1 := by simp [A8]
theorem len9 : sh.A9.length = sh.A8.length + 1 := by simp [A9]
theorem lenP : sh.assemble.length = sh.A9.length + 1 := by rw [sh.asm9]; simp

end Shape

/-! ## what an accepted kernel satisfies -/

structure Checked (c : Ctx) (sh : Shape) (σ1 σ0 H σb : SymState) : Prop where
  ne : sh.lLoop ≠ sh.lEnd
  run1 : symRun c.cfg false sh.pre1 initSym = some σ1
  rt : σ1.gp sh.rt = .cnt
  s1st : σ1.stores = []
  run2 : symRun c.cfg false sh.pre2 σ1 = some σ0
  hst : H.stores = []
  s0st : σ0.stores = []
  init : initOK σ0 H = true
  runb : symRun c.cfg true sh.body H = some σb
  rc : σb.gp sh.rc = .ctr 0
  stepok : stepOK c.cfg H (σb.setGp sh.rc (.ctr 1)) = true
  cov : covers c.cfg σb.stores = true
  clampG : ∀ r, 16 ≤ r → H.gp r = .unk
  clampV : ∀ v, 32 ≤ v → H.vec v = .unk

theorem checkKernel_unpack {c : Ctx} {prog : Program}
    (h : checkKernel prog c.cfg.fam c.cfg.xor c.cfg.I c.cfg.O = true) :
    ∃ sh σ1 σ0 H σb, prog = sh.assemble ∧ Checked c sh σ1 σ0 H σb := by
  unfold checkKernel at h
  simp only [] at h
  split at h
  · exact absurd h (by simp)
  · rename_i sh _
    simp only [Bool.and_eq_true, decide_eq_true_eq] at h
    obtain ⟨⟨hasm, hne⟩, h⟩ := h
    split at h
    · exact absurd h (by simp)
    · rename_i σ1 hrun1
      simp only [Bool.and_eq_true, decide_eq_true_eq] at h
      obtain ⟨⟨hrt, h1st⟩, h⟩ := h
      split at h
      · exact absurd h (by simp)
      · rename_i σ0 hrun2
        unfold checkLoop at h
        simp only [Bool.and_eq_true, decide_eq_true_eq] at h
        obtain ⟨⟨⟨hH, h0⟩, hinit⟩, h⟩ := h
        split at h
        · exact absurd h (by simp)
        · rename_i σb hrunb
          simp only [Bool.and_eq_true, decide_eq_true_eq] at h
          obtain ⟨⟨hrc, hstep⟩, hcov⟩ := h
          refine ⟨sh, σ1, σ0, _, σb, hasm.symm, ⟨hne, hrun1, hrt, h1st, hrun2, hH, h0, hinit, hrunb, hrc, hstep, hcov, ?_, ?_⟩⟩
          · intro r hr; simp only [clamp]; rw [if_neg (Nat.not_lt.mpr hr)]
          · intro v hv; simp only [clamp]; rw [if_neg (Nat.not_lt.mpr hv)]

/-! ## the loop -/

section
variable {c : Ctx} {sh : Shape} {σ1 σ0 H σb : SymState}

theorem findLoop (hk : Checked c sh σ1 σ0 H σb) : findLabel sh.assemble sh.lLoop = some sh.A3.length := by
  apply findLabel_at sh.asm3
  intro i hi
  simp only [Shape.A3, Shape.A2, Shape.A1, List.mem_append, List.mem_singleton] at hi
  rcases hi with ((hi | rfl) | rfl) | hi
  · exact symRun_noLabel hk.run1 i hi _
  · simp
  · simp
  · exact symRun_noLabel hk.run2 i hi _

theorem findEnd (hk : Checked c sh σ1 σ0 H σb) : findLabel sh.assemble sh.lEnd = some sh.A8.length := by
  apply findLabel_at sh.asm8
  intro i hi
  simp only [Shape.A8, Shape.A7, Shape.A6, Shape.A5, Shape.A4, Shape.A3, Shape.A2, Shape.A1,
    List.mem_append, List.mem_singleton] at hi
  rcases hi with (((((((hi | rfl) | rfl) | hi) | rfl) | hi) | rfl) | rfl) | rfl
  · exact symRun_noLabel hk.run1 i hi _
  · simp
  · simp
  · exact symRun_noLabel hk.run2 i hi _
  · simp only [ne_eq, Instr.label.injEq]; exact hk.ne
  · exact symRun_noLabel hk.runb i hi _
  · simp
  · simp
  · simp

/-- one trip: from the loop label to the instruction after `JNZ` -/
theorem loop_iter (hc : Contract c) (hk : Checked c sh σ1 σ0 H σb) {it : Nat} (hit : it < c.cnt)
    {s : State} (hpc : s.pc = sh.A3.length) (h : Sim c it H s) :
    ∃ s', run c.env sh.assemble (sh.body.length + 3) s = some s' ∧ Sim c (it + 1) H s' ∧
      s'.pc = if it + 1 < c.cnt then sh.A3.length else sh.A7.length := by
  -- the label
  have hs1 : step c.env sh.assemble s = .cont (s.setPc (sh.A3.length + 1)) :=
    step_at_plain sh.asm3 hpc rfl rfl
  -- the body
  obtain ⟨s2, hrun2, hpc2, hsim2⟩ := symRun_sound hc (loop := true) (fun _ => hit) sh.body sh.A4 sh.tail5 H σb
    (s.setPc (sh.A3.length + 1)) sh.asm4 (by simp [Shape.len4, State.setPc]) (h.withPc _) hk.runb
  rw [← sh.len5] at hpc2
  -- DECQ
  have hg := hsim2.gp sh.rc
  rw [hk.rc] at hg
  simp only [GRefines, Nat.sub_zero] at hg
  have hnw := hc.no_wrap
  have hcntle : c.cnt ≤ c.env.n := Nat.div_le_self _ _
  have hdec : (c.cnt - it + M64 - 1) % M64 = c.cnt - it - 1 := by
    have : c.cnt - it + M64 - 1 = (c.cnt - it - 1) + M64 := by omega
    rw [this, Nat.add_mod_right, Nat.mod_eq_of_lt]; unfold M64 at *; omega
  let s3 : State := setFlags (setGp s2 sh.rc (.num (c.cnt - it - 1))) (some ((c.cnt - it - 1) == 0)) s2.cf
  have hst3 : stepInstr c.env (.decq sh.rc) s2 = some s3 := by
    simp only [stepInstr, hg, hdec]; rfl
  have hs3 := step_at_plain sh.asm5 hpc2 rfl hst3
  have hsim3 : Sim c it (σb.setGp sh.rc (.ctr 1)) s3 :=
    (hsim2.setGp sh.rc (g := .ctr 1) (v := .num (c.cnt - it - 1)) rfl).setFlags _ _
  have hsim4 := stepOK_sound hk.stepok hk.clampG hk.clampV hk.hst hk.cov hsim3
  -- JNZ
  have hs4 := step_at_jnz (env := c.env) (s := s3.setPc (sh.A5.length + 1)) (b := (c.cnt - it - 1) == 0) sh.asm6
    (by simp [State.setPc, Shape.len6]) rfl
  have hcount : sh.body.length + 3 = 1 + sh.body.length + 1 + 1 := by omega
  rw [hcount]
  by_cases hlast : it + 1 < c.cnt
  · have hz : ((c.cnt - it - 1) == 0) = false := by simp; omega
    rw [hz, if_neg (by simp), jump_eq (findLoop hk)] at hs4
    exact ⟨_, run_trans (run_trans (run_trans (run_one hs1) hrun2) (run_one hs3)) (run_one hs4),
      (hsim4.withPc _).withPc _, by simp [hlast, State.setPc]⟩
  · have hz : ((c.cnt - it - 1) == 0) = true := by simp; omega
    rw [hz, if_pos rfl] at hs4
    exact ⟨_, run_trans (run_trans (run_trans (run_one hs1) hrun2) (run_one hs3)) (run_one hs4),
      (hsim4.withPc _).withPc _, by simp [hlast, State.setPc, Shape.len7]⟩

/-- all remaining trips -/
theorem loop_all (hc : Contract c) (hk : Checked c sh σ1 σ0 H σb) :
    ∀ (m it : Nat) (s : State), c.cnt - it = m → it < c.cnt → s.pc = sh.A3.length → Sim c it H s →
      ∃ s', run c.env sh.assemble (m * (sh.body.length + 3)) s = some s' ∧ Sim c c.cnt H s' ∧
        s'.pc = sh.A7.length := by
  intro m
  induction m with
  | zero => intro it s hm hit; omega
  | succ m ih =>
    intro it s hm hit hpc h
    obtain ⟨s1, hrun1, hsim1, hpc1⟩ := loop_iter hc hk hit hpc h
    by_cases hlast : it + 1 < c.cnt
    · rw [if_pos hlast] at hpc1
      obtain ⟨s2, hrun2, hsim2, hpc2⟩ := ih (it + 1) s1 (by omega) hlast hpc1 hsim1
      refine ⟨s2, ?_, hsim2, hpc2⟩
      rw [Nat.succ_mul, Nat.add_comm]
      exact run_trans hrun1 hrun2
    · rw [if_neg hlast] at hpc1
      have hm0 : m = 0 := by omega
      have hcnt : it + 1 = c.cnt := by omega
      subst hm0
      rw [hcnt] at hsim1
      exact ⟨s1, by simpa using hrun1, hsim1, hpc1⟩

end

/-! ## the whole function -/

/-- number of machine steps of an accepted kernel (including the final `RET`) -/
def stepsOf (sh : Shape) (cnt : Nat) : Nat :=
  if cnt = 0 then sh.pre1.length + 4
  else sh.pre1.length + 2 + sh.pre2.length + cnt * (sh.body.length + 3) + 3

theorem checked_sound {c : Ctx} {sh : Shape} {σ1 σ0 H σb : SymState} (hc : Contract c)
    (hk : Checked c sh σ1 σ0 H σb) (s0 : State) (hpc0 : s0.pc = 0) (hmem0 : s0.mem = c.m0) :
    ∃ sf, exec c.env sh.assemble (stepsOf sh c.cnt) s0 = some sf ∧ MemInv c c.cnt [] sf.mem := by
  -- initial state
  have hsim0 : Sim c 0 initSym s0 := by
    refine ⟨fun _ => trivial, fun _ => trivial, ?_, by intro i o ho; simp [initSym] at ho⟩
    have hnd : ∀ i p, ¬ Done c 0 [] i p := by
      intro i p hd
      rcases hd with ⟨_, h1, h2⟩ | ⟨o, ho, _⟩
      · unfold Ctx.cur at h2; omega
      · simp at ho
    refine ⟨fun r p _ => by rw [hmem0], fun i p hd => absurd hd (hnd i p), fun i p _ => by rw [hmem0]⟩
  -- first prologue part
  obtain ⟨s1, hrun1, hpc1, hsim1⟩ := symRun_sound hc (it := 0) (loop := false) (by simp) sh.pre1 [] _ initSym σ1 s0
    sh.asm0' (by simpa using hpc0) hsim0 hk.run1
  simp only [List.length_nil, Nat.zero_add] at hpc1
  -- TESTQ
  have hg := hsim1.gp sh.rt
  rw [hk.rt] at hg
  simp only [GRefines] at hg
  have hst2 : stepInstr c.env (.testq sh.rt sh.rt) s1 = some (setFlags s1 (some (c.cnt == 0)) (some false)) := by
    simp only [stepInstr, hg, Nat.and_self]
  have hs2 := step_at_plain sh.asm0 hpc1 rfl hst2
  have hsim2 : Sim c 0 σ1 ((setFlags s1 (some (c.cnt == 0)) (some false)).setPc (sh.pre1.length + 1)) := (hsim1.setFlags _ _).withPc _
  have hs3 := step_at_jz (env := c.env) (s := (setFlags s1 (some (c.cnt == 0)) (some false)).setPc (sh.pre1.length + 1))
    (b := c.cnt == 0) sh.asm1 (by simp [State.setPc, Shape.len1]) rfl
  by_cases hz : c.cnt = 0
  · -- early exit: JZ taken, label, RET
    have hzf : (c.cnt == 0) = true := by simp [hz]
    rw [if_pos hzf, jump_eq (findEnd hk)] at hs3
    have hs4 := step_at_plain (env := c.env) (s := ((setFlags s1 (some (c.cnt == 0)) (some false)).setPc (sh.pre1.length + 1)).setPc sh.A8.length)
      sh.asm8 rfl rfl rfl
    have hs5 := step_at_ret (env := c.env)
      (s := (((setFlags s1 (some (c.cnt == 0)) (some false)).setPc (sh.pre1.length + 1)).setPc sh.A8.length).setPc (sh.A8.length + 1))
      sh.asm9 (by simp [State.setPc, Shape.len9])
    have hex := exec_halt (run_trans (run_trans (run_trans hrun1 (run_one hs2)) (run_one hs3)) (run_one hs4)) hs5
    have hsteps : stepsOf sh c.cnt = sh.pre1.length + 1 + 1 + 1 + 1 := by simp [stepsOf, hz]
    rw [← hsteps] at hex
    refine ⟨_, hex, ?_⟩
    rw [hz]
    have := hsim1.mem
    rw [hk.s1st] at this
    exact this
  · -- second prologue part
    have hzf : (c.cnt == 0) = false := by simp [hz]
    rw [if_neg (by rw [hzf]; simp)] at hs3
    obtain ⟨s4, hrun4, hpc4, hsim4⟩ := symRun_sound hc (it := 0) (loop := false) (by simp) sh.pre2 sh.A2 _ σ1 σ0
      (((setFlags s1 (some (c.cnt == 0)) (some false)).setPc (sh.pre1.length + 1)).setPc (sh.A1.length + 1)) sh.asm2
      (by simp [State.setPc, Shape.len2]) (hsim2.withPc _) hk.run2
    rw [← sh.len3] at hpc4
    have hsimH := initOK_sound hk.init hk.clampG hk.clampV hk.hst hk.s0st hsim4
    obtain ⟨s5, hrun5, hsim5, hpc5⟩ := loop_all hc hk c.cnt 0 s4 rfl (by omega) hpc4 hsimH
    -- VZEROUPPER, label, RET
    have hs6 := step_at_plain (env := c.env) (s := s5) (s' := zeroUpper s5) sh.asm7 hpc5 rfl rfl
    have hs7 := step_at_plain (env := c.env) (s := (zeroUpper s5).setPc (sh.A7.length + 1))
      (s' := (zeroUpper s5).setPc (sh.A7.length + 1)) sh.asm8 (by simp [State.setPc, Shape.len8]) rfl rfl
    have hs8 := step_at_ret (env := c.env)
      (s := ((zeroUpper s5).setPc (sh.A7.length + 1)).setPc (sh.A8.length + 1)) sh.asm9
      (by simp [State.setPc, Shape.len9])
    have hex := exec_halt (run_trans (run_trans (run_trans (run_trans (run_trans (run_trans hrun1 (run_one hs2))
      (run_one hs3)) hrun4) hrun5) (run_one hs6)) (run_one hs7)) hs8
    have hsteps : stepsOf sh c.cnt =
        sh.pre1.length + 1 + 1 + sh.pre2.length + c.cnt * (sh.body.length + 3) + 1 + 1 + 1 := by
      simp [stepsOf, hz]
    rw [← hsteps] at hex
    refine ⟨_, hex, ?_⟩
    have := hsim5.mem
    rw [hk.hst] at this
    exact this

end RSV.Asm
