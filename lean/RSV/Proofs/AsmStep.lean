import RSV.Proofs.AsmSem
import Mathlib.Tactic.Ring
/-!
# Soundness of the assembly checker, part 2: address computation and the general-register
instructions — each accepted symbolic step is matched by a concrete step.
-/
namespace RSV.Asm
open RSV RSV.Model.Kernels

variable {c : Ctx} {it : Nat} {σ σ' : SymState} {s : State}

theorem Sim.setGp (h : Sim c it σ s) (d : Reg) {g : GSym} {v : Val} (hg : GRefines c it g v) :
    Sim c it (σ.setGp d g) (setGp s d v) := by
  refine ⟨fun r => ?_, h.vec, h.mem, h.stores_ok⟩
  show GRefines c it (if r = d then g else σ.gp r) (if r = d then v else s.gp r)
  by_cases hr : r = d
  · simp [hr, hg]
  · simp [hr, h.gp r]

theorem Sim.setVec (h : Sim c it σ s) (d : VReg) (f : Nat → Nat) {x : VSym}
    (hx : VRefines c it x (fun k => if k < d.w.bytes then f k else 0)) :
    Sim c it (σ.setVec d.idx x) (setVec s d f) := by
  refine ⟨h.gp, fun v => ?_, h.mem, h.stores_ok⟩
  show VRefines c it (if v = d.idx then x else σ.vec v)
    (fun k => if v = d.idx then (if k < d.w.bytes then f k else 0) else s.vec v k)
  by_cases hv : v = d.idx
  · simp only [hv, if_true]; exact hx
  · simp only [hv, if_false]; exact h.vec v

theorem Sim.setFlags (h : Sim c it σ s) (z cf : Option Bool) : Sim c it σ (setFlags s z cf) :=
  ⟨h.gp, h.vec, h.mem, h.stores_ok⟩

theorem linVal_add (c : Ctx) (it a t k d : Nat) : (linVal c it a t k + d) % M64 = linVal c it a t (k + d) := by
  unfold linVal
  rw [Nat.mod_add_mod]
  congr 1
  omega

theorem linVal_add_lin (c : Ctx) (it a t k a' t' k' : Nat) :
    (linVal c it a t k + linVal c it a' t' k') % M64 = linVal c it (a + a') (t + t') (k + k') := by
  unfold linVal
  rw [← Nat.add_mod]
  congr 1
  ring

theorem linVal_small (c : Ctx) (it a t k : Nat) (h : a * c.env.start + t * (c.cfg.B * it) + k < M64) :
    linVal c it a t k = a * c.env.start + t * (c.cfg.B * it) + k := Nat.mod_eq_of_lt h

theorem symAddr_sound (h : Sim c it σ s) {m : Mem} {r : Region} {a t k : Nat}
    (ha : symAddr σ m = some (r, a, t, k)) : addr s m = some (r, linVal c it a t k) := by
  cases m with
  | bd disp base =>
    simp only [symAddr] at ha
    split at ha
    · rename_i r' a' t' k' heq
      have hg := h.gp base
      rw [heq] at hg
      simp only [GRefines] at hg
      simp only [Option.some.injEq, Prod.mk.injEq] at ha
      obtain ⟨rfl, rfl, rfl, rfl⟩ := ha
      simp only [addr, hg, linVal_add]
    · exact absurd ha (by simp)
  | bi base idx =>
    simp only [symAddr] at ha
    split at ha
    · rename_i r' a' t' k' a'' t'' k'' heq heq2
      have hg := h.gp base
      have hg2 := h.gp idx
      rw [heq] at hg
      rw [heq2] at hg2
      simp only [GRefines] at hg hg2
      simp only [Option.some.injEq, Prod.mk.injEq] at ha
      obtain ⟨rfl, rfl, rfl, rfl⟩ := ha
      simp only [addr, hg, hg2, linVal_add_lin]
    · exact absurd ha (by simp)

theorem B_pos (c : Ctx) : 0 < c.cfg.B := by
  rcases RSV.Props.C08.C08_gran c.cfg.fam c.cfg.O with h | h <;> (unfold Cfg.B; omega)

/-- the block of iteration `it < cnt` lies inside `[start, start + n)` -/
theorem blk_bound (c : Ctx) {it : Nat} (h : it < c.cnt) : c.cur it + c.cfg.B ≤ c.env.start + c.env.n := by
  unfold Ctx.cur
  have h1 : c.cfg.B * (it + 1) ≤ c.cfg.B * c.cnt := Nat.mul_le_mul_left _ h
  have h2 : c.cfg.B * c.cnt ≤ c.env.n := Nat.mul_div_le _ _
  rw [Nat.mul_add, Nat.mul_one] at h1
  omega

theorem symData_matrix (hc : Contract c) (h : Sim c it σ s) {loop : Bool} {m : Mem} {w k : Nat}
    (hd : symData c.cfg loop σ m w = some (.matrix, k)) :
    dataAddr c.env s m w = some (.matrix, k) ∧ k + w ≤ c.cfg.matSize := by
  unfold symData at hd
  split at hd
  · exact absurd hd (by simp)
  · rename_i r a t k' heq
    have ha := symAddr_sound h heq
    split at hd
    · split at hd
      · rename_i hcond
        obtain ⟨rfl, rfl, hle, hlt⟩ := hcond
        simp only [Option.some.injEq, Prod.mk.injEq, true_and] at hd
        subst hd
        have hk : linVal c it 0 0 k' = k' := by
          rw [linVal_small] <;> omega
        rw [hk] at ha
        have := hc.mat_size
        refine ⟨?_, hle⟩
        simp only [dataAddr, ha, Env.isData, Bool.true_and]
        rw [if_pos (by simp; omega)]
      · exact absurd hd (by simp)
    · split at hd <;> simp at hd
    · split at hd <;> simp at hd
    · exact absurd hd (by simp)

theorem symData_inp (hc : Contract c) (h : Sim c it σ s) {loop : Bool} (hl : loop = true → it < c.cnt)
    {m : Mem} {w k j : Nat} (hd : symData c.cfg loop σ m w = some (.inp j, k)) :
    dataAddr c.env s m w = some (.inp j, c.cur it + k) ∧ k + w ≤ c.cfg.B ∧ j < c.cfg.I ∧ it < c.cnt := by
  unfold symData at hd
  split at hd
  · exact absurd hd (by simp)
  · rename_i r a t k' heq
    have ha := symAddr_sound h heq
    split at hd
    · split at hd <;> simp at hd
    · split at hd
      · rename_i j' hcond
        obtain ⟨hloop, rfl, rfl, hj, hle⟩ := hcond
        simp only [Option.some.injEq, Prod.mk.injEq, Region.inp.injEq] at hd
        obtain ⟨rfl, rfl⟩ := hd
        have hit := hl hloop
        have hb := blk_bound c hit
        have hsz := hc.in_size j' hj
        have hnw := hc.no_wrap
        have hk : linVal c it 1 1 k' = c.cur it + k' := by
          rw [linVal_small] <;> unfold Ctx.cur at * <;> omega
        rw [hk] at ha
        refine ⟨?_, hle, hj, hit⟩
        simp only [dataAddr, ha, Env.isData, hc.inputs_eq]
        rw [if_pos (by simp; omega)]
      · exact absurd hd (by simp)
    · split at hd <;> simp at hd
    · exact absurd hd (by simp)

theorem symData_out (hc : Contract c) (h : Sim c it σ s) {loop : Bool} (hl : loop = true → it < c.cnt)
    {m : Mem} {w k i : Nat} (hd : symData c.cfg loop σ m w = some (.out i, k)) :
    dataAddr c.env s m w = some (.out i, c.cur it + k) ∧ k + w ≤ c.cfg.B ∧ i < c.cfg.O ∧ it < c.cnt := by
  unfold symData at hd
  split at hd
  · exact absurd hd (by simp)
  · rename_i r a t k' heq
    have ha := symAddr_sound h heq
    split at hd
    · split at hd <;> simp at hd
    · split at hd <;> simp at hd
    · split at hd
      · rename_i i' hcond
        obtain ⟨hloop, rfl, rfl, hi, hle⟩ := hcond
        simp only [Option.some.injEq, Prod.mk.injEq, Region.out.injEq] at hd
        obtain ⟨rfl, rfl⟩ := hd
        have hit := hl hloop
        have hb := blk_bound c hit
        have hsz := hc.out_size i' hi
        have hnw := hc.no_wrap
        have hk : linVal c it 1 1 k' = c.cur it + k' := by
          rw [linVal_small] <;> unfold Ctx.cur at * <;> omega
        rw [hk] at ha
        refine ⟨?_, hle, hi, hit⟩
        simp only [dataAddr, ha, Env.isData, hc.outputs_eq]
        rw [if_pos (by simp; omega)]
      · exact absurd hd (by simp)
    · exact absurd hd (by simp)

/-! ## general-register instructions -/

/-- conclusion of every per-instruction simulation lemma -/
def StepOK (c : Ctx) (it : Nat) (i : Instr) (σ' : SymState) (s : State) : Prop :=
  ∃ s', stepInstr c.env i s = some s' ∧ Sim c it σ' s' ∧ s'.pc = s.pc

theorem linVal_const (c : Ctx) (it k : Nat) (h : k < M64) : linVal c it 0 0 k = k := by
  rw [linVal_small] <;> omega

theorem step_movqFrame (hc : Contract c) (h : Sim c it σ s) {loop : Bool} {a : FrameArg} {d : Reg}
    (hs : symStep c.cfg loop (.movqFrame a d) σ = some σ') : StepOK c it (.movqFrame a d) σ' s := by
  simp only [symStep, Option.some.injEq] at hs
  subst hs
  refine ⟨_, rfl, h.setGp d ?_, rfl⟩
  have := hc.no_wrap
  cases a <;> simp only [GRefines]
  case matrixBase => rw [linVal_const]; decide
  case inBase => rw [linVal_const]; decide
  case outBase => rw [linVal_const]; decide
  case start =>
    rw [linVal_small]
    · simp
    · simp; omega

theorem step_movqImm (h : Sim c it σ s) {loop : Bool} {imm : Nat} {d : Reg}
    (hs : symStep c.cfg loop (.movqImm imm d) σ = some σ') : StepOK c it (.movqImm imm d) σ' s := by
  simp only [symStep, Option.some.injEq] at hs
  subst hs
  refine ⟨_, rfl, h.setGp d ?_, rfl⟩
  simp [GRefines, linVal]

theorem step_movqLoad (hc : Contract c) (h : Sim c it σ s) {loop : Bool} {m : Mem} {d : Reg}
    (hs : symStep c.cfg loop (.movqLoad m d) σ = some σ') : StepOK c it (.movqLoad m d) σ' s := by
  simp only [symStep] at hs
  split at hs
  · rename_i a t k heq
    have ha := symAddr_sound h heq
    split at hs
    · rename_i hcond
      obtain ⟨rfl, rfl, hk, hmod, hlt⟩ := hcond
      simp only [Option.some.injEq] at hs
      subst hs
      rw [linVal_const _ _ _ hk] at ha
      refine ⟨setGp s d (.ptr (.inp (k / 24)) 0), ?_, h.setGp d ?_, rfl⟩
      · simp only [stepInstr, ha, hc.inputs_eq]
        rw [if_pos ⟨hmod, hlt⟩]
      · simp only [GRefines]; rw [linVal_const]; decide
    · exact absurd hs (by simp)
  · rename_i a t k heq
    have ha := symAddr_sound h heq
    split at hs
    · rename_i hcond
      obtain ⟨rfl, rfl, hk, hmod, hlt⟩ := hcond
      simp only [Option.some.injEq] at hs
      subst hs
      rw [linVal_const _ _ _ hk] at ha
      refine ⟨setGp s d (.ptr (.out (k / 24)) 0), ?_, h.setGp d ?_, rfl⟩
      · simp only [stepInstr, ha, hc.outputs_eq]
        rw [if_pos ⟨hmod, hlt⟩]
      · simp only [GRefines]; rw [linVal_const]; decide
    · exact absurd hs (by simp)
  · exact absurd hs (by simp)

theorem step_addqImm (h : Sim c it σ s) {loop : Bool} {imm : Nat} {d : Reg}
    (hs : symStep c.cfg loop (.addqImm imm d) σ = some σ') : StepOK c it (.addqImm imm d) σ' s := by
  simp only [symStep] at hs
  split at hs
  · rename_i b a t k heq
    simp only [Option.some.injEq] at hs
    subst hs
    have hg := h.gp d
    rw [heq] at hg
    cases b with
    | none =>
      simp only [GRefines] at hg
      refine ⟨_, by simp only [stepInstr, hg]; rfl, (h.setGp d ?_).setFlags _ _, rfl⟩
      simp only [GRefines, linVal_add]
    | some r =>
      simp only [GRefines] at hg
      refine ⟨_, by simp only [stepInstr, hg]; rfl, (h.setGp d ?_).setFlags _ _, rfl⟩
      simp only [GRefines, linVal_add]
  · exact absurd hs (by simp)

theorem step_addqReg (h : Sim c it σ s) {loop : Bool} {src d : Reg}
    (hs : symStep c.cfg loop (.addqReg src d) σ = some σ') : StepOK c it (.addqReg src d) σ' s := by
  simp only [symStep] at hs
  split at hs
  · rename_i a t k b a' t' k' heq heq2
    simp only [Option.some.injEq] at hs
    subst hs
    have hg := h.gp src
    have hg2 := h.gp d
    rw [heq] at hg
    rw [heq2] at hg2
    simp only [GRefines] at hg
    cases b with
    | none =>
      simp only [GRefines] at hg2
      refine ⟨_, by simp only [stepInstr, hg, hg2]; rfl, (h.setGp d ?_).setFlags _ _, rfl⟩
      simp only [GRefines, linVal_add_lin]
    | some r =>
      simp only [GRefines] at hg2
      refine ⟨_, by simp only [stepInstr, hg, hg2]; rfl, (h.setGp d ?_).setFlags _ _, rfl⟩
      simp only [GRefines, linVal_add_lin]
  · rename_i r a t k a' t' k' heq heq2
    simp only [Option.some.injEq] at hs
    subst hs
    have hg := h.gp src
    have hg2 := h.gp d
    rw [heq] at hg
    rw [heq2] at hg2
    simp only [GRefines] at hg hg2
    refine ⟨_, by simp only [stepInstr, hg, hg2]; rfl, (h.setGp d ?_).setFlags _ _, rfl⟩
    simp only [GRefines, linVal_add_lin, Nat.add_comm]
  · exact absurd hs (by simp)

theorem step_shrqImm (h : Sim c it σ s) {loop : Bool} {imm : Nat} {d : Reg}
    (hs : symStep c.cfg loop (.shrqImm imm d) σ = some σ') : StepOK c it (.shrqImm imm d) σ' s := by
  simp only [symStep] at hs
  split at hs
  · rename_i heq
    split at hs
    · rename_i hcond
      simp only [Option.some.injEq] at hs
      subst hs
      have hg := h.gp d
      rw [heq] at hg
      simp only [GRefines] at hg
      have hpos : 0 < imm := by
        rcases Nat.eq_zero_or_pos imm with h0 | h0
        · exfalso
          have h2 := hcond.2
          rw [h0] at h2
          rcases RSV.Props.C08.C08_gran c.cfg.fam c.cfg.O with hB | hB <;> (unfold Cfg.B at h2; omega)
        · exact h0
      refine ⟨_, by simp only [stepInstr, hg, if_pos (And.intro hpos hcond.1)]; rfl, (h.setGp d ?_).setFlags _ _, rfl⟩
      simp only [GRefines, Ctx.cnt, ← hcond.2, Nat.shiftRight_eq_div_pow]
    · exact absurd hs (by simp)
  · exact absurd hs (by simp)

theorem step_movqToX (h : Sim c it σ s) {loop : Bool} {src : Reg} {x : Nat}
    (hs : symStep c.cfg loop (.movqToX src x) σ = some σ') : StepOK c it (.movqToX src x) σ' s := by
  simp only [symStep] at hs
  split at hs
  · rename_i a t k heq
    split at hs
    · rename_i hcond
      obtain ⟨rfl, rfl, hk⟩ := hcond
      simp only [Option.some.injEq] at hs
      subst hs
      have hg := h.gp src
      rw [heq] at hg
      simp only [GRefines] at hg
      rw [linVal_const _ _ _ (by unfold M64; omega)] at hg
      refine ⟨movqX s x k, by simp only [stepInstr, hg], ⟨h.gp, fun v => ?_, h.mem, h.stores_ok⟩, rfl⟩
      show VRefines c it (if v = x then .byte0 k else σ.vec v) (fun k' =>
        if v = x then (if k' < 8 then (k >>> (8 * k')) &&& 255 else (if k' < 16 then 0 else s.vec v k')) else s.vec v k')
      by_cases hv : v = x
      · simp only [hv, if_true, VRefines]
        show (k >>> (8 * 0)) &&& 255 = k
        rw [and255_eq_mod]; simp; omega
      · simp only [hv, if_false]; exact h.vec v
    · exact absurd hs (by simp)
  · exact absurd hs (by simp)

end RSV.Asm
