import RSV.Proofs.AsmStep
/-!
# Soundness of the assembly checker, part 3: the vector instructions, loads and stores, and the
combined per-instruction simulation lemma `symStep_sound`.
-/
namespace RSV.Asm
open RSV RSV.Model.Kernels

variable {c : Ctx} {it : Nat} {σ σ' : SymState} {s : State}

theorem xorl_single (x : Nat) : xorl [x] = x := by simp [xorl]

theorem bytes_mod8 (w : VW) : w.bytes % 8 = 0 := by cases w <;> rfl

theorem lane_lt {w k t : Nat} (hw : w % 8 = 0) (hk : k < w) (ht : t < 8) : 8 * (k / 8) + t < w := by omega

/-! ### loads -/

theorem step_vload (hc : Contract c) (h : Sim c it σ s) {loop : Bool} (hl : loop = true → it < c.cnt)
    {m : Mem} {d : VReg} (hs : symStep c.cfg loop (.vload m d) σ = some σ') : StepOK c it (.vload m d) σ' s := by
  simp only [symStep] at hs
  split at hs
  · rename_i k heq
    obtain ⟨ha, _⟩ := symData_matrix hc h heq
    split at hs
    · rename_i hw
      simp only [Option.some.injEq] at hs
      subst hs
      refine ⟨_, by simp only [stepInstr, ha]; rfl, h.setVec d _ ?_, rfl⟩
      intro m' hm'
      have : d.w.bytes = 32 := by rw [hw]; rfl
      simp only [this, if_pos hm']
      exact h.mem.1 .matrix _ (by simp)
    · exact absurd hs (by simp)
  · rename_i j k heq
    obtain ⟨ha, _⟩ := symData_inp hc h hl heq
    simp only [Option.some.injEq] at hs
    subst hs
    refine ⟨_, by simp only [stepInstr, ha]; rfl, h.setVec d _ ?_, rfl⟩
    intro k' hk'
    simp only [if_pos hk', List.map, evalAtom, xorl_single]
    rw [h.mem.1 (.inp j) _ (by simp)]
  · rename_i i k heq
    obtain ⟨ha, _⟩ := symData_out hc h hl heq
    split at hs
    · rename_i hst
      simp only [Option.some.injEq] at hs
      subst hs
      refine ⟨_, by simp only [stepInstr, ha]; rfl, h.setVec d _ ?_, rfl⟩
      intro k' hk'
      simp only [if_pos hk', List.map, evalAtom, xorl_single]
      apply h.mem.2.2
      rw [hst]
      intro hd
      rcases hd with ⟨_, _, hlt⟩ | ⟨o, ho, _⟩
      · omega
      · simp at ho
    · exact absurd hs (by simp)
  · exact absurd hs (by simp)

theorem step_vbcast8 (hc : Contract c) (h : Sim c it σ s) {loop : Bool}
    {m : Mem} {d : VReg} (hs : symStep c.cfg loop (.vbcast8 m d) σ = some σ') : StepOK c it (.vbcast8 m d) σ' s := by
  simp only [symStep] at hs
  split at hs
  · rename_i k heq
    obtain ⟨ha, _⟩ := symData_matrix hc h heq
    simp only [Option.some.injEq] at hs
    subst hs
    refine ⟨_, by simp only [stepInstr, ha]; rfl, h.setVec d _ ?_, rfl⟩
    intro k' hk'
    simp only [if_pos hk']
    exact h.mem.1 .matrix _ (by simp)
  · exact absurd hs (by simp)

/-! ### register-to-register vector instructions -/

theorem step_vxor (h : Sim c it σ s) {loop : Bool} {a b d : VReg}
    (hs : symStep c.cfg loop (.vxor a b d) σ = some σ') : StepOK c it (.vxor a b d) σ' s := by
  simp only [symStep] at hs
  split at hs
  · rename_i w l w' l' heq heq2
    split at hs
    · rename_i hcond
      obtain ⟨rfl, rfl⟩ := hcond
      simp only [Option.some.injEq] at hs
      subst hs
      have ha := h.vec a.idx
      have hb := h.vec b.idx
      rw [heq] at ha
      rw [heq2] at hb
      refine ⟨_, rfl, h.setVec d _ ?_, rfl⟩
      intro k hk
      simp only [if_pos hk, List.map_append, xorl_append]
      rw [ha k hk, hb k hk]
    · exact absurd hs (by simp)
  · exact absurd hs (by simp)

theorem step_vpand (h : Sim c it σ s) {loop : Bool} {a b d : VReg}
    (hs : symStep c.cfg loop (.vpand a b d) σ = some σ') : StepOK c it (.vpand a b d) σ' s := by
  simp only [symStep] at hs
  split at hs
  · rename_i w w' j o heq heq2
    split at hs
    · rename_i hcond
      obtain ⟨rfl, rfl⟩ := hcond
      simp only [Option.some.injEq] at hs
      subst hs
      have ha := h.vec a.idx
      have hb := h.vec b.idx
      rw [heq] at ha
      rw [heq2] at hb
      refine ⟨_, rfl, h.setVec d _ ?_, rfl⟩
      intro k hk
      simp only [if_pos hk]
      rw [ha k hk, hb k hk]
      simp only [List.map, evalAtom, xorl_single]
    · exact absurd hs (by simp)
  · rename_i w w' j o heq heq2
    split at hs
    · rename_i hcond
      obtain ⟨rfl, rfl⟩ := hcond
      simp only [Option.some.injEq] at hs
      subst hs
      have ha := h.vec a.idx
      have hb := h.vec b.idx
      rw [heq] at ha
      rw [heq2] at hb
      refine ⟨_, rfl, h.setVec d _ ?_, rfl⟩
      intro k hk
      simp only [if_pos hk]
      rw [ha k hk, and15_eq_mod, hb k hk, Nat.shiftRight_eq_div_pow]
    · exact absurd hs (by simp)
  · exact absurd hs (by simp)

theorem step_vpsrlq (hc : Contract c) (h : Sim c it σ s) {loop : Bool} {imm : Nat} {src d : VReg}
    (hs : symStep c.cfg loop (.vpsrlq imm src d) σ = some σ') : StepOK c it (.vpsrlq imm src d) σ' s := by
  simp only [symStep] at hs
  split at hs
  · rename_i w j o heq
    split at hs
    · rename_i hcond
      obtain ⟨rfl, rfl⟩ := hcond
      simp only [Option.some.injEq] at hs
      subst hs
      have ha := h.vec src.idx
      rw [heq] at ha
      refine ⟨_, rfl, h.setVec d _ ?_, rfl⟩
      intro k hk
      simp only [if_pos hk, srlqByte]
      have hsrc : ∀ k', k' < d.w.bytes → s.vec src.idx k' = c.m0 (.inp j) (c.cur it + o + k') := by
        intro k' hk'
        rw [ha k' hk']; simp only [List.map, evalAtom, xorl_single]
      rw [srlq4_byte _ _ (k % 8) (Nat.mod_lt _ (by decide))]
      · have : 8 * (k / 8) + k % 8 = k := by omega
        rw [this, hsrc k hk]
      · intro t ht
        rw [hsrc _ (lane_lt (bytes_mod8 _) hk ht)]
        exact hc.bytes _ _
    · exact absurd hs (by simp)
  · exact absurd hs (by simp)

theorem step_vpbroadcastb (h : Sim c it σ s) {loop : Bool} {src d : VReg}
    (hs : symStep c.cfg loop (.vpbroadcastb src d) σ = some σ') : StepOK c it (.vpbroadcastb src d) σ' s := by
  simp only [symStep] at hs
  split at hs
  · rename_i b heq
    split at hs
    · rename_i hb
      subst hb
      simp only [Option.some.injEq] at hs
      subst hs
      have ha := h.vec src.idx
      rw [heq] at ha
      refine ⟨_, rfl, h.setVec d _ ?_, rfl⟩
      intro k hk
      simp only [if_pos hk]
      exact ha
    · exact absurd hs (by simp)
  · exact absurd hs (by simp)

theorem step_vpshufb (hc : Contract c) (h : Sim c it σ s) {loop : Bool} {idx tab d : VReg}
    (hs : symStep c.cfg loop (.vpshufb idx tab d) σ = some σ') : StepOK c it (.vpshufb idx tab d) σ' s := by
  simp only [symStep] at hs
  split at hs
  · rename_i off w j o heq heq2
    split at hs
    · rename_i hcond
      obtain ⟨hw, rfl⟩ := hcond
      simp only [Option.some.injEq] at hs
      subst hs
      have ht := h.vec tab.idx
      have hi := h.vec idx.idx
      rw [heq] at ht
      rw [heq2] at hi
      have hb : d.w.bytes = 32 := by rw [hw]; rfl
      refine ⟨_, rfl, h.setVec d _ ?_, rfl⟩
      intro k hk
      simp only [hb, if_pos hk, shufByte, List.map, evalAtom, xorl_single]
      rw [hi k hk]
      obtain ⟨h1, h2⟩ := nib_facts _ (and15_lt (c.m0 (.inp j) (c.cur it + o + k)))
      have hlt := and15_lt (c.m0 (.inp j) (c.cur it + o + k))
      rw [h1, h2, if_neg (by simp)]
      rw [ht _ (by omega)]
      simp
    · exact absurd hs (by simp)
  · rename_i off w j o heq heq2
    split at hs
    · rename_i hcond
      obtain ⟨hw, rfl⟩ := hcond
      simp only [Option.some.injEq] at hs
      subst hs
      have ht := h.vec tab.idx
      have hi := h.vec idx.idx
      rw [heq] at ht
      rw [heq2] at hi
      have hb : d.w.bytes = 32 := by rw [hw]; rfl
      refine ⟨_, rfl, h.setVec d _ ?_, rfl⟩
      intro k hk
      simp only [hb, if_pos hk, shufByte, List.map, evalAtom, xorl_single]
      rw [hi k hk]
      have hlt := shr4_lt (hc.bytes (.inp j) (c.cur it + o + k))
      obtain ⟨h1, h2⟩ := nib_facts _ hlt
      rw [h1, h2, if_neg (by simp)]
      rw [ht _ (by omega)]
      simp
    · exact absurd hs (by simp)
  · exact absurd hs (by simp)

theorem step_affine (h : Sim c it σ s) {loop : Bool} {imm : Nat} {mt src d : VReg}
    (hs : symStep c.cfg loop (.affine imm mt src d) σ = some σ') : StepOK c it (.affine imm mt src d) σ' s := by
  simp only [symStep] at hs
  split at hs
  · rename_i w off w' j o heq heq2
    split at hs
    · rename_i hcond
      obtain ⟨rfl, rfl, rfl⟩ := hcond
      simp only [Option.some.injEq] at hs
      subst hs
      have hm := h.vec mt.idx
      have hx := h.vec src.idx
      rw [heq] at hm
      rw [heq2] at hx
      refine ⟨_, rfl, h.setVec d _ ?_, rfl⟩
      intro k hk
      simp only [if_pos hk, List.map, evalAtom, xorl_single, Nat.xor_zero]
      rw [hx k hk]
      simp only [List.map, evalAtom, xorl_single]
      apply affineB_congr
      intro t ht
      rw [hm _ (lane_lt (bytes_mod8 _) hk ht)]
      congr 2
      omega
    · exact absurd hs (by simp)
  · exact absurd hs (by simp)

theorem step_affineBcst (hc : Contract c) (h : Sim c it σ s) {loop : Bool} {imm : Nat} {m : Mem} {src d : VReg}
    (hs : symStep c.cfg loop (.affineBcst imm m src d) σ = some σ') :
    StepOK c it (.affineBcst imm m src d) σ' s := by
  simp only [symStep] at hs
  split at hs
  · rename_i k w j o heq heq2
    obtain ⟨ha, _⟩ := symData_matrix hc h heq
    split at hs
    · rename_i hcond
      obtain ⟨rfl, rfl⟩ := hcond
      simp only [Option.some.injEq] at hs
      subst hs
      have hx := h.vec src.idx
      rw [heq2] at hx
      refine ⟨_, by simp only [stepInstr, ha]; rfl, h.setVec d _ ?_, rfl⟩
      intro k' hk'
      simp only [if_pos hk', List.map, evalAtom, xorl_single, Nat.xor_zero]
      rw [hx k' hk']
      simp only [List.map, evalAtom, xorl_single]
      apply affineB_congr
      intro t _
      exact h.mem.1 .matrix _ (by simp)
    · exact absurd hs (by simp)
  · exact absurd hs (by simp)

end RSV.Asm
