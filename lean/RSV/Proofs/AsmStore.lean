import RSV.Proofs.AsmStepV
/-!
# Soundness of the assembly checker, part 4: the normal-form comparison (an accepted xor list
evaluates to the specified byte, by `C08_nibble`/`C08_affine` reasoning on the contract's matrix),
the store instruction, and the combined per-instruction simulation lemma `symStep_sound`.
-/
namespace RSV.Asm
open RSV RSV.Model.Kernels RSV.Gen

variable {c : Ctx} {it : Nat} {σ σ' : SymState} {s : State}

theorem w_avx2 (h : c.cfg.fam = .avx2) : c.cfg.w = 32 := by unfold Cfg.w; rw [h]

/-- one recipe evaluates to the field product -/
theorem recipe_eval (hc : Contract c) {i o j k : Nat} (hi : i < c.cfg.O) (hj : j < c.cfg.I) (hk : k < c.cfg.w) :
    xorl ((recipe c.cfg i o j).map (evalAtom c it k)) = gmul (c.A i j) (c.m0 (.inp j) (c.cur it + o + k)) := by
  have hx := hc.bytes (.inp j) (c.cur it + o + k)
  cases hfam : c.cfg.fam with
  | avx2 =>
    have hk32 : k < 32 := by rw [w_avx2 hfam] at hk; exact hk
    simp only [recipe, hfam, List.map, evalAtom, xorl, Nat.xor_zero, Bool.false_eq_true, if_false, if_true]
    generalize c.m0 (.inp j) (c.cur it + o + k) = x at hx
    have hlo := hc.mat_avx2 hfam i j hi hj _ (and15_lt x)
    have hhi := hc.mat_avx2 hfam i j hi hj _ (shr4_lt hx)
    have hq : k / 16 = 0 ∨ k / 16 = 1 := by omega
    rcases hq with hq | hq <;> rw [hq]
    · have e1 : avx2Slot c.cfg.O i j + (16 * 0 + (x &&& 15)) = avx2Slot c.cfg.O i j + (x &&& 15) := by omega
      have e2 : avx2Slot c.cfg.O i j + 32 + (16 * 0 + (x >>> 4)) = avx2Slot c.cfg.O i j + 32 + (x >>> 4) := by omega
      rw [e1, e2, hlo.1, hhi.2.2.1, nibble_gmul _ _ hx]
    · have e1 : avx2Slot c.cfg.O i j + (16 * 1 + (x &&& 15)) = avx2Slot c.cfg.O i j + 16 + (x &&& 15) := by omega
      have e2 : avx2Slot c.cfg.O i j + 32 + (16 * 1 + (x >>> 4)) = avx2Slot c.cfg.O i j + 48 + (x >>> 4) := by omega
      rw [e1, e2, hlo.2.1, hhi.2.2.2, nibble_gmul _ _ hx]
  | gfni =>
    have hne : c.cfg.fam ≠ .avx2 := by rw [hfam]; decide
    simp only [recipe, hfam, List.map, evalAtom, xorl, Nat.xor_zero]
    rw [affineB_congr _ _ _ (hc.mat_gfni hne i j hi hj), affineB_byteAt,
      RSV.Props.C08.C08_affine _ _ (hc.coeff i j) hx]
  | avxgfni =>
    have hne : c.cfg.fam ≠ .avx2 := by rw [hfam]; decide
    simp only [recipe, hfam, List.map, evalAtom, xorl, Nat.xor_zero]
    rw [affineB_congr _ _ _ (hc.mat_gfni hne i j hi hj), affineB_byteAt,
      RSV.Props.C08.C08_affine _ _ (hc.coeff i j) hx]

theorem flatMap_eval (e : Atom → Nat) (f : Nat → List Atom) (g : Nat → Nat) (L : List Nat)
    (h : ∀ j, j ∈ L → xorl ((f j).map e) = g j) : xorl ((L.flatMap f).map e) = xorl (L.map g) := by
  induction L with
  | nil => rfl
  | cons a L ih =>
    simp only [List.flatMap_cons, List.map_append, xorl_append, List.map_cons, xorl]
    rw [h a (by simp), ih (fun j hj => h j (by simp [hj]))]

/-- the expected xor list evaluates to the specified byte -/
theorem expected_eval (hc : Contract c) {i o k : Nat} (hi : i < c.cfg.O) (hk : k < c.cfg.w) :
    xorl ((expected c.cfg i o).map (evalAtom c it k)) = c.spec i (c.cur it + o + k) := by
  unfold expected Ctx.spec
  rw [List.map_append, xorl_append, xorl_append]
  congr 1
  · cases c.cfg.xor <;> simp [evalAtom]
  · apply flatMap_eval
    intro j hj
    exact recipe_eval hc hi (List.mem_range.mp hj) hk

/-! ### the store -/

theorem step_vstore (hc : Contract c) (h : Sim c it σ s) {loop : Bool} (hl : loop = true → it < c.cnt)
    {src : VReg} {m : Mem} (hs : symStep c.cfg loop (.vstore src m) σ = some σ') :
    StepOK c it (.vstore src m) σ' s := by
  simp only [symStep] at hs
  split at hs
  · rename_i i k w l heq heq2
    obtain ⟨ha, hkB, hi, _⟩ := symData_out hc h hl heq
    split at hs
    · rename_i hcond
      obtain ⟨hsw, rfl, hperm, hnew⟩ := hcond
      simp only [Option.some.injEq] at hs
      subst hs
      have hv := h.vec src.idx
      rw [heq2] at hv
      have hperm' := List.isPerm_iff.mp hperm
      -- value of the stored bytes
      have hval : ∀ q, q < c.cfg.w → s.vec src.idx q = c.spec i (c.cur it + k + q) := by
        intro q hq
        rw [hv q hq, xorl_perm (hperm'.map _), expected_eval hc hi hq]
      refine ⟨storeVec s (.out i) (c.cur it + k) src.w.bytes src.idx, by simp only [stepInstr, ha],
        ⟨h.gp, h.vec, ⟨?_, ?_, ?_⟩, ?_⟩, rfl⟩
      · intro r p hr
        show (if r = Region.out i ∧ _ then _ else s.mem r p) = _
        rw [if_neg (fun hh => hr i hh.1)]
        exact h.mem.1 r p hr
      · intro i' p hd
        show (if Region.out i' = Region.out i ∧ c.cur it + k ≤ p ∧ p < c.cur it + k + src.w.bytes then _ else _) = _
        by_cases hin : Region.out i' = Region.out i ∧ c.cur it + k ≤ p ∧ p < c.cur it + k + src.w.bytes
        · rw [if_pos hin]
          obtain ⟨hri, hlo, hhi⟩ := hin
          cases hri
          rw [hval _ (by omega)]
          congr 1
          omega
        · rw [if_neg hin]
          apply h.mem.2.1
          rcases hd with hd | ⟨o, ho, h1, h2⟩
          · exact Or.inl hd
          · rcases List.mem_cons.mp ho with heq3 | ho'
            · exfalso
              simp only [Prod.mk.injEq] at heq3
              obtain ⟨rfl, rfl⟩ := heq3
              exact hin ⟨rfl, h1, by omega⟩
            · exact Or.inr ⟨o, ho', h1, h2⟩
      · intro i' p hd
        have hin : ¬ (Region.out i' = Region.out i ∧ c.cur it + k ≤ p ∧ p < c.cur it + k + src.w.bytes) := by
          intro ⟨hri, hlo, hhi⟩
          cases hri
          exact hd (Or.inr ⟨k, by simp, hlo, by omega⟩)
        show (if Region.out i' = Region.out i ∧ c.cur it + k ≤ p ∧ p < c.cur it + k + src.w.bytes then _ else _) = _
        rw [if_neg hin]
        apply h.mem.2.2
        intro hd'
        apply hd
        rcases hd' with hd' | ⟨o, ho, h1, h2⟩
        · exact Or.inl hd'
        · exact Or.inr ⟨o, by simp [ho], h1, h2⟩
      · intro i' o ho
        rcases List.mem_cons.mp ho with heq3 | ho'
        · simp only [Prod.mk.injEq] at heq3
          obtain ⟨rfl, rfl⟩ := heq3
          exact ⟨hi, by omega⟩
        · exact h.stores_ok i' o ho'
    · exact absurd hs (by simp)
  · exact absurd hs (by simp)

/-- instructions the straight-line symbolic execution accepts are never `RET` or a jump -/
def isPlain : Instr → Bool
  | .ret | .jz _ | .jnz _ | .ja _ | .jmp _ => false
  | _ => true

theorem symStep_plain {cfg : Cfg} {loop : Bool} {i : Instr} (hs : symStep cfg loop i σ = some σ') :
    isPlain i = true := by
  cases i <;> first | rfl | simp [symStep] at hs

/-- **simulation lemma**: every instruction the symbolic execution accepts executes without a fault
on every concrete state that is an instance of the symbolic state, and the result is an instance
of the symbolic result (inside the loop: for an iteration `it < cnt`) -/
theorem symStep_sound (hc : Contract c) {loop : Bool} (hl : loop = true → it < c.cnt) (h : Sim c it σ s)
    {i : Instr} (hs : symStep c.cfg loop i σ = some σ') : StepOK c it i σ' s := by
  cases i with
  | movqFrame a d => exact step_movqFrame hc h hs
  | movqLoad m d => exact step_movqLoad hc h hs
  | movqImm imm d => exact step_movqImm h hs
  | movqToX src x => exact step_movqToX h hs
  | addqImm imm d => exact step_addqImm h hs
  | addqReg src d => exact step_addqReg h hs
  | shrqImm imm d => exact step_shrqImm h hs
  | vload m d => exact step_vload hc h hl hs
  | vstore src m => exact step_vstore hc h hl hs
  | vpshufb idx tab d => exact step_vpshufb hc h hs
  | vxor a b d => exact step_vxor h hs
  | vpand a b d => exact step_vpand h hs
  | vpsrlq imm src d => exact step_vpsrlq hc h hs
  | vpbroadcastb src d => exact step_vpbroadcastb h hs
  | vbcast8 m d => exact step_vbcast8 hc h hs
  | affine imm mt src d => exact step_affine h hs
  | affineBcst imm m src d => exact step_affineBcst hc h hs
  | testq a b => simp [symStep] at hs
  | decq r => simp [symStep] at hs
  | jz l => simp [symStep] at hs
  | jnz l => simp [symStep] at hs
  | label l => simp [symStep] at hs
  | ret => simp [symStep] at hs
  | vzeroupper => simp [symStep] at hs
  | _ => simp [symStep] at hs

end RSV.Asm
