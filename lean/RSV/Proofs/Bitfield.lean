import RSV.Model.BitfieldImpl
import RSV.Model.Bitfield
/-!
# Proofs about the error bit fields (core Lean only): `prepare`/`isNeeded`/`cacheID` of
`RSV.Model.BitfieldImpl` refine `RSV.Model.Bitfield.needed`/`cacheKey` (statements: `RSV/Props/C05bitfield.lean`)
-/
namespace RSV.Proofs.Bitfield
open RSV.Model.BitfieldImpl
open RSV.Model.Bitfield (needed cacheKey keyBit)

/-! ## 1. OR-linear word functions are determined by their values on single-bit words -/

structure OrLin (f : Nat → Nat) : Prop where
  zero : f 0 = 0
  or : ∀ a b, f (a ||| b) = f a ||| f b

theorem OrLin.testBit {f : Nat → Nat} (h : OrLin f) (k : Nat) : ∀ (w : Nat), w < 2^k → ∀ b,
    ((f w).testBit b = true ↔ ∃ i, w.testBit i = true ∧ (f (2^i)).testBit b = true) := by
  induction k with
  | zero =>
    intro w hw b
    have : w = 0 := by simpa using hw
    subst this
    simp [h.zero]
  | succ k ih =>
    intro w hw b
    have hhi : ∀ i, k < i → w.testBit i = false := fun i hi =>
      Nat.testBit_lt_two_pow (Nat.lt_of_lt_of_le hw (Nat.pow_le_pow_right (by decide) hi))
    have hsplit : w = (w % 2^k) ||| (if w.testBit k then 2^k else 0) := by
      apply Nat.eq_of_testBit_eq; intro i
      rw [Nat.testBit_or, Nat.testBit_mod_two_pow]
      by_cases hik : i < k
      · cases hk : w.testBit k <;> simp [hik, Nat.ne_of_gt hik]
      · by_cases hik2 : i = k
        · subst hik2; cases hk : w.testBit i <;> simp
        · have hki : k < i := by omega
          have hne : ¬ k = i := by omega
          cases hk : w.testBit k <;> simp [hik, hhi i hki, hne]
    have hlo := ih (w % 2^k) (Nat.mod_lt _ (Nat.two_pow_pos k)) b
    have hf : (f w).testBit b = ((f (w % 2^k)).testBit b || (f (if w.testBit k then 2^k else 0)).testBit b) := by
      rw [← Nat.testBit_or, ← h.or, ← hsplit]
    rw [hf, Bool.or_eq_true, hlo]
    constructor
    · rintro (⟨i, hi, hb⟩ | hb)
      · rw [Nat.testBit_mod_two_pow] at hi
        simp only [Bool.and_eq_true, decide_eq_true_eq] at hi
        exact ⟨i, hi.2, hb⟩
      · cases hk : w.testBit k
        · simp [hk, h.zero] at hb
        · simp only [hk, if_true] at hb
          exact ⟨k, hk, hb⟩
    · rintro ⟨i, hi, hb⟩
      by_cases hik : i < k
      · left; exact ⟨i, by rw [Nat.testBit_mod_two_pow]; simp [hik, hi], hb⟩
      · have : i = k := by
          by_cases hik2 : i = k
          · exact hik2
          · have := hhi i (by omega); rw [this] at hi; cases hi
        subst this
        right; simp only [hi, if_true]; exact hb

/-! ## 2. the word functions of `prepare` are OR-linear -/

theorem step_orLin (j : Nat) : OrLin (step j) where
  zero := by simp [step, shl64]
  or a b := by
    simp only [step, shl64, Nat.and_or_distrib_right, Nat.shiftRight_or_distrib, Nat.shiftLeft_or_distrib]
    ac_rfl

theorem fold32_orLin : OrLin fold32 where
  zero := by simp [fold32, shl64]
  or a b := by
    simp only [fold32, shl64, Nat.and_or_distrib_right, Nat.shiftRight_or_distrib, Nat.shiftLeft_or_distrib]
    ac_rfl

theorem fold32seq_orLin : OrLin fold32seq where
  zero := by simp [fold32seq, shl64]
  or a b := by
    simp only [fold32seq, shl64, Nat.and_or_distrib_right, Nat.shiftRight_or_distrib, Nat.shiftLeft_or_distrib]
    ac_rfl

theorem OrLin.comp {f g : Nat → Nat} (hf : OrLin f) (hg : OrLin g) : OrLin (fun w => f (g w)) where
  zero := by simp [hg.zero, hf.zero]
  or a b := by simp [hg.or, hf.or]

/-- `chain j w`: the word after mip iterations `0 … j-1` -/
def chain : Nat → Nat → Nat
  | 0, w => w
  | j+1, w => step j (chain j w)

theorem chain_orLin : ∀ j, OrLin (chain j)
  | 0 => ⟨rfl, fun _ _ => rfl⟩
  | j+1 => (step_orLin j).comp (chain_orLin j)

theorem OrLin.testBit' {f : Nat → Nat} (h : OrLin f) (w b : Nat) :
    ((f w).testBit b = true ↔ ∃ i, w.testBit i = true ∧ (f (2^i)).testBit b = true) :=
  h.testBit w w Nat.lt_two_pow_self b

/-! ## 3. rows -/

theorem rd_tab {n i : Nat} (f : Nat → Nat) (h : i < n) : rd (tab n f) i = f i := by
  simp [rd, tab, List.getElem?_range h]

/-- level 0 exists and has `n` words -/
def Shape (n : Nat) (a : Array (Array Nat)) : Prop := ∃ r, a[0]? = some r ∧ r.size = n

theorem shape_or2 {n : Nat} {a : Array (Array Nat)} (h : Shape n a) (i v : Nat) : Shape n (or2 a 0 i v) := by
  obtain ⟨r, hr, hn⟩ := h
  exact ⟨r.modify i fun w => w ||| v, by simp [or2, Array.getElem?_modify, hr], by simpa using hn⟩

theorem rd2_or2 {n : Nat} {a : Array (Array Nat)} (h : Shape n a) {i : Nat} (hi : i < n) (v i' : Nat) :
    rd2 (or2 a 0 i v) 0 i' = if i = i' then rd2 a 0 i' ||| v else rd2 a 0 i' := by
  obtain ⟨r, hr, hn⟩ := h
  simp only [rd2, rd, or2, Array.getD_eq_getD_getElem?, Array.getElem?_modify, hr, if_true,
    Option.map_some, Option.getD_some]
  split
  · next h => subst h; have : r[i]? = some r[i] := by simp [hn, hi]
              simp [this]
  · rfl

theorem shl64_one {k : Nat} (hk : k < 64) : shl64 1 k = 2^k := by
  unfold shl64 M64
  rw [Nat.one_shiftLeft]
  exact Nat.and_two_pow_sub_one_of_lt_two_pow (n := 64) (Nat.pow_lt_pow_right (by decide) hk)

theorem and63 (x : Nat) : x &&& 63 = x % 64 := Nat.and_two_pow_sub_one_eq_mod x 6
theorem and3 (x : Nat) : x &&& 3 = x % 4 := Nat.and_two_pow_sub_one_eq_mod x 2

/-- the level-0 words after a run of `set`s with word index `idx` -/
def setAll (idx : Nat → Nat) (a : Array (Array Nat)) (erased : List Nat) : Array (Array Nat) :=
  erased.foldl (fun a x => or2 a 0 (idx x) (shl64 1 (x &&& 63))) a

theorem setAll_spec (idx : Nat → Nat) (n : Nat) : ∀ (erased : List Nat) (a : Array (Array Nat)),
    Shape n a → (∀ x ∈ erased, idx x < n) → ∀ i c,
    ((rd2 (setAll idx a erased) 0 i).testBit c = true ↔
      ((rd2 a 0 i).testBit c = true ∨ ∃ x ∈ erased, idx x = i ∧ x % 64 = c)) := by
  intro erased
  induction erased with
  | nil => intro a _ _ i c; simp [setAll]
  | cons x xs ih =>
    intro a ha hx i c
    have hx0 : idx x < n := hx x (by simp)
    have := ih (or2 a 0 (idx x) (shl64 1 (x &&& 63))) (shape_or2 ha _ _)
      (fun y hy => hx y (by simp [hy])) i c
    simp only [setAll, List.foldl_cons] at this ⊢
    rw [this, rd2_or2 ha hx0, and63, shl64_one (Nat.mod_lt _ (by decide))]
    by_cases hi : idx x = i
    · simp only [hi, if_true, Nat.testBit_or, Nat.testBit_two_pow, Bool.or_eq_true, decide_eq_true_eq,
        List.mem_cons, exists_eq_or_imp, true_and]
      constructor
      · rintro ((h | h) | h)
        · exact .inl h
        · exact .inr (.inl h)
        · exact .inr (.inr h)
      · rintro (h | h | h)
        · exact .inl (.inl h)
        · exact .inl (.inr h)
        · exact .inr h
    · simp [hi]


/-! ## 3b. single-bit values (64 × 64 cases per level, checked by the kernel) and the word lemmas -/

theorem chain_basis : ∀ j < 6, ∀ i < 64, ∀ b < 64,
    (chain j (2^i)).testBit b = (i >>> j == b >>> j) := by decide +kernel

theorem full_basis : ∀ i < 64, ∀ b < 64,
    (fold32 (chain 5 (2^i))).testBit b = true ∧ (fold32seq (chain 5 (2^i))).testBit b = true := by
  decide +kernel

/-- a word whose set bits are all below 64 -/
def W64 (w : Nat) : Prop := ∀ c, w.testBit c = true → c < 64

theorem chain_spec {j : Nat} (hj : j < 6) {w : Nat} (hw : W64 w) {b : Nat} (hb : b < 64) :
    ((chain j w).testBit b = true ↔ ∃ c, w.testBit c = true ∧ c >>> j = b >>> j) := by
  rw [(chain_orLin j).testBit']
  constructor
  · rintro ⟨i, hi, h⟩
    rw [chain_basis j hj i (hw i hi) b hb] at h
    exact ⟨i, hi, by simpa using h⟩
  · rintro ⟨i, hi, h⟩
    refine ⟨i, hi, ?_⟩
    rw [chain_basis j hj i (hw i hi) b hb]
    simpa using h

theorem full_spec {w : Nat} (hw : W64 w) {b : Nat} (hb : b < 64) :
    ((fold32 (chain 5 w)).testBit b = true ↔ ∃ c, w.testBit c = true) := by
  rw [(fold32_orLin.comp (chain_orLin 5)).testBit']
  constructor
  · rintro ⟨i, hi, _⟩; exact ⟨i, hi⟩
  · rintro ⟨i, hi⟩; exact ⟨i, hi, (full_basis i (hw i hi) b hb).1⟩

theorem fullseq_spec {w : Nat} (hw : W64 w) {b : Nat} (hb : b < 64) :
    ((fold32seq (chain 5 w)).testBit b = true ↔ ∃ c, w.testBit c = true) := by
  rw [(fold32seq_orLin.comp (chain_orLin 5)).testBit']
  constructor
  · rintro ⟨i, hi, _⟩; exact ⟨i, hi⟩
  · rintro ⟨i, hi⟩; exact ⟨i, hi, (full_basis i (hw i hi) b hb).2⟩

/-- the Go test `0 != (w & (uint64(1) << k))` -/
theorem and_bit_ne_zero (w : Nat) {k : Nat} (hk : k < 64) : ((w &&& shl64 1 k) != 0) = w.testBit k := by
  rw [shl64_one hk]
  cases h : w.testBit k
  · have : w &&& 2^k = 0 := by
      apply Nat.eq_of_testBit_eq; intro i
      rw [Nat.testBit_and, Nat.testBit_two_pow, Nat.zero_testBit]
      by_cases hki : k = i
      · subst hki; simp [h]
      · simp [hki]
    simp [this]
  · have : w &&& 2^k ≠ 0 := by
      intro h0
      have := congrArg (fun n => Nat.testBit n k) h0
      simp [h] at this
    simpa using this

/-! ## 4. the gather loop -/

theorem shl64_bit (k : Nat) : shl64 (2^k % 2^64) 1 = 2^(k+1) % 2^64 := by
  have e : ∀ x, x &&& M64 = x % 2^64 := fun x => Nat.and_two_pow_sub_one_eq_mod x 64
  unfold shl64
  rw [e, Nat.shiftLeft_eq]
  have : 2^(k+1) = 2^k * 2 := Nat.pow_succ _ _
  rw [this]
  generalize 2^k = t
  omega

theorem gatherLoop_spec : ∀ (src : List Nat) (acc k : Nat), k + src.length ≤ 64 → ∀ b,
    ((gatherLoop src (acc, 2^k % 2^64)).1.testBit b = true ↔
      (acc.testBit b = true ∨ ∃ m w, src[m]? = some w ∧ b = k + m ∧ (fold32 w).testBit b = true)) := by
  intro src
  induction src with
  | nil => intro acc k _ b; simp [gatherLoop]
  | cons w ws ih =>
    intro acc k hk b
    have hk64 : k < 64 := by simp at hk; omega
    have h2 : 2^k % 2^64 = 2^k := Nat.mod_eq_of_lt (Nat.pow_lt_pow_right (by decide) hk64)
    have := ih (acc ||| (fold32 w &&& 2^k)) (k+1) (by simp at hk ⊢; omega) b
    simp only [gatherLoop, List.foldl_cons] at this ⊢
    rw [shl64_bit, h2, this]
    simp only [Nat.testBit_or, Nat.testBit_and, Nat.testBit_two_pow, Bool.or_eq_true, Bool.and_eq_true,
      decide_eq_true_eq]
    constructor
    · rintro ((h | ⟨h, rfl⟩) | ⟨m, w', hm, rfl, h⟩)
      · exact .inl h
      · exact .inr ⟨0, w, by simp, by simp, h⟩
      · exact .inr ⟨m+1, w', by simpa using hm, by omega, h⟩
    · rintro (h | ⟨m, w', hm, rfl, h⟩)
      · exact .inl (.inl h)
      · cases m with
        | zero => simp at hm; subst hm; exact .inl (.inr ⟨h, by simp⟩)
        | succ m => exact .inr ⟨m, w', by simpa using hm, by omega, h⟩

theorem gather_spec {n : Nat} (hn : n ≤ 64) (g : Nat → Nat) (b : Nat) :
    ((gather ((List.range n).map g)).testBit b = true ↔ (b < n ∧ (fold32 (g b)).testBit b = true)) := by
  have := gatherLoop_spec ((List.range n).map g) 0 0 (by simpa using hn) b
  simp only [Nat.pow_zero, Nat.zero_add] at this
  rw [show (1 % 2^64) = 1 from rfl] at this
  unfold gather
  rw [this]
  simp only [Nat.zero_testBit, Bool.false_eq_true, false_or, List.getElem?_map]
  constructor
  · rintro ⟨m, w, hm, rfl, h⟩
    by_cases hb : b < n
    · rw [List.getElem?_range hb] at hm; simp at hm; subst hm; exact ⟨hb, h⟩
    · rw [List.getElem?_eq_none (by simpa using hb)] at hm; simp at hm
  · rintro ⟨hb, h⟩
    exact ⟨b, g b, by rw [List.getElem?_range hb]; rfl, rfl, h⟩

/-! ## 5. GF(2^8) -/

def idx8 (x : Nat) : Nat := (x / 64) &&& 3

theorem bf8_foldl_words (erased : List Nat) : ∀ (e : BF8),
    (erased.foldl BF8.set e).words = setAll idx8 e.words erased := by
  induction erased with
  | nil => intro e; rfl
  | cons x xs ih => intro e; simp only [List.foldl_cons, setAll]; rw [ih]; rfl

theorem shape_empty8 : Shape 4 BF8.empty.words := ⟨Array.replicate 4 0, by simp [BF8.empty], by simp⟩

theorem rd2_empty8 (i : Nat) : rd2 BF8.empty.words 0 i = 0 := by
  simp only [rd2, rd, BF8.empty, Array.getD_eq_getD_getElem?, Array.getElem?_replicate]
  simp only [show (0:Nat) < 7 from by decide, if_true, Option.getD_some]
  rw [Array.getElem?_replicate]; split <;> rfl

theorem bf8_row0 (erased : List Nat) (i c : Nat) :
    ((rd2 (BF8.ofList erased).words 0 i).testBit c = true ↔
      ∃ x ∈ erased, (x / 64) % 4 = i ∧ x % 64 = c) := by
  unfold BF8.ofList
  rw [bf8_foldl_words, setAll_spec idx8 4 erased _ shape_empty8
    (fun x _ => by simp only [idx8, and3]; omega), rd2_empty8]
  simp [idx8, and3]

theorem bf8_row0_W64 (erased : List Nat) (i : Nat) : W64 (rd2 (BF8.ofList erased).words 0 i) := by
  intro c hc
  obtain ⟨x, _, _, rfl⟩ := (bf8_row0 erased i c).1 hc
  omega

theorem bf8_prep_lo (e : BF8) {i : Nat} (hi : i < 4) {l : Nat} (hl : l < 5) :
    rd2 e.prepare.words l i = chain (l + 1) (rd2 e.words 0 i) := by
  have : l = 0 ∨ l = 1 ∨ l = 2 ∨ l = 3 ∨ l = 4 := by omega
  rcases this with rfl | rfl | rfl | rfl | rfl <;>
    simp [BF8.prepare, rd2, rd_tab, hi, chain]

theorem bf8_prep_5 (e : BF8) {i : Nat} (hi : i < 4) :
    rd2 e.prepare.words 5 i = fold32seq (chain 5 (rd2 e.words 0 i)) := by
  simp [BF8.prepare, rd2, rd_tab, hi, chain]

theorem bf8_prep_6 (e : BF8) {i : Nat} (hi : i < 4) :
    rd2 e.prepare.words 6 i = fold32seq (chain 5 (rd2 e.words 0 (i - i % 2))) |||
      fold32seq (chain 5 (rd2 e.words 0 (i - i % 2 + 1))) := by
  have h1 : i - i % 2 < 4 := by omega
  have h2 : i - i % 2 + 1 < 4 := by omega
  simp [BF8.prepare, rd2, rd_tab, hi, h1, h2, chain]

theorem shr_lo {m : Nat} (hm : m ≤ 6) (x y : Nat) :
    (x >>> m = y >>> m ↔ (x / 64 = y / 64 ∧ (x % 64) >>> m = (y % 64) >>> m)) := by
  have : m = 0 ∨ m = 1 ∨ m = 2 ∨ m = 3 ∨ m = 4 ∨ m = 5 ∨ m = 6 := by omega
  rcases this with rfl | rfl | rfl | rfl | rfl | rfl | rfl <;>
    (simp only [Nat.shiftRight_eq_div_pow]; omega)

theorem bf8_prepare (erased : List Nat) (hE : ∀ e ∈ erased, e < 256) (mip bit : Nat) (hb : bit < 256) :
    ((BF8.ofList erased).prepare).isNeeded mip bit = needed 8 erased mip bit := by
  by_cases h8 : mip ≥ 8
  · simp [BF8.isNeeded, needed, h8]
  by_cases h0 : mip = 0
  · simp [BF8.isNeeded, needed, h0]
  have hi : bit / 64 < 4 := by omega
  have hk : bit % 64 < 64 := Nat.mod_lt _ (by decide)
  have hc : ¬ (mip ≥ 8 || mip ≤ 0) = true := by simp; omega
  unfold BF8.isNeeded needed
  rw [if_neg hc, if_neg h8, if_neg h0, and63, and_bit_ne_zero _ hk, Bool.eq_iff_iff, List.any_eq_true]
  simp only [beq_iff_eq]
  have hW := bf8_row0_W64 erased
  by_cases h5 : mip ≤ 5
  · obtain ⟨l, rfl⟩ : ∃ l, mip = l + 1 := ⟨mip - 1, by omega⟩
    rw [Nat.add_sub_cancel, bf8_prep_lo _ hi (by omega), chain_spec (by omega) (hW _) hk]
    constructor
    · rintro ⟨c, hc, hs⟩
      obtain ⟨x, hx, hxi, rfl⟩ := (bf8_row0 erased _ c).1 hc
      have := hE x hx
      exact ⟨x, hx, (shr_lo (by omega) x bit).2 ⟨by omega, hs⟩⟩
    · rintro ⟨x, hx, hs⟩
      have := hE x hx
      obtain ⟨h1, h2⟩ := (shr_lo (by omega) x bit).1 hs
      exact ⟨x % 64, (bf8_row0 erased _ _).2 ⟨x, hx, by omega, rfl⟩, h2⟩
  by_cases h6 : mip = 6
  · subst h6
    rw [show 6 - 1 = 5 from rfl, bf8_prep_5 _ hi, fullseq_spec (hW _) hk]
    simp only [Nat.shiftRight_eq_div_pow]
    constructor
    · rintro ⟨c, hc⟩
      obtain ⟨x, hx, hxi, rfl⟩ := (bf8_row0 erased _ c).1 hc
      have := hE x hx
      exact ⟨x, hx, by omega⟩
    · rintro ⟨x, hx, hs⟩
      have := hE x hx
      exact ⟨x % 64, (bf8_row0 erased _ _).2 ⟨x, hx, by omega, rfl⟩⟩
  · have h7 : mip = 7 := by omega
    subst h7
    rw [show 7 - 1 = 6 from rfl, bf8_prep_6 _ hi, Nat.testBit_or, Bool.or_eq_true,
      fullseq_spec (hW _) hk, fullseq_spec (hW _) hk]
    simp only [Nat.shiftRight_eq_div_pow]
    constructor
    · rintro (⟨c, hc⟩ | ⟨c, hc⟩) <;>
      · obtain ⟨x, hx, hxi, rfl⟩ := (bf8_row0 erased _ c).1 hc
        have := hE x hx
        exact ⟨x, hx, by omega⟩
    · rintro ⟨x, hx, hs⟩
      have := hE x hx
      by_cases hp : x / 64 = bit / 64 - bit / 64 % 2
      · exact .inl ⟨x % 64, (bf8_row0 erased _ _).2 ⟨x, hx, by omega, rfl⟩⟩
      · exact .inr ⟨x % 64, (bf8_row0 erased _ _).2 ⟨x, hx, by omega, rfl⟩⟩

/-! ## 6. the GF(2^8) cache key -/

theorem foldBits_testBit (p : Nat → Bool) (n j : Nat) :
    ((List.range n).foldl (fun acc j => if p j then acc ||| (1 <<< j) else acc) 0).testBit j =
      (decide (j < n) && p j) := by
  induction n with
  | zero => simp
  | succ n ih =>
    rw [List.range_succ, List.foldl_append, List.foldl_cons, List.foldl_nil]
    generalize List.foldl _ 0 (List.range n) = A at ih ⊢
    by_cases hjn : j = n
    · subst hjn
      cases hp : p j <;> simp [ih, Nat.one_shiftLeft]
    · have h1 : decide (j < n + 1) = decide (j < n) := by
        rw [decide_eq_decide]; omega
      have hne : ¬ n = j := fun h => hjn h.symm
      cases hp : p n <;> simp [ih, h1, Nat.one_shiftLeft, hne]

theorem cacheID_eq (e : BF8) : e.cacheID =
    (List.range 32).map fun k => (rd2 e.words 0 (k / 8) >>> (8 * (k % 8))) &&& 0xFF := rfl

theorem bf8_row0_contains (erased : List Nat) (hE : ∀ e ∈ erased, e < 256) {i c : Nat} (hi : i < 4) (hc : c < 64) :
    (rd2 (BF8.ofList erased).words 0 i).testBit c = erased.contains (64 * i + c) := by
  rw [Bool.eq_iff_iff, bf8_row0, List.contains_iff_mem]
  constructor
  · rintro ⟨x, hx, h1, h2⟩
    have := hE x hx
    have : 64 * i + c = x := by omega
    rw [this]; exact hx
  · intro h
    exact ⟨_, h, by omega, by omega⟩

theorem bf8_cacheID (erased : List Nat) (hE : ∀ e ∈ erased, e < 256) :
    (BF8.ofList erased).cacheID = cacheKey erased := by
  rw [cacheID_eq]
  unfold cacheKey
  apply List.map_congr_left
  intro k hk
  have hk : k < 32 := by simpa using hk
  apply Nat.eq_of_testBit_eq
  intro j
  rw [foldBits_testBit (fun j => erased.contains (8 * k + j)), Nat.testBit_and, Nat.testBit_shiftRight,
    show (0xFF : Nat) = 2^8 - 1 from rfl, Nat.testBit_two_pow_sub_one]
  by_cases hj : j < 8
  · rw [bf8_row0_contains erased hE (by omega) (by omega)]
    have : 64 * (k / 8) + (8 * (k % 8) + j) = 8 * k + j := by omega
    rw [this]; simp [hj]
  · simp [hj]

theorem keyBit_cacheKey (erased : List Nat) {i : Nat} (hi : i < 256) :
    keyBit (cacheKey erased) i = erased.contains i := by
  unfold keyBit cacheKey
  have h32 : i / 8 < 32 := by omega
  rw [List.getD_eq_getElem?_getD, List.getElem?_map, List.getElem?_range h32]
  simp only [Option.map_some, Option.getD_some]
  rw [foldBits_testBit (fun j => erased.contains (8 * (i / 8) + j))]
  have : 8 * (i / 8) + i % 8 = i := by omega
  simp [this, Nat.mod_lt]

theorem cacheKey_inj (E E' : List Nat) (h : cacheKey E = cacheKey E') :
    ∀ i < 256, (i ∈ E ↔ i ∈ E') := by
  intro i hi
  have := keyBit_cacheKey E hi
  rw [h, keyBit_cacheKey E' hi] at this
  rw [← List.contains_iff_mem, ← List.contains_iff_mem, this]

/-! ## 7. GF(2^16) -/

def idx16 (x : Nat) : Nat := x / 64

theorem bf16_foldl_words (erased : List Nat) : ∀ (e : BF16),
    (erased.foldl BF16.set e).words = setAll idx16 e.words erased := by
  induction erased with
  | nil => intro e; rfl
  | cons x xs ih => intro e; simp only [List.foldl_cons, setAll]; rw [ih]; rfl

theorem shape_empty16 : Shape 1024 BF16.empty.words :=
  ⟨Array.replicate 1024 0, by simp [BF16.empty], by simp⟩

theorem rd2_empty16 (i : Nat) : rd2 BF16.empty.words 0 i = 0 := by
  simp only [rd2, rd, BF16.empty, Array.getD_eq_getD_getElem?, Array.getElem?_replicate]
  simp only [show (0:Nat) < 5 from by decide, if_true, Option.getD_some]
  rw [Array.getElem?_replicate]; split <;> rfl

theorem bf16_row0 (erased : List Nat) (hE : ∀ e ∈ erased, e < 65536) (i c : Nat) :
    ((rd2 (BF16.ofList erased).words 0 i).testBit c = true ↔
      ∃ x ∈ erased, x / 64 = i ∧ x % 64 = c) := by
  unfold BF16.ofList
  rw [bf16_foldl_words, setAll_spec idx16 1024 erased _ shape_empty16
    (fun x hx => by have := hE x hx; simp only [idx16]; omega), rd2_empty16]
  simp [idx16]

theorem bf16_row0_W64 (erased : List Nat) (hE : ∀ e ∈ erased, e < 65536) (i : Nat) :
    W64 (rd2 (BF16.ofList erased).words 0 i) := by
  intro c hc
  obtain ⟨x, _, _, rfl⟩ := (bf16_row0 erased hE i c).1 hc
  omega

theorem bf16_prep_lo (e : BF16) {i : Nat} (hi : i < 1024) {l : Nat} (hl : l < 5) :
    rd2 e.prepare.words l i = chain (l + 1) (rd2 e.words 0 i) := by
  have : l = 0 ∨ l = 1 ∨ l = 2 ∨ l = 3 ∨ l = 4 := by omega
  rcases this with rfl | rfl | rfl | rfl | rfl <;>
    simp [BF16.prepare, rd2, rd_tab, hi, chain]

theorem bf16_prep_big (e : BF16) {i : Nat} (hi : i < 16) {l : Nat} (hl : l < 6) :
    rd2 e.prepare.bigWords l i = chain l (rd2 e.prepare.bigWords 0 i) := by
  have : l = 0 ∨ l = 1 ∨ l = 2 ∨ l = 3 ∨ l = 4 ∨ l = 5 := by omega
  rcases this with rfl | rfl | rfl | rfl | rfl | rfl <;>
    simp [BF16.prepare, rd2, rd_tab, hi, chain]

theorem bf16_prep_biggest (e : BF16) {l : Nat} (hl : l < 4) :
    rd e.prepare.biggestWords l = chain l (rd e.prepare.biggestWords 0) := by
  have : l = 0 ∨ l = 1 ∨ l = 2 ∨ l = 3 := by omega
  rcases this with rfl | rfl | rfl | rfl <;>
    simp [BF16.prepare, rd, chain]

theorem bf16_big0 (e : BF16) {i : Nat} (hi : i < 16) (b : Nat) :
    ((rd2 e.prepare.bigWords 0 i).testBit b = true ↔
      (b < 64 ∧ (fold32 (chain 5 (rd2 e.words 0 (i * 64 + b)))).testBit b = true)) := by
  have h0 : rd2 e.prepare.bigWords 0 i = gather ((List.range 64).map fun k =>
      rd2 e.prepare.words 4 (i * 64 + k)) := by
    simp [BF16.prepare, rd2, rd_tab, hi]
  rw [h0, gather_spec (by decide)]
  constructor
  · rintro ⟨hb, h⟩
    rw [bf16_prep_lo e (by omega) (by decide)] at h
    exact ⟨hb, h⟩
  · rintro ⟨hb, h⟩
    rw [bf16_prep_lo e (by omega) (by decide)]
    exact ⟨hb, h⟩

theorem bf16_biggest0 (e : BF16) (b : Nat) :
    ((rd e.prepare.biggestWords 0).testBit b = true ↔
      (b < 16 ∧ (fold32 (chain 5 (rd2 e.prepare.bigWords 0 b))).testBit b = true)) := by
  have h0 : rd e.prepare.biggestWords 0 = gather ((List.range 16).map fun k =>
      rd2 e.prepare.bigWords 5 k) := by
    simp [BF16.prepare, rd2, rd]
  rw [h0, gather_spec (by decide)]
  constructor
  · rintro ⟨hb, h⟩
    rw [bf16_prep_big e hb (by decide)] at h
    exact ⟨hb, h⟩
  · rintro ⟨hb, h⟩
    rw [bf16_prep_big e hb (by decide)]
    exact ⟨hb, h⟩

section
variable (erased : List Nat) (hE : ∀ e ∈ erased, e < 65536)
include hE

/-- `BigWords[0][i]`: bit `b` says whether word `64 i + b` of `Words[0]` holds an erasure -/
theorem bf16_B0 {i : Nat} (hi : i < 16) (b : Nat) :
    ((rd2 (BF16.ofList erased).prepare.bigWords 0 i).testBit b = true ↔
      (b < 64 ∧ ∃ x ∈ erased, x / 64 = i * 64 + b)) := by
  rw [bf16_big0 _ hi]
  constructor
  · rintro ⟨hb, h⟩
    obtain ⟨c, hc⟩ := (full_spec (bf16_row0_W64 erased hE _) hb).1 h
    obtain ⟨x, hx, h1, _⟩ := (bf16_row0 erased hE _ c).1 hc
    exact ⟨hb, x, hx, h1⟩
  · rintro ⟨hb, x, hx, h1⟩
    exact ⟨hb, (full_spec (bf16_row0_W64 erased hE _) hb).2
      ⟨x % 64, (bf16_row0 erased hE _ _).2 ⟨x, hx, h1, rfl⟩⟩⟩

theorem bf16_B0_W64 {i : Nat} (hi : i < 16) : W64 (rd2 (BF16.ofList erased).prepare.bigWords 0 i) :=
  fun c hc => ((bf16_B0 erased hE hi c).1 hc).1

/-- `BiggestWords[0]`: bit `b` says whether the 4096-block `b` holds an erasure -/
theorem bf16_G0 (b : Nat) :
    ((rd (BF16.ofList erased).prepare.biggestWords 0).testBit b = true ↔
      (b < 16 ∧ ∃ x ∈ erased, x / 4096 = b)) := by
  rw [bf16_biggest0]
  constructor
  · rintro ⟨hb, h⟩
    obtain ⟨c, hc⟩ := (full_spec (bf16_B0_W64 erased hE hb) (by omega)).1 h
    obtain ⟨_, x, hx, h1⟩ := (bf16_B0 erased hE hb c).1 hc
    exact ⟨hb, x, hx, by omega⟩
  · rintro ⟨hb, x, hx, h1⟩
    exact ⟨hb, (full_spec (bf16_B0_W64 erased hE hb) (by omega)).2
      ⟨x / 64 % 64, (bf16_B0 erased hE hb _).2 ⟨by omega, x, hx, by omega⟩⟩⟩

theorem bf16_G0_W64 : W64 (rd (BF16.ofList erased).prepare.biggestWords 0) :=
  fun c hc => by have := ((bf16_G0 erased hE c).1 hc).1; omega

theorem bf16_prepare (mip bit : Nat) (hm : 1 ≤ mip) (hb : bit < 65536) :
    ((BF16.ofList erased).prepare).isNeeded mip bit = needed 16 erased mip bit := by
  by_cases h16 : mip ≥ 16
  · simp [BF16.isNeeded, needed, h16]
  have h0 : ¬ mip = 0 := by omega
  unfold needed
  rw [if_neg h16, if_neg h0, Bool.eq_iff_iff, List.any_eq_true]
  simp only [beq_iff_eq]
  unfold BF16.isNeeded
  rw [if_neg h16]
  by_cases h12 : mip ≥ 12
  · -- BiggestWords
    rw [if_pos h12]
    obtain ⟨l, rfl⟩ : ∃ l, mip = 12 + l := ⟨mip - 12, by omega⟩
    have hk : bit / 4096 < 64 := by omega
    simp only [Nat.add_sub_cancel_left]
    rw [and_bit_ne_zero _ hk, bf16_prep_biggest _ (by omega),
      chain_spec (by omega) (bf16_G0_W64 erased hE) hk]
    simp only [Nat.shiftRight_add, show ∀ x : Nat, x >>> 12 = x / 4096 from
      fun x => Nat.shiftRight_eq_div_pow x 12]
    constructor
    · rintro ⟨c, hc, hs⟩
      obtain ⟨_, x, hx, rfl⟩ := (bf16_G0 erased hE c).1 hc
      exact ⟨x, hx, hs⟩
    · rintro ⟨x, hx, hs⟩
      have := hE x hx
      exact ⟨x / 4096, (bf16_G0 erased hE _).2 ⟨by omega, x, hx, rfl⟩, hs⟩
  rw [if_neg h12]
  by_cases h6 : mip ≥ 6
  · -- BigWords
    rw [if_pos h6]
    obtain ⟨l, rfl⟩ : ∃ l, mip = 6 + l := ⟨mip - 6, by omega⟩
    have hk : bit / 64 % 64 < 64 := Nat.mod_lt _ (by decide)
    have hi : bit / 64 / 64 < 16 := by omega
    simp only [Nat.add_sub_cancel_left]
    rw [and_bit_ne_zero _ hk, bf16_prep_big _ hi (by omega),
      chain_spec (by omega) (bf16_B0_W64 erased hE hi) hk]
    simp only [Nat.shiftRight_add, show ∀ x : Nat, x >>> 6 = x / 64 from
      fun x => Nat.shiftRight_eq_div_pow x 6]
    constructor
    · rintro ⟨c, hc, hs⟩
      obtain ⟨hc64, x, hx, h1⟩ := (bf16_B0 erased hE hi c).1 hc
      refine ⟨x, hx, (shr_lo (by omega) _ _).2 ⟨by omega, ?_⟩⟩
      have : x / 64 % 64 = c := by omega
      rw [this]; exact hs
    · rintro ⟨x, hx, hs⟩
      obtain ⟨h1, h2⟩ := (shr_lo (by omega) _ _).1 hs
      exact ⟨x / 64 % 64, (bf16_B0 erased hE hi _).2 ⟨by omega, x, hx, by omega⟩, h2⟩
  · -- Words
    rw [if_neg h6, if_neg h0]
    obtain ⟨l, rfl⟩ : ∃ l, mip = l + 1 := ⟨mip - 1, by omega⟩
    have hk : bit % 64 < 64 := Nat.mod_lt _ (by decide)
    have hi : bit / 64 < 1024 := by omega
    rw [Nat.add_sub_cancel, and_bit_ne_zero _ hk, bf16_prep_lo _ hi (by omega),
      chain_spec (by omega) (bf16_row0_W64 erased hE _) hk]
    constructor
    · rintro ⟨c, hc, hs⟩
      obtain ⟨x, hx, hxi, rfl⟩ := (bf16_row0 erased hE _ c).1 hc
      exact ⟨x, hx, (shr_lo (by omega) x bit).2 ⟨hxi, hs⟩⟩
    · rintro ⟨x, hx, hs⟩
      obtain ⟨h1, h2⟩ := (shr_lo (by omega) x bit).1 hs
      exact ⟨x % 64, (bf16_row0 erased hE _ _).2 ⟨x, hx, h1, rfl⟩, h2⟩

end

end RSV.Proofs.Bitfield
