import Mathlib.LinearAlgebra.Lagrange
import Mathlib.LinearAlgebra.Matrix.NonsingularInverse
import RSV.Model.Cert
/-!
# Code theory: why any `d` shards suffice

Generic over a field `F`.

* `cw`, `MDS` — codeword of the systematic code `[I; A]`, and "any `d` coordinates determine the
  message".
* `gcauchy_mds` — the central theorem: a generalised Cauchy matrix
  `A r c * (x r - y c) = u r * v c` (with possibly one row at infinity, `A r c = u r * v c`)
  is MDS.  `gcauchy_mds_fin` is the special case where every point is finite.
* `certGC_sound`, `certGC_sound'`, `certNat_sound` — soundness of the executable certificate of
  `RSV.Model.Cert`.
* closed forms in the family: `cauchy_mds`, `ones_mds`, `lagr_mds`, `vandermonde_quotient`
  (`vandermonde · (top square)⁻¹` *is* the Lagrange matrix), `MDS.submatrix`
  (puncturing + shortening).
-/

namespace RSV.CodeTheory
open Polynomial Finset

section Generic
variable {F : Type*} [Field F] {d p : ℕ}

/-- codeword of the systematic code with parity matrix `A : p × d` -/
def cw (A : Fin p → Fin d → F) (t : Fin d → F) : Fin d ⊕ Fin p → F :=
  Sum.elim t (fun r => ∑ c, A r c * t c)

/-- any `d` coordinates determine the message -/
def MDS (A : Fin p → Fin d → F) : Prop :=
  ∀ S : Finset (Fin d ⊕ Fin p), S.card = d → ∀ t : Fin d → F, (∀ i ∈ S, cw A t i = 0) → t = 0

@[simp] theorem cw_inl (A : Fin p → Fin d → F) (t : Fin d → F) (c : Fin d) :
    cw A t (Sum.inl c) = t c := rfl

@[simp] theorem cw_inr (A : Fin p → Fin d → F) (t : Fin d → F) (r : Fin p) :
    cw A t (Sum.inr r) = ∑ c, A r c * t c := rfl

theorem cw_sub (A : Fin p → Fin d → F) (t t' : Fin d → F) (i : Fin d ⊕ Fin p) :
    cw A (t - t') i = cw A t i - cw A t' i := by
  rcases i with c | r
  · simp
  · simp [mul_sub, Finset.sum_sub_distrib]

/-- the "uniqueness" reading of `MDS`: two messages whose codewords agree on `d` coordinates
are equal -/
theorem MDS.unique {A : Fin p → Fin d → F} (h : MDS A) (S : Finset (Fin d ⊕ Fin p))
    (hS : S.card = d) (t t' : Fin d → F) (heq : ∀ i ∈ S, cw A t i = cw A t' i) : t = t' :=
  sub_eq_zero.mp (h S hS (t - t') fun i hi => by rw [cw_sub, heq i hi, sub_self])

/-! ### the auxiliary polynomial -/

/-- `g(z) = Σ_c t_c v_c ∏_{j ≠ c} (z - y_j)` -/
noncomputable def gpoly (y v t : Fin d → F) : F[X] :=
  ∑ c, C (t c * v c) * ∏ j ∈ univ.erase c, (X - C (y j))

theorem gpoly_degree_lt (y v t : Fin d → F) : (gpoly y v t).degree < d := by
  unfold gpoly
  rcases Nat.eq_zero_or_pos d with hd | hd
  · subst hd; simp
  refine lt_of_le_of_lt (degree_sum_le _ _) ?_
  rw [Finset.sup_lt_iff (by exact WithBot.bot_lt_coe d)]
  intro c _
  refine lt_of_le_of_lt (degree_mul_le _ _) ?_
  have h1 : (C (t c * v c)).degree ≤ 0 := degree_C_le
  have h2 : (∏ j ∈ univ.erase c, (X - C (y j))).degree ≤ ((d - 1 : ℕ) : WithBot ℕ) := by
    refine le_trans (degree_prod_le _ _) ?_
    have : ∀ j ∈ univ.erase c, (X - C (y j)).degree ≤ 1 := fun j _ => by rw [degree_X_sub_C]
    refine le_trans (Finset.sum_le_sum this) ?_
    simp
  calc (C (t c * v c)).degree + (∏ j ∈ univ.erase c, (X - C (y j))).degree
      ≤ 0 + ((d - 1 : ℕ) : WithBot ℕ) := add_le_add h1 h2
    _ < d := by rw [zero_add]; exact_mod_cast Nat.sub_lt hd Nat.one_pos

theorem gpoly_eval_y (y v t : Fin d → F) (c : Fin d) :
    (gpoly y v t).eval (y c) = t c * v c * ∏ j ∈ univ.erase c, (y c - y j) := by
  unfold gpoly
  rw [eval_finsetSum, Finset.sum_eq_single c]
  · simp [eval_prod]
  · intro b _ hb
    rw [eval_mul, eval_prod]
    have : ∏ j ∈ univ.erase b, eval (y c) (X - C (y j)) = 0 := by
      apply Finset.prod_eq_zero (i := c)
      · simp [Ne.symm hb]
      · simp
    rw [this, mul_zero]
  · simp

/-- row-wise: a row `a` that satisfies the generalised Cauchy identity at the finite point `xr` -/
theorem gpoly_eval_row (y v t : Fin d → F) (a : Fin d → F) (xr ur : F)
    (hA : ∀ c, a c * (xr - y c) = ur * v c) :
    ur * (gpoly y v t).eval xr = (∏ j, (xr - y j)) * ∑ c, a c * t c := by
  unfold gpoly
  rw [eval_finsetSum, Finset.mul_sum, Finset.mul_sum]
  refine Finset.sum_congr rfl fun c _ => ?_
  rw [eval_mul, eval_C, eval_prod]
  simp only [eval_sub, eval_X, eval_C]
  rw [← Finset.mul_prod_erase univ (fun j => xr - y j) (Finset.mem_univ c)]
  have := hA c
  calc ur * (t c * v c * ∏ j ∈ univ.erase c, (xr - y j))
      = ((ur * v c) * t c) * ∏ j ∈ univ.erase c, (xr - y j) := by ring
    _ = ((a c * (xr - y c)) * t c) * ∏ j ∈ univ.erase c, (xr - y j) := by rw [this]
    _ = ((xr - y c) * ∏ j ∈ univ.erase c, (xr - y j)) * (a c * t c) := by ring

theorem gpoly_eval_x (x : Fin p → F) (y v t : Fin d → F) (A : Fin p → Fin d → F) (u : Fin p → F)
    (hA : ∀ r c, A r c * (x r - y c) = u r * v c) (r : Fin p) :
    u r * (gpoly y v t).eval (x r) = (∏ j, (x r - y j)) * ∑ c, A r c * t c :=
  gpoly_eval_row y v t (A r) (x r) (u r) (hA r)

theorem prod_erase_monic (y : Fin d → F) (c : Fin d) :
    (∏ j ∈ univ.erase c, (X - C (y j))).Monic :=
  monic_prod_of_monic _ _ fun j _ => monic_X_sub_C (y j)

theorem prod_erase_natDegree (y : Fin d → F) (c : Fin d) :
    (∏ j ∈ univ.erase c, (X - C (y j))).natDegree = d - 1 := by
  rw [natDegree_prod_of_monic _ _ fun j _ => monic_X_sub_C (y j)]
  simp

/-- the coefficient of `z^(d-1)` of `g` is `Σ_c t_c v_c`: this is what the row at infinity sees -/
theorem gpoly_coeff (y v t : Fin d → F) : (gpoly y v t).coeff (d - 1) = ∑ c, t c * v c := by
  unfold gpoly
  rw [finsetSum_coeff]
  refine Finset.sum_congr rfl fun c _ => ?_
  rw [coeff_C_mul]
  have h := (prod_erase_monic y c).coeff_natDegree
  rw [prod_erase_natDegree] at h
  rw [h, mul_one]

theorem gpoly_degree_lt_pred (y v t : Fin d → F) (h : ∑ c, t c * v c = 0) :
    (gpoly y v t).degree < ((d - 1 : ℕ) : WithBot ℕ) := by
  rw [degree_lt_iff_coeff_zero]
  intro m hm
  rcases Nat.eq_or_lt_of_le hm with rfl | hlt
  · rw [gpoly_coeff, h]
  · refine coeff_eq_zero_of_degree_lt (lt_of_lt_of_le (gpoly_degree_lt y v t) ?_)
    exact_mod_cast (by omega : d ≤ m)

/-! ### the central theorem -/

/-- the central theorem with the entry hypothesis split into its two cases -/
theorem gcauchy_mds_core (x : Fin p → Option F) (y v : Fin d → F) (u : Fin p → F)
    (A : Fin p → Fin d → F)
    (hy : Function.Injective y) (hx : Function.Injective x) (hxy : ∀ r c, x r ≠ some (y c))
    (hu : ∀ r, u r ≠ 0) (hv : ∀ c, v c ≠ 0)
    (hAs : ∀ r c xr, x r = some xr → A r c * (xr - y c) = u r * v c)
    (hAn : ∀ r c, x r = none → A r c = u r * v c) : MDS A := by
  classical
  intro S hS t h0
  -- the evaluation point of an index (junk `0` for the row at infinity)
  let pt : Fin d ⊕ Fin p → F := Sum.elim y (fun r => (x r).getD 0)
  let isInf : Fin d ⊕ Fin p → Prop := fun i => ∃ r, i = Sum.inr r ∧ x r = none
  have hpt : ∀ a b, ¬ isInf a → ¬ isInf b → pt a = pt b → a = b := by
    intro a b ha hb hab
    rcases a with a | a <;> rcases b with b | b
    · exact congrArg _ (hy hab)
    · rcases hxb : x b with _ | xb
      · exact absurd ⟨b, rfl, hxb⟩ hb
      · simp only [pt, Sum.elim_inl, Sum.elim_inr, hxb, Option.getD_some] at hab
        exact absurd (hxb.trans (congrArg some hab.symm)) (hxy b a)
    · rcases hxa : x a with _ | xa
      · exact absurd ⟨a, rfl, hxa⟩ ha
      · simp only [pt, Sum.elim_inl, Sum.elim_inr, hxa, Option.getD_some] at hab
        exact absurd (hxa.trans (congrArg some hab)) (hxy a b)
    · rcases hxa : x a with _ | xa
      · exact absurd ⟨a, rfl, hxa⟩ ha
      rcases hxb : x b with _ | xb
      · exact absurd ⟨b, rfl, hxb⟩ hb
      simp only [pt, Sum.elim_inr, hxa, hxb, Option.getD_some] at hab
      have : x a = x b := by rw [hxa, hxb, hab]
      exact congrArg _ (hx this)
  -- every finite index in `S` is a root of `g`
  have hroot : ∀ i ∈ S, ¬ isInf i → (gpoly y v t).eval (pt i) = 0 := by
    intro i hi hfin
    have hi0 := h0 i hi
    rcases i with c | r
    · simp only [pt, Sum.elim_inl]
      rw [gpoly_eval_y]
      simp only [cw_inl] at hi0
      rw [hi0]; ring
    · rcases hxr : x r with _ | xr
      · exact absurd ⟨r, rfl, hxr⟩ hfin
      simp only [pt, Sum.elim_inr, hxr, Option.getD_some]
      simp only [cw_inr] at hi0
      have := gpoly_eval_row y v t (A r) xr (u r) (fun c => hAs r c xr hxr)
      rw [hi0, mul_zero] at this
      exact (mul_eq_zero.mp this).resolve_left (hu r)
  -- enough finite roots force `g = 0`
  have key : ∀ S' : Finset (Fin d ⊕ Fin p), S' ⊆ S → (∀ i ∈ S', ¬ isInf i) →
      (gpoly y v t).degree < (S'.card : WithBot ℕ) → gpoly y v t = 0 := by
    intro S' hsub hfin hdeg
    apply eq_zero_of_degree_lt_of_eval_finset_eq_zero (S'.image pt)
    · rwa [Finset.card_image_of_injOn]
      intro a ha b hb hab
      exact hpt a b (hfin a ha) (hfin b hb) hab
    · intro z hz
      obtain ⟨i, hi, rfl⟩ := Finset.mem_image.mp hz
      exact hroot i (hsub hi) (hfin i hi)
  have hg : gpoly y v t = 0 := by
    by_cases hinf : ∃ i ∈ S, isInf i
    · obtain ⟨i, hi, r0, rfl, hr0⟩ := hinf
      have hsum : ∑ c, t c * v c = 0 := by
        have h1 := h0 _ hi
        simp only [cw_inr] at h1
        have h2 : ∑ c, A r0 c * t c = u r0 * ∑ c, t c * v c := by
          rw [Finset.mul_sum]
          refine Finset.sum_congr rfl fun c _ => ?_
          rw [hAn r0 c hr0]; ring
        rw [h2] at h1
        exact (mul_eq_zero.mp h1).resolve_left (hu r0)
      apply key (S.erase (Sum.inr r0)) (Finset.erase_subset _ _)
      · rintro i hi' ⟨r1, rfl, hr1⟩
        have : r1 = r0 := hx (hr1.trans hr0.symm)
        subst this
        exact (Finset.mem_erase.mp hi').1 rfl
      · rw [Finset.card_erase_of_mem hi, hS]
        exact gpoly_degree_lt_pred y v t hsum
    · apply key S (Finset.Subset.refl _)
      · intro i hi hinf'
        exact hinf ⟨i, hi, hinf'⟩
      · rw [hS]; exact gpoly_degree_lt y v t
  funext c
  have := gpoly_eval_y y v t c
  rw [hg, eval_zero] at this
  have hprod : ∏ j ∈ univ.erase c, (y c - y j) ≠ 0 := by
    rw [Finset.prod_ne_zero_iff]
    intro j hj
    have : j ≠ c := (Finset.mem_erase.mp hj).1
    exact sub_ne_zero.mpr fun h => this (hy h).symm
  have h2 := (mul_eq_zero.mp this.symm).resolve_right hprod
  exact (mul_eq_zero.mp h2).resolve_right (hv c)

/-- **generalised Cauchy matrices are MDS**; `x r = none` puts row `r` at infinity -/
theorem gcauchy_mds (x : Fin p → Option F) (y v : Fin d → F) (u : Fin p → F)
    (A : Fin p → Fin d → F)
    (hy : Function.Injective y) (hx : Function.Injective x) (hxy : ∀ r c, x r ≠ some (y c))
    (hu : ∀ r, u r ≠ 0) (hv : ∀ c, v c ≠ 0)
    (hA : ∀ r c, match x r with
      | some xr => A r c * (xr - y c) = u r * v c
      | none => A r c = u r * v c) : MDS A := by
  refine gcauchy_mds_core x y v u A hy hx hxy hu hv ?_ ?_
  · intro r c xr hxr
    have := hA r c
    rw [hxr] at this
    exact this
  · intro r c hxr
    have := hA r c
    rw [hxr] at this
    exact this

/-- all points finite -/
theorem gcauchy_mds_fin (x : Fin p → F) (y v : Fin d → F) (u : Fin p → F) (A : Fin p → Fin d → F)
    (hy : Function.Injective y) (hx : Function.Injective x) (hxy : ∀ r c, x r ≠ y c)
    (hu : ∀ r, u r ≠ 0) (hv : ∀ c, v c ≠ 0)
    (hA : ∀ r c, A r c * (x r - y c) = u r * v c) : MDS A := by
  refine gcauchy_mds_core (fun r => some (x r)) y v u A hy
    (fun a b h => hx (Option.some_injective _ h)) (fun r c h => hxy r c (Option.some_injective _ h))
    hu hv ?_ ?_
  · intro r c xr hxr
    have : x r = xr := Option.some_injective _ hxr
    rw [← this]; exact hA r c
  · intro r c hxr
    exact absurd hxr (Option.some_ne_none _)

/-- every entry of a generalised Cauchy matrix is non-zero -/
theorem gcauchy_entries_ne_zero (x : Fin p → Option F) (y v : Fin d → F) (u : Fin p → F)
    (A : Fin p → Fin d → F)
    (hu : ∀ r, u r ≠ 0) (hv : ∀ c, v c ≠ 0)
    (hA : ∀ r c, match x r with
      | some xr => A r c * (xr - y c) = u r * v c
      | none => A r c = u r * v c) (r : Fin p) (c : Fin d) : A r c ≠ 0 := by
  have h := hA r c
  have huv : u r * v c ≠ 0 := mul_ne_zero (hu r) (hv c)
  rcases hxr : x r with _ | xr
  · rw [hxr] at h
    have h' : A r c = u r * v c := h
    rw [h']; exact huv
  · rw [hxr] at h
    have h' : A r c * (xr - y c) = u r * v c := h
    intro h0
    rw [h0, zero_mul] at h'
    exact huv h'.symm

/-! ### closed forms in the family -/

/-- Cauchy matrices `1 / (x r - y c)` are MDS (`u = v = 1`) -/
theorem cauchy_mds (x : Fin p → F) (y : Fin d → F)
    (hy : Function.Injective y) (hx : Function.Injective x) (hxy : ∀ r c, x r ≠ y c) :
    MDS (fun r c => (x r - y c)⁻¹) :=
  gcauchy_mds_fin x y (fun _ => 1) (fun _ => 1) _ hy hx hxy
    (fun _ => one_ne_zero) (fun _ => one_ne_zero)
    (fun r c => by rw [inv_mul_cancel₀ (sub_ne_zero.mpr (hxy r c)), one_mul])

/-- a single all-ones parity row (XOR parity) is MDS: it is the row at infinity with
`u = v = 1`.  Needs `d` distinct field elements, i.e. `d ≤ |F|`. -/
theorem ones_mds (y : Fin d → F) (hy : Function.Injective y) :
    MDS (fun (_ : Fin 1) (_ : Fin d) => (1 : F)) :=
  gcauchy_mds_core (fun _ => none) y (fun _ => 1) (fun _ => 1) _ hy
    (fun a b _ => Subsingleton.elim a b) (fun _ _ h => by simp at h)
    (fun _ => one_ne_zero) (fun _ => one_ne_zero)
    (fun _ _ _ h => by simp at h) (fun _ _ _ => by simp)

/-- value at `z` of the Lagrange basis polynomial of node `y c` among the nodes `y` -/
def lagrAt (y : Fin d → F) (z : F) (c : Fin d) : F :=
  ∏ j ∈ univ.erase c, (z - y j) / (y c - y j)

/-- the Lagrange matrix: data nodes `y`, parity nodes `x` -/
def lagr (y : Fin d → F) (x : Fin p → F) : Fin p → Fin d → F := fun r c => lagrAt y (x r) c

theorem lagr_apply (y : Fin d → F) (x : Fin p → F) (r : Fin p) (c : Fin d) :
    lagr y x r c = ∏ j ∈ univ.erase c, (x r - y j) / (y c - y j) := rfl

/-- Lagrange matrices are MDS: `u r = ∏_j (x r - y j)`, `v c = (∏_{j≠c} (y c - y j))⁻¹` -/
theorem lagr_mds (y : Fin d → F) (x : Fin p → F)
    (hy : Function.Injective y) (hx : Function.Injective x) (hxy : ∀ r c, x r ≠ y c) :
    MDS (lagr y x) := by
  refine gcauchy_mds_fin x y (fun c => (∏ j ∈ univ.erase c, (y c - y j))⁻¹)
    (fun r => ∏ j, (x r - y j)) _ hy hx hxy ?_ ?_ ?_
  · intro r
    exact Finset.prod_ne_zero_iff.mpr fun j _ => sub_ne_zero.mpr (hxy r j)
  · intro c
    exact inv_ne_zero (Finset.prod_ne_zero_iff.mpr fun j hj =>
      sub_ne_zero.mpr fun h => (Finset.mem_erase.mp hj).1 (hy h).symm)
  · intro r c
    simp only [lagr, lagrAt]
    rw [Finset.prod_div_distrib,
      ← Finset.mul_prod_erase univ (fun j => x r - y j) (Finset.mem_univ c), div_eq_mul_inv]
    ring

theorem lagrAt_eq_eval_basis (y : Fin d → F) (z : F) (c : Fin d) :
    lagrAt y z c = eval z (Lagrange.basis univ y c) := by
  unfold lagrAt Lagrange.basis
  rw [eval_prod]
  refine Finset.prod_congr rfl fun j _ => ?_
  simp only [Lagrange.basisDivisor, eval_mul, eval_C, eval_sub, eval_X]
  rw [div_eq_mul_inv, mul_comm]

/-- Lagrange interpolation, evaluated: a polynomial of degree `< d` is recovered at every `z`
from its values at the `d` nodes -/
theorem sum_lagrAt_mul_eval (y : Fin d → F) (hy : Function.Injective y) (f : F[X])
    (hf : f.degree < d) (z : F) : ∑ c, lagrAt y z c * f.eval (y c) = f.eval z := by
  have h := Lagrange.eq_interpolate (s := univ) (v := y) (f := f) hy.injOn (by simpa using hf)
  have h2 := congrArg (eval z) h
  rw [Lagrange.interpolate_apply, eval_finsetSum] at h2
  simp only [eval_mul, eval_C] at h2
  rw [h2]
  refine Finset.sum_congr rfl fun c _ => ?_
  rw [lagrAt_eq_eval_basis, mul_comm]

/-- `Λ(z) · W = (z^k)_k` for the Vandermonde matrix `W c k = (y c)^k` -/
theorem sum_lagrAt_mul_pow (y : Fin d → F) (hy : Function.Injective y) (z : F) (k : ℕ)
    (hk : k < d) : ∑ c, lagrAt y z c * (y c) ^ k = z ^ k := by
  have := sum_lagrAt_mul_eval y hy (X ^ k) (by rw [degree_X_pow]; exact_mod_cast hk) z
  simpa using this

/-- **Vandermonde quotient = Lagrange matrix.**  If `N` is the inverse of the square Vandermonde
matrix `W c k = (y c)^k` over the nodes `y`, then the row `(z^k)_k` times `N` is the vector of
Lagrange basis values at `z`.  This identifies the generator `vandermonde(total,d) · (top d×d)⁻¹`
with the Lagrange matrix over the nodes `y`. -/
theorem vandermonde_quotient (y : Fin d → F) (hy : Function.Injective y)
    (W : Matrix (Fin d) (Fin d) F) (hW : ∀ c k, W c k = (y c) ^ k.val)
    (N : Matrix (Fin d) (Fin d) F) (hN : W * N = 1) (z : F) (c : Fin d) :
    ∑ k : Fin d, z ^ k.val * N k c = lagrAt y z c := by
  have h1 : Matrix.vecMul (lagrAt y z) W = fun k : Fin d => z ^ k.val := by
    funext k
    simp only [Matrix.vecMul, dotProduct, hW]
    exact sum_lagrAt_mul_pow y hy z k.val k.isLt
  have h2 : Matrix.vecMul (fun k : Fin d => z ^ k.val) N = lagrAt y z := by
    rw [← h1, Matrix.vecMul_vecMul, hN, Matrix.vecMul_one]
  have h3 := congrFun h2 c
  simpa [Matrix.vecMul, dotProduct] using h3

/-- the same with the inverse given on the other side -/
theorem vandermonde_quotient' (y : Fin d → F) (hy : Function.Injective y)
    (W : Matrix (Fin d) (Fin d) F) (hW : ∀ c k, W c k = (y c) ^ k.val)
    (N : Matrix (Fin d) (Fin d) F) (hN : N * W = 1) (z : F) (c : Fin d) :
    ∑ k : Fin d, z ^ k.val * N k c = lagrAt y z c :=
  vandermonde_quotient y hy W hW N (mul_eq_one_comm.mp hN) z c

/-- the parity part of `vandermonde · (top square)⁻¹` is MDS -/
theorem vandermonde_quotient_mds (y : Fin d → F) (x : Fin p → F)
    (hy : Function.Injective y) (hx : Function.Injective x) (hxy : ∀ r c, x r ≠ y c)
    (W : Matrix (Fin d) (Fin d) F) (hW : ∀ c k, W c k = (y c) ^ k.val)
    (N : Matrix (Fin d) (Fin d) F) (hN : W * N = 1) :
    MDS (fun r c => ∑ k : Fin d, (x r) ^ k.val * N k c) := by
  have : (fun r c => ∑ k : Fin d, (x r) ^ k.val * N k c) = lagr y x := by
    funext r c
    exact vandermonde_quotient y hy W hW N hN (x r) c
  rw [this]
  exact lagr_mds y x hy hx hxy

/-- puncturing (drop parity rows) and shortening (fix message symbols to `0`) preserve `MDS` -/
theorem MDS.submatrix {p' d' : ℕ} {A : Fin p → Fin d → F} (h : MDS A)
    (f : Fin p' → Fin p) (g : Fin d' → Fin d)
    (hf : Function.Injective f) (hg : Function.Injective g) :
    MDS (fun r c => A (f r) (g c)) := by
  classical
  intro S' hS' t' h0
  let t : Fin d → F := Function.extend g t' 0
  have ht : ∀ c', t (g c') = t' c' := fun c' => hg.extend_apply _ _ _
  have ht0 : ∀ c, c ∉ univ.image g → t c = 0 := by
    intro c hc
    have : ¬ ∃ a, g a = c := by
      rintro ⟨a, rfl⟩
      exact hc (Finset.mem_image_of_mem g (Finset.mem_univ a))
    simp only [t, Function.extend_apply' _ _ _ this, Pi.zero_apply]
  have hsum : ∀ r, ∑ c, A r c * t c = ∑ c', A r (g c') * t' c' := by
    intro r
    rw [← Finset.sum_subset (Finset.subset_univ (univ.image g))
      (fun c _ hc => by rw [ht0 c hc, mul_zero]),
      Finset.sum_image (fun a _ b _ hab => hg hab)]
    exact Finset.sum_congr rfl fun c' _ => by rw [ht]
  let e : Fin d' ⊕ Fin p' → Fin d ⊕ Fin p := Sum.map g f
  have he : Function.Injective e := Sum.map_injective.mpr ⟨hg, hf⟩
  let T : Finset (Fin d) := (univ.image g)ᶜ
  have hle : d' ≤ d := by simpa using Fintype.card_le_of_injective g hg
  have hT : T.card = d - d' := by
    simp only [T]
    rw [Finset.card_compl, Finset.card_image_of_injective _ hg]
    simp
  let S : Finset (Fin d ⊕ Fin p) := S'.image e ∪ T.image Sum.inl
  have hdisj : Disjoint (S'.image e) (T.image Sum.inl) := by
    rw [Finset.disjoint_left]
    intro a ha hb
    obtain ⟨i, _, rfl⟩ := Finset.mem_image.mp ha
    obtain ⟨c, hc, hce⟩ := Finset.mem_image.mp hb
    rcases i with c' | r'
    · simp only [e, Sum.map_inl, Sum.inl.injEq] at hce
      subst hce
      exact (Finset.mem_compl.mp hc) (Finset.mem_image_of_mem g (Finset.mem_univ c'))
    · simp [e] at hce
  have hS : S.card = d := by
    simp only [S]
    rw [Finset.card_union_of_disjoint hdisj, Finset.card_image_of_injective _ he,
      Finset.card_image_of_injective _ Sum.inl_injective, hS', hT]
    omega
  have hz : t = 0 := by
    apply h S hS t
    intro i hi
    rcases Finset.mem_union.mp hi with hi | hi
    · obtain ⟨i', hi', rfl⟩ := Finset.mem_image.mp hi
      have := h0 i' hi'
      rcases i' with c' | r'
      · simp only [e, Sum.map_inl, cw_inl] at this ⊢
        rw [ht]; exact this
      · simp only [e, Sum.map_inr, cw_inr] at this ⊢
        rw [hsum]; exact this
    · obtain ⟨c, hc, rfl⟩ := Finset.mem_image.mp hi
      simp only [cw_inl]
      exact ht0 c (Finset.mem_compl.mp hc)
  funext c'
  have := congrFun hz (g c')
  rw [ht] at this
  exact this

/-- puncturing: any subset of the parity rows -/
theorem MDS.puncture {p' : ℕ} {A : Fin p → Fin d → F} (h : MDS A) (f : Fin p' → Fin p)
    (hf : Function.Injective f) : MDS (fun r c => A (f r) c) :=
  h.submatrix f id hf Function.injective_id

end Generic

/-! ### soundness of the executable certificate (`RSV.Model.Cert`) -/
section Cert
open RSV.Model
variable {F : Type} [Field F] [DecidableEq F] {d p : ℕ}

omit [Field F] in
/-- what `pointsDistinct` checks -/
theorem pointsDistinct_spec (x : Fin p → Option F) (y : Fin d → F)
    (h : pointsDistinct x y = true) :
    Function.Injective x ∧ Function.Injective y ∧ ∀ r c, x r ≠ some (y c) := by
  simp only [pointsDistinct, Bool.and_eq_true, allFin_iff, Bool.or_eq_true,
    decide_eq_true_eq] at h
  obtain ⟨⟨h1, h2⟩, h3⟩ := h
  exact ⟨fun a b hab => (h1 a b).resolve_right fun hne => hne hab,
    fun a b hab => (h2 a b).resolve_right fun hne => hne hab, h3⟩

/-- certificate soundness, distinctness of the points given as propositions -/
theorem certGC_sound' (A : Mat F p d) (x : Fin p → Option F) (y : Fin d → F)
    (u : Fin p → F) (v : Fin d → F) (h : certGC A x y u v = true)
    (hy : Function.Injective y) (hx : Function.Injective x) (hxy : ∀ r c, x r ≠ some (y c)) :
    MDS (fun r c => A.get r c) := by
  simp only [certGC, Bool.and_eq_true, allFin_iff, decide_eq_true_eq] at h
  obtain ⟨⟨hu, hv⟩, hA⟩ := h
  refine gcauchy_mds_core x y v u _ hy hx hxy hu hv ?_ ?_
  · intro r c xr hxr
    have := hA r c
    rw [hxr] at this
    simpa using this
  · intro r c hxr
    have := hA r c
    rw [hxr] at this
    simpa using this

/-- **certificate soundness**: if the Boolean certificate accepts and the points are distinct,
the matrix is MDS -/
theorem certGC_sound (A : Mat F p d) (x : Fin p → Option F) (y : Fin d → F)
    (u : Fin p → F) (v : Fin d → F) (h : certGC A x y u v = true)
    (hd : pointsDistinct x y = true) : MDS (fun r c => A.get r c) := by
  obtain ⟨hx, hy, hxy⟩ := pointsDistinct_spec x y hd
  exact certGC_sound' A x y u v h hy hx hxy

/-- a matrix accepted by the certificate has no zero entry -/
theorem certGC_entries_ne_zero (A : Mat F p d) (x : Fin p → Option F) (y : Fin d → F)
    (u : Fin p → F) (v : Fin d → F) (h : certGC A x y u v = true) (r : Fin p) (c : Fin d) :
    A.get r c ≠ 0 := by
  simp only [certGC, Bool.and_eq_true, allFin_iff, decide_eq_true_eq] at h
  obtain ⟨⟨hu, hv⟩, hA⟩ := h
  refine gcauchy_entries_ne_zero x y v u (fun r c => A.get r c) hu hv ?_ r c
  intro r c
  have := hA r c
  rcases hxr : x r with _ | xr
  · rw [hxr] at this
    simpa using this
  · rw [hxr] at this
    simpa using this

/-- certificate with the natural points `y c = pt c`, `x r = pt (d + r)` (one row possibly at
infinity): sound as soon as `pt` is injective on `[0, d+p)` -/
theorem certNat_sound (hd : 0 < d) (hp : 0 < p) (pt : ℕ → F) (inf : Option (Fin p))
    (A : Mat F p d) (hpt : ∀ a b, a < d + p → b < d + p → pt a = pt b → a = b)
    (h : certNat hd hp pt inf A = true) : MDS (fun r c => A.get r c) := by
  refine certGC_sound' A (fun r => if inf = some r then none else some (pt (d + r.val)))
    (fun c => pt c.val) _ _ h ?_ ?_ ?_
  · intro a b hab
    exact Fin.ext (hpt a b (by omega) (by omega) hab)
  · intro a b hab
    have hab' : (if inf = some a then none else some (pt (d + a.val)) : Option F)
        = (if inf = some b then none else some (pt (d + b.val))) := hab
    by_cases ha : inf = some a <;> by_cases hb : inf = some b
    · exact Option.some_injective _ (ha.symm.trans hb)
    · rw [if_pos ha, if_neg hb] at hab'
      exact absurd hab'.symm (Option.some_ne_none _)
    · rw [if_neg ha, if_pos hb] at hab'
      exact absurd hab' (Option.some_ne_none _)
    · rw [if_neg ha, if_neg hb] at hab'
      have := hpt _ _ (by omega) (by omega) (Option.some_injective _ hab')
      exact Fin.ext (by omega)
  · intro r c
    show (if inf = some r then none else some (pt (d + r.val)) : Option F) ≠ some (pt c.val)
    by_cases hr : inf = some r
    · rw [if_pos hr]
      exact (Option.some_ne_none _).symm
    · rw [if_neg hr]
      intro hab
      have := hpt _ _ (by omega) (by omega) (Option.some_injective _ hab)
      omega

end Cert

end RSV.CodeTheory

#print axioms RSV.CodeTheory.MDS.unique
#print axioms RSV.CodeTheory.gcauchy_mds
#print axioms RSV.CodeTheory.gcauchy_mds_fin
#print axioms RSV.CodeTheory.gcauchy_entries_ne_zero
#print axioms RSV.CodeTheory.certGC_sound
#print axioms RSV.CodeTheory.certGC_sound'
#print axioms RSV.CodeTheory.certGC_entries_ne_zero
#print axioms RSV.CodeTheory.certNat_sound
#print axioms RSV.CodeTheory.cauchy_mds
#print axioms RSV.CodeTheory.ones_mds
#print axioms RSV.CodeTheory.lagr_mds
#print axioms RSV.CodeTheory.sum_lagrAt_mul_pow
#print axioms RSV.CodeTheory.vandermonde_quotient
#print axioms RSV.CodeTheory.vandermonde_quotient'
#print axioms RSV.CodeTheory.vandermonde_quotient_mds
#print axioms RSV.CodeTheory.MDS.submatrix
#print axioms RSV.CodeTheory.MDS.puncture
