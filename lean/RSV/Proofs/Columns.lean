import RSV.Model.Codec
import RSV.Proofs.Gauss
import RSV.Proofs.CodeTheory
import Mathlib.Algebra.BigOperators.Fin
import Mathlib.Algebra.BigOperators.Group.Finset.Basic
import Mathlib.Algebra.BigOperators.Ring.Finset
import Mathlib.Algebra.Field.Basic
import Mathlib.Data.List.FinRange

/-!
# Column-wise lemmas about the codec model (`RSV.Model.Codec`)

Everything in `Encode` / `Verify` / `EncodeIdx` / `Update` is a statement about one byte position
`k` at a time: byte `k` of parity shard `r` is `∑ c, A r c * (data c)[k]`.  This file provides
that reading (`encodeSpec_getElem` …) over any `Field F` and the helper lemmas used by the
property files `RSV.Props.C06` and `RSV.Props.C12`.
-/

namespace RSV.Model
open RSV.CodeTheory

variable {F : Type} [Field F] {d p len : ℕ}

/-! ### byte `k` of the specification functions -/

theorem encodeRow_getElem (row : Fin d → F) (data : Fin d → Shard F len) (k : Fin len) :
    (encodeRow row data)[k] = ∑ c, row c * (data c)[k] := by
  simp [encodeRow, finSum_eq_sum]

theorem encodeSpec_getElem (A : Mat F p d) (data : Fin d → Shard F len) (r : Fin p) (k : Fin len) :
    (encodeSpec A data r)[k] = ∑ c, A.get r c * (data c)[k] := by
  simp [encodeSpec, encodeRow, finSum_eq_sum]

theorem encodeIdxStep_getElem (A : Mat F p d) (par : Fin p → Shard F len) (c : Fin d)
    (s : Shard F len) (r : Fin p) (k : Fin len) :
    (encodeIdxStep A par c s r)[k] = (par r)[k] + A.get r c * s[k] := by
  simp [encodeIdxStep]

/-- the summand `Update` adds for data shard `c` -/
def updTerm (A : Mat F p d) (old newData : Fin d → Option (Shard F len)) (r : Fin p) (k : Fin len)
    (c : Fin d) : F :=
  match newData c, old c with
  | some nw, some od => A.get r c * (nw[k] - od[k])
  | _, _ => 0

theorem updateSpec_getElem (A : Mat F p d) (old : Fin d → Option (Shard F len))
    (par : Fin p → Shard F len) (newData : Fin d → Option (Shard F len)) (r : Fin p) (k : Fin len) :
    (updateSpec A old par newData r)[k] = (par r)[k] + ∑ c, updTerm A old newData r k c := by
  simp only [updateSpec, finSum_eq_sum, Fin.getElem_fin, Vector.getElem_ofFn]
  rfl

omit [Field F] in
/-- shards are equal iff they agree at every byte position -/
theorem shard_ext {s t : Shard F len} (h : ∀ k : Fin len, s[k] = t[k]) : s = t :=
  Vector.ext fun i hi => h ⟨i, hi⟩

omit [Field F] in
theorem parity_ext {P Q : Fin p → Shard F len} (h : ∀ r (k : Fin len), (P r)[k] = (Q r)[k]) :
    P = Q :=
  funext fun r => shard_ext (h r)

/-! ### Verify -/

theorem verifySpec_eq_true_iff [DecidableEq F] (A : Mat F p d) (data : Fin d → Shard F len)
    (par : Fin p → Shard F len) :
    verifySpec A data par = true ↔ ∀ r, par r = encodeSpec A data r := by
  simp [verifySpec]

theorem verifySpec_eq_false_iff [DecidableEq F] (A : Mat F p d) (data : Fin d → Shard F len)
    (par : Fin p → Shard F len) :
    verifySpec A data par = false ↔ ∃ r, par r ≠ encodeSpec A data r := by
  simp [verifySpec]

/-- the parity of two data sets differs at byte `k` of row `r` by `A r c * δ` when they differ in
byte `k` of shard `c` only -/
theorem encodeSpec_single_diff (A : Mat F p d) (data data' : Fin d → Shard F len) (c : Fin d)
    (k : Fin len) (hsame : ∀ c', c' ≠ c → (data' c')[k] = (data c')[k]) (r : Fin p) :
    (encodeSpec A data' r)[k] - (encodeSpec A data r)[k]
      = A.get r c * ((data' c)[k] - (data c)[k]) := by
  rw [encodeSpec_getElem, encodeSpec_getElem, ← Finset.sum_sub_distrib,
    Finset.sum_eq_single c]
  · ring
  · intro b _ hb
    rw [hsame b hb, sub_self]
  · intro h; exact absurd (Finset.mem_univ c) h

/-- two data sets that differ only in shards whose column of `A` is zero have the same parity -/
theorem encodeSpec_congr_of_zero (A : Mat F p d) (data data' : Fin d → Shard F len)
    (h : ∀ c, data' c = data c ∨ ∀ r, A.get r c = 0) :
    encodeSpec A data' = encodeSpec A data := by
  refine parity_ext fun r k => ?_
  rw [encodeSpec_getElem, encodeSpec_getElem]
  refine Finset.sum_congr rfl fun c _ => ?_
  rcases h c with h | h
  · rw [h]
  · rw [h r, zero_mul, zero_mul]

/-! ### MDS generators have no zero entry -/

/-- an MDS parity matrix has no zero entry: otherwise the unit message `e_c` has a codeword
vanishing on the `d` coordinates `{data c' | c' ≠ c} ∪ {parity r}` -/
theorem MDS_entry_ne_zero {A : Fin p → Fin d → F} (hA : MDS A) (r : Fin p) (c : Fin d) :
    A r c ≠ 0 := by
  intro hz
  classical
  let S : Finset (Fin d ⊕ Fin p) :=
    insert (Sum.inr r) ((Finset.univ.erase c).map ⟨Sum.inl, Sum.inl_injective⟩)
  have hcard : S.card = d := by
    rw [Finset.card_insert_of_notMem (by simp), Finset.card_map,
      Finset.card_erase_of_mem (Finset.mem_univ c), Finset.card_univ, Fintype.card_fin]
    have := c.pos
    omega
  have ht := hA S hcard (Pi.single c 1) (by
    intro i hi
    rcases i with c' | r'
    · have hc' : c' ≠ c := by simpa [S] using hi
      simp [hc']
    · have hr' : r' = r := by simpa [S] using hi
      subst hr'
      simp [Pi.single_apply, hz])
  have := congrFun ht c
  simp at this

/-! ### EncodeIdx: folding over a list of shard indices -/

/-- after feeding the shards listed in `order` (any list, duplicates allowed) into `par0`, byte
`k` of parity `r` is the old byte plus the list sum of the contributions -/
theorem foldl_encodeIdxStep_getElem (A : Mat F p d) (data : Fin d → Shard F len)
    (order : List (Fin d)) (par0 : Fin p → Shard F len) (r : Fin p) (k : Fin len) :
    ((order.foldl (fun par c => encodeIdxStep A par c (data c)) par0) r)[k]
      = (par0 r)[k] + (order.map fun c => A.get r c * (data c)[k]).sum := by
  induction order generalizing par0 with
  | nil => simp
  | cons c rest ih =>
    rw [List.foldl_cons, ih, encodeIdxStep_getElem, List.map_cons, List.sum_cons, add_assoc]

/-- for a duplicate-free list the list sum is the sum over the members -/
theorem foldl_encodeIdxStep_nodup (A : Mat F p d) (data : Fin d → Shard F len)
    (order : List (Fin d)) (hnd : order.Nodup) (par0 : Fin p → Shard F len) (r : Fin p)
    (k : Fin len) :
    ((order.foldl (fun par c => encodeIdxStep A par c (data c)) par0) r)[k]
      = (par0 r)[k] + ∑ c, if c ∈ order then A.get r c * (data c)[k] else 0 := by
  rw [foldl_encodeIdxStep_getElem, ← List.sum_toFinset _ hnd, ← Finset.sum_filter]
  congr 2
  ext c; simp

/-! ### Update -/

theorem updTerm_none (A : Mat F p d) (old newData : Fin d → Option (Shard F len)) (r : Fin p)
    (k : Fin len) (c : Fin d) (h : newData c = none) : updTerm A old newData r k c = 0 := by
  unfold updTerm; rw [h]

theorem updTerm_some (A : Mat F p d) (old newData : Fin d → Option (Shard F len)) (r : Fin p)
    (k : Fin len) (c : Fin d) (nw od : Shard F len) (h : newData c = some nw)
    (h' : old c = some od) : updTerm A old newData r k c = A.get r c * (nw[k] - od[k]) := by
  unfold updTerm; rw [h, h']

end RSV.Model
