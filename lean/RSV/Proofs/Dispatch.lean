import RSV.Model.Dispatch

/-!
# Lemmas on `Chain`, `splitLoop`, `scalarRounds`, `execPieces` (core Lean only)
-/

namespace RSV.Proofs.Dispatch
open RSV.Model.Dispatch

/-! ## `Chain` -/

theorem chain_nil {a b : Nat} : Chain [] a b ↔ a = b := Iff.rfl

theorem chain_cons {s e : Nat} {rest : List Piece} {a b : Nat} :
    Chain ((s, e) :: rest) a b ↔ s = a ∧ s ≤ e ∧ Chain rest e b := Iff.rfl

instance decChain : ∀ (ps : List Piece) (a b : Nat), Decidable (Chain ps a b)
  | [], a, b => inferInstanceAs (Decidable (a = b))
  | (s, e) :: rest, a, b =>
    have := decChain rest e b
    inferInstanceAs (Decidable (s = a ∧ s ≤ e ∧ Chain rest e b))

theorem chain_le : ∀ (ps : List Piece) (a b : Nat), Chain ps a b → a ≤ b
  | [], a, b, h => by rw [chain_nil] at h; omega
  | (s, e) :: rest, a, b, h => by
    obtain ⟨h1, h2, h3⟩ := chain_cons.1 h
    have := chain_le rest e b h3
    omega

theorem chain_append : ∀ (ps qs : List Piece) (a b c : Nat),
    Chain ps a b → Chain qs b c → Chain (ps ++ qs) a c
  | [], qs, a, b, c, h1, h2 => by rw [chain_nil] at h1; subst h1; simpa using h2
  | (s, e) :: rest, qs, a, b, c, h1, h2 => by
    obtain ⟨h1a, h1b, h1c⟩ := chain_cons.1 h1
    exact chain_cons.2 ⟨h1a, h1b, chain_append rest qs e b c h1c h2⟩

/-- every piece of a chain lies inside `[a, b]` -/
theorem chain_mem_bounds : ∀ (ps : List Piece) (a b : Nat), Chain ps a b →
    ∀ p ∈ ps, a ≤ p.1 ∧ p.1 ≤ p.2 ∧ p.2 ≤ b
  | [], _, _, _, p, hp => by cases hp
  | (s, e) :: rest, a, b, h, p, hp => by
    obtain ⟨h1, h2, h3⟩ := chain_cons.1 h
    have hle := chain_le rest e b h3
    rcases List.mem_cons.1 hp with rfl | hp
    · simp only; omega
    · have := chain_mem_bounds rest e b h3 p hp
      omega

/-- refining every piece of a chain by a chain gives a chain -/
theorem chain_flatMap (F : Piece → List Piece)
    (hF : ∀ s e : Nat, s ≤ e → Chain (F (s, e)) s e) :
    ∀ (ws : List Piece) (a b : Nat), Chain ws a b → Chain (ws.flatMap F) a b
  | [], a, b, h => by simpa using h
  | (s, e) :: rest, a, b, h => by
    obtain ⟨h1, h2, h3⟩ := chain_cons.1 h
    subst h1
    rw [List.flatMap_cons]
    exact chain_append _ _ s e b (hF s e h2) (chain_flatMap F hF rest e b h3)

theorem chain_pairwise : ∀ (ps : List Piece) (a b : Nat), Chain ps a b →
    ps.Pairwise (fun p q => p.2 ≤ q.1)
  | [], _, _, _ => List.Pairwise.nil
  | (s, e) :: rest, a, b, h => by
    obtain ⟨_, _, h3⟩ := chain_cons.1 h
    refine List.Pairwise.cons ?_ (chain_pairwise rest e b h3)
    intro q hq
    exact (chain_mem_bounds rest e b h3 q hq).1

/-- outside of `[a, b)` no piece of a chain contains `k` -/
theorem chain_countP_zero (k : Nat) : ∀ (ps : List Piece) (a b : Nat), Chain ps a b →
    (k < a ∨ b ≤ k) → ps.countP (fun p => decide (p.1 ≤ k ∧ k < p.2)) = 0 := by
  intro ps a b h hk
  rw [List.countP_eq_zero]
  intro p hp
  have := chain_mem_bounds ps a b h p hp
  simp only [decide_eq_true_eq]
  omega

/-- inside `[a, b)` exactly one piece of a chain contains `k` -/
theorem chain_countP_one (k : Nat) : ∀ (ps : List Piece) (a b : Nat), Chain ps a b →
    a ≤ k → k < b → ps.countP (fun p => decide (p.1 ≤ k ∧ k < p.2)) = 1
  | [], a, b, h, h1, h2 => by rw [chain_nil] at h; omega
  | (s, e) :: rest, a, b, h, hk1, hk2 => by
    obtain ⟨h1, h2, h3⟩ := chain_cons.1 h
    subst h1
    by_cases hke : k < e
    · rw [List.countP_cons_of_pos (by simp; omega),
        chain_countP_zero k rest e b h3 (Or.inl hke)]
    · rw [List.countP_cons_of_neg (by simp; omega)]
      exact chain_countP_one k rest e b h3 (by omega) hk2

/-- index formulation of "exactly one piece contains `k`" -/
theorem chain_unique_index (k : Nat) : ∀ (ps : List Piece) (a b : Nat), Chain ps a b →
    a ≤ k → k < b →
    ∃ i : Fin ps.length, (ps[i].1 ≤ k ∧ k < ps[i].2) ∧
      ∀ j : Fin ps.length, (ps[j].1 ≤ k ∧ k < ps[j].2) → j = i
  | [], a, b, h, h1, h2 => by rw [chain_nil] at h; omega
  | (s, e) :: rest, a, b, h, hk1, hk2 => by
    obtain ⟨h1, h2, h3⟩ := chain_cons.1 h
    subst h1
    by_cases hke : k < e
    · refine ⟨⟨0, by simp⟩, ⟨hk1, hke⟩, ?_⟩
      rintro ⟨j, hj⟩ hjk
      cases j with
      | zero => rfl
      | succ j =>
        exfalso
        have hj' : j < rest.length := by simpa using hj
        have hb := chain_mem_bounds rest e b h3 rest[j] (List.getElem_mem hj')
        have : rest[j].1 ≤ k := by simpa using hjk.1
        omega
    · obtain ⟨⟨i, hi⟩, hik, huniq⟩ := chain_unique_index k rest e b h3 (by omega) hk2
      refine ⟨⟨i + 1, by simpa using hi⟩, by simpa using hik, ?_⟩
      rintro ⟨j, hj⟩ hjk
      cases j with
      | zero =>
        exfalso
        have : k < e := by simpa using hjk.2
        exact hke this
      | succ j =>
        have hj' : j < rest.length := by simpa using hj
        have := huniq ⟨j, hj'⟩ (by simpa using hjk)
        have : j = i := by simpa using this
        subst this
        rfl

theorem evalPieces_nil {β : Type} (f : Nat → β) : evalPieces f [] = [] := rfl

theorem evalPieces_cons {β : Type} (f : Nat → β) (s e : Nat) (rest : List Piece) :
    evalPieces f ((s, e) :: rest) = (List.range' s (e - s)).map f ++ evalPieces f rest := by
  simp [evalPieces]

theorem evalPieces_chain {β : Type} (f : Nat → β) : ∀ (ps : List Piece) (a b : Nat),
    Chain ps a b → evalPieces f ps = (List.range' a (b - a)).map f
  | [], a, b, h => by rw [chain_nil] at h; subst h; simp [evalPieces_nil]
  | (s, e) :: rest, a, b, h => by
    obtain ⟨h1, h2, h3⟩ := chain_cons.1 h
    subst h1
    have hle := chain_le rest e b h3
    rw [evalPieces_cons, evalPieces_chain f rest e b h3, ← List.map_append]
    congr 1
    have h1 : e = s + (e - s) := by omega
    have h2 : b - s = (e - s) + (b - e) := by omega
    rw [h2, ← List.range'_append_1, ← h1]

/-! ## `splitLoop` -/

theorem splitLoop_chain (n : Nat) : ∀ (fuel d start : Nat), 0 < d → start ≤ n → n - start < fuel →
    Chain (splitLoop n fuel d start) start n
  | 0, _, _, _, _, hf => by omega
  | fuel + 1, d, start, hd, hs, hf => by
    unfold splitLoop
    by_cases hlt : start < n
    · rw [if_pos hlt]
      simp only
      refine chain_cons.2 ⟨rfl, by omega, ?_⟩
      apply splitLoop_chain n fuel
      · split <;> omega
      · split <;> omega
      · split <;> omega
    · rw [if_neg hlt]
      exact chain_nil.2 (by omega)

theorem splitLoop_aligned (n : Nat) : ∀ (fuel d start : Nat),
    (start < n → start % 64 = 0 ∧ d % 64 = 0) →
    ∀ p ∈ splitLoop n fuel d start, p.1 % 64 = 0 ∧ (p.2 % 64 = 0 ∨ p.2 = n)
  | 0, _, _, _, p, hp => by simp [splitLoop] at hp
  | fuel + 1, d, start, h, p, hp => by
    unfold splitLoop at hp
    by_cases hlt : start < n
    · rw [if_pos hlt] at hp
      simp only at hp
      obtain ⟨ha, hb⟩ := h hlt
      rcases List.mem_cons.1 hp with rfl | hp
      · simp only
        refine ⟨ha, ?_⟩
        split <;> omega
      · refine splitLoop_aligned n fuel _ _ ?_ p hp
        intro hlt'
        split at hlt' <;> split <;> omega
    · rw [if_neg hlt] at hp
      cases hp

/-! ## `scalarRounds` -/

theorem scalarRounds_chain (stop pr : Nat) (hpr : 0 < pr) : ∀ (fuel start : Nat),
    start ≤ stop → stop - start < fuel → Chain (scalarRounds stop pr fuel start) start stop
  | 0, _, _, hf => by omega
  | fuel + 1, start, hs, hf => by
    unfold scalarRounds
    by_cases hlt : start < stop
    · rw [if_pos hlt]
      simp only
      refine chain_cons.2 ⟨rfl, by split <;> omega, ?_⟩
      apply scalarRounds_chain stop pr hpr fuel
      · split <;> omega
      · split <;> omega
    · rw [if_neg hlt]
      exact chain_nil.2 (by omega)

theorem scalarRounds_le (stop pr : Nat) : ∀ (fuel start : Nat),
    ∀ p ∈ scalarRounds stop pr fuel start, p.2 - p.1 ≤ pr
  | 0, _, p, hp => by simp [scalarRounds] at hp
  | fuel + 1, start, p, hp => by
    unfold scalarRounds at hp
    by_cases hlt : start < stop
    · rw [if_pos hlt] at hp
      simp only at hp
      rcases List.mem_cons.1 hp with rfl | hp
      · simp only
        split <;> omega
      · exact scalarRounds_le stop pr fuel _ p hp
    · rw [if_neg hlt] at hp
      cases hp

/-- all scalar rounds except possibly the last have exactly `pr` bytes -/
theorem scalarRounds_full (stop pr : Nat) : ∀ (fuel start : Nat),
    ∀ p ∈ scalarRounds stop pr fuel start, p.2 - p.1 = pr ∨ p.2 = stop
  | 0, _, p, hp => by simp [scalarRounds] at hp
  | fuel + 1, start, p, hp => by
    unfold scalarRounds at hp
    by_cases hlt : start < stop
    · rw [if_pos hlt] at hp
      simp only at hp
      rcases List.mem_cons.1 hp with rfl | hp
      · simp only
        split <;> omega
      · exact scalarRounds_full stop pr fuel _ p hp
    · rw [if_neg hlt] at hp
      cases hp

/-! ## `execPieces` -/

/-- the number of bytes handed to the SIMD kernel -/
def kernelLen (start stop : Nat) (g : Option Nat) : Nat :=
  match g with
  | some g => if stop - start ≥ 64 then (stop - start) / g * g else 0
  | none => 0

theorem execPieces_eq (start stop pr : Nat) (g : Option Nat) :
    execPieces start stop pr g =
      (if kernelLen start stop g = 0 then []
        else [((start, start + kernelLen start stop g), true)]) ++
      (scalarRounds stop pr (stop - start + 1) (start + kernelLen start stop g)).map
        fun p => (p, false) := rfl

theorem kernelLen_le (start stop : Nat) (g : Option Nat) : kernelLen start stop g ≤ stop - start := by
  unfold kernelLen
  cases g with
  | none => exact Nat.zero_le _
  | some g =>
    simp only
    split
    · exact Nat.div_mul_le_self _ _
    · exact Nat.zero_le _

theorem execPieces_chain (start stop pr : Nat) (g : Option Nat) (hpr : 0 < pr) (hs : start ≤ stop) :
    Chain ((execPieces start stop pr g).map (·.1)) start stop := by
  rw [execPieces_eq]
  have hk := kernelLen_le start stop g
  generalize kernelLen start stop g = n at hk
  rw [List.map_append, List.map_map]
  have hid : ((fun x : Piece × Bool => x.1) ∘ fun p : Piece => (p, false)) = id := rfl
  rw [hid, List.map_id]
  have hsc := scalarRounds_chain stop pr hpr (stop - start + 1) (start + n) (by omega) (by omega)
  by_cases hn : n = 0
  · subst hn
    simpa using hsc
  · rw [if_neg hn]
    exact chain_cons.2 ⟨rfl, by omega, hsc⟩

end RSV.Proofs.Dispatch
