import RSV.Model.GF256
import Mathlib.Algebra.Field.Defs
import Mathlib.Algebra.CharP.Defs
import Mathlib.Algebra.CharP.Two
/-!
# `GF256` is a field (Mathlib `Field`), of characteristic 2

The operations of the `Field` instance are *definitionally* the core instances of
`RSV/Model/GF256.lean` (`+ = - = xor`, `neg = id`, `* = gmul`, `a⁻¹ = ginvChain a` (= a^254)).

Ring axioms for `gmul` are obtained through xor-linearity (`BF.pmul_xor_left/right`) and the
basis-extension lemma `BF.ext_of_basis`, which reduce commutativity to 64 and associativity to
512 concrete basis cases.  Only the inverse law is checked by enumeration of the 255 non-zero
elements.
-/
namespace RSV

/-! ## xor-linearity and ring laws of `gmul` on naturals -/

theorem gmul_xor_left (a a' b : Nat) : gmul (a ^^^ a') b = gmul a b ^^^ gmul a' b :=
  BF.pmul_xor_left 8 poly8 a a' b

theorem gmul_xor_right (a b b' : Nat) : gmul a (b ^^^ b') = gmul a b ^^^ gmul a b' :=
  BF.pmul_xor_right 8 poly8 a b b'

theorem gmul_zero_left (b : Nat) : gmul 0 b = 0 := by
  have h := gmul_xor_left 0 0 b
  simpa using h

theorem gmul_zero_right (a : Nat) : gmul a 0 = 0 := by
  have h := gmul_xor_right a 0 0
  simpa using h

theorem gmul_comm_basis :
    ∀ i, i < 8 → ∀ j, j < 8 → gmul (2^i) (2^j) = gmul (2^j) (2^i) := by
  decide +kernel

theorem gmul_comm {a b : Nat} (ha : a < 256) (hb : b < 256) : gmul a b = gmul b a := by
  refine BF.ext_of_basis (fun a => gmul a b) (fun a => gmul b a)
    (fun x y => gmul_xor_left x y b) (fun x y => gmul_xor_right b x y) 8 ?_ a ha
  intro i hi
  exact BF.ext_of_basis (fun b => gmul (2^i) b) (fun b => gmul b (2^i))
    (fun x y => gmul_xor_right (2^i) x y) (fun x y => gmul_xor_left x y (2^i)) 8
    (fun j hj => gmul_comm_basis i hi j hj) b hb

theorem gmul_assoc_basis :
    ∀ i, i < 8 → ∀ j, j < 8 → ∀ k, k < 8 →
      gmul (gmul (2^i) (2^j)) (2^k) = gmul (2^i) (gmul (2^j) (2^k)) := by
  decide +kernel

theorem gmul_assoc {a b c : Nat} (ha : a < 256) (hb : b < 256) (hc : c < 256) :
    gmul (gmul a b) c = gmul a (gmul b c) := by
  refine BF.ext_of_basis (fun a => gmul (gmul a b) c) (fun a => gmul a (gmul b c))
    (fun x y => by simp only [gmul_xor_left]) (fun x y => by simp only [gmul_xor_left])
    8 ?_ a ha
  intro i hi
  refine BF.ext_of_basis (fun b => gmul (gmul (2^i) b) c) (fun b => gmul (2^i) (gmul b c))
    (fun x y => by simp only [gmul_xor_right, gmul_xor_left])
    (fun x y => by simp only [gmul_xor_left, gmul_xor_right]) 8 ?_ b hb
  intro j hj
  exact BF.ext_of_basis (fun c => gmul (gmul (2^i) (2^j)) c)
    (fun c => gmul (2^i) (gmul (2^j) c))
    (fun x y => by simp only [gmul_xor_right]) (fun x y => by simp only [gmul_xor_right]) 8
    (fun k hk => gmul_assoc_basis i hi j hj k hk) c hc

theorem gmul_one_left_basis : ∀ i, i < 8 → gmul 1 (2^i) = 2^i := by decide +kernel

theorem gmul_one_left {b : Nat} (hb : b < 256) : gmul 1 b = b :=
  BF.ext_of_basis (fun b => gmul 1 b) (fun b => b)
    (fun x y => gmul_xor_right 1 x y) (fun _ _ => rfl) 8 gmul_one_left_basis b hb

theorem gmul_one_right_basis : ∀ i, i < 8 → gmul (2^i) 1 = 2^i := by decide +kernel

theorem gmul_one_right {a : Nat} (ha : a < 256) : gmul a 1 = a :=
  BF.ext_of_basis (fun a => gmul a 1) (fun a => a)
    (fun x y => gmul_xor_left x y 1) (fun _ _ => rfl) 8 gmul_one_right_basis a ha

set_option maxRecDepth 100000 in
/-- every non-zero element times its chain-254th power is 1 (enumeration of 255 elements) -/
theorem gmul_ginvChain : ∀ a, a < 256 → a ≠ 0 → gmul a (ginvChain a) = 1 := by
  decide +kernel

namespace GF256

/-! ## characteristic-2 facts on the core instances (no Mathlib needed for these) -/

theorem add_self (a : GF256) : a + a = 0 := by
  apply GF256.ext; simp

theorem sub_eq_add (a b : GF256) : a - b = a + b := rfl

theorem neg_eq (a : GF256) : -a = a := rfl

/-! ## the `Field` instance -/

instance instCommRing : CommRing GF256 where
  add := (· + ·)
  add_assoc a b c := by apply GF256.ext; simp [Nat.xor_assoc]
  zero := 0
  zero_add a := by apply GF256.ext; simp
  add_zero a := by apply GF256.ext; simp
  nsmul := nsmulRec
  neg := Neg.neg
  sub := (· - ·)
  sub_eq_add_neg _ _ := rfl
  zsmul := zsmulRec
  neg_add_cancel a := add_self a
  add_comm a b := by apply GF256.ext; simp [Nat.xor_comm]
  mul := (· * ·)
  left_distrib a b c := by apply GF256.ext; simp [gmul_xor_right]
  right_distrib a b c := by apply GF256.ext; simp [gmul_xor_left]
  zero_mul a := by apply GF256.ext; simp [gmul_zero_left]
  mul_zero a := by apply GF256.ext; simp [gmul_zero_right]
  mul_assoc a b c := by apply GF256.ext; simp [gmul_assoc a.isLt b.isLt c.isLt]
  one := 1
  one_mul a := by apply GF256.ext; simp [gmul_one_left a.isLt]
  mul_one a := by apply GF256.ext; simp [gmul_one_right a.isLt]
  npow n a := GF256.pow a n
  npow_zero _ := rfl
  npow_succ _ _ := rfl
  mul_comm a b := by apply GF256.ext; simp [gmul_comm a.isLt b.isLt]

/-! ## powers -/

/-- the core `GF256.pow` is Mathlib's monoid power -/
theorem pow_eq (a : GF256) (n : ℕ) : GF256.pow a n = a ^ n := rfl

theorem pow_val (a : GF256) (n : ℕ) : (a ^ n).val = gpow a.val n := by
  induction n with
  | zero => rfl
  | succ n ih => rw [pow_succ, mul_val, ih]; rfl

theorem gpow_254_eq_chain (a : GF256) : gpow a.val 254 = ginvChain a.val := by
  have h1 : a * a = a ^ 2 := (pow_two a).symm
  have h2 : a ^ 2 * a ^ 2 = a ^ 4 := by rw [← pow_add]
  have h3 : a ^ 4 * a ^ 4 = a ^ 8 := by rw [← pow_add]
  have h4 : a ^ 8 * a ^ 8 = a ^ 16 := by rw [← pow_add]
  have h5 : a ^ 16 * a ^ 16 = a ^ 32 := by rw [← pow_add]
  have h6 : a ^ 32 * a ^ 32 = a ^ 64 := by rw [← pow_add]
  have h7 : a ^ 64 * a ^ 64 = a ^ 128 := by rw [← pow_add]
  have key : a ^ 254 =
      a ^ 2 * (a ^ 4 * (a ^ 8 * (a ^ 16 * (a ^ 32 * (a ^ 64 * a ^ 128))))) := by
    simp only [← pow_add]
  have key' := congrArg GF256.val key
  rw [← h7, ← h6, ← h5, ← h4, ← h3, ← h2, ← h1, pow_val] at key'
  exact key'

/-- `⁻¹` is the 254th power -/
theorem inv_eq_pow (a : GF256) : a⁻¹ = a ^ 254 :=
  GF256.ext (by rw [inv_val, pow_val, gpow_254_eq_chain])

theorem gmul_gpow_254 : ∀ a, a < 256 → a ≠ 0 → gmul a (gpow a 254) = 1 := by
  intro a ha h0
  have := gpow_254_eq_chain ⟨a, ha⟩
  simp only at this
  rw [this]
  exact gmul_ginvChain a ha h0

instance instField : Field GF256 where
  __ := instCommRing
  inv := Inv.inv
  div := (· / ·)
  div_eq_mul_inv _ _ := rfl
  exists_pair_ne := ⟨0, 1, by decide⟩
  mul_inv_cancel a ha := by
    apply GF256.ext
    have h : a.val ≠ 0 := fun h => ha (GF256.ext h)
    simp [gmul_ginvChain a.val a.isLt h]
  inv_zero := by decide
  nnqsmul := _
  nnqsmul_def := fun _ _ => rfl
  qsmul := _
  qsmul_def := fun _ _ => rfl

/-! the operations of the `Field` instance are the core ones, by `rfl` -/
example (a b : GF256) :
    (HAdd.hAdd (self := @instHAdd _ instField.toAdd) a b).val = a.val ^^^ b.val := rfl
example (a b : GF256) :
    (HSub.hSub (self := @instHSub _ instField.toSub) a b).val = a.val ^^^ b.val := rfl
example (a b : GF256) :
    (HMul.hMul (self := @instHMul _ instField.toMul) a b).val = gmul a.val b.val := rfl
example (a : GF256) : (@Inv.inv _ instField.toInv a).val = ginvChain a.val := rfl
example (a : GF256) : (@Neg.neg _ instField.toNeg a) = a := rfl
example : (@Zero.zero _ instField.toZero : GF256).val = 0 := rfl
example : (@One.one _ instField.toOne : GF256).val = 1 := rfl
example (a b : GF256) : (HDiv.hDiv (self := @instHDiv _ instField.toDiv) a b).val
    = gmul a.val (ginvChain b.val) := rfl

theorem inv_zero' : (0 : GF256)⁻¹ = 0 := by decide

/-! ## characteristic 2 -/

instance instCharP : CharP GF256 2 :=
  CharTwo.of_one_ne_zero_of_two_eq_zero (by decide) (by
    show ((2 : ℕ) : GF256) = 0
    rw [Nat.cast_ofNat, ← one_add_one_eq_two]; exact add_self 1)

/-! ## `ofNat` -/

@[simp] theorem ofNat_val (n : Nat) : (ofNat n).val = n % 256 := rfl

theorem ofNat_injOn : ∀ a b, a < 256 → b < 256 → GF256.ofNat a = GF256.ofNat b → a = b := by
  intro a b ha hb h
  have h' : (ofNat a).val = (ofNat b).val := by rw [h]
  simpa [Nat.mod_eq_of_lt ha, Nat.mod_eq_of_lt hb] using h'

theorem ofNat_xor (a b : Nat) (ha : a < 256) (hb : b < 256) :
    GF256.ofNat (a ^^^ b) = GF256.ofNat a - GF256.ofNat b := by
  apply GF256.ext
  have hab : a ^^^ b < 256 := Nat.xor_lt_two_pow (n := 8) ha hb
  simp [Nat.mod_eq_of_lt ha, Nat.mod_eq_of_lt hb, Nat.mod_eq_of_lt hab]

theorem ofNat_xor_add (a b : Nat) (ha : a < 256) (hb : b < 256) :
    GF256.ofNat (a ^^^ b) = GF256.ofNat a + GF256.ofNat b :=
  ofNat_xor a b ha hb

theorem ofNat_val_self (a : GF256) : GF256.ofNat a.val = a :=
  GF256.ext (Nat.mod_eq_of_lt a.isLt)

end GF256
end RSV

#print axioms RSV.GF256.instCommRing
#print axioms RSV.GF256.instField
#print axioms RSV.GF256.instCharP
#print axioms RSV.gmul_comm
#print axioms RSV.gmul_assoc
#print axioms RSV.GF256.gmul_gpow_254
#print axioms RSV.GF256.add_self
#print axioms RSV.GF256.sub_eq_add
#print axioms RSV.GF256.neg_eq
#print axioms RSV.GF256.ofNat_injOn
#print axioms RSV.GF256.ofNat_xor
#print axioms RSV.GF256.ofNat_xor_add
#print axioms RSV.GF256.pow_eq
#print axioms RSV.GF256.inv_eq_pow
#print axioms RSV.GF256.pow_val
#print axioms RSV.GF256.inv_zero'
#print axioms RSV.GF256.ofNat_val_self
#print axioms RSV.gmul_ginvChain
