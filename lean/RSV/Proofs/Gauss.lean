import RSV.Model.Matrix
import Mathlib.Data.Matrix.Mul
import Mathlib.Algebra.Field.Basic
import Mathlib.Algebra.BigOperators.Fin
import Mathlib.LinearAlgebra.Matrix.NonsingularInverse

/-!
# Soundness and completeness of the modelled Gaussian elimination (`RSV.Model.invert`)

`RSV.Model.Matrix` is an executable, core-Lean model of `matrix.go`'s Gauss-Jordan inversion,
generic over a carrier with the core operation classes.  Here the carrier is any `Field F`
(the class arguments of the model are instantiated from the field structure) and the model is
related to Mathlib's `Matrix` through the abstraction `Mat.toMatrix`.

Main results (for `M N : Mat F n n`):

* `invert_sound      : invert M = some N → N.toMatrix * M.toMatrix = 1`
* `invert_sound'     : invert M = some N → M.toMatrix * N.toMatrix = 1`
* `invert_complete   : N' * M.toMatrix = 1 → (invert M).isSome`
* `invert_isSome_iff : (invert M).isSome ↔ IsUnit M.toMatrix`
* `invert_isSome_iff_det : (invert M).isSome ↔ IsUnit M.toMatrix.det`
* `invert_eq_none_iff : invert M = none ↔ ¬ IsUnit M.toMatrix`

Proof structure: every model row operation commutes with `toMatrix` to a row operation on
function matrices (`mSwap`, `mScale`, `mElim`); one column of the first sweep is the composite
`pivotOp`, one column of the second sweep is `elimUp`.  Invariants:

* `Lin L R M  : ∀ i, L i = R i ᵥ* M`   (soundness, no elementary matrices needed),
* `Inv1 k L` / `Inv2 k L`               (shape after `k` columns of sweep 1 / sweep 2),
* `Ker L M`                             (every vector killed by all rows of `L` is killed by `M`);
  at a pivot-less column the shape `Inv1` yields a non-zero kernel vector, contradicting
  left-invertibility of `M`.
-/

open Matrix

namespace RSV.Model

/-! ### `findFirst` specification -/

theorem findFirst_some : ∀ {n : Nat} {p : Fin n → Bool} {i : Fin n},
    findFirst p = some i → p i = true
  | 0, _, i, _ => i.elim0
  | n+1, p, i, h => by
    cases hq : findFirst (fun i : Fin n => p i.castSucc) with
    | some j =>
      simp only [findFirst, hq, Option.some.injEq] at h
      subst h
      exact findFirst_some (p := fun i : Fin n => p i.castSucc) hq
    | none =>
      simp only [findFirst, hq] at h
      split at h
      next hl => simp only [Option.some.injEq] at h; subst h; exact hl
      next => cases h

theorem findFirst_none : ∀ {n : Nat} {p : Fin n → Bool},
    findFirst p = none → ∀ i, p i = false
  | 0, _, _, i => i.elim0
  | n+1, p, h, i => by
    cases hq : findFirst (fun i : Fin n => p i.castSucc) with
    | some j => simp [findFirst, hq] at h
    | none =>
      simp only [findFirst, hq] at h
      split at h
      next => cases h
      next hl =>
        refine Fin.lastCases ?_ (fun j => ?_) i
        · simpa using hl
        · exact findFirst_none (p := fun i : Fin n => p i.castSucc) hq j

/-- minimality: nothing before the returned index satisfies `p` -/
theorem findFirst_min : ∀ {n : Nat} {p : Fin n → Bool} {i : Fin n},
    findFirst p = some i → ∀ j, j < i → p j = false
  | 0, _, i, _ => i.elim0
  | n+1, p, i, h => by
    intro j hj
    cases hq : findFirst (fun i : Fin n => p i.castSucc) with
    | some k =>
      simp only [findFirst, hq, Option.some.injEq] at h
      subst h
      have := findFirst_min (p := fun i : Fin n => p i.castSucc) hq
        ⟨j.val, lt_trans (Fin.lt_def.mp hj) k.isLt⟩ (by simpa [Fin.lt_def] using hj)
      simpa using this
    | none =>
      simp only [findFirst, hq] at h
      split at h
      next hl =>
        simp only [Option.some.injEq] at h; subst h
        have := findFirst_none (p := fun i : Fin n => p i.castSucc) hq
          ⟨j.val, by simpa [Fin.lt_def] using hj⟩
        simpa using this
      next => cases h

theorem findFirst_isSome_iff {n : Nat} {p : Fin n → Bool} :
    (findFirst p).isSome ↔ ∃ i, p i = true := by
  constructor
  · intro h
    obtain ⟨i, hi⟩ := Option.isSome_iff_exists.mp h
    exact ⟨i, findFirst_some hi⟩
  · rintro ⟨i, hi⟩
    cases hq : findFirst p with
    | some j => rfl
    | none => rw [findFirst_none hq i] at hi; cases hi

/-! ### `swapIdx` -/

section swapIdx
variable {n : Nat}

@[simp] theorem swapIdx_left (a b : Fin n) : swapIdx a b a = b := by simp [swapIdx]

@[simp] theorem swapIdx_right (a b : Fin n) : swapIdx a b b = a := by
  unfold swapIdx; split
  next h => exact h
  next => simp

theorem swapIdx_of_ne {a b r : Fin n} (h1 : r ≠ a) (h2 : r ≠ b) : swapIdx a b r = r := by
  simp [swapIdx, h1, h2]

@[simp] theorem swapIdx_swapIdx (a b r : Fin n) : swapIdx a b (swapIdx a b r) = r := by
  by_cases h1 : r = a
  · subst h1; simp
  · by_cases h2 : r = b
    · subst h2; simp
    · rw [swapIdx_of_ne h1 h2, swapIdx_of_ne h1 h2]

theorem swapIdx_eq_swap (a b r : Fin n) : swapIdx a b r = Equiv.swap a b r := by
  by_cases h1 : r = a
  · subst h1; simp
  · by_cases h2 : r = b
    · subst h2; simp
    · rw [swapIdx_of_ne h1 h2, Equiv.swap_apply_of_ne_of_ne h1 h2]

end swapIdx

/-! ### abstraction to Mathlib matrices -/

variable {F : Type} [Field F] {n m k : ℕ}

/-- abstraction function: the Mathlib matrix denoted by a model matrix -/
def Mat.toMatrix {F : Type} {n m : ℕ} (A : Mat F n m) : Matrix (Fin n) (Fin m) F :=
  Matrix.of fun i j => A.get i j

@[simp] theorem Mat.toMatrix_apply {F : Type} {n m : ℕ} (A : Mat F n m) (i : Fin n) (j : Fin m) :
    A.toMatrix i j = A.get i j := rfl

@[simp] theorem Mat.toMatrix_ofFn {F : Type} {n m : ℕ} (f : Fin n → Fin m → F) :
    (Mat.ofFn f).toMatrix = Matrix.of f := by
  ext i j; simp

theorem Mat.toMatrix_injective {F : Type} {n m : ℕ} :
    Function.Injective (Mat.toMatrix : Mat F n m → Matrix (Fin n) (Fin m) F) := by
  intro A B h
  apply Mat.ext_get
  intro i j
  exact congrFun (congrFun h i) j

@[simp] theorem Mat.toMatrix_inj {F : Type} {n m : ℕ} {A B : Mat F n m} :
    A.toMatrix = B.toMatrix ↔ A = B := Mat.toMatrix_injective.eq_iff

@[simp] theorem toMatrix_identity : (identity n : Mat F n n).toMatrix = 1 := by
  ext i j; simp [identity, Matrix.one_apply]

theorem finSum_eq_sum {G : Type} [AddCommMonoid G] : ∀ {n : ℕ} (f : Fin n → G),
    finSum f = ∑ i, f i
  | 0, _ => by simp [finSum]
  | n+1, f => by rw [finSum, finSum_eq_sum, Fin.sum_univ_castSucc]

@[simp] theorem toMatrix_mulMat (A : Mat F n k) (B : Mat F k m) :
    (mulMat A B).toMatrix = A.toMatrix * B.toMatrix := by
  ext i j; simp [mulMat, Matrix.mul_apply, finSum_eq_sum]

/-! ### row operations on function matrices, and the model operations refine them -/

/-- rows `a` and `b` exchanged -/
def mSwap (A : Matrix (Fin n) (Fin m) F) (a b : Fin n) : Matrix (Fin n) (Fin m) F :=
  fun r => A (swapIdx a b r)
/-- row `i` multiplied by `c` -/
def mScale (A : Matrix (Fin n) (Fin m) F) (i : Fin n) (c : F) : Matrix (Fin n) (Fin m) F :=
  fun r => if r = i then c • A i else A r
/-- `coef i` times row `r` subtracted from every row `i` -/
def mElim (A : Matrix (Fin n) (Fin m) F) (r : Fin n) (coef : Fin n → F) :
    Matrix (Fin n) (Fin m) F :=
  fun i => A i - coef i • A r

omit [Field F] in
theorem toMatrix_rowSwap (A : Mat F n m) (a b : Fin n) :
    (rowSwap A a b).toMatrix = mSwap A.toMatrix a b := by
  ext r j; simp [rowSwap, mSwap]

theorem toMatrix_rowScale (A : Mat F n m) (i : Fin n) (c : F) :
    (rowScale A i c).toMatrix = mScale A.toMatrix i c := by
  ext r j
  by_cases h : r = i <;> simp [rowScale, mScale, h]

theorem toMatrix_rowElim (A : Mat F n m) (r : Fin n) (coef : Fin n → F) :
    (rowElim A r coef).toMatrix = mElim A.toMatrix r coef := by
  ext i j; simp [rowElim, mElim]

/-- One column of the first sweep applied to `A`, driven by the left half `L`:
swap rows `r`,`p`; scale row `r` by the inverse of the pivot; clear column `r` below row `r`. -/
def pivotOp (A L : Matrix (Fin n) (Fin n) F) (r p : Fin n) : Matrix (Fin n) (Fin n) F :=
  let c := (mSwap L r p r r)⁻¹
  mElim (mScale (mSwap A r p) r c) r (fun i => if r < i then mScale (mSwap L r p) r c i r else 0)

/-- One column of the second sweep applied to `A`, driven by `L`: clear column `d` above row `d`. -/
def elimUp (A L : Matrix (Fin n) (Fin n) F) (d : Fin n) : Matrix (Fin n) (Fin n) F :=
  mElim A d (fun i => if i < d then L i d else 0)

theorem step1_eq_some [DecidableEq F] {r : Fin n} {s s' : GState F n} (hs : step1 r s = some s') :
    ∃ p : Fin n, r ≤ p ∧ s.L.toMatrix p r ≠ 0 ∧
      (∀ i, r ≤ i → i < p → s.L.toMatrix i r = 0) ∧
      s'.L.toMatrix = pivotOp s.L.toMatrix s.L.toMatrix r p ∧
      s'.R.toMatrix = pivotOp s.R.toMatrix s.L.toMatrix r p := by
  unfold step1 at hs
  split at hs
  · cases hs
  next p hp =>
    have h1 := findFirst_some hp
    have h2 := findFirst_min hp
    simp only [Bool.and_eq_true, decide_eq_true_eq] at h1
    simp only [Option.some.injEq] at hs
    subst hs
    refine ⟨p, h1.1, h1.2, ?_, ?_, ?_⟩
    · intro i hri hip
      have := h2 i hip
      simpa [hri] using this
    · simp only [toMatrix_rowElim, toMatrix_rowScale, toMatrix_rowSwap, pivotOp,
        ← Mat.toMatrix_apply]
    · simp only [toMatrix_rowElim, toMatrix_rowScale, toMatrix_rowSwap, pivotOp,
        ← Mat.toMatrix_apply]

theorem step1_eq_none [DecidableEq F] {r : Fin n} {s : GState F n} (hs : step1 r s = none) :
    ∀ i, r ≤ i → s.L.toMatrix i r = 0 := by
  unfold step1 at hs
  split at hs
  next hnone =>
    intro i hri
    have := findFirst_none hnone i
    simpa [hri] using this
  · cases hs

theorem step2_L (d : Fin n) (s : GState F n) :
    (step2 d s).L.toMatrix = elimUp s.L.toMatrix s.L.toMatrix d := by
  simp only [step2, toMatrix_rowElim, elimUp, ← Mat.toMatrix_apply]

theorem step2_R (d : Fin n) (s : GState F n) :
    (step2 d s).R.toMatrix = elimUp s.R.toMatrix s.L.toMatrix d := by
  simp only [step2, toMatrix_rowElim, elimUp, ← Mat.toMatrix_apply]

/-! ### soundness invariant -/

/-- every row of `L` is the corresponding row of `R` times `M`, i.e. `L = R * M` -/
def Lin (L R M : Matrix (Fin n) (Fin n) F) : Prop := ∀ i, L i = (R i) ᵥ* M

theorem lin_swap {L R M : Matrix (Fin n) (Fin n) F} (h : Lin L R M) (i j : Fin n) :
    Lin (mSwap L i j) (mSwap R i j) M := fun _ => h _

theorem lin_scale {L R M : Matrix (Fin n) (Fin n) F} (h : Lin L R M) (i : Fin n) (c : F) :
    Lin (mScale L i c) (mScale R i c) M := by
  intro r; simp only [mScale]; split
  · rw [h i, smul_vecMul]
  · exact h r

theorem lin_elim {L R M : Matrix (Fin n) (Fin n) F} (h : Lin L R M) (r : Fin n)
    (coef : Fin n → F) : Lin (mElim L r coef) (mElim R r coef) M := by
  intro i; simp only [mElim]; rw [h i, h r, sub_vecMul, smul_vecMul]

theorem lin_pivotOp {L R M : Matrix (Fin n) (Fin n) F} (h : Lin L R M) (r p : Fin n) :
    Lin (pivotOp L L r p) (pivotOp R L r p) M :=
  lin_elim (lin_scale (lin_swap h _ _) _ _) _ _

theorem lin_elimUp {L R M : Matrix (Fin n) (Fin n) F} (h : Lin L R M) (d : Fin n) :
    Lin (elimUp L L d) (elimUp R L d) M :=
  lin_elim h _ _

/-! ### shape invariants -/

/-- columns `< k` have `1` on the diagonal and `0` below it -/
def Inv1 (k : ℕ) (L : Matrix (Fin n) (Fin n) F) : Prop :=
  ∀ j : Fin n, j.val < k → L j j = 1 ∧ ∀ i, j < i → L i j = 0

theorem inv1_pivotOp {L : Matrix (Fin n) (Fin n) F} {r p : Fin n} (h : Inv1 r.val L)
    (hrp : r ≤ p) (hpne : L p r ≠ 0) : Inv1 (r.val + 1) (pivotOp L L r p) := by
  have hL1_low : ∀ j : Fin n, j < r → ∀ i, j < i → mSwap L r p i j = 0 := by
    intro j hj i hji; simp only [mSwap]; apply (h j hj).2
    by_cases h1 : i = r
    · subst h1; rw [swapIdx_left]; exact lt_of_lt_of_le hj hrp
    · by_cases h2 : i = p
      · subst h2; rw [swapIdx_right]; exact hj
      · rw [swapIdx_of_ne h1 h2]; exact hji
  have hL1_diag : ∀ j : Fin n, j < r → mSwap L r p j j = 1 := by
    intro j hj; simp only [mSwap]
    rw [swapIdx_of_ne (ne_of_lt hj) (ne_of_lt (lt_of_lt_of_le hj hrp))]
    exact (h j hj).1
  have hL1_rr : mSwap L r p r r ≠ 0 := by
    simp only [mSwap, swapIdx_left]; exact hpne
  intro j hj
  rcases Nat.lt_succ_iff_lt_or_eq.mp hj with hjr | hjr
  · have hjr' : j < r := hjr
    have hne : j ≠ r := ne_of_lt hjr'
    constructor
    · simp only [pivotOp, mElim, mScale, hne, if_false, Pi.sub_apply, Pi.smul_apply, smul_eq_mul,
        if_true]
      have : ¬ r < j := not_lt.mpr (le_of_lt hjr')
      simp [this, hL1_diag j hjr']
    · intro i hji
      simp only [pivotOp, mElim, mScale, Pi.sub_apply, Pi.smul_apply, smul_eq_mul, if_true]
      have hrj : mSwap L r p r j = 0 := hL1_low j hjr' r hjr'
      by_cases hir : i = r
      · subst hir; simp [hrj]
      · simp [hir, hL1_low j hjr' i hji, hrj]
  · have hjr' : j = r := Fin.ext hjr
    subst hjr'
    constructor
    · simp only [pivotOp, mElim, mScale, if_true, Pi.sub_apply, Pi.smul_apply, smul_eq_mul,
        lt_irrefl, if_false, zero_mul, sub_zero]
      exact inv_mul_cancel₀ hL1_rr
    · intro i hji
      have hne : i ≠ j := ne_of_gt hji
      simp only [pivotOp, mElim, mScale, hne, if_false, if_true, Pi.sub_apply, Pi.smul_apply,
        smul_eq_mul, hji]
      rw [inv_mul_cancel₀ hL1_rr, mul_one, sub_self]

/-- unit lower triangular, and columns `< k` are already `0` above the diagonal -/
def Inv2 (k : ℕ) (L : Matrix (Fin n) (Fin n) F) : Prop :=
  (∀ j : Fin n, L j j = 1 ∧ ∀ i, j < i → L i j = 0) ∧
  ∀ j : Fin n, j.val < k → ∀ i, i < j → L i j = 0

theorem inv2_elimUp {L : Matrix (Fin n) (Fin n) F} {d : Fin n} (h : Inv2 d.val L) :
    Inv2 (d.val + 1) (elimUp L L d) := by
  obtain ⟨htri, hup⟩ := h
  refine ⟨fun j => ⟨?_, fun i hji => ?_⟩, fun j hj i hij => ?_⟩
  · simp only [elimUp, mElim, Pi.sub_apply, Pi.smul_apply, smul_eq_mul]
    by_cases hjd : j < d
    · simp [hjd, (htri j).2 d hjd, (htri j).1]
    · simp [hjd, (htri j).1]
  · simp only [elimUp, mElim, Pi.sub_apply, Pi.smul_apply, smul_eq_mul]
    by_cases hid : i < d
    · simp [hid, (htri j).2 i hji, (htri j).2 d (lt_trans hji hid)]
    · simp [hid, (htri j).2 i hji]
  · simp only [elimUp, mElim, Pi.sub_apply, Pi.smul_apply, smul_eq_mul]
    rcases Nat.lt_succ_iff_lt_or_eq.mp hj with hjd | hjd
    · have hjd' : j < d := hjd
      have hid : i < d := lt_trans hij hjd'
      simp [hid, hup j hjd i hij, (htri j).2 d hjd']
    · have : j = d := Fin.ext hjd
      subst this
      simp [hij, (htri j).1]

/-! ### kernel invariant (completeness) -/

/-- anything killed by all rows of `L` is killed by all rows of `M` -/
def Ker (L M : Matrix (Fin n) (Fin n) F) : Prop :=
  ∀ v : Fin n → F, (∀ i, L i ⬝ᵥ v = 0) → ∀ i, M i ⬝ᵥ v = 0

theorem ker_swap {L M : Matrix (Fin n) (Fin n) F} (h : Ker L M) (i j : Fin n) :
    Ker (mSwap L i j) M := by
  intro v hv; apply h v; intro k
  have := hv (swapIdx i j k); simpa [mSwap] using this

theorem ker_scale {L M : Matrix (Fin n) (Fin n) F} (h : Ker L M) (i : Fin n) {c : F}
    (hc : c ≠ 0) : Ker (mScale L i c) M := by
  intro v hv; apply h v; intro k
  have := hv k; simp only [mScale] at this
  split at this
  next hk =>
    subst hk; rw [smul_dotProduct, smul_eq_mul] at this
    exact (mul_eq_zero.mp this).resolve_left hc
  · exact this

theorem ker_elim {L M : Matrix (Fin n) (Fin n) F} (h : Ker L M) (r : Fin n) (coef : Fin n → F)
    (hr : coef r = 0) : Ker (mElim L r coef) M := by
  intro v hv; apply h v
  have hrow : L r ⬝ᵥ v = 0 := by have := hv r; simpa [mElim, hr] using this
  intro k; have := hv k
  simp only [mElim, sub_dotProduct, smul_dotProduct, smul_eq_mul, hrow, mul_zero, sub_zero] at this
  exact this

theorem ker_pivotOp {L M : Matrix (Fin n) (Fin n) F} (h : Ker L M) {r p : Fin n}
    (hpne : L p r ≠ 0) : Ker (pivotOp L L r p) M := by
  unfold pivotOp
  apply ker_elim
  · apply ker_scale (ker_swap h _ _); apply inv_ne_zero
    simp only [mSwap, swapIdx_left]; exact hpne
  · simp

/-- at a column with no pivot, the shape forces a kernel vector -/
theorem exists_kernel_of_no_pivot {L : Matrix (Fin n) (Fin n) F} {r : Fin n}
    (hinv : Inv1 r.val L) (hcol : ∀ i, r ≤ i → L i r = 0) :
    ∃ v : Fin n → F, v r = 1 ∧ ∀ i, L i ⬝ᵥ v = 0 := by
  have key : ∀ t : ℕ, t ≤ r.val → ∃ v : Fin n → F, v r = 1 ∧
      ∀ i : Fin n, r.val - t ≤ i.val → L i ⬝ᵥ v = 0 := by
    intro t
    induction t with
    | zero =>
      intro _
      refine ⟨Pi.single r 1, by simp, fun i hi => ?_⟩
      rw [dotProduct_single, mul_one]; exact hcol i (by simpa using hi)
    | succ t ih =>
      intro ht
      obtain ⟨v, hv1, hv⟩ := ih (Nat.le_of_succ_le ht)
      have hklt : r.val - (t+1) < n := lt_of_le_of_lt (Nat.sub_le _ _) r.isLt
      let k : Fin n := ⟨r.val - (t+1), hklt⟩
      have hkr : k < r := by show r.val - (t+1) < r.val; omega
      have hkk : L k k = 1 := (hinv k hkr).1
      have hbelow : ∀ i, k < i → L i k = 0 := (hinv k hkr).2
      refine ⟨v - (L k ⬝ᵥ v) • Pi.single k 1, ?_, fun i hi => ?_⟩
      · simp [hv1, Pi.single_eq_of_ne (ne_of_gt hkr)]
      · rw [dotProduct_sub, dotProduct_smul, dotProduct_single, mul_one, smul_eq_mul]
        by_cases hik : i = k
        · subst hik; rw [hkk, mul_one, sub_self]
        · have hki : k < i := by
            have h1 : k.val ≤ i.val := hi
            exact lt_of_le_of_ne h1 (fun h => hik (h ▸ rfl))
          rw [hbelow i hki, mul_zero, sub_zero]
          apply hv
          have : k.val < i.val := hki
          show r.val - t ≤ i.val
          simp only [k] at this; omega
  obtain ⟨v, hv1, hv⟩ := key r.val le_rfl
  exact ⟨v, hv1, fun i => hv i (by simp)⟩

/-! ### the two sweeps -/

theorem phase1_spec [DecidableEq F] (M : Mat F n n) : ∀ (k : ℕ) (hk : k ≤ n) (s : GState F n),
    phase1 (⟨M, identity n⟩ : GState F n) k hk = some s →
      Lin s.L.toMatrix s.R.toMatrix M.toMatrix ∧ Inv1 k s.L.toMatrix ∧
      Ker s.L.toMatrix M.toMatrix := by
  intro k
  induction k with
  | zero =>
    intro hk s hs
    simp only [phase1, Option.some.injEq] at hs; subst hs
    refine ⟨fun i => ?_, fun j hj => absurd hj (Nat.not_lt_zero _), fun v hv => hv⟩
    show M.toMatrix i = (identity n : Mat F n n).toMatrix i ᵥ* M.toMatrix
    rw [toMatrix_identity]
    ext j; simp [vecMul, dotProduct, Matrix.one_apply]
  | succ k ih =>
    intro hk s hs
    simp only [phase1] at hs
    cases hprev : phase1 (⟨M, identity n⟩ : GState F n) k (Nat.le_of_succ_le hk) with
    | none => rw [hprev] at hs; cases hs
    | some s0 =>
      rw [hprev] at hs; simp only [Option.bind_some] at hs
      obtain ⟨hl, hi, hker⟩ := ih _ s0 hprev
      obtain ⟨p, hrp, hpne, -, hL, hR⟩ := step1_eq_some hs
      rw [hL, hR]
      exact ⟨lin_pivotOp hl _ _, inv1_pivotOp (r := ⟨k, hk⟩) hi hrp hpne, ker_pivotOp hker hpne⟩

theorem phase2_spec {M : Matrix (Fin n) (Fin n) F} {s : GState F n}
    (hl : Lin s.L.toMatrix s.R.toMatrix M) (hi : Inv1 n s.L.toMatrix) :
    ∀ (k : ℕ) (hk : k ≤ n),
      Lin (phase2 s k hk).L.toMatrix (phase2 s k hk).R.toMatrix M ∧
      Inv2 k (phase2 s k hk).L.toMatrix := by
  intro k
  induction k with
  | zero => intro hk; exact ⟨hl, fun j => hi j j.isLt, fun j hj => absurd hj (Nat.not_lt_zero _)⟩
  | succ k ih =>
    intro hk
    obtain ⟨h1, h2⟩ := ih (Nat.le_of_succ_le hk)
    simp only [phase2, step2_L, step2_R]
    exact ⟨lin_elimUp h1 _, inv2_elimUp (d := ⟨k, hk⟩) h2⟩

/-- after both sweeps the left half is the identity -/
theorem eq_one_of_inv2 {L : Matrix (Fin n) (Fin n) F} (h : Inv2 n L) : L = 1 := by
  obtain ⟨htri, hup⟩ := h
  ext i j; rw [Matrix.one_apply]
  rcases lt_trichotomy i j with hij | hij | hij
  · rw [hup j j.isLt i hij, if_neg (ne_of_lt hij)]
  · subst hij; rw [(htri i).1, if_pos rfl]
  · rw [(htri j).2 i hij, if_neg (ne_of_gt hij)]

/-! ### main theorems -/

/-- **Soundness**: a returned matrix is a left inverse. -/
theorem invert_sound [DecidableEq F] (M N : Mat F n n) (h : invert M = some N) :
    N.toMatrix * M.toMatrix = 1 := by
  unfold invert at h
  cases h1 : phase1 (⟨M, identity n⟩ : GState F n) n (Nat.le_refl n) with
  | none => rw [h1] at h; cases h
  | some s =>
    rw [h1] at h
    simp only [Option.map_some, Option.some.injEq] at h
    obtain ⟨hl, hi, -⟩ := phase1_spec M n (Nat.le_refl n) s h1
    obtain ⟨hl2, hinv2⟩ := phase2_spec hl hi n (Nat.le_refl n)
    subst h
    have hL := eq_one_of_inv2 hinv2
    ext i j
    have := congrFun (hl2 i) j
    rw [hL] at this
    rw [this]; rfl

/-- **Soundness**, right-inverse form. -/
theorem invert_sound' [DecidableEq F] (M N : Mat F n n) (h : invert M = some N) :
    M.toMatrix * N.toMatrix = 1 :=
  mul_eq_one_comm.mp (invert_sound M N h)

theorem phase1_complete [DecidableEq F] (M : Mat F n n) (N' : Matrix (Fin n) (Fin n) F)
    (hN : N' * M.toMatrix = 1) : ∀ (k : ℕ) (hk : k ≤ n),
    (phase1 (⟨M, identity n⟩ : GState F n) k hk).isSome := by
  intro k
  induction k with
  | zero => intro _; simp [phase1]
  | succ k ih =>
    intro hk
    have hprev := ih (Nat.le_of_succ_le hk)
    obtain ⟨s0, hs0⟩ := Option.isSome_iff_exists.mp hprev
    simp only [phase1, hs0, Option.bind_some]
    obtain ⟨_, hi, hker⟩ := phase1_spec M k _ s0 hs0
    cases hstep : step1 (⟨k, hk⟩ : Fin n) s0 with
    | some s1 => rfl
    | none =>
      exfalso
      obtain ⟨v, hv1, hv⟩ := exists_kernel_of_no_pivot (r := ⟨k, hk⟩) hi (step1_eq_none hstep)
      have hMv : M.toMatrix *ᵥ v = 0 := by ext i; exact hker v hv i
      have : v = 0 := by
        have := congrArg (fun w => N' *ᵥ w) hMv
        simpa [Matrix.mulVec_mulVec, hN] using this
      rw [this] at hv1; simp at hv1

/-- **Completeness**: on a left-invertible matrix the elimination never reports `errSingular`. -/
theorem invert_complete [DecidableEq F] (M : Mat F n n) (N' : Matrix (Fin n) (Fin n) F)
    (hN : N' * M.toMatrix = 1) : (invert M).isSome := by
  unfold invert; simpa using phase1_complete M N' hN n (Nat.le_refl n)

theorem invert_isSome_iff [DecidableEq F] (M : Mat F n n) : (invert M).isSome ↔ IsUnit M.toMatrix := by
  constructor
  · intro h
    obtain ⟨N, hN⟩ := Option.isSome_iff_exists.mp h
    exact ⟨⟨M.toMatrix, N.toMatrix, invert_sound' M N hN, invert_sound M N hN⟩, rfl⟩
  · intro h
    obtain ⟨N', hN'⟩ := h.exists_left_inv
    exact invert_complete M N' hN'

theorem invert_isSome_iff_det [DecidableEq F] (M : Mat F n n) : (invert M).isSome ↔ IsUnit M.toMatrix.det := by
  rw [invert_isSome_iff, Matrix.isUnit_iff_isUnit_det]

theorem invert_eq_none_iff [DecidableEq F] (M : Mat F n n) : invert M = none ↔ ¬ IsUnit M.toMatrix := by
  rw [← invert_isSome_iff, Option.not_isSome_iff_eq_none]

theorem invert_eq_none_iff_det [DecidableEq F] (M : Mat F n n) : invert M = none ↔ M.toMatrix.det = 0 := by
  rw [invert_eq_none_iff, Matrix.isUnit_iff_isUnit_det, isUnit_iff_ne_zero, not_not]

/-- the result of `invert` is *the* inverse: it agrees with Mathlib's `⁻¹` -/
theorem invert_eq_some_iff [DecidableEq F] (M N : Mat F n n) :
    invert M = some N ↔ N.toMatrix * M.toMatrix = 1 := by
  constructor
  · exact invert_sound M N
  · intro h
    obtain ⟨N₂, hN₂⟩ := Option.isSome_iff_exists.mp (invert_complete M _ h)
    have h2 := invert_sound' M N₂ hN₂
    have : N.toMatrix = N₂.toMatrix := by
      calc N.toMatrix = N.toMatrix * (M.toMatrix * N₂.toMatrix) := by rw [h2, mul_one]
        _ = N₂.toMatrix := by rw [← mul_assoc, h, one_mul]
    rw [hN₂, Mat.toMatrix_injective this]

end RSV.Model

#print axioms RSV.Model.invert_sound
#print axioms RSV.Model.invert_sound'
#print axioms RSV.Model.invert_complete
#print axioms RSV.Model.invert_isSome_iff
#print axioms RSV.Model.invert_eq_some_iff
