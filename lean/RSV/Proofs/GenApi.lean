import RSV.Gen.ApiGo
import RSV.Model.Api
/-!
# The regenerated argument-validation helpers of `reedsolomon.go` (`RSV.Gen.ApiGo`) equal the model (`RSV.Model.Api`)

`RSV.Gen.ApiGo` is regenerated on every run from `reedsolomon.go` by the shape mode of the Go-subset → Lean
translator: a `[][]byte` parameter is the array of the LENGTHS of its shards (the translator rejects every other
use of a shard), loops are `forIn` over index ranges in the `Option` monad (`none` = panic), `error` is
`Option String` (the name of the Go sentinel variable).  Core Lean only; nothing of `MatrixGo` is imported.

Proof technique: `forIn_range_shIdx` turns a translated `for _, shard := range shards` (a loop over the index
range that first reads `shards[i]`) into a `forIn` over the LIST of lengths; the closed form of each loop is then an
induction over the list.
-/
namespace RSV.GenApi
open RSV RSV.Gen
open RSV.Model.Api (Sh E)

/-- the translator's view of a list of shard shapes: the array of the lengths -/
def lens (s : List Sh) : Array Nat := (s.map Sh.len).toArray

/-- the Go variable that holds the sentinel error -/
def errName : E → String
  | .tooFewShards => "ErrTooFewShards"
  | .shardNoData => "ErrShardNoData"
  | .shardSize => "ErrShardSize"
  | .invalidShardSize => "ErrInvalidShardSize"
  | .invShardNum => "ErrInvShardNum"
  | .maxShardNum => "ErrMaxShardNum"
  | .invalidInput => "ErrInvalidInput"
  | .shortData => "ErrShortData"
  | .reconstructRequired => "ErrReconstructRequired"
  | .notSupported => "ErrNotSupported"
  | .reconMismatch => "ErrReconstructMismatch"
  | .other => "other"

/-! ## slices as arrays, loops over a slice -/

theorem shIdx_nat {α : Type} [Inhabited α] (a : Array α) (i : Nat) (h : i < a.size) :
    shIdx a (Int.ofNat i) = some a[i] := by
  unfold shIdx
  have h0 : (0 : Int) ≤ Int.ofNat i := Int.natCast_nonneg i
  have h1 : Int.toNat (Int.ofNat i) = i := Int.toNat_natCast i
  simp only [h0, h1, h, and_self, if_true]
  rw [getElem!_pos a i h]

theorem forIn_range'_shIdx {β : Type} (l : List Nat) (body : Nat → β → Option (ForInStep β)) :
    ∀ (n s : Nat) (b : β), s + n = l.length →
      forIn (List.range' s n 1) b (fun i r => shIdx l.toArray (Int.ofNat i) >>= fun x => body x r)
        = forIn (l.drop s) b body := by
  intro n
  induction n with
  | zero =>
    intro s b h
    have : l.drop s = [] := List.drop_eq_nil_of_le (by omega)
    rw [this]; rfl
  | succ n ih =>
    intro s b h
    have hs : s < l.length := by omega
    rw [List.range'_succ, List.drop_eq_getElem_cons hs, List.forIn_cons, List.forIn_cons,
      shIdx_nat l.toArray s (by simpa using hs)]
    simp only [Option.bind_eq_bind, Option.bind_some, List.getElem_toArray]
    cases body l[s] b with
    | none => rfl
    | some st =>
      cases st with
      | done b' => rfl
      | yield b' =>
        simp only [Option.bind_some]
        exact ih (s + 1) b' (by omega)

/-- `for _, x := range a { body }` as the translator writes it is a loop over the elements of `a` -/
theorem forIn_range_shIdx {β : Type} (l : List Nat) (body : Nat → β → Option (ForInStep β)) (b : β) :
    forIn [:l.toArray.size] b (fun i r => shIdx l.toArray (Int.ofNat i) >>= fun x => body x r)
      = forIn l b body := by
  rw [Std.Legacy.Range.forIn_eq_forIn_range']
  simp only [Std.Legacy.Range.size, List.size_toArray, Nat.sub_zero, Nat.add_sub_cancel, Nat.div_one]
  have := forIn_range'_shIdx l body l.length 0 b (by omega)
  simpa using this

/-- the same, with the monadic bind of `Option` unfolded -/
theorem forIn_range_shIdx_bind {β : Type} (l : List Nat) (body : Nat → β → Option (ForInStep β)) (b : β) :
    forIn [:l.toArray.size] b (fun i r => (shIdx l.toArray (Int.ofNat i)).bind fun x => body x r)
      = forIn l b body := forIn_range_shIdx l body b

/-! ## `shardSize` -/

/-- the loop of `shardSize`: stops at the first non-zero length -/
theorem shardSize_loop (s : List Sh) :
    forIn (s.map Sh.len) ((none : Option Int), ()) (fun shard (_ : Option Int × Unit) =>
        if Int.ofNat shard ≠ 0 then (pure (ForInStep.done (some (Int.ofNat shard), ())) : Option _)
        else pure (ForInStep.yield (none, ())))
      = some (if Model.Api.shardSize s = 0 then none else some (Int.ofNat (Model.Api.shardSize s)), ()) := by
  induction s with
  | nil => rfl
  | cons x t ih =>
    rw [List.map_cons, List.forIn_cons]
    by_cases hx : x.len = 0
    · have h1 : ¬ (Int.ofNat x.len ≠ 0) := by simp [hx]
      have h2 : Model.Api.shardSize (x :: t) = Model.Api.shardSize t := by
        simp [Model.Api.shardSize, hx]
      rw [if_neg h1, h2]
      simpa using ih
    · have h1 : Int.ofNat x.len ≠ 0 := by
        intro h; exact hx (by simpa using h)
      have h2 : Model.Api.shardSize (x :: t) = x.len := by
        simp [Model.Api.shardSize, hx]
      rw [if_pos h1, h2, if_neg hx]
      rfl

theorem shardSize_eq (s : List Sh) : Gen.shardSize (lens s) = some (Int.ofNat (Model.Api.shardSize s)) := by
  unfold Gen.shardSize lens
  simp only []
  rw [forIn_range_shIdx (s.map Sh.len), shardSize_loop]
  by_cases h : Model.Api.shardSize s = 0
  · simp [h]
  · simp [h]

/-! ## `checkShards` -/

/-- the loop of `checkShards`: stops at the first shard whose length is neither `size` nor (when `nilok`) zero -/
theorem checkShards_loop (n : Nat) (nilok : Bool) (s : List Sh) :
    forIn (s.map Sh.len) ((none : Option (Option String)), ()) (fun shard (_ : Option (Option String) × Unit) =>
        if Int.ofNat shard ≠ Int.ofNat n then
          if Int.ofNat shard ≠ 0 ∨ (!nilok) = true then
            (pure (ForInStep.done (some (some "ErrShardSize"), ())) : Option _)
          else pure (ForInStep.yield (none, ()))
        else pure (ForInStep.yield (none, ())))
      = some (if s.any (fun x => x.len ≠ n && (x.len ≠ 0 || !nilok)) then some (some "ErrShardSize") else none, ()) := by
  induction s with
  | nil => rfl
  | cons x t ih =>
    rw [List.map_cons, List.forIn_cons, List.any_cons]
    have e1 : (Int.ofNat x.len ≠ Int.ofNat n) ↔ x.len ≠ n := by
      constructor
      · intro h e; exact h (by rw [e])
      · intro h e; exact h (Int.ofNat.inj e)
    have e2 : (Int.ofNat x.len ≠ 0) ↔ x.len ≠ 0 := by
      constructor
      · intro h e; exact h (by rw [e]; rfl)
      · intro h e; exact h (Int.ofNat.inj e)
    by_cases h1 : x.len = n
    · have : ¬ (Int.ofNat x.len ≠ Int.ofNat n) := by rw [e1]; exact fun h => h h1
      rw [if_neg this]
      simpa [h1] using ih
    · rw [if_pos (e1.mpr h1)]
      by_cases h2 : x.len ≠ 0 ∨ (!nilok) = true
      · have : Int.ofNat x.len ≠ 0 ∨ (!nilok) = true := h2.imp e2.mpr id
        rw [if_pos this]
        have hb : (decide (x.len ≠ n) && (decide (x.len ≠ 0) || !nilok)) = true := by
          rcases h2 with h2 | h2 <;> simp [h1, h2]
        rw [hb]
        rfl
      · have : ¬ (Int.ofNat x.len ≠ 0 ∨ (!nilok) = true) := fun h => h2 (h.imp e2.mp id)
        rw [if_neg this]
        have hb : (decide (x.len ≠ n) && (decide (x.len ≠ 0) || !nilok)) = false := by
          have a1 : ¬ x.len ≠ 0 := fun h => h2 (Or.inl h)
          have a2 : ¬ (!nilok) = true := fun h => h2 (Or.inr h)
          simp [a1, a2]
        rw [hb]
        simpa using ih

theorem checkShards_eq (s : List Sh) (nilok : Bool) :
    Gen.checkShards (lens s) nilok = some ((Model.Api.checkShards s nilok).map errName) := by
  unfold Gen.checkShards
  rw [shardSize_eq]
  simp only [Option.bind_eq_bind, Option.bind_some]
  unfold Model.Api.checkShards
  simp only []
  by_cases h0 : Model.Api.shardSize s = 0
  · have : Int.ofNat (Model.Api.shardSize s) = 0 := by rw [h0]; rfl
    rw [if_pos this, if_pos h0]
    rfl
  · have : ¬ Int.ofNat (Model.Api.shardSize s) = 0 := fun e => h0 (Int.ofNat.inj e)
    rw [if_neg this, if_neg h0]
    unfold lens
    rw [forIn_range_shIdx_bind (s.map Sh.len), checkShards_loop]
    by_cases ha : (s.any fun x => decide (x.len ≠ Model.Api.shardSize s) && (decide (x.len ≠ 0) || !nilok)) = true
    · rw [if_pos ha, if_pos ha]; rfl
    · rw [if_neg ha, if_neg ha]; rfl

/-! ## consequences that do not mention `errName` -/

theorem shardSize_lt (s : List Sh) (h63 : ∀ x ∈ s, x.len < 2 ^ 63) : Model.Api.shardSize s < 2 ^ 63 := by
  unfold Model.Api.shardSize
  cases hf : s.find? (fun x => decide (x.len ≠ 0)) with
  | none => exact Nat.two_pow_pos 63
  | some z => exact h63 z (List.mem_of_find?_eq_some hf)

/-- the model's `checkShards` only ever returns these -/
theorem model_checkShards_cases (s : List Sh) (nilok : Bool) :
    Model.Api.checkShards s nilok = none ∨ Model.Api.checkShards s nilok = some E.shardNoData ∨
      Model.Api.checkShards s nilok = some E.shardSize := by
  unfold Model.Api.checkShards
  simp only []
  split
  · exact Or.inr (Or.inl rfl)
  · split
    · exact Or.inr (Or.inr rfl)
    · exact Or.inl rfl

theorem checkShards_nil (s : List Sh) (nilok : Bool) :
    Gen.checkShards (lens s) nilok = some none ↔ Model.Api.checkShards s nilok = none := by
  rw [checkShards_eq]
  rcases model_checkShards_cases s nilok with h | h | h <;> rw [h] <;> simp [errName]

theorem checkShards_noData (s : List Sh) (nilok : Bool) :
    Gen.checkShards (lens s) nilok = some (some "ErrShardNoData") ↔
      Model.Api.checkShards s nilok = some E.shardNoData := by
  rw [checkShards_eq]
  rcases model_checkShards_cases s nilok with h | h | h <;> rw [h] <;> simp [errName]

theorem checkShards_size (s : List Sh) (nilok : Bool) :
    Gen.checkShards (lens s) nilok = some (some "ErrShardSize") ↔
      Model.Api.checkShards s nilok = some E.shardSize := by
  rw [checkShards_eq]
  rcases model_checkShards_cases s nilok with h | h | h <;> rw [h] <;> simp [errName]

theorem checkShards_cases (s : List Sh) (nilok : Bool) :
    Gen.checkShards (lens s) nilok = some none ∨
    Gen.checkShards (lens s) nilok = some (some "ErrShardNoData") ∨
    Gen.checkShards (lens s) nilok = some (some "ErrShardSize") := by
  rw [checkShards_eq]
  rcases model_checkShards_cases s nilok with h | h | h <;> rw [h] <;> simp [errName]

end RSV.GenApi
