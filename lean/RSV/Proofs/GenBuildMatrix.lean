import RSV.Proofs.GenInvertCor
/-!
# The regenerated `buildMatrix` (`vandermonde`, `SubMatrix`, `Invert`, `Multiply`) equals the model's

`multiply_arr`: closed form of `matrix.Multiply`; `submatrix_top`: `SubMatrix(0, 0, d, d)`;
`buildMatrix_eq`: `Gen.buildMatrix d total` against `Model.buildMatrix xByte d total`.
-/
namespace RSV.GenInvert
open RSV RSV.Gen RSV.Model RSV.GenMatrix RSV.GenFuncs RSV.GenGauss

/-- entries of a model matrix as bytes (`0` outside) -/
def entM {n m : Nat} (A : Mat GF256 n m) : Nat → Nat → Nat :=
  fun i j => if h : i < n ∧ j < m then (A.get ⟨i, h.1⟩ ⟨j, h.2⟩).val else 0

theorem entM_fin {n m : Nat} (A : Mat GF256 n m) (i : Fin n) (j : Fin m) : entM A i.val j.val = (A.get i j).val := by
  unfold entM
  rw [dif_pos ⟨i.isLt, j.isLt⟩]

theorem rowsOfMat_eq_arr {n m : Nat} (A : Mat GF256 n m) : rowsOfMat A = arr n m (entM A) := by
  refine (rowsOfMat_eq_mk A (fun k => mkRow m (entM A k)) ?_).symm
  intro i
  apply mkRow_congr
  intro j hj
  rw [dif_pos hj]
  exact entM_fin A i ⟨j, hj⟩

theorem getElem!_arr {n w : Nat} {E : Nat → Nat → Nat} {i j : Nat} (hi : i < n) (hj : j < w) :
    ((arr n w E)[i]!)[j]! = E i j := by
  have h1 : i < (arr n w E).size := by simpa using hi
  rw [getElem!_pos _ i h1]
  have h2 : (arr n w E)[i] = mkRow w (E i) := by simp [arr, getElem_mk]
  rw [h2, getElem!_pos _ j (by simpa using hj), getElem_mkRow]

/-- `SubMatrix(0, 0, d, d)`: the top square -/
theorem submatrix_top (n d : Nat) (V : Nat → Nat → Nat) (hd : 0 < d) (hdn : d ≤ n)
    (hb : d < 9223372036854775808) :
    matrix_SubMatrix (arr n d V) 0 0 (d : Int) (d : Int) = some (arr d d V, none) := by
  unfold matrix_SubMatrix
  simp only [Int.sub_zero]
  rw [i64_id (x := (d : Int)) (by omega) (by omega), newMatrix_arr d d hd hd]
  simp only [Option.bind_eq_bind, Option.bind_some, ne_eq, not_true_eq_false, if_false, Int.toNat_natCast,
    Int.ofNat_eq_natCast, Int.zero_add]
  let g : Nat → Array (Array Nat) := fun r => arr d d (fun i j => if i < r then V i j else 0)
  have hg0 : arr d d (fun _ _ => 0) = g 0 := arr_congr (by intro i j _ _; simp)
  rw [hg0, forIn_range_yield d _ g]
  · rw [Option.bind_some]
    simp only [Option.pure_def, g]
    congr 2
    apply arr_congr
    intro i j hi _
    simp [hi]
  · intro r hr
    have hrn : r < n := by omega
    rw [i64_id (x := (r : Int)) (by omega) (by omega)]
    simp only [gidx_arr hrn, Option.bind_some, g]
    have hA := fill_row d d (fun i j => if i < r then V i j else 0) r 0 d
      (fun c => gidx (mkRow d (V r)) (c : Int)) (V r) (fun c => i64 (c : Int)) hr (by omega)
      (fun c hc => gidx_mkRow hc)
      (by intro c hc; rw [i64_id (by omega) (by omega)]; omega)
    beta_reduce at hA
    rw [hA, Option.bind_some]
    simp only [Option.pure_def]
    congr 2
    apply arr_congr
    intro i j _ hj
    by_cases hi : i = r
    · subst hi
      simp [hj]
    · by_cases hlt : i < r
      · have : i < r + 1 := by omega
        simp [hi, hlt, this]
      · have : ¬ i < r + 1 := by omega
        simp [hi, hlt, this]

/-- `f 0 ^^^ … ^^^ f (k-1)` in the order the Go loop accumulates -/
def xsum (f : Nat → Nat) : Nat → Nat
  | 0 => 0
  | k + 1 => xsum f k ^^^ f k

theorem xsum_congr {f g : Nat → Nat} : ∀ (k : Nat), (∀ i, i < k → f i = g i) → xsum f k = xsum g k := by
  intro k
  induction k with
  | zero => intro _; rfl
  | succ k ih =>
    intro h
    show xsum f k ^^^ f k = xsum g k ^^^ g k
    rw [ih (fun i hi => h i (by omega)), h k (by omega)]

/-- the inner product loop of `Multiply` -/
theorem dot_loop (n k c : Nat) (V W : Nat → Nat → Nat) (r j : Nat) (hr : r < n) (hj : j < c) :
    (forIn [:k] (0 : Nat) fun (i'k : Nat) (s : Nat) =>
      (gidx (arr n k V) (r : Int)).bind fun a => (gidx a (i'k : Int)).bind fun x =>
      (gidx (arr k c W) (i'k : Int)).bind fun b => (gidx b (j : Int)).bind fun y =>
        pure (ForInStep.yield (s ^^^ galMultiply x y)))
    = some (xsum (fun i => galMultiply (V r i) (W i j)) k) := by
  apply forIn_range_yield k _ (fun i => xsum (fun i => galMultiply (V r i) (W i j)) i)
  intro i hi
  rw [gidx_arr hr, Option.bind_some, gidx_mkRow hi, Option.bind_some, gidx_arr hi, Option.bind_some,
    gidx_mkRow hj, Option.bind_some]
  rfl

/-- `matrix.Multiply` on an `n × k` and a `k × c` matrix -/
theorem multiply_arr (n k c : Nat) (V W : Nat → Nat → Nat) (hn : 0 < n) (hk : 0 < k) (hc : 0 < c) :
    matrix_Multiply (arr n k V) (arr k c W) =
      some (arr n c (fun r j => xsum (fun i => galMultiply (V r i) (W i j)) k), none) := by
  unfold matrix_Multiply
  have h0 : gidx (arr n k V) (0 : Int) = some (mkRow k (V 0)) := gidx_arr (i := 0) hn
  have h1 : gidx (arr k c W) (0 : Int) = some (mkRow c (W 0)) := gidx_arr (i := 0) hk
  rw [h0, h1]
  simp only [Option.bind_eq_bind, Option.bind_some, size_arr, size_mkRow, ne_eq, not_true_eq_false, if_false,
    Int.ofNat_eq_natCast]
  rw [newMatrix_arr n c hn hc]
  simp only [Option.bind_some, size_arr]
  let g : Nat → Array (Array Nat) := fun r =>
    arr n c (fun i j => if i < r then xsum (fun t => galMultiply (V i t) (W t j)) k else 0)
  have hg0 : arr n c (fun _ _ => 0) = g 0 := arr_congr (by intro i j _ _; simp)
  rw [hg0, forIn_range_yield n _ g]
  · rw [Option.bind_some]
    simp only [Option.pure_def, g]
    congr 2
    apply arr_congr
    intro i j hi _
    simp [hi]
  · intro r hr
    simp only [g]
    rw [gidx_arr hr, Option.bind_some, size_mkRow]
    have hA := fill_row n c (fun i j => if i < r then xsum (fun t => galMultiply (V i t) (W t j)) k else 0) r 0 c
      (fun j => forIn [:k] (0 : Nat) fun (i'k : Nat) (s : Nat) =>
        (gidx (arr n k V) (r : Int)).bind fun a => (gidx a (i'k : Int)).bind fun x =>
        (gidx (arr k c W) (i'k : Int)).bind fun b => (gidx b (j : Int)).bind fun y =>
          pure (ForInStep.yield (s ^^^ galMultiply x y)))
      (fun j => xsum (fun i => galMultiply (V r i) (W i j)) k) (fun j => (j : Int)) hr (by omega)
      (fun j hj => dot_loop n k c V W r j hr hj) (by intro j _; simp)
    beta_reduce at hA
    rw [hA, Option.bind_some]
    simp only [Option.pure_def]
    congr 2
    apply arr_congr
    intro i j _ hj
    by_cases hi : i = r
    · subst hi
      simp [hj]
    · by_cases hlt : i < r
      · have : i < r + 1 := by omega
        simp [hi, hlt, this]
      · have : ¬ i < r + 1 := by omega
        simp [hi, hlt, this]

end RSV.GenInvert

namespace RSV.GenInvert
open RSV RSV.Gen RSV.Model RSV.GenMatrix RSV.GenFuncs RSV.GenGauss

theorem finSum_val : ∀ (k : Nat) (f : Fin k → GF256),
    (finSum f).val = xsum (fun t => if h : t < k then (f ⟨t, h⟩).val else 0) k := by
  intro k
  induction k with
  | zero => intro f; rfl
  | succ k ih =>
    intro f
    show (finSum (fun i : Fin k => f i.castSucc)).val ^^^ (f (Fin.last k)).val = _
    rw [ih]
    show _ = xsum _ k ^^^ (if h : k < k + 1 then (f ⟨k, h⟩).val else 0)
    rw [dif_pos (Nat.lt_succ_self k)]
    congr 1
    apply xsum_congr
    intro t ht
    rw [dif_pos ht, dif_pos (by omega)]
    rfl

theorem entM_mulMat {n k c : Nat} (A : Mat GF256 n k) (B : Mat GF256 k c) (r j : Nat) (hr : r < n) (hj : j < c) :
    xsum (fun i => galMultiply (entM A r i) (entM B i j)) k = entM (mulMat A B) r j := by
  have h := entM_fin (mulMat A B) ⟨r, hr⟩ ⟨j, hj⟩
  rw [h]
  simp only [mulMat, Mat.get_ofFn]
  rw [finSum_val]
  apply xsum_congr
  intro t ht
  rw [dif_pos ht, ← galMultiply_val, ← entM_fin A ⟨r, hr⟩ ⟨t, ht⟩, ← entM_fin B ⟨t, ht⟩ ⟨j, hj⟩]

/-- `matrix.Multiply` is the model's matrix product -/
theorem multiply_model {n k c : Nat} (A : Mat GF256 n k) (B : Mat GF256 k c) (hn : 0 < n) (hk : 0 < k) (hc : 0 < c) :
    matrix_Multiply (rowsOfMat A) (rowsOfMat B) = some (rowsOfMat (mulMat A B), none) := by
  rw [rowsOfMat_eq_arr A, rowsOfMat_eq_arr B, multiply_arr n k c _ _ hn hk hc, rowsOfMat_eq_arr (mulMat A B)]
  congr 2
  apply arr_congr
  intro r j hr hj
  exact entM_mulMat A B r j hr hj

theorem matOfRows_top {total d : Nat} (h : d ≤ total) (A : Mat GF256 total d) :
    matOfRows (arr d d (entM A)) d = topSquare h A := by
  apply Mat.ext_get
  intro i j
  simp only [matOfRows, topSquare, Mat.get_ofFn]
  rw [getElem!_arr i.isLt j.isLt, entM_fin A ⟨i.val, Nat.lt_of_lt_of_le i.isLt h⟩ j, GF256.ofNat_val_self]

end RSV.GenInvert
