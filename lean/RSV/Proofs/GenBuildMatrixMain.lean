import RSV.Proofs.GenBuildMatrix
/-!
# `Gen.buildMatrix d total` against `Model.buildMatrix xByte d total`
-/
namespace RSV.GenInvert
open RSV RSV.Gen RSV.Model RSV.GenMatrix RSV.GenFuncs RSV.GenGauss

theorem buildMatrix_eq (d total : Nat) (hd : 0 < d) (h : d ≤ total) (hd55 : d < 36028797018963968)
    (ht63 : total < 9223372036854775808) :
    Gen.buildMatrix (d : Int) (total : Int) =
      match Model.buildMatrix xByte d total h with
      | some M => some (rowsOfMat M, none)
      | none => some (#[], some "errSingular") := by
  unfold Gen.buildMatrix
  rw [vandermonde_eq total d (by omega) hd ht63 hd55]
  simp only [Option.bind_eq_bind]
  rw [Option.bind_some, if_neg (fun hh => hh rfl)]
  rw [rowsOfMat_eq_arr, submatrix_top total d _ hd h (by omega), Option.bind_some, if_neg (fun hh => hh rfl)]
  have hinv := matrix_Invert_eq_model d hd (by omega) (arr d d (entM (Model.vandermonde xByte total d)))
    (size_arr _ _ _)
    (by
      intro i hi
      have h1 : i < (arr d d (entM (Model.vandermonde xByte total d))).size := by simpa using hi
      rw [getElem!_pos _ i h1]
      simp [arr, getElem_mk])
    (by
      intro i j hi hj
      rw [getElem!_arr hi hj, entM_fin (Model.vandermonde xByte total d) ⟨i, by omega⟩ ⟨j, hj⟩]
      exact GF256.isLt _)
  rw [hinv, matOfRows_top h]
  have hbm : Model.buildMatrix xByte d total h =
      (Model.invert (topSquare h (Model.vandermonde xByte total d))).map
        (fun inv => mulMat (Model.vandermonde xByte total d) inv) := rfl
  rw [hbm]
  cases hi : Model.invert (topSquare h (Model.vandermonde xByte total d)) with
  | none =>
    show ((some ((#[] : Array (Array Nat)), some "errSingular")).bind _) = some (#[], some "errSingular")
    rw [Option.bind_some, if_pos (Option.some_ne_none _)]
    rfl
  | some B =>
    show ((some (rowsOfMat B, (none : Option String))).bind _) =
      some (rowsOfMat (mulMat (Model.vandermonde xByte total d) B), none)
    rw [Option.bind_some, if_neg (fun hh => hh rfl), ← rowsOfMat_eq_arr,
      multiply_model _ B (by omega) hd hd, Option.bind_some]
    rfl

end RSV.GenInvert

namespace RSV.GenInvert
open RSV RSV.Gen RSV.Model RSV.GenMatrix RSV.GenFuncs RSV.GenGauss

theorem genBuildMatrixAgrees_true (d total : Nat) (hd : 0 < d) (h : d ≤ total) (hd55 : d < 36028797018963968)
    (ht63 : total < 9223372036854775808) : genBuildMatrixAgrees d total = true := by
  unfold genBuildMatrixAgrees
  rw [dif_pos h, Int.ofNat_eq_natCast, Int.ofNat_eq_natCast, buildMatrix_eq d total hd h hd55 ht63]
  cases hi : Model.buildMatrix xByte d total h with
  | none => rfl
  | some M => simp

end RSV.GenInvert
