import RSV.Gen.Funcs
import RSV.Proofs.GenFuncsEnum
import RSV.Props.C17
import RSV.Model.LeoTables
import RSV.Model.Leopard
import RSV.Model.BitfieldImpl
import RSV.Proofs.LeoSched
/-!
# The regenerated Go functions (`RSV.Gen.Funcs`) equal the model / specification functions

`RSV/Gen/Funcs.lean` is produced on every run by the Go-subset → Lean translator of
`tools/extract` from the *current* Go sources.  This file proves the helper facts; the property
statements are in `RSV/Props/C17funcs.lean`.

Proof style: facts about the 8-bit functions are obtained by kernel evaluation over the complete
input domain against the regenerated *tables* (at most 65,536 cheap cases, no field arithmetic in
the enumeration) and then transported to the field by the table theorems of C17; facts about the
16-bit / 64-bit functions are arithmetic (`omega`).  Nothing depends on the names of Go locals.
-/
namespace RSV.GenFuncs
open RSV RSV.Gen RSV.Tables

/-! ## wrap-arounds -/

theorem i64_id {x : Int} (h1 : -9223372036854775808 ≤ x) (h2 : x < 9223372036854775808) : i64 x = x := by
  unfold i64; omega

theorem u64_id {x : Nat} (h : x < 18446744073709551616) : u64 x = x := Nat.mod_eq_of_lt h

theorem byteAt_lt (t i : Nat) : byteAt t i < 256 := by
  unfold byteAt; exact Nat.lt_of_le_of_lt Nat.and_le_right (by decide)

/-! ## GF(2^8): `galMultiply`, `galDivide`, `galOneOver` -/

theorem galMultiply_eq_table (a b : Nat) : galMultiply a b = byteAt (mulTableRows[a]!) b := rfl

theorem galDivide_zero_left (b : Nat) : galDivide 0 b = some 0 := rfl

theorem galDivide_zero_right {a : Nat} (ha : a ≠ 0) : galDivide a 0 = none := by
  unfold galDivide; simp [ha]

theorem galOneOver_zero : galOneOver 0 = none := rfl

theorem ofNat_val_lt {a : Nat} (ha : a < 256) : (GF256.ofNat a).val = a := Nat.mod_eq_of_lt ha

theorem ofNat_ne_zero {a : Nat} (ha : a < 256) (h0 : a ≠ 0) : GF256.ofNat a ≠ 0 := by
  intro h
  have := congrArg GF256.val h
  rw [ofNat_val_lt ha] at this
  exact h0 this

/-- `invTable[b]` is the field inverse -/
theorem invTable_val {b : Nat} (hb : b < 256) (h0 : b ≠ 0) : byteAt invTable b = ((GF256.ofNat b)⁻¹).val := by
  have h := RSV.Props.C17.C17_invTable_field (GF256.ofNat b) (ofNat_ne_zero hb h0)
  rw [ofNat_val_lt hb] at h
  rw [← h]
  exact (ofNat_val_lt (byteAt_lt _ _)).symm

theorem galOneOver_field {a : Nat} (ha : a < 256) (h0 : a ≠ 0) :
    galOneOver a = some ((GF256.ofNat a)⁻¹).val := by
  rw [galOneOver_table a ha h0, invTable_val ha h0]

/-! ## GF(2^8): `galExp` -/

/-- the reduction loop of `galExp` computes the remainder modulo 255 -/
theorem galExp_loop1_eq (L : Nat) (hL : L < 9223372036854775808) :
    galExp_loop1 (L : Int) = some ((L % 255 : Nat) : Int) := by
  induction L using Nat.strongRecOn with
  | _ L ih =>
    rw [galExp_loop1]
    by_cases h : 255 ≤ L
    · have h' : (L : Int) ≥ 255 := by omega
      simp only [h', if_true]
      rw [i64_id (by omega) (by omega)]
      have : ((L : Int) - 255) = ((L - 255 : Nat) : Int) := by omega
      rw [this, ih (L - 255) (by omega) (by omega)]
      have e : (L - 255) % 255 = L % 255 := by omega
      rw [e]
    · have h' : ¬ ((L : Int) ≥ 255) := by omega
      simp only [h', if_false]
      have e : L % 255 = L := by omega
      rw [e]

/-- the generator `x` (= 2) of the exponent table -/
def g : GF256 := GF256.ofNat 2

theorem g_pow_val (i : Nat) : (g ^ i).val = gpow 2 i := by rw [GF256.pow_val]; rfl

theorem g_pow_255 : g ^ 255 = 1 := by
  apply GF256.ext
  rw [g_pow_val, ← expTable_pow 255 (by decide), expTable_255]; rfl

theorem g_pow_mod (m : Nat) : g ^ (m % 255) = g ^ m := by
  conv_rhs => rw [← Nat.div_add_mod m 255]
  rw [pow_add, pow_mul, g_pow_255, one_pow, one_mul]

/-- what the code of `galDivide` computes for non-zero operands: an `expTable` read at the wrapped
difference of the two logarithms -/
theorem galDivide_exp {a b : Nat} (ha0 : a ≠ 0) (hb0 : b ≠ 0) :
    galDivide a b = some (byteAt expTable
      (if byteAt logTable b ≤ byteAt logTable a then byteAt logTable a - byteAt logTable b
       else byteAt logTable a + 255 - byteAt logTable b)) := by
  unfold galDivide
  simp only [ha0, hb0, if_false]
  have hla : ((logTable >>> (8 * a)) &&& 255) = byteAt logTable a := rfl
  have hlb : ((logTable >>> (8 * b)) &&& 255) = byteAt logTable b := rfl
  rw [hla, hlb]
  have h1 := byteAt_lt logTable a
  have h2 := byteAt_lt logTable b
  generalize byteAt logTable a = la at *
  generalize byteAt logTable b = lb at *
  simp only [Int.ofNat_eq_natCast]
  have e1 : i64 ((la : Int) - (lb : Int)) = (la : Int) - (lb : Int) := i64_id (by omega) (by omega)
  rw [e1]
  congr 1
  by_cases h : lb ≤ la
  · have hneg : ¬ ((la : Int) - (lb : Int) < 0) := by omega
    simp only [hneg, h, if_false, if_true]
    have : Int.toNat (((la : Int) - (lb : Int)) % 256) = la - lb := by omega
    rw [this]; rfl
  · have hneg : ((la : Int) - (lb : Int) < 0) := by omega
    simp only [hneg, h, if_false, if_true]
    rw [i64_id (by omega) (by omega)]
    have : Int.toNat (((la : Int) - (lb : Int) + 255) % 256) = la + 255 - lb := by omega
    rw [this]; rfl

theorem g_pow_log {a : Nat} (ha : a < 256) (ha0 : a ≠ 0) : g ^ byteAt logTable a = GF256.ofNat a := by
  apply GF256.ext
  rw [g_pow_val, ofNat_val_lt ha]
  exact RSV.Props.C17.C17_expLog a ha ha0

theorem galDivide_field {a b : Nat} (ha : a < 256) (hb : b < 256) (ha0 : a ≠ 0) (hb0 : b ≠ 0) :
    galDivide a b = some (GF256.ofNat a / GF256.ofNat b).val := by
  rw [galDivide_exp ha0 hb0]
  congr 1
  have h1 := byteAt_lt logTable a
  have h2 := byteAt_lt logTable b
  have hb' := ofNat_ne_zero hb hb0
  have key : ∀ r, r < 256 → r + byteAt logTable b = byteAt logTable a ∨ r + byteAt logTable b = byteAt logTable a + 255 →
      byteAt expTable r = (GF256.ofNat a / GF256.ofNat b).val := by
    intro r hr hsum
    rw [expTable_pow r hr, ← g_pow_val]
    congr 1
    rw [eq_div_iff hb', ← g_pow_log hb hb0, ← pow_add, ← g_pow_log ha ha0]
    rcases hsum with h | h
    · rw [h]
    · rw [h, pow_add, g_pow_255, mul_one]
  split
  · exact key _ (by omega) (Or.inl (by omega))
  · exact key _ (by omega) (Or.inr (by omega))

theorem gpow_zero_base (n : Nat) (hn : n ≠ 0) : gpow 0 n = 0 := by
  cases n with
  | zero => exact absurd rfl hn
  | succ n => exact gmul_zero_right _

theorem galExp_eq (a n : Nat) (ha : a < 256) (hn : n < 36028797018963968) :
    galExp a (n : Int) = some (gpow a n) := by
  unfold galExp
  by_cases hn0 : n = 0
  · subst hn0; rfl
  have hn0' : ¬ ((n : Int) = 0) := by omega
  simp only [hn0', if_false]
  by_cases ha0 : a = 0
  · subst ha0; simp only [if_true]; rw [gpow_zero_base n hn0]
  simp only [ha0, if_false]
  show (match galExp_loop1 (i64 (Int.ofNat (byteAt logTable a) * (n : Int))) with
    | none => none
    | some r => some (byteAt expTable (Int.toNat (r % 256)))) = _
  have hl : byteAt logTable a < 256 := byteAt_lt _ _
  have hprod : byteAt logTable a * n < 9223372036854775808 := by
    calc byteAt logTable a * n ≤ 255 * n := Nat.mul_le_mul_right _ (by omega)
      _ < 9223372036854775808 := by omega
  have hcast : Int.ofNat (byteAt logTable a) * (n : Int) = ((byteAt logTable a * n : Nat) : Int) := by
    simp
  rw [hcast, i64_id (by omega) (by omega), galExp_loop1_eq _ hprod]
  simp only
  have hr : (byteAt logTable a * n) % 255 < 255 := Nat.mod_lt _ (by decide)
  have : Int.toNat ((((byteAt logTable a * n) % 255 : Nat) : Int) % 256) = (byteAt logTable a * n) % 255 := by
    omega
  rw [this, expTable_pow _ (by omega), ← g_pow_val, g_pow_mod, pow_mul]
  rw [g_pow_log ha ha0, GF256.pow_val, ofNat_val_lt ha]

/-! ## Leopard: `addMod`, `subMod`, `mulLog`, `fwht2alt` (16 bit) and `…8` (8 bit) -/

open RSV.Model

theorem addMod_eq {a b : Nat} (ha : a < 65536) (hb : b < 65536) : Gen.addMod a b = Leo.addMod Leo.P16 a b := by
  simp only [Gen.addMod, Leo.addMod, Leo.Params.order, Leo.P16, u64, u16, Nat.shiftRight_eq_div_pow,
    Nat.shiftLeft_eq]
  omega

theorem subMod_eq {a b : Nat} (ha : a < 65536) (hb : b < 65536) : Gen.subMod a b = Leo.subMod Leo.P16 a b := by
  simp only [Gen.subMod, Leo.subMod, Leo.Params.modulus, Leo.Params.order, Leo.P16, u64, u16,
    Nat.shiftRight_eq_div_pow, Nat.shiftLeft_eq]
  split <;> omega

theorem addMod8_eq {a b : Nat} (ha : a < 256) (hb : b < 256) : Gen.addMod8 a b = Leo.addMod Leo.P8 a b := by
  simp only [Gen.addMod8, Leo.addMod, Leo.Params.order, Leo.P8, u64, u8, Nat.shiftRight_eq_div_pow,
    Nat.shiftLeft_eq]
  omega

theorem subMod8_eq {a b : Nat} (ha : a < 256) (hb : b < 256) : Gen.subMod8 a b = Leo.subMod Leo.P8 a b := by
  simp only [Gen.subMod8, Leo.subMod, Leo.Params.modulus, Leo.Params.order, Leo.P8, u64, u8,
    Nat.shiftRight_eq_div_pow, Nat.shiftLeft_eq]
  split <;> omega

theorem mulLog_eq (expLUT logLUT : Array Nat) {a b : Nat} (hl : logLUT[a]! < 65536) (hb : b < 65536) :
    Gen.mulLog expLUT logLUT a b = Leo.mulLog Leo.P16 ⟨logLUT, expLUT⟩ a b := by
  unfold Gen.mulLog Leo.mulLog
  rw [addMod_eq hl hb]

theorem mulLog8_eq (expLUT logLUT : Array Nat) {a b : Nat} (hl : logLUT[a]! < 256) (hb : b < 256) :
    Gen.mulLog8 expLUT logLUT a b = Leo.mulLog Leo.P8 ⟨logLUT, expLUT⟩ a b := by
  unfold Gen.mulLog8 Leo.mulLog
  rw [addMod8_eq hl hb]

theorem fwht2alt_eq {a b : Nat} (ha : a < 65536) (hb : b < 65536) :
    Gen.fwht2alt a b = (Leo.addMod Leo.P16 a b, Leo.subMod Leo.P16 a b) := by
  unfold Gen.fwht2alt; rw [addMod_eq ha hb, subMod_eq ha hb]

theorem fwht2alt8_eq {a b : Nat} (ha : a < 256) (hb : b < 256) :
    Gen.fwht2alt8 a b = (Leo.addMod Leo.P8 a b, Leo.subMod Leo.P8 a b) := by
  unfold Gen.fwht2alt8; rw [addMod8_eq ha hb, subMod8_eq ha hb]

/-! ## Leopard: `ceilPow2` -/

/-- doubling from `2^j` reaches the least power of two at or above `n` -/
theorem foldl_double_pow (n e : Nat) (hle : n ≤ 2 ^ e) (hmin : e = 0 ∨ 2 ^ (e - 1) < n) :
    ∀ (l : List Nat) (j : Nat), j ≤ e → e - j ≤ l.length →
      l.foldl (fun k _ => if k < n then k * 2 else k) (2 ^ j) = 2 ^ e := by
  intro l
  induction l with
  | nil =>
    intro j hj hlen
    simp only [List.length_nil] at hlen
    have : j = e := by omega
    subst this; rfl
  | cons x l ih =>
    intro j hj hlen
    simp only [List.foldl_cons, List.length_cons] at *
    by_cases h : 2 ^ j < n
    · simp only [h, if_true]
      have hjlt : j < e := by
        apply Nat.lt_of_le_of_ne hj
        intro hc; subst hc; omega
      rw [← Nat.pow_succ]; exact ih (j + 1) (by omega) (by omega)
    · simp only [h, if_false]
      have : j = e := by
        apply Nat.le_antisymm hj
        apply Nat.le_of_not_lt
        intro hjlt
        rcases hmin with h0 | h1
        · omega
        · have : 2 ^ j ≤ 2 ^ (e - 1) := Nat.pow_le_pow_right (by decide) (by omega)
          omega
      subst this
      exact ih j (Nat.le_refl _) (by omega)

/-- the model's `ceilPow2` is the least power of two at or above `n` (exponent at most 64) -/
theorem model_ceilPow2_eq (n e : Nat) (he : e ≤ 64) (hle : n ≤ 2 ^ e) (hmin : e = 0 ∨ 2 ^ (e - 1) < n) :
    Leo.ceilPow2 n = 2 ^ e := by
  rw [RSV.Proofs.LeoSched.ceilPow2_eq]
  have := foldl_double_pow n e hle hmin (List.range' 0 64 1) 0 (Nat.zero_le _) (by simp; omega)
  simpa using this

theorem ceilPow2_eq (n : Nat) (h1 : 1 ≤ n) (h2 : n ≤ 4611686018427387904) :
    Gen.ceilPow2 (n : Int) = some ((Leo.ceilPow2 n : Nat) : Int) := by
  unfold Gen.ceilPow2
  have hm : Int.toNat (i64 ((n : Int) - 1) % 18446744073709551616) = n - 1 := by
    rw [i64_id (by omega) (by omega)]; omega
  simp only [hm, Int.ofNat_eq_natCast]
  -- the exponent
  obtain ⟨e, he62, hlz, hle, hmin⟩ : ∃ e, e ≤ 62 ∧ lz64 (n - 1) + e = 64 ∧ n ≤ 2 ^ e ∧ (e = 0 ∨ 2 ^ (e - 1) < n) := by
    by_cases hz : n - 1 = 0
    · refine ⟨0, by omega, by simp [lz64, hz], by simp; omega, Or.inl rfl⟩
    · have hlog : (n - 1).log2 < 62 := (Nat.log2_lt hz).2 (by omega)
      refine ⟨(n - 1).log2 + 1, by omega, by simp only [lz64, hz, if_false]; omega, ?_, Or.inr ?_⟩
      · have := @Nat.lt_log2_self (n - 1); omega
      · have := Nat.log2_self_le hz; simp only [Nat.add_sub_cancel]; omega
  have hw : i64 ((64 : Int) - ((lz64 (n - 1) : Nat) : Int)) = (e : Int) := by
    rw [i64_id (by omega) (by omega)]; omega
  rw [hw]
  have hpow : (2 : Nat) ^ e ≤ 2 ^ 62 := Nat.pow_le_pow_right (by decide) he62
  have hcast : (1 : Int) * 2 ^ Int.toNat (e : Int) = ((2 ^ e : Nat) : Int) := by
    simp
  rw [hcast, i64_id (by omega) (by omega), model_ceilPow2_eq n e (by omega) hle hmin]
  simp

/-! ## Leopard: `isNeeded` of the two error bit fields -/

open RSV.Model.BitfieldImpl

theorem shl64_eq (w s : Nat) : shl64 w s = u64 (w <<< s) := by
  unfold shl64 u64 M64
  exact Nat.and_two_pow_sub_one_eq_mod _ 64

theorem rd_eq (a : Array Nat) (i : Nat) : rd a i = a[i]! := by
  unfold rd; rw [Array.getElem!_eq_getD]; rfl

theorem rd2_eq (a : Array (Array Nat)) (l i : Nat) : rd2 a l i = a[l]![i]! := by
  unfold rd2; rw [rd_eq, Array.getElem!_eq_getD]; rfl

theorem decide_ne_eq_bne (x : Nat) : decide (0 ≠ x) = (x != 0) := by
  cases x with
  | zero => rfl
  | succ n => simp

/-- `x & y` on non-negative `int`s below 2^63 is the bitwise and of the naturals -/
theorem iand64_natCast (x y : Nat) (hx : x < 9223372036854775808) (hy : y < 9223372036854775808) :
    iand64 (x : Int) (y : Int) = ((x &&& y : Nat) : Int) := by
  unfold iand64
  have e1 : Int.toNat ((x : Int) % 18446744073709551616) = x := by omega
  have e2 : Int.toNat ((y : Int) % 18446744073709551616) = y := by omega
  rw [e1, e2]
  have : x &&& y ≤ x := Nat.and_le_left
  rw [Int.ofNat_eq_natCast, i64_id (by omega) (by omega)]

theorem isNeeded8_eq (words : Array (Array Nat)) (m bit : Nat) (hb : bit < 256) :
    errorBitfield8_isNeeded words (m : Int) (bit : Int) = some (BF8.isNeeded ⟨words⟩ m bit) := by
  unfold errorBitfield8_isNeeded BF8.isNeeded
  by_cases hm : m ≥ 8 ∨ m ≤ 0
  · have h1 : ((m : Int) ≥ 8) ∨ ((m : Int) ≤ 0) := by omega
    have h2 : (decide (m ≥ 8) || decide (m ≤ 0)) = true := by simpa using hm
    simp only [h1, h2, if_true]
  · have h1 : ¬ (((m : Int) ≥ 8) ∨ ((m : Int) ≤ 0)) := by omega
    have h2 : ¬ ((decide (m ≥ 8) || decide (m ≤ 0)) = true) := by simpa using hm
    simp only [h1, h2, if_false]
    have e1 : i64 ((m : Int) - 1) = ((m - 1 : Nat) : Int) := by rw [i64_id (by omega) (by omega)]; omega
    have e2 : i64 (Int.tdiv (bit : Int) 64) = ((bit / 64 : Nat) : Int) := by
      rw [Int.natCast_tdiv_eq_ediv, i64_id (by omega) (by omega)]; omega
    have e3 : iand64 (bit : Int) 63 = ((bit &&& 63 : Nat) : Int) := iand64_natCast bit 63 (by omega) (by decide)
    rw [e1, e2, e3]
    have hc : (0 : Int) ≤ ((m - 1 : Nat) : Int) ∧ ((m - 1 : Nat) : Int) < 7 ∧ (0 : Int) ≤ ((bit / 64 : Nat) : Int) ∧
        ((bit / 64 : Nat) : Int) < 4 ∧ (0 : Int) ≤ ((bit &&& 63 : Nat) : Int) := by omega
    simp only [hc, not_true_eq_false, if_false, Int.toNat_natCast, and_self]
    rw [decide_ne_eq_bne, rd2_eq, shl64_eq]
    simp only [Bool.false_eq_true, if_false]

/-- out-of-range `bit` at a level that reads the words: Go panics (index out of range) -/
theorem isNeeded8_oob (words : Array (Array Nat)) (m bit : Nat) (hm1 : 1 ≤ m) (hm7 : m ≤ 7) (hb : 256 ≤ bit)
    (hb63 : bit < 9223372036854775808) :
    errorBitfield8_isNeeded words (m : Int) (bit : Int) = none := by
  unfold errorBitfield8_isNeeded
  have h1 : ¬ (((m : Int) ≥ 8) ∨ ((m : Int) ≤ 0)) := by omega
  simp only [h1, if_false]
  have e2 : i64 (Int.tdiv (bit : Int) 64) = ((bit / 64 : Nat) : Int) := by
    rw [Int.natCast_tdiv_eq_ediv, i64_id (by omega) (by omega)]; omega
  rw [e2]
  have : ¬ (((bit / 64 : Nat) : Int) < 4) := by omega
  simp only [this, false_and, and_false, not_false_eq_true, if_true]

theorem isNeeded16_eq (words bigWords : Array (Array Nat)) (biggestWords : Array Nat) (m bit : Nat)
    (hm : 1 ≤ m) (hb : bit < 65536) :
    errorBitfield_isNeeded words bigWords biggestWords (m : Int) bit =
      some (BF16.isNeeded ⟨words, bigWords, biggestWords⟩ m bit) := by
  unfold errorBitfield_isNeeded BF16.isNeeded
  by_cases h16 : m ≥ 16
  · have h1 : (m : Int) ≥ 16 := by omega
    simp only [h1, h16, if_true]
  have h1 : ¬ ((m : Int) ≥ 16) := by omega
  simp only [h1, h16, if_false]
  by_cases h12 : m ≥ 12
  · have h2 : (m : Int) ≥ 12 := by omega
    simp only [h2, h12, if_true]
    have e1 : i64 ((m : Int) - 12) = ((m - 12 : Nat) : Int) := by rw [i64_id (by omega) (by omega)]; omega
    rw [e1]
    have hc : (0 : Int) ≤ ((m - 12 : Nat) : Int) ∧ ((m - 12 : Nat) : Int) < 4 := by omega
    simp only [hc, not_true_eq_false, if_false, Int.toNat_natCast, and_self]
    rw [decide_ne_eq_bne, rd_eq, shl64_eq]
  have h2 : ¬ ((m : Int) ≥ 12) := by omega
  simp only [h2, h12, if_false]
  by_cases h6 : m ≥ 6
  · have h3 : (m : Int) ≥ 6 := by omega
    simp only [h3, h6, if_true]
    have e1 : i64 ((m : Int) - 6) = ((m - 6 : Nat) : Int) := by rw [i64_id (by omega) (by omega)]; omega
    rw [e1]
    have hc : (0 : Int) ≤ ((m - 6 : Nat) : Int) ∧ ((m - 6 : Nat) : Int) < 6 ∧ bit / 64 / 64 < 16 := by omega
    simp only [hc, not_true_eq_false, if_false, Int.toNat_natCast, and_self]
    rw [decide_ne_eq_bne, rd2_eq, shl64_eq]
  have h3 : ¬ ((m : Int) ≥ 6) := by omega
  have h0 : ¬ (m = 0) := by omega
  simp only [h3, h6, h0, if_false]
  have e1 : i64 ((m : Int) - 1) = ((m - 1 : Nat) : Int) := by rw [i64_id (by omega) (by omega)]; omega
  rw [e1]
  have hc : (0 : Int) ≤ ((m - 1 : Nat) : Int) ∧ ((m - 1 : Nat) : Int) < 5 ∧ bit / 64 < 1024 := by omega
  simp only [hc, not_true_eq_false, if_false, Int.toNat_natCast, and_self]
  rw [decide_ne_eq_bne, rd2_eq, shl64_eq]

/-- level 0 is never queried: Go would panic on `Words[-1]` -/
theorem isNeeded16_level0 (words bigWords : Array (Array Nat)) (biggestWords : Array Nat) (bit : Nat) :
    errorBitfield_isNeeded words bigWords biggestWords 0 bit = none := by
  unfold errorBitfield_isNeeded
  simp [i64]

end RSV.GenFuncs
