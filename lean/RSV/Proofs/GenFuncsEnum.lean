import RSV.Gen.Funcs
import RSV.Spec.GF256
/-!
# Kernel enumeration of the regenerated 8-bit Go functions against the regenerated tables

Complete input domains of the one-argument functions (256 cheap cases: table look-ups and integer
arithmetic, no field arithmetic).  The table theorems of C17 turn these into statements about the field.
-/
namespace RSV.GenFuncs
open RSV RSV.Gen

set_option maxRecDepth 100000 in
theorem galOneOver_table : ∀ a, a < 256 → a ≠ 0 → galOneOver a = some (byteAt invTable a) := by decide +kernel

end RSV.GenFuncs
