import RSV.Proofs.GenMatrix
/-!
# Groundwork: the loops of the regenerated `gaussianElimination` in closed form

NOT yet a property: these are checked building blocks for a future proof that `RSV.Gen.matrix_Invert`
equals `RSV.Model.invert` for all square byte matrices (today that comparison is the executable
`RSV.Model.genInvertAgrees`).  Matrix states are `arr n w E` (`n` rows of width `w`, entry function `E`).

Proved here, each for all sizes / entries, in exactly the shape the translated code has after
`unfold` + `simp only [Option.bind_eq_bind, Int.ofNat_eq_natCast, Int.zero_add, Int.sub_zero, Int.toNat_natCast]`:
* `axpy_loop`  (`row t ^= s · row q`), `scale_loop` (`row r *= s`), `elim_loop` / `elimBelow` (clear a column in a
  range of rows, with the `!= 0` skip), `swapRows_arr` (`SwapRows`), `pivot_loop_found` / `pivot_loop_none` (the
  search with `break`), `tail_step` (singularity test, scaling with the `!= 1` skip, elimination below);
* `forIn_range_steps`: a `for` loop whose iterations may stop with a failure equals `runSteps`;
* `pivotF`, `colF`, `upF`, `sweep2`: the entry-level step functions the loops compute.
Still to do: assemble `matrix_gaussianElimination (arr n w E)` from these (both sweeps), relate `colF` / `upF` to
`Model.step1` / `Model.step2` on the augmented matrix, and the easy `identityMatrix` / `Augment` / `SubMatrix`.
-/
namespace RSV.GenGauss
open RSV RSV.Gen RSV.Model RSV.GenMatrix RSV.GenFuncs

/-- `n × w` array with entries `E i j` -/
def arr (n w : Nat) (E : Nat → Nat → Nat) : Array (Array Nat) := mk n (fun k => mkRow w (E k))

theorem arr_congr {n w : Nat} {E E' : Nat → Nat → Nat} (h : ∀ i j, i < n → j < w → E i j = E' i j) :
    arr n w E = arr n w E' :=
  mk_congr fun i hi => mkRow_congr fun j hj => h i j hi hj

@[simp] theorem size_arr (n w : Nat) (E : Nat → Nat → Nat) : (arr n w E).size = n := by simp [arr]

theorem gidx_arr {n w : Nat} {E : Nat → Nat → Nat} {i : Nat} (hi : i < n) :
    gidx (arr n w E) (i : Int) = some (mkRow w (E i)) := by
  rw [gidx_nat _ i (by simpa using hi)]
  simp [arr, getElem_mk]

theorem gidx_mkRow {w : Nat} {e : Nat → Nat} {j : Nat} (hj : j < w) :
    gidx (mkRow w e) (j : Int) = some (e j) := by
  rw [gidx_nat _ j (by simpa using hj), getElem_mkRow]

theorem gset2_arr {n w : Nat} {E : Nat → Nat → Nat} {i j : Nat} (v : Nat) (hi : i < n) (hj : j < w) :
    gset2 (arr n w E) (i : Int) (j : Int) v = some (arr n w (fun a b => if a = i ∧ b = j then v else E a b)) := by
  have hsz : i < (arr n w E).size := by simpa using hi
  have hrow : (arr n w E)[i] = mkRow w (E i) := by simp [arr, getElem_mk]
  rw [gset2_nat _ i j v hsz (by rw [hrow]; simpa using hj), hrow]
  congr 1
  simp only [arr, set_mk, set_mkRow]
  apply mk_congr
  intro a _
  by_cases h : a = i
  · subst h
    simp only [if_true, true_and]
  · simp [h]

/-- `row t ^= s · row q` (`t ≠ q`) -/
theorem axpy_loop (n w : Nat) (E : Nat → Nat → Nat) (t q s : Nat) (ht : t < n) (hq : q < n) (htq : t ≠ q) :
    (forIn [:w] (arr n w E) fun (c'k : Nat) (__s : Array (Array Nat)) =>
      (gidx __s (t : Int)).bind fun a => (gidx a (c'k : Int)).bind fun x =>
      (gidx __s (q : Int)).bind fun b => (gidx b (c'k : Int)).bind fun y =>
      (gset2 __s (t : Int) (c'k : Int) (x ^^^ galMultiply s y)).bind fun m => pure (ForInStep.yield m))
    = some (arr n w (fun i j => if i = t then E t j ^^^ galMultiply s (E q j) else E i j)) := by
  let g : Nat → Array (Array Nat) := fun c =>
    arr n w (fun i j => if i = t ∧ j < c then E t j ^^^ galMultiply s (E q j) else E i j)
  have hg0 : arr n w E = g 0 := arr_congr (by intro i j _ _; simp)
  have hgw : g w = arr n w (fun i j => if i = t then E t j ^^^ galMultiply s (E q j) else E i j) :=
    arr_congr (by intro i j _ hj; simp [hj])
  rw [hg0, ← hgw]
  apply forIn_range_yield
  intro c hc
  simp only [g]
  rw [gidx_arr ht]
  simp only [Option.bind_some]
  rw [gidx_mkRow hc, gidx_arr hq]
  simp only [Option.bind_some]
  rw [gidx_mkRow hc]
  simp only [Option.bind_some]
  rw [gset2_arr _ ht hc]
  simp only [Option.bind_some, Option.pure_def]
  congr 2
  apply arr_congr
  intro i j _ _
  have hqt : ¬ (q = t) := fun e => htq e.symm
  by_cases hi : i = t
  · subst hi
    by_cases hj : j = c
    · subst hj
      have : j < j + 1 := by omega
      simp [this, hqt]
    · by_cases hj' : j < c
      · have : j < c + 1 := by omega
        simp [hj, hj', this]
      · have : ¬ j < c + 1 := by omega
        simp [hj, hj', this]
  · simp [hi]

def scaleF (E : Nat → Nat → Nat) (r s : Nat) : Nat → Nat → Nat :=
  fun i j => if i = r then galMultiply (E r j) s else E i j

def elimF (E : Nat → Nat → Nat) (q lo cnt : Nat) : Nat → Nat → Nat :=
  fun i j => if lo ≤ i ∧ i < lo + cnt then E i j ^^^ galMultiply (E i q) (E q j) else E i j

/-- `row r *= s` -/
theorem scale_loop (n w : Nat) (E : Nat → Nat → Nat) (r s : Nat) (hr : r < n) :
    (forIn [:w] (arr n w E) fun (c'k : Nat) (__s : Array (Array Nat)) =>
      (gidx __s (r : Int)).bind fun a => (gidx a (c'k : Int)).bind fun x =>
      (gset2 __s (r : Int) (c'k : Int) (galMultiply x s)).bind fun m => pure (ForInStep.yield m))
    = some (arr n w (scaleF E r s)) := by
  let g : Nat → Array (Array Nat) := fun c =>
    arr n w (fun i j => if i = r ∧ j < c then galMultiply (E r j) s else E i j)
  have hg0 : arr n w E = g 0 := arr_congr (by intro i j _ _; simp)
  have hgw : g w = arr n w (scaleF E r s) :=
    arr_congr (by intro i j _ hj; simp [hj, scaleF])
  rw [hg0, ← hgw]
  apply forIn_range_yield
  intro c hc
  simp only [g]
  rw [gidx_arr hr]
  simp only [Option.bind_some]
  rw [gidx_mkRow hc]
  simp only [Option.bind_some]
  rw [gset2_arr _ hr hc]
  simp only [Option.bind_some, Option.pure_def]
  congr 2
  apply arr_congr
  intro i j _ _
  by_cases hi : i = r
  · subst hi
    by_cases hj : j = c
    · subst hj
      have : j < j + 1 := by omega
      simp [this]
    · by_cases hj' : j < c
      · have : j < c + 1 := by omega
        simp [hj, hj', this]
      · have : ¬ j < c + 1 := by omega
        simp [hj, hj', this]
  · simp [hi]

theorem galMultiply_zero_left (y : Nat) : galMultiply 0 y = 0 := by
  unfold galMultiply
  have : mulTableRows[0]! = 0 := by decide +kernel
  rw [this]; simp

/-- rows `lo ≤ t < lo + cnt` (none of them `q`): `row t ^= m[t][q] · row q`, skipped when `m[t][q] = 0` -/
theorem elim_loop (n w : Nat) (E : Nat → Nat → Nat) (q lo cnt : Nat) (idx : Nat → Int)
    (hidx : ∀ k, k < cnt → idx k = ((lo + k : Nat) : Int)) (hrange : lo + cnt ≤ n) (hq : q < n) (hqw : q < w)
    (hne : ∀ k, k < cnt → lo + k ≠ q) :
    (forIn [:cnt] (arr n w E) fun (k : Nat) (__s : Array (Array Nat)) =>
      (gidx __s (idx k)).bind fun a => (gidx a (q : Int)).bind fun x =>
        if x ≠ 0 then
          (gidx __s (idx k)).bind fun a' => (gidx a' (q : Int)).bind fun sc =>
            (forIn [:w] __s fun (c'k : Nat) (__s : Array (Array Nat)) =>
              (gidx __s (idx k)).bind fun a => (gidx a (c'k : Int)).bind fun x =>
              (gidx __s (q : Int)).bind fun b => (gidx b (c'k : Int)).bind fun y =>
              (gset2 __s (idx k) (c'k : Int) (x ^^^ galMultiply sc y)).bind fun m => pure (ForInStep.yield m)).bind
              fun m => pure (ForInStep.yield m)
        else pure (ForInStep.yield __s))
    = some (arr n w (elimF E q lo cnt)) := by
  show _ = some (arr n w (fun i j => if lo ≤ i ∧ i < lo + cnt then E i j ^^^ galMultiply (E i q) (E q j) else E i j))
  let g : Nat → Array (Array Nat) := fun k =>
    arr n w (fun i j => if lo ≤ i ∧ i < lo + k then E i j ^^^ galMultiply (E i q) (E q j) else E i j)
  have hg0 : arr n w E = g 0 := arr_congr (by
    intro i j _ _
    have : ¬ (lo ≤ i ∧ i < lo + 0) := by omega
    simp [this])
  rw [hg0]
  apply forIn_range_yield cnt _ g
  intro k hk
  have ht : lo + k < n := by omega
  have hq_out : ¬ (lo ≤ q ∧ q < lo + k) := by
    intro ⟨h1, h2⟩
    exact hne (q - lo) (by omega) (by omega)
  have ht_out : ¬ (lo ≤ lo + k ∧ lo + k < lo + k) := by omega
  rw [hidx k hk]
  simp only [g]
  rw [gidx_arr ht]
  simp only [Option.bind_some]
  rw [gidx_mkRow hqw]
  simp only [Option.bind_some, ht_out, if_false]
  by_cases hx : E (lo + k) q = 0
  · simp only [hx, ne_eq, not_true_eq_false, if_false, Option.pure_def]
    congr 2
    apply arr_congr
    intro i j _ _
    by_cases hi : i = lo + k
    · subst hi
      have : lo ≤ lo + k ∧ lo + k < lo + (k + 1) := by omega
      simp [this, ht_out, hx, galMultiply_zero_left]
    · have : (lo ≤ i ∧ i < lo + (k + 1)) ↔ (lo ≤ i ∧ i < lo + k) := by omega
      simp [this]
  · simp only [hx, ne_eq, not_false_eq_true, if_true]
    rw [axpy_loop n w _ (lo + k) q (E (lo + k) q) ht hq (hne k hk)]
    simp only [Option.bind_some, Option.pure_def]
    congr 2
    apply arr_congr
    intro i j _ _
    by_cases hi : i = lo + k
    · subst hi
      have : lo ≤ lo + k ∧ lo + k < lo + (k + 1) := by omega
      simp [this, ht_out, hq_out]
    · have : (lo ≤ i ∧ i < lo + (k + 1)) ↔ (lo ≤ i ∧ i < lo + k) := by omega
      simp [this, hi]

/-- the transposition of `a` and `b` -/
def swp (a b i : Nat) : Nat := if i = a then b else if i = b then a else i

theorem swapRows_arr (n w : Nat) (E : Nat → Nat → Nat) (a b : Nat) (ha : a < n) (hb : b < n) :
    matrix_SwapRows (arr n w E) (a : Int) (b : Int) = some (arr n w (fun i j => E (swp a b i) j), none) := by
  unfold matrix_SwapRows
  have hc : ¬ (((((a : Int) < 0) ∨ (Int.ofNat (arr n w E).size ≤ (a : Int))) ∨ ((b : Int) < 0)) ∨
      (Int.ofNat (arr n w E).size ≤ (b : Int))) := by
    simp only [size_arr, Int.ofNat_eq_natCast]; omega
  simp only [hc, if_false]
  rw [gidx_arr ha, gidx_arr hb]
  simp only [Option.bind_eq_bind, Option.bind_some]
  rw [gset_nat _ b _ (by simpa using hb)]
  simp only [Option.bind_some]
  rw [gset_nat _ a _ (by simpa using ha)]
  simp only [Option.bind_some, Option.pure_def]
  congr 2
  simp only [arr, set_mk]
  apply mk_congr
  intro i _
  unfold swp
  by_cases h1 : i = a
  · subst h1; simp
  · by_cases h2 : i = b
    · subst h2; simp [h1]
    · simp [h1, h2]

/-- the pivot search below row `r`: the first row `p > r` with a non-zero entry in column `r` is swapped up -/
theorem pivot_loop_found (n w : Nat) (E : Nat → Nat → Nat) (r p cnt : Nat) (idx : Nat → Int)
    (hidx : ∀ k, k < cnt → idx k = ((r + 1 + k : Nat) : Int)) (hcnt : r + 1 + cnt = n) (hrw : r < w)
    (hrp : r < p) (hp : p < n) (hpz : E p r ≠ 0) (hz : ∀ i, r < i → i < p → E i r = 0) :
    (forIn [:cnt] ((none : Option (Array (Array Nat) × Option String)), arr n w E)
      fun (k : Nat) (__s : Option (Array (Array Nat) × Option String) × Array (Array Nat)) =>
      (gidx __s.2 (idx k)).bind fun a => (gidx a (r : Int)).bind fun x =>
        if x ≠ 0 then
          (matrix_SwapRows __s.2 (r : Int) (idx k)).bind fun t'3 =>
            if t'3.2 ≠ none then pure (ForInStep.done (some (t'3.1, t'3.2), t'3.1))
            else pure (ForInStep.done (none, t'3.1))
        else pure (ForInStep.yield (none, __s.2)))
    = some (none, arr n w (fun i j => E (swp r p i) j)) := by
  apply forIn_range_stop cnt _ (fun _ => ((none : Option (Array (Array Nat) × Option String)), arr n w E)) _
    (p - (r + 1)) (by omega)
  · intro k hk
    have hlt : r + 1 + k < n := by omega
    rw [hidx k (by omega)]
    simp only []
    rw [gidx_arr hlt]
    simp only [Option.bind_some]
    rw [gidx_mkRow hrw]
    simp only [Option.bind_some]
    have : E (r + 1 + k) r = 0 := hz _ (by omega) (by omega)
    simp only [this, ne_eq, not_true_eq_false, if_false, Option.pure_def]
  · have hk : p - (r + 1) < cnt := by omega
    have hpe : r + 1 + (p - (r + 1)) = p := by omega
    rw [hidx _ hk, hpe]
    simp only []
    rw [gidx_arr hp]
    simp only [Option.bind_some]
    rw [gidx_mkRow hrw]
    simp only [Option.bind_some, hpz, ne_eq, not_false_eq_true, if_true]
    rw [swapRows_arr n w E r p (by omega) hp]
    simp only [Option.bind_some, not_true_eq_false, if_false, Option.pure_def]

theorem pivot_loop_none (n w : Nat) (E : Nat → Nat → Nat) (r cnt : Nat) (idx : Nat → Int)
    (hidx : ∀ k, k < cnt → idx k = ((r + 1 + k : Nat) : Int)) (hcnt : r + 1 + cnt = n) (hrw : r < w)
    (hz : ∀ i, r < i → i < n → E i r = 0) :
    (forIn [:cnt] ((none : Option (Array (Array Nat) × Option String)), arr n w E)
      fun (k : Nat) (__s : Option (Array (Array Nat) × Option String) × Array (Array Nat)) =>
      (gidx __s.2 (idx k)).bind fun a => (gidx a (r : Int)).bind fun x =>
        if x ≠ 0 then
          (matrix_SwapRows __s.2 (r : Int) (idx k)).bind fun t'3 =>
            if t'3.2 ≠ none then pure (ForInStep.done (some (t'3.1, t'3.2), t'3.1))
            else pure (ForInStep.done (none, t'3.1))
        else pure (ForInStep.yield (none, __s.2)))
    = some (none, arr n w E) := by
  apply forIn_range_yield cnt _ (fun _ => ((none : Option (Array (Array Nat) × Option String)), arr n w E))
  intro k hk
  have hlt : r + 1 + k < n := by omega
  rw [hidx k hk]
  simp only []
  rw [gidx_arr hlt]
  simp only [Option.bind_some]
  rw [gidx_mkRow hrw]
  simp only [Option.bind_some]
  have : E (r + 1 + k) r = 0 := hz _ (by omega) hlt
  simp only [this, ne_eq, not_true_eq_false, if_false, Option.pure_def]

/-! ## one column of the first sweep -/

/-- what `galOneOver` returns on a non-zero argument -/
def oneOver (x : Nat) : Nat := byteAt expTable (byteAt logTable x ^^^ 255)

theorem galOneOver_ne_zero {x : Nat} (hx : x ≠ 0) : galOneOver x = some (oneOver x) := by
  unfold galOneOver; simp only [hx, if_false]; rfl

/-- scale row `r` to a leading `1` (skipped when it is `1`), then clear column `r` below -/
def tailF (n : Nat) (E : Nat → Nat → Nat) (r : Nat) : Nat → Nat → Nat :=
  elimF (if E r r ≠ 1 then scaleF E r (oneOver (E r r)) else E) r (r + 1) (n - (r + 1))

theorem elimBelow (n w : Nat) (E : Nat → Nat → Nat) (r : Nat) (hr : r < n) (hrw : r < w)
    (hn : n < 4611686018427387904) :
    (forIn [:(↑n - i64 (↑r + 1)).toNat] (arr n w E) fun (rowBelow'k : Nat) (__s : Array (Array Nat)) =>
            (gidx __s (i64 (↑r + 1) + ↑rowBelow'k)).bind fun a => (gidx a (r : Int)).bind fun x =>
              if x ≠ 0 then
                (gidx __s (i64 (↑r + 1) + ↑rowBelow'k)).bind fun a' => (gidx a' (r : Int)).bind fun sc =>
                  (forIn [:w] __s fun (c'k : Nat) (__s : Array (Array Nat)) =>
                    (gidx __s (i64 (↑r + 1) + ↑rowBelow'k)).bind fun a => (gidx a (c'k : Int)).bind fun x =>
                    (gidx __s (r : Int)).bind fun b => (gidx b (c'k : Int)).bind fun y =>
                    (gset2 __s (i64 (↑r + 1) + ↑rowBelow'k) (c'k : Int) (x ^^^ galMultiply sc y)).bind
                      fun m => pure (ForInStep.yield m)).bind
                    fun m => pure (ForInStep.yield m)
              else pure (ForInStep.yield __s)) = some (arr n w (elimF E r (r + 1) (n - (r + 1)))) := by
  have hcnt : (↑n - i64 (↑r + 1)).toNat = n - (r + 1) := by
    rw [i64_id (by omega) (by omega)]; omega
  rw [hcnt]
  have h := elim_loop n w E r (r + 1) (n - (r + 1)) (fun k => i64 (↑r + 1) + ↑k)
    (by intro k _; beta_reduce; rw [i64_id (by omega) (by omega)]; omega) (by omega) hr hrw (by intro k _; omega)
  beta_reduce at h
  exact h

theorem tail_step (n w : Nat) (E : Nat → Nat → Nat) (r : Nat) (hr : r < n) (hrw : r < w) (hnz : E r r ≠ 0)
    (hn : n < 4611686018427387904) :
    ((gidx (arr n w E) (r : Int)).bind fun a3 => (gidx a3 (r : Int)).bind fun x4 =>
      if x4 = 0 then
        pure (ForInStep.done (some (arr n w E, some "errSingular"), arr n w E))
      else
        (gidx (arr n w E) (r : Int)).bind fun a5 => (gidx a5 (r : Int)).bind fun x6 =>
          if x6 ≠ 1 then
            (gidx (arr n w E) (r : Int)).bind fun a7 => (gidx a7 (r : Int)).bind fun x8 =>
              (galOneOver x8).bind fun s9 =>
                (forIn [:w] (arr n w E) fun (c'k : Nat) (__s : Array (Array Nat)) =>
                  (gidx __s (r : Int)).bind fun a => (gidx a (c'k : Int)).bind fun x =>
                  (gset2 __s (r : Int) (c'k : Int) (galMultiply x s9)).bind fun m => pure (ForInStep.yield m)).bind
                  fun __s =>
                  (forIn [:(↑n - i64 (↑r + 1)).toNat] __s fun (rowBelow'k : Nat) (__s : Array (Array Nat)) =>
            (gidx __s (i64 (↑r + 1) + ↑rowBelow'k)).bind fun a => (gidx a (r : Int)).bind fun x =>
              if x ≠ 0 then
                (gidx __s (i64 (↑r + 1) + ↑rowBelow'k)).bind fun a' => (gidx a' (r : Int)).bind fun sc =>
                  (forIn [:w] __s fun (c'k : Nat) (__s : Array (Array Nat)) =>
                    (gidx __s (i64 (↑r + 1) + ↑rowBelow'k)).bind fun a => (gidx a (c'k : Int)).bind fun x =>
                    (gidx __s (r : Int)).bind fun b => (gidx b (c'k : Int)).bind fun y =>
                    (gset2 __s (i64 (↑r + 1) + ↑rowBelow'k) (c'k : Int) (x ^^^ galMultiply sc y)).bind
                      fun m => pure (ForInStep.yield m)).bind
                    fun m => pure (ForInStep.yield m)
              else pure (ForInStep.yield __s)).bind
                    fun __s => pure (ForInStep.yield ((none : Option (Array (Array Nat) × Option String)), __s))
          else
            (forIn [:(↑n - i64 (↑r + 1)).toNat] (arr n w E) fun (rowBelow'k : Nat) (__s : Array (Array Nat)) =>
            (gidx __s (i64 (↑r + 1) + ↑rowBelow'k)).bind fun a => (gidx a (r : Int)).bind fun x =>
              if x ≠ 0 then
                (gidx __s (i64 (↑r + 1) + ↑rowBelow'k)).bind fun a' => (gidx a' (r : Int)).bind fun sc =>
                  (forIn [:w] __s fun (c'k : Nat) (__s : Array (Array Nat)) =>
                    (gidx __s (i64 (↑r + 1) + ↑rowBelow'k)).bind fun a => (gidx a (c'k : Int)).bind fun x =>
                    (gidx __s (r : Int)).bind fun b => (gidx b (c'k : Int)).bind fun y =>
                    (gset2 __s (i64 (↑r + 1) + ↑rowBelow'k) (c'k : Int) (x ^^^ galMultiply sc y)).bind
                      fun m => pure (ForInStep.yield m)).bind
                    fun m => pure (ForInStep.yield m)
              else pure (ForInStep.yield __s)).bind
              fun __s => pure (ForInStep.yield ((none : Option (Array (Array Nat) × Option String)), __s)))
    = some (ForInStep.yield (none, arr n w (tailF n E r))) := by
  rw [gidx_arr hr]
  simp only [Option.bind_some]
  rw [gidx_mkRow hrw]
  simp only [Option.bind_some, hnz, if_false]
  unfold tailF
  by_cases h1 : E r r = 1
  · simp only [h1, ne_eq, not_true_eq_false, if_false]
    rw [elimBelow n w E r hr hrw hn]
    simp only [Option.bind_some, Option.pure_def]
  · simp only [h1, ne_eq, not_false_eq_true, if_true]
    rw [galOneOver_ne_zero hnz, Option.bind_some, scale_loop n w E r _ hr, Option.bind_some,
      elimBelow n w (scaleF E r (oneOver (E r r))) r hr hrw hn, Option.bind_some]
    rfl

/-! ## loops that may stop with a failure -/

/-- `count` steps starting at index `k`; `.error s` = the step at state `s` failed -/
def runSteps {σ : Type} (step : Nat → σ → Option σ) : Nat → Nat → σ → Except σ σ
  | _, 0, s => .ok s
  | k, m + 1, s =>
    match step k s with
    | none => .error s
    | some s' => runSteps step (k + 1) m s'

theorem forIn_range'_steps {β σ : Type} (f : Nat → β → Option (ForInStep β)) (st fin : σ → β)
    (step : Nat → σ → Option σ) :
    ∀ (m k : Nat) (s : σ),
      (∀ i s s', k ≤ i → i < k + m → step i s = some s' → f i (st s) = some (ForInStep.yield (st s'))) →
      (∀ i s, k ≤ i → i < k + m → step i s = none → f i (st s) = some (ForInStep.done (fin s))) →
      forIn (List.range' k m 1) (st s) f =
        some (match runSteps step k m s with | .ok s' => st s' | .error s' => fin s') := by
  intro m
  induction m with
  | zero => intro k s _ _; rfl
  | succ m ih =>
    intro k s hy hd
    rw [List.range'_succ, List.forIn_cons]
    unfold runSteps
    cases hs : step k s with
    | none =>
      rw [hd k s (Nat.le_refl _) (by omega) hs]
      rfl
    | some s' =>
      rw [hy k s s' (Nat.le_refl _) (by omega) hs]
      simp only [Option.bind_eq_bind, Option.bind_some]
      exact ih (k + 1) s' (fun i a b h1 h2 => hy i a b (by omega) (by omega))
        (fun i a h1 h2 => hd i a (by omega) (by omega))

theorem forIn_range_steps {β σ : Type} (n : Nat) (f : Nat → β → Option (ForInStep β)) (st fin : σ → β)
    (step : Nat → σ → Option σ) (s : σ)
    (hy : ∀ i s s', i < n → step i s = some s' → f i (st s) = some (ForInStep.yield (st s')))
    (hd : ∀ i s, i < n → step i s = none → f i (st s) = some (ForInStep.done (fin s))) :
    forIn [:n] (st s) f = some (match runSteps step 0 n s with | .ok s' => st s' | .error s' => fin s') := by
  rw [Std.Legacy.Range.forIn_eq_forIn_range']
  simp only [Std.Legacy.Range.size]
  have := forIn_range'_steps f st fin step n 0 s (fun i a b _ h2 => hy i a b (by omega))
    (fun i a _ h2 => hd i a (by omega))
  simpa using this

/-! ## pivot search on entries -/

/-- first index in `[lo, lo + cnt)` satisfying `P` -/
def firstFrom (P : Nat → Bool) : Nat → Nat → Option Nat
  | _, 0 => none
  | lo, cnt + 1 => if P lo then some lo else firstFrom P (lo + 1) cnt

theorem firstFrom_some {P : Nat → Bool} : ∀ {cnt lo p : Nat}, firstFrom P lo cnt = some p →
    lo ≤ p ∧ p < lo + cnt ∧ P p = true ∧ ∀ i, lo ≤ i → i < p → P i = false := by
  intro cnt
  induction cnt with
  | zero => intro lo p h; simp [firstFrom] at h
  | succ cnt ih =>
    intro lo p h
    unfold firstFrom at h
    by_cases hP : P lo = true
    · simp only [hP, if_true, Option.some.injEq] at h
      subst h
      exact ⟨Nat.le_refl _, by omega, hP, fun i h1 h2 => by omega⟩
    · simp only [hP, if_false] at h
      obtain ⟨h1, h2, h3, h4⟩ := ih h
      refine ⟨by omega, by omega, h3, fun i hi1 hi2 => ?_⟩
      by_cases e : i = lo
      · subst e; simpa using hP
      · exact h4 i (by omega) hi2

theorem firstFrom_none {P : Nat → Bool} : ∀ {cnt lo : Nat}, firstFrom P lo cnt = none →
    ∀ i, lo ≤ i → i < lo + cnt → P i = false := by
  intro cnt
  induction cnt with
  | zero => intro lo _ i h1 h2; omega
  | succ cnt ih =>
    intro lo h i h1 h2
    unfold firstFrom at h
    by_cases hP : P lo = true
    · simp [hP] at h
    · simp only [hP, if_false] at h
      by_cases e : i = lo
      · subst e; simpa using hP
      · exact ih h i (by omega) (by omega)

/-- the pivot step on entries: keep the matrix if the diagonal entry is non-zero, else swap up the first
row below with a non-zero entry in column `r`; `none` = no pivot (singular) -/
def pivotF (n : Nat) (E : Nat → Nat → Nat) (r : Nat) : Option (Nat → Nat → Nat) :=
  if E r r ≠ 0 then some E
  else match firstFrom (fun i => decide (E i r ≠ 0)) (r + 1) (n - (r + 1)) with
    | some p => some (fun i j => E (swp r p i) j)
    | none => none

/-- one column of the first sweep -/
def colF (n : Nat) (r : Nat) (E : Nat → Nat → Nat) : Option (Nat → Nat → Nat) :=
  (pivotF n E r).map fun E' => tailF n E' r

/-- one column of the second sweep -/
def upF (d : Nat) (E : Nat → Nat → Nat) : Nat → Nat → Nat := elimF E d 0 d

def sweep2 (E : Nat → Nat → Nat) : Nat → Nat → Nat → Nat
  | 0 => E
  | d + 1 => upF d (sweep2 E d)

end RSV.GenGauss
