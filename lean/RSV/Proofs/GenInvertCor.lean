import RSV.Proofs.GenInvertMain
/-!
# Consequences of `matrix_Invert_eq_model`: the inversion theorems transported to the Go code, and the
executable comparison `genInvertAgrees` is `true` on every non-empty square byte matrix
-/
namespace RSV.GenInvert
open RSV RSV.Gen RSV.Model RSV.GenMatrix RSV.GenFuncs RSV.GenGauss

theorem matrix_Invert_ok {n : Nat} (hn : 0 < n) (hn62 : n < 4611686018427387904) (a : Array (Array Nat))
    (hsz : a.size = n) (hrow : ∀ i, i < n → (a[i]!).size = n)
    (hb : ∀ i j, i < n → j < n → (a[i]!)[j]! < 256) (inv : Array (Array Nat))
    (h : Gen.matrix_Invert a = some (inv, none)) :
    ∃ B : Mat GF256 n n, Model.invert (matOfRows a n) = some B ∧ inv = rowsOfMat B ∧
      B.toMatrix * (matOfRows a n).toMatrix = 1 ∧ (matOfRows a n).toMatrix * B.toMatrix = 1 := by
  rw [matrix_Invert_eq_model n hn hn62 a hsz hrow hb] at h
  cases hi : Model.invert (matOfRows a n) with
  | none => rw [hi] at h; simp at h
  | some B =>
    rw [hi] at h
    simp only [Option.some.injEq, Prod.mk.injEq, and_true] at h
    exact ⟨B, rfl, h.symm, invert_sound _ _ hi, invert_sound' _ _ hi⟩

theorem matrix_Invert_singular_iff {n : Nat} (hn : 0 < n) (hn62 : n < 4611686018427387904) (a : Array (Array Nat))
    (hsz : a.size = n) (hrow : ∀ i, i < n → (a[i]!).size = n)
    (hb : ∀ i j, i < n → j < n → (a[i]!)[j]! < 256) :
    Gen.matrix_Invert a = some (#[], some "errSingular") ↔ ¬ IsUnit (matOfRows a n).toMatrix := by
  rw [matrix_Invert_eq_model n hn hn62 a hsz hrow hb, ← invert_eq_none_iff]
  cases hi : Model.invert (matOfRows a n) with
  | none => simp
  | some B => simp

theorem genInvertAgrees_true (rows : List (List Nat)) (h : squareBytes rows = true)
    (hlen : rows.length < 4611686018427387904) : genInvertAgrees rows = true := by
  unfold squareBytes at h
  simp only [Bool.and_eq_true, bne_iff_ne, ne_eq, List.all_eq_true, beq_iff_eq, decide_eq_true_eq] at h
  obtain ⟨h0, hall⟩ := h
  have hsq : squareBytes rows = true := by
    unfold squareBytes
    simp only [Bool.and_eq_true, bne_iff_ne, ne_eq, List.all_eq_true, beq_iff_eq, decide_eq_true_eq]
    exact ⟨h0, hall⟩
  unfold genInvertAgrees
  simp only [hsq, Bool.true_and]
  have hsz : ((rows.map List.toArray).toArray).size = rows.length := by simp
  have hget : ∀ i, (hi : i < rows.length) → ((rows.map List.toArray).toArray)[i]! = (rows[i]).toArray := by
    intro i hi
    rw [getElem!_pos _ i (by simpa using hi)]
    simp
  have hrow : ∀ i, i < rows.length → (((rows.map List.toArray).toArray)[i]!).size = rows.length := by
    intro i hi
    rw [hget i hi]
    simpa using (hall _ (List.getElem_mem hi)).1
  have hb : ∀ i j, i < rows.length → j < rows.length → (((rows.map List.toArray).toArray)[i]!)[j]! < 256 := by
    intro i j hi hj
    rw [hget i hi]
    have hr := hall _ (List.getElem_mem hi)
    have hj' : j < (rows[i]).length := by rw [hr.1]; exact hj
    rw [getElem!_pos _ j (by simpa using hj')]
    simpa using hr.2 _ (List.getElem_mem hj')
  rw [matrix_Invert_eq_model rows.length (by omega) hlen _ hsz hrow hb]
  cases hi : Model.invert (matOfRows (rows.map List.toArray).toArray rows.length) with
  | none => rfl
  | some B => simp

end RSV.GenInvert
