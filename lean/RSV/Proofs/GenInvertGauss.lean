import RSV.Proofs.GenGauss
/-!
# The regenerated `gaussianElimination` in closed form

`gauss_arr`: on every `n × w` array (`0 < n ≤ w`, `n < 2^62`) the translated Go function returns `gaussRes n w E`:
the first sweep is `runSteps (colF n)` (column steps `RSV.GenGauss.colF`: pivot search with swap, scaling with the
`!= 1` shortcut, elimination below with the `!= 0` shortcut; `.error` = no pivot = `errSingular` with the matrix as it
is at that moment), the second sweep is `sweep2`.
-/
namespace RSV.GenInvert
open RSV RSV.Gen RSV.Model RSV.GenMatrix RSV.GenFuncs RSV.GenGauss

theorem swp_self_left (a b : Nat) : swp a b a = b := by simp [swp]

theorem pivotF_none_zero {n : Nat} {E : Nat → Nat → Nat} {r : Nat} (h : pivotF n E r = none) :
    E r r = 0 ∧ ∀ i, r < i → i < n → E i r = 0 := by
  unfold pivotF at h
  by_cases h0 : E r r = 0
  · refine ⟨h0, ?_⟩
    simp only [h0, ne_eq, not_true_eq_false, if_false] at h
    cases hf : firstFrom (fun i => decide (E i r ≠ 0)) (r + 1) (n - (r + 1)) with
    | some p => rw [hf] at h; simp at h
    | none =>
      intro i h1 h2
      have := firstFrom_none hf i (by omega) (by omega)
      simpa using this
  · simp [h0] at h



/-- the result of `gaussianElimination` on entries -/
def gaussRes (n w : Nat) (E : Nat → Nat → Nat) : Array (Array Nat) × Option String :=
  match runSteps (colF n) 0 n E with
  | .ok E1 => (arr n w (sweep2 E1 n), none)
  | .error E' => (arr n w E', some "errSingular")

theorem elimAbove (n w : Nat) (E : Nat → Nat → Nat) (d : Nat) (hd : d < n) (hdw : d < w) :
    (forIn [:d] (arr n w E) fun (k : Nat) (__s : Array (Array Nat)) =>
      (gidx __s (k : Int)).bind fun a => (gidx a (d : Int)).bind fun x =>
        if x ≠ 0 then
          (gidx __s (k : Int)).bind fun a' => (gidx a' (d : Int)).bind fun sc =>
            (forIn [:w] __s fun (c'k : Nat) (__s : Array (Array Nat)) =>
              (gidx __s (k : Int)).bind fun a => (gidx a (c'k : Int)).bind fun x =>
              (gidx __s (d : Int)).bind fun b => (gidx b (c'k : Int)).bind fun y =>
              (gset2 __s (k : Int) (c'k : Int) (x ^^^ galMultiply sc y)).bind fun m => pure (ForInStep.yield m)).bind
              fun m => pure (ForInStep.yield m)
        else pure (ForInStep.yield __s))
    = some (arr n w (upF d E)) := by
  have h := elim_loop n w E d 0 d (fun k => (k : Int)) (by intro k _; simp) (by omega) hd hdw (by intro k hk; omega)
  beta_reduce at h
  exact h

theorem gauss_arr (n w : Nat) (E : Nat → Nat → Nat) (hn0 : 0 < n) (hnw : n ≤ w) (hn : n < 4611686018427387904) :
    matrix_gaussianElimination (arr n w E) = some (gaussRes n w E) := by
  unfold matrix_gaussianElimination
  simp only [Option.bind_eq_bind, Int.ofNat_eq_natCast, Int.zero_add, Int.sub_zero, Int.toNat_natCast, size_arr]
  rw [show ((0:Int)) = ((0:Nat):Int) from rfl, gidx_arr hn0]
  simp only [Option.bind_some, size_mkRow]
  rw [forIn_range_steps n _ (fun E => ((none : Option (Array (Array Nat) × Option String)), arr n w E))
    (fun E => (some (arr n w E, some "errSingular"), arr n w E)) (colF n) E]
  · rw [Option.bind_some]
    unfold gaussRes
    cases hrun : runSteps (colF n) 0 n E with
    | error E' => rfl
    | ok E1 =>
      simp only []
      rw [show arr n w E1 = arr n w (sweep2 E1 0) from rfl,
        forIn_range_yield n _ (fun d => arr n w (sweep2 E1 d))]
      · rfl
      · intro d hd
        rw [elimAbove n w _ d hd (by omega), Option.bind_some]
        rfl
  · intro r E E' hr hcol
    have hrw : r < w := by omega
    have hcnt : r + 1 + (↑n - i64 (↑r + 1)).toNat = n := by
      rw [i64_id (by omega) (by omega)]; omega
    simp only []
    rw (occs := .pos [1]) [gidx_arr hr]
    rw [Option.bind_some, gidx_mkRow hrw, Option.bind_some]
    unfold colF at hcol
    by_cases h0 : E r r = 0
    · rw [if_pos h0]
      unfold pivotF at hcol
      simp only [h0, ne_eq, not_true_eq_false, if_false] at hcol
      cases hf : firstFrom (fun i => decide (E i r ≠ 0)) (r + 1) (n - (r + 1)) with
      | none => rw [hf] at hcol; simp at hcol
      | some p =>
        rw [hf] at hcol
        simp only [Option.map_some, Option.some.injEq] at hcol
        obtain ⟨h1, h2, h3, h4⟩ := firstFrom_some hf
        have hpz : E p r ≠ 0 := by simpa using h3
        rw [pivot_loop_found n w E r p _ (fun k => i64 (↑r + 1) + ↑k)
          (by intro k _; rw [i64_id (by omega) (by omega)]; omega) hcnt hrw (by omega) (by omega) hpz
          (by intro i hi1 hi2; have := h4 i (by omega) hi2; simpa using this)]
        rw [Option.bind_some]
        simp only []
        rw [tail_step n w _ r hr hrw (by rw [swp_self_left]; exact hpz) hn, ← hcol]
    · rw [if_neg h0]
      have : pivotF n E r = some E := by unfold pivotF; simp [h0]
      rw [this] at hcol
      simp only [Option.map_some, Option.some.injEq] at hcol
      rw [tail_step n w _ r hr hrw h0 hn, ← hcol]
  · intro r E hr hcol
    have hrw : r < w := by omega
    have hcnt : r + 1 + (↑n - i64 (↑r + 1)).toNat = n := by
      rw [i64_id (by omega) (by omega)]; omega
    simp only []
    rw (occs := .pos [1]) [gidx_arr hr]
    rw [Option.bind_some, gidx_mkRow hrw, Option.bind_some]
    unfold colF at hcol
    have hp : pivotF n E r = none := by
      cases h : pivotF n E r with
      | none => rfl
      | some x => rw [h] at hcol; simp at hcol
    obtain ⟨h0, hz⟩ := pivotF_none_zero hp
    rw [if_pos h0]
    rw [pivot_loop_none n w E r _ (fun k => i64 (↑r + 1) + ↑k)
          (by intro k _; rw [i64_id (by omega) (by omega)]; omega) hcnt hrw hz]
    rw [Option.bind_some]
    simp only []
    rw [gidx_arr hr, Option.bind_some, gidx_mkRow hrw, Option.bind_some, if_pos h0]
    rfl
end RSV.GenInvert
