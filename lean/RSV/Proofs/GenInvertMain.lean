import RSV.Proofs.GenInvertStep
/-!
# The regenerated `matrix.Invert` equals the model's `invert`

`invert_arr`: closed form of `Gen.matrix_Invert` on entries (`IsSquare`, `identityMatrix`, `Augment`,
`gaussianElimination`, `SubMatrix` composed).  `phase1_agree` / `phase2_agree`: the iterated column steps of the Go
code agree with the model's `phase1` / `phase2`.  `matrix_Invert_eq_model`: the theorem.
-/
namespace RSV.GenInvert
open RSV RSV.Gen RSV.Model RSV.GenMatrix RSV.GenFuncs RSV.GenGauss

/-- entries of the identity matrix -/
def idF : Nat → Nat → Nat := fun i j => if i = j then 1 else 0

/-- the result of `Invert` on entries -/
def invRes (n : Nat) (A : Nat → Nat → Nat) : Array (Array Nat) × Option String :=
  match runSteps (colF n) 0 n (augF n A idF) with
  | .ok E1 => (arr n n (fun i j => sweep2 E1 n i (n + j)), none)
  | .error _ => (#[], some "errSingular")

theorem invert_arr (n : Nat) (A : Nat → Nat → Nat) (hn : 0 < n) (hb : n < 4611686018427387904) :
    matrix_Invert (arr n n A) = some (invRes n A) := by
  unfold matrix_Invert matrix_IsSquare
  have h0 : gidx (arr n n A) (0 : Int) = some (mkRow n (A 0)) := gidx_arr (i := 0) hn
  rw [h0]
  simp only [Option.bind_eq_bind, Option.bind_some, Option.pure_def, size_arr, size_mkRow, decide_true,
    Bool.not_true, Bool.false_eq_true, if_false, Int.ofNat_eq_natCast]
  rw [identity_arr n hn, Option.bind_some]
  simp only []
  rw [augment_arr n n n A _ hn hn hn (by omega), Option.bind_some]
  simp only []
  rw [gauss_arr n (n + n) _ hn (by omega) hb, Option.bind_some]
  unfold gaussRes invRes idF
  cases hrun : runSteps (colF n) 0 n (augF n A fun i j => if i = j then 1 else 0) with
  | error E' =>
    simp only [ne_eq, reduceCtorEq, not_false_eq_true, if_true]
  | ok E1 =>
    simp only [ne_eq, not_true_eq_false, if_false]
    rw [submatrix_arr n (n + n) _ hn (Nat.le_refl _) hb, Option.bind_some]

theorem runSteps_snoc {σ : Type} (step : Nat → σ → Option σ) : ∀ (m k : Nat) (s : σ),
    runSteps step k (m + 1) s =
      match runSteps step k m s with
      | .ok s' => (match step (k + m) s' with | none => .error s' | some s'' => .ok s'')
      | .error e => .error e := by
  intro m
  induction m with
  | zero =>
    intro k s
    show (match step k s with | none => Except.error s | some s' => runSteps step (k + 1) 0 s') = _
    show _ = (match step (k + 0) s with | none => Except.error s | some s'' => Except.ok s'')
    rw [Nat.add_zero]
    cases step k s <;> rfl
  | succ m ih =>
    intro k s
    show (match step k s with | none => Except.error s | some s' => runSteps step (k + 1) (m + 1) s') = _
    have hR : runSteps step k (m + 1) s =
        (match step k s with | none => Except.error s | some s' => runSteps step (k + 1) m s') := rfl
    rw [hR]
    cases step k s with
    | none => rfl
    | some s' =>
      simp only []
      rw [ih (k + 1) s', show k + 1 + m = k + (m + 1) by omega]

theorem phase1_agree {n : Nat} {E : Nat → Nat → Nat} {s : GState GF256 n} (h : Agree E s) :
    ∀ (k : Nat) (hk : k ≤ n),
      (∀ s', phase1 s k hk = some s' → ∃ E', runSteps (colF n) 0 k E = .ok E' ∧ Agree E' s') ∧
      (phase1 s k hk = none → ∃ E', runSteps (colF n) 0 k E = .error E') := by
  intro k
  induction k with
  | zero =>
    intro hk
    constructor
    · intro s' hs
      have : s = s' := by simpa [phase1] using hs
      subst this
      exact ⟨E, rfl, h⟩
    · intro hs; simp [phase1] at hs
  | succ k ih =>
    intro hk
    obtain ⟨ih1, ih2⟩ := ih (Nat.le_of_succ_le hk)
    have hph : phase1 s (k + 1) hk = (phase1 s k (Nat.le_of_succ_le hk)).bind (step1 ⟨k, hk⟩) := rfl
    rw [hph, runSteps_snoc, Nat.zero_add]
    cases hp : phase1 s k (Nat.le_of_succ_le hk) with
    | none =>
      obtain ⟨E', hE'⟩ := ih2 hp
      rw [hE']
      constructor
      · intro s' hs; simp at hs
      · intro _; exact ⟨E', rfl⟩
    | some s1 =>
      obtain ⟨E1, hE1, hA1⟩ := ih1 s1 hp
      rw [hE1, Option.bind_some]
      simp only []
      have hc := colF_agree hA1 ⟨k, hk⟩
      cases hst : step1 ⟨k, hk⟩ s1 with
      | none =>
        rw [hst] at hc
        simp only [] at hc
        rw [hc]
        constructor
        · intro s' hs; simp at hs
        · intro _; exact ⟨E1, rfl⟩
      | some s2 =>
        rw [hst] at hc
        simp only [] at hc
        obtain ⟨E2, hE2, hA2⟩ := hc
        rw [hE2]
        constructor
        · intro s' hs
          have : s2 = s' := by simpa using hs
          subst this
          exact ⟨E2, rfl, hA2⟩
        · intro hs; simp at hs

theorem phase2_agree {n : Nat} {E : Nat → Nat → Nat} {s : GState GF256 n} (h : Agree E s) :
    ∀ (k : Nat) (hk : k ≤ n), Agree (sweep2 E k) (phase2 s k hk) := by
  intro k
  induction k with
  | zero => intro _; exact h
  | succ k ih =>
    intro hk
    exact upF_agree (ih (Nat.le_of_succ_le hk)) ⟨k, hk⟩

/-- the initial state `[M | I]` -/
theorem agree_init (n : Nat) (a : Array (Array Nat)) (hb : ∀ i j, i < n → j < n → (a[i]!)[j]! < 256) :
    Agree (augF n (fun i j => (a[i]!)[j]!) idF) (⟨matOfRows a n, identity n⟩ : GState GF256 n) := by
  constructor
  · intro i j
    simp only [id, augF, j.isLt, if_true, matOfRows, Mat.get_ofFn]
    exact (ofNat_val_lt (hb i.val j.val i.isLt j.isLt)).symm
  · intro i j
    have h1 : ¬ (n + j.val < n) := by omega
    have h2 : n + j.val - n = j.val := by omega
    simp only [augF, h1, if_false, h2, idF, identity, Mat.get_ofFn]
    by_cases e : i = j
    · subst e; simp
    · have : ¬ i.val = j.val := fun e' => e (Fin.ext e')
      simp [e, this]

theorem arr_of_array (n : Nat) (a : Array (Array Nat)) (hsz : a.size = n) (hrow : ∀ i, i < n → (a[i]!).size = n) :
    a = arr n n (fun i j => (a[i]!)[j]!) := by
  apply Array.ext
  · simp [hsz]
  · intro i h1 h2
    have hi : i < n := by omega
    have hget : a[i]! = a[i] := getElem!_pos a i h1
    have hs : a[i].size = n := by rw [← hget]; exact hrow i hi
    simp only [arr, getElem_mk]
    apply Array.ext
    · simp [hs]
    · intro j h3 h4
      rw [getElem_mkRow, hget, getElem!_pos a[i] j h3]

theorem matrix_Invert_eq_model (n : Nat) (hn : 0 < n) (hn62 : n < 4611686018427387904) (a : Array (Array Nat))
    (hsz : a.size = n) (hrow : ∀ i, i < n → (a[i]!).size = n)
    (hb : ∀ i j, i < n → j < n → (a[i]!)[j]! < 256) :
    Gen.matrix_Invert a =
      match Model.invert (matOfRows a n) with
      | some B => some (rowsOfMat B, none)
      | none => some (#[], some "errSingular") := by
  have ha := arr_of_array n a hsz hrow
  have hA := agree_init n a hb
  obtain ⟨p1, p2⟩ := phase1_agree hA n (Nat.le_refl n)
  rw [ha, invert_arr n _ hn hn62, ← ha]
  unfold invRes Model.invert
  cases hp : phase1 (⟨matOfRows a n, identity n⟩ : GState GF256 n) n (Nat.le_refl n) with
  | none =>
    obtain ⟨E', hE'⟩ := p2 hp
    rw [hE']
    rfl
  | some s1 =>
    obtain ⟨E1, hE1, hA1⟩ := p1 s1 hp
    rw [hE1]
    simp only [Option.map_some]
    congr 2
    have hA2 := (phase2_agree hA1 n (Nat.le_refl n)).2
    unfold arr
    apply rowsOfMat_eq_mk
    intro i
    apply mkRow_congr
    intro j hj
    simp only [hj, dif_pos]
    exact hA2 i ⟨j, hj⟩

end RSV.GenInvert
