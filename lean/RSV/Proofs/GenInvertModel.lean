import RSV.Proofs.GenInvertGauss
import RSV.Proofs.GenInvertParts
import RSV.Proofs.Gauss
/-!
# The entry-level steps of the regenerated `gaussianElimination` against the model's `step1` / `step2`

`Agree E s`: the entry function `E` of an `n × 2n` array coincides with the state `s = ⟨L, R⟩` of the model's
elimination (left half `L`, right half `R`).  One column of the Go code's first sweep (`colF`: pivot search that
looks at the diagonal first, swap, scaling skipped when the pivot is `1`, elimination below skipping zero entries)
maps agreeing states to agreeing states and fails exactly when `Model.step1` does; the same for the second sweep.
-/
namespace RSV.GenInvert
open RSV RSV.Gen RSV.Model RSV.GenMatrix RSV.GenFuncs RSV.GenGauss

theorem val_ne_zero (x : GF256) : x ≠ 0 ↔ x.val ≠ 0 := by
  constructor
  · intro h hv; exact h (GF256.ext hv)
  · intro h hx; exact h (by rw [hx]; rfl)

theorem galMultiply_val (x y : GF256) : galMultiply x.val y.val = (x * y).val :=
  Tables.mulTable_ok x.val y.val x.isLt y.isLt

theorem oneOver_val (x : GF256) (hx : x ≠ 0) : oneOver x.val = (x⁻¹).val := by
  have h0 : x.val ≠ 0 := (val_ne_zero x).1 hx
  have h1 := galOneOver_ne_zero h0
  have h2 := galOneOver_field x.isLt h0
  rw [h1, GF256.ofNat_val_self] at h2
  exact Option.some.inj h2

/-- one half of the augmented matrix: column `j` of `X` is column `φ j` of the array -/
def AgreeH {n : Nat} (φ : Nat → Nat) (E : Nat → Nat → Nat) (X : Mat GF256 n n) : Prop :=
  ∀ i j : Fin n, E i.val (φ j.val) = (X.get i j).val

def Agree {n : Nat} (E : Nat → Nat → Nat) (s : GState GF256 n) : Prop :=
  AgreeH id E s.L ∧ AgreeH (fun j => n + j) E s.R

theorem swapIdx_val {n : Nat} (a b r : Fin n) : (swapIdx a b r).val = swp a.val b.val r.val := by
  unfold swapIdx swp
  by_cases h1 : r = a
  · subst h1; simp
  · have h1' : ¬ r.val = a.val := fun e => h1 (Fin.ext e)
    by_cases h2 : r = b
    · subst h2; simp [h1, h1']
    · have h2' : ¬ r.val = b.val := fun e => h2 (Fin.ext e)
      simp [h1, h2, h1', h2']

theorem agree_swap {n : Nat} {φ : Nat → Nat} {E : Nat → Nat → Nat} {X : Mat GF256 n n} (h : AgreeH φ E X)
    (a b : Fin n) : AgreeH φ (fun i j => E (swp a.val b.val i) j) (rowSwap X a b) := by
  intro i j
  simp only [rowSwap, Mat.get_ofFn]
  rw [← swapIdx_val]
  exact h _ j

theorem agree_scale {n : Nat} {φ : Nat → Nat} {E : Nat → Nat → Nat} {X : Mat GF256 n n} (h : AgreeH φ E X)
    (r : Fin n) (c : GF256) : AgreeH φ (scaleF E r.val c.val) (rowScale X r c) := by
  intro i j
  simp only [rowScale, Mat.get_ofFn, scaleF]
  by_cases hi : i = r
  · subst hi
    simp only [if_true]
    rw [h i j, galMultiply_val]
    show gmul _ _ = gmul _ _
    exact gmul_comm (X.get i j).isLt c.isLt
  · have : ¬ i.val = r.val := fun e => hi (Fin.ext e)
    simp only [hi, this, if_false]
    exact h i j

theorem agree_scale_one {n : Nat} {φ : Nat → Nat} {E : Nat → Nat → Nat} {X : Mat GF256 n n} (h : AgreeH φ E X)
    (r : Fin n) : AgreeH φ E (rowScale X r 1) := by
  intro i j
  simp only [rowScale, Mat.get_ofFn]
  by_cases hi : i = r
  · subst hi
    simp only [if_true]
    rw [h i j]
    show _ = gmul 1 _
    exact (gmul_one_left (X.get i j).isLt).symm
  · simp only [hi, if_false]
    exact h i j

theorem agree_elim {n : Nat} {φ : Nat → Nat} {E : Nat → Nat → Nat} {X : Mat GF256 n n} (h : AgreeH φ E X)
    (q : Fin n) (lo cnt : Nat) (coef : Fin n → GF256)
    (hin : ∀ i : Fin n, lo ≤ i.val ∧ i.val < lo + cnt → E i.val q.val = (coef i).val)
    (hout : ∀ i : Fin n, ¬ (lo ≤ i.val ∧ i.val < lo + cnt) → coef i = 0) :
    AgreeH φ (elimF E q.val lo cnt) (rowElim X q coef) := by
  intro i j
  simp only [rowElim, Mat.get_ofFn, elimF]
  by_cases hi : lo ≤ i.val ∧ i.val < lo + cnt
  · rw [if_pos hi, hin i hi, h i j, h q j, galMultiply_val]
    rfl
  · rw [if_neg hi, hout i hi, h i j]
    show _ = (X.get i j).val ^^^ gmul 0 _
    rw [gmul_zero_left, Nat.xor_zero]

end RSV.GenInvert
