import RSV.Proofs.GenGauss
/-!
# `identityMatrix`, `Augment`, `SubMatrix` of the regenerated `matrix.go` in closed form

Matrix states are `arr n w E` (`RSV.GenGauss.arr`).  All three are proved for all sizes (below the `int` wrap-around).
-/
namespace RSV.GenInvert
open RSV RSV.Gen RSV.Model RSV.GenMatrix RSV.GenFuncs RSV.GenGauss

theorem newMatrix_arr (n w : Nat) (hn : 0 < n) (hw : 0 < w) :
    newMatrix (n : Int) (w : Int) = some (arr n w (fun _ _ => 0), none) := newMatrix_eq n w hn hw

/-- `for c in [0,cnt): a[r][off+c] = v c` -/
theorem fill_row (n W : Nat) (E0 : Nat → Nat → Nat) (r off cnt : Nat) (val : Nat → Option Nat) (v : Nat → Nat)
    (col : Nat → Int) (hr : r < n) (hW : off + cnt ≤ W) (hval : ∀ c, c < cnt → val c = some (v c))
    (hcol : ∀ c, c < cnt → col c = ((off + c : Nat) : Int)) :
    (forIn [:cnt] (arr n W E0) fun (c : Nat) (s : Array (Array Nat)) =>
      (val c).bind fun x => (gset2 s (r : Int) (col c) x).bind fun m => pure (ForInStep.yield m))
    = some (arr n W (fun i j => if i = r ∧ off ≤ j ∧ j < off + cnt then v (j - off) else E0 i j)) := by
  let g : Nat → Array (Array Nat) := fun c =>
    arr n W (fun i j => if i = r ∧ off ≤ j ∧ j < off + c then v (j - off) else E0 i j)
  have hg0 : arr n W E0 = g 0 := arr_congr (by
    intro i j _ _
    have : ¬ (i = r ∧ off ≤ j ∧ j < off + 0) := by omega
    rw [if_neg this])
  rw [hg0]
  apply forIn_range_yield cnt _ g
  intro c hc
  rw [hval c hc, hcol c hc, Option.bind_some]
  simp only [g]
  rw [gset2_arr _ hr (by omega), Option.bind_some]
  simp only [Option.pure_def]
  congr 2
  apply arr_congr
  intro i j _ _
  by_cases hi : i = r
  · subst hi
    by_cases hj : j = off + c
    · subst hj
      have : off ≤ off + c ∧ off + c < off + (c + 1) := by omega
      simp [this]
    · have : (off ≤ j ∧ j < off + (c + 1)) ↔ (off ≤ j ∧ j < off + c) := by omega
      simp [hj, this]
  · simp [hi]

theorem identity_arr (n : Nat) (hn : 0 < n) :
    identityMatrix (n : Int) = some (arr n n (fun i j => if i = j then 1 else 0), none) := by
  unfold identityMatrix
  rw [newMatrix_arr n n hn hn]
  simp only [Option.bind_eq_bind, Option.bind_some, ne_eq, not_true_eq_false, if_false, size_arr,
    Int.ofNat_eq_natCast]
  let g : Nat → Array (Array Nat) := fun k => arr n n (fun i j => if i = j ∧ i < k then 1 else 0)
  have hg0 : arr n n (fun _ _ => 0) = g 0 := arr_congr (by intro i j _ _; simp)
  rw [hg0, forIn_range_yield n _ g]
  · rw [Option.bind_some]
    simp only [Option.pure_def, g]
    congr 2
    apply arr_congr
    intro i j hi _
    simp [hi]
  · intro k hk
    simp only [g]
    rw [gset2_arr _ hk hk, Option.bind_some]
    simp only [Option.pure_def]
    congr 2
    apply arr_congr
    intro i j _ _
    by_cases h1 : i = k
    · subst h1
      by_cases h2 : j = i
      · subst h2; simp
      · have : ¬ i = j := fun e => h2 e.symm
        simp [h2, this]
    · by_cases h2 : i = j
      · subst h2
        have : (i < k + 1) ↔ (i < k) := by omega
        simp [h1, this]
      · simp [h1, h2]

/-- entries of `[A | B]` -/
def augF (w1 : Nat) (A B : Nat → Nat → Nat) : Nat → Nat → Nat := fun i j => if j < w1 then A i j else B i (j - w1)

theorem augment_arr (n w1 w2 : Nat) (A B : Nat → Nat → Nat) (hn : 0 < n) (h1 : 0 < w1) (h2 : 0 < w2)
    (hb : w1 + w2 < 9223372036854775808) :
    matrix_Augment (arr n w1 A) (arr n w2 B) = some (arr n (w1 + w2) (augF w1 A B), none) := by
  unfold matrix_Augment
  simp only [size_arr, ne_eq, not_true_eq_false, if_false, Option.bind_eq_bind, Int.ofNat_eq_natCast]
  rw [show ((0:Int)) = ((0:Nat):Int) from rfl, gidx_arr hn, gidx_arr hn]
  simp only [Option.bind_some, size_mkRow]
  rw [i64_id (by omega) (by omega), show ((w1:Int) + (w2:Int)) = ((w1 + w2 : Nat) : Int) by omega,
    newMatrix_arr n (w1 + w2) hn (by omega)]
  simp only [Option.bind_some]
  let g : Nat → Array (Array Nat) := fun r => arr n (w1 + w2) (fun i j => if i < r then augF w1 A B i j else 0)
  have hg0 : arr n (w1 + w2) (fun _ _ => 0) = g 0 := arr_congr (by intro i j _ _; simp)
  rw [hg0, forIn_range_yield n _ g]
  · rw [Option.bind_some]
    simp only [Option.pure_def, g]
    congr 2
    apply arr_congr
    intro i j hi _
    simp [hi]
  · intro r hr
    rw [gidx_arr hr, Option.bind_some, size_mkRow]
    simp only [gidx_arr hr, Option.bind_some, g]
    have hA := fill_row n (w1 + w2) (fun i j => if i < r then augF w1 A B i j else 0) r 0 w1
      (fun c => gidx (mkRow w1 (A r)) (c : Int)) (A r) (fun c => (c : Int)) hr (by omega)
      (fun c hc => gidx_mkRow hc) (by intro c _; simp)
    beta_reduce at hA
    rw [hA, Option.bind_some]
    have hB := fill_row n (w1 + w2) (fun i j => if i = r ∧ 0 ≤ j ∧ j < 0 + w1 then A r (j - 0) else
        if i < r then augF w1 A B i j else 0) r w1 w2
      (fun c => gidx (mkRow w2 (B r)) (c : Int)) (B r) (fun c => i64 ((w1 : Int) + (c : Int))) hr (by omega)
      (fun c hc => gidx_mkRow hc) (by intro c hc; rw [i64_id (by omega) (by omega)]; omega)
    beta_reduce at hB
    rw [hB, Option.bind_some]
    simp only [Option.pure_def]
    congr 2
    apply arr_congr
    intro i j _ hj
    unfold augF
    by_cases hi : i = r
    · subst hi
      by_cases hj1 : j < w1
      · have : ¬ (w1 ≤ j ∧ j < w1 + w2) := by omega
        simp [hj1, this]
      · have : (w1 ≤ j ∧ j < w1 + w2) := by omega
        simp [hj1, this]
    · by_cases hlt : i < r
      · have : i < r + 1 := by omega
        simp [hi, hlt, this]
      · have : ¬ i < r + 1 := by omega
        simp [hi, hlt, this]

theorem submatrix_arr (n w : Nat) (E : Nat → Nat → Nat) (hn : 0 < n) (hw : n + n ≤ w)
    (hb : n < 4611686018427387904) :
    matrix_SubMatrix (arr n w E) 0 (n : Int) (n : Int) (i64 ((n : Int) * 2)) =
      some (arr n n (fun i j => E i (n + j)), none) := by
  unfold matrix_SubMatrix
  rw [i64_id (x := (n : Int) * 2) (by omega) (by omega)]
  simp only [Int.sub_zero]
  rw [i64_id (x := (n : Int)) (by omega) (by omega), show (n : Int) * 2 - n = n by omega,
    i64_id (x := (n : Int)) (by omega) (by omega), newMatrix_arr n n hn hn]
  simp only [Option.bind_eq_bind, Option.bind_some, ne_eq, not_true_eq_false, if_false, Int.toNat_natCast,
    Int.ofNat_eq_natCast, Int.zero_add]
  let g : Nat → Array (Array Nat) := fun r => arr n n (fun i j => if i < r then E i (n + j) else 0)
  have hg0 : arr n n (fun _ _ => 0) = g 0 := arr_congr (by intro i j _ _; simp)
  rw [hg0, forIn_range_yield n _ g]
  · rw [Option.bind_some]
    simp only [Option.pure_def, g]
    congr 2
    apply arr_congr
    intro i j hi _
    simp [hi]
  · intro r hr
    have hrw : n + n ≤ w := hw
    rw [i64_id (x := (r : Int)) (by omega) (by omega)]
    simp only [gidx_arr hr, Option.bind_some, g]
    have hA := fill_row n n (fun i j => if i < r then E i (n + j) else 0) r 0 n
      (fun c => gidx (mkRow w (E r)) ((n : Int) + (c : Int))) (fun c => E r (n + c))
      (fun c => i64 ((n : Int) + (c : Int) - (n : Int))) hr (by omega)
      (fun c hc => by
        rw [show ((n : Int) + (c : Int)) = ((n + c : Nat) : Int) by omega]
        exact gidx_mkRow (by omega))
      (by intro c hc; rw [i64_id (by omega) (by omega)]; omega)
    beta_reduce at hA
    rw [hA, Option.bind_some]
    simp only [Option.pure_def]
    congr 2
    apply arr_congr
    intro i j _ hj
    by_cases hi : i = r
    · subst hi
      simp [hj]
    · by_cases hlt : i < r
      · have : i < r + 1 := by omega
        simp [hi, hlt, this]
      · have : ¬ i < r + 1 := by omega
        simp [hi, hlt, this]
end RSV.GenInvert
