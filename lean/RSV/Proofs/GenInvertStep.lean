import RSV.Proofs.GenInvertModel
/-!
# One column of each sweep: the Go code's step (`colF`, `upF`) against `Model.step1` / `Model.step2`
-/
namespace RSV.GenInvert
open RSV RSV.Gen RSV.Model RSV.GenMatrix RSV.GenFuncs RSV.GenGauss

theorem swp_same (a i : Nat) : swp a a i = i := by
  unfold swp
  by_cases h : i = a
  · simp [h]
  · simp [h]

/-- the pivot predicate of the model -/
def pivP {n : Nat} (L : Mat GF256 n n) (r : Fin n) : Fin n → Bool :=
  fun i => decide (r ≤ i) && decide (L.get i r ≠ 0)

theorem pivP_true {n : Nat} {L : Mat GF256 n n} {E : Nat → Nat → Nat} (h : AgreeH id E L) (r i : Fin n) :
    pivP L r i = true ↔ (r.val ≤ i.val ∧ E i.val r.val ≠ 0) := by
  unfold pivP
  have := h i r
  simp only [id] at this
  rw [this, ← val_ne_zero]
  simp only [Bool.and_eq_true, decide_eq_true_eq]
  exact Iff.rfl

theorem pivP_false {n : Nat} {L : Mat GF256 n n} {E : Nat → Nat → Nat} (h : AgreeH id E L) (r i : Fin n) :
    pivP L r i = false ↔ ¬ (r.val ≤ i.val ∧ E i.val r.val ≠ 0) := by
  rw [← pivP_true h r i]; simp

/-- the Go pivot search (diagonal first, then the rows below, `break` at the first hit) finds the model's pivot -/
theorem pivot_agree {n : Nat} {L : Mat GF256 n n} {E : Nat → Nat → Nat} (h : AgreeH id E L) (r : Fin n) :
    match findFirst (pivP L r) with
    | none => pivotF n E r.val = none
    | some p => pivotF n E r.val = some (fun i j => E (swp r.val p.val i) j) := by
  cases hf : findFirst (pivP L r) with
  | none =>
    simp only []
    have hall := findFirst_none hf
    have h0 : E r.val r.val = 0 := by
      have := (pivP_false h r r).1 (hall r)
      by_cases e : E r.val r.val = 0
      · exact e
      · exact absurd ⟨Nat.le_refl _, e⟩ this
    unfold pivotF
    simp only [h0, ne_eq, not_true_eq_false, if_false]
    cases hq : firstFrom (fun i => decide (E i r.val ≠ 0)) (r.val + 1) (n - (r.val + 1)) with
    | none => rfl
    | some p =>
      exfalso
      obtain ⟨h1, h2, h3, _⟩ := firstFrom_some hq
      have hp : p < n := by omega
      have := (pivP_false h r ⟨p, hp⟩).1 (hall ⟨p, hp⟩)
      apply this
      refine ⟨by show r.val ≤ p; omega, ?_⟩
      simpa using h3
  | some p =>
    simp only []
    have hpt := (pivP_true h r p).1 (findFirst_some hf)
    have hmin := findFirst_min hf
    unfold pivotF
    by_cases h0 : E r.val r.val = 0
    · simp only [h0, ne_eq, not_true_eq_false, if_false]
      have hrp : r.val < p.val := by
        rcases Nat.lt_or_ge r.val p.val with h' | h'
        · exact h'
        · have : p.val = r.val := by omega
          rw [this] at hpt
          exact absurd h0 hpt.2
      cases hq : firstFrom (fun i => decide (E i r.val ≠ 0)) (r.val + 1) (n - (r.val + 1)) with
      | none =>
        exfalso
        have := firstFrom_none hq p.val (by omega) (by have := p.isLt; omega)
        simp only [decide_eq_false_iff_not] at this
        exact this hpt.2
      | some p' =>
        obtain ⟨h1, h2, h3, h4⟩ := firstFrom_some hq
        have hp' : p' < n := by omega
        have h3' : E p' r.val ≠ 0 := by simpa using h3
        have : p' = p.val := by
          rcases Nat.lt_trichotomy p' p.val with hlt | heq | hgt
          · exfalso
            have := (pivP_false h r ⟨p', hp'⟩).1 (hmin ⟨p', hp'⟩ (by show p' < p.val; exact hlt))
            exact this ⟨by show r.val ≤ p'; omega, h3'⟩
          · exact heq
          · exfalso
            have := h4 p.val (by omega) hgt
            simp only [decide_eq_false_iff_not] at this
            exact this hpt.2
        rw [this]
    · simp only [h0, ne_eq, not_false_eq_true, if_true]
      have hpr : p = r := by
        apply Fin.ext
        rcases Nat.lt_or_ge r.val p.val with h' | h'
        · exfalso
          have := (pivP_false h r r).1 (hmin r (by show r.val < p.val; exact h'))
          exact this ⟨Nat.le_refl _, h0⟩
        · omega
      rw [hpr]
      congr 1
      funext i j
      rw [swp_same]

theorem inv_one_gf : (1 : GF256)⁻¹ = 1 := by decide

/-- scale to a leading `1` (skipped by Go when it is `1`) and clear below, on one half -/
theorem agree_tail {n : Nat} {φ : Nat → Nat} {E : Nat → Nat → Nat} {L X : Mat GF256 n n}
    (hL : AgreeH id E L) (hX : AgreeH φ E X) (r : Fin n) (hnz : L.get r r ≠ 0) :
    AgreeH φ (tailF n E r.val)
      (rowElim (rowScale X r (L.get r r)⁻¹) r
        (fun i => if r < i then (rowScale L r (L.get r r)⁻¹).get i r else 0)) := by
  unfold tailF
  have hrr : E r.val r.val = (L.get r r).val := hL r r
  -- the scaled state agrees on both halves
  have hsc : ∀ {ψ : Nat → Nat} {Y : Mat GF256 n n}, AgreeH ψ E Y →
      AgreeH ψ (if E r.val r.val ≠ 1 then scaleF E r.val (oneOver (E r.val r.val)) else E)
        (rowScale Y r (L.get r r)⁻¹) := by
    intro ψ Y hY
    by_cases h1 : E r.val r.val = 1
    · have : L.get r r = 1 := GF256.ext (by rw [← hrr, h1]; rfl)
      rw [this, inv_one_gf]
      simp only [h1, ne_eq, not_true_eq_false, if_false]
      exact agree_scale_one hY r
    · simp only [h1, ne_eq, not_false_eq_true, if_true]
      rw [hrr, oneOver_val _ hnz]
      exact agree_scale hY r _
  apply agree_elim (hsc hX) r
  · intro i hi
    have : r < i := by show r.val < i.val; omega
    rw [if_pos this]
    exact hsc hL i r
  · intro i hi
    have : ¬ r < i := by
      intro hlt
      have h1 : r.val < i.val := hlt
      have h2 := i.isLt
      omega
    rw [if_neg this]

/-- one column of the first sweep -/
theorem colF_agree {n : Nat} {E : Nat → Nat → Nat} {s : GState GF256 n} (h : Agree E s) (r : Fin n) :
    match step1 r s with
    | none => colF n r.val E = none
    | some s' => ∃ E', colF n r.val E = some E' ∧ Agree E' s' := by
  have hp := pivot_agree h.1 r
  unfold step1
  unfold pivP at hp
  cases hf : findFirst (fun i => decide (r ≤ i) && decide (s.L.get i r ≠ 0)) with
  | none =>
    rw [hf] at hp
    simp only [] at hp ⊢
    unfold colF
    rw [hp]; rfl
  | some p =>
    rw [hf] at hp
    simp only [] at hp ⊢
    unfold colF
    rw [hp]
    refine ⟨_, rfl, ?_, ?_⟩
    · have hpt := findFirst_some hf
      have hnz : (rowSwap s.L r p).get r r ≠ 0 := by
        simp only [rowSwap, Mat.get_ofFn, swapIdx, if_true]
        simp only [Bool.and_eq_true, decide_eq_true_eq] at hpt
        exact hpt.2
      exact agree_tail (agree_swap h.1 r p) (agree_swap h.1 r p) r hnz
    · have hpt := findFirst_some hf
      have hnz : (rowSwap s.L r p).get r r ≠ 0 := by
        simp only [rowSwap, Mat.get_ofFn, swapIdx, if_true]
        simp only [Bool.and_eq_true, decide_eq_true_eq] at hpt
        exact hpt.2
      exact agree_tail (agree_swap h.1 r p) (agree_swap h.2 r p) r hnz

/-- one column of the second sweep -/
theorem upF_agree {n : Nat} {E : Nat → Nat → Nat} {s : GState GF256 n} (h : Agree E s) (d : Fin n) :
    Agree (upF d.val E) (step2 d s) := by
  unfold upF step2
  constructor
  · apply agree_elim h.1 d
    · intro i hi
      have : i < d := by show i.val < d.val; omega
      rw [if_pos this]
      exact h.1 i d
    · intro i hi
      have : ¬ i < d := by
        intro hlt
        have h1 : i.val < d.val := hlt
        omega
      rw [if_neg this]
  · apply agree_elim h.2 d
    · intro i hi
      have : i < d := by show i.val < d.val; omega
      rw [if_pos this]
      exact h.1 i d
    · intro i hi
      have : ¬ i < d := by
        intro hlt
        have h1 : i.val < d.val := hlt
        omega
      rw [if_neg this]

end RSV.GenInvert
