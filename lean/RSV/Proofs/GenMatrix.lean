import RSV.Gen.MatrixGo
import RSV.Model.MatrixGoAgree
import RSV.Proofs.GenFuncs
/-!
# Loop-level theorems about the regenerated `matrix.go` / `reedsolomon.go` code (`RSV.Gen.MatrixGo`)

The translated Go loops are `forIn` loops over ranges in the `Option` monad.  `forIn_range_yield` turns a
loop whose body never exits early into its closed form, given a closed form `g i` of the state before
iteration `i`.  Matrix states are written `mk n row` (`n` rows, row `k` is `row k`), which makes
`a[i][j] = v` a pointwise update.
-/
namespace RSV.GenMatrix
open RSV RSV.Gen RSV.Model

/-! ## `forIn` over a range, no early exit -/

theorem forIn_range'_yield {β : Type} (f : Nat → β → Option (ForInStep β)) (g : Nat → β) :
    ∀ (k s : Nat), (∀ i, s ≤ i → i < s + k → f i (g i) = some (ForInStep.yield (g (i + 1)))) →
      forIn (List.range' s k 1) (g s) f = some (g (s + k)) := by
  intro k
  induction k with
  | zero => intro s _; rfl
  | succ k ih =>
    intro s h
    rw [List.range'_succ, List.forIn_cons, h s (Nat.le_refl _) (by omega)]
    simp only [Option.bind_eq_bind, Option.bind_some]
    rw [ih (s + 1) (fun i h1 h2 => h i (by omega) (by omega))]
    congr 2; omega

theorem forIn_range_yield {β : Type} (n : Nat) (f : Nat → β → Option (ForInStep β)) (g : Nat → β)
    (h : ∀ i, i < n → f i (g i) = some (ForInStep.yield (g (i + 1)))) :
    forIn [:n] (g 0) f = some (g n) := by
  rw [Std.Legacy.Range.forIn_eq_forIn_range']
  simp only [Std.Legacy.Range.size]
  have := forIn_range'_yield f g n 0 (fun i _ h2 => h i (by omega))
  simpa using this

/-! ## `forIn` over a range, early exit at iteration `k` -/

theorem forIn_range'_stop {β : Type} (f : Nat → β → Option (ForInStep β)) (g : Nat → β) (b : β) :
    ∀ (j s m : Nat), j < m →
      (∀ i, s ≤ i → i < s + j → f i (g i) = some (ForInStep.yield (g (i + 1)))) →
      f (s + j) (g (s + j)) = some (ForInStep.done b) →
      forIn (List.range' s m 1) (g s) f = some b := by
  intro j
  induction j with
  | zero =>
    intro s m hm _ hd
    obtain ⟨m', rfl⟩ : ∃ m', m = m' + 1 := ⟨m - 1, by omega⟩
    rw [Nat.add_zero] at hd
    rw [List.range'_succ, List.forIn_cons, hd]
    rfl
  | succ j ih =>
    intro s m hm hy hd
    obtain ⟨m', rfl⟩ : ∃ m', m = m' + 1 := ⟨m - 1, by omega⟩
    rw [List.range'_succ, List.forIn_cons, hy s (Nat.le_refl _) (by omega)]
    simp only [Option.bind_eq_bind, Option.bind_some]
    apply ih (s + 1) m' (by omega) (fun i h1 h2 => hy i (by omega) (by omega))
    have : s + 1 + j = s + (j + 1) := by omega
    rw [this]; exact hd

theorem forIn_range_stop {β : Type} (n : Nat) (f : Nat → β → Option (ForInStep β)) (g : Nat → β) (b : β)
    (k : Nat) (hk : k < n)
    (hy : ∀ i, i < k → f i (g i) = some (ForInStep.yield (g (i + 1))))
    (hd : f k (g k) = some (ForInStep.done b)) :
    forIn [:n] (g 0) f = some b := by
  rw [Std.Legacy.Range.forIn_eq_forIn_range']
  simp only [Std.Legacy.Range.size]
  have := forIn_range'_stop f g b k 0 n hk (fun i _ h2 => hy i (by omega)) (by simpa using hd)
  simpa using this

/-! ## slices as arrays -/

theorem gidx_nat {α : Type} [Inhabited α] (a : Array α) (i : Nat) (h : i < a.size) :
    gidx a (i : Int) = some a[i] := by
  unfold gidx
  have h0 : (0 : Int) ≤ (i : Int) := by omega
  simp only [h0, Int.toNat_natCast, h, and_self, if_true]
  rw [getElem!_pos a i h]

theorem gset_nat {α : Type} (a : Array α) (i : Nat) (v : α) (h : i < a.size) :
    gset a (i : Int) v = some (a.set! i v) := by
  unfold gset
  have h0 : (0 : Int) ≤ (i : Int) := by omega
  simp only [h0, Int.toNat_natCast, h, and_self, if_true]

theorem gset2_nat (a : Array (Array Nat)) (i j v : Nat) (hi : i < a.size) (hj : j < a[i].size) :
    gset2 a (i : Int) (j : Int) v = some (a.set! i (a[i].set! j v)) := by
  unfold gset2
  rw [gidx_nat a i hi]
  simp only [Option.bind_eq_bind, Option.bind_some]
  rw [gset_nat _ j v hj]
  simp only [Option.bind_some]
  rw [gset_nat a i _ hi]

/-- `n` rows, row `k` is `row k` -/
def mk (n : Nat) (row : Nat → Array Nat) : Array (Array Nat) := Array.ofFn (n := n) fun k => row k.val

/-- a row of `w` entries, entry `j` is `e j` -/
def mkRow (w : Nat) (e : Nat → Nat) : Array Nat := Array.ofFn (n := w) fun j => e j.val

@[simp] theorem size_mk (n : Nat) (row : Nat → Array Nat) : (mk n row).size = n := by simp [mk]
@[simp] theorem size_mkRow (w : Nat) (e : Nat → Nat) : (mkRow w e).size = w := by simp [mkRow]

theorem getElem_mk (n : Nat) (row : Nat → Array Nat) (k : Nat) (h : k < (mk n row).size) :
    (mk n row)[k] = row k := by simp [mk]

theorem getElem_mkRow (w : Nat) (e : Nat → Nat) (j : Nat) (h : j < (mkRow w e).size) :
    (mkRow w e)[j] = e j := by simp [mkRow]

theorem mk_congr {n : Nat} {r1 r2 : Nat → Array Nat} (h : ∀ k, k < n → r1 k = r2 k) : mk n r1 = mk n r2 := by
  apply Array.ext
  · simp
  · intro k h1 h2
    rw [getElem_mk, getElem_mk]; exact h k (by simpa using h1)

theorem mkRow_congr {w : Nat} {e1 e2 : Nat → Nat} (h : ∀ j, j < w → e1 j = e2 j) : mkRow w e1 = mkRow w e2 := by
  apply Array.ext
  · simp
  · intro j h1 h2
    rw [getElem_mkRow, getElem_mkRow]; exact h j (by simpa using h1)

theorem set_mk (n : Nat) (row : Nat → Array Nat) (i : Nat) (v : Array Nat) :
    (mk n row).set! i v = mk n (fun k => if k = i then v else row k) := by
  apply Array.ext
  · simp
  · intro k h1 h2
    have hk : k < (mk n row).size := by simpa using h2
    rw [getElem_mk]
    simp only [Array.set!_eq_setIfInBounds]
    rw [Array.getElem_setIfInBounds hk, getElem_mk]
    by_cases h : i = k
    · subst h; simp
    · have h' : ¬ k = i := fun e => h e.symm
      simp [h, h']

theorem set_mkRow (w : Nat) (e : Nat → Nat) (j v : Nat) :
    (mkRow w e).set! j v = mkRow w (fun k => if k = j then v else e k) := by
  apply Array.ext
  · simp
  · intro k h1 h2
    have hk : k < (mkRow w e).size := by simpa using h2
    rw [getElem_mkRow]
    simp only [Array.set!_eq_setIfInBounds]
    rw [Array.getElem_setIfInBounds hk, getElem_mkRow]
    by_cases h : j = k
    · subst h; simp
    · have h' : ¬ k = j := fun e => h e.symm
      simp [h, h']

theorem replicate_eq_mk (n : Nat) (v : Array Nat) : Array.replicate n v = mk n (fun _ => v) := by
  apply Array.ext
  · simp
  · intro k h1 h2
    rw [getElem_mk]; simp

theorem replicate_eq_mkRow (w v : Nat) : Array.replicate w v = mkRow w (fun _ => v) := by
  apply Array.ext
  · simp
  · intro k h1 h2
    rw [getElem_mkRow]; simp

/-! ## `newMatrix` -/

theorem newMatrix_eq (n w : Nat) (hn : 0 < n) (hw : 0 < w) :
    newMatrix (n : Int) (w : Int) = some (mk n (fun _ => mkRow w (fun _ => 0)), none) := by
  unfold newMatrix
  have h1 : ¬ ((n : Int) ≤ 0) := by omega
  have h2 : ¬ ((w : Int) ≤ 0) := by omega
  have h3 : (0:Int) ≤ n := by omega
  have h4 : (0:Int) ≤ w := by omega
  simp only [h1, h2, h3, h4, if_false, not_true_eq_false, Int.toNat_natCast]
  rw [replicate_eq_mk, size_mk, replicate_eq_mkRow]
  let g : Nat → Array (Array Nat) := fun i => mk n (fun k => if k < i then mkRow w (fun _ => 0) else #[])
  have hg0 : mk n (fun _ => (#[] : Array Nat)) = g 0 := mk_congr (by intro k _; simp)
  rw [hg0, forIn_range_yield n _ g]
  · simp only [Option.bind_eq_bind, Option.bind_some, Option.pure_def]
    congr 2
    exact mk_congr (by intro k hk; simp [hk])
  · intro i hi
    simp only [g, Int.ofNat_eq_natCast]
    rw [gset_nat _ i _ (by simpa using hi), set_mk]
    simp only [Option.bind_eq_bind, Option.bind_some, Option.pure_def]
    congr 2
    apply mk_congr
    intro k _
    by_cases h : k = i
    · subst h; simp
    · by_cases h' : k < i
      · have : k < i + 1 := by omega
        simp [h, h', this]
      · have : ¬ k < i + 1 := by omega
        simp [h, h', this]


/-! ## the builders `identity on top, v below` -/

def zeroRow (w : Nat) : Array Nat := mkRow w fun _ => 0
def finalRow (w d : Nat) (v : Nat → Nat → Nat) (k : Nat) : Array Nat :=
  if k < d then mkRow w (fun j => if j = k then 1 else 0) else mkRow w (v k)

theorem fill_loops (n w d : Nat) (hdw : d ≤ w) (e : Nat → Nat → Option Nat) (v : Nat → Nat → Nat)
    (he : ∀ r c, d ≤ r → r < n → c < w → e r c = some (v r c)) :
    (forIn [:n] (mk n fun _ => mkRow w fun _ => 0) fun r'k __s =>
        (gidx __s (Int.ofNat r'k)).bind fun row =>
          if Int.ofNat r'k < (d : Int) then
            (gset2 __s (Int.ofNat r'k) (Int.ofNat r'k) 1).bind fun result => pure (ForInStep.yield result)
          else
            (forIn [:row.size] __s fun c'k __s =>
                (e r'k c'k).bind fun x =>
                (gset2 __s (Int.ofNat r'k) (Int.ofNat c'k) x).bind fun result => pure (ForInStep.yield result)).bind
              fun result => pure (ForInStep.yield result))
      = some (mk n (finalRow w d v)) := by
  let g : Nat → Array (Array Nat) := fun r => mk n (fun k => if k < r then finalRow w d v k else zeroRow w)
  have hg0 : (mk n fun _ => mkRow w fun _ => 0) = g 0 := mk_congr (by intro k _; simp [zeroRow])
  have hgn : g n = mk n (finalRow w d v) := mk_congr (by intro k hk; simp [hk])
  rw [hg0, ← hgn]
  apply forIn_range_yield
  intro r hr
  have hsz : r < (g r).size := by simpa [g] using hr
  have hrow : (g r)[r] = zeroRow w := by simp [g, getElem_mk]
  simp only [Int.ofNat_eq_natCast]
  rw [gidx_nat _ r hsz, hrow]
  simp only [Option.bind_some]
  by_cases hrd : r < d
  · have hrd' : (r : Int) < (d : Int) := by omega
    simp only [hrd', if_true]
    rw [gset2_nat _ r r 1 hsz (by rw [hrow]; simp [zeroRow]; omega), hrow]
    simp only [Option.bind_some, Option.pure_def]
    congr 2
    simp only [g, set_mk, zeroRow, set_mkRow]
    apply mk_congr
    intro k _
    by_cases h : k = r
    · subst h
      have : k < k + 1 := by omega
      simp only [this, if_true, finalRow, hrd]
    · by_cases h' : k < r
      · have : k < r + 1 := by omega
        simp [h, h', this]
      · have : ¬ k < r + 1 := by omega
        simp [h, h', this]
  · have hrd' : ¬ ((r : Int) < (d : Int)) := by omega
    simp only [hrd', if_false]
    let H : Nat → Array (Array Nat) := fun c => mk n (fun k =>
      if k < r then finalRow w d v k else if k = r then mkRow w (fun j => if j < c then v r j else 0) else zeroRow w)
    have hH0 : g r = H 0 := mk_congr (by
      intro k _
      by_cases h' : k < r
      · simp [h']
      · by_cases h : k = r
        · subst h; simp [zeroRow]
        · simp [h, h'])
    have hHw : H w = g (r + 1) := mk_congr (by
      intro k _
      by_cases h' : k < r
      · have : k < r + 1 := by omega
        simp [h', this]
      · by_cases h : k = r
        · subst h
          have : k < k + 1 := by omega
          simp only [h', this, if_true, if_false, finalRow, hrd]
          apply mkRow_congr; intro j hj; simp [hj]
        · have : ¬ k < r + 1 := by omega
          simp [h, h', this])
    have hzs : (zeroRow w).size = w := by simp [zeroRow]
    rw [hzs, hH0, forIn_range_yield w _ H]
    · simp only [Option.bind_some, Option.pure_def, hHw]
    · intro c hc
      have hsz' : r < (H c).size := by simpa [H] using hr
      have hrow' : (H c)[r] = mkRow w (fun j => if j < c then v r j else 0) := by simp [H, getElem_mk]
      rw [he r c (by omega) hr hc]
      simp only [Option.bind_some]
      rw [gset2_nat _ r c (v r c) hsz' (by rw [hrow']; simpa using hc), hrow']
      simp only [Option.bind_some, Option.pure_def]
      congr 2
      simp only [H, set_mk, set_mkRow]
      apply mk_congr
      intro k _
      by_cases h : k = r
      · subst h
        simp only [if_true, Nat.lt_irrefl, if_false]
        apply mkRow_congr; intro j _
        by_cases hj : j = c
        · subst hj; have : j < j + 1 := by omega
          simp [this]
        · by_cases hj' : j < c
          · have : j < c + 1 := by omega
            simp [hj, hj', this]
          · have : ¬ j < c + 1 := by omega
            simp [hj, hj', this]
      · simp [h]

open RSV.GenFuncs

theorem ixor64_natCast (x y : Nat) (hx : x < 9223372036854775808) (hy : y < 9223372036854775808) :
    ixor64 (x : Int) (y : Int) = ((x ^^^ y : Nat) : Int) := by
  unfold ixor64
  have e1 : Int.toNat ((x : Int) % 18446744073709551616) = x := by omega
  have e2 : Int.toNat ((y : Int) % 18446744073709551616) = y := by omega
  rw [e1, e2]
  have : x ^^^ y < 2 ^ 63 := Nat.xor_lt_two_pow (by omega) (by omega)
  rw [Int.ofNat_eq_natCast, i64_id (by omega) (by omega)]

/-- `invTable[a]` is the field inverse, also at `0` -/
theorem invTable_inv (a : GF256) : byteAt Gen.invTable a.val = (a⁻¹).val := by
  by_cases h : a.val = 0
  · have : a = 0 := GF256.ext h
    subst this
    rw [GF256.inv_zero']
    exact Tables.invTable_ok.1
  · have := invTable_val a.isLt h
    rw [GF256.ofNat_val_self] at this
    exact this

theorem rowsOfMat_eq_mk {n m : Nat} (A : Mat GF256 n m) (row : Nat → Array Nat)
    (h : ∀ (i : Fin n), row i.val = mkRow m (fun j => if hj : j < m then (A.get i ⟨j, hj⟩).val else 0)) :
    mk n row = rowsOfMat A := by
  unfold mk rowsOfMat
  congr 1
  funext i
  rw [h i]
  unfold mkRow
  congr 1
  funext j
  simp [j.isLt]

theorem buildMatrixCauchy_eq (d total : Nat) (hd : 0 < d) (ht : 0 < total)
    (hd63 : d < 9223372036854775808) (ht63 : total < 9223372036854775808) :
    Gen.buildMatrixCauchy (d : Int) (total : Int) =
      some (rowsOfMat (Model.buildMatrixCauchy xByte d total), none) := by
  unfold Gen.buildMatrixCauchy
  rw [newMatrix_eq total d ht hd]
  simp only [Option.bind_eq_bind, Option.bind_some, ne_eq, not_true_eq_false, if_false, size_mk]
  have hX := fill_loops total d d (Nat.le_refl d)
    (fun r c => some (Gen.invTable >>> (8 * (ixor64 (Int.ofNat r) (Int.ofNat c) % 256).toNat) &&& 255))
    (fun r c => byteAt Gen.invTable ((r ^^^ c) % 256))
    (by
      intro r c _ hr hc
      simp only [Int.ofNat_eq_natCast]
      rw [ixor64_natCast r c (by omega) (by omega)]
      have : Int.toNat (((r ^^^ c : Nat) : Int) % 256) = (r ^^^ c) % 256 := by omega
      rw [this]; rfl)
  simp only [Option.bind_some] at hX
  rw [hX]
  simp only [Option.bind_some, Option.pure_def]
  congr 2
  apply rowsOfMat_eq_mk
  intro i
  unfold finalRow Model.buildMatrixCauchy
  by_cases h : i.val < d
  · simp only [h, if_true]
    apply mkRow_congr
    intro j hj
    simp only [hj, dif_pos, Mat.get_ofFn, h, if_true]
    by_cases e : j = i.val
    · subst e; simp
    · have : ¬ i.val = j := fun e' => e e'.symm
      simp [e, this]
  · simp only [h, if_false]
    apply mkRow_congr
    intro j hj
    simp only [hj, dif_pos, Mat.get_ofFn, h, if_false]
    rw [← invTable_inv]
    congr 1
    show _ = (GF256.ofNat i.val).val ^^^ (GF256.ofNat j).val
    show _ = (i.val % 256) ^^^ (j % 256)
    exact Nat.xor_mod_two_pow (n := 8)

/-- every row filled by the inner loop (no identity block): `vandermonde` -/
theorem fill_all (n w : Nat) (e : Nat → Nat → Option Nat) (v : Nat → Nat → Nat)
    (he : ∀ r c, r < n → c < w → e r c = some (v r c)) :
    (forIn [:n] (mk n fun _ => mkRow w fun _ => 0) fun r'k __s =>
        (gidx __s (Int.ofNat r'k)).bind fun row =>
            (forIn [:row.size] __s fun c'k __s =>
                (e r'k c'k).bind fun x =>
                (gset2 __s (Int.ofNat r'k) (Int.ofNat c'k) x).bind fun result => pure (ForInStep.yield result)).bind
              fun result => pure (ForInStep.yield result))
      = some (mk n (fun k => mkRow w (v k))) := by
  let g : Nat → Array (Array Nat) := fun r => mk n (fun k => if k < r then mkRow w (v k) else zeroRow w)
  have hg0 : (mk n fun _ => mkRow w fun _ => 0) = g 0 := mk_congr (by intro k _; simp [zeroRow])
  have hgn : g n = mk n (fun k => mkRow w (v k)) := mk_congr (by intro k hk; simp [hk])
  rw [hg0, ← hgn]
  apply forIn_range_yield
  intro r hr
  have hsz : r < (g r).size := by simpa [g] using hr
  have hrow : (g r)[r] = zeroRow w := by simp [g, getElem_mk]
  simp only [Int.ofNat_eq_natCast]
  rw [gidx_nat _ r hsz, hrow]
  simp only [Option.bind_some]
  let H : Nat → Array (Array Nat) := fun c => mk n (fun k =>
    if k < r then mkRow w (v k) else if k = r then mkRow w (fun j => if j < c then v r j else 0) else zeroRow w)
  have hH0 : g r = H 0 := mk_congr (by
    intro k _
    by_cases h' : k < r
    · simp [h']
    · by_cases h : k = r
      · subst h; simp [zeroRow]
      · simp [h, h'])
  have hHw : H w = g (r + 1) := mk_congr (by
    intro k _
    by_cases h' : k < r
    · have : k < r + 1 := by omega
      simp [h', this]
    · by_cases h : k = r
      · subst h
        have : k < k + 1 := by omega
        simp only [h', this, if_true, if_false]
        apply mkRow_congr; intro j hj; simp [hj]
      · have : ¬ k < r + 1 := by omega
        simp [h, h', this])
  have hzs : (zeroRow w).size = w := by simp [zeroRow]
  rw [hzs, hH0, forIn_range_yield w _ H]
  · simp only [Option.bind_some, Option.pure_def, hHw]
  · intro c hc
    have hsz' : r < (H c).size := by simpa [H] using hr
    have hrow' : (H c)[r] = mkRow w (fun j => if j < c then v r j else 0) := by simp [H, getElem_mk]
    rw [he r c hr hc]
    simp only [Option.bind_some]
    rw [gset2_nat _ r c (v r c) hsz' (by rw [hrow']; simpa using hc), hrow']
    simp only [Option.bind_some, Option.pure_def]
    congr 2
    simp only [H, set_mk, set_mkRow]
    apply mk_congr
    intro k _
    by_cases h : k = r
    · subst h
      simp only [if_true, Nat.lt_irrefl, if_false]
      apply mkRow_congr; intro j _
      by_cases hj : j = c
      · subst hj; have : j < j + 1 := by omega
        simp [this]
      · by_cases hj' : j < c
        · have : j < c + 1 := by omega
          simp [hj, hj', this]
        · have : ¬ j < c + 1 := by omega
          simp [hj, hj', this]
    · simp [h]

/-- the model's `npow` on `GF256` is `gpow` on the values -/
theorem npow_val (a : GF256) (n : Nat) : (Model.npow a n).val = gpow a.val n := by
  induction n with
  | zero => rfl
  | succ n ih => show gmul (Model.npow a n).val a.val = _; rw [ih]; rfl

theorem buildXorMatrix_eq (d : Nat) (hd : 0 < d) (hd63 : d < 9223372036854775807) :
    Gen.buildXorMatrix (d : Int) ((d + 1 : Nat) : Int) =
      some (rowsOfMat (Model.buildXorMatrix (F := GF256) d (d + 1)), none) := by
  unfold Gen.buildXorMatrix
  have h1 : i64 ((d:Int) + 1) = ((d + 1 : Nat) : Int) := by rw [i64_id (by omega) (by omega)]; omega
  rw [h1, if_neg (fun h => h rfl)]
  rw [newMatrix_eq (d+1) d (by omega) hd]
  simp only [Option.bind_eq_bind, Option.bind_some, not_true_eq_false, if_false, size_mk]
  have hX := fill_loops (d+1) d d (Nat.le_refl d) (fun _ _ => some 1) (fun _ _ => 1) (by intros; rfl)
  simp only [Option.bind_some] at hX
  rw [hX]
  simp only [Option.bind_some, Option.pure_def]
  suffices hm : mk (d + 1) (finalRow d d fun _ _ => 1) = rowsOfMat (Model.buildXorMatrix (F := GF256) d (d + 1)) by
    rw [hm, if_neg (fun h => h rfl)]
  apply rowsOfMat_eq_mk
  intro i
  unfold finalRow Model.buildXorMatrix
  by_cases h : i.val < d
  · simp only [h, if_true]
    apply mkRow_congr
    intro j hj
    simp only [hj, dif_pos, Mat.get_ofFn, h, if_true]
    by_cases e : j = i.val
    · subst e; simp
    · have : ¬ i.val = j := fun e' => e e'.symm
      simp [e, this]
  · simp only [h, if_false]
    apply mkRow_congr
    intro j hj
    simp only [hj, dif_pos, Mat.get_ofFn, h, if_false]
    rfl

theorem buildMatrixPAR1_eq (d total : Nat) (hd : 0 < d) (ht : 0 < total)
    (hd55 : d < 36028797018963968) (ht55 : total < 36028797018963968) :
    Gen.buildMatrixPAR1 (d : Int) (total : Int) =
      some (rowsOfMat (Model.buildMatrixPAR1 xByte d total), none) := by
  unfold Gen.buildMatrixPAR1
  rw [newMatrix_eq total d ht hd]
  simp only [Option.bind_eq_bind, Option.bind_some, ne_eq, not_true_eq_false, if_false, size_mk]
  have hX := fill_loops total d d (Nat.le_refl d)
    (fun r c => galExp (i64 (Int.ofNat c + 1) % 256).toNat (i64 (Int.ofNat r - (d : Int))))
    (fun r c => gpow ((c + 1) % 256) (r - d))
    (by
      intro r c hdr hr hc
      simp only [Int.ofNat_eq_natCast]
      rw [i64_id (by omega) (by omega), i64_id (by omega) (by omega)]
      have e1 : Int.toNat (((c : Int) + 1) % 256) = (c + 1) % 256 := by omega
      have e2 : (r : Int) - (d : Int) = ((r - d : Nat) : Int) := by omega
      rw [e1, e2]
      exact galExp_eq _ _ (Nat.mod_lt _ (by decide)) (by omega))
  rw [hX]
  simp only [Option.bind_some, Option.pure_def]
  congr 2
  apply rowsOfMat_eq_mk
  intro i
  unfold finalRow Model.buildMatrixPAR1
  by_cases h : i.val < d
  · simp only [h, if_true]
    apply mkRow_congr
    intro j hj
    simp only [hj, dif_pos, Mat.get_ofFn, h, if_true]
    by_cases e : j = i.val
    · subst e; simp
    · have : ¬ i.val = j := fun e' => e e'.symm
      simp [e, this]
  · simp only [h, if_false]
    apply mkRow_congr
    intro j hj
    simp only [hj, dif_pos, Mat.get_ofFn, h, if_false]
    rw [npow_val]; rfl

theorem vandermonde_eq (rows cols : Nat) (hr : 0 < rows) (hc : 0 < cols)
    (hr63 : rows < 9223372036854775808) (hc55 : cols < 36028797018963968) :
    Gen.vandermonde (rows : Int) (cols : Int) =
      some (rowsOfMat (Model.vandermonde xByte rows cols), none) := by
  unfold Gen.vandermonde
  rw [newMatrix_eq rows cols hr hc]
  simp only [Option.bind_eq_bind, Option.bind_some, ne_eq, not_true_eq_false, if_false, size_mk]
  have hX := fill_all rows cols
    (fun r c => galExp (Int.ofNat r % 256).toNat (Int.ofNat c))
    (fun r c => gpow (r % 256) c)
    (by
      intro r c hr' hc'
      simp only [Int.ofNat_eq_natCast]
      have e1 : Int.toNat ((r : Int) % 256) = r % 256 := by omega
      rw [e1]
      exact galExp_eq _ _ (Nat.mod_lt _ (by decide)) (by omega))
  rw [hX]
  simp only [Option.bind_some, Option.pure_def]
  congr 2
  apply rowsOfMat_eq_mk
  intro i
  unfold Model.vandermonde
  apply mkRow_congr
  intro j hj
  simp only [hj, dif_pos, Mat.get_ofFn]
  rw [npow_val]; rfl

end RSV.GenMatrix
