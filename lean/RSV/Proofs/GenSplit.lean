import RSV.Gen.ApiGo
import RSV.Model.SplitJoin
/-!
# The size computation of `Split`, as regenerated from the Go code (`RSV.Gen.ApiGo`), is the model's `perShard`

`reedSolomon_Split_sizes`, `leopardFF8_Split_sizes`, `leopardFF16_Split_sizes` are the translator's prefix mode on
the three `Split` methods: the statements up to the definition of `perShard` / `needTotal`, over the LENGTH of
`data` and the receiver fields `dataShards`, `totalShards` that the code reads; the result is `some none` when the
function returned before (empty input, the single-shard case) and `some (some (perShard, needTotal))` otherwise.
Core Lean only.
-/
namespace RSV.GenSplit
open RSV RSV.Gen RSV.Model.SJ

theorem shI64_id {x : Int} (h1 : -9223372036854775808 ≤ x) (h2 : x < 9223372036854775808) : shI64 x = x := by
  unfold shI64; omega

/-- `n & 63` on a Go `int` that holds a length -/
theorem shIand64_63 (n : Nat) (h : n < 2 ^ 63) : shIand64 (Int.ofNat n) 63 = Int.ofNat (n % 64) := by
  unfold shIand64
  have e1 : Int.toNat (Int.ofNat n % 18446744073709551616) = n := by
    rw [Int.ofNat_eq_natCast]; omega
  have e2 : Int.toNat ((63 : Int) % 18446744073709551616) = 63 := by decide
  have e3 : n &&& 63 = n % 64 := Nat.and_two_pow_sub_one_eq_mod n 6
  rw [e1, e2, e3]
  have : n % 64 < 64 := Nat.mod_lt _ (by decide)
  rw [shI64_id (by simp only [Int.ofNat_eq_natCast]; omega) (by simp only [Int.ofNat_eq_natCast]; omega)]

/-- the model's `perShard` for the matrix codec (`q = 1`) -/
theorem perShard_one (d len : Nat) : perShard 1 d len = (len + d - 1) / d := by
  unfold perShard; simp

/-- the first assignment: `(len(data) + r.dataShards - 1) / r.dataShards` -/
theorem ceilDiv_eq (d len : Nat) (hd : 0 < d) (h63 : len + d < 2 ^ 63) :
    shI64 (Int.tdiv (shI64 (shI64 (Int.ofNat len + (d : Int)) - 1)) (d : Int)) = (((len + d - 1) / d : Nat) : Int) := by
  have e1 : shI64 (Int.ofNat len + (d : Int)) = ((len + d : Nat) : Int) := by
    rw [shI64_id (by simp only [Int.ofNat_eq_natCast]; omega) (by simp only [Int.ofNat_eq_natCast]; omega)]
    simp only [Int.ofNat_eq_natCast]; omega
  have e2 : shI64 (((len + d : Nat) : Int) - 1) = ((len + d - 1 : Nat) : Int) := by
    rw [shI64_id (by omega) (by omega)]; omega
  rw [e1, e2, Int.natCast_tdiv_eq_ediv]
  have hle : (len + d - 1) / d ≤ len + d - 1 := Nat.div_le_self _ _
  have : (((len + d - 1 : Nat) : Int) / (d : Int)) = (((len + d - 1) / d : Nat) : Int) := by
    exact (Int.natCast_ediv _ _).symm
  rw [this]
  generalize (len + d - 1) / d = q at hle
  rw [shI64_id (by omega) (by omega)]

/-- `reedSolomon.Split`: `perShard = ceil(len/d)`, `needTotal = total * perShard` -/
theorem reedSolomon_Split_sizes_eq (d total len : Nat) (hd : 0 < d) (h63 : len + d < 2 ^ 63)
    (hn : total * perShard 1 d len < 2 ^ 63) :
    reedSolomon_Split_sizes (d : Int) (total : Int) len =
      some (if len = 0 ∨ total = 1 then none
            else some (((perShard 1 d len : Nat) : Int), ((total * perShard 1 d len : Nat) : Int))) := by
  unfold reedSolomon_Split_sizes
  rw [perShard_one] at hn ⊢
  by_cases h0 : len = 0
  · subst h0; simp
  · have a0 : ¬ (Int.ofNat len = 0) := by simp only [Int.ofNat_eq_natCast]; omega
    by_cases h1 : total = 1
    · subst h1; simp
    · have a1 : ¬ ((total : Int) = 1) := by omega
      have a2 : ¬ ¬ ((d : Int) ≠ 0) := by omega
      have a3 : ¬ (len = 0 ∨ total = 1) := by omega
      simp only [a0, a1, a2, a3, if_false]
      rw [ceilDiv_eq d len hd h63]
      have : shI64 ((total : Int) * (((len + d - 1) / d : Nat) : Int)) = ((total * ((len + d - 1) / d) : Nat) : Int) := by
        have hm : ((total : Int) * (((len + d - 1) / d : Nat) : Int)) = ((total * ((len + d - 1) / d) : Nat) : Int) := by
          simp
        rw [hm, shI64_id (by omega) (by omega)]
      rw [this]
      rfl

/-- the two assignments of the Leopard codecs: `ceil(len/d)` rounded up to a multiple of 64 -/
theorem perShard64_eq (d len : Nat) (hp : perShard 64 d len < 2 ^ 63) :
    shI64 (shI64 (Int.tdiv (shI64 ((((len + d - 1) / d : Nat) : Int) + 63)) 64) * 64) = ((perShard 64 d len : Nat) : Int) := by
  unfold perShard at hp ⊢
  generalize (len + d - 1) / d = x at hp ⊢
  have hx : x + 63 < 2 ^ 63 + 64 := by omega
  have hx' : x + 63 < 2 ^ 63 := by omega
  rw [shI64_id (x := (x : Int) + 63) (by omega) (by omega)]
  have e : Int.tdiv ((x : Int) + 63) 64 = (((x + 64 - 1) / 64 : Nat) : Int) := by
    have : ((x : Int) + 63) = ((x + 63 : Nat) : Int) := by omega
    rw [this, Int.natCast_tdiv_eq_ediv]; omega
  rw [e, shI64_id (x := (((x + 64 - 1) / 64 : Nat) : Int)) (by omega) (by omega), shI64_id (by omega) (by omega)]
  omega

theorem leopard_sizes_aux (d total len : Nat) (ht : 0 < total)
    (hn : total * perShard 64 d len < 2 ^ 63) :
    perShard 64 d len < 2 ^ 63 := by
  have : perShard 64 d len ≤ total * perShard 64 d len := Nat.le_mul_of_pos_left _ ht
  omega

/-- `leopardFF8.Split` -/
theorem leopardFF8_Split_sizes_eq (d total len : Nat) (hd : 0 < d) (h63 : len + d < 2 ^ 63) (ht : 0 < total)
    (hn : total * perShard 64 d len < 2 ^ 63) :
    leopardFF8_Split_sizes (d : Int) (total : Int) len =
      some (if len = 0 ∨ (total = 1 ∧ len % 64 = 0) then none
            else some (((perShard 64 d len : Nat) : Int), ((total * perShard 64 d len : Nat) : Int))) := by
  unfold leopardFF8_Split_sizes
  have hp := leopard_sizes_aux d total len ht hn
  by_cases h0 : len = 0
  · subst h0; simp
  · have a0 : ¬ (Int.ofNat len = 0) := by simp only [Int.ofNat_eq_natCast]; omega
    have a2 : ¬ ¬ ((d : Int) ≠ 0) := by omega
    rw [shIand64_63 len (by omega)]
    have a4 : (Int.ofNat (len % 64) = 0) ↔ len % 64 = 0 := by simp only [Int.ofNat_eq_natCast]; omega
    have a5 : ((total : Int) = 1) ↔ total = 1 := by omega
    by_cases h1 : total = 1 ∧ len % 64 = 0
    · have : (total : Int) = 1 ∧ Int.ofNat (len % 64) = 0 := ⟨a5.mpr h1.1, a4.mpr h1.2⟩
      simp [h1]
    · have a1 : ¬ ((total : Int) = 1 ∧ Int.ofNat (len % 64) = 0) := fun h => h1 ⟨a5.mp h.1, a4.mp h.2⟩
      have a3 : ¬ (len = 0 ∨ (total = 1 ∧ len % 64 = 0)) := by
        intro h; rcases h with h | h
        · exact h0 h
        · exact h1 h
      simp only [a0, a1, a2, a3, if_false]
      rw [ceilDiv_eq d len hd h63, perShard64_eq d len hp]
      have : shI64 ((total : Int) * ((perShard 64 d len : Nat) : Int)) = ((total * perShard 64 d len : Nat) : Int) := by
        have hm : ((total : Int) * ((perShard 64 d len : Nat) : Int)) = ((total * perShard 64 d len : Nat) : Int) := by
          simp
        rw [hm, shI64_id (by omega) (by omega)]
      rw [this]
      rfl

/-- `leopardFF16.Split` -/
theorem leopardFF16_Split_sizes_eq (d total len : Nat) (hd : 0 < d) (h63 : len + d < 2 ^ 63) (ht : 0 < total)
    (hn : total * perShard 64 d len < 2 ^ 63) :
    leopardFF16_Split_sizes (d : Int) (total : Int) len =
      some (if len = 0 ∨ (total = 1 ∧ len % 64 = 0) then none
            else some (((perShard 64 d len : Nat) : Int), ((total * perShard 64 d len : Nat) : Int))) := by
  unfold leopardFF16_Split_sizes
  have hp := leopard_sizes_aux d total len ht hn
  by_cases h0 : len = 0
  · subst h0; simp
  · have a0 : ¬ (Int.ofNat len = 0) := by simp only [Int.ofNat_eq_natCast]; omega
    have a2 : ¬ ¬ ((d : Int) ≠ 0) := by omega
    rw [shIand64_63 len (by omega)]
    have a4 : (Int.ofNat (len % 64) = 0) ↔ len % 64 = 0 := by simp only [Int.ofNat_eq_natCast]; omega
    have a5 : ((total : Int) = 1) ↔ total = 1 := by omega
    by_cases h1 : total = 1 ∧ len % 64 = 0
    · have : (total : Int) = 1 ∧ Int.ofNat (len % 64) = 0 := ⟨a5.mpr h1.1, a4.mpr h1.2⟩
      simp [h1]
    · have a1 : ¬ ((total : Int) = 1 ∧ Int.ofNat (len % 64) = 0) := fun h => h1 ⟨a5.mp h.1, a4.mp h.2⟩
      have a3 : ¬ (len = 0 ∨ (total = 1 ∧ len % 64 = 0)) := by
        intro h; rcases h with h | h
        · exact h0 h
        · exact h1 h
      simp only [a0, a1, a2, a3, if_false]
      rw [ceilDiv_eq d len hd h63, perShard64_eq d len hp]
      have : shI64 ((total : Int) * ((perShard 64 d len : Nat) : Int)) = ((total * perShard 64 d len : Nat) : Int) := by
        have hm : ((total : Int) * ((perShard 64 d len : Nat) : Int)) = ((total * perShard 64 d len : Nat) : Int) := by
          simp
        rw [hm, shI64_id (by omega) (by omega)]
      rw [this]
      rfl

end RSV.GenSplit
