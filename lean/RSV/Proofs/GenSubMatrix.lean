import RSV.Proofs.GenInvertParts
/-!
# `matrix.SubMatrix` of the regenerated `matrix.go` in closed form, for EVERY window

`GenInvert.submatrix_arr` / `GenBuildMatrix` cover the two windows `Invert` and `buildMatrix` use.  Here the
regenerated loop is evaluated for an arbitrary window `[r0,r1) × [c0,c1)` inside an `n × w` matrix (sizes below the
`int` wrap-around): it returns exactly the entries `E (r0+i) (c0+j)` — the frame every caller of `SubMatrix` relies on.
-/
namespace RSV.GenInvert
open RSV RSV.Gen RSV.Model RSV.GenMatrix RSV.GenFuncs RSV.GenGauss

theorem submatrix_arr_window (n w : Nat) (E : Nat → Nat → Nat) (r0 c0 r1 c1 : Nat)
    (hr : r0 < r1) (hc : c0 < c1) (hrn : r1 ≤ n) (hcw : c1 ≤ w)
    (hbn : n < 4611686018427387904) (hbw : w < 4611686018427387904) :
    matrix_SubMatrix (arr n w E) (r0 : Int) (c0 : Int) (r1 : Int) (c1 : Int) =
      some (arr (r1 - r0) (c1 - c0) (fun i j => E (r0 + i) (c0 + j)), none) := by
  unfold matrix_SubMatrix
  rw [i64_id (x := (r1 : Int) - r0) (by omega) (by omega), i64_id (x := (c1 : Int) - c0) (by omega) (by omega),
    show (r1 : Int) - r0 = ((r1 - r0 : Nat) : Int) by omega, show (c1 : Int) - c0 = ((c1 - c0 : Nat) : Int) by omega,
    newMatrix_arr (r1 - r0) (c1 - c0) (by omega) (by omega)]
  simp only [Option.bind_eq_bind, Option.bind_some, ne_eq, not_true_eq_false, if_false,
    Int.ofNat_eq_natCast]
  have hN : ((r1 : Int) - r0).toNat = r1 - r0 := by omega
  have hW : ((c1 : Int) - c0).toNat = c1 - c0 := by omega
  rw [hN, hW]
  let g : Nat → Array (Array Nat) := fun r =>
    arr (r1 - r0) (c1 - c0) (fun i j => if i < r then E (r0 + i) (c0 + j) else 0)
  have hg0 : arr (r1 - r0) (c1 - c0) (fun _ _ => 0) = g 0 := arr_congr (by intro i j _ _; simp)
  rw [hg0, forIn_range_yield (r1 - r0) _ g]
  · rw [Option.bind_some]
    simp only [Option.pure_def, g]
    congr 2
    apply arr_congr
    intro i j hi _
    simp [hi]
  · intro r hr'
    rw [i64_id (x := (r0 : Int) + (r : Int) - (r0 : Int)) (by omega) (by omega),
      show (r0 : Int) + (r : Int) - (r0 : Int) = (r : Int) by omega,
      show ((r0 : Int) + (r : Int)) = ((r0 + r : Nat) : Int) by omega,
      gidx_arr (show r0 + r < n by omega)]
    simp only [Option.bind_some, g]
    have hA := fill_row (r1 - r0) (c1 - c0) (fun i j => if i < r then E (r0 + i) (c0 + j) else 0) r 0 (c1 - c0)
      (fun c => gidx (mkRow w (E (r0 + r))) ((c0 : Int) + (c : Int)))
      (fun c => E (r0 + r) (c0 + c))
      (fun c => i64 ((c0 : Int) + (c : Int) - (c0 : Int))) hr' (by omega)
      (fun c hc' => by
        rw [show ((c0 : Int) + (c : Int)) = ((c0 + c : Nat) : Int) by omega]
        exact gidx_mkRow (by omega))
      (by intro c hc'; rw [i64_id (by omega) (by omega)]; omega)
    beta_reduce at hA
    rw [hA, Option.bind_some]
    simp only [Option.pure_def]
    congr 2
    apply arr_congr
    intro i j _ hj
    by_cases hi : i = r
    · subst hi
      simp [hj]
    · by_cases hlt : i < r
      · have : i < r + 1 := by omega
        simp [hi, hlt, this]
      · have : ¬ i < r + 1 := by omega
        simp [hi, hlt, this]
end RSV.GenInvert
