import RSV.Model.Builders
import RSV.Model.Cert
import RSV.Proofs.GF256Field
import RSV.Proofs.Gauss
import RSV.Proofs.CodeTheory
import Mathlib.LinearAlgebra.Vandermonde
/-!
# The generator-matrix builders, identified (helper lemmas for `RSV.Props.C01` / `C03gen`)

Generic part (any `Field F`, `x : ℕ → F` injective on the relevant range):

* `npow_eq` — the model's repeated-multiplication power is the monoid power;
* `buildMatrix_spec` — `buildMatrix` (Vandermonde times the inverse of its top square) never
  fails and its entry `(r, c)` is the Lagrange basis polynomial of node `x c` (nodes
  `x 0 … x (d-1)`) evaluated at `x r`;
* `lagrAt_node` — Lagrange basis at the nodes is the Kronecker delta (⇒ top square = identity);
* `buildMatrix_mul_vandermonde` — the defining property `G · (top Vandermonde) = Vandermonde`;
* entry formulas for the closed-form builders.

Concrete part: the points `GF256.ofNat 0 … GF256.ofNat 255` are pairwise distinct.
-/

set_option linter.unusedSectionVars false

namespace RSV.Generators
open RSV.Model RSV.CodeTheory Finset

section Generic
variable {F : Type} [Field F] [DecidableEq F]

/-- `galExp`-style repeated multiplication is the monoid power -/
theorem npow_eq (a : F) : ∀ n : ℕ, npow a n = a ^ n
  | 0 => by simp [npow]
  | n+1 => by rw [npow, npow_eq a n, pow_succ]

@[simp] theorem vandermonde_get (x : ℕ → F) (rows cols : ℕ) (r : Fin rows) (c : Fin cols) :
    (vandermonde x rows cols).get r c = x r.val ^ c.val := by
  simp [vandermonde, npow_eq]

@[simp] theorem topSquare_get {total d : ℕ} (h : d ≤ total) (A : Mat F total d) (i j : Fin d) :
    (topSquare h A).get i j = A.get ⟨i.val, Nat.lt_of_lt_of_le i.isLt h⟩ j := by
  simp [topSquare]

@[simp] theorem parityPart_get {total d : ℕ} (p : ℕ) (h : d + p = total) (G : Mat F total d)
    (r : Fin p) (c : Fin d) :
    (parityPart p h G).get r c = G.get ⟨d + r.val, by omega⟩ c := by
  simp [parityPart]

/-- the Lagrange basis at the nodes is the Kronecker delta -/
theorem lagrAt_node {d : ℕ} (y : Fin d → F) (hy : Function.Injective y) (r c : Fin d) :
    lagrAt y (y r) c = if r = c then 1 else 0 := by
  unfold lagrAt
  split_ifs with h
  · subst h
    apply Finset.prod_eq_one
    intro j hj
    exact div_self (sub_ne_zero.mpr fun e => (Finset.mem_erase.mp hj).1 (hy e).symm)
  · apply Finset.prod_eq_zero (i := r) (Finset.mem_erase.mpr ⟨h, Finset.mem_univ _⟩)
    simp

/-- the nodes `x 0 … x (d-1)` as a function on `Fin d` -/
theorem nodes_injective (x : ℕ → F) (d : ℕ)
    (hinj : ∀ a b, a < d → b < d → x a = x b → a = b) :
    Function.Injective (fun c : Fin d => x c.val) :=
  fun a b hab => Fin.ext (hinj _ _ a.isLt b.isLt hab)

/-- **`buildMatrix` identified.**  If the first `d` points are distinct, the inversion of the
top square never fails and the result is the Lagrange matrix over the nodes `x 0 … x (d-1)`
evaluated at `x 0 … x (total-1)`. -/
theorem buildMatrix_spec (x : ℕ → F) (d total : ℕ) (h : d ≤ total)
    (hinj : ∀ a b, a < d → b < d → x a = x b → a = b) :
    ∃ G, buildMatrix x d total h = some G ∧
      ∀ r c, G.get r c = lagrAt (fun c : Fin d => x c.val) (x r.val) c := by
  have hy := nodes_injective x d hinj
  have hW : ∀ c k : Fin d,
      (topSquare h (vandermonde x total d)).toMatrix c k = (x c.val) ^ k.val := by
    intro c k; simp
  have hWv : (topSquare h (vandermonde x total d)).toMatrix
      = Matrix.vandermonde (fun c : Fin d => x c.val) := by
    ext c k; rw [hW, Matrix.vandermonde_apply]
  have hdet : (topSquare h (vandermonde x total d)).toMatrix.det ≠ 0 := by
    rw [hWv]; exact Matrix.det_vandermonde_ne_zero_iff.mpr hy
  have hsome : (invert (topSquare h (vandermonde x total d))).isSome :=
    (invert_isSome_iff_det _).mpr (isUnit_iff_ne_zero.mpr hdet)
  obtain ⟨N, hN⟩ := Option.isSome_iff_exists.mp hsome
  refine ⟨mulMat (vandermonde x total d) N, ?_, ?_⟩
  · show (invert (topSquare h (vandermonde x total d))).map _ = _
    rw [hN]; rfl
  · intro r c
    have h1 : (mulMat (vandermonde x total d) N).get r c
        = ∑ k : Fin d, (x r.val) ^ k.val * N.toMatrix k c := by
      simp [mulMat, finSum_eq_sum]
    rw [h1]
    exact vandermonde_quotient _ hy _ hW N.toMatrix (invert_sound' _ N hN) (x r.val) c

/-- every successful `buildMatrix` result is the Lagrange matrix -/
theorem buildMatrix_entry (x : ℕ → F) (d total : ℕ) (h : d ≤ total)
    (hinj : ∀ a b, a < d → b < d → x a = x b → a = b)
    (G : Mat F total d) (hG : buildMatrix x d total h = some G) (r : Fin total) (c : Fin d) :
    G.get r c = lagrAt (fun c : Fin d => x c.val) (x r.val) c := by
  obtain ⟨G', hG', hE⟩ := buildMatrix_spec x d total h hinj
  rw [hG] at hG'
  cases hG'
  exact hE r c

/-- top square of `buildMatrix` is the identity -/
theorem buildMatrix_top (x : ℕ → F) (d total : ℕ) (h : d ≤ total)
    (hinj : ∀ a b, a < d → b < d → x a = x b → a = b)
    (G : Mat F total d) (hG : buildMatrix x d total h = some G) (i : Fin total) (hi : i.val < d)
    (c : Fin d) : G.get i c = if i.val = c.val then 1 else 0 := by
  rw [buildMatrix_entry x d total h hinj G hG]
  have := lagrAt_node (fun c : Fin d => x c.val) (nodes_injective x d hinj) ⟨i.val, hi⟩ c
  simp only [Fin.ext_iff] at this
  exact this

/-- the defining property: row `r` of `G` times the top Vandermonde square is row `r` of the
Vandermonde matrix, i.e. `G = vandermonde · top⁻¹` -/
theorem buildMatrix_mul_vandermonde (x : ℕ → F) (d total : ℕ) (h : d ≤ total)
    (hinj : ∀ a b, a < d → b < d → x a = x b → a = b)
    (G : Mat F total d) (hG : buildMatrix x d total h = some G) (r : Fin total) (k : Fin d) :
    ∑ c : Fin d, G.get r c * (x c.val) ^ k.val = (x r.val) ^ k.val := by
  simp only [buildMatrix_entry x d total h hinj G hG]
  exact sum_lagrAt_mul_pow (fun c : Fin d => x c.val) (nodes_injective x d hinj) (x r.val)
    k.val k.isLt

/-- the parity part of `buildMatrix` is MDS as soon as all `d + p` points are distinct -/
theorem buildMatrix_parity_mds (x : ℕ → F) (d p : ℕ)
    (hinj : ∀ a b, a < d + p → b < d + p → x a = x b → a = b)
    (G : Mat F (d + p) d) (hG : buildMatrix x d (d + p) (Nat.le_add_right d p) = some G) :
    MDS (fun r c => (parityPart p rfl G).get r c) := by
  have hinj' : ∀ a b, a < d → b < d → x a = x b → a = b :=
    fun a b ha hb => hinj a b (by omega) (by omega)
  have : (fun r c => (parityPart p rfl G).get r c)
      = lagr (fun c : Fin d => x c.val) (fun r : Fin p => x (d + r.val)) := by
    funext r c
    rw [parityPart_get, buildMatrix_entry x d _ _ hinj' G hG]
    rfl
  rw [this]
  refine lagr_mds _ _ (nodes_injective x d hinj') ?_ ?_
  · intro a b hab
    have := hinj _ _ (by omega) (by omega) hab
    exact Fin.ext (by omega)
  · intro r c hab
    have := hinj _ _ (by omega) (by omega) hab
    omega

/-! ### closed-form builders -/

theorem buildMatrixCauchy_top (x : ℕ → F) (d total : ℕ) (i : Fin total) (hi : i.val < d)
    (c : Fin d) : (buildMatrixCauchy x d total).get i c = if i.val = c.val then 1 else 0 := by
  simp [buildMatrixCauchy, hi]

theorem buildMatrixPAR1_top (x : ℕ → F) (d total : ℕ) (i : Fin total) (hi : i.val < d)
    (c : Fin d) : (buildMatrixPAR1 x d total).get i c = if i.val = c.val then 1 else 0 := by
  simp [buildMatrixPAR1, hi]

theorem buildXorMatrix_top (d total : ℕ) (i : Fin total) (hi : i.val < d)
    (c : Fin d) : (buildXorMatrix (F := F) d total).get i c = if i.val = c.val then 1 else 0 := by
  simp [buildXorMatrix, hi]

theorem buildMatrixCauchy_parity (x : ℕ → F) (d p : ℕ) (r : Fin p) (c : Fin d) :
    (parityPart p rfl (buildMatrixCauchy x d (d + p))).get r c = (x (d + r.val) - x c.val)⁻¹ := by
  simp [buildMatrixCauchy]

theorem buildMatrixPAR1_parity (x : ℕ → F) (d p : ℕ) (r : Fin p) (c : Fin d) :
    (parityPart p rfl (buildMatrixPAR1 x d (d + p))).get r c = (x (c.val + 1)) ^ r.val := by
  simp [buildMatrixPAR1, npow_eq]

theorem buildXorMatrix_parity (d p : ℕ) (r : Fin p) (c : Fin d) :
    (parityPart p rfl (buildXorMatrix (F := F) d (d + p))).get r c = 1 := by
  simp [buildXorMatrix]

theorem buildMatrixCauchy_parity_mds (x : ℕ → F) (d p : ℕ)
    (hinj : ∀ a b, a < d + p → b < d + p → x a = x b → a = b) :
    MDS (fun r c => (parityPart p rfl (buildMatrixCauchy x d (d + p))).get r c) := by
  have : (fun r c => (parityPart p rfl (buildMatrixCauchy x d (d + p))).get r c)
      = fun (r : Fin p) (c : Fin d) => ((fun r : Fin p => x (d + r.val)) r
          - (fun c : Fin d => x c.val) c)⁻¹ := by
    funext r c
    exact buildMatrixCauchy_parity x d p r c
  rw [this]
  refine cauchy_mds _ _ (nodes_injective x d fun a b ha hb => hinj a b (by omega) (by omega)) ?_ ?_
  · intro a b hab
    have := hinj _ _ (by omega) (by omega) hab
    exact Fin.ext (by omega)
  · intro r c hab
    have := hinj _ _ (by omega) (by omega) hab
    omega

theorem buildXorMatrix_parity_mds (x : ℕ → F) (d : ℕ)
    (hinj : ∀ a b, a < d → b < d → x a = x b → a = b) :
    MDS (fun r c => (parityPart 1 rfl (buildXorMatrix (F := F) d (d + 1))).get r c) := by
  have : (fun r c => (parityPart 1 rfl (buildXorMatrix (F := F) d (d + 1))).get r c)
      = fun (_ : Fin 1) (_ : Fin d) => (1 : F) := by
    funext r c
    exact buildXorMatrix_parity d 1 r c
  rw [this]
  exact ones_mds _ (nodes_injective x d hinj)

/-! ### the natural points of the certificate -/

/-- distinctness facts for `y c = pt c`, `x r = pt (d + r)` with one row possibly at infinity -/
theorem natPoints_distinct {d p : ℕ} (pt : ℕ → F) (inf : Option (Fin p))
    (hpt : ∀ a b, a < d + p → b < d + p → pt a = pt b → a = b) :
    Function.Injective (fun c : Fin d => pt c.val) ∧
    Function.Injective
      (fun r : Fin p => if inf = some r then none else some (pt (d + r.val))) ∧
    ∀ (r : Fin p) (c : Fin d),
      (if inf = some r then none else some (pt (d + r.val)) : Option F) ≠ some (pt c.val) := by
  refine ⟨?_, ?_, ?_⟩
  · intro a b hab
    exact Fin.ext (hpt a b (by omega) (by omega) hab)
  · intro a b hab
    have hab' : (if inf = some a then none else some (pt (d + a.val)) : Option F)
        = (if inf = some b then none else some (pt (d + b.val))) := hab
    by_cases ha : inf = some a <;> by_cases hb : inf = some b
    · exact Option.some_injective _ (ha.symm.trans hb)
    · rw [if_pos ha, if_neg hb] at hab'
      exact absurd hab'.symm (Option.some_ne_none _)
    · rw [if_neg ha, if_pos hb] at hab'
      exact absurd hab' (Option.some_ne_none _)
    · rw [if_neg ha, if_neg hb] at hab'
      have := hpt _ _ (by omega) (by omega) (Option.some_injective _ hab')
      exact Fin.ext (by omega)
  · intro r c
    by_cases hr : inf = some r
    · rw [if_pos hr]
      exact (Option.some_ne_none _).symm
    · rw [if_neg hr]
      intro hab
      have := hpt _ _ (by omega) (by omega) (Option.some_injective _ hab)
      omega

/-! ### pure coding-theory facts -/

/-- with no parity the only size-`d` subset is all the data -/
theorem mds_p0 {d : ℕ} (A : Fin 0 → Fin d → F) : MDS A := by
  intro S hS t h0
  have hS' : S = Finset.univ := by
    apply Finset.eq_univ_of_card
    rw [hS]; simp
  funext c
  have := h0 (Sum.inl c) (by rw [hS']; exact Finset.mem_univ _)
  simpa using this

/-- the loss of any `≤ p` shards leaves the data determined -/
theorem mds_any_p_losses {d p : ℕ} {A : Fin p → Fin d → F} (hA : MDS A)
    (lost : Finset (Fin d ⊕ Fin p)) (hl : lost.card ≤ p) (t t' : Fin d → F)
    (heq : ∀ i, i ∉ lost → cw A t i = cw A t' i) : t = t' := by
  have hc : d ≤ (lostᶜ).card := by
    rw [Finset.card_compl]
    simp only [Fintype.card_sum, Fintype.card_fin]
    omega
  obtain ⟨S, hSsub, hScard⟩ := Finset.exists_subset_card_eq hc
  refine hA.unique S hScard t t' fun i hi => heq i ?_
  exact Finset.mem_compl.mp (hSsub hi)

end Generic

/-! ### the concrete points -/

/-- `byte(0) … byte(n-1)` are pairwise distinct for `n ≤ 256` -/
theorem ofNat_injOn_le {n : ℕ} (h : n ≤ 256) :
    ∀ a b, a < n → b < n → GF256.ofNat a = GF256.ofNat b → a = b :=
  fun a b ha hb => GF256.ofNat_injOn a b (by omega) (by omega)

end RSV.Generators

#print axioms RSV.Generators.npow_eq
#print axioms RSV.Generators.buildMatrix_spec
#print axioms RSV.Generators.buildMatrix_top
#print axioms RSV.Generators.buildMatrix_mul_vandermonde
#print axioms RSV.Generators.buildMatrix_parity_mds
#print axioms RSV.Generators.buildMatrixCauchy_parity_mds
#print axioms RSV.Generators.buildXorMatrix_parity_mds
#print axioms RSV.Generators.natPoints_distinct
#print axioms RSV.Generators.mds_p0
#print axioms RSV.Generators.mds_any_p_losses
