import RSV.Proofs.JerasureInv
import Mathlib.Algebra.CharP.Two
/-!
# `buildMatrixJerasure` is systematic and MDS — for every configuration

`buildMatrixJerasure x d total` starts from the Vandermonde matrix over the points
`x 0 … x (total-1)`, overwrites row `0` with `e_0` (the Vandermonde row of the point `0`) and the
last row with `e_(d-1)` (the Vandermonde row of the point at infinity), brings the top square to
the identity by *column* operations with row pivoting, and finally normalises the first parity
row and the first parity column to all ones.

* `rowsMDS_jerInit` — the modified Vandermonde matrix has every `d` rows independent (a non-zero
  polynomial of degree `< d` has fewer than `d` roots; the row at infinity reads off the leading
  coefficient);
* `jerasureStep_inv`, `jerasureLoop_inv` — the main loop keeps `RowsMDS`, never misses a pivot,
  and after `k` columns the rows `< k` are unit vectors (this uses characteristic 2: the Go code
  *adds* the multiple of the pivot column);
* `jerNorm1_inv`, `jerNorm2_inv` — the two normalisation passes;
* `buildMatrixJerasure_rowsMDS`, `buildMatrixJerasure_mds` — the assembled theorems.
-/

set_option linter.unusedSectionVars false

namespace RSV.Jerasure
open RSV.Model RSV.CodeTheory RSV.Generators Finset Polynomial

section
variable {F : Type} [Field F] [DecidableEq F]

/-! ### the polynomial with coefficient vector `t` -/

noncomputable def tpoly {d : ℕ} (t : Fin d → F) : F[X] := ∑ c : Fin d, C (t c) * X ^ c.val

theorem tpoly_coeff {d : ℕ} (t : Fin d → F) (m : ℕ) :
    (tpoly t).coeff m = ∑ c : Fin d, if m = c.val then t c else 0 := by
  simp only [tpoly, finsetSum_coeff, coeff_C_mul, coeff_X_pow, mul_ite, mul_one, mul_zero]

theorem tpoly_coeff_lt {d : ℕ} (t : Fin d → F) (c : Fin d) : (tpoly t).coeff c.val = t c := by
  rw [tpoly_coeff, Finset.sum_eq_single c]
  · simp
  · intro b _ hb
    have : c.val ≠ b.val := fun e => hb (Fin.ext e.symm)
    simp [this]
  · simp

theorem tpoly_coeff_ge {d : ℕ} (t : Fin d → F) (m : ℕ) (hm : d ≤ m) : (tpoly t).coeff m = 0 := by
  rw [tpoly_coeff]
  apply Finset.sum_eq_zero
  intro c _
  have : m ≠ c.val := by have := c.isLt; omega
  simp [this]

theorem tpoly_eval {d : ℕ} (t : Fin d → F) (z : F) :
    (tpoly t).eval z = ∑ c : Fin d, z ^ c.val * t c := by
  simp only [tpoly, eval_finsetSum, eval_mul, eval_C, eval_pow, eval_X]
  exact Finset.sum_congr rfl fun c _ => mul_comm _ _

theorem tpoly_degree_lt {d : ℕ} (t : Fin d → F) : (tpoly t).degree < (d : WithBot ℕ) := by
  rw [degree_lt_iff_coeff_zero]
  exact fun m hm => tpoly_coeff_ge t m hm

theorem tpoly_degree_lt_pred {d : ℕ} (hd : 0 < d) (t : Fin d → F)
    (h : t ⟨d - 1, by omega⟩ = 0) : (tpoly t).degree < ((d - 1 : ℕ) : WithBot ℕ) := by
  rw [degree_lt_iff_coeff_zero]
  intro m hm
  rcases Nat.eq_or_lt_of_le hm with rfl | hlt
  · rw [← h]; exact tpoly_coeff_lt t ⟨d - 1, by omega⟩
  · exact tpoly_coeff_ge t m (by omega)

/-! ### the starting matrix -/

/-- the matrix the main loop starts from -/
def jerInit (x : ℕ → F) (d total : ℕ) : Mat F total d :=
  Mat.ofFn fun r c =>
    if r.val = 0 then (if c.val = 0 then 1 else 0)
    else if r.val = total - 1 then (if c.val = d - 1 then 1 else 0)
    else (vandermonde x total d).get r c

/-- first normalisation pass: row `d` becomes all ones -/
def jerNorm1 {d total : ℕ} (h : d < total) (A : Mat F total d) : Mat F total d :=
  Mat.ofFn fun i j => if d ≤ i.val then A.get i j * (A.get ⟨d, h⟩ j)⁻¹ else A.get i j

/-- second normalisation pass: column `0` of the rows `> d` becomes all ones -/
def jerNorm2 {d total : ℕ} (hd : 0 < d) (A : Mat F total d) : Mat F total d :=
  Mat.ofFn fun i j => if d < i.val then A.get i j * (A.get i ⟨0, hd⟩)⁻¹ else A.get i j

theorem buildMatrixJerasure_eq (x : ℕ → F) (d total : ℕ) (h : d < total) (hd : 0 < d) :
    buildMatrixJerasure x d total h hd
      = jerNorm2 hd (jerNorm1 h (jerasureLoop (Nat.le_of_lt h) (jerInit x d total) d
          (Nat.le_refl d))) := rfl

theorem jerInit_fin (x : ℕ → F) (hx0 : x 0 = 0) (d total : ℕ) (r : Fin total) (c : Fin d)
    (hr : r.val < total - 1) : (jerInit x d total).get r c = x r.val ^ c.val := by
  simp only [jerInit, Mat.get_ofFn, vandermonde_get]
  by_cases h0 : r.val = 0
  · rw [if_pos h0, h0, hx0, zero_pow_eq]
  · rw [if_neg h0, if_neg (by omega)]

theorem jerInit_last (x : ℕ → F) (d total : ℕ) (r : Fin total) (c : Fin d)
    (hr : r.val = total - 1) (ht : 1 < total) :
    (jerInit x d total).get r c = if d - 1 = c.val then 1 else 0 := by
  simp only [jerInit, Mat.get_ofFn]
  rw [if_neg (by omega), if_pos hr]
  by_cases hc : c.val = d - 1
  · rw [if_pos hc, if_pos hc.symm]
  · rw [if_neg hc, if_neg (Ne.symm hc)]

/-- **the modified Vandermonde matrix has every `d` rows independent** -/
theorem rowsMDS_jerInit (x : ℕ → F) (d total : ℕ) (hd : 0 < d) (h : d < total) (hx0 : x 0 = 0)
    (hinj : ∀ a b, a < total - 1 → b < total - 1 → x a = x b → a = b) :
    RowsMDS (jerInit x d total) := by
  classical
  intro S hS t h0
  have hroot : ∀ i ∈ S, i.val < total - 1 → (tpoly t).eval (x i.val) = 0 := by
    intro i hi hfin
    rw [tpoly_eval, ← h0 i hi]
    exact Finset.sum_congr rfl fun c _ => by rw [jerInit_fin x hx0 d total i c hfin]
  have key : ∀ S' : Finset (Fin total), S' ⊆ S → (∀ i ∈ S', i.val < total - 1) →
      (tpoly t).degree < (S'.card : WithBot ℕ) → tpoly t = 0 := by
    intro S' hsub hfin hdeg
    apply eq_zero_of_degree_lt_of_eval_finset_eq_zero (S'.image fun i => x i.val)
    · rwa [Finset.card_image_of_injOn]
      intro a ha b hb hab
      exact Fin.ext (hinj _ _ (hfin a ha) (hfin b hb) hab)
    · intro z hz
      obtain ⟨i, hi, rfl⟩ := mem_image.mp hz
      exact hroot i (hsub hi) (hfin i hi)
  have hg : tpoly t = 0 := by
    by_cases hl : (⟨total - 1, by omega⟩ : Fin total) ∈ S
    · have ht : t ⟨d - 1, by omega⟩ = 0 := by
        have := h0 _ hl
        simp only [jerInit_last x d total ⟨total - 1, by omega⟩ _ rfl (by omega)] at this
        rw [sum_delta (d - 1) (by omega) t] at this
        exact this
      apply key (S.erase ⟨total - 1, by omega⟩) (erase_subset _ _)
      · intro i hi
        have h1 := (mem_erase.mp hi).1
        have h2 : i.val ≠ total - 1 := fun e => h1 (Fin.ext e)
        have := i.isLt
        omega
      · rw [card_erase_of_mem hl, hS]
        exact tpoly_degree_lt_pred hd t ht
    · apply key S Subset.rfl
      · intro i hi
        have h2 : i.val ≠ total - 1 := fun e => hl (by
          have : i = ⟨total - 1, by omega⟩ := Fin.ext e
          rw [← this]; exact hi)
        have := i.isLt
        omega
      · rw [hS]; exact tpoly_degree_lt t
  funext c
  rw [← tpoly_coeff_lt t c, hg]
  simp

/-! ### one column of the main loop -/

theorem colScale_inv_of_eq_one {n m : ℕ} (A : Mat F n m) (c : Fin m) (s : F) (hs : s = 1) :
    colScale A c s⁻¹ = A := by
  apply Mat.ext_get
  intro i j
  simp [colScale, hs]

/-- the loop body once the pivot search has returned `r` (the `if piv ≠ 1` guard only skips a
multiplication by `1`) -/
theorem jerasureStep_of_find {total d : ℕ} (h : d ≤ total) (i : Fin d) (vm : Mat F total d)
    (r : Fin total)
    (hq : findFirst (fun r : Fin total => decide (i.val ≤ r.val) && decide (vm.get r i ≠ 0))
      = some r) :
    jerasureStep h i vm =
      colElim (colScale (rowSwap vm ⟨i.val, Nat.lt_of_lt_of_le i.isLt h⟩ r) i
          ((rowSwap vm ⟨i.val, Nat.lt_of_lt_of_le i.isLt h⟩ r).get
            ⟨i.val, Nat.lt_of_lt_of_le i.isLt h⟩ i)⁻¹) i
        (fun j => (colScale (rowSwap vm ⟨i.val, Nat.lt_of_lt_of_le i.isLt h⟩ r) i
          ((rowSwap vm ⟨i.val, Nat.lt_of_lt_of_le i.isLt h⟩ r).get
            ⟨i.val, Nat.lt_of_lt_of_le i.isLt h⟩ i)⁻¹).get
              ⟨i.val, Nat.lt_of_lt_of_le i.isLt h⟩ j) := by
  unfold jerasureStep
  simp only [hq]
  split_ifs with hp
  · rfl
  · rw [colScale_inv_of_eq_one _ _ _ (not_not.mp hp)]

/-- column elimination makes the pivot row a unit vector (characteristic 2) and leaves the
unit rows above it alone -/
theorem topUnit_colElim [CharP F 2] {n d : ℕ} {A : Mat F n d} (i : Fin d) (iRow : Fin n)
    (hi : iRow.val = i.val) (hT : TopUnit i.val A) (hone : A.get iRow i = 1) :
    TopUnit (i.val + 1) (colElim A i (fun j => A.get iRow j)) := by
  intro r c hr
  simp only [colElim, Mat.get_ofFn]
  rcases Nat.lt_succ_iff_lt_or_eq.mp hr with hlt | heq
  · have hz : A.get r i = 0 := by
      rw [hT r i hlt]
      have : r.val ≠ i.val := by omega
      simp [this]
    rw [hz, mul_zero, add_zero, ite_self]
    exact hT r c hlt
  · have : r = iRow := Fin.ext (by omega)
    subst this
    by_cases hc : c = i
    · subst hc
      rw [if_pos rfl, hone, if_pos hi]
    · have hne : r.val ≠ c.val := fun e => hc (Fin.ext (by omega))
      rw [if_neg hc, hone, mul_one, CharTwo.add_self_eq_zero, if_neg hne]

/-- **one column**: the pivot search succeeds, `RowsMDS` is kept, one more unit row -/
theorem jerasureStep_inv [CharP F 2] {total d : ℕ} (h : d ≤ total) (i : Fin d)
    (vm : Mat F total d) (hM : RowsMDS vm) (hT : TopUnit i.val vm) :
    (findFirst (fun r : Fin total => decide (i.val ≤ r.val) && decide (vm.get r i ≠ 0))).isSome ∧
    RowsMDS (jerasureStep h i vm) ∧ TopUnit (i.val + 1) (jerasureStep h i vm) := by
  obtain ⟨r0, hr0⟩ := rowsMDS_no_zero_column hM h i
  have hr0i : i.val ≤ r0.val := by
    by_contra hlt
    apply hr0
    rw [hT r0 i (by omega)]
    have : r0.val ≠ i.val := by omega
    simp [this]
  cases hq : findFirst (fun r : Fin total => decide (i.val ≤ r.val) && decide (vm.get r i ≠ 0)) with
  | none =>
    have := findFirst_none hq r0
    simp [hr0i, hr0] at this
  | some r =>
    have hr := findFirst_some hq
    simp only [Bool.and_eq_true, decide_eq_true_eq] at hr
    rw [jerasureStep_of_find h i vm r hq]
    have hM1 := rowsMDS_rowSwap hM ⟨i.val, Nat.lt_of_lt_of_le i.isLt h⟩ r
    have hT1 := topUnit_rowSwap hT ⟨i.val, Nat.lt_of_lt_of_le i.isLt h⟩ r (le_refl _) hr.1
    have hpiv : (rowSwap vm ⟨i.val, Nat.lt_of_lt_of_le i.isLt h⟩ r).get
        ⟨i.val, Nat.lt_of_lt_of_le i.isLt h⟩ i ≠ 0 := by
      simp only [rowSwap, Mat.get_ofFn, swapIdx_left]
      exact hr.2
    have hM2 := rowsMDS_colScale hM1 i _ (inv_ne_zero hpiv)
    have hT2 := topUnit_colScale hT1 i ((rowSwap vm ⟨i.val, Nat.lt_of_lt_of_le i.isLt h⟩ r).get
        ⟨i.val, Nat.lt_of_lt_of_le i.isLt h⟩ i)⁻¹ (le_refl _)
    refine ⟨rfl, rowsMDS_colElim hM2 i _, topUnit_colElim i _ rfl hT2 ?_⟩
    simp only [colScale, Mat.get_ofFn, if_true]
    exact mul_inv_cancel₀ hpiv

/-- **the main loop**: after `k` columns, `RowsMDS` holds and the rows `< k` are unit vectors -/
theorem jerasureLoop_inv [CharP F 2] {total d : ℕ} (h : d ≤ total) (vm : Mat F total d)
    (hM : RowsMDS vm) : ∀ (k : ℕ) (hk : k ≤ d),
    RowsMDS (jerasureLoop h vm k hk) ∧ TopUnit k (jerasureLoop h vm k hk)
  | 0, _ => ⟨hM, fun _ _ hr => absurd hr (Nat.not_lt_zero _)⟩
  | k+1, hk => by
    have ih := jerasureLoop_inv h vm hM k (Nat.le_of_succ_le hk)
    exact (jerasureStep_inv h ⟨k, hk⟩ _ ih.1 ih.2).2

/-- the pivot search of iteration `k` never fails (the Go loop does not index out of range) -/
theorem jerasureLoop_pivot [CharP F 2] {total d : ℕ} (h : d ≤ total) (vm : Mat F total d)
    (hM : RowsMDS vm) (k : ℕ) (hk : k < d) :
    (findFirst (fun r : Fin total => decide (k ≤ r.val) &&
      decide ((jerasureLoop h vm k (Nat.le_of_lt hk)).get r ⟨k, hk⟩ ≠ 0))).isSome := by
  have ih := jerasureLoop_inv h vm hM k (Nat.le_of_lt hk)
  exact (jerasureStep_inv h ⟨k, hk⟩ _ ih.1 ih.2).1

/-! ### the normalisation passes -/

theorem jerNorm1_inv {total d : ℕ} (h : d < total) (A : Mat F total d) (hM : RowsMDS A)
    (hT : TopUnit d A) :
    RowsMDS (jerNorm1 h A) ∧ TopUnit d (jerNorm1 h A) ∧
      ∀ c, (jerNorm1 h A).get ⟨d, h⟩ c = 1 := by
  have hne : ∀ c, A.get ⟨d, h⟩ c ≠ 0 :=
    fun c => rowsMDS_entry_ne_zero hM hT (Nat.le_of_lt h) ⟨d, h⟩ (le_refl _) c
  have hT' : TopUnit d (jerNorm1 h A) := by
    intro r c hr
    simp only [jerNorm1, Mat.get_ofFn]
    rw [if_neg (by omega)]
    exact hT r c hr
  refine ⟨?_, hT', ?_⟩
  · refine hM.transfer id Function.injective_id (fun t j => (A.get ⟨d, h⟩ j)⁻¹ * t j) ?_ ?_
    · intro t ht
      funext j
      have := congrFun ht j
      exact (mul_eq_zero.mp this).resolve_left (inv_ne_zero (hne j))
    · intro r t h0
      simp only [id]
      by_cases hr : d ≤ r.val
      · refine Eq.trans (Finset.sum_congr rfl fun j _ => ?_) h0
        simp only [jerNorm1, Mat.get_ofFn, if_pos hr]
        ring
      · have hr' : r.val < d := by omega
        rw [hT'.dot r hr' hr' t] at h0
        rw [hT.dot r hr' hr' _, h0, mul_zero]
  · intro c
    simp only [jerNorm1, Mat.get_ofFn, le_refl, if_true]
    exact mul_inv_cancel₀ (hne c)

theorem jerNorm2_inv {total d : ℕ} (hd : 0 < d) (h : d < total) (A : Mat F total d)
    (hM : RowsMDS A) (hT : TopUnit d A) (hrow : ∀ c, A.get ⟨d, h⟩ c = 1) :
    RowsMDS (jerNorm2 hd A) ∧ TopUnit d (jerNorm2 hd A) ∧
      (∀ c, (jerNorm2 hd A).get ⟨d, h⟩ c = 1) ∧
      (∀ r : Fin total, d ≤ r.val → (jerNorm2 hd A).get r ⟨0, hd⟩ = 1) := by
  have hne : ∀ r : Fin total, d ≤ r.val → A.get r ⟨0, hd⟩ ≠ 0 :=
    fun r hr => rowsMDS_entry_ne_zero hM hT (Nat.le_of_lt h) r hr _
  refine ⟨?_, ?_, ?_, ?_⟩
  · refine hM.transfer id Function.injective_id id (fun t ht => ht) ?_
    intro r t h0
    simp only [id]
    by_cases hr : d < r.val
    · have : ∑ c, (jerNorm2 hd A).get r c * t c
          = (∑ c, A.get r c * t c) * (A.get r ⟨0, hd⟩)⁻¹ := by
        rw [Finset.sum_mul]
        refine Finset.sum_congr rfl fun c _ => ?_
        simp only [jerNorm2, Mat.get_ofFn, if_pos hr]
        ring
      rw [this] at h0
      exact (mul_eq_zero.mp h0).resolve_right (inv_ne_zero (hne r (Nat.le_of_lt hr)))
    · refine Eq.trans (Finset.sum_congr rfl fun c _ => ?_) h0
      simp only [jerNorm2, Mat.get_ofFn, if_neg hr]
  · intro r c hr
    simp only [jerNorm2, Mat.get_ofFn]
    rw [if_neg (by omega)]
    exact hT r c hr
  · intro c
    simp only [jerNorm2, Mat.get_ofFn, lt_irrefl, if_false]
    exact hrow c
  · intro r hr
    simp only [jerNorm2, Mat.get_ofFn]
    by_cases hr' : d < r.val
    · rw [if_pos hr']
      exact mul_inv_cancel₀ (hne r hr)
    · rw [if_neg hr']
      have : r = ⟨d, h⟩ := Fin.ext (by simp only; omega)
      rw [this]
      exact hrow _

/-! ### assembly -/

/-- **every `d` rows of the Jerasure generator are independent; its top square is the identity;
its first parity row and first parity column are all ones.**  Points `x 0 = 0, x 1, …,
x (total-2)` pairwise distinct (the last row is the point at infinity); characteristic 2. -/
theorem buildMatrixJerasure_rowsMDS [CharP F 2] (x : ℕ → F) (d total : ℕ) (h : d < total)
    (hd : 0 < d) (hx0 : x 0 = 0)
    (hinj : ∀ a b, a < total - 1 → b < total - 1 → x a = x b → a = b) :
    RowsMDS (buildMatrixJerasure x d total h hd) ∧
    TopUnit d (buildMatrixJerasure x d total h hd) ∧
    (∀ c, (buildMatrixJerasure x d total h hd).get ⟨d, h⟩ c = 1) ∧
    (∀ r : Fin total, d ≤ r.val → (buildMatrixJerasure x d total h hd).get r ⟨0, hd⟩ = 1) := by
  rw [buildMatrixJerasure_eq]
  have h0 := rowsMDS_jerInit x d total hd h hx0 hinj
  have h1 := jerasureLoop_inv (Nat.le_of_lt h) _ h0 d (Nat.le_refl d)
  have h2 := jerNorm1_inv h _ h1.1 h1.2
  exact jerNorm2_inv hd h _ h2.1 h2.2.1 h2.2.2

/-- **`buildMatrixJerasure` is systematic and MDS for every `0 < d`, `0 < p`**, with the
normalisation Jerasure is known for (first parity row and first parity column all ones) -/
theorem buildMatrixJerasure_mds [CharP F 2] (x : ℕ → F) (d p : ℕ) (hd : 0 < d) (hp : 0 < p)
    (hx0 : x 0 = 0)
    (hinj : ∀ a b, a < d + p - 1 → b < d + p - 1 → x a = x b → a = b) :
    (∀ (r : Fin (d + p)) (c : Fin d), r.val < d →
      (buildMatrixJerasure x d (d + p) (by omega) hd).get r c = if r.val = c.val then 1 else 0) ∧
    MDS (fun r c => (parityPart p rfl (buildMatrixJerasure x d (d + p) (by omega) hd)).get r c) ∧
    (∀ c, (buildMatrixJerasure x d (d + p) (by omega) hd).get ⟨d, by omega⟩ c = 1) ∧
    (∀ r : Fin (d + p), d ≤ r.val →
      (buildMatrixJerasure x d (d + p) (by omega) hd).get r ⟨0, hd⟩ = 1) := by
  obtain ⟨hM, hT, hrow, hcol⟩ :=
    buildMatrixJerasure_rowsMDS x d (d + p) (by omega) hd hx0 hinj
  exact ⟨hT, rowsMDS_mds hM hT, hrow, hcol⟩

/-- the pivot search of the main loop never fails: the `none` branch of the model (where the Go
code would index out of range) is dead -/
theorem buildMatrixJerasure_pivot [CharP F 2] (x : ℕ → F) (d total : ℕ) (h : d < total)
    (hd : 0 < d) (hx0 : x 0 = 0)
    (hinj : ∀ a b, a < total - 1 → b < total - 1 → x a = x b → a = b) (k : ℕ) (hk : k < d) :
    (findFirst (fun r : Fin total => decide (k ≤ r.val) &&
      decide ((jerasureLoop (Nat.le_of_lt h) (jerInit x d total) k (Nat.le_of_lt hk)).get r
        ⟨k, hk⟩ ≠ 0))).isSome :=
  jerasureLoop_pivot _ _ (rowsMDS_jerInit x d total hd h hx0 hinj) k hk

end
end RSV.Jerasure

#print axioms RSV.Jerasure.rowsMDS_jerInit
#print axioms RSV.Jerasure.jerasureStep_inv
#print axioms RSV.Jerasure.jerasureLoop_inv
#print axioms RSV.Jerasure.buildMatrixJerasure_rowsMDS
#print axioms RSV.Jerasure.buildMatrixJerasure_mds
#print axioms RSV.Jerasure.buildMatrixJerasure_pivot
