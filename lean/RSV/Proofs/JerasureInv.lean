import RSV.Proofs.Generators
/-!
# The invariant behind `buildMatrixJerasure`: "every `d` rows are independent"

For a `n × d` model matrix `A`, `RowsMDS A` says that a vector `t` that is killed by `d`
distinct rows of `A` is zero (equivalently: every `d × d` sub-matrix formed by `d` distinct rows
is invertible).  It has the same shape as `CodeTheory.MDS` and needs no determinants.

* `RowsMDS.transfer` — the invariant is carried along any change of matrix of the form
  `A' r · t = 0 → A (σ r) · φ t = 0` with `σ` injective and `φ` having trivial kernel; this covers
  row permutations, scaling of rows by non-zero scalars and right-multiplication by an invertible
  matrix (column scaling, column elimination);
* `rowsMDS_rowSwap`, `rowsMDS_colScale`, `rowsMDS_colElim` — the three operations of the main
  loop of `buildMatrixJerasure`;
* `TopUnit k A` — rows `< k` of `A` are the unit vectors; preserved by the operations;
* `rowsMDS_entry_ne_zero` — below an identity block every entry is non-zero;
* `rowsMDS_no_zero_column` — no column vanishes (the pivot search cannot fail);
* `rowsMDS_mds` — `[I; P]` with `RowsMDS` gives `MDS P`.
-/

set_option linter.unusedSectionVars false

namespace RSV.Jerasure
open RSV.Model RSV.CodeTheory RSV.Generators Finset

section
variable {F : Type} [Field F] [DecidableEq F] {n d : ℕ}

/-- a vector killed by `d` distinct rows of `A` is zero -/
def RowsMDS (A : Mat F n d) : Prop :=
  ∀ S : Finset (Fin n), S.card = d → ∀ t : Fin d → F,
    (∀ i ∈ S, ∑ c, A.get i c * t c = 0) → t = 0

/-- rows `< k` are the unit vectors `e_0 … e_(k-1)` -/
def TopUnit (k : ℕ) (A : Mat F n d) : Prop :=
  ∀ (r : Fin n) (c : Fin d), r.val < k → A.get r c = if r.val = c.val then 1 else 0

/-- the general transfer principle -/
theorem RowsMDS.transfer {A A' : Mat F n d} (h : RowsMDS A)
    (σ : Fin n → Fin n) (hσ : Function.Injective σ)
    (φ : (Fin d → F) → (Fin d → F)) (hφ : ∀ t, φ t = 0 → t = 0)
    (hrel : ∀ r t, ∑ c, A'.get r c * t c = 0 → ∑ c, A.get (σ r) c * φ t c = 0) :
    RowsMDS A' := by
  intro S hS t h0
  apply hφ
  apply h (S.image σ) (by rw [Finset.card_image_of_injective _ hσ, hS]) (φ t)
  intro i hi
  obtain ⟨r, hr, rfl⟩ := Finset.mem_image.mp hi
  exact hrel r t (h0 r hr)

theorem sum_delta (k : ℕ) (hk : k < d) (f : Fin d → F) :
    ∑ c : Fin d, (if k = c.val then (1 : F) else 0) * f c = f ⟨k, hk⟩ := by
  rw [Finset.sum_eq_single ⟨k, hk⟩]
  · simp
  · intro b _ hb
    have : k ≠ b.val := fun e => hb (Fin.ext e.symm)
    simp [this]
  · simp

/-- a unit row picks out one coordinate -/
theorem TopUnit.dot {A : Mat F n d} {k : ℕ} (hT : TopUnit k A) (r : Fin n) (hr : r.val < k)
    (hrd : r.val < d) (t : Fin d → F) : ∑ c, A.get r c * t c = t ⟨r.val, hrd⟩ := by
  rw [← sum_delta r.val hrd t]
  exact Finset.sum_congr rfl fun c _ => by rw [hT r c hr]

theorem TopUnit.mono {A : Mat F n d} {k k' : ℕ} (hT : TopUnit k A) (h : k' ≤ k) : TopUnit k' A :=
  fun r c hr => hT r c (lt_of_lt_of_le hr h)

/-! ### the three operations of the main loop -/

theorem rowsMDS_rowSwap {A : Mat F n d} (h : RowsMDS A) (a b : Fin n) :
    RowsMDS (rowSwap A a b) := by
  refine h.transfer (swapIdx a b) ?_ id (fun t ht => ht) ?_
  · intro u v huv
    have := congrArg (swapIdx a b) huv
    simpa using this
  · intro r t h0
    simpa [rowSwap] using h0

theorem rowsMDS_colScale {A : Mat F n d} (h : RowsMDS A) (c : Fin d) (s : F) (hs : s ≠ 0) :
    RowsMDS (colScale A c s) := by
  refine h.transfer id Function.injective_id (fun t j => if j = c then s * t j else t j) ?_ ?_
  · intro t ht
    funext j
    have := congrFun ht j
    simp only [Pi.zero_apply] at this
    split_ifs at this with hj
    · exact (mul_eq_zero.mp this).resolve_left hs
    · exact this
  · intro r t h0
    refine Eq.trans (Finset.sum_congr rfl fun j _ => ?_) h0
    simp only [colScale, Mat.get_ofFn, id]
    split_ifs <;> ring

theorem rowsMDS_colElim {A : Mat F n d} (h : RowsMDS A) (i : Fin d) (coef : Fin d → F) :
    RowsMDS (colElim A i coef) := by
  refine h.transfer id Function.injective_id
    (fun t j => if j = i then t i + ∑ k, (if k = i then 0 else coef k * t k) else t j) ?_ ?_
  · intro t ht
    have h1 : ∀ j, j ≠ i → t j = 0 := by
      intro j hj
      have := congrFun ht j
      simpa [hj] using this
    have h2 : ∑ k, (if k = i then 0 else coef k * t k) = 0 := by
      apply Finset.sum_eq_zero
      intro k _
      split_ifs with hk
      · rfl
      · rw [h1 k hk, mul_zero]
    funext j
    by_cases hj : j = i
    · have := congrFun ht i
      simp only [if_true, h2, add_zero, Pi.zero_apply] at this
      rw [hj]; exact this
    · exact h1 j hj
  · intro r t h0
    refine Eq.trans ?_ h0
    simp only [id]
    generalize hE : ∑ k, (if k = i then 0 else coef k * t k) = E
    have L : ∑ j, (colElim A i coef).get r j * t j
        = ∑ j, A.get r j * t j + A.get r i * E := by
      rw [← hE, Finset.mul_sum, ← Finset.sum_add_distrib]
      refine Finset.sum_congr rfl fun j _ => ?_
      simp only [colElim, Mat.get_ofFn]
      split_ifs with hj <;> ring
    have R : ∑ j, A.get r j * (if j = i then t i + E else t j)
        = ∑ j, A.get r j * t j + A.get r i * E := by
      have : ∀ j, A.get r j * (if j = i then t i + E else t j)
          = A.get r j * t j + (if j = i then A.get r i * E else 0) := by
        intro j
        split_ifs with hj
        · subst hj; ring
        · ring
      simp only [this, Finset.sum_add_distrib, Finset.sum_ite_eq', Finset.mem_univ, if_true]
    rw [L, R]

theorem topUnit_rowSwap {A : Mat F n d} {k : ℕ} (hT : TopUnit k A) (a b : Fin n)
    (ha : k ≤ a.val) (hb : k ≤ b.val) : TopUnit k (rowSwap A a b) := by
  intro r c hr
  have h1 : r ≠ a := fun e => by subst e; omega
  have h2 : r ≠ b := fun e => by subst e; omega
  simp only [rowSwap, Mat.get_ofFn, swapIdx_of_ne h1 h2]
  exact hT r c hr

theorem topUnit_colScale {A : Mat F n d} {k : ℕ} (hT : TopUnit k A) (c : Fin d) (s : F)
    (hc : k ≤ c.val) : TopUnit k (colScale A c s) := by
  intro r j hr
  simp only [colScale, Mat.get_ofFn]
  by_cases hj : j = c
  · subst hj
    rw [if_pos rfl, hT r j hr]
    have : r.val ≠ j.val := by omega
    simp [this]
  · rw [if_neg hj]
    exact hT r j hr

/-! ### consequences of the invariant -/

/-- no column of a `RowsMDS` matrix with at least `d` rows vanishes -/
theorem rowsMDS_no_zero_column {A : Mat F n d} (hM : RowsMDS A) (hdn : d ≤ n) (c : Fin d) :
    ∃ r, A.get r c ≠ 0 := by
  by_contra hcon
  push Not at hcon
  obtain ⟨S, _, hS⟩ := Finset.exists_subset_card_eq (s := (univ : Finset (Fin n))) (n := d)
    (by simpa using hdn)
  have := hM S hS (fun j => if j = c then 1 else 0) (by
    intro i _
    rw [Finset.sum_eq_single c]
    · simp [hcon i]
    · intro b _ hb; simp [hb]
    · simp)
  have := congrFun this c
  simp at this

/-- below an identity block every entry of a `RowsMDS` matrix is non-zero -/
theorem rowsMDS_entry_ne_zero {A : Mat F n d} (hM : RowsMDS A) (hT : TopUnit d A) (hdn : d ≤ n)
    (r : Fin n) (hr : d ≤ r.val) (c : Fin d) : A.get r c ≠ 0 := by
  intro h0
  let g : Fin d → Fin n := fun j => if j = c then r else Fin.castLE hdn j
  have hg : Function.Injective g := by
    intro a b hab
    simp only [g] at hab
    split_ifs at hab with h1 h2 h2
    · rw [h1, h2]
    · exfalso
      have := congrArg Fin.val hab
      simp only [Fin.val_castLE] at this
      omega
    · exfalso
      have := congrArg Fin.val hab
      simp only [Fin.val_castLE] at this
      omega
    · have := congrArg Fin.val hab
      simp only [Fin.val_castLE] at this
      exact Fin.ext this
  have := hM (univ.image g) (by rw [card_image_of_injective _ hg]; simp)
    (fun j => if j = c then 1 else 0) (by
      intro i hi
      obtain ⟨j, _, rfl⟩ := mem_image.mp hi
      by_cases hj : j = c
      · simp only [g, hj, if_true]
        rw [Finset.sum_eq_single c]
        · simp [h0]
        · intro b _ hb; simp [hb]
        · simp
      · simp only [g, hj, if_false]
        rw [hT.dot _ (by simp) (by simp)]
        simp [Fin.ext_iff, Fin.ext_iff.not.mp hj])
  have := congrFun this c
  simp at this

/-- `[I; P]` with every `d` rows independent gives `MDS P` -/
theorem rowsMDS_mds {p : ℕ} {G : Mat F (d + p) d} (hM : RowsMDS G) (hT : TopUnit d G) :
    MDS (fun r c => (parityPart p rfl G).get r c) := by
  intro S hS t h0
  let e : Fin d ⊕ Fin p → Fin (d + p) := Sum.elim (Fin.castAdd p) (Fin.natAdd d)
  have he : Function.Injective e := by
    rintro (a | a) (b | b) hab <;> simp only [e, Sum.elim_inl, Sum.elim_inr, Fin.ext_iff,
      Fin.val_castAdd, Fin.val_natAdd] at hab
    · exact congrArg _ (Fin.ext hab)
    · omega
    · omega
    · exact congrArg _ (Fin.ext (by omega))
  apply hM (S.image e) (by rw [card_image_of_injective _ he, hS]) t
  intro i hi
  obtain ⟨s, hs, rfl⟩ := mem_image.mp hi
  have := h0 s hs
  rcases s with c | r
  · simp only [cw_inl] at this
    simp only [e, Sum.elim_inl]
    rw [hT.dot _ (by simp) (by simp)]
    exact this
  · simp only [cw_inr, parityPart_get] at this
    exact this

end
end RSV.Jerasure

#print axioms RSV.Jerasure.RowsMDS.transfer
#print axioms RSV.Jerasure.rowsMDS_rowSwap
#print axioms RSV.Jerasure.rowsMDS_colScale
#print axioms RSV.Jerasure.rowsMDS_colElim
#print axioms RSV.Jerasure.rowsMDS_no_zero_column
#print axioms RSV.Jerasure.rowsMDS_entry_ne_zero
#print axioms RSV.Jerasure.rowsMDS_mds
