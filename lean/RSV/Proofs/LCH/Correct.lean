import RSV.Proofs.LCH.Transform

/-!
# Lin–Chung–Han additive FFT: correctness

* `fft_correct`  — `fft t off a j = P t a (ω (off + j))` for `j < 2^t`: coefficients in the novel
  basis ↦ evaluations on the coset `ω off + V_t`
* `ifft_correct` — evaluations ↦ coefficients (interpolation)
* `fft_correct_block` — the same for the block starting at `c·2^t`
-/

namespace RSV.LCH
open Finset

noncomputable section

variable {K : Type*} [Field K] [CharP K 2] {β : ℕ → K} {k : ℕ}

/-- **the forward transform evaluates**: for coefficients `a` in the novel basis, `fft t off a`
holds on `[0, 2^t)` the values of `P t a` at the points `ω (off + j)`.
(`off + 2^t ≤ 2^k` is not needed.) -/
theorem fft_correct (hβ : Indep β k) {t off : ℕ} (ht : t ≤ k) (hoff : 2 ^ t ∣ off)
    (a : ℕ → K) {j : ℕ} (hj : j < 2 ^ t) :
    fft β k t off a j = P β k t a (omega β k (off + j)) := by
  induction t generalizing off a j with
  | zero =>
    have : j = 0 := by simpa using hj
    subst this
    simp
  | succ t ih =>
    have htk : t < k := ht
    have hoff' : 2 ^ t ∣ off := dvd_trans (pow_dvd_pow 2 (Nat.le_succ t)) hoff
    have hpow : 2 ^ (t + 1) = 2 ^ t + 2 ^ t := by rw [pow_succ, mul_two]
    rw [fft_succ, P_succ β k htk]
    by_cases hlo : j < 2 ^ t
    · rw [ih (le_of_lt htk) hoff' _ hlo]
      have hlayer : ∀ j' < 2 ^ t, fftLayer β k t off a j'
          = a j' + What β k t (omega β k off) * a (j' + 2 ^ t) := by
        intro j' hj'
        have hlt : j' < 2 ^ (t + 1) := by omega
        have hm : j' % 2 ^ (t + 1) < 2 ^ t := by rw [Nat.mod_eq_of_lt hlt]; exact hj'
        rw [fftLayer_low β k hm]
        unfold twiddle
        rw [Nat.div_eq_of_lt hlt, zero_mul, add_zero]
      rw [P_congr β k hlayer, P_add, P_smul, What_block_low β k htk hoff hlo]
    · obtain ⟨j0, rfl⟩ := Nat.exists_eq_add_of_le (Nat.le_of_not_lt hlo)
      have hj0 : j0 < 2 ^ t := by omega
      rw [Nat.add_comm (2 ^ t) j0, fft_shift β k (dvd_refl _) j0,
        ih (le_of_lt htk) (dvd_add hoff' (dvd_refl _)) _ hj0]
      have hlayer : ∀ j' < 2 ^ t, (fun x => fftLayer β k t off a (x + 2 ^ t)) j'
          = a j' + (What β k t (omega β k off) + 1) * a (j' + 2 ^ t) := by
        intro j' hj'
        have hlt : j' + 2 ^ t < 2 ^ (t + 1) := by omega
        have hm : ¬ (j' + 2 ^ t) % 2 ^ (t + 1) < 2 ^ t := by
          rw [Nat.mod_eq_of_lt hlt]; omega
        show fftLayer β k t off a (j' + 2 ^ t) = _
        rw [fftLayer_high β k hm]
        unfold twiddle
        rw [Nat.div_eq_of_lt hlt, zero_mul, add_zero, Nat.add_sub_cancel]
        ring
      have hx : off + 2 ^ t + j0 = off + (j0 + 2 ^ t) := by omega
      rw [P_congr β k hlayer, P_add, P_smul, hx,
        What_block_high hβ htk hoff (Nat.le_add_left _ _) (by omega)]

/-- the block starting at `c·2^t` is transformed like the first block with offset
`off + c·2^t` -/
theorem fft_correct_block (hβ : Indep β k) {t off : ℕ} (ht : t ≤ k) (hoff : 2 ^ t ∣ off)
    (a : ℕ → K) (c : ℕ) {j : ℕ} (hj : j < 2 ^ t) :
    fft β k t off a (j + c * 2 ^ t)
      = P β k t (fun x => a (x + c * 2 ^ t)) (omega β k (off + c * 2 ^ t + j)) := by
  rw [fft_shift β k (Dvd.intro_left c rfl) j,
    fft_correct hβ ht (dvd_add hoff (Dvd.intro_left c rfl)) _ hj]

/-- **the inverse transform interpolates**: from the values of `P t a` on the coset
`ω (off + j)`, `j < 2^t`, it recovers the coefficients `a j`. -/
theorem ifft_correct (hβ : Indep β k) {t off : ℕ} (ht : t ≤ k) (hoff : 2 ^ t ∣ off)
    (a g : ℕ → K) (hg : ∀ j < 2 ^ t, g j = P β k t a (omega β k (off + j))) :
    ∀ j < 2 ^ t, ifft β k t off g j = a j := by
  intro j hj
  have h1 : ∀ j < 2 ^ t, g j = fft β k t off a j := fun j hj => by
    rw [hg j hj, fft_correct hβ ht hoff a hj]
  rw [ifft_congr β k h1 j hj, ifft_fft]

/-- the values of `P t (ifft t off g)` on the coset are `g`: `ifft` produces the novel-basis
coefficients of the interpolant through `(ω (off + j), g j)` -/
theorem P_ifft (hβ : Indep β k) {t off : ℕ} (ht : t ≤ k) (hoff : 2 ^ t ∣ off)
    (g : ℕ → K) {j : ℕ} (hj : j < 2 ^ t) :
    P β k t (ifft β k t off g) (omega β k (off + j)) = g j := by
  rw [← fft_correct hβ ht hoff _ hj, fft_ifft]

end

end RSV.LCH
