import RSV.Proofs.LCH.Correct
import RSV.Proofs.LCH.Poly
import RSV.Proofs.CodeTheory

/-!
# Lin–Chung–Han additive FFT: the encoder is a generalised Cauchy matrix

`m = 2^t`; group `g` of the data sits at the points `ω ((g+1)·m + j)`, `j < m`; the parity symbols
sit at `ω r`, `r < m`:

  `parity = fft t 0 (Σ_g ifft t ((g+1)·m) (data g))`.

* `P_ifft_eval`   — Lagrange form of `P t (ifft t off g)` at a point `ω r` outside the coset
* `parity_eq`     — `parity r = Σ_g Σ_j data g j · v_g / (ω r - ω ((g+1)·m + j))`
  with `v_g = W_t(ω ((g+1)·m)) / D`, `D = ∏_{0<j<m} ω j`
* `encMatrix_mds` — the matrix `v_{c / m} / (ω r - ω (m + c))` is MDS (via `gcauchy_mds_fin`)
* `parity_eq_cw`  — `parity` is the parity part of the systematic codeword of `encMatrix`
-/

namespace RSV.LCH
open Finset Polynomial

theorem sum_range_mul_eq {M : Type*} [AddCommMonoid M] (F : ℕ → M) (G m : ℕ) :
    ∑ c ∈ range (G * m), F c = ∑ g ∈ range G, ∑ j ∈ range m, F (g * m + j) := by
  induction G with
  | zero => simp
  | succ G ih => rw [Nat.succ_mul, Finset.sum_range_add, Finset.sum_range_succ, ih]

noncomputable section

variable {K : Type*} [Field K] [CharP K 2] {β : ℕ → K} {k : ℕ}

/-- `D = ∏_{0<j<m} ω_j` -/
def Dconst (β : ℕ → K) (k m : ℕ) : K := ∏ j ∈ Ico 1 m, omega β k j

/-- column multiplier of group `g`: `W_t(ω ((g+1)·2^t)) / D` -/
def vconst (β : ℕ → K) (k t g : ℕ) : K :=
  W β k t (omega β k ((g + 1) * 2 ^ t)) / Dconst β k (2 ^ t)

/-- the Leopard encoder: interpolate every data group on its coset, add the coefficient vectors,
evaluate on the parity coset `V_t` -/
def parity (β : ℕ → K) (k t G : ℕ) (data : ℕ → ℕ → K) : ℕ → K :=
  fft β k t 0 (fun idx => ∑ g ∈ range G, ifft β k t ((g + 1) * 2 ^ t) (data g) idx)

/-- the encoder matrix, `p` parity rows and `d` data columns -/
def encMatrix (β : ℕ → K) (k t p d : ℕ) : Fin p → Fin d → K := fun r c =>
  vconst β k t ((c : ℕ) / 2 ^ t) / (omega β k r - omega β k (2 ^ t + c))

omit [CharP K 2] in
theorem omega_ne (hβ : Indep β k) {a b : ℕ} (ha : a < 2 ^ k) (hb : b < 2 ^ k) (hab : a ≠ b) :
    omega β k a ≠ omega β k b := fun h => hab (hβ a ha b hb h)

omit [CharP K 2] in
theorem Dconst_ne_zero (hβ : Indep β k) {m : ℕ} (hm : m ≤ 2 ^ k) : Dconst β k m ≠ 0 := by
  unfold Dconst
  rw [Finset.prod_ne_zero_iff]
  intro j hj
  rw [mem_Ico] at hj
  rw [← omega_zero β k]
  exact omega_ne hβ (by omega) (Nat.two_pow_pos k) (by omega)

omit [CharP K 2] in
theorem vconst_ne_zero (hβ : Indep β k) {t g : ℕ} (hg : (g + 1) * 2 ^ t < 2 ^ k) :
    vconst β k t g ≠ 0 := by
  unfold vconst
  have h1 : 2 ^ t ≤ (g + 1) * 2 ^ t := Nat.le_mul_of_pos_left _ (Nat.succ_pos g)
  exact div_ne_zero (W_omega_ne_zero hβ hg h1) (Dconst_ne_zero hβ (by omega))

/-- `∏_j (x - ω (off + j)) = W_t(x - ω off) = W_t x + W_t(ω off)` -/
theorem prod_coset {t off : ℕ} (ht : t ≤ k) (hoff : 2 ^ t ∣ off) (x : K) :
    ∏ j ∈ range (2 ^ t), (x - omega β k (off + j)) = W β k t x + W β k t (omega β k off) := by
  rw [← W_add β k ht]
  unfold W
  refine Finset.prod_congr rfl fun j hj => ?_
  rw [omega_add_of_dvd β k hoff (mem_range.mp hj)]
  simp only [CharTwo.sub_eq_add]
  ring

/-- `∏_{j ≠ i} (y_i - y_j) = ∏_{0<l<m} ω_l` on a coset -/
theorem prod_coset_erase {t off i : ℕ} (hoff : 2 ^ t ∣ off) (hi : i < 2 ^ t) :
    ∏ j ∈ (range (2 ^ t)).erase i, (omega β k (off + i) - omega β k (off + j))
      = Dconst β k (2 ^ t) := by
  have h2 : (2 : K) = 0 := CharTwo.two_eq_zero
  unfold Dconst
  refine Finset.prod_nbij' (fun j => i ^^^ j) (fun l => i ^^^ l) ?_ ?_ ?_ ?_ ?_
  · intro j hj
    rw [mem_erase, mem_range] at hj
    rw [mem_Ico]
    exact ⟨Nat.pos_of_ne_zero (Nat.xor_ne_zero_iff.mpr (Ne.symm hj.1)),
      Nat.xor_lt_two_pow hi hj.2⟩
  · intro l hl
    rw [mem_Ico] at hl
    rw [mem_erase, mem_range]
    refine ⟨fun h => ?_, Nat.xor_lt_two_pow hi hl.2⟩
    have h' : i ^^^ (i ^^^ l) = i ^^^ i := congrArg (fun z => i ^^^ z) h
    rw [Nat.xor_xor_cancel_left, Nat.xor_self] at h'
    omega
  · intro j _; exact Nat.xor_xor_cancel_left i j
  · intro l _; exact Nat.xor_xor_cancel_left i l
  · intro j hj
    rw [mem_erase, mem_range] at hj
    rw [omega_xor, omega_add_of_dvd β k hoff hi, omega_add_of_dvd β k hoff hj.2,
      CharTwo.sub_eq_add]
    linear_combination (omega β k off) * h2

/-- Lagrange form of the interpolant computed by `ifft`, evaluated at a point of `V_t` -/
theorem P_ifft_eval (hβ : Indep β k) {t off : ℕ} (ht : t ≤ k) (hoff : 2 ^ t ∣ off)
    (hlo : 2 ^ t ≤ off) (hhi : off + 2 ^ t ≤ 2 ^ k) (g : ℕ → K) {r : ℕ} (hr : r < 2 ^ t) :
    P β k t (ifft β k t off g) (omega β k r)
      = ∑ j ∈ range (2 ^ t), g j *
          ((W β k t (omega β k off) / Dconst β k (2 ^ t))
            / (omega β k r - omega β k (off + j))) := by
  classical
  have hinj : Set.InjOn (fun j => omega β k (off + j)) (range (2 ^ t) : Finset ℕ) := by
    intro a ha b hb hab
    have ha' : a < 2 ^ t := by simpa using ha
    have hb' : b < 2 ^ t := by simpa using hb
    have := hβ (off + a) (by omega) (off + b) (by omega) hab
    omega
  have hP : Pp β k t (ifft β k t off g)
      = Lagrange.interpolate (range (2 ^ t)) (fun j => omega β k (off + j)) g := by
    apply Lagrange.eq_interpolate_of_eval_eq _ hinj
    · rw [card_range]; exact degree_Pp_lt β k t _
    · intro j hj
      rw [eval_Pp]
      exact P_ifft hβ ht hoff g (mem_range.mp hj)
  have hx : ∀ j ∈ range (2 ^ t), omega β k r ≠ (fun j => omega β k (off + j)) j := by
    intro j hj
    have hj' := mem_range.mp hj
    exact omega_ne hβ (by omega) (by omega) (by omega)
  rw [← eval_Pp, hP, Lagrange.eval_interpolate_not_at_node _ hx, Lagrange.eval_nodal,
    prod_coset ht hoff, W_omega_eq_zero β k hr, zero_add, Finset.mul_sum]
  refine Finset.sum_congr rfl fun j hj => ?_
  have hw : Lagrange.nodalWeight (range (2 ^ t)) (fun j => omega β k (off + j)) j
      = (Dconst β k (2 ^ t))⁻¹ := by
    unfold Lagrange.nodalWeight
    rw [Finset.prod_inv_distrib, prod_coset_erase hoff (mem_range.mp hj)]
  rw [hw, div_eq_mul_inv, div_eq_mul_inv]
  ring

/-- **encoder composition = generalised Cauchy** -/
theorem parity_eq (hβ : Indep β k) {t G : ℕ} (hG : (G + 1) * 2 ^ t ≤ 2 ^ k)
    (data : ℕ → ℕ → K) {r : ℕ} (hr : r < 2 ^ t) :
    parity β k t G data r
      = ∑ g ∈ range G, ∑ j ∈ range (2 ^ t),
          data g j * (vconst β k t g / (omega β k r - omega β k ((g + 1) * 2 ^ t + j))) := by
  have hm := Nat.two_pow_pos t
  have htk : t ≤ k := by
    have h1 : 2 ^ t ≤ (G + 1) * 2 ^ t := Nat.le_mul_of_pos_left _ (Nat.succ_pos G)
    exact (Nat.pow_le_pow_iff_right (by decide)).mp (h1.trans hG)
  unfold parity
  rw [fft_sum_apply]
  refine Finset.sum_congr rfl fun g hg => ?_
  have hg' : g + 1 ≤ G := mem_range.mp hg
  have h1 : (g + 1) * 2 ^ t ≤ G * 2 ^ t := Nat.mul_le_mul_right _ hg'
  have h2 : 2 ^ t ≤ (g + 1) * 2 ^ t := Nat.le_mul_of_pos_left _ (Nat.succ_pos g)
  have h3 : (G + 1) * 2 ^ t = G * 2 ^ t + 2 ^ t := Nat.succ_mul _ _
  rw [fft_correct hβ htk (dvd_zero _) _ hr, zero_add,
    P_ifft_eval hβ htk (Dvd.intro_left _ rfl) h2 (by omega) _ hr]
  rfl

omit [CharP K 2] in
/-- the encoder matrix is MDS -/
theorem encMatrix_mds (hβ : Indep β k) {t G p d : ℕ} (hG : (G + 1) * 2 ^ t ≤ 2 ^ k)
    (hp : p ≤ 2 ^ t) (hd : d ≤ G * 2 ^ t) : CodeTheory.MDS (encMatrix β k t p d) := by
  have hm := Nat.two_pow_pos t
  have h3 : (G + 1) * 2 ^ t = G * 2 ^ t + 2 ^ t := Nat.succ_mul _ _
  have hxy : ∀ (r : Fin p) (c : Fin d), omega β k r ≠ omega β k (2 ^ t + c) := fun r c =>
    omega_ne hβ (by have := r.2; omega) (by have := c.2; omega) (by have := r.2; omega)
  refine CodeTheory.gcauchy_mds_fin (fun r => omega β k r) (fun c => omega β k (2 ^ t + c))
    (fun c => vconst β k t ((c : ℕ) / 2 ^ t)) (fun _ => 1) _ ?_ ?_ hxy (fun _ => one_ne_zero) ?_ ?_
  · intro a b h
    have := hβ _ (by have := a.2; omega) _ (by have := b.2; omega) h
    exact Fin.ext (by omega)
  · intro a b h
    have := hβ _ (by have := a.2; omega) _ (by have := b.2; omega) h
    exact Fin.ext this
  · intro c
    apply vconst_ne_zero hβ
    have hc : (c : ℕ) / 2 ^ t < G := (Nat.div_lt_iff_lt_mul hm).mpr (lt_of_lt_of_le c.2 hd)
    have : ((c : ℕ) / 2 ^ t + 1) * 2 ^ t ≤ G * 2 ^ t := Nat.mul_le_mul_right _ hc
    omega
  · intro r c
    unfold encMatrix
    rw [one_mul]
    exact div_mul_cancel₀ _ (sub_ne_zero.mpr (hxy r c))

/-- `parity` is the parity part of the systematic codeword of `encMatrix` on the flat message
`msg` (`data g j = msg (g·m + j)`) -/
theorem parity_eq_cw (hβ : Indep β k) {t G : ℕ} (hG : (G + 1) * 2 ^ t ≤ 2 ^ k)
    (msg : ℕ → K) (r : Fin (2 ^ t)) :
    parity β k t G (fun g j => msg (g * 2 ^ t + j)) r
      = CodeTheory.cw (encMatrix β k t (2 ^ t) (G * 2 ^ t)) (fun c => msg c) (Sum.inr r) := by
  have hm := Nat.two_pow_pos t
  rw [parity_eq hβ hG _ r.2, CodeTheory.cw_inr]
  unfold encMatrix
  rw [Fin.sum_univ_eq_sum_range
    (fun c => vconst β k t (c / 2 ^ t) / (omega β k r - omega β k (2 ^ t + c)) * msg c)
    (G * 2 ^ t), sum_range_mul_eq]
  refine Finset.sum_congr rfl fun g _ => Finset.sum_congr rfl fun j hj => ?_
  have hdiv : (g * 2 ^ t + j) / 2 ^ t = g := by
    rw [Nat.add_comm, Nat.add_mul_div_right _ _ hm, Nat.div_eq_of_lt (mem_range.mp hj), zero_add]
  have hidx : 2 ^ t + (g * 2 ^ t + j) = (g + 1) * 2 ^ t + j := by ring
  rw [hdiv, hidx]
  ring

end

end RSV.LCH
