import RSV.Proofs.LCH.Encode
import Mathlib.Algebra.Field.ZMod
import Mathlib.Algebra.CharP.Basic

/-!
# Lin–Chung–Han additive FFT: non-vacuity and axiom audit
-/

namespace RSV.LCH
open Finset

noncomputable section

/-! ### non-vacuity: `K = GF(2)`, `k = 1`, `β 0 = 1`, one data group of one symbol -/

section Example

theorem indep_zmod2 : Indep (fun _ => (1 : ZMod 2)) 1 := by
  apply indep_of_omega_ne_zero
  intro j h0 hj
  have hj1 : j = 2 ^ 0 := by omega
  rw [hj1, omega_two_pow _ _ (by decide)]
  exact one_ne_zero

/-- the hypotheses of `parity_eq` / `encMatrix_mds` are satisfiable -/
example : CodeTheory.MDS (encMatrix (fun _ => (1 : ZMod 2)) 1 0 1 1) :=
  encMatrix_mds indep_zmod2 (G := 1) (by norm_num) (by norm_num) (by norm_num)

example (data : ℕ → ℕ → ZMod 2) :
    parity (fun _ => (1 : ZMod 2)) 1 0 1 data 0
      = ∑ g ∈ range 1, ∑ j ∈ range (2 ^ 0), data g j *
          (vconst (fun _ => (1 : ZMod 2)) 1 0 g /
            (omega (fun _ => (1 : ZMod 2)) 1 0 - omega (fun _ => (1 : ZMod 2)) 1 ((g + 1) * 2 ^ 0 + j))) :=
  parity_eq indep_zmod2 (by norm_num) data (by norm_num)

end Example

end

end RSV.LCH

#print axioms RSV.LCH.W_add
#print axioms RSV.LCH.W_omega_eq_zero_iff
#print axioms RSV.LCH.What_block_high
#print axioms RSV.LCH.ifft_fft
#print axioms RSV.LCH.fft_ifft
#print axioms RSV.LCH.fft_sum
#print axioms RSV.LCH.ifftLayer_zero_block
#print axioms RSV.LCH.fft_congr_block
#print axioms RSV.LCH.fft_shift
#print axioms RSV.LCH.fft_correct
#print axioms RSV.LCH.ifft_correct
#print axioms RSV.LCH.natDegree_Xp
#print axioms RSV.LCH.degree_Pp_lt
#print axioms RSV.LCH.P_ifft_eval
#print axioms RSV.LCH.parity_eq
#print axioms RSV.LCH.encMatrix_mds
#print axioms RSV.LCH.parity_eq_cw
