import RSV.Proofs.LCH.Subspace
import Mathlib.RingTheory.Polynomial.Basic

/-!
# Lin–Chung–Han additive FFT: the polynomials behind `W`, `Ŵ`, `X`, `P`

`Wp`, `Whatp`, `Xp`, `Pp` are the elements of `K[X]` whose evaluations are `W`, `What`, `Xb`, `P`.
Degrees: `Wp i` is monic of degree `2^i`; `Xp j` has degree exactly `j` (for `j < 2^k`, under
`Indep`), so `X_0 … X_{n-1}` is a basis of the polynomials of degree `< n`; `Pp t a` has degree
`< 2^t`.
-/

namespace RSV.LCH
open Finset Polynomial

/-- the binary expansion, truncated to `k` bits -/
theorem sum_testBit_two_pow (j k : ℕ) :
    ∑ i ∈ range k, (if j.testBit i then 2 ^ i else 0) = j % 2 ^ k := by
  induction k with
  | zero => simp [Nat.mod_one]
  | succ k ih =>
    rw [Finset.sum_range_succ, ih, Nat.mod_pow_succ, Nat.testBit_eq_decide_div_mod_eq]
    rcases Nat.mod_two_eq_zero_or_one (j / 2 ^ k) with h | h <;> simp [h]

noncomputable section

variable {K : Type*} [Field K] (β : ℕ → K) (k : ℕ)

/-- subspace polynomial `∏_{j<2^i} (X - ω_j)` -/
def Wp (i : ℕ) : K[X] := ∏ j ∈ range (2 ^ i), (X - C (omega β k j))

/-- normalised subspace polynomial -/
def Whatp (i : ℕ) : K[X] := C (W β k i (β i))⁻¹ * Wp β k i

/-- novel basis polynomial -/
def Xp (j : ℕ) : K[X] := ∏ i ∈ range k, if j.testBit i then Whatp β k i else 1

/-- `∑_{j<2^t} a_j X_j` -/
def Pp (t : ℕ) (a : ℕ → K) : K[X] := ∑ j ∈ range (2 ^ t), C (a j) * Xp β k j

@[simp] theorem eval_Wp (i : ℕ) (x : K) : (Wp β k i).eval x = W β k i x := by
  simp [Wp, W, eval_prod]

@[simp] theorem eval_Whatp (i : ℕ) (x : K) : (Whatp β k i).eval x = What β k i x := by
  simp [Whatp, What, div_eq_inv_mul]

@[simp] theorem eval_Xp (j : ℕ) (x : K) : (Xp β k j).eval x = Xb β k j x := by
  unfold Xp Xb
  rw [eval_prod]
  refine Finset.prod_congr rfl fun i _ => ?_
  split <;> simp

@[simp] theorem eval_Pp (t : ℕ) (a : ℕ → K) (x : K) : (Pp β k t a).eval x = P β k t a x := by
  unfold Pp P
  rw [eval_finsetSum]
  refine Finset.sum_congr rfl fun j _ => ?_
  simp

theorem Wp_monic (i : ℕ) : (Wp β k i).Monic :=
  monic_prod_of_monic _ _ fun _ _ => monic_X_sub_C _

theorem natDegree_Wp (i : ℕ) : (Wp β k i).natDegree = 2 ^ i := by
  unfold Wp
  rw [natDegree_prod_of_monic _ _ fun j _ => monic_X_sub_C _]
  simp

theorem natDegree_Whatp_le (i : ℕ) : (Whatp β k i).natDegree ≤ 2 ^ i := by
  unfold Whatp
  exact (natDegree_C_mul_le _ _).trans (natDegree_Wp β k i).le

theorem natDegree_Xp_le (j : ℕ) : (Xp β k j).natDegree ≤ j % 2 ^ k := by
  unfold Xp
  refine (natDegree_prod_le _ _).trans ?_
  rw [← sum_testBit_two_pow]
  refine Finset.sum_le_sum fun i _ => ?_
  split
  · exact natDegree_Whatp_le β k i
  · simp

variable {β k}

theorem natDegree_Whatp (hβ : Indep β k) {i : ℕ} (hi : i < k) :
    (Whatp β k i).natDegree = 2 ^ i := by
  unfold Whatp
  rw [natDegree_C_mul (inv_ne_zero (W_beta_ne_zero hβ hi)), natDegree_Wp]

theorem Whatp_ne_zero (hβ : Indep β k) {i : ℕ} (hi : i < k) : Whatp β k i ≠ 0 := by
  intro h
  have := natDegree_Whatp hβ hi
  rw [h, natDegree_zero] at this
  exact (Nat.two_pow_pos i).ne this

/-- `X_j` has degree exactly `j` -/
theorem natDegree_Xp (hβ : Indep β k) (j : ℕ) : (Xp β k j).natDegree = j % 2 ^ k := by
  unfold Xp
  rw [natDegree_prod, ← sum_testBit_two_pow]
  · refine Finset.sum_congr rfl fun i hi => ?_
    split
    · exact natDegree_Whatp hβ (mem_range.mp hi)
    · simp
  · intro i hi
    split
    · exact Whatp_ne_zero hβ (mem_range.mp hi)
    · exact one_ne_zero

theorem natDegree_Xp_of_lt (hβ : Indep β k) {j : ℕ} (hj : j < 2 ^ k) :
    (Xp β k j).natDegree = j := by
  rw [natDegree_Xp hβ, Nat.mod_eq_of_lt hj]

variable (β k)

/-- `P t a` has degree `< 2^t` -/
theorem degree_Pp_lt (t : ℕ) (a : ℕ → K) : (Pp β k t a).degree < ((2 ^ t : ℕ) : WithBot ℕ) := by
  rw [← mem_degreeLT]
  unfold Pp
  refine Submodule.sum_mem _ fun j hj => ?_
  rw [mem_degreeLT]
  refine lt_of_le_of_lt degree_le_natDegree ?_
  have h1 : (C (a j) * Xp β k j).natDegree ≤ j :=
    (natDegree_C_mul_le _ _).trans ((natDegree_Xp_le β k j).trans (Nat.mod_le _ _))
  exact_mod_cast lt_of_le_of_lt h1 (mem_range.mp hj)

end

end RSV.LCH
