import Mathlib.Algebra.CharP.Two
import Mathlib.Algebra.BigOperators.Intervals
import Mathlib.LinearAlgebra.Lagrange
import Mathlib.Tactic.LinearCombination
import Mathlib.Data.Nat.Bitwise

/-!
# Lin–Chung–Han additive FFT: subspace polynomials and the novel basis

Setting: a field `K` of characteristic two, `k : ℕ`, basis elements `β 0 … β (k-1)`.

* `omega β k j`      — the field element with index `j`: `∑_{i<k, bit i of j} β i`
* `Indep β k`        — `omega` is injective on `[0, 2^k)` (GF(2)-independence of the `β i`)
* `W β k i x`        — subspace polynomial `∏_{j<2^i} (x - ω j)` (as a function)
* `What β k i x`     — normalised `W i x / W i (β i)`
* `Xb β k j x`       — novel basis `∏_{i<k, bit i of j} Ŵ i x`
* `P β k t a x`      — `∑_{j<2^t} a j * X j x`

Main facts: `omega_xor`, `omega_add_of_dvd`, `W_succ`, `W_add`, `W_omega_eq_zero`,
`W_omega_ne_zero`, `W_omega_eq_zero_iff`, `W_omega_shift`, `What_add`, `What_beta`,
`What_omega_low`, `What_omega_high`, `Xb_add_two_pow`, `P_succ`.
-/

namespace RSV.LCH
open Finset

noncomputable section

variable {K : Type*} [Field K]

/-- the element with index `j`: the sum of the `β i` over the bits `i < k` set in `j` -/
def omega (β : ℕ → K) (k j : ℕ) : K := ∑ i ∈ range k, if j.testBit i then β i else 0

/-- `omega` is injective on `[0, 2^k)`, i.e. `β 0 … β (k-1)` are linearly independent over GF(2) -/
def Indep (β : ℕ → K) (k : ℕ) : Prop :=
  ∀ a, a < 2 ^ k → ∀ b, b < 2 ^ k → omega β k a = omega β k b → a = b

/-- subspace polynomial `W_i(x) = ∏_{j < 2^i} (x - ω_j)`, as a function -/
def W (β : ℕ → K) (k i : ℕ) (x : K) : K := ∏ j ∈ range (2 ^ i), (x - omega β k j)

/-- normalised subspace polynomial `Ŵ_i(x) = W_i(x) / W_i(β_i)` -/
def What (β : ℕ → K) (k i : ℕ) (x : K) : K := W β k i x / W β k i (β i)

/-- the novel basis `X_j(x) = ∏_{i<k, bit i of j} Ŵ_i(x)` -/
def Xb (β : ℕ → K) (k j : ℕ) (x : K) : K :=
  ∏ i ∈ range k, if j.testBit i then What β k i x else 1

/-- `P_t(a)(x) = ∑_{j<2^t} a_j X_j(x)` -/
def P (β : ℕ → K) (k t : ℕ) (a : ℕ → K) (x : K) : K :=
  ∑ j ∈ range (2 ^ t), a j * Xb β k j x

variable (β : ℕ → K) (k : ℕ)

/-! ### `omega` -/

@[simp] theorem omega_zero : omega β k 0 = 0 := by
  simp [omega]

theorem omega_two_pow {i : ℕ} (hi : i < k) : omega β k (2 ^ i) = β i := by
  unfold omega
  rw [Finset.sum_eq_single i]
  · simp
  · intro b _ hb
    simp [Ne.symm hb]
  · intro h; exact absurd (mem_range.mpr hi) h

theorem omega_xor [CharP K 2] (a b : ℕ) :
    omega β k (a ^^^ b) = omega β k a + omega β k b := by
  unfold omega
  rw [← Finset.sum_add_distrib]
  refine Finset.sum_congr rfl fun i _ => ?_
  rw [Nat.testBit_xor]
  cases a.testBit i <;> cases b.testBit i <;> simp [CharTwo.add_self_eq_zero]

/-- checkable criterion for `Indep`: no non-zero index below `2^k` is mapped to `0` -/
theorem indep_of_omega_ne_zero [CharP K 2]
    (h : ∀ j, 0 < j → j < 2 ^ k → omega β k j ≠ 0) : Indep β k := by
  intro a ha b hb hab
  by_contra hne
  have hx : a ^^^ b ≠ 0 := Nat.xor_ne_zero_iff.mpr hne
  refine h (a ^^^ b) (Nat.pos_of_ne_zero hx) (Nat.xor_lt_two_pow ha hb) ?_
  rw [omega_xor, hab, CharTwo.add_self_eq_zero]

theorem Indep.omega_ne_zero {β : ℕ → K} {k : ℕ} (hβ : Indep β k) {j : ℕ} (h0 : 0 < j)
    (hj : j < 2 ^ k) : omega β k j ≠ 0 := by
  intro h
  have := hβ j hj 0 (Nat.two_pow_pos k) (by rw [h, omega_zero])
  omega

/-- indices with disjoint bit ranges add -/
theorem omega_add_of_dvd {t off j : ℕ} (hoff : 2 ^ t ∣ off) (hj : j < 2 ^ t) :
    omega β k (off + j) = omega β k off + omega β k j := by
  obtain ⟨c, rfl⟩ := hoff
  unfold omega
  rw [← Finset.sum_add_distrib]
  refine Finset.sum_congr rfl fun i _ => ?_
  rw [Nat.testBit_two_pow_mul_add c hj, Nat.testBit_two_pow_mul]
  by_cases hit : i < t
  · simp [hit, Nat.not_le_of_lt hit]
  · have hti : t ≤ i := Nat.le_of_not_lt hit
    have : j.testBit i = false :=
      Nat.testBit_lt_two_pow (lt_of_lt_of_le hj (Nat.pow_le_pow_right (by decide) hti))
    simp [hit, hti, this]

/-- `ω (2^i + j) = β i + ω j` for `j < 2^i` -/
theorem omega_two_pow_add {i j : ℕ} (hi : i < k) (hj : j < 2 ^ i) :
    omega β k (2 ^ i + j) = β i + omega β k j := by
  rw [omega_add_of_dvd β k (dvd_refl _) hj, omega_two_pow β k hi]

/-! ### subspace polynomials -/

@[simp] theorem W_zero (x : K) : W β k 0 x = x := by
  simp [W]

theorem W_succ [CharP K 2] {i : ℕ} (hi : i < k) (x : K) :
    W β k (i + 1) x = W β k i x * W β k i (x + β i) := by
  unfold W
  rw [pow_succ, mul_two, Finset.prod_range_add]
  congr 1
  refine Finset.prod_congr rfl fun j hj => ?_
  rw [omega_two_pow_add β k hi (mem_range.mp hj)]
  simp only [CharTwo.sub_eq_add]
  ring

/-- `W (i+1) x = (W i x)² + W i (β i) · W i x` given additivity of `W i` -/
theorem W_add [CharP K 2] {i : ℕ} (hi : i ≤ k) (x y : K) :
    W β k i (x + y) = W β k i x + W β k i y := by
  induction i generalizing x y with
  | zero => simp
  | succ i ih =>
    have hik : i < k := hi
    have ih' := ih (Nat.le_of_lt hik)
    rw [W_succ β k hik, W_succ β k hik, W_succ β k hik, ih' x (β i), ih' y (β i),
      ih' (x + y) (β i), ih' x y]
    have h2 : (2 : K) = 0 := CharTwo.two_eq_zero
    linear_combination (W β k i x * W β k i y) * h2

theorem W_succ' [CharP K 2] {i : ℕ} (hi : i < k) (x : K) :
    W β k (i + 1) x = W β k i x ^ 2 + W β k i (β i) * W β k i x := by
  rw [W_succ β k hi, W_add β k (Nat.le_of_lt hi)]
  ring

@[simp] theorem W_apply_zero [CharP K 2] {i : ℕ} (hi : i ≤ k) : W β k i 0 = 0 := by
  have := W_add β k hi 0 0
  simpa using this

theorem W_omega_eq_zero {i j : ℕ} (hj : j < 2 ^ i) : W β k i (omega β k j) = 0 := by
  unfold W
  exact Finset.prod_eq_zero (mem_range.mpr hj) (sub_self _)

variable {β k}

theorem W_omega_ne_zero (hβ : Indep β k) {i j : ℕ} (hj : j < 2 ^ k) (hij : 2 ^ i ≤ j) :
    W β k i (omega β k j) ≠ 0 := by
  unfold W
  rw [Finset.prod_ne_zero_iff]
  intro l hl
  have hl' : l < 2 ^ i := mem_range.mp hl
  rw [sub_ne_zero]
  intro h
  have := hβ j hj l (lt_of_lt_of_le hl' (le_trans hij (Nat.le_of_lt hj))) h
  omega

theorem W_omega_eq_zero_iff (hβ : Indep β k) {i j : ℕ} (hj : j < 2 ^ k) :
    W β k i (omega β k j) = 0 ↔ j < 2 ^ i := by
  constructor
  · intro h
    by_contra hn
    exact W_omega_ne_zero hβ hj (Nat.le_of_not_lt hn) h
  · exact W_omega_eq_zero β k

theorem W_beta_ne_zero (hβ : Indep β k) {i : ℕ} (hi : i < k) : W β k i (β i) ≠ 0 := by
  rw [← omega_two_pow β k hi]
  exact W_omega_ne_zero hβ (Nat.pow_lt_pow_right (by decide) hi) (le_refl _)

variable (β k)

/-- `W i (ω j)` depends only on `j >>> i` -/
theorem W_omega_shift [CharP K 2] {i : ℕ} (hi : i ≤ k) (j : ℕ) :
    W β k i (omega β k j) = W β k i (omega β k (j / 2 ^ i * 2 ^ i)) := by
  conv_lhs => rw [← Nat.div_add_mod' j (2 ^ i)]
  rw [omega_add_of_dvd β k (Dvd.intro_left _ rfl) (Nat.mod_lt _ (Nat.two_pow_pos i)),
    W_add β k hi, W_omega_eq_zero β k (Nat.mod_lt _ (Nat.two_pow_pos i)), add_zero]

/-! ### normalised subspace polynomials -/

theorem What_add [CharP K 2] {i : ℕ} (hi : i ≤ k) (x y : K) :
    What β k i (x + y) = What β k i x + What β k i y := by
  unfold What
  rw [W_add β k hi, add_div]

@[simp] theorem What_apply_zero [CharP K 2] {i : ℕ} (hi : i ≤ k) : What β k i 0 = 0 := by
  unfold What
  rw [W_apply_zero β k hi, zero_div]

theorem What_omega_low {i j : ℕ} (hj : j < 2 ^ i) : What β k i (omega β k j) = 0 := by
  unfold What
  rw [W_omega_eq_zero β k hj, zero_div]

variable {β k}

theorem What_beta (hβ : Indep β k) {i : ℕ} (hi : i < k) : What β k i (β i) = 1 := by
  unfold What
  exact div_self (W_beta_ne_zero hβ hi)

/-- `Ŵ i (ω j) = 1` on the upper half `2^i ≤ j < 2^(i+1)` -/
theorem What_omega_high [CharP K 2] (hβ : Indep β k) {i j : ℕ} (hi : i < k)
    (h1 : 2 ^ i ≤ j) (h2 : j < 2 ^ (i + 1)) : What β k i (omega β k j) = 1 := by
  obtain ⟨r, rfl⟩ := Nat.exists_eq_add_of_le h1
  have hr : r < 2 ^ i := by rw [pow_succ] at h2; omega
  rw [omega_two_pow_add β k hi hr, What_add β k (Nat.le_of_lt hi), What_beta hβ hi,
    What_omega_low β k hr, add_zero]

theorem What_omega_ne_zero (hβ : Indep β k) {i j : ℕ} (hi : i < k) (hj : j < 2 ^ k)
    (hij : 2 ^ i ≤ j) : What β k i (omega β k j) ≠ 0 := by
  unfold What
  exact div_ne_zero (W_omega_ne_zero hβ hj hij) (W_beta_ne_zero hβ hi)

/-- translation by `ω (2^i) = β i` adds one -/
theorem What_add_beta [CharP K 2] (hβ : Indep β k) {i : ℕ} (hi : i < k) (x : K) :
    What β k i (x + omega β k (2 ^ i)) = What β k i x + 1 := by
  rw [What_add β k (Nat.le_of_lt hi), omega_two_pow β k hi, What_beta hβ hi]

variable (β k)

/-- translation by `ω j`, `j < 2^i`, does not change `Ŵ i` -/
theorem What_add_omega_low [CharP K 2] {i j : ℕ} (hi : i ≤ k) (hj : j < 2 ^ i) (x : K) :
    What β k i (x + omega β k j) = What β k i x := by
  rw [What_add β k hi, What_omega_low β k hj, add_zero]

/-- `Ŵ i` is constant on the lower half of an aligned block of size `2^(i+1)` -/
theorem What_block_low [CharP K 2] {i M r : ℕ} (hi : i < k) (hM : 2 ^ (i + 1) ∣ M)
    (hr : r < 2 ^ i) : What β k i (omega β k (M + r)) = What β k i (omega β k M) := by
  have hr' : r < 2 ^ (i + 1) := lt_of_lt_of_le hr (Nat.pow_le_pow_right (by decide) (Nat.le_succ i))
  rw [omega_add_of_dvd β k hM hr', What_add_omega_low β k (Nat.le_of_lt hi) hr]

variable {β k}

/-- … and is larger by one on the upper half -/
theorem What_block_high [CharP K 2] (hβ : Indep β k) {i M r : ℕ} (hi : i < k)
    (hM : 2 ^ (i + 1) ∣ M) (h1 : 2 ^ i ≤ r) (h2 : r < 2 ^ (i + 1)) :
    What β k i (omega β k (M + r)) = What β k i (omega β k M) + 1 := by
  rw [omega_add_of_dvd β k hM h2, What_add β k (Nat.le_of_lt hi), What_omega_high hβ hi h1 h2]

variable (β k)

/-! ### the novel basis -/

@[simp] theorem Xb_zero (x : K) : Xb β k 0 x = 1 := by
  simp [Xb]

/-- `X_{j + 2^t} = Ŵ_t · X_j` for `j < 2^t` -/
theorem Xb_add_two_pow {t j : ℕ} (ht : t < k) (hj : j < 2 ^ t) (x : K) :
    Xb β k (2 ^ t + j) x = What β k t x * Xb β k j x := by
  unfold Xb
  have : ∀ i ∈ range k, (if (2 ^ t + j).testBit i then What β k i x else 1)
      = (if i = t then What β k t x else 1) * (if j.testBit i then What β k i x else 1) := by
    intro i _
    have h := Nat.testBit_two_pow_mul_add 1 hj i
    rw [mul_one] at h
    rw [h]
    by_cases hit : i < t
    · simp [hit, Nat.ne_of_lt hit]
    · have hti : t ≤ i := Nat.le_of_not_lt hit
      have hjf : j.testBit i = false :=
        Nat.testBit_lt_two_pow (lt_of_lt_of_le hj (Nat.pow_le_pow_right (by decide) hti))
      by_cases heq : i = t
      · subst heq; simp [hjf]
      · have : 0 < i - t := by omega
        have h1 : Nat.testBit 1 (i - t) = false := by
          rw [← pow_zero 2, Nat.testBit_two_pow]; simp; omega
        simp [hit, heq, hjf, h1]
  rw [Finset.prod_congr rfl this, Finset.prod_mul_distrib, Finset.prod_ite_eq' (range k) t]
  simp [ht]

theorem P_congr {t : ℕ} {a a' : ℕ → K} (h : ∀ j < 2 ^ t, a j = a' j) (x : K) :
    P β k t a x = P β k t a' x := by
  unfold P
  exact Finset.sum_congr rfl fun j hj => by rw [h j (mem_range.mp hj)]

theorem P_add (t : ℕ) (a a' : ℕ → K) (x : K) :
    P β k t (fun j => a j + a' j) x = P β k t a x + P β k t a' x := by
  unfold P
  rw [← Finset.sum_add_distrib]
  exact Finset.sum_congr rfl fun j _ => by ring

theorem P_smul (t : ℕ) (c : K) (a : ℕ → K) (x : K) :
    P β k t (fun j => c * a j) x = c * P β k t a x := by
  unfold P
  rw [Finset.mul_sum]
  exact Finset.sum_congr rfl fun j _ => by ring

@[simp] theorem P_zero (a : ℕ → K) (x : K) : P β k 0 a x = a 0 := by
  simp [P]

/-- `P_{t+1}(a) = P_t(a_lo) + Ŵ_t · P_t(a_hi)` -/
theorem P_succ {t : ℕ} (ht : t < k) (a : ℕ → K) (x : K) :
    P β k (t + 1) a x = P β k t a x + What β k t x * P β k t (fun j => a (j + 2 ^ t)) x := by
  unfold P
  rw [pow_succ, mul_two, Finset.sum_range_add, Finset.mul_sum]
  congr 1
  refine Finset.sum_congr rfl fun j hj => ?_
  rw [Xb_add_two_pow β k ht (mem_range.mp hj)]
  show a (2 ^ t + j) * _ = What β k t x * (a (j + 2 ^ t) * _)
  rw [Nat.add_comm j]
  ring

end

end RSV.LCH
