import RSV.Proofs.LCH.Subspace
import Mathlib.Algebra.Module.LinearMap.Defs
import Mathlib.Algebra.Module.Pi

/-!
# Lin–Chung–Han additive FFT: the butterfly layers

* `twiddle β k i off idx` — the skew factor `Ŵ_i(ω(off + b))`, `b` the start of the block of size
  `2^(i+1)` containing `idx`
* `fftLayer`, `fft`, `ifftLayer`, `ifft` — the transforms on functions `ℕ → K`
* inversion (`ifftLayer_fftLayer`, `fftLayer_ifftLayer`, `ifft_fft`, `fft_ifft`) — these hold
  on *all* indices and need only characteristic two
* linearity (`fft_add`, `fft_smul`, `fftLin`, `fft_sum`, …)
* locality (`fftLayer_congr_block`, `ifftLayer_zero_block`, `fft_congr_block`, …)
* shifting (`fft_shift`, `ifft_shift`): a transform on the block starting at `d` is the transform
  with offset `off + d` of the shifted function.
-/

namespace RSV.LCH
open Finset

/-! ### block arithmetic -/

section Arith

theorem blk_low_gen {N n idx : ℕ} (hN : N = 2 * n) (h : idx % N < n) :
    (idx + n) / N = idx / N ∧ (idx + n) % N = idx % N + n := by
  have hpos : 0 < N := by omega
  have h1 := Nat.div_add_mod idx N
  exact (Nat.div_mod_unique hpos).mpr ⟨by omega, by omega⟩

theorem blk_high_gen {N n idx : ℕ} (hN : N = 2 * n) (hn : 0 < n) (h : ¬ idx % N < n) :
    n ≤ idx ∧ (idx - n) / N = idx / N ∧ (idx - n) % N = idx % N - n := by
  have hpos : 0 < N := by omega
  have h1 := Nat.div_add_mod idx N
  have h2 := Nat.mod_lt idx hpos
  have h3 := Nat.mod_le idx N
  refine ⟨by omega, ?_⟩
  exact (Nat.div_mod_unique hpos).mpr ⟨by omega, by omega⟩

theorem blk_low {i idx : ℕ} (h : idx % 2 ^ (i + 1) < 2 ^ i) :
    (idx + 2 ^ i) / 2 ^ (i + 1) = idx / 2 ^ (i + 1) ∧
      (idx + 2 ^ i) % 2 ^ (i + 1) = idx % 2 ^ (i + 1) + 2 ^ i :=
  blk_low_gen (pow_succ' 2 i) h

theorem blk_high {i idx : ℕ} (h : ¬ idx % 2 ^ (i + 1) < 2 ^ i) :
    2 ^ i ≤ idx ∧ (idx - 2 ^ i) / 2 ^ (i + 1) = idx / 2 ^ (i + 1) ∧
      (idx - 2 ^ i) % 2 ^ (i + 1) = idx % 2 ^ (i + 1) - 2 ^ i :=
  blk_high_gen (pow_succ' 2 i) (Nat.two_pow_pos i) h

theorem blk_low_not {i idx : ℕ} (h : idx % 2 ^ (i + 1) < 2 ^ i) :
    ¬ (idx + 2 ^ i) % 2 ^ (i + 1) < 2 ^ i := by
  rw [(blk_low h).2]; omega

theorem blk_high_lt {i idx : ℕ} (h : ¬ idx % 2 ^ (i + 1) < 2 ^ i) :
    (idx - 2 ^ i) % 2 ^ (i + 1) < 2 ^ i := by
  rw [(blk_high h).2.2]
  have := Nat.mod_lt idx (Nat.two_pow_pos (i + 1))
  rw [pow_succ'] at this ⊢
  omega

/-- equal small-block numbers give equal big-block numbers -/
theorem div_two_pow_eq_of_le {a b s t : ℕ} (hst : s ≤ t) (h : a / 2 ^ s = b / 2 ^ s) :
    a / 2 ^ t = b / 2 ^ t := by
  obtain ⟨e, rfl⟩ := Nat.exists_eq_add_of_le hst
  rw [pow_add, ← Nat.div_div_eq_div_mul, ← Nat.div_div_eq_div_mul, h]

end Arith

noncomputable section

variable {K : Type*} [Field K] (β : ℕ → K) (k : ℕ)

/-- the skew factor of the butterfly that touches `idx` in layer `i`:
`Ŵ_i(ω(off + b))` with `b` the start of the `2^(i+1)`-block containing `idx` -/
def twiddle (i off idx : ℕ) : K :=
  What β k i (omega β k (off + idx / 2 ^ (i + 1) * 2 ^ (i + 1)))

/-- forward butterfly layer `i`: `x' = x + s·y`, `y' = x' + y` -/
def fftLayer (i off : ℕ) (f : ℕ → K) : ℕ → K := fun idx =>
  if idx % 2 ^ (i + 1) < 2 ^ i then f idx + twiddle β k i off idx * f (idx + 2 ^ i)
  else (f (idx - 2 ^ i) + twiddle β k i off idx * f idx) + f idx

/-- inverse butterfly layer `i`: `y' = x + y`, `x' = x + s·y'` -/
def ifftLayer (i off : ℕ) (f : ℕ → K) : ℕ → K := fun idx =>
  if idx % 2 ^ (i + 1) < 2 ^ i then f idx + twiddle β k i off idx * (f idx + f (idx + 2 ^ i))
  else f (idx - 2 ^ i) + f idx

/-- forward transform of size `2^t`: layers `t-1, t-2, …, 0` (layer `t-1` first) -/
def fft : ℕ → ℕ → (ℕ → K) → ℕ → K
  | 0, _, f => f
  | t + 1, off, f => fft t off (fftLayer β k t off f)

/-- inverse transform of size `2^t`: layers `0, 1, …, t-1` (layer `0` first) -/
def ifft : ℕ → ℕ → (ℕ → K) → ℕ → K
  | 0, _, f => f
  | t + 1, off, f => ifftLayer β k t off (ifft t off f)

@[simp] theorem fft_zero_size (off : ℕ) (f : ℕ → K) : fft β k 0 off f = f := rfl
theorem fft_succ (t off : ℕ) (f : ℕ → K) :
    fft β k (t + 1) off f = fft β k t off (fftLayer β k t off f) := rfl
@[simp] theorem ifft_zero_size (off : ℕ) (f : ℕ → K) : ifft β k 0 off f = f := rfl
theorem ifft_succ (t off : ℕ) (f : ℕ → K) :
    ifft β k (t + 1) off f = ifftLayer β k t off (ifft β k t off f) := rfl

/-- `fftLayer` in the `let`-form of the specification -/
theorem fftLayer_def (i off : ℕ) (f : ℕ → K) : fftLayer β k i off f = fun idx =>
    let b := idx / 2 ^ (i + 1) * 2 ^ (i + 1)
    let s := What β k i (omega β k (off + b))
    if idx % 2 ^ (i + 1) < 2 ^ i then f idx + s * f (idx + 2 ^ i)
    else (f (idx - 2 ^ i) + s * f idx) + f idx := rfl

/-- `ifftLayer` in the `let`-form of the specification -/
theorem ifftLayer_def (i off : ℕ) (f : ℕ → K) : ifftLayer β k i off f = fun idx =>
    let b := idx / 2 ^ (i + 1) * 2 ^ (i + 1)
    let s := What β k i (omega β k (off + b))
    if idx % 2 ^ (i + 1) < 2 ^ i then f idx + s * (f idx + f (idx + 2 ^ i))
    else f (idx - 2 ^ i) + f idx := rfl

/-! ### unfolding lemmas -/

variable {i off idx : ℕ} {f : ℕ → K}

theorem fftLayer_low (h : idx % 2 ^ (i + 1) < 2 ^ i) :
    fftLayer β k i off f idx = f idx + twiddle β k i off idx * f (idx + 2 ^ i) := by
  unfold fftLayer; rw [if_pos h]

theorem fftLayer_high (h : ¬ idx % 2 ^ (i + 1) < 2 ^ i) :
    fftLayer β k i off f idx = (f (idx - 2 ^ i) + twiddle β k i off idx * f idx) + f idx := by
  unfold fftLayer; rw [if_neg h]

theorem ifftLayer_low (h : idx % 2 ^ (i + 1) < 2 ^ i) :
    ifftLayer β k i off f idx
      = f idx + twiddle β k i off idx * (f idx + f (idx + 2 ^ i)) := by
  unfold ifftLayer; rw [if_pos h]

theorem ifftLayer_high (h : ¬ idx % 2 ^ (i + 1) < 2 ^ i) :
    ifftLayer β k i off f idx = f (idx - 2 ^ i) + f idx := by
  unfold ifftLayer; rw [if_neg h]

theorem twiddle_of_div_eq {idx' : ℕ} (h : idx' / 2 ^ (i + 1) = idx / 2 ^ (i + 1)) :
    twiddle β k i off idx' = twiddle β k i off idx := by
  unfold twiddle; rw [h]

theorem twiddle_add (h : idx % 2 ^ (i + 1) < 2 ^ i) :
    twiddle β k i off (idx + 2 ^ i) = twiddle β k i off idx :=
  twiddle_of_div_eq β k (blk_low h).1

theorem twiddle_sub (h : ¬ idx % 2 ^ (i + 1) < 2 ^ i) :
    twiddle β k i off (idx - 2 ^ i) = twiddle β k i off idx :=
  twiddle_of_div_eq β k (blk_high h).2.1

variable (i off f)

/-! ### the layers are mutually inverse (on all indices; only characteristic two is used) -/

theorem ifftLayer_fftLayer [CharP K 2] :
    ifftLayer β k i off (fftLayer β k i off f) = f := by
  have h2 : (2 : K) = 0 := CharTwo.two_eq_zero
  funext idx
  by_cases h : idx % 2 ^ (i + 1) < 2 ^ i
  · rw [ifftLayer_low β k h, fftLayer_low β k h, fftLayer_high β k (blk_low_not h),
      twiddle_add β k h, Nat.add_sub_cancel]
    linear_combination (twiddle β k i off idx * f (idx + 2 ^ i) +
      twiddle β k i off idx * (f idx + twiddle β k i off idx * f (idx + 2 ^ i))) * h2
  · rw [ifftLayer_high β k h, fftLayer_high β k h, fftLayer_low β k (blk_high_lt h),
      twiddle_sub β k h, Nat.sub_add_cancel (blk_high h).1]
    linear_combination (f (idx - 2 ^ i) + twiddle β k i off idx * f idx) * h2

theorem fftLayer_ifftLayer [CharP K 2] :
    fftLayer β k i off (ifftLayer β k i off f) = f := by
  have h2 : (2 : K) = 0 := CharTwo.two_eq_zero
  funext idx
  by_cases h : idx % 2 ^ (i + 1) < 2 ^ i
  · rw [fftLayer_low β k h, ifftLayer_low β k h, ifftLayer_high β k (blk_low_not h),
      Nat.add_sub_cancel]
    linear_combination (twiddle β k i off idx * (f idx + f (idx + 2 ^ i))) * h2
  · rw [fftLayer_high β k h, ifftLayer_high β k h, ifftLayer_low β k (blk_high_lt h),
      twiddle_sub β k h, Nat.sub_add_cancel (blk_high h).1]
    linear_combination (f (idx - 2 ^ i) +
      twiddle β k i off idx * (f (idx - 2 ^ i) + f idx)) * h2

theorem ifft_fft [CharP K 2] (t : ℕ) : ifft β k t off (fft β k t off f) = f := by
  induction t generalizing f with
  | zero => rfl
  | succ t ih => rw [fft_succ, ifft_succ, ih, ifftLayer_fftLayer]

theorem fft_ifft [CharP K 2] (t : ℕ) : fft β k t off (ifft β k t off f) = f := by
  induction t generalizing f with
  | zero => rfl
  | succ t ih => rw [fft_succ, ifft_succ, fftLayer_ifftLayer, ih]

/-! ### linearity -/

theorem fftLayer_add (g : ℕ → K) :
    fftLayer β k i off (f + g) = fftLayer β k i off f + fftLayer β k i off g := by
  funext idx
  by_cases h : idx % 2 ^ (i + 1) < 2 ^ i
  · simp only [Pi.add_apply, fftLayer_low β k h]; ring
  · simp only [Pi.add_apply, fftLayer_high β k h]; ring

theorem fftLayer_smul (c : K) :
    fftLayer β k i off (c • f) = c • fftLayer β k i off f := by
  funext idx
  by_cases h : idx % 2 ^ (i + 1) < 2 ^ i
  · simp only [Pi.smul_apply, smul_eq_mul, fftLayer_low β k h]; ring
  · simp only [Pi.smul_apply, smul_eq_mul, fftLayer_high β k h]; ring

theorem ifftLayer_add (g : ℕ → K) :
    ifftLayer β k i off (f + g) = ifftLayer β k i off f + ifftLayer β k i off g := by
  funext idx
  by_cases h : idx % 2 ^ (i + 1) < 2 ^ i
  · simp only [Pi.add_apply, ifftLayer_low β k h]; ring
  · simp only [Pi.add_apply, ifftLayer_high β k h]; ring

theorem ifftLayer_smul (c : K) :
    ifftLayer β k i off (c • f) = c • ifftLayer β k i off f := by
  funext idx
  by_cases h : idx % 2 ^ (i + 1) < 2 ^ i
  · simp only [Pi.smul_apply, smul_eq_mul, ifftLayer_low β k h]; ring
  · simp only [Pi.smul_apply, smul_eq_mul, ifftLayer_high β k h]; ring

theorem fft_add (t : ℕ) (g : ℕ → K) :
    fft β k t off (f + g) = fft β k t off f + fft β k t off g := by
  induction t generalizing f g with
  | zero => rfl
  | succ t ih => rw [fft_succ, fft_succ, fft_succ, fftLayer_add, ih]

theorem fft_smul (t : ℕ) (c : K) : fft β k t off (c • f) = c • fft β k t off f := by
  induction t generalizing f with
  | zero => rfl
  | succ t ih => rw [fft_succ, fft_succ, fftLayer_smul, ih]

theorem ifft_add (t : ℕ) (g : ℕ → K) :
    ifft β k t off (f + g) = ifft β k t off f + ifft β k t off g := by
  induction t generalizing f g with
  | zero => rfl
  | succ t ih => rw [ifft_succ, ifft_succ, ifft_succ, ih, ifftLayer_add]

theorem ifft_smul (t : ℕ) (c : K) : ifft β k t off (c • f) = c • ifft β k t off f := by
  induction t generalizing f with
  | zero => rfl
  | succ t ih => rw [ifft_succ, ifft_succ, ih, ifftLayer_smul]

/-- `fft t off` as a `K`-linear map -/
def fftLin (t off : ℕ) : (ℕ → K) →ₗ[K] (ℕ → K) where
  toFun := fft β k t off
  map_add' f g := fft_add β k off f t g
  map_smul' c f := fft_smul β k off f t c

/-- `ifft t off` as a `K`-linear map -/
def ifftLin (t off : ℕ) : (ℕ → K) →ₗ[K] (ℕ → K) where
  toFun := ifft β k t off
  map_add' f g := ifft_add β k off f t g
  map_smul' c f := ifft_smul β k off f t c

@[simp] theorem fftLin_apply (t off : ℕ) (f : ℕ → K) : fftLin β k t off f = fft β k t off f := rfl
@[simp] theorem ifftLin_apply (t off : ℕ) (f : ℕ → K) :
    ifftLin β k t off f = ifft β k t off f := rfl

theorem fft_zero (t : ℕ) : fft β k t off (0 : ℕ → K) = 0 := (fftLin β k t off).map_zero
theorem ifft_zero (t : ℕ) : ifft β k t off (0 : ℕ → K) = 0 := (ifftLin β k t off).map_zero
theorem fftLayer_zero : fftLayer β k i off (0 : ℕ → K) = 0 := by
  simpa using fftLayer_smul β k i off (0 : ℕ → K) 0
theorem ifftLayer_zero : ifftLayer β k i off (0 : ℕ → K) = 0 := by
  simpa using ifftLayer_smul β k i off (0 : ℕ → K) 0

theorem fft_sum {ι : Type*} (s : Finset ι) (h : ι → ℕ → K) (t : ℕ) :
    fft β k t off (∑ g ∈ s, h g) = ∑ g ∈ s, fft β k t off (h g) :=
  map_sum (fftLin β k t off) h s

theorem ifft_sum {ι : Type*} (s : Finset ι) (h : ι → ℕ → K) (t : ℕ) :
    ifft β k t off (∑ g ∈ s, h g) = ∑ g ∈ s, ifft β k t off (h g) :=
  map_sum (ifftLin β k t off) h s

/-- pointwise form of `fft_sum` -/
theorem fft_sum_apply {ι : Type*} (s : Finset ι) (h : ι → ℕ → K) (t idx : ℕ) :
    fft β k t off (fun x => ∑ g ∈ s, h g x) idx = ∑ g ∈ s, fft β k t off (h g) idx := by
  have : (fun x => ∑ g ∈ s, h g x) = ∑ g ∈ s, h g := by
    funext x; rw [Finset.sum_apply]
  rw [this, fft_sum, Finset.sum_apply]

/-! ### locality -/

variable {i off f}

/-- layer `i` maps block `c` of size `2^t` (`i < t`) to itself: outputs there depend only on the
inputs there -/
theorem fftLayer_congr_block {g : ℕ → K} {t c : ℕ} (hit : i < t)
    (h : ∀ idx, idx / 2 ^ t = c → f idx = g idx) :
    ∀ idx, idx / 2 ^ t = c → fftLayer β k i off f idx = fftLayer β k i off g idx := by
  intro idx hc
  by_cases hl : idx % 2 ^ (i + 1) < 2 ^ i
  · rw [fftLayer_low β k hl, fftLayer_low β k hl, h idx hc,
      h (idx + 2 ^ i) ((div_two_pow_eq_of_le hit (blk_low hl).1).trans hc)]
  · rw [fftLayer_high β k hl, fftLayer_high β k hl, h idx hc,
      h (idx - 2 ^ i) ((div_two_pow_eq_of_le hit (blk_high hl).2.1).trans hc)]

theorem ifftLayer_congr_block {g : ℕ → K} {t c : ℕ} (hit : i < t)
    (h : ∀ idx, idx / 2 ^ t = c → f idx = g idx) :
    ∀ idx, idx / 2 ^ t = c → ifftLayer β k i off f idx = ifftLayer β k i off g idx := by
  intro idx hc
  by_cases hl : idx % 2 ^ (i + 1) < 2 ^ i
  · rw [ifftLayer_low β k hl, ifftLayer_low β k hl, h idx hc,
      h (idx + 2 ^ i) ((div_two_pow_eq_of_le hit (blk_low hl).1).trans hc)]
  · rw [ifftLayer_high β k hl, ifftLayer_high β k hl, h idx hc,
      h (idx - 2 ^ i) ((div_two_pow_eq_of_le hit (blk_high hl).2.1).trans hc)]

/-- 4(a): if `f` vanishes on the block `c` of size `2^(i+1)` then so does `ifftLayer i off f`
(the butterflies of that block are no-ops and may be skipped) -/
theorem ifftLayer_zero_block {c : ℕ} (h : ∀ idx, idx / 2 ^ (i + 1) = c → f idx = 0) :
    ∀ idx, idx / 2 ^ (i + 1) = c → ifftLayer β k i off f idx = 0 := by
  intro idx hc
  have := ifftLayer_congr_block β k (off := off) (g := 0) (Nat.lt_succ_self i) h idx hc
  rw [this, ifftLayer_zero]; rfl

theorem fftLayer_zero_block {c : ℕ} (h : ∀ idx, idx / 2 ^ (i + 1) = c → f idx = 0) :
    ∀ idx, idx / 2 ^ (i + 1) = c → fftLayer β k i off f idx = 0 := by
  intro idx hc
  have := fftLayer_congr_block β k (off := off) (g := 0) (Nat.lt_succ_self i) h idx hc
  rw [this, fftLayer_zero]; rfl

/-- interval form of `ifftLayer_zero_block`: the block `[b, b + 2^(i+1))`, `b = c·2^(i+1)` -/
theorem ifftLayer_zero_interval {c : ℕ}
    (h : ∀ idx, c * 2 ^ (i + 1) ≤ idx → idx < c * 2 ^ (i + 1) + 2 ^ (i + 1) → f idx = 0) :
    ∀ idx, c * 2 ^ (i + 1) ≤ idx → idx < c * 2 ^ (i + 1) + 2 ^ (i + 1) →
      ifftLayer β k i off f idx = 0 := by
  have key : ∀ idx, idx / 2 ^ (i + 1) = c ↔
      (c * 2 ^ (i + 1) ≤ idx ∧ idx < c * 2 ^ (i + 1) + 2 ^ (i + 1)) := by
    intro idx
    have hp := Nat.two_pow_pos (i + 1)
    rw [Nat.div_eq_iff hp]
    constructor
    · rintro ⟨h1, h2⟩; constructor <;> omega
    · rintro ⟨h1, h2⟩; constructor <;> omega
  intro idx h1 h2
  exact ifftLayer_zero_block β k (fun j hj => h j ((key j).mp hj).1 ((key j).mp hj).2) idx
    ((key idx).mpr ⟨h1, h2⟩)

/-- the whole transform of size `2^t` acts block-wise on every aligned block of size `2^t'`,
`t ≤ t'` -/
theorem fft_congr_block {g : ℕ → K} {t t' c : ℕ} (htt : t ≤ t')
    (h : ∀ idx, idx / 2 ^ t' = c → f idx = g idx) :
    ∀ idx, idx / 2 ^ t' = c → fft β k t off f idx = fft β k t off g idx := by
  induction t generalizing f g with
  | zero => exact h
  | succ t ih =>
    rw [fft_succ, fft_succ]
    exact ih (Nat.le_of_succ_le htt) (fftLayer_congr_block β k htt h)

theorem ifft_congr_block {g : ℕ → K} {t t' c : ℕ} (htt : t ≤ t')
    (h : ∀ idx, idx / 2 ^ t' = c → f idx = g idx) :
    ∀ idx, idx / 2 ^ t' = c → ifft β k t off f idx = ifft β k t off g idx := by
  induction t generalizing f g with
  | zero => exact h
  | succ t ih =>
    rw [ifft_succ, ifft_succ]
    exact ifftLayer_congr_block β k htt (ih (Nat.le_of_succ_le htt) h)

/-- a zero block of size `2^t'`, `t ≤ t'`, stays zero under `ifft t` -/
theorem ifft_zero_block {t t' c : ℕ} (htt : t ≤ t') (h : ∀ idx, idx / 2 ^ t' = c → f idx = 0) :
    ∀ idx, idx / 2 ^ t' = c → ifft β k t off f idx = 0 := by
  intro idx hc
  rw [ifft_congr_block β k (off := off) (g := 0) htt h idx hc, ifft_zero]; rfl

/-- a zero block of size `2^t'`, `t ≤ t'`, stays zero under `fft t` -/
theorem fft_zero_block {t t' c : ℕ} (htt : t ≤ t') (h : ∀ idx, idx / 2 ^ t' = c → f idx = 0) :
    ∀ idx, idx / 2 ^ t' = c → fft β k t off f idx = 0 := by
  intro idx hc
  rw [fft_congr_block β k (off := off) (g := 0) htt h idx hc, fft_zero]; rfl

/-- the version for the first block `[0, 2^t)` -/
theorem fft_congr {g : ℕ → K} {t : ℕ} (h : ∀ j < 2 ^ t, f j = g j) :
    ∀ j < 2 ^ t, fft β k t off f j = fft β k t off g j := by
  intro j hj
  refine fft_congr_block β k (le_refl t) (c := 0) (fun idx hidx => h idx ?_) j
    (Nat.div_eq_of_lt hj)
  exact (Nat.div_eq_zero_iff.mp hidx).resolve_left (Nat.two_pow_pos t).ne'

theorem ifft_congr {g : ℕ → K} {t : ℕ} (h : ∀ j < 2 ^ t, f j = g j) :
    ∀ j < 2 ^ t, ifft β k t off f j = ifft β k t off g j := by
  intro j hj
  refine ifft_congr_block β k (le_refl t) (c := 0) (fun idx hidx => h idx ?_) j
    (Nat.div_eq_of_lt hj)
  exact (Nat.div_eq_zero_iff.mp hidx).resolve_left (Nat.two_pow_pos t).ne'

/-! ### shifting: the transform of a block at distance `d` -/

theorem twiddle_shift {d : ℕ} (hd : 2 ^ (i + 1) ∣ d) :
    twiddle β k i off (idx + d) = twiddle β k i (off + d) idx := by
  obtain ⟨c, rfl⟩ := hd
  unfold twiddle
  rw [Nat.add_mul_div_left _ _ (Nat.two_pow_pos _)]
  congr 2
  ring

theorem fftLayer_shift {d : ℕ} (hd : 2 ^ (i + 1) ∣ d) (idx : ℕ) :
    fftLayer β k i off f (idx + d) = fftLayer β k i (off + d) (fun x => f (x + d)) idx := by
  have hmod : (idx + d) % 2 ^ (i + 1) = idx % 2 ^ (i + 1) := by
    obtain ⟨c, rfl⟩ := hd
    exact Nat.add_mul_mod_self_left _ _ _
  by_cases hl : idx % 2 ^ (i + 1) < 2 ^ i
  · rw [fftLayer_low β k hl, fftLayer_low β k (by rw [hmod]; exact hl), twiddle_shift β k hd]
    congr 3
    omega
  · rw [fftLayer_high β k hl, fftLayer_high β k (by rw [hmod]; exact hl), twiddle_shift β k hd]
    have := (blk_high hl).1
    congr 4
    omega

theorem ifftLayer_shift {d : ℕ} (hd : 2 ^ (i + 1) ∣ d) (idx : ℕ) :
    ifftLayer β k i off f (idx + d) = ifftLayer β k i (off + d) (fun x => f (x + d)) idx := by
  have hmod : (idx + d) % 2 ^ (i + 1) = idx % 2 ^ (i + 1) := by
    obtain ⟨c, rfl⟩ := hd
    exact Nat.add_mul_mod_self_left _ _ _
  by_cases hl : idx % 2 ^ (i + 1) < 2 ^ i
  · rw [ifftLayer_low β k hl, ifftLayer_low β k (by rw [hmod]; exact hl), twiddle_shift β k hd]
    congr 4
    omega
  · rw [ifftLayer_high β k hl, ifftLayer_high β k (by rw [hmod]; exact hl)]
    have := (blk_high hl).1
    congr 2
    omega

theorem fft_shift {t d : ℕ} (hd : 2 ^ t ∣ d) (idx : ℕ) :
    fft β k t off f (idx + d) = fft β k t (off + d) (fun x => f (x + d)) idx := by
  induction t generalizing f with
  | zero => rfl
  | succ t ih =>
    rw [fft_succ, fft_succ, ih (dvd_trans (pow_dvd_pow 2 (Nat.le_succ t)) hd)]
    congr 1
    funext x
    exact fftLayer_shift β k hd x

theorem ifft_shift {t d : ℕ} (hd : 2 ^ t ∣ d) (idx : ℕ) :
    ifft β k t off f (idx + d) = ifft β k t (off + d) (fun x => f (x + d)) idx := by
  induction t generalizing f idx with
  | zero => rfl
  | succ t ih =>
    rw [ifft_succ, ifft_succ, ifftLayer_shift β k hd]
    congr 1
    funext x
    exact ih (dvd_trans (pow_dvd_pow 2 (Nat.le_succ t)) hd) x

end

end RSV.LCH
