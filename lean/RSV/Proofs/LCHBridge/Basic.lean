import RSV.Proofs.LCHBridge.Iface
/-!
# Generic facts about a field reading `F : FieldCtx C K` of a Leopard context

* `omega_beta`: `RSV.LCH.omega (beta F) k j = φ j` for `j < 2^k` (the LCH point with index `j` is the image of the
  symbol `j`);  `indep_beta`: the images of the Cantor basis are independent;
* `order_eq`, `modulus_eq`, `addMod_spec` (`g ^ addMod a b = g^a * g^b` for `a, b ≤ modulus`), `xor_one_spec`,
  `mulLog_spec`;
* the recurrence of the normalised subspace polynomials: `What_sq_add`, `What_succ_mul`
  (`Ŵ_{m+1}(x) · (Ŵ_m(β_{m+1})² + Ŵ_m(β_{m+1})) = Ŵ_m(x)² + Ŵ_m(x)`), `What_sq_add_ne_zero`, `What_zero_eq`.
-/
namespace RSV.LCHBridge
open RSV.Model.Leo RSV.LCH

/-! ## the recurrence of `Ŵ` -/
section LCH
variable {K : Type} [Field K] [CharP K 2] {β : ℕ → K} {k : ℕ}

theorem What_sq_add {m : ℕ} (hβ : Indep β k) (hm : m < k) (x : K) :
    What β k m x ^ 2 + What β k m x = W β k (m + 1) x / W β k m (β m) ^ 2 := by
  have ha := W_beta_ne_zero hβ hm
  unfold What
  rw [W_succ' β k hm]
  field_simp

omit [CharP K 2] in
theorem W_succ_beta_ne_zero {m i : ℕ} (hβ : Indep β k) (hmi : m ≤ i) (hi : i + 1 < k) :
    W β k (m + 1) (β (i + 1)) ≠ 0 := by
  rw [← omega_two_pow β k hi]
  exact W_omega_ne_zero hβ (Nat.pow_lt_pow_right (by decide) hi)
    (Nat.pow_le_pow_right (by decide) (by omega))

/-- `Ŵ_m(β_{i+1}) ∉ {0, 1}` for `m ≤ i` -/
theorem What_sq_add_ne_zero {m i : ℕ} (hβ : Indep β k) (hmi : m ≤ i) (hi : i + 1 < k) :
    What β k m (β (i + 1)) ^ 2 + What β k m (β (i + 1)) ≠ 0 := by
  rw [What_sq_add hβ (by omega)]
  exact div_ne_zero (W_succ_beta_ne_zero hβ hmi hi) (pow_ne_zero _ (W_beta_ne_zero hβ (by omega)))

/-- `Ŵ_{m+1}(x) = (Ŵ_m(x)² + Ŵ_m(x)) / (Ŵ_m(β_{m+1})² + Ŵ_m(β_{m+1}))`, in multiplicative form -/
theorem What_succ_mul {m : ℕ} (hβ : Indep β k) (hm : m + 1 < k) (x : K) :
    What β k (m + 1) x * (What β k m (β (m + 1)) ^ 2 + What β k m (β (m + 1))) =
      What β k m x ^ 2 + What β k m x := by
  rw [What_sq_add hβ (by omega), What_sq_add hβ (by omega)]
  have ha := W_beta_ne_zero hβ (show m < k by omega)
  have hb := W_succ_beta_ne_zero hβ (le_refl m) hm
  unfold What
  field_simp

omit [CharP K 2] in
theorem What_zero_eq (h0 : β 0 = 1) (x : K) : What β k 0 x = x := by
  unfold What
  rw [W_zero, W_zero, h0, div_one]

end LCH

/-! ## naturals -/

theorem add_two_pow_eq_xor {i j : ℕ} (hj : j < 2 ^ i) : 2 ^ i + j = 2 ^ i ^^^ j := by
  have h := Nat.two_pow_add_eq_or_of_lt hj 1
  rw [Nat.mul_one] at h
  rw [h]
  apply Nat.eq_of_testBit_eq
  intro n
  rw [Nat.testBit_or, Nat.testBit_xor, Nat.testBit_two_pow]
  by_cases hn : i = n
  · subst hn; rw [Nat.testBit_lt_two_pow hj]; simp
  · simp [hn]

theorem not_two_pow_succ_dvd (n : ℕ) : ¬ 2 ^ (n + 1) ∣ 2 ^ n := by
  intro h
  have := Nat.le_of_dvd (Nat.two_pow_pos n) h
  rw [Nat.pow_succ] at this
  have := Nat.two_pow_pos n
  omega

/-! ## field readings -/
variable {C : Ctx} {K : Type} [Field K]

theorem beta_zero (F : FieldCtx C K) : beta F 0 = 1 := by
  unfold beta; rw [pow_zero, F.φ_one]

/-- the LCH point with index `j` is the image of the symbol `j` -/
theorem omega_beta (F : FieldCtx C K) : ∀ j, j < 2 ^ F.k → omega (beta F) F.k j = F.φ j := by
  have := F.char2
  suffices h : ∀ n, n ≤ F.k → ∀ j, j < 2 ^ n → omega (beta F) F.k j = F.φ j from h F.k le_rfl
  intro n
  induction n with
  | zero =>
    intro _ j hj
    have : j = 0 := by simpa using hj
    subst this
    rw [omega_zero, F.φ_zero]
  | succ n ih =>
    intro hn j hj
    by_cases hlt : j < 2 ^ n
    · exact ih (by omega) j hlt
    · obtain ⟨r, rfl⟩ := Nat.exists_eq_add_of_le (Nat.le_of_not_lt hlt)
      have hr : r < 2 ^ n := by rw [pow_succ] at hj; omega
      have hnk : 2 ^ n < 2 ^ F.k := Nat.pow_lt_pow_right (by decide) (by omega)
      rw [omega_two_pow_add _ _ (by omega) hr, ih (by omega) r hr, add_two_pow_eq_xor hr,
        F.φ_xor _ _ hnk (lt_trans hr hnk)]
      rfl

theorem indep_beta (F : FieldCtx C K) : Indep (beta F) F.k := fun a ha b hb h =>
  F.φ_inj a b ha hb (by rw [← omega_beta F a ha, ← omega_beta F b hb, h])

theorem order_eq (F : FieldCtx C K) : C.P.order = 2 ^ F.k := by
  unfold Params.order; rw [F.hbits, Nat.one_shiftLeft]

theorem modulus_eq (F : FieldCtx C K) : C.P.modulus = 2 ^ F.k - 1 := by
  unfold Params.modulus; rw [order_eq F]

theorem one_lt (F : FieldCtx C K) : 1 < 2 ^ F.k := Nat.one_lt_two_pow (by have := F.hk; omega)

theorem φ_eq_zero (F : FieldCtx C K) {u : ℕ} (hu : u < 2 ^ F.k) (h : F.φ u = 0) : u = 0 :=
  F.φ_inj u 0 hu (Nat.two_pow_pos _) (by rw [h, F.φ_zero])

/-- `u ^ 1` is `φ u + 1` -/
theorem xor_one_spec (F : FieldCtx C K) {u : ℕ} (hu : u < 2 ^ F.k) :
    u ^^^ 1 < 2 ^ F.k ∧ F.φ (u ^^^ 1) = F.φ u + 1 :=
  ⟨Nat.xor_lt_two_pow hu (one_lt F), by rw [F.φ_xor u 1 hu (one_lt F), F.φ_one]⟩

/-- `addMod` adds exponents of `g` (both arguments at most `modulus`), and stays a `k`-bit value -/
theorem addMod_spec (F : FieldCtx C K) {a b : ℕ} (ha : a ≤ 2 ^ F.k - 1) (hb : b ≤ 2 ^ F.k - 1) :
    addMod C.P a b < 2 ^ F.k ∧ F.g ^ addMod C.P a b = F.g ^ a * F.g ^ b := by
  have hpos := Nat.two_pow_pos F.k
  unfold addMod
  simp only
  rw [order_eq F, F.hbits, Nat.shiftRight_eq_div_pow]
  refine ⟨Nat.mod_lt _ hpos, ?_⟩
  by_cases hlt : a + b < 2 ^ F.k
  · rw [Nat.div_eq_of_lt hlt, Nat.add_zero, Nat.mod_eq_of_lt hlt, pow_add]
  · have h1 : (a + b) / 2 ^ F.k = 1 := Nat.div_eq_of_lt_le (by omega) (by omega)
    rw [h1, Nat.mod_eq_sub_mod (by omega), Nat.mod_eq_of_lt (by omega), ← pow_add]
    have h2 : a + b = (a + b + 1 - 2 ^ F.k) + (2 ^ F.k - 1) := by omega
    conv_rhs => rw [h2, pow_add, F.g_pow_modulus, mul_one]

/-- `mulLog` on the tables of the context is `mulSym` -/
theorem mulLog_spec (F : FieldCtx C K) {a m : ℕ} (ha : a < 2 ^ F.k) (hm : m < 2 ^ F.k) :
    mulLog C.P C.T a m < 2 ^ F.k ∧ F.φ (mulLog C.P C.T a m) = F.φ a * F.g ^ m :=
  ⟨F.mul_lt a m ha hm, F.φ_mul a m ha hm⟩

end RSV.LCHBridge
