import RSV.Proofs.LCHBridge.Layers
/-!
# Leopard's `encode` is the Lin–Chung–Han code: its generator is `encMatrix`, which is MDS

`F : FieldCtx C K` a field reading of the table context `C` with `hS : SkewOK F`.  For every admissible shape
(`0 < d`, `p ≤ 2^64`, `ceilPow2 p = 2^t`, `d + ceilPow2 p ≤ 2^F.k` — Leopard's `d + ceilPow2 p ≤ order`), data rows
`data` (`d ≤ data.size`, `WF len data`, all symbols `< 2^F.k`), parity index `r < p`, symbol position `s < len`:

  `F.φ ((encode C d p len data)[r]![s]!) = ∑ c : Fin d, encMatrix (beta F) F.k t p d r c * F.φ (data[c]![s]!)`

(`encode_eq_encMatrix`, `encode_eq_cw`), and `encMatrix (beta F) F.k t p d` is MDS (`encode_generator_mds`).
`encode_any_d`: any `d` of the `d + p` symbols at position `s` determine the `d` data symbols.

Route: `encode_row` (schedule → clean row networks), `rd_fftRows` / `rd_ifftRows` (row networks → `fft` / `ifft`),
the bookkeeping of the groups (`rd_encFirst`, `rd_encGroup`, `encFold_spec`, `encWork_spec`: the work area before the
forward transform reads as `∑_g ifft ((g+1)·m) (group g)`, group `g` = data rows `g·m + j` zero-padded beyond `d`),
then `LCH.parity_eq_cw` and dropping the zero-padded columns.
-/
namespace RSV.LCHBridge
open RSV.Model.Leo RSV.LCH RSV.Proofs.LeoSched RSV.Proofs.LCHSched Finset

variable {C : Ctx} {K : Type} [Field K] {F : FieldCtx C K}

/-! ## arithmetic of the groups -/

/-- number of further groups of `m` data shards after the first one (as computed by `encodeSched`) -/
def ngroups (m d : ℕ) : ℕ := if m < d then (d - m + m - 1) / m else 0

theorem mul_succ_le_of_lt_of_dvd {a m N : ℕ} (h : a * m < N) (hd : m ∣ N) : (a + 1) * m ≤ N := by
  obtain ⟨c, rfl⟩ := hd
  have hac : a < c := by
    rw [Nat.mul_comm m c] at h
    exact Nat.lt_of_mul_lt_mul_right h
  calc (a + 1) * m ≤ c * m := Nat.mul_le_mul_right _ hac
    _ = m * c := Nat.mul_comm _ _

/-- with `G = ngroups m d + 1` groups: `(G + 1)·m ≤ N` and `d ≤ G·m` -/
theorem groups_arith {m d N : ℕ} (hm : 0 < m) (hd : 0 < d) (hdvd : m ∣ N) (hadm : d + m ≤ N) :
    (ngroups m d + 1 + 1) * m ≤ N ∧ d ≤ (ngroups m d + 1) * m := by
  unfold ngroups
  by_cases h : m < d
  · rw [if_pos h]
    have e : d - m + m - 1 = d - 1 := by omega
    rw [e]
    have h1 : (d - 1) / m * m ≤ d - 1 := Nat.div_mul_le_self _ _
    have h2 : d - 1 < ((d - 1) / m + 1) * m := by
      rw [Nat.mul_comm]; exact Nat.lt_mul_div_succ _ hm
    have h3 : ((d - 1) / m + 1) * m = (d - 1) / m * m + m := Nat.succ_mul _ _
    exact ⟨mul_succ_le_of_lt_of_dvd (by omega) hdvd, by omega⟩
  · rw [if_neg h]
    exact ⟨mul_succ_le_of_lt_of_dvd (by omega) hdvd, by omega⟩

/-! ## bookkeeping: `dataRows`, `xorInto`, `encGroup` keep rows well-formed and bounded -/

theorem WF_dataRows {len base off cnt m : ℕ} {data w : Array Vec} (hd : WF len data) (hw : WF len w)
    (hcnt : ∀ j, j < cnt → off + j < data.size) : WF len (dataRows data len base off cnt m w) := by
  intro x hx
  rw [size_dataRows] at hx
  rw [dataRows_get _ _ _ _ _ _ _ x hx]
  split
  · exact hd _ (hcnt _ (by omega))
  · split
    · exact size_zeroVec len
    · exact hw x hx

theorem symsBelow_dataRows {B len base off cnt m : ℕ} {data w : Array Vec} (hB : 0 < B)
    (hd : SymsBelow B data) (hw : SymsBelow B w) : SymsBelow B (dataRows data len base off cnt m w) := by
  intro x hx
  rw [size_dataRows] at hx
  show VecBelow _ _
  rw [dataRows_get _ _ _ _ _ _ _ x hx]
  split
  · exact hd.row _
  · split
    · exact vecBelow_zeroVec hB len
    · exact hw.row x

theorem WF_xorInto {len m : ℕ} {w : Array Vec} (hw : WF len w) : WF len (xorInto m w) := by
  intro x hx
  rw [size_xorInto] at hx
  rw [xorInto_get m w x hx]
  split
  · rw [size_xorVec]; exact hw x hx
  · exact hw x hx

theorem symsBelow_xorInto {m : ℕ} {w : Array Vec} (hw : SymsBelow (2 ^ F.k) w) :
    SymsBelow (2 ^ F.k) (xorInto m w) := by
  intro x hx
  rw [size_xorInto] at hx
  show VecBelow _ _
  rw [xorInto_get m w x hx]
  split
  · exact vecBelow_xorVec (mulLinearOn_of_fieldCtx F) (hw.row _) (hw.row _)
  · exact hw.row x

/-- reading freshly loaded rows: the data symbols, then zeros -/
theorem rd_dataRows {len base off cnt m s x : ℕ} (data w : Array Vec) (hsz : base + m ≤ w.size)
    (hx : x < m) :
    rd F (dataRows data len base off cnt m w) base s x =
      if x < cnt then F.φ ((data[off + x]!)[s]!) else 0 := by
  rw [rd_apply, dataRows_get _ _ _ _ _ _ _ (base + x) (by omega)]
  by_cases h : x < cnt
  · rw [if_pos (by omega), if_pos h, Nat.add_sub_cancel_left]
  · rw [if_neg (by omega), if_pos (by omega), if_neg h, φ_zeroVec]

/-- the message at symbol position `s`, in the field, zero beyond `d` -/
def msg (F : FieldCtx C K) (data : Array Vec) (d s : ℕ) : ℕ → K :=
  fun c => if c < d then F.φ ((data[c]!)[s]!) else 0

/-! ## the groups -/

/-- geometry of group `g`: point offset `(g+2)·m`, table offset as written in `encodeSched` -/
theorem geo_group {t g : ℕ} (htk : t ≤ F.k) (hle : (g + 1 + 1 + 1) * 2 ^ t ≤ 2 ^ F.k) :
    Geo F t (2 ^ t + (2 ^ t + g * 2 ^ t)) (2 ^ t - 1 + (2 ^ t + g * 2 ^ t)) 0 := by
  have hm := Nat.two_pow_pos t
  have e1 : (g + 1 + 1 + 1) * 2 ^ t = 2 ^ t + (2 ^ t + g * 2 ^ t) + 2 ^ t := by ring
  exact ⟨htk, dvd_add (dvd_refl _) (dvd_add (dvd_refl _) (Dvd.intro_left _ rfl)), by omega, by omega⟩

section Groups
variable (hS : SkewOK F) {t d len s : ℕ} {data : Array Vec} (htk : t ≤ F.k) (hdsz : d ≤ data.size)
  (hwd : WF len data) (hbd : SymsBelow (2 ^ F.k) data) (hs : s < len)
include hS htk hdsz hwd hbd hs

omit hs in
theorem encGroup_keeps {g : ℕ} {w : Array Vec} (hle : (g + 1 + 1 + 1) * 2 ^ t ≤ 2 ^ F.k)
    (hsz : 2 * 2 ^ t ≤ w.size) (hw : WF len w) (hb : SymsBelow (2 ^ F.k) w) :
    WF len (encGroup C data len d (2 ^ t) t g w) ∧
      SymsBelow (2 ^ F.k) (encGroup C data len d (2 ^ t) t g w) := by
  have G : Geo F t _ _ 0 := geo_group htk hle
  unfold encGroup
  have hszD : 2 ^ t + 2 ^ t ≤ (dataRows data len (2 ^ t) (2 ^ t + g * 2 ^ t)
      (if 2 ^ t + g * 2 ^ t + 2 ^ t ≤ d then 2 ^ t else d - (2 ^ t + g * 2 ^ t)) (2 ^ t) w).size := by
    rw [size_dataRows]; omega
  refine ⟨WF_xorInto (WF_ifftRows C len t _ _ _ _ hszD (WF_dataRows hwd hw ?_)),
    symsBelow_xorInto (symsBelow_ifftRows G hS hszD (symsBelow_dataRows (Nat.two_pow_pos _) hbd hb))⟩
  intro j hj
  split at hj <;> omega

/-- accumulator rows after group `g`, read symbol-wise: the inverse transform of the group is added -/
theorem rd_encGroup {g j : ℕ} {w : Array Vec} (hle : (g + 1 + 1 + 1) * 2 ^ t ≤ 2 ^ F.k)
    (hsz : 2 * 2 ^ t ≤ w.size) (hw : WF len w) (hb : SymsBelow (2 ^ F.k) w) (hj : j < 2 ^ t) :
    rd F (encGroup C data len d (2 ^ t) t g w) 0 s j =
      rd F w 0 s j + ifft (beta F) F.k t ((g + 1 + 1) * 2 ^ t)
        (fun x => msg F data d s ((g + 1) * 2 ^ t + x)) j := by
  have hm := Nat.two_pow_pos t
  have G : Geo F t _ _ 0 := geo_group htk hle
  have e2 : (g + 1 + 1) * 2 ^ t = 2 ^ t + (2 ^ t + g * 2 ^ t) := by ring
  have e3 : (g + 1) * 2 ^ t = 2 ^ t + g * 2 ^ t := by ring
  rw [rd_apply, rd_apply, Nat.zero_add, encGroup_get_lo C data len d (2 ^ t) t g w rfl hsz j hj, e2, e3]
  generalize hcnt : (if 2 ^ t + g * 2 ^ t + 2 ^ t ≤ d then 2 ^ t else d - (2 ^ t + g * 2 ^ t)) = cnt
  have hc : cnt ≤ 2 ^ t := by rw [← hcnt]; split <;> omega
  have hiff : ∀ x, x < 2 ^ t → (x < cnt ↔ 2 ^ t + g * 2 ^ t + x < d) := by
    intro x hx; rw [← hcnt]; split <;> omega
  have hszD : 2 ^ t + 2 ^ t ≤ (dataRows data len (2 ^ t) (2 ^ t + g * 2 ^ t) cnt (2 ^ t) w).size := by
    rw [size_dataRows]; omega
  have hwD : WF len (dataRows data len (2 ^ t) (2 ^ t + g * 2 ^ t) cnt (2 ^ t) w) :=
    WF_dataRows hwd hw (fun x hx => by have := (hiff x (by omega)).mp hx; omega)
  have hbD : SymsBelow (2 ^ F.k) (dataRows data len (2 ^ t) (2 ^ t + g * 2 ^ t) cnt (2 ^ t) w) :=
    symsBelow_dataRows (Nat.two_pow_pos _) hbd hb
  rw [φ_xorVec F (by rw [hw j (by omega)]; exact hs) (hb.row j)
    ((symsBelow_ifftRows G hS hszD hbD).row _)]
  congr 1
  show rd F (ifftRows C t (2 ^ t) _ 0 _) (2 ^ t) s j = _
  rw [rd_ifftRows G hS hszD hwD hbD hs hj]
  refine ifft_congr (beta F) F.k (fun x hx => ?_) j hj
  rw [rd_dataRows data w (by omega) hx]
  unfold msg
  by_cases h : x < cnt
  · rw [if_pos h, if_pos ((hiff x hx).mp h)]
  · rw [if_neg h, if_neg (fun h' => h ((hiff x hx).mpr h'))]

/-- the first group: data rows `0 … m`, point offset `m` -/
theorem rd_encFirst {j : ℕ} {w : Array Vec} (hle : (1 + 1) * 2 ^ t ≤ 2 ^ F.k)
    (hsz : 2 * 2 ^ t ≤ w.size) (hw : WF len w) (hb : SymsBelow (2 ^ F.k) w) (hj : j < 2 ^ t) :
    (WF len (ifftRows C t 0 (2 ^ t - 1) 0
        (dataRows data len 0 0 (if d < 2 ^ t then d else 2 ^ t) (2 ^ t) w)) ∧
      SymsBelow (2 ^ F.k) (ifftRows C t 0 (2 ^ t - 1) 0
        (dataRows data len 0 0 (if d < 2 ^ t then d else 2 ^ t) (2 ^ t) w))) ∧
    rd F (ifftRows C t 0 (2 ^ t - 1) 0
        (dataRows data len 0 0 (if d < 2 ^ t then d else 2 ^ t) (2 ^ t) w)) 0 s j =
      ifft (beta F) F.k t (2 ^ t) (msg F data d s) j := by
  have hm := Nat.two_pow_pos t
  have G : Geo F t (2 ^ t) (2 ^ t - 1) 0 := Geo.inv htk (dvd_refl _) hm (by omega)
  generalize hcnt : (if d < 2 ^ t then d else 2 ^ t) = cnt
  have hc : cnt ≤ 2 ^ t := by rw [← hcnt]; split <;> omega
  have hiff : ∀ x, x < 2 ^ t → (x < cnt ↔ x < d) := by
    intro x hx; rw [← hcnt]; split <;> omega
  have hszD : 0 + 2 ^ t ≤ (dataRows data len 0 0 cnt (2 ^ t) w).size := by
    rw [size_dataRows]; omega
  have hwD : WF len (dataRows data len 0 0 cnt (2 ^ t) w) :=
    WF_dataRows hwd hw (fun x hx => by have := (hiff x (by omega)).mp hx; omega)
  have hbD : SymsBelow (2 ^ F.k) (dataRows data len 0 0 cnt (2 ^ t) w) :=
    symsBelow_dataRows (Nat.two_pow_pos _) hbd hb
  refine ⟨⟨WF_ifftRows C len t _ _ _ _ hszD hwD, symsBelow_ifftRows G hS hszD hbD⟩, ?_⟩
  rw [rd_ifftRows G hS hszD hwD hbD hs hj]
  refine ifft_congr (beta F) F.k (fun x hx => ?_) j hj
  rw [rd_dataRows data w (by omega) hx, Nat.zero_add]
  unfold msg
  by_cases h : x < cnt
  · rw [if_pos h, if_pos ((hiff x hx).mp h)]
  · rw [if_neg h, if_neg (fun h' => h ((hiff x hx).mpr h'))]

/-- the accumulated work area after `n` further groups -/
theorem encFold_spec (n : ℕ) (hle : (n + 1 + 1) * 2 ^ t ≤ 2 ^ F.k) (W0 : Array Vec)
    (hsz : W0.size = 2 * 2 ^ t) (hw : WF len W0) (hb : SymsBelow (2 ^ F.k) W0) :
    ((List.range' 0 n).foldl (fun w g => encGroup C data len d (2 ^ t) t g w) W0).size = 2 * 2 ^ t ∧
    WF len ((List.range' 0 n).foldl (fun w g => encGroup C data len d (2 ^ t) t g w) W0) ∧
    SymsBelow (2 ^ F.k) ((List.range' 0 n).foldl (fun w g => encGroup C data len d (2 ^ t) t g w) W0) ∧
    ∀ j, j < 2 ^ t →
      rd F ((List.range' 0 n).foldl (fun w g => encGroup C data len d (2 ^ t) t g w) W0) 0 s j =
        rd F W0 0 s j + ∑ g ∈ range n, ifft (beta F) F.k t ((g + 1 + 1) * 2 ^ t)
          (fun x => msg F data d s ((g + 1) * 2 ^ t + x)) j := by
  induction n with
  | zero =>
    refine ⟨hsz, hw, hb, fun j _ => ?_⟩
    rw [Finset.sum_range_zero, add_zero]; rfl
  | succ n ih =>
    have hm := Nat.two_pow_pos t
    have e : (n + 1 + 1 + 1) * 2 ^ t = (n + 1 + 1) * 2 ^ t + 2 ^ t := Nat.succ_mul _ _
    obtain ⟨h1, h2, h3, h4⟩ := ih (by omega)
    rw [List.range'_concat, List.foldl_append, List.foldl_cons, List.foldl_nil, Nat.zero_add, Nat.one_mul]
    have hk := encGroup_keeps hS htk hdsz hwd hbd (g := n) hle (by omega) h2 h3
    refine ⟨by rw [size_encGroup]; exact h1, hk.1, hk.2, fun j hj => ?_⟩
    rw [rd_encGroup hS htk hdsz hwd hbd hs hle (by omega) h2 h3 hj, h4 j hj, Finset.sum_range_succ, add_assoc]

end Groups

theorem encWork_eq_foldl (C : Ctx) (sh : Array Vec) (len d m t : ℕ) (w : Array Vec) :
    encWork C sh len d m t w =
      (List.range' 0 (ngroups m d)).foldl (fun w g => encGroup C sh len d m t g w)
        (ifftRows C t 0 (m - 1) 0 (dataRows sh len 0 0 (if d < m then d else m) m w)) := by
  unfold encWork ngroups
  split <;> rfl

/-- **the work area before the final forward transform**, read symbol-wise: the sum over the groups of the
inverse transforms at the offsets `(g+1)·m` -/
theorem encWork_spec (hS : SkewOK F) {t d len s : ℕ} {data : Array Vec} (htk : t ≤ F.k)
    (hdsz : d ≤ data.size) (hwd : WF len data) (hbd : SymsBelow (2 ^ F.k) data) (hs : s < len)
    (hle : (ngroups (2 ^ t) d + 1 + 1) * 2 ^ t ≤ 2 ^ F.k) :
    (encWork C data len d (2 ^ t) t (Array.replicate (2 * 2 ^ t) (zeroVec len))).size = 2 * 2 ^ t ∧
    WF len (encWork C data len d (2 ^ t) t (Array.replicate (2 * 2 ^ t) (zeroVec len))) ∧
    SymsBelow (2 ^ F.k) (encWork C data len d (2 ^ t) t (Array.replicate (2 * 2 ^ t) (zeroVec len))) ∧
    ∀ j, j < 2 ^ t →
      rd F (encWork C data len d (2 ^ t) t (Array.replicate (2 * 2 ^ t) (zeroVec len))) 0 s j =
        ∑ g ∈ range (ngroups (2 ^ t) d + 1), ifft (beta F) F.k t ((g + 1) * 2 ^ t)
          (fun x => msg F data d s (g * 2 ^ t + x)) j := by
  have hm := Nat.two_pow_pos t
  have hw0 : WF len (Array.replicate (2 * 2 ^ t) (zeroVec len)) := WF_replicate _ _
  have hb0 : SymsBelow (2 ^ F.k) (Array.replicate (2 * 2 ^ t) (zeroVec len)) :=
    symsBelow_replicate (Nat.two_pow_pos _) _ _
  have hsz0 : 2 * 2 ^ t ≤ (Array.replicate (2 * 2 ^ t) (zeroVec len)).size := by simp
  have hle1 : (1 + 1) * 2 ^ t ≤ 2 ^ F.k := by
    have : (1 + 1) * 2 ^ t ≤ (ngroups (2 ^ t) d + 1 + 1) * 2 ^ t :=
      Nat.mul_le_mul_right _ (by omega)
    omega
  have hfirst := fun j hj => rd_encFirst hS htk hdsz hwd hbd hs (j := j) hle1 hsz0 hw0 hb0 hj
  obtain ⟨⟨hw1, hb1⟩, _⟩ := hfirst 0 hm
  obtain ⟨h1, h2, h3, h4⟩ := encFold_spec hS htk hdsz hwd hbd hs (ngroups (2 ^ t) d) hle _
    (by simp) hw1 hb1
  rw [encWork_eq_foldl]
  refine ⟨h1, h2, h3, fun j hj => ?_⟩
  rw [h4 j hj, (hfirst j hj).2, Finset.sum_range_succ', add_comm]
  simp only [Nat.zero_add, Nat.one_mul, Nat.zero_mul]

/-! ## the theorem -/

/-- **Leopard's `encode` computes the code with generator `encMatrix`** (symbol position `s`, parity row `r`) -/
theorem encode_eq_encMatrix (hS : SkewOK F) {d p t len s : ℕ} {data : Array Vec} (hd : 0 < d)
    (hp64 : p ≤ 2 ^ 64) (hm : ceilPow2 p = 2 ^ t) (hadm : d + ceilPow2 p ≤ 2 ^ F.k)
    (hdsz : d ≤ data.size) (hwd : WF len data) (hbd : SymsBelow (2 ^ F.k) data) (r : Fin p) (hs : s < len) :
    F.φ (((encode C d p len data)[r.val]!)[s]!) =
      ∑ c : Fin d, encMatrix (beta F) F.k t p d r c * F.φ ((data[c.val]!)[s]!) := by
  have : CharP K 2 := F.char2
  have hm' := Nat.two_pow_pos t
  have hpm := le_ceilPow2 p hp64
  rw [hm] at hadm hpm
  have htk : t ≤ F.k := (Nat.pow_le_pow_iff_right (a := 2) (by decide)).mp (by omega)
  have hr : r.val < 2 ^ t := by have := r.2; omega
  obtain ⟨hA1, hA2⟩ := groups_arith hm' hd (Nat.pow_dvd_pow 2 htk) hadm
  obtain ⟨hWsz, hWwf, hWb, hWrd⟩ := encWork_spec hS htk hdsz hwd hbd hs hA1
  rw [encode_row C len data d p t hm (by rw [F.hbits]; omega) hp64 r.val r.2, hm]
  have h1 : ∀ w : Array Vec, F.φ ((w[r.val]!)[s]!) = rd F w 0 s r.val := by
    intro w; rw [rd_apply, Nat.zero_add]
  rw [h1, rd_fftRows (Geo.fwd htk) hS (by rw [hWsz]; omega) hWwf hWb hs hr,
    fft_congr (beta F) F.k hWrd r.val hr]
  have hcw := parity_eq_cw (indep_beta' F) hA1 (msg F data d s) ⟨r.val, hr⟩
  unfold parity at hcw
  rw [hcw, CodeTheory.cw_inr]
  -- drop the zero-padded columns
  let h : ℕ → K := fun c =>
    vconst (beta F) F.k t (c / 2 ^ t) / (omega (beta F) F.k r.val - omega (beta F) F.k (2 ^ t + c)) *
      msg F data d s c
  have e1 : ∑ c : Fin ((ngroups (2 ^ t) d + 1) * 2 ^ t),
      encMatrix (beta F) F.k t (2 ^ t) ((ngroups (2 ^ t) d + 1) * 2 ^ t) ⟨r.val, hr⟩ c * msg F data d s c =
      ∑ c ∈ range ((ngroups (2 ^ t) d + 1) * 2 ^ t), h c :=
    Fin.sum_univ_eq_sum_range h _
  have e2 : ∑ c : Fin d, encMatrix (beta F) F.k t p d r c * F.φ ((data[c.val]!)[s]!) =
      ∑ c ∈ range d, h c := by
    rw [← Fin.sum_univ_eq_sum_range h d]
    refine Finset.sum_congr rfl fun c _ => ?_
    show _ = _ * msg F data d s c.val
    unfold msg
    rw [if_pos c.2]
    rfl
  rw [e1, e2]
  symm
  refine Finset.sum_subset (fun x hx => ?_) (fun x _ hx => ?_)
  · rw [mem_range] at hx ⊢; omega
  · rw [mem_range] at hx
    show _ * msg F data d s x = 0
    unfold msg
    rw [if_neg hx, mul_zero]

/-- the same in codeword form -/
theorem encode_eq_cw (hS : SkewOK F) {d p t len s : ℕ} {data : Array Vec} (hd : 0 < d)
    (hp64 : p ≤ 2 ^ 64) (hm : ceilPow2 p = 2 ^ t) (hadm : d + ceilPow2 p ≤ 2 ^ F.k)
    (hdsz : d ≤ data.size) (hwd : WF len data) (hbd : SymsBelow (2 ^ F.k) data) (r : Fin p) (hs : s < len) :
    F.φ (((encode C d p len data)[r.val]!)[s]!) =
      CodeTheory.cw (encMatrix (beta F) F.k t p d) (fun c => F.φ ((data[c.val]!)[s]!)) (Sum.inr r) := by
  rw [CodeTheory.cw_inr]
  exact encode_eq_encMatrix hS hd hp64 hm hadm hdsz hwd hbd r hs

/-- **the generator of Leopard's `encode` is MDS**, for every admissible `(d, p)` (needs only the field reading) -/
theorem encode_generator_mds (F : FieldCtx C K) {d p t : ℕ} (hd : 0 < d) (hp64 : p ≤ 2 ^ 64)
    (hm : ceilPow2 p = 2 ^ t) (hadm : d + ceilPow2 p ≤ 2 ^ F.k) :
    CodeTheory.MDS (encMatrix (beta F) F.k t p d) := by
  have hm' := Nat.two_pow_pos t
  have hpm := le_ceilPow2 p hp64
  rw [hm] at hadm hpm
  have htk : t ≤ F.k := (Nat.pow_le_pow_iff_right (a := 2) (by decide)).mp (by omega)
  obtain ⟨hA1, hA2⟩ := groups_arith hm' hd (Nat.pow_dvd_pow 2 htk) hadm
  exact encMatrix_mds (indep_beta' F) hA1 hpm hA2

/-- any `d` of the `d + p` symbols at position `s` (data symbols and the parity symbols computed by `encode` in
Leopard's table arithmetic) determine the data symbols -/
theorem encode_any_d (hS : SkewOK F) {d p t len s : ℕ} {data data' : Array Vec} (hd : 0 < d)
    (hp64 : p ≤ 2 ^ 64) (hm : ceilPow2 p = 2 ^ t) (hadm : d + ceilPow2 p ≤ 2 ^ F.k)
    (hdsz : d ≤ data.size) (hwd : WF len data) (hbd : SymsBelow (2 ^ F.k) data)
    (hdsz' : d ≤ data'.size) (hwd' : WF len data') (hbd' : SymsBelow (2 ^ F.k) data') (hs : s < len)
    (S : Finset (Fin d ⊕ Fin p)) (hcard : S.card = d)
    (hdata : ∀ c : Fin d, Sum.inl c ∈ S → (data[c.val]!)[s]! = (data'[c.val]!)[s]!)
    (hpar : ∀ r : Fin p, Sum.inr r ∈ S →
      ((encode C d p len data)[r.val]!)[s]! = ((encode C d p len data')[r.val]!)[s]!) :
    ∀ c : Fin d, (data[c.val]!)[s]! = (data'[c.val]!)[s]! := by
  have hM := encode_generator_mds F hd hp64 hm hadm
  have := hM.unique S hcard (fun c => F.φ ((data[c.val]!)[s]!)) (fun c => F.φ ((data'[c.val]!)[s]!)) (by
    intro i hi
    rcases i with c | r
    · simp only [CodeTheory.cw_inl]; rw [hdata c hi]
    · rw [← encode_eq_cw hS hd hp64 hm hadm hdsz hwd hbd r hs,
        ← encode_eq_cw hS hd hp64 hm hadm hdsz' hwd' hbd' r hs, hpar r hi])
  intro c
  have hB := Nat.two_pow_pos F.k
  exact F.φ_inj _ _ ((hbd.row c.val).get hB s) ((hbd'.row c.val).get hB s) (congrFun this c)

end RSV.LCHBridge
