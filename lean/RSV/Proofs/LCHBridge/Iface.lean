import RSV.Proofs.LCH.Encode
import RSV.Proofs.LCHSched.All
import RSV.Model.Leopard
/-!
# The interface between Leopard's table contexts and the Lin–Chung–Han mathematics

* `FieldCtx C K`: a *field reading* of a Leopard context `C` (tables `log`/`exp`, product `mulSym`): a map
  `φ` from symbols (naturals below `2^k`, Leopard's Cantor-basis indices) into a field `K` of characteristic 2
  that is additive, injective, turns `mulSym C a m` into `φ a * g ^ m`, and under which `log` is the discrete
  logarithm to base `g`.  Instances: `GF256` for `mkCtx P8` (`RSV.Proofs.LeoField`), `GF65536` for `mkCtx P16`
  (`RSV.Proofs.Leo16`).
* `beta F i = φ (2^i)`: the image of the Cantor basis; `RSV.LCH.omega (beta F) k j = φ j` for `j < 2^k`.
* `SkewOK F`: the skew table `fftSkew` (`skewAt C`) holds, at index `b + 2^i - 1` (`b` a multiple of `2^(i+1)`),
  the logarithm of the LCH twiddle factor `Ŵ_i(ω_b)`, with the sentinel `modulus` for the factor 0.
-/
namespace RSV.LCHBridge
open RSV.Model.Leo RSV.LCH

structure FieldCtx (C : Ctx) (K : Type) [Field K] where
  /-- number of bits -/
  k : ℕ
  hbits : C.P.bits = k
  hk : 1 ≤ k
  /-- symbols into the field -/
  φ : ℕ → K
  /-- the generator `x` -/
  g : K
  char2 : CharP K 2
  φ_zero : φ 0 = 0
  φ_one : φ 1 = 1
  φ_xor : ∀ a b, a < 2 ^ k → b < 2 ^ k → φ (a ^^^ b) = φ a + φ b
  φ_inj : ∀ a b, a < 2 ^ k → b < 2 ^ k → φ a = φ b → a = b
  g_pow_modulus : g ^ (2 ^ k - 1) = 1
  g_ne_zero : g ≠ 0
  /-- products stay symbols -/
  mul_lt : ∀ a m, a < 2 ^ k → m < 2 ^ k → mulSym C a m < 2 ^ k
  /-- `mulSym a log_m` is multiplication by `g ^ log_m` (also for `log_m = modulus`, where `g ^ modulus = 1`) -/
  φ_mul : ∀ a m, a < 2 ^ k → m < 2 ^ k → φ (mulSym C a m) = φ a * g ^ m
  /-- the logarithm table -/
  log_lt : ∀ a, a ≠ 0 → a < 2 ^ k → C.T.log[a]! < 2 ^ k - 1
  log_spec : ∀ a, a ≠ 0 → a < 2 ^ k → g ^ (C.T.log[a]!) = φ a
  log_zero : C.T.log[0]! = 2 ^ k - 1

variable {C : Ctx} {K : Type} [Field K]

/-- image of the Cantor basis: basis element `i` has index `2^i` -/
def beta (F : FieldCtx C K) : ℕ → K := fun i => F.φ (2 ^ i)

/-- the skew table is the table of logarithms of the LCH twiddle factors -/
def SkewOK (F : FieldCtx C K) : Prop :=
  ∀ i b, i < F.k → 2 ^ (i + 1) ∣ b → b + 2 ^ (i + 1) ≤ 2 ^ F.k →
    (What (beta F) F.k i (omega (beta F) F.k b) = 0 → skewAt C (b + 2 ^ i - 1) = 2 ^ F.k - 1) ∧
    (What (beta F) F.k i (omega (beta F) F.k b) ≠ 0 →
      skewAt C (b + 2 ^ i - 1) < 2 ^ F.k - 1 ∧
      F.g ^ (skewAt C (b + 2 ^ i - 1)) = What (beta F) F.k i (omega (beta F) F.k b))

end RSV.LCHBridge
