import RSV.Proofs.LCHBridge.Skew
import RSV.Proofs.LeoField
import RSV.Proofs.Leo16.Iso
/-!
# The two field readings of Leopard's contexts, and their skew tables

* `F8  : FieldCtx (mkCtx P8)  GF256`   (`φ = toGF`,   `g = x = 2`, `k = 8`),
* `F16 : FieldCtx (mkCtx P16) GF65536` (`φ = toGF16`, `g = GF65536.X`, `k = 16`),

every field discharged from `RSV.Proofs.LeoField` / `RSV.Proofs.Leo16`; and the corollaries of the structural theorem
`RSV.LCHBridge.skewOK`: `skewOK8 : SkewOK F8`, `skewOK16 : SkewOK F16` (no table is evaluated for these).
The generic facts `omega_beta`, `indep_beta` are in `RSV/Proofs/LCHBridge/Basic.lean`.
-/
namespace RSV.LCHBridge
open RSV RSV.Model RSV.LCH

/-! ## GF(2^8) -/
section GF8
open RSV.Proofs.LeoField

/-- the element `x` of `GF256` -/
def X8 : GF256 := ⟨2, by decide⟩

theorem X8_pow_val (n : ℕ) : (X8 ^ n).val = gpow 2 n := GF256.pow_val X8 n

theorem gpow_two_255 : gpow 2 255 = 1 := by decide +kernel

theorem X8_pow_255 : X8 ^ 255 = 1 := GF256.ext (by rw [X8_pow_val, gpow_two_255]; rfl)

theorem toGF_one : toGF 1 = 1 := by unfold toGF; rw [cm_one]; rfl

theorem toGF_mulSym {a m : ℕ} (ha : a < 256) (hm : m < 256) :
    toGF (Leo.mulSym C8 a m) = toGF a * X8 ^ m :=
  GF256.ext (by rw [GF256.mul_val, X8_pow_val, toGF_val, toGF_val, cm_mulSym ha hm])

theorem X8_pow_log {a : ℕ} (h0 : a ≠ 0) (ha : a < 256) : X8 ^ T8.log[a]! = toGF a :=
  GF256.ext (by rw [X8_pow_val, toGF_val, log_spec (Nat.pos_of_ne_zero h0) ha])

/-- the field reading of Leopard's GF(2^8) context -/
def F8 : LCHBridge.FieldCtx (Leo.mkCtx Leo.P8) GF256 where
  k := 8
  hbits := rfl
  hk := by decide
  φ := toGF
  g := X8
  char2 := GF256.instCharP
  φ_zero := toGF_zero
  φ_one := toGF_one
  φ_xor := fun a b _ _ => toGF_xor a b
  φ_inj := fun a b ha hb h => toGF_inj (show a < 256 from ha) (show b < 256 from hb) h
  g_pow_modulus := X8_pow_255
  g_ne_zero := by decide
  mul_lt := fun a m _ _ => mulLog_lt a m
  φ_mul := fun a m ha hm => toGF_mulSym (show a < 256 from ha) (show m < 256 from hm)
  log_lt := fun a h0 ha => log_lt h0 (show a < 256 from ha)
  log_spec := fun a h0 ha => X8_pow_log h0 (show a < 256 from ha)
  log_zero := log_zero

/-- **GF(2^8)**: `fftSkew8` is the table of logarithms of the LCH twiddle factors -/
theorem skewOK8 : SkewOK F8 := skewOK F8 rfl

end GF8

/-! ## GF(2^16) -/
section GF16
open RSV.Proofs.Leo16

theorem X16_pow_log {a : ℕ} (h0 : a ≠ 0) (ha : a < 65536) : GF65536.X ^ T16.log[a]! = toGF16 a :=
  GF65536.ext (by rw [GF65536.X_pow_val, toGF16_val, log16_spec h0 ha])

/-- the field reading of Leopard's GF(2^16) context -/
def F16 : LCHBridge.FieldCtx (Leo.mkCtx Leo.P16) GF65536 where
  k := 16
  hbits := rfl
  hk := by decide
  φ := toGF16
  g := GF65536.X
  char2 := GF65536.instCharP
  φ_zero := toGF16_zero
  φ_one := toGF16_one
  φ_xor := fun a b _ _ => toGF16_xor a b
  φ_inj := fun a b ha hb h => toGF16_inj (show a < 65536 from ha) (show b < 65536 from hb) h
  g_pow_modulus := GF65536.X_pow_65535
  g_ne_zero := by decide
  mul_lt := fun a m _ _ => mulLog16_lt a m
  φ_mul := fun a m ha hm => toGF16_mulSym (show a < 65536 from ha) (show m < 65536 from hm)
  log_lt := fun a h0 ha => log16_lt h0 (show a < 65536 from ha)
  log_spec := fun a h0 ha => X16_pow_log h0 (show a < 65536 from ha)
  log_zero := log16_zero

/-- **GF(2^16)**: `fftSkew` is the table of logarithms of the LCH twiddle factors -/
theorem skewOK16 : SkewOK F16 := skewOK F16 rfl

end GF16

end RSV.LCHBridge

#print axioms RSV.LCHBridge.skewOK
#print axioms RSV.LCHBridge.omega_beta
#print axioms RSV.LCHBridge.indep_beta
#print axioms RSV.LCHBridge.F8
#print axioms RSV.LCHBridge.F16
#print axioms RSV.LCHBridge.skewOK8
#print axioms RSV.LCHBridge.skewOK16
