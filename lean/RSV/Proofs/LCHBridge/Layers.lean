import RSV.Proofs.LCHBridge.Sym
/-!
# The clean row networks, read symbol-wise, are the Lin–Chung–Han transforms

`F : FieldCtx C K` a field reading of the table context `C`, `hS : SkewOK F` (the skew table holds the
logarithms of the twiddle factors).  `Geo F t off skewOff idxAdj` collects the geometric side conditions of a
transform of size `2^t` at point offset `off`, reading the skew table at `skewOff + · - idxAdj`:

* `t ≤ F.k`, `2^t ∣ off`, `off + 2^t ≤ 2^F.k`, and `skewOff + 1 = off + idxAdj`, i.e. the block at row offset `b` of
  layer `i` uses `skewAt (skewOff + b + 2^i - idxAdj) = skewAt ((off + b) + 2^i - 1)`, the entry for `Ŵ_i(ω_{off+b})`.
  `Geo.fwd : Geo F t 0 0 1` (the encoder's `fftRows C t 0 0 1`), `Geo.inv : Geo F t off (off - 1) 0` (the
  encoder's `ifftRows C t base (off - 1) 0`, `off > 0`).

Results (all for row indices `idx < 2^t`, symbol position `s < len`, `WF len w`, symbols below `2^F.k`):

* `rd_fftLayerRows`, `rd_ifftLayerRows` — one layer is `fftLayer` / `ifftLayer`;
* `symsBelow_fftLayerRows`, `symsBelow_ifftLayerRows`, `symsBelow_fftRows`, `symsBelow_ifftRows` — bounds;
* `rd_fftRows`, `rd_ifftRows` — the networks are `fft` / `ifft`.
-/
namespace RSV.LCHBridge
open RSV.Model.Leo RSV.LCH RSV.Proofs.LeoSched RSV.Proofs.LCHSched

variable {C : Ctx} {K : Type} [Field K] {F : FieldCtx C K}

/-- the block of size `2^(i+1)` containing `idx < 2^t` lies inside `[0, 2^t)` -/
theorem blk_bound {i t idx : ℕ} (hi : i < t) (hidx : idx < 2 ^ t) :
    idx / 2 ^ (i + 1) * 2 ^ (i + 1) + 2 ^ (i + 1) ≤ 2 ^ t := by
  obtain ⟨c, hc⟩ : 2 ^ (i + 1) ∣ 2 ^ t := Nat.pow_dvd_pow 2 hi
  have hp := Nat.two_pow_pos (i + 1)
  have hlt : idx / 2 ^ (i + 1) < c := by
    rw [Nat.div_lt_iff_lt_mul hp, Nat.mul_comm, ← hc]; exact hidx
  calc idx / 2 ^ (i + 1) * 2 ^ (i + 1) + 2 ^ (i + 1)
      = (idx / 2 ^ (i + 1) + 1) * 2 ^ (i + 1) := (Nat.succ_mul _ _).symm
    _ ≤ c * 2 ^ (i + 1) := Nat.mul_le_mul_right _ hlt
    _ = 2 ^ t := by rw [hc, Nat.mul_comm]

/-- geometric side conditions of a transform of size `2^t` at point offset `off` -/
structure Geo (F : FieldCtx C K) (t off skewOff idxAdj : ℕ) : Prop where
  tk : t ≤ F.k
  dvd : 2 ^ t ∣ off
  le : off + 2 ^ t ≤ 2 ^ F.k
  sk : skewOff + 1 = off + idxAdj

/-- the forward transform of the encoder: `fftRows C t 0 0 1` -/
theorem Geo.fwd {t : ℕ} (htk : t ≤ F.k) : Geo F t 0 0 1 :=
  ⟨htk, dvd_zero _, by rw [Nat.zero_add]; exact Nat.pow_le_pow_right (by decide) htk, rfl⟩

/-- the inverse transforms of the encoder: `ifftRows C t base (off - 1) 0` -/
theorem Geo.inv {t off : ℕ} (htk : t ≤ F.k) (hdvd : 2 ^ t ∣ off) (hpos : 0 < off)
    (hle : off + 2 ^ t ≤ 2 ^ F.k) : Geo F t off (off - 1) 0 :=
  ⟨htk, hdvd, hle, by omega⟩

/-- the table entry used by the butterfly touching `idx` in layer `i` represents `twiddle i off idx` -/
theorem Geo.twOK {t off skewOff idxAdj : ℕ} (G : Geo F t off skewOff idxAdj) (hS : SkewOK F) {i idx : ℕ}
    (hi : i < t) (hidx : idx < 2 ^ t) :
    TwOK F (skewAt C (skewOff + idx / 2 ^ (i + 1) * 2 ^ (i + 1) + 2 ^ i - idxAdj))
      (twiddle (beta F) F.k i off idx) := by
  have hb := blk_bound hi hidx
  have hp := Nat.two_pow_pos i
  have hd : 2 ^ (i + 1) ∣ off + idx / 2 ^ (i + 1) * 2 ^ (i + 1) :=
    dvd_add ((Nat.pow_dvd_pow 2 hi).trans G.dvd) (Dvd.intro_left _ rfl)
  unfold twiddle
  generalize idx / 2 ^ (i + 1) * 2 ^ (i + 1) = b at hb hd ⊢
  have e : skewOff + b + 2 ^ i - idxAdj = (off + b) + 2 ^ i - 1 := by
    have := G.sk; omega
  rw [e]
  exact hS.twOK (by have := G.tk; omega) hd (by have := G.le; omega)

/-! ## one layer -/

section Layer
variable {t off skewOff idxAdj : ℕ} (G : Geo F t off skewOff idxAdj) (hS : SkewOK F)
include G hS

theorem rd_fftLayerRows {len base i s idx : ℕ} {w : Array Vec} (hi : i < t) (hsz : base + 2 ^ t ≤ w.size)
    (hw : WF len w) (hb : SymsBelow (2 ^ F.k) w) (hs : s < len) (hidx : idx < 2 ^ t) :
    rd F (fftLayerRows C i base (2 ^ t) skewOff idxAdj w) base s idx =
      fftLayer (beta F) F.k i off (rd F w base s) idx := by
  have htw := G.twOK hS hi hidx
  have hbb := blk_bound hi hidx
  have hdm := Nat.div_add_mod' idx (2 ^ (i + 1))
  have hml := Nat.mod_lt idx (Nat.two_pow_pos (i + 1))
  have hp : 2 ^ (i + 1) = 2 * 2 ^ i := pow_succ' 2 i
  rw [rd_apply, fftLayerRows_get C i base (2 ^ t) skewOff idxAdj w hsz idx hidx]
  by_cases hl : idx % 2 ^ (i + 1) < 2 ^ i
  · rw [if_pos hl, fftLayer_low _ _ hl,
      φ_bfF_fst (hw _ (by omega)) (hw _ (by omega)) hs (hb.row _) (hb.row _) htw, rd_apply, rd_apply,
      Nat.add_assoc]
  · have h1 := (blk_high hl).1
    rw [if_neg hl, fftLayer_high _ _ hl,
      φ_bfF_snd (hw _ (by omega)) (hw _ (by omega)) hs (hb.row _) (hb.row _) htw, rd_apply, rd_apply,
      Nat.add_sub_assoc h1]

theorem rd_ifftLayerRows {len base i s idx : ℕ} {w : Array Vec} (hi : i < t) (hsz : base + 2 ^ t ≤ w.size)
    (hw : WF len w) (hb : SymsBelow (2 ^ F.k) w) (hs : s < len) (hidx : idx < 2 ^ t) :
    rd F (ifftLayerRows C i base (2 ^ t) skewOff idxAdj w) base s idx =
      ifftLayer (beta F) F.k i off (rd F w base s) idx := by
  have htw := G.twOK hS hi hidx
  have hbb := blk_bound hi hidx
  have hdm := Nat.div_add_mod' idx (2 ^ (i + 1))
  have hml := Nat.mod_lt idx (Nat.two_pow_pos (i + 1))
  have hp : 2 ^ (i + 1) = 2 * 2 ^ i := pow_succ' 2 i
  rw [rd_apply, ifftLayerRows_get C i base (2 ^ t) skewOff idxAdj w hsz idx hidx]
  by_cases hl : idx % 2 ^ (i + 1) < 2 ^ i
  · rw [if_pos hl, ifftLayer_low _ _ hl,
      φ_bfI_fst (hw _ (by omega)) (hw _ (by omega)) hs (hb.row _) (hb.row _) htw, rd_apply, rd_apply,
      Nat.add_assoc]
  · have h1 := (blk_high hl).1
    rw [if_neg hl, ifftLayer_high _ _ hl,
      φ_bfI_snd (hw _ (by omega)) hs (hb.row _) (hb.row _), rd_apply, rd_apply,
      Nat.add_sub_assoc h1]

theorem symsBelow_fftLayerRows {base i : ℕ} {w : Array Vec} (hi : i < t) (hsz : base + 2 ^ t ≤ w.size)
    (hb : SymsBelow (2 ^ F.k) w) :
    SymsBelow (2 ^ F.k) (fftLayerRows C i base (2 ^ t) skewOff idxAdj w) := by
  intro x hx
  rw [size_fftLayerRows] at hx
  show VecBelow _ _
  by_cases hin : base ≤ x ∧ x < base + 2 ^ t
  · obtain ⟨idx, rfl⟩ : ∃ idx, x = base + idx := ⟨x - base, by omega⟩
    have hidx : idx < 2 ^ t := by omega
    rw [fftLayerRows_get C i base (2 ^ t) skewOff idxAdj w hsz idx hidx]
    have htw := (G.twOK hS hi hidx).lt
    split
    · exact (vecBelow_bfF (hb.row _) (hb.row _) htw).1
    · exact (vecBelow_bfF (hb.row _) (hb.row _) htw).2
  · rw [fftLayerRows_get_out C i base (2 ^ t) skewOff idxAdj w hsz x (by omega)]
    exact hb x hx

theorem symsBelow_ifftLayerRows {base i : ℕ} {w : Array Vec} (hi : i < t) (hsz : base + 2 ^ t ≤ w.size)
    (hb : SymsBelow (2 ^ F.k) w) :
    SymsBelow (2 ^ F.k) (ifftLayerRows C i base (2 ^ t) skewOff idxAdj w) := by
  intro x hx
  rw [size_ifftLayerRows] at hx
  show VecBelow _ _
  by_cases hin : base ≤ x ∧ x < base + 2 ^ t
  · obtain ⟨idx, rfl⟩ : ∃ idx, x = base + idx := ⟨x - base, by omega⟩
    have hidx : idx < 2 ^ t := by omega
    rw [ifftLayerRows_get C i base (2 ^ t) skewOff idxAdj w hsz idx hidx]
    have htw := (G.twOK hS hi hidx).lt
    split
    · exact (vecBelow_bfI (hb.row _) (hb.row _) htw).1
    · exact (vecBelow_bfI (hb.row _) (hb.row _) htw).2
  · rw [ifftLayerRows_get_out C i base (2 ^ t) skewOff idxAdj w hsz x (by omega)]
    exact hb x hx

/-! ## the networks -/

theorem symsBelow_fftRowsAux {base : ℕ} (j : ℕ) (hj : j ≤ t) (w : Array Vec) (hsz : base + 2 ^ t ≤ w.size)
    (hb : SymsBelow (2 ^ F.k) w) :
    SymsBelow (2 ^ F.k) (fftRowsAux C base (2 ^ t) skewOff idxAdj j w) := by
  induction j generalizing w with
  | zero => exact hb
  | succ j ih =>
    rw [fftRowsAux]
    exact ih (by omega) _ (by rw [size_fftLayerRows]; exact hsz)
      (symsBelow_fftLayerRows G hS (by omega) hsz hb)

theorem symsBelow_ifftRowsAux {base : ℕ} (j : ℕ) (hj : j ≤ t) (w : Array Vec) (hsz : base + 2 ^ t ≤ w.size)
    (hb : SymsBelow (2 ^ F.k) w) :
    SymsBelow (2 ^ F.k) (ifftRowsAux C base (2 ^ t) skewOff idxAdj j w) := by
  induction j with
  | zero => exact hb
  | succ j ih =>
    rw [ifftRowsAux]
    exact symsBelow_ifftLayerRows G hS (by omega) (by rw [size_ifftRowsAux]; exact hsz) (ih (by omega))

theorem rd_fftRowsAux {len base s : ℕ} (hs : s < len) (j : ℕ) (hj : j ≤ t) (w : Array Vec)
    (hsz : base + 2 ^ t ≤ w.size) (hw : WF len w) (hb : SymsBelow (2 ^ F.k) w) :
    ∀ idx, idx < 2 ^ t → rd F (fftRowsAux C base (2 ^ t) skewOff idxAdj j w) base s idx =
      fft (beta F) F.k j off (rd F w base s) idx := by
  induction j generalizing w with
  | zero => intro idx _; rfl
  | succ j ih =>
    intro idx hidx
    have hwl : WF len (fftLayerRows C j base (2 ^ t) skewOff idxAdj w) :=
      WF_layerRows _ _ _ _ _ _ _ hsz (fun x y s hx hy => size_bfF C hx hy s)
        (layer_dvd j t (by omega)) hw
    rw [fftRowsAux, fft_succ,
      ih (by omega) (fftLayerRows C j base (2 ^ t) skewOff idxAdj w)
        (by rw [size_fftLayerRows]; exact hsz) hwl
        (symsBelow_fftLayerRows G hS (by omega) hsz hb) idx hidx]
    refine fft_congr_block (beta F) F.k (Nat.le_of_succ_le hj) (c := 0) (fun x hx => ?_) idx
      (Nat.div_eq_of_lt hidx)
    exact rd_fftLayerRows G hS (by omega) hsz hw hb hs
      ((Nat.div_eq_zero_iff.mp hx).resolve_left (Nat.two_pow_pos t).ne')

theorem rd_ifftRowsAux {len base s : ℕ} (hs : s < len) (j : ℕ) (hj : j ≤ t) (w : Array Vec)
    (hsz : base + 2 ^ t ≤ w.size) (hw : WF len w) (hb : SymsBelow (2 ^ F.k) w) :
    ∀ idx, idx < 2 ^ t → rd F (ifftRowsAux C base (2 ^ t) skewOff idxAdj j w) base s idx =
      ifft (beta F) F.k j off (rd F w base s) idx := by
  induction j with
  | zero => intro idx _; rfl
  | succ j ih =>
    intro idx hidx
    rw [ifftRowsAux, ifft_succ,
      rd_ifftLayerRows G hS (by omega) (by rw [size_ifftRowsAux]; exact hsz)
        (WF_ifftRowsAux C len base t skewOff idxAdj j (by omega) w hsz hw)
        (symsBelow_ifftRowsAux G hS j (by omega) w hsz hb) hs hidx]
    refine ifftLayer_congr_block (beta F) F.k (t := t) (c := 0) (by omega) (fun x hx => ?_) idx
      (Nat.div_eq_of_lt hidx)
    exact ih (by omega) x ((Nat.div_eq_zero_iff.mp hx).resolve_left (Nat.two_pow_pos t).ne')

/-- the forward network keeps the symbols below `2^k` -/
theorem symsBelow_fftRows {base : ℕ} {w : Array Vec} (hsz : base + 2 ^ t ≤ w.size)
    (hb : SymsBelow (2 ^ F.k) w) : SymsBelow (2 ^ F.k) (fftRows C t base skewOff idxAdj w) :=
  symsBelow_fftRowsAux G hS t (Nat.le_refl _) w hsz hb

/-- the inverse network keeps the symbols below `2^k` -/
theorem symsBelow_ifftRows {base : ℕ} {w : Array Vec} (hsz : base + 2 ^ t ≤ w.size)
    (hb : SymsBelow (2 ^ F.k) w) : SymsBelow (2 ^ F.k) (ifftRows C t base skewOff idxAdj w) :=
  symsBelow_ifftRowsAux G hS t (Nat.le_refl _) w hsz hb

/-- **the forward row network is the LCH `fft`**, symbol-wise on the rows `[base, base + 2^t)` -/
theorem rd_fftRows {len base s idx : ℕ} {w : Array Vec} (hsz : base + 2 ^ t ≤ w.size) (hw : WF len w)
    (hb : SymsBelow (2 ^ F.k) w) (hs : s < len) (hidx : idx < 2 ^ t) :
    rd F (fftRows C t base skewOff idxAdj w) base s idx = fft (beta F) F.k t off (rd F w base s) idx :=
  rd_fftRowsAux G hS hs t (Nat.le_refl _) w hsz hw hb idx hidx

/-- **the inverse row network is the LCH `ifft`**, symbol-wise on the rows `[base, base + 2^t)` -/
theorem rd_ifftRows {len base s idx : ℕ} {w : Array Vec} (hsz : base + 2 ^ t ≤ w.size) (hw : WF len w)
    (hb : SymsBelow (2 ^ F.k) w) (hs : s < len) (hidx : idx < 2 ^ t) :
    rd F (ifftRows C t base skewOff idxAdj w) base s idx = ifft (beta F) F.k t off (rd F w base s) idx :=
  rd_ifftRowsAux G hS hs t (Nat.le_refl _) w hsz hw hb idx hidx

end Layer

end RSV.LCHBridge
