import RSV.Proofs.LCHBridge.Basic
import RSV.Proofs.LCHBridge.SkewLoops
/-!
# `fftSkew` is the table of logarithms of the LCH twiddle factors (`SkewOK`), structurally

For ANY context `C` whose skew table is the one computed by `Leo.initFFTSkew C.P C.T` and ANY field reading
`F : FieldCtx C K` of it, `SkewOK F` holds.  Nothing is evaluated: the proof is a loop invariant over the rounds of
`initFFTSkew` (`RSV.LCHBridge.rounds`, see `SkewLoops.lean`):

* entering round `m`, `temp[i]` (`m ≤ i`) is the symbol of `Ŵ_m(β_{i+1})` (`TempOK`);
* the fill loops of round `m` write the symbol of `Ŵ_m(ω_b)` at `b + 2^m - 1` for every multiple `b` of `2^(m+1)`
  (additivity of `Ŵ_m`), and touch nothing else;
* the update of `temp` implements `Ŵ_{m+1}(x) = Ŵ_m(x)(Ŵ_m(x)+1) / (Ŵ_m(β_{m+1})(Ŵ_m(β_{m+1})+1))`
  (`What_succ_mul`), `temp[m]` being overwritten with the logarithm of the inverse of the denominator;
* the final pass replaces every symbol by its logarithm (`log 0 = modulus` is the sentinel).
-/
namespace RSV.LCHBridge
open RSV.Model.Leo RSV.LCH RSV.Proofs.Leo16

variable {C : Ctx} {K : Type} [Field K]

/-- entering round `m`: `temp[i]` is the symbol of `Ŵ_m(β_{i+1})`, `m ≤ i ≤ k-2` -/
structure TempOK (F : FieldCtx C K) (m : ℕ) (temp : Array ℕ) : Prop where
  size : temp.size = F.k - 1
  val : ∀ i, m ≤ i → i + 1 < F.k →
    temp[i]! < 2 ^ F.k ∧ F.φ temp[i]! = What (beta F) F.k m (beta F (i + 1))

/-- a symbol `u` with `φ u ∉ {0,1}`: the logarithm of `u·(u+1)` and the power of `g` it stands for -/
theorem log_mul_succ (F : FieldCtx C K) {u : ℕ} (hu : u < 2 ^ F.k) (hne : F.φ u ^ 2 + F.φ u ≠ 0) :
    C.T.log[u ^^^ 1]! < 2 ^ F.k - 1 ∧ F.g ^ C.T.log[u ^^^ 1]! = F.φ u + 1 := by
  obtain ⟨h1, h2⟩ := xor_one_spec F hu
  have hx : u ^^^ 1 ≠ 0 := by
    intro h0
    rw [h0, F.φ_zero] at h2
    apply hne
    linear_combination (-F.φ u) * h2
  exact ⟨F.log_lt _ hx h1, by rw [F.log_spec _ hx h1, h2]⟩

theorem tempUpd_ok (F : FieldCtx C K) {m : ℕ} {temp : Array ℕ} (h : TempOK F m temp) (hm : m + 2 ≤ F.k) :
    TempOK F (m + 1) (tempUpd C.P C.T m temp) := by
  have := F.char2
  have hβ := indep_beta F
  obtain ⟨hs, hgm, hgi⟩ := tempUpd_spec C.P C.T m temp (by rw [F.hbits]; exact h.size)
    (by rw [F.hbits]; exact hm)
  have hpos := Nat.two_pow_pos F.k
  -- the pivot `t = Ŵ_m(β_{m+1})`
  obtain ⟨htm, hφm⟩ := h.val m (le_refl m) (by omega)
  have hne := What_sq_add_ne_zero hβ (le_refl m) (show m + 1 < F.k by omega)
  rw [← hφm] at hne
  obtain ⟨hL1, hg1⟩ := log_mul_succ F htm hne
  obtain ⟨hp, hφp⟩ := mulLog_spec F htm (show C.T.log[temp[m]! ^^^ 1]! < 2 ^ F.k by omega)
  rw [hg1] at hφp
  have hp0 : mulLog C.P C.T temp[m]! C.T.log[temp[m]! ^^^ 1]! ≠ 0 := by
    intro h0
    rw [h0, F.φ_zero] at hφp
    apply hne
    linear_combination -hφp
  have hL2 := F.log_lt _ hp0 hp
  have hg2 := F.log_spec _ hp0 hp
  rw [hφp] at hg2
  -- `D = modulus - log (t (t+1))`: `g^D` is the inverse of `t (t+1)`
  have hD : F.g ^ (C.P.modulus - C.T.log[mulLog C.P C.T temp[m]! C.T.log[temp[m]! ^^^ 1]!]!) *
      (F.φ temp[m]! * (F.φ temp[m]! + 1)) = 1 := by
    rw [← hg2, ← pow_add, modulus_eq F, Nat.sub_add_cancel (by omega), F.g_pow_modulus]
  refine ⟨by rw [hs, h.size], fun i hmi hi => ?_⟩
  obtain ⟨hti, hφi⟩ := h.val i (by omega) hi
  have hnei := What_sq_add_ne_zero hβ (show m ≤ i by omega) hi
  rw [← hφi] at hnei
  obtain ⟨hL3, hg3⟩ := log_mul_succ F hti hnei
  obtain ⟨hsum, hgsum⟩ := addMod_spec F (show C.T.log[temp[i]! ^^^ 1]! ≤ 2 ^ F.k - 1 by omega)
    (show C.P.modulus - C.T.log[mulLog C.P C.T temp[m]! C.T.log[temp[m]! ^^^ 1]!]! ≤ 2 ^ F.k - 1 by
      rw [modulus_eq F]; omega)
  obtain ⟨hnew, hφnew⟩ := mulLog_spec F hti hsum
  rw [hgi i (by omega) (by rw [F.hbits]; exact hi)]
  refine ⟨hnew, ?_⟩
  rw [hφnew, hgsum, hg3]
  have hW := What_succ_mul hβ (show m + 1 < F.k by omega) (beta F (i + 1))
  rw [← hφm, ← hφi] at hW
  linear_combination
    (-(F.g ^ (C.P.modulus - C.T.log[mulLog C.P C.T temp[m]! C.T.log[temp[m]! ^^^ 1]!]!))) * hW +
    What (beta F) F.k (m + 1) (beta F (i + 1)) * hD

/-- the state after `m` rounds -/
structure RoundsOK (F : FieldCtx C K) (m : ℕ) (s : Array ℕ × Array ℕ) : Prop where
  temp : TempOK F m s.1
  size : s.2.size = 2 ^ F.k - 1
  done : ∀ m', m' < m → ∀ b, 2 ^ (m' + 1) ∣ b → b + 2 ^ (m' + 1) ≤ 2 ^ F.k →
    s.2[b + 2 ^ m' - 1]! < 2 ^ F.k ∧
    F.φ s.2[b + 2 ^ m' - 1]! = What (beta F) F.k m' (omega (beta F) F.k b)
  rest : ∀ j, 2 ^ m ∣ j + 1 → s.2[j]! = 0

theorem roundsOK_zero (F : FieldCtx C K) : RoundsOK F 0 (rounds C.P C.T 0) := by
  have h0 : rounds C.P C.T 0 = (tempInit C.P.bits, Array.replicate C.P.modulus 0) := rfl
  rw [h0, F.hbits, modulus_eq F]
  refine ⟨⟨tempInit_size _, fun i _ hi => ?_⟩, by simp, fun m' hm' => absurd hm' (Nat.not_lt_zero _),
    fun j _ => ?_⟩
  · rw [tempInit_get _ _ hi, What_zero_eq (beta_zero F)]
    exact ⟨Nat.pow_lt_pow_right (by decide) hi, rfl⟩
  · by_cases hj : j < 2 ^ F.k - 1
    · exact get_replicate _ _ _ hj
    · simp [hj]

theorem roundsOK_succ (F : FieldCtx C K) {m : ℕ} (hm : m + 2 ≤ F.k) (h : RoundsOK F m (rounds C.P C.T m)) :
    RoundsOK F (m + 1) (rounds C.P C.T (m + 1)) := by
  have := F.char2
  have hβ := indep_beta F
  rw [rounds_succ]
  generalize rounds C.P C.T m = s at h
  obtain ⟨htemp, hsize, hdone, hrest⟩ := h
  obtain ⟨hfs, hf1, hf2⟩ := fillRound_spec C.P.bits m s.1 s.2
    (fun b v => v < 2 ^ F.k ∧ F.φ v = What (beta F) F.k m (omega (beta F) F.k b))
    (by rw [F.hbits]; exact hm) (by rw [F.hbits]; exact hsize)
    ⟨Nat.two_pow_pos _, by rw [F.φ_zero, omega_zero, What_apply_zero _ _ (by omega)]⟩
    (fun i hmi hi b v _ hb hv => by
      rw [F.hbits] at hi
      obtain ⟨hti, hφi⟩ := htemp.val i hmi hi
      refine ⟨Nat.xor_lt_two_pow hv.1 hti, ?_⟩
      rw [F.φ_xor _ _ hv.1 hti, hv.2, hφi, Nat.add_comm b, omega_two_pow_add _ _ hi hb,
        What_add _ _ (by omega), add_comm])
  refine ⟨tempUpd_ok F htemp hm, by rw [hfs, hsize], fun m' hm' b hb hle => ?_, fun j hj => ?_⟩
  · by_cases hmm : m' = m
    · subst hmm
      exact hf1 b hb (by rw [F.hbits]; have := Nat.two_pow_pos (m' + 1); omega)
    · have hlt : m' < m := by omega
      rw [hf2 _ (fun b' hb' heq => by
        have h1 := Nat.two_pow_pos m'
        have h2 := Nat.two_pow_pos m
        have hd1 : 2 ^ (m' + 1) ∣ b' := dvd_trans (pow_dvd_pow 2 (by omega)) hb'
        have hd2 : 2 ^ (m' + 1) ∣ 2 ^ m := pow_dvd_pow 2 (by omega)
        have hsum : b + 2 ^ m' = b' + 2 ^ m := by omega
        have hd3 : 2 ^ (m' + 1) ∣ b + 2 ^ m' := by rw [hsum]; exact Nat.dvd_add hd1 hd2
        exact not_two_pow_succ_dvd m' ((Nat.dvd_add_right hb).mp hd3))]
      exact hdone m' hlt b hb hle
  · rw [hf2 _ (fun b' hb' heq => by
      have h2 := Nat.two_pow_pos m
      have hsum : j + 1 = b' + 2 ^ m := by omega
      rw [hsum] at hj
      exact not_two_pow_succ_dvd m ((Nat.dvd_add_right hb').mp hj))]
    exact hrest j (dvd_trans (pow_dvd_pow 2 (Nat.le_succ m)) hj)

theorem roundsOK (F : FieldCtx C K) : ∀ m, m + 1 ≤ F.k → RoundsOK F m (rounds C.P C.T m) := by
  intro m
  induction m with
  | zero => exact fun _ => roundsOK_zero F
  | succ m ih => exact fun hm => roundsOK_succ F (by omega) (ih (by omega))

/-- the symbol table before the final `log` pass: the symbol of `Ŵ_i(ω_b)` at `b + 2^i - 1` -/
theorem rounds_final (F : FieldCtx C K) {i b : ℕ} (hi : i < F.k) (hb : 2 ^ (i + 1) ∣ b)
    (hle : b + 2 ^ (i + 1) ≤ 2 ^ F.k) :
    (rounds C.P C.T (F.k - 1)).2[b + 2 ^ i - 1]! < 2 ^ F.k ∧
    F.φ (rounds C.P C.T (F.k - 1)).2[b + 2 ^ i - 1]! = What (beta F) F.k i (omega (beta F) F.k b) := by
  have := F.char2
  have hk := F.hk
  have h := roundsOK F (F.k - 1) (by omega)
  by_cases hik : i < F.k - 1
  · exact h.done i hik b hb hle
  · have hik' : i = F.k - 1 := by omega
    have hb0 : b = 0 := by
      have h1 : 2 ^ (i + 1) = 2 ^ F.k := by rw [hik', Nat.sub_add_cancel hk]
      omega
    subst hb0
    rw [Nat.zero_add, h.rest _ (by rw [hik', Nat.sub_add_cancel (Nat.two_pow_pos _)]), F.φ_zero, omega_zero,
      What_apply_zero _ _ (by omega)]
    exact ⟨Nat.two_pow_pos _, rfl⟩

/-- **the skew table of `initFFTSkew` is correct for every field reading of the context** -/
theorem skewOK (F : FieldCtx C K) (hS : C.S.skew = (initFFTSkew C.P C.T).skew) : SkewOK F := by
  intro i b hi hb hle
  obtain ⟨hu, hφ⟩ := rounds_final F hi hb hle
  have hsz : (rounds C.P C.T (F.k - 1)).2.size = 2 ^ F.k - 1 := (roundsOK F (F.k - 1) (by have := F.hk; omega)).size
  have hpos : b + 2 ^ i - 1 < 2 ^ F.k - 1 := by
    have := Nat.two_pow_pos i
    rw [Nat.pow_succ] at hle
    omega
  have hget : skewAt C (b + 2 ^ i - 1) = C.T.log[(rounds C.P C.T (F.k - 1)).2[b + 2 ^ i - 1]!]! := by
    unfold skewAt
    rw [hS, initFFTSkew_skew_eq, F.hbits, modulus_eq F]
    have := (foldl_map_get (fun v => C.T.log[v]!) (rounds C.P C.T (F.k - 1)).2 (2 ^ F.k - 1)
      (by rw [hsz])).2 (b + 2 ^ i - 1)
    rw [if_pos hpos] at this
    exact this
  rw [hget, ← hφ]
  generalize (rounds C.P C.T (F.k - 1)).2[b + 2 ^ i - 1]! = u at hu hφ ⊢
  refine ⟨fun h0 => ?_, fun hne => ?_⟩
  · rw [φ_eq_zero F hu h0, F.log_zero]
  · have hu0 : u ≠ 0 := fun h => hne (by rw [h, F.φ_zero])
    exact ⟨F.log_lt u hu0 hu, F.log_spec u hu0 hu⟩

/-- in particular for the contexts `mkCtx P` -/
theorem skewOK_mkCtx (P : Params) {K : Type} [Field K] (F : FieldCtx (mkCtx P) K) : SkewOK F :=
  skewOK F rfl

end RSV.LCHBridge
