import RSV.Model.LeoTables
import RSV.Proofs.Leo16.Loops
/-!
# `initFFTSkew P T` (the `skew` component) as folds, and its generic loop invariants

Structural analysis of the table-building loops of `Leo.initFFTSkew` (any parameters, any tables): nothing
is evaluated.

* `initFFTSkew_skew_eq`: the `skew` field of the `Id.run do` block is, literally, the final `log` map over
  `rounds P T (bits - 1)`, a fold of `(temp, skew) ↦ (tempUpd m temp, fillRound m temp skew)`;
* `tempInit_spec`: `temp[i] = 2^(i+1)`;
* `fillRow_spec`: one `for j := 2^m - 1; j < s; j += step` loop: reads below `s`, writes above;
* `fillRound_spec`: the fill loops of round `m` establish any relation `R b skew[b + 2^m - 1]` that holds for
  `(0, 0)` and is propagated by `(b, v) ↦ (b + 2^(i+1), v ^^^ temp[i])`, at every multiple `b` of `2^(m+1)`
  below `2^bits`; all other positions are untouched;
* `tempUpd_spec`: the `temp` update of round `m`, pointwise.
-/
namespace RSV.LCHBridge
open RSV.Model RSV.Proofs.Leo16

/-! ## the model as folds -/

/-- `temp` after the initial loop -/
def tempInit (bits : Nat) : Array Nat :=
  (List.range' 1 (bits - 1)).foldl (fun b a => b.set! (a - 1) (1 <<< a)) (Array.replicate (bits - 1) 0)

/-- the innermost loop: `n` iterations of `skew[j + s] = skew[j] ^ t`, `j = c + q * step` -/
def fillRow (c step s t : Nat) (sk : Array Nat) (n : Nat) : Array Nat :=
  (List.range' 0 n).foldl (fun b q => b.set! (c + q * step + s) (b[c + q * step]! ^^^ t)) sk

/-- the fill loops of round `m` -/
def fillRound (bits m : Nat) (temp sk : Array Nat) : Array Nat :=
  (List.range' m (bits - 1 - m)).foldl (fun b i =>
      fillRow ((1 <<< m) - 1) (1 <<< (m + 1)) (1 <<< (i + 1)) temp[i]! b ((1 <<< (i + 1)) / (1 <<< (m + 1))))
    (sk.set! ((1 <<< m) - 1) 0)

/-- the `temp` update of round `m` -/
def tempUpd (P : Leo.Params) (T : Leo.LUTs) (m : Nat) (temp : Array Nat) : Array Nat :=
  (List.range' (m + 1) (P.bits - 1 - (m + 1))).foldl (fun b a =>
      b.set! a (Leo.mulLog P T b[a]! (Leo.addMod P T.log[b[a]! ^^^ 1]! b[m]!)))
    (temp.set! m (P.modulus - T.log[Leo.mulLog P T temp[m]! T.log[temp[m]! ^^^ 1]!]!))

/-- the state `(temp, skew)` after `n` rounds -/
def rounds (P : Leo.Params) (T : Leo.LUTs) (n : Nat) : Array Nat × Array Nat :=
  (List.range' 0 n).foldl (fun s m => (tempUpd P T m s.1, fillRound P.bits m s.1 s.2))
    (tempInit P.bits, Array.replicate P.modulus 0)

theorem initFFTSkew_skew_eq (P : Leo.Params) (T : Leo.LUTs) :
    (Leo.initFFTSkew P T).skew =
      (List.range' 0 P.modulus).foldl (fun b a => b.set! a T.log[b[a]!]!) (rounds P T (P.bits - 1)).2 := by
  unfold Leo.initFFTSkew
  simp only [Std.Legacy.Range.forIn_eq_forIn_range', Std.Legacy.Range.size,
    List.forIn_pure_yield_eq_foldl, bind_pure_comp, map_pure, Id.run_pure, Nat.sub_zero,
    Nat.add_one_sub_one, Nat.div_one]
  rfl

theorem rounds_succ (P : Leo.Params) (T : Leo.LUTs) (n : Nat) :
    rounds P T (n + 1) = (tempUpd P T n (rounds P T n).1, fillRound P.bits n (rounds P T n).1 (rounds P T n).2) := by
  unfold rounds
  rw [List.range'_1_concat, List.foldl_append]
  simp only [List.foldl_cons, List.foldl_nil, Nat.zero_add]

/-! ## generic `set!` folds -/

theorem foldl_set_size {α : Type} (g h : Array Nat → α → Nat) (l : List α) : ∀ t : Array Nat,
    (l.foldl (fun b x => b.set! (g b x) (h b x)) t).size = t.size := by
  induction l with
  | nil => intro t; rfl
  | cons y l ih => intro t; simp only [List.foldl_cons]; rw [ih]; simp

/-! ## `tempInit` -/

theorem tempInit_size (bits : Nat) : (tempInit bits).size = bits - 1 := by
  unfold tempInit
  rw [foldl_setg_size]; simp

theorem tempInit_get (bits i : Nat) (hi : i + 1 < bits) : (tempInit bits)[i]! = 2 ^ (i + 1) := by
  unfold tempInit
  have h := foldl_setg_hit (fun a => a - 1) (fun a => 1 <<< a) (List.range' 1 (bits - 1)) (i + 1)
    (by rw [List.mem_range'_1]; omega)
    (fun y hy hyx => by
      rw [List.mem_range'_1] at hy
      have hyx' : y - 1 = i + 1 - 1 := hyx
      have : y = i + 1 := by omega
      rw [this])
    (Array.replicate (bits - 1) 0) (by simp; omega)
  simp only [Nat.add_sub_cancel] at h
  rw [h, Nat.one_shiftLeft]

/-! ## the innermost loop -/

theorem fillRow_size (c step s t : Nat) (sk : Array Nat) (n : Nat) :
    (fillRow c step s t sk n).size = sk.size :=
  foldl_set_size (fun _ q => c + q * step + s) (fun b q => b[c + q * step]! ^^^ t) _ sk

theorem fillRow_succ (c step s t : Nat) (sk : Array Nat) (n : Nat) :
    fillRow c step s t sk (n + 1) =
      (fillRow c step s t sk n).set! (c + n * step + s) ((fillRow c step s t sk n)[c + n * step]! ^^^ t) := by
  unfold fillRow
  rw [List.range'_1_concat, List.foldl_append]
  simp only [List.foldl_cons, List.foldl_nil, Nat.zero_add]

theorem fillRow_spec (c step s t : Nat) (sk : Array Nat) (hstep : 0 < step) : ∀ n,
    (∀ q, q < n → c + q * step < s) → (∀ q, q < n → c + q * step + s < sk.size) →
    (∀ q, q < n → (fillRow c step s t sk n)[c + q * step + s]! = sk[c + q * step]! ^^^ t) ∧
    (∀ j, (∀ q, q < n → j ≠ c + q * step + s) → (fillRow c step s t sk n)[j]! = sk[j]!) := by
  intro n
  induction n with
  | zero => exact fun _ _ => ⟨fun q hq => absurd hq (Nat.not_lt_zero q), fun j _ => rfl⟩
  | succ n ih =>
    intro hrd hwr
    obtain ⟨ih1, ih2⟩ := ih (fun q hq => hrd q (by omega)) (fun q hq => hwr q (by omega))
    have hn := hrd n (by omega)
    refine ⟨fun q hq => ?_, fun j hj => ?_⟩
    · rw [fillRow_succ]
      by_cases hqn : q = n
      · subst hqn
        rw [get_set_eq _ _ (by rw [fillRow_size]; exact hwr q (by omega))]
        rw [ih2 _ (fun q' hq' => by have := hrd q' (by omega); omega)]
      · have hlt : q < n := by omega
        have : q * step < n * step := Nat.mul_lt_mul_of_pos_right hlt hstep
        rw [get_set_ne _ _ (by omega)]
        exact ih1 q hlt
    · rw [fillRow_succ, get_set_ne _ _ (Ne.symm (hj n (by omega)))]
      exact ih2 j (fun q hq => hj q (by omega))

/-! ## the fill loops of one round -/

/-- the state after `n` rows of round `m` -/
def fillRows (m : Nat) (temp sk : Array Nat) (n : Nat) : Array Nat :=
  (List.range' m n).foldl (fun b i =>
      fillRow ((1 <<< m) - 1) (1 <<< (m + 1)) (1 <<< (i + 1)) temp[i]! b ((1 <<< (i + 1)) / (1 <<< (m + 1))))
    (sk.set! ((1 <<< m) - 1) 0)

theorem fillRows_succ (m : Nat) (temp sk : Array Nat) (n : Nat) :
    fillRows m temp sk (n + 1) =
      fillRow (2 ^ m - 1) (2 ^ (m + 1)) (2 ^ (m + n + 1)) temp[m + n]! (fillRows m temp sk n) (2 ^ n) := by
  unfold fillRows
  rw [List.range'_1_concat, List.foldl_append]
  simp only [List.foldl_cons, List.foldl_nil, Nat.one_shiftLeft]
  congr 1
  rw [show m + n + 1 = n + (m + 1) by omega, Nat.pow_add, Nat.mul_div_cancel _ (Nat.two_pow_pos _)]

theorem fillRows_spec (bits m : Nat) (temp sk : Array Nat) (R : Nat → Nat → Prop)
    (hsz : sk.size = 2 ^ bits - 1) (R0 : R 0 0)
    (hR : ∀ i, m ≤ i → i + 1 < bits → ∀ b v, 2 ^ (m + 1) ∣ b → b < 2 ^ (i + 1) → R b v →
      R (b + 2 ^ (i + 1)) (v ^^^ temp[i]!)) : ∀ n, m + n + 1 ≤ bits →
    (fillRows m temp sk n).size = sk.size ∧
    (∀ b, 2 ^ (m + 1) ∣ b → b < 2 ^ (m + n + 1) → R b (fillRows m temp sk n)[b + 2 ^ m - 1]!) ∧
    (∀ j, (∀ b, 2 ^ (m + 1) ∣ b → j ≠ b + 2 ^ m - 1) → (fillRows m temp sk n)[j]! = sk[j]!) := by
  intro n
  have hA : 0 < 2 ^ m := Nat.two_pow_pos m
  have hstepeq : 2 ^ (m + 1) = 2 * 2 ^ m := by rw [Nat.pow_succ]; omega
  induction n with
  | zero =>
    intro hn
    have hlt : 2 ^ m < 2 ^ bits := Nat.pow_lt_pow_right (by decide) (by omega)
    have h0 : fillRows m temp sk 0 = sk.set! (2 ^ m - 1) 0 := by
      unfold fillRows; simp [Nat.one_shiftLeft]
    rw [h0]
    refine ⟨by simp, fun b hb hlt' => ?_, fun j hj => ?_⟩
    · have : b = 0 := Nat.eq_zero_of_dvd_of_lt hb hlt'
      subst this
      rw [Nat.zero_add, get_set_eq _ _ (by omega)]
      exact R0
    · have := hj 0 (Nat.dvd_zero _)
      rw [Nat.zero_add] at this
      exact get_set_ne _ _ (Ne.symm this)
  | succ n ih =>
    intro hn
    obtain ⟨ihs, ih1, ih2⟩ := ih (by omega)
    rw [fillRows_succ]
    have hseq : 2 ^ (m + n + 1) = 2 ^ n * 2 ^ (m + 1) := by
      rw [show m + n + 1 = n + (m + 1) by omega, Nat.pow_add]
    have hs2 : 2 ^ (m + (n + 1) + 1) = 2 * 2 ^ (m + n + 1) := by
      rw [show m + (n + 1) + 1 = (m + n + 1) + 1 by omega, Nat.pow_succ]; omega
    have hbits : 2 * 2 ^ (m + n + 1) ≤ 2 ^ bits := by
      rw [← hs2]; exact Nat.pow_le_pow_right (by decide) (by omega)
    have hq : ∀ q, q < 2 ^ n → q * 2 ^ (m + 1) + 2 ^ (m + 1) ≤ 2 ^ (m + n + 1) := by
      intro q hq
      have := Nat.mul_le_mul_right (2 ^ (m + 1)) (show q + 1 ≤ 2 ^ n from hq)
      rw [Nat.add_mul, Nat.one_mul] at this
      rw [hseq]; exact this
    obtain ⟨hr1, hr2⟩ := fillRow_spec (2 ^ m - 1) (2 ^ (m + 1)) (2 ^ (m + n + 1)) temp[m + n]!
      (fillRows m temp sk n) (Nat.two_pow_pos _) (2 ^ n)
      (fun q hq' => by have := hq q hq'; omega)
      (fun q hq' => by have := hq q hq'; rw [ihs, hsz]; omega)
    refine ⟨by rw [fillRow_size, ihs], fun b hb hlt => ?_, fun j hj => ?_⟩
    · by_cases hbs : b < 2 ^ (m + n + 1)
      · rw [hr2 _ (fun q _ => by omega)]
        exact ih1 b hb hbs
      · obtain ⟨b', rfl⟩ := Nat.exists_eq_add_of_le' (Nat.le_of_not_lt hbs)
        have hb' : 2 ^ (m + 1) ∣ b' := by
          have : 2 ^ (m + 1) ∣ 2 ^ (m + n + 1) := ⟨2 ^ n, by rw [hseq, Nat.mul_comm]⟩
          exact (Nat.dvd_add_iff_left this).mpr hb
        have hb'lt : b' < 2 ^ (m + n + 1) := by omega
        obtain ⟨q, rfl⟩ := hb'
        have hqlt : q < 2 ^ n := by
          rw [hseq, Nat.mul_comm] at hb'lt
          exact Nat.lt_of_mul_lt_mul_right hb'lt
        have hpos : 2 ^ (m + 1) * q + 2 ^ (m + n + 1) + 2 ^ m - 1 =
            2 ^ m - 1 + q * 2 ^ (m + 1) + 2 ^ (m + n + 1) := by
          rw [Nat.mul_comm]; omega
        rw [hpos, hr1 q hqlt]
        have hold := ih1 (2 ^ (m + 1) * q) ⟨q, rfl⟩ hb'lt
        have hpos' : 2 ^ (m + 1) * q + 2 ^ m - 1 = 2 ^ m - 1 + q * 2 ^ (m + 1) := by
          rw [Nat.mul_comm]; omega
        rw [hpos'] at hold
        exact hR (m + n) (by omega) (by omega) _ _ ⟨q, rfl⟩ hb'lt hold
    · rw [hr2 j (fun q _ => by
        have := hj (q * 2 ^ (m + 1) + 2 ^ (m + n + 1))
          ((Nat.dvd_add_iff_left ⟨2 ^ n, by rw [hseq, Nat.mul_comm]⟩).mp ⟨q, Nat.mul_comm _ _⟩)
        omega)]
      exact ih2 j hj

theorem fillRound_eq (bits m : Nat) (temp sk : Array Nat) :
    fillRound bits m temp sk = fillRows m temp sk (bits - 1 - m) := rfl

/-- the fill loops of round `m`, `m + 2 ≤ bits` -/
theorem fillRound_spec (bits m : Nat) (temp sk : Array Nat) (R : Nat → Nat → Prop) (hm : m + 2 ≤ bits)
    (hsz : sk.size = 2 ^ bits - 1) (R0 : R 0 0)
    (hR : ∀ i, m ≤ i → i + 1 < bits → ∀ b v, 2 ^ (m + 1) ∣ b → b < 2 ^ (i + 1) → R b v →
      R (b + 2 ^ (i + 1)) (v ^^^ temp[i]!)) :
    (fillRound bits m temp sk).size = sk.size ∧
    (∀ b, 2 ^ (m + 1) ∣ b → b < 2 ^ bits → R b (fillRound bits m temp sk)[b + 2 ^ m - 1]!) ∧
    (∀ j, (∀ b, 2 ^ (m + 1) ∣ b → j ≠ b + 2 ^ m - 1) → (fillRound bits m temp sk)[j]! = sk[j]!) := by
  have h := fillRows_spec bits m temp sk R hsz R0 hR (bits - 1 - m) (by omega)
  rw [show m + (bits - 1 - m) + 1 = bits by omega] at h
  exact h

/-! ## the `temp` update -/

theorem foldl_map2_get (G : Nat → Nat → Nat) (m : Nat) (b0 : Array Nat) : ∀ n, m + 1 + n ≤ b0.size →
    ((List.range' (m + 1) n).foldl (fun b a => b.set! a (G b[a]! b[m]!)) b0).size = b0.size ∧
    ∀ i, ((List.range' (m + 1) n).foldl (fun b a => b.set! a (G b[a]! b[m]!)) b0)[i]! =
      if m + 1 ≤ i ∧ i < m + 1 + n then G b0[i]! b0[m]! else b0[i]! := by
  intro n
  induction n with
  | zero => exact fun _ => ⟨rfl, fun i => by rw [if_neg (by omega)]; rfl⟩
  | succ n ih =>
    intro hn
    obtain ⟨hs, hg⟩ := ih (by omega)
    rw [List.range'_1_concat, List.foldl_append]
    simp only [List.foldl_cons, List.foldl_nil]
    refine ⟨by simpa using hs, fun i => ?_⟩
    by_cases hin : m + 1 + n = i
    · subst hin
      rw [get_set_eq _ _ (by omega), hg, hg, if_neg (by omega), if_neg (by omega), if_pos (by omega)]
    · rw [get_set_ne _ _ hin, hg]
      by_cases h1 : m + 1 ≤ i ∧ i < m + 1 + n
      · rw [if_pos h1, if_pos (by omega)]
      · rw [if_neg h1, if_neg (by omega)]

theorem tempUpd_spec (P : Leo.Params) (T : Leo.LUTs) (m : Nat) (temp : Array Nat)
    (hsz : temp.size = P.bits - 1) (hm : m + 2 ≤ P.bits) :
    (tempUpd P T m temp).size = temp.size ∧
    (tempUpd P T m temp)[m]! = P.modulus - T.log[Leo.mulLog P T temp[m]! T.log[temp[m]! ^^^ 1]!]! ∧
    (∀ i, m < i → i + 1 < P.bits → (tempUpd P T m temp)[i]! =
      Leo.mulLog P T temp[i]! (Leo.addMod P T.log[temp[i]! ^^^ 1]!
        (P.modulus - T.log[Leo.mulLog P T temp[m]! T.log[temp[m]! ^^^ 1]!]!))) := by
  unfold tempUpd
  obtain ⟨hs, hg⟩ := foldl_map2_get (fun x y => Leo.mulLog P T x (Leo.addMod P T.log[x ^^^ 1]! y)) m
    (temp.set! m (P.modulus - T.log[Leo.mulLog P T temp[m]! T.log[temp[m]! ^^^ 1]!]!))
    (P.bits - 1 - (m + 1)) (by simp; omega)
  refine ⟨by simpa using hs, ?_, fun i hmi hi => ?_⟩
  · rw [hg, if_neg (by omega), get_set_eq _ _ (by omega)]
  · rw [hg, if_pos (by omega), get_set_ne _ _ (by omega), get_set_eq _ _ (by omega)]

end RSV.LCHBridge
