import RSV.Proofs.LCHBridge.Iface
import RSV.Proofs.LeoSchedBounded
/-!
# Symbol-wise reading of Leopard work rows in a field

For a field reading `F : FieldCtx C K` of a table context `C`:

* `modulus_eq'`, `mulLinearOn_of_fieldCtx` — the bounded linearity hypothesis `MulLinearOn C (2^F.k)` of
  `RSV.Proofs.LeoSchedBounded` is a *consequence* of `F`;
* `omega_beta'`, `indep_beta'` — `omega (beta F) F.k j = F.φ j` for `j < 2^F.k`, hence `Indep (beta F) F.k`;
* `rd F w base s idx = F.φ (w[base + idx]![s]!)` — the symbol at position `s` of the rows of a work area, read
  in the field, as a function of the row index (relative to `base`);
* `φ_xorVec`, `φ_mulVec`, `φ_zeroVec` — reading commutes with the row operations;
* `TwOK F logm tw` — the table entry `logm` represents the twiddle factor `tw` (sentinel `modulus` for `0`);
  `φ_bfF`, `φ_bfI` — the two butterflies `bfF`, `bfI` read symbol-wise are the Lin–Chung–Han butterflies;
  `vecBelow_bfF`, `vecBelow_bfI` — they keep the symbols below `2^F.k`.
-/
namespace RSV.LCHBridge
open RSV.Model.Leo RSV.LCH RSV.Proofs.LeoSched RSV.Proofs.LCHSched

variable {C : Ctx} {K : Type} [Field K] (F : FieldCtx C K)

/-! ## the context -/

theorem modulus_eq' : C.P.modulus = 2 ^ F.k - 1 := by
  simp [Params.modulus, Params.order, Nat.shiftLeft_eq, F.hbits]

theorem modulus_lt' : C.P.modulus < 2 ^ F.k := by
  rw [modulus_eq' F]; have := Nat.two_pow_pos F.k; omega

/-- the bounded linearity hypothesis of `LeoSchedBounded` follows from a field reading -/
theorem mulLinearOn_of_fieldCtx : MulLinearOn C (2 ^ F.k) where
  zero := mulSym_zero C
  lt := F.mul_lt
  pow2 := ⟨F.k, rfl⟩
  xor := by
    intro a b m ha hb hm
    have hab : a ^^^ b < 2 ^ F.k := Nat.xor_lt_two_pow ha hb
    apply F.φ_inj _ _ (F.mul_lt _ _ hab hm)
      (Nat.xor_lt_two_pow (F.mul_lt _ _ ha hm) (F.mul_lt _ _ hb hm))
    rw [F.φ_mul _ _ hab hm, F.φ_xor _ _ ha hb, F.φ_xor _ _ (F.mul_lt _ _ ha hm) (F.mul_lt _ _ hb hm),
      F.φ_mul _ _ ha hm, F.φ_mul _ _ hb hm, add_mul]

/-! ## `omega` of the Cantor basis image is `φ` -/

theorem two_pow_add_eq_xor {i r : ℕ} (hr : r < 2 ^ i) : 2 ^ i + r = 2 ^ i ^^^ r := by
  apply Nat.eq_of_testBit_eq
  intro j
  have h := Nat.testBit_two_pow_mul_add 1 hr j
  rw [Nat.mul_one] at h
  rw [h, Nat.testBit_xor, Nat.testBit_two_pow]
  by_cases hj : j < i
  · have : ¬ i = j := by omega
    simp [hj, this]
  · have hrj : r.testBit j = false :=
      Nat.testBit_lt_two_pow (lt_of_lt_of_le hr (Nat.pow_le_pow_right (by decide) (by omega)))
    by_cases hij : i = j
    · subst hij; simp [hrj]
    · have h1 : Nat.testBit 1 (j - i) = false := by
        rw [← pow_zero 2, Nat.testBit_two_pow]; simp; omega
      simp [hj, hij, hrj, h1]

theorem omega_beta_aux' (k' : ℕ) (hk' : k' ≤ F.k) :
    ∀ j, j < 2 ^ k' → omega (beta F) F.k j = F.φ j := by
  have : CharP K 2 := F.char2
  induction k' with
  | zero =>
    intro j hj
    have : j = 0 := by simpa using hj
    subst this
    rw [omega_zero, F.φ_zero]
  | succ k' ih =>
    intro j hj
    by_cases hlo : j < 2 ^ k'
    · exact ih (by omega) j hlo
    · obtain ⟨r, rfl⟩ := Nat.exists_eq_add_of_le (Nat.le_of_not_lt hlo)
      have hr : r < 2 ^ k' := by rw [pow_succ] at hj; omega
      have hk : k' < F.k := hk'
      have hpk : 2 ^ k' < 2 ^ F.k := Nat.pow_lt_pow_right (by decide) hk
      rw [omega_two_pow_add (beta F) F.k hk hr, ih (by omega) r hr, two_pow_add_eq_xor hr,
        F.φ_xor _ _ hpk (by omega)]
      rfl

/-- the element with index `j` is `φ j` -/
theorem omega_beta' {j : ℕ} (hj : j < 2 ^ F.k) : omega (beta F) F.k j = F.φ j :=
  omega_beta_aux' F F.k (Nat.le_refl _) j hj

theorem indep_beta' : Indep (beta F) F.k := by
  intro a ha b hb hab
  rw [omega_beta' F ha, omega_beta' F hb] at hab
  exact F.φ_inj a b ha hb hab

/-! ## reading rows -/

/-- symbol `s` of row `base + idx`, in the field -/
def rd (w : Array Vec) (base s : ℕ) : ℕ → K := fun idx => F.φ ((w[base + idx]!)[s]!)

theorem rd_apply (w : Array Vec) (base s idx : ℕ) : rd F w base s idx = F.φ ((w[base + idx]!)[s]!) := rfl

theorem φ_zeroVec (len s : ℕ) : F.φ ((zeroVec len)[s]!) = 0 := by
  rw [get!_zeroVec, F.φ_zero]

theorem φ_xorVec {x y : Vec} {s : ℕ} (hs : s < x.size) (hx : VecBelow (2 ^ F.k) x)
    (hy : VecBelow (2 ^ F.k) y) : F.φ ((xorVec x y)[s]!) = F.φ x[s]! + F.φ y[s]! := by
  rw [get!_xorVec x y s hs, F.φ_xor _ _ (hx s hs) (hy.get (Nat.two_pow_pos _) s)]

theorem φ_mulVec {y : Vec} {s m : ℕ} (hs : s < y.size) (hy : VecBelow (2 ^ F.k) y) (hm : m < 2 ^ F.k) :
    F.φ ((mulVec C y m)[s]!) = F.φ y[s]! * F.g ^ m := by
  rw [get!_mulVec C y m s hs, F.φ_mul _ _ (hy s hs) hm]

/-! ## butterflies -/

/-- the table entry `logm` represents the twiddle factor `tw`: the sentinel `modulus = 2^k - 1` for `0`, the
logarithm to base `g` otherwise -/
def TwOK (logm : ℕ) (tw : K) : Prop :=
  (tw = 0 ∧ logm = 2 ^ F.k - 1) ∨ (logm < 2 ^ F.k - 1 ∧ F.g ^ logm = tw)

variable {F}

theorem TwOK.lt {logm : ℕ} {tw : K} (h : TwOK F logm tw) : logm < 2 ^ F.k := by
  have := Nat.two_pow_pos F.k
  rcases h with ⟨_, h⟩ | ⟨h, _⟩ <;> omega

/-- what `SkewOK` says about one table entry -/
theorem SkewOK.twOK (hS : SkewOK F) {i b : ℕ} (hi : i < F.k) (hb : 2 ^ (i + 1) ∣ b)
    (hbk : b + 2 ^ (i + 1) ≤ 2 ^ F.k) :
    TwOK F (skewAt C (b + 2 ^ i - 1)) (What (beta F) F.k i (omega (beta F) F.k b)) := by
  obtain ⟨h0, h1⟩ := hS i b hi hb hbk
  by_cases hz : What (beta F) F.k i (omega (beta F) F.k b) = 0
  · exact Or.inl ⟨hz, h0 hz⟩
  · exact Or.inr (h1 hz)

theorem vecBelow_bfF {x y : Vec} {logm : ℕ} (hx : VecBelow (2 ^ F.k) x) (hy : VecBelow (2 ^ F.k) y)
    (hm : logm < 2 ^ F.k) :
    VecBelow (2 ^ F.k) (bfF C x y logm).1 ∧ VecBelow (2 ^ F.k) (bfF C x y logm).2 := by
  have hC := mulLinearOn_of_fieldCtx F
  have h1 : VecBelow (2 ^ F.k) (bfF C x y logm).1 := by
    unfold bfF
    simp only
    split
    · exact hx
    · exact vecBelow_xorVec hC hx (vecBelow_mulVec hC hy hm)
  exact ⟨h1, vecBelow_xorVec hC hy h1⟩

theorem vecBelow_bfI {x y : Vec} {logm : ℕ} (hx : VecBelow (2 ^ F.k) x) (hy : VecBelow (2 ^ F.k) y)
    (hm : logm < 2 ^ F.k) :
    VecBelow (2 ^ F.k) (bfI C x y logm).1 ∧ VecBelow (2 ^ F.k) (bfI C x y logm).2 := by
  have hC := mulLinearOn_of_fieldCtx F
  have h2 : VecBelow (2 ^ F.k) (xorVec y x) := vecBelow_xorVec hC hy hx
  refine ⟨?_, h2⟩
  unfold bfI
  simp only
  split
  · exact hx
  · exact vecBelow_xorVec hC hx (vecBelow_mulVec hC h2 hm)

/-- first output of the forward butterfly: `x + tw·y` -/
theorem φ_bfF_fst {len s logm : ℕ} {tw : K} {x y : Vec} (hx : x.size = len) (hy : y.size = len)
    (hs : s < len) (bx : VecBelow (2 ^ F.k) x) (by' : VecBelow (2 ^ F.k) y) (ht : TwOK F logm tw) :
    F.φ ((bfF C x y logm).1[s]!) = F.φ x[s]! + tw * F.φ y[s]! := by
  have hC := mulLinearOn_of_fieldCtx F
  unfold bfF
  simp only
  rcases ht with ⟨h0, hm⟩ | ⟨hlt, hg⟩
  · rw [if_pos (by rw [modulus_eq' F]; exact hm), h0, zero_mul, add_zero]
  · rw [if_neg (by rw [modulus_eq' F]; omega),
      φ_xorVec F (by omega) bx (vecBelow_mulVec hC by' (by omega)),
      φ_mulVec F (by omega) by' (by omega), hg, mul_comm]

/-- second output of the forward butterfly: `(x + tw·y) + y` -/
theorem φ_bfF_snd {len s logm : ℕ} {tw : K} {x y : Vec} (hx : x.size = len) (hy : y.size = len)
    (hs : s < len) (bx : VecBelow (2 ^ F.k) x) (by' : VecBelow (2 ^ F.k) y) (ht : TwOK F logm tw) :
    F.φ ((bfF C x y logm).2[s]!) = (F.φ x[s]! + tw * F.φ y[s]!) + F.φ y[s]! := by
  have h1 := φ_bfF_fst hx hy hs bx by' ht
  have hb := (vecBelow_bfF (C := C) bx by' ht.lt).1
  show F.φ ((xorVec y (bfF C x y logm).1)[s]!) = _
  rw [φ_xorVec F (by omega) by' hb, h1, add_comm]

/-- second output of the inverse butterfly: `x + y` -/
theorem φ_bfI_snd {len s logm : ℕ} {x y : Vec} (hy : y.size = len)
    (hs : s < len) (bx : VecBelow (2 ^ F.k) x) (by' : VecBelow (2 ^ F.k) y) :
    F.φ ((bfI C x y logm).2[s]!) = F.φ x[s]! + F.φ y[s]! := by
  show F.φ ((xorVec y x)[s]!) = _
  rw [φ_xorVec F (by omega) by' bx, add_comm]

/-- first output of the inverse butterfly: `x + tw·(x + y)` -/
theorem φ_bfI_fst {len s logm : ℕ} {tw : K} {x y : Vec} (hx : x.size = len) (hy : y.size = len)
    (hs : s < len) (bx : VecBelow (2 ^ F.k) x) (by' : VecBelow (2 ^ F.k) y) (ht : TwOK F logm tw) :
    F.φ ((bfI C x y logm).1[s]!) = F.φ x[s]! + tw * (F.φ x[s]! + F.φ y[s]!) := by
  have hC := mulLinearOn_of_fieldCtx F
  have h2 : VecBelow (2 ^ F.k) (xorVec y x) := vecBelow_xorVec hC by' bx
  have e2 : F.φ ((xorVec y x)[s]!) = F.φ x[s]! + F.φ y[s]! := by
    rw [φ_xorVec F (by omega) by' bx, add_comm]
  unfold bfI
  simp only
  rcases ht with ⟨h0, hm⟩ | ⟨hlt, hg⟩
  · rw [if_pos (by rw [modulus_eq' F]; exact hm), h0, zero_mul, add_zero]
  · rw [if_neg (by rw [modulus_eq' F]; omega),
      φ_xorVec F (by omega) bx (vecBelow_mulVec hC h2 (by omega)),
      φ_mulVec F (by rw [size_xorVec]; omega) h2 (by omega), e2, hg, mul_comm]

end RSV.LCHBridge
