import RSV.Proofs.LCHBridge.EncodeThm
import RSV.Proofs.LeoSchedRange
import RSV.Proofs.Columns
import RSV.Model.LeoVerify
import Mathlib.Data.Finset.Sum
import Mathlib.Data.Fintype.Card
/-!
# Leopard `Verify`: lemmas behind `RSV.Props.C06leo`

`leoVerify C d p len shards` re-encodes `shards[0 … d]` and compares with `shards[d … d + p]`.

* arrays: `leoVerify_append` (`leoVerify (data ++ par) = (encode data == par)`), `setSym_append_left/right`,
  symbols of `setSym`;
* `encode_rows`: the parity rows produced by `encode` have `len` symbols;
* `encode_single_diff`: if two data sets differ, at symbol position `s`, in exactly one shard `c`, then EVERY
  parity symbol `(r, s)` differs — by `encMatrix r c * (φ new - φ old)`, entry non-zero (`MDS_entry_ne_zero`), `φ`
  injective;
* `encode_diff_upto_p`: if they differ at position `s` in at least one and at most `p` shards, SOME parity symbol
  `(r, s)` differs (the code has distance `p + 1`).
-/
namespace RSV.LCHBridge
open RSV.Model.Leo RSV.LCH RSV.Proofs.LeoSched RSV.Proofs.LCHSched Finset

/-! ## arrays -/

theorem get!_append' {α} [Inhabited α] (x y : Array α) (i : ℕ) :
    (x ++ y)[i]! = if i < x.size then x[i]! else y[i - x.size]! := by
  by_cases h : i < (x ++ y).size
  · rw [get!_lt _ i h, Array.getElem_append]
    have h' : i < x.size + y.size := by simpa using h
    by_cases h1 : i < x.size
    · simp [h1]
    · simp only [h1, dite_false, if_false]; rw [get!_lt y (i - x.size) (by omega)]
  · have h' : x.size + y.size ≤ i := by simpa using h
    rw [get!_ge _ i (by simpa using h'), if_neg (by omega), get!_ge y _ (by omega)]

@[simp] theorem size_setSym (sh : Array Vec) (i s v : ℕ) : (setSym sh i s v).size = sh.size := by
  unfold setSym; rw [size_set!]

theorem get!_setSym_ne (sh : Array Vec) (i j s v : ℕ) (h : i ≠ j) : (setSym sh i s v)[j]! = sh[j]! :=
  get!_set!_ne _ _ _ _ h

theorem get!_setSym_self (sh : Array Vec) (i s v : ℕ) (h : i < sh.size) :
    (setSym sh i s v)[i]! = sh[i]!.set! s v :=
  get!_set!_self _ _ _ h

/-- the overwritten symbol -/
theorem sym_setSym_self (sh : Array Vec) (i s v : ℕ) (hi : i < sh.size) (hs : s < sh[i]!.size) :
    ((setSym sh i s v)[i]!)[s]! = v := by
  rw [get!_setSym_self sh i s v hi, get!_set!_self _ _ _ hs]

/-- every other symbol is unchanged -/
theorem sym_setSym_ne (sh : Array Vec) (i j s k v : ℕ) (h : i ≠ j ∨ s ≠ k) :
    ((setSym sh i s v)[j]!)[k]! = (sh[j]!)[k]! := by
  unfold setSym
  rw [get!_set!]
  split
  · next hh =>
    obtain ⟨rfl, _⟩ := hh
    rcases h with h | h
    · exact absurd rfl h
    · rw [get!_set!_ne _ _ _ _ h]
  · rfl

theorem size_row_setSym (sh : Array Vec) (i j s v : ℕ) : ((setSym sh i s v)[j]!).size = (sh[j]!).size := by
  unfold setSym
  rw [get!_set!]
  split
  · next hh => obtain ⟨rfl, _⟩ := hh; rw [size_set!]
  · rfl

theorem WF_setSym {len : ℕ} {sh : Array Vec} (h : WF len sh) (i s v : ℕ) : WF len (setSym sh i s v) := by
  intro j hj
  rw [size_row_setSym]
  exact h j (by simpa using hj)

theorem symsBelow_setSym {B : ℕ} {sh : Array Vec} (h : SymsBelow B sh) (i s : ℕ) {v : ℕ} (hv : v < B) :
    SymsBelow B (setSym sh i s v) := by
  intro j hj k hk
  rw [size_setSym] at hj
  rw [size_row_setSym] at hk
  by_cases hh : i = j ∧ s = k
  · obtain ⟨rfl, rfl⟩ := hh
    rw [sym_setSym_self sh i s v hj hk]; exact hv
  · rw [sym_setSym_ne sh i j s k v (by omega)]
    exact h j hj k hk

theorem setSym_append_left (data par : Array Vec) (c s v : ℕ) (hc : c < data.size) :
    setSym (data ++ par) c s v = setSym data c s v ++ par := by
  unfold setSym
  simp only [Array.set!_eq_setIfInBounds]
  rw [get!_append', if_pos hc, Array.setIfInBounds_append_left hc]

theorem setSym_append_right (data par : Array Vec) (r s v : ℕ) :
    setSym (data ++ par) (data.size + r) s v = data ++ setSym par r s v := by
  unfold setSym
  simp only [Array.set!_eq_setIfInBounds]
  rw [get!_append', if_neg (by omega), Nat.add_sub_cancel_left,
    Array.setIfInBounds_append_right (by omega), Nat.add_sub_cancel_left]

/-- on `data ++ par`, `Verify` compares `encode data` with `par` -/
theorem leoVerify_append (C : Ctx) {d p : ℕ} (len : ℕ) (data par : Array Vec) (hd : data.size = d)
    (hp : par.size = p) : leoVerify C d p len (data ++ par) = (encode C d p len data == par) := by
  unfold leoVerify
  subst hd hp
  rw [Array.extract_append_left, Array.extract_append_right, Array.extract_size, Array.extract_size]

theorem leoVerify_eq_true_iff (C : Ctx) (d p len : ℕ) (shards : Array Vec) :
    leoVerify C d p len shards = true ↔
      encode C d p len (shards.extract 0 d) = shards.extract d (d + p) := by
  unfold leoVerify; exact beq_iff_eq

theorem leoVerify_eq_false_iff (C : Ctx) (d p len : ℕ) (shards : Array Vec) :
    leoVerify C d p len shards = false ↔
      encode C d p len (shards.extract 0 d) ≠ shards.extract d (d + p) := by
  unfold leoVerify; exact beq_eq_false_iff_ne

/-! ## the rows of `encode` -/

variable {C : Ctx}

theorem size_encode' (C : Ctx) (d p len : ℕ) (data : Array Vec) (hp64 : p ≤ 2 ^ 64) :
    (encode C d p len data).size = p :=
  size_encode C d p len data (by have := le_ceilPow2 p hp64; omega)

/-- every parity row has `len` symbols -/
theorem encode_rows (C : Ctx) {d p len : ℕ} {data : Array Vec} (hp64 : p ≤ 2 ^ 64) (hdsz : data.size = d)
    (hwd : WF len data) : WF len (encode C d p len data) := by
  have hpm := le_ceilPow2 p hp64
  have hin := RSV.Proofs.LeoSchedRange.encodeSched_in C d p hp64
  have h := run_wf C (WF_replicate (2 * ceilPow2 p) len) hwd (steps := (encodeSched C d p).toList) (by
    intro st hst
    rw [Array.size_replicate, hdsz]
    exact hin st hst)
  rw [Array.size_replicate] at h
  intro i hi
  have hip : i < p := by rw [size_encode' C d p len data hp64] at hi; exact hi
  unfold encode
  rw [get!_extract _ 0 p i (by omega) (by rw [h.2]; omega), Nat.zero_add]
  exact h.1 i (by rw [h.2]; omega)

/-! ## a changed data symbol changes the parity -/

variable {K : Type} [Field K] {F : FieldCtx C K}

/-- if the data sets differ at symbol position `s` in exactly one shard `c`, every parity symbol `(r, s)` moves by
`encMatrix r c * (φ new - φ old)` -/
theorem encode_single_diff_eq (hS : SkewOK F) {d p t len s : ℕ} {data data' : Array Vec} (hd : 0 < d)
    (hp64 : p ≤ 2 ^ 64) (hm : ceilPow2 p = 2 ^ t) (hadm : d + ceilPow2 p ≤ 2 ^ F.k)
    (hdsz : d ≤ data.size) (hwd : WF len data) (hbd : SymsBelow (2 ^ F.k) data)
    (hdsz' : d ≤ data'.size) (hwd' : WF len data') (hbd' : SymsBelow (2 ^ F.k) data') (hs : s < len)
    (c : Fin d) (hsame : ∀ c' : Fin d, c' ≠ c → (data'[c'.val]!)[s]! = (data[c'.val]!)[s]!) (r : Fin p) :
    F.φ (((encode C d p len data')[r.val]!)[s]!) - F.φ (((encode C d p len data)[r.val]!)[s]!) =
      encMatrix (beta F) F.k t p d r c * (F.φ ((data'[c.val]!)[s]!) - F.φ ((data[c.val]!)[s]!)) := by
  rw [encode_eq_encMatrix hS hd hp64 hm hadm hdsz' hwd' hbd' r hs,
    encode_eq_encMatrix hS hd hp64 hm hadm hdsz hwd hbd r hs, ← Finset.sum_sub_distrib]
  rw [Finset.sum_eq_single c]
  · rw [mul_sub]
  · intro c' _ hc'
    rw [hsame c' hc', sub_self]
  · intro h; exact absurd (Finset.mem_univ c) h

/-- **one changed data symbol changes every parity symbol at that position** -/
theorem encode_single_diff (hS : SkewOK F) {d p len s : ℕ} {data data' : Array Vec} (hd : 0 < d)
    (hp64 : p ≤ 2 ^ 64) (hadm : d + ceilPow2 p ≤ 2 ^ F.k)
    (hdsz : d ≤ data.size) (hwd : WF len data) (hbd : SymsBelow (2 ^ F.k) data)
    (hdsz' : d ≤ data'.size) (hwd' : WF len data') (hbd' : SymsBelow (2 ^ F.k) data') (hs : s < len)
    (c : Fin d) (hsame : ∀ c' : Fin d, c' ≠ c → (data'[c'.val]!)[s]! = (data[c'.val]!)[s]!)
    (hdiff : (data'[c.val]!)[s]! ≠ (data[c.val]!)[s]!) (r : Fin p) :
    ((encode C d p len data')[r.val]!)[s]! ≠ ((encode C d p len data)[r.val]!)[s]! := by
  obtain ⟨t, hm⟩ := RSV.Proofs.LeoSchedRange.ceilPow2_pow2 p
  intro heq
  have h := encode_single_diff_eq hS hd hp64 hm hadm hdsz hwd hbd hdsz' hwd' hbd' hs c hsame r
  rw [heq, sub_self] at h
  have hB := Nat.two_pow_pos F.k
  have hne : F.φ ((data'[c.val]!)[s]!) - F.φ ((data[c.val]!)[s]!) ≠ 0 :=
    sub_ne_zero.mpr fun e =>
      hdiff (F.φ_inj _ _ ((hbd'.row c.val).get hB s) ((hbd.row c.val).get hB s) e)
  exact mul_ne_zero (RSV.Model.MDS_entry_ne_zero (encode_generator_mds F hd hp64 hm hadm) r c) hne h.symm

/-- **the code has distance `p + 1`**: if the data sets differ at position `s` in at least one and at most `p`
shards (all the differing shards lie in `D`, `D.card ≤ p`), some parity symbol `(r, s)` differs -/
theorem encode_diff_upto_p (hS : SkewOK F) {d p len s : ℕ} {data data' : Array Vec} (hd : 0 < d)
    (hp64 : p ≤ 2 ^ 64) (hadm : d + ceilPow2 p ≤ 2 ^ F.k)
    (hdsz : d ≤ data.size) (hwd : WF len data) (hbd : SymsBelow (2 ^ F.k) data)
    (hdsz' : d ≤ data'.size) (hwd' : WF len data') (hbd' : SymsBelow (2 ^ F.k) data') (hs : s < len)
    (D : Finset (Fin d)) (hcard : D.card ≤ p)
    (hsame : ∀ c : Fin d, c ∉ D → (data'[c.val]!)[s]! = (data[c.val]!)[s]!)
    (hdiff : ∃ c : Fin d, (data'[c.val]!)[s]! ≠ (data[c.val]!)[s]!) :
    ∃ r : Fin p, ((encode C d p len data')[r.val]!)[s]! ≠ ((encode C d p len data)[r.val]!)[s]! := by
  obtain ⟨t, hm⟩ := RSV.Proofs.LeoSchedRange.ceilPow2_pow2 p
  by_contra hno
  have hall : ∀ r : Fin p, ((encode C d p len data')[r.val]!)[s]! = ((encode C d p len data)[r.val]!)[s]! := by
    intro r; by_contra h; exact hno ⟨r, h⟩
  have hDle : D.card ≤ d := by simpa using Finset.card_le_univ D
  have hT : d ≤ (Dᶜ.disjSum (Finset.univ : Finset (Fin p))).card := by
    rw [Finset.card_disjSum, Finset.card_compl, Finset.card_univ, Fintype.card_fin, Fintype.card_fin]
    omega
  obtain ⟨S, hST, hScard⟩ := Finset.exists_subset_card_eq hT
  obtain ⟨c, hc⟩ := hdiff
  refine hc (encode_any_d hS hd hp64 hm hadm hdsz' hwd' hbd' hdsz hwd hbd hs S hScard ?_ ?_ c)
  · intro c' hc'
    have := hST hc'
    rw [Finset.inl_mem_disjSum, Finset.mem_compl] at this
    exact hsame c' this
  · intro r _
    exact hall r

end RSV.LCHBridge
