import RSV.Proofs.LCHDecode.FwhtLayers
import RSV.Proofs.LCHDecode.FwhtMath
import Mathlib.Data.ZMod.Basic
/-!
# `fwht` computes the Walsh–Hadamard transform modulo `2^k - 1`

`addMod`/`subMod` on representatives in `[0, modulus]` (both `0` and `modulus` stand for zero) are `+`/`-` in
`ZMod (2^k - 1)`; hence `fwht_H`: entrywise, `(fwht P data mtrunc)[x] ≡ H k data x`, entries stay `≤ modulus`.
-/
namespace RSV.LCHDecode
open RSV.Model RSV.Proofs.Leo16

variable (P : Leo.Params) {k : ℕ}

theorem addMod_cast (hk : P.bits = k) {a b : ℕ} (ha : a ≤ 2 ^ k - 1) (hb : b ≤ 2 ^ k - 1) :
    Leo.addMod P a b ≤ 2 ^ k - 1 ∧ ((Leo.addMod P a b : ℕ) : ZMod (2 ^ k - 1)) = (a : ZMod (2 ^ k - 1)) + b := by
  have hpos := Nat.two_pow_pos k
  unfold Leo.addMod Leo.Params.order
  simp only
  rw [hk, Nat.one_shiftLeft, Nat.shiftRight_eq_div_pow]
  by_cases hlt : a + b < 2 ^ k
  · rw [Nat.div_eq_of_lt hlt, Nat.add_zero, Nat.mod_eq_of_lt hlt]
    exact ⟨by omega, Nat.cast_add a b⟩
  · have h1 : (a + b) / 2 ^ k = 1 := Nat.div_eq_of_lt_le (by omega) (by omega)
    rw [h1, Nat.mod_eq_sub_mod (by omega), Nat.mod_eq_of_lt (by omega)]
    refine ⟨by omega, ?_⟩
    have h2 : a + b = (a + b + 1 - 2 ^ k) + (2 ^ k - 1) := by omega
    rw [← Nat.cast_add a b]
    conv_rhs => rw [h2, Nat.cast_add, ZMod.natCast_self, add_zero]

theorem subMod_cast (hk : P.bits = k) {a b : ℕ} (ha : a ≤ 2 ^ k - 1) (hb : b ≤ 2 ^ k - 1) :
    Leo.subMod P a b ≤ 2 ^ k - 1 ∧ ((Leo.subMod P a b : ℕ) : ZMod (2 ^ k - 1)) = (a : ZMod (2 ^ k - 1)) - b := by
  have hM : P.modulus = 2 ^ k - 1 := by unfold Leo.Params.modulus Leo.Params.order; rw [hk, Nat.one_shiftLeft]
  unfold Leo.subMod
  rw [hM]
  split
  · rename_i hle
    exact ⟨by omega, Nat.cast_sub hle⟩
  · refine ⟨by omega, ?_⟩
    rw [Nat.cast_sub (by omega), Nat.cast_add, ZMod.natCast_self, add_zero]

theorem wlN_cast (hk : P.bits = k) (b : ℕ) (f : ℕ → ℕ) (hf : ∀ x, f x ≤ 2 ^ k - 1) (x : ℕ) :
    wlN P b f x ≤ 2 ^ k - 1 ∧
    ((wlN P b f x : ℕ) : ZMod (2 ^ k - 1)) = wl b (fun j => ((f j : ℕ) : ZMod (2 ^ k - 1))) x := by
  unfold wlN wl
  split
  · exact subMod_cast P hk (hf _) (hf _)
  · exact addMod_cast P hk (hf _) (hf _)

theorem WN_cast (hk : P.bits = k) (f : ℕ → ℕ) (hf : ∀ x, f x ≤ 2 ^ k - 1) : ∀ n x,
    WN P n f x ≤ 2 ^ k - 1 ∧
    ((WN P n f x : ℕ) : ZMod (2 ^ k - 1)) = W n (fun j => ((f j : ℕ) : ZMod (2 ^ k - 1))) x := by
  intro n
  induction n with
  | zero => exact fun x => ⟨hf x, rfl⟩
  | succ n ih =>
    intro x
    have h := wlN_cast P hk n (WN P n f) (fun y => (ih y).1) x
    refine ⟨h.1, ?_⟩
    show ((wlN P n (WN P n f) x : ℕ) : ZMod (2 ^ k - 1)) = wl n (W n _) x
    rw [h.2]
    congr 1
    exact funext fun y => (ih y).2

/-- **`fwht` is the Walsh–Hadamard transform modulo `2^k - 1`** (`k` even, table of `2^k` entries, all `≤ modulus`,
zero from `mtrunc` on) -/
theorem fwht_H (h : ℕ) (hk : P.bits = k) (hev : k = 2 * h) (data : Array ℕ) (mtrunc : ℕ)
    (hsz : data.size = 2 ^ k) (hm : mtrunc ≤ 2 ^ k) (hz : ∀ j, mtrunc ≤ j → data[j]! = 0)
    (hle : ∀ j : ℕ, data[j]! ≤ 2 ^ k - 1) :
    (Leo.fwht P data mtrunc).size = 2 ^ k ∧
    (∀ x : ℕ, (Leo.fwht P data mtrunc)[x]! ≤ 2 ^ k - 1) ∧
    ∀ x, x < 2 ^ k → (((Leo.fwht P data mtrunc)[x]! : ℕ) : ZMod (2 ^ k - 1)) =
      H k (fun j : ℕ => ((data[j]! : ℕ) : ZMod (2 ^ k - 1))) x := by
  subst hk
  obtain ⟨h1, h2⟩ := fwht_WN P h hev data mtrunc hsz hm hz
  refine ⟨h1, fun x => ?_, fun x hx => ?_⟩
  · rw [h2]; exact (WN_cast P rfl _ hle _ x).1
  · rw [h2, (WN_cast P rfl _ hle _ x).2, W_eq_H _ _ _ hx]

end RSV.LCHDecode
